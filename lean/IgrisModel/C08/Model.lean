/-
  C08 — model of compat/libc/string/*.c (the bundled libc's mem*/str*).

  Memory.  One shared partial byte memory `Mem = address → Option Byte`:
  `none` means "not mapped" and every access to such a cell is a fault
  (`Option.none` as the result of the whole function).  Buffers are ranges of
  this one memory, pointers are plain addresses (`Nat`, NULL is 0 / `none`),
  so aliasing and overlap of source and destination are representable, and
  "the function touches nothing outside the ranges its definition allows" is
  the statement "it does not fault when only those ranges are mapped".

  Every function is transcribed statement by statement from its `.c` file
  (after the `fix:` commits of branch fix-C08).  Loops whose trip count is an
  explicit `n` recurse structurally on it; loops that run "until NUL" take
  explicit `fuel` (running out of fuel is also reported as `none`; the theorems
  state how much fuel is enough).  A memory read has no side effect, so where
  the C text re-reads `*p` the model reads once.

  Platform facts used (asserted by the harness, op `plat`): `char` is signed,
  `sizeof(long) == 8`.
-/
import IgrisModel.Common.Proto
namespace Igris.C08
open Igris.Proto

/-- addresses are natural numbers; NULL is 0 resp. `none` -/
notation "Ptr" => Nat
abbrev Mem := Ptr → Option Byte

/-- `*a` as an rvalue -/
@[inline] def rd (m : Mem) (a : Ptr) : Option Byte := m a

/-- `*a = v` -/
def wr (m : Mem) (a : Ptr) (v : Byte) : Option Mem :=
  match m a with
  | some _ => some (fun j => if j = a then some v else m j)
  | none => none

/-! ### C conversions -/

/-- `(char)c`, `(unsigned char)c` of an `int`: the low 8 bits -/
def toChar (c : Int) : Byte := BitVec.ofInt 8 c
/-- `unsigned char → int` -/
def ucInt (b : Byte) : Int := b.toNat
/-- `char → int` (char is signed here) -/
def scInt (b : Byte) : Int := b.toInt

/-! ### igris/util/ctype.h: `igris_tolower`, `igris_toupper` on `int` -/

def tolowerI (c : Int) : Int := if 65 ≤ c ∧ c ≤ 90 then c + 32 else c
def toupperI (c : Int) : Int := if 97 ≤ c ∧ c ≤ 122 then c - 32 else c

/-! ### memchr.c -/

/-- `while (n--) { if (*src == d) return src; src++; } return NULL;` -/
def memchrLoop (m : Mem) (d : Byte) : Nat → Ptr → Option (Option Ptr)
  | 0, _ => some none
  | n + 1, src => do
      let b ← rd m src
      if b = d then pure (some src) else memchrLoop m d n (src + 1)

def memchr (m : Mem) (s : Ptr) (c : Int) (n : Nat) : Option (Option Ptr) :=
  memchrLoop m (toChar c) n s

/-! ### memrchr.c (after `fix: memrchr with n == 0`)
  `src = s + n; while (n--) { if (*--src == d) return src; } return NULL;` -/

def memrchrLoop (m : Mem) (d : Byte) : Nat → Ptr → Option (Option Ptr)
  | 0, _ => some none
  | n + 1, src => do
      let b ← rd m (src - 1)
      if b = d then pure (some (src - 1)) else memrchrLoop m d n (src - 1)

def memrchr (m : Mem) (s : Ptr) (c : Int) (n : Nat) : Option (Option Ptr) :=
  memrchrLoop m (toChar c) n (s + n)

/-- historical: memrchr.c before the fix,
`src = s + n - 1; do { if (*src == d) return src; } while (src-- != s);`
(`fuel` bounds the do-while; addresses are `Int` here because `src` runs below `s`) -/
def memrchrOrigLoop (m : Mem) (d : Byte) (s : Int) : Nat → Int → Option (Option Int)
  | 0, _ => none
  | f + 1, src => do
      let b ← if src < 0 then none else rd m src.toNat
      if b = d then pure (some src)
      else if src ≠ s then memrchrOrigLoop m d s f (src - 1) else pure none

def memrchrOrig (m : Mem) (s : Ptr) (c : Int) (n : Nat) (fuel : Nat) : Option (Option Int) :=
  memrchrOrigLoop m (toChar c) s fuel ((s : Int) + n - 1)

/-! ### memset.c : `while (n--) *ptr++ = c;` -/

def memsetLoop (v : Byte) : Nat → Mem → Ptr → Option Mem
  | 0, m, _ => some m
  | n + 1, m, p => do
      let m ← wr m p v
      memsetLoop v n m (p + 1)

def memset (m : Mem) (dest : Ptr) (c : Int) (n : Nat) : Option (Mem × Ptr) := do
  let m ← memsetLoop (toChar c) n m dest
  pure (m, dest)

/-! ### memcmp.c -/

/-- `return *dst - *src;` on `unsigned char` -/
def diffAt (m : Mem) (dst src : Ptr) : Option Int := do
  let a ← rd m dst
  let b ← rd m src
  pure (ucInt a - ucInt b)

/-- `while (--n && *dst == *src) { ++dst; ++src; } return *dst - *src;`
the first argument is the value of `--n` -/
def memcmpLoop (m : Mem) : Nat → Ptr → Ptr → Option Int
  | 0, dst, src => diffAt m dst src
  | k + 1, dst, src => do
      let a ← rd m dst
      let b ← rd m src
      if a = b then memcmpLoop m k (dst + 1) (src + 1) else diffAt m dst src

def memcmp (m : Mem) (dst src : Ptr) (n : Nat) : Option Int :=
  if n = 0 then some 0 else memcmpLoop m (n - 1) dst src

/-! ### memcpy.c : 4×long loop, long loop, byte tail -/

def BLOCK_SZ : Nat := 8

/-- read `k` consecutive bytes (one `long` load for `k = 8`) -/
def loadN (m : Mem) : Nat → Ptr → Option (List Byte)
  | 0, _ => some []
  | k + 1, a => do
      let b ← rd m a
      let tl ← loadN m k (a + 1)
      pure (b :: tl)

/-- write consecutive bytes (one `long` store for 8 of them) -/
def storeL : List Byte → Mem → Ptr → Option Mem
  | [], m, _ => some m
  | b :: tl, m, a => do
      let m ← wr m a b
      storeL tl m (a + 1)

/-- `*aligned_dst++ = *aligned_src++;` : the word is loaded, then stored -/
def copyWord (m : Mem) (d s : Ptr) : Option Mem := do
  let w ← loadN m BLOCK_SZ s
  storeL w m d

/-- `unaligned(src, dst)`: `((long)x | (long)y) & (sizeof(long) - 1)` -/
def unaligned (x y : Ptr) : Bool := (x ||| y) % BLOCK_SZ != 0

/-- `for (; n >= BLOCK_SZ * 4; n -= BLOCK_SZ * 4) { 4 × *aligned_dst++ = *aligned_src++; }` -/
def memcpyLoop4 : Nat → Mem → Nat → Ptr → Ptr → Option (Mem × Nat × Ptr × Ptr)
  | 0, _, _, _, _ => none
  | f + 1, m, n, d, s =>
      if n ≥ BLOCK_SZ * 4 then do
        let m ← copyWord m d s
        let m ← copyWord m (d + 8) (s + 8)
        let m ← copyWord m (d + 16) (s + 16)
        let m ← copyWord m (d + 24) (s + 24)
        memcpyLoop4 f m (n - BLOCK_SZ * 4) (d + 32) (s + 32)
      else some (m, n, d, s)

/-- `for (; n >= BLOCK_SZ; n -= BLOCK_SZ) *aligned_dst++ = *aligned_src++;` -/
def memcpyLoop1 : Nat → Mem → Nat → Ptr → Ptr → Option (Mem × Nat × Ptr × Ptr)
  | 0, _, _, _, _ => none
  | f + 1, m, n, d, s =>
      if n ≥ BLOCK_SZ then do
        let m ← copyWord m d s
        memcpyLoop1 f m (n - BLOCK_SZ) (d + 8) (s + 8)
      else some (m, n, d, s)

/-- `while (n--) *dst++ = *src++;` -/
def memcpyBytes : Nat → Mem → Ptr → Ptr → Option Mem
  | 0, m, _, _ => some m
  | n + 1, m, d, s => do
      let b ← rd m s
      let m ← wr m d b
      memcpyBytes n m (d + 1) (s + 1)

def memcpy (m : Mem) (dst src : Ptr) (n : Nat) : Option (Mem × Ptr) := do
  if n ≥ BLOCK_SZ * 4 ∧ !unaligned src dst then
    -- the loops run at most n/32 + 1 resp. 4 times; `n + 1` is ample fuel
    let (m, n, d, s) ← memcpyLoop4 (n + 1) m n dst src
    let (m, n, d, s) ← memcpyLoop1 (n + 1) m n d s
    let m ← memcpyBytes n m d s
    pure (m, dst)
  else
    let m ← memcpyBytes n m dst src
    pure (m, dst)

/-! ### memmove.c -/

/-- `src += n; dst += n; while (n--) *--dst = *--src;` (pointers already advanced) -/
def memmoveBack : Nat → Mem → Ptr → Ptr → Option Mem
  | 0, m, _, _ => some m
  | n + 1, m, d, s => do
      let b ← rd m (s - 1)
      let m ← wr m (d - 1) b
      memmoveBack n m (d - 1) (s - 1)

def memmove (m : Mem) (dst src : Ptr) (n : Nat) : Option (Mem × Ptr) :=
  if src < dst ∧ dst < src + n then do
    let m ← memmoveBack n m (dst + n) (src + n)
    pure (m, dst)
  else memcpy m dst src n

/-! ### strlen.c : `while (*s++) ; return s - str - 1;` -/

/-- `while (*s++) ;` — returns `s` after the loop (one past the NUL).  The same
loop shape opens strcat.c / strncat.c (`do c = *s1++; while (c != '\0');`). -/
def scanNul (m : Mem) : Nat → Ptr → Option Ptr
  | 0, _ => none
  | f + 1, s => do
      let b ← rd m s
      if b ≠ 0 then scanNul m f (s + 1) else pure (s + 1)

def strlen (m : Mem) (str : Ptr) (fuel : Nat) : Option Nat := do
  let s ← scanNul m fuel str
  pure (s - str - 1)

/-! ### strnlen.c : `for (len = 0; len < maxlen; len++) if ('\0' == *s++) break;` -/

/-- first argument: `maxlen - len` -/
def strnlenLoop (m : Mem) : Nat → Nat → Ptr → Option Nat
  | 0, len, _ => some len
  | r + 1, len, s => do
      let b ← rd m s
      if b = 0 then pure len else strnlenLoop m r (len + 1) (s + 1)

def strnlen (m : Mem) (str : Ptr) (maxlen : Nat) : Option Nat := strnlenLoop m maxlen 0 str

/-! ### strcpy.c : `while ((*cp++ = *src++)) ;` -/

def strcpyLoop : Nat → Mem → Ptr → Ptr → Option Mem
  | 0, _, _, _ => none
  | f + 1, m, cp, src => do
      let b ← rd m src
      let m ← wr m cp b
      if b ≠ 0 then strcpyLoop f m (cp + 1) (src + 1) else pure m

def strcpy (m : Mem) (dest src : Ptr) (fuel : Nat) : Option (Mem × Ptr) := do
  let m ← strcpyLoop fuel m dest src
  pure (m, dest)

/-! ### strncpy.c
  `do { if (!n--) return ret; } while ((*dst++ = *src++)); while (n--) *dst++ = '\0';` -/

def strncpyLoop : Nat → Mem → Ptr → Ptr → Option Mem
  | 0, m, _, _ => some m
  | n + 1, m, dst, src => do
      let b ← rd m src
      let m ← wr m dst b
      if b ≠ 0 then strncpyLoop n m (dst + 1) (src + 1)
      else memsetLoop 0 n m (dst + 1)

def strncpy (m : Mem) (dst src : Ptr) (n : Nat) : Option (Mem × Ptr) := do
  let m ← strncpyLoop n m dst src
  pure (m, dst)

/-! ### strlcpy.c (after `fix: strlcpy returns strlen(src) on truncation`) -/

/-- `while (n-- != 1) { if (*s == '\0') break; *dst++ = *s++; }`; the first
argument is `n` (never 0 here: `size == 0` returned earlier; in C it would wrap) -/
def strlcpyLoop : Nat → Mem → Ptr → Ptr → Option (Mem × Ptr × Ptr)
  | 0, _, _, _ => none
  | 1, m, dst, s => some (m, dst, s)
  | n + 2, m, dst, s => do
      let b ← rd m s
      if b = 0 then pure (m, dst, s) else do
        let m ← wr m dst b
        strlcpyLoop (n + 1) m (dst + 1) (s + 1)

def strlcpy (m : Mem) (dst src : Ptr) (size : Nat) (fuel : Nat) : Option (Mem × Nat) := do
  if size = 0 then
    let l ← strlen m src fuel
    pure (m, l)
  else
    let (m, dst, s) ← strlcpyLoop size m dst src
    let m ← wr m dst 0
    -- return (s - src) + strlen(s);
    let l ← strlen m s fuel
    pure (m, (s - src) + l)

/-- historical: the unfixed `return s - src;` -/
def strlcpyOrig (m : Mem) (dst src : Ptr) (size : Nat) (fuel : Nat) : Option (Mem × Nat) := do
  if size = 0 then
    let l ← strlen m src fuel
    pure (m, l)
  else
    let (m, dst, s) ← strlcpyLoop size m dst src
    let m ← wr m dst 0
    pure (m, s - src)

/-! ### strcat.c -/

/-- `do { c = *s2++; *++s1 = c; } while (c != '\0');` -/
def strcatCopy : Nat → Mem → Ptr → Ptr → Option Mem
  | 0, _, _, _ => none
  | f + 1, m, s1, s2 => do
      let c ← rd m s2
      let m ← wr m (s1 + 1) c
      if c ≠ 0 then strcatCopy f m (s1 + 1) (s2 + 1) else pure m

def strcat (m : Mem) (dest src : Ptr) (fuel : Nat) : Option (Mem × Ptr) := do
  let s1 ← scanNul m fuel dest          -- do { c = *s1++; } while (c != '\0');
  let s1 := s1 - 2                      -- s1 -= 2;
  let m ← strcatCopy fuel m s1 src
  pure (m, dest)

/-! ### strncat.c (4× unrolled) -/

/-- `c = *s2++; *++s1 = c;` -/
def catStep (m : Mem) (s1 s2 : Ptr) : Option (Mem × Byte) := do
  let c ← rd m s2
  let m ← wr m (s1 + 1) c
  pure (m, c)

/-- the body of the unrolled loop; `none` inside = `return s` was executed,
otherwise the last `c` -/
def cat4Body (m : Mem) (s1 s2 : Ptr) : Option (Mem × Option Byte) := do
  let (m, c) ← catStep m s1 s2
  if c = 0 then pure (m, none) else
  let (m, c) ← catStep m (s1 + 1) (s2 + 1)
  if c = 0 then pure (m, none) else
  let (m, c) ← catStep m (s1 + 2) (s2 + 2)
  if c = 0 then pure (m, none) else
  let (m, c) ← catStep m (s1 + 3) (s2 + 3)
  if c = 0 then pure (m, none) else
  pure (m, some c)

/-- `do { … } while (--n4 > 0);` — first argument is `n4 - 1` -/
def strncat4 : Nat → Mem → Ptr → Ptr → Option (Mem × Option (Ptr × Ptr × Byte))
  | 0, m, s1, s2 => do
      let (m, r) ← cat4Body m s1 s2
      match r with
      | none => pure (m, none)
      | some c => pure (m, some (s1 + 4, s2 + 4, c))
  | k + 1, m, s1, s2 => do
      let (m, r) ← cat4Body m s1 s2
      match r with
      | none => pure (m, none)
      | some _ => strncat4 k m (s1 + 4) (s2 + 4)

/-- `while (n > 0) { c = *s2++; *++s1 = c; if (c == '\0') return s; n--; }
     if (c != '\0') *++s1 = '\0';` -/
def strncatTail : Nat → Mem → Ptr → Ptr → Byte → Option Mem
  | 0, m, s1, _, c => if c ≠ 0 then wr m (s1 + 1) 0 else some m
  | n + 1, m, s1, s2, _ => do
      let (m, c) ← catStep m s1 s2
      if c = 0 then pure m else strncatTail n m (s1 + 1) (s2 + 1) c

def strncat (m : Mem) (s1 s2 : Ptr) (n : Nat) (fuel : Nat) : Option (Mem × Ptr) := do
  let s := s1
  let e ← scanNul m fuel s1             -- do c = *s1++; while (c != '\0');   (c = 0 now)
  let s1 := e - 2
  if n ≥ 4 then
    let (m, r) ← strncat4 (n / 4 - 1) m s1 s2
    match r with
    | none => pure (m, s)
    | some (s1, s2, c) =>
        let m ← strncatTail (n % 4) m s1 s2 c
        pure (m, s)
  else
    let m ← strncatTail n m s1 s2 0
    pure (m, s)

/-! ### strcmp.c / strncmp.c / strcasecmp.c / strncasecmp.c
  The four files differ only in the character map applied before comparing
  (`id` resp. `tolower`) and in the `n` guard, so the loop is written once with
  the map as a parameter. -/

/-- `return f(*s1) - f(*s2);` on `unsigned char` -/
def diffAtF (f : Int → Int) (m : Mem) (s1 s2 : Ptr) : Option Int := do
  let a ← rd m s1
  let b ← rd m s2
  pure (f (ucInt a) - f (ucInt b))

/-- `while (*s1 && f(*s1) == f(*s2)) { ++s1; ++s2; } return f(*s1) - f(*s2);` -/
def strcmpLoop (f : Int → Int) (m : Mem) : Nat → Ptr → Ptr → Option Int
  | 0, _, _ => none
  | fuel + 1, s1, s2 => do
      let a ← rd m s1
      if a ≠ 0 then
        let b ← rd m s2
        if f (ucInt a) = f (ucInt b) then strcmpLoop f m fuel (s1 + 1) (s2 + 1)
        else diffAtF f m s1 s2
      else diffAtF f m s1 s2

/-- `while (--n && *s1 && f(*s1) == f(*s2)) { ++s1; ++s2; } return …;` — first
argument is the value of `--n` -/
def strncmpLoop (f : Int → Int) (m : Mem) : Nat → Ptr → Ptr → Option Int
  | 0, s1, s2 => diffAtF f m s1 s2
  | k + 1, s1, s2 => do
      let a ← rd m s1
      if a ≠ 0 then
        let b ← rd m s2
        if f (ucInt a) = f (ucInt b) then strncmpLoop f m k (s1 + 1) (s2 + 1)
        else diffAtF f m s1 s2
      else diffAtF f m s1 s2

def strcmp (m : Mem) (s1 s2 : Ptr) (fuel : Nat) : Option Int := strcmpLoop id m fuel s1 s2
def strcasecmp (m : Mem) (s1 s2 : Ptr) (fuel : Nat) : Option Int := strcmpLoop tolowerI m fuel s1 s2
def strncmp (m : Mem) (s1 s2 : Ptr) (n : Nat) : Option Int :=
  if n = 0 then some 0 else strncmpLoop id m (n - 1) s1 s2
def strncasecmp (m : Mem) (s1 s2 : Ptr) (n : Nat) : Option Int :=
  if n = 0 then some 0 else strncmpLoop tolowerI m (n - 1) s1 s2

/-! ### strchrnul.c / strchr.c / strrchr.c -/

/-- `while (*str && *str != c) ++str; return str;` -/
def strchrnulLoop (m : Mem) (c : Byte) : Nat → Ptr → Option Ptr
  | 0, _ => none
  | f + 1, str => do
      let b ← rd m str
      if b ≠ 0 ∧ b ≠ c then strchrnulLoop m c f (str + 1) else pure str

def strchrnul (m : Mem) (str : Ptr) (ch : Int) (fuel : Nat) : Option Ptr :=
  strchrnulLoop m (toChar ch) fuel str

/-- after `fix: strchr converts ch to char before the NUL test`:
`if (*chp == '\0') return (char) ch == *chp ? chp : NULL; return chp;` -/
def strchr (m : Mem) (str : Ptr) (ch : Int) (fuel : Nat) : Option (Option Ptr) := do
  let chp ← strchrnul m str ch fuel
  let b ← rd m chp
  if b = 0 then pure (if toChar ch = b then some chp else none)
  else pure (some chp)

/-- historical: `return ch == *chp ? chp : NULL;` compares the `int` -/
def strchrOrig (m : Mem) (str : Ptr) (ch : Int) (fuel : Nat) : Option (Option Ptr) := do
  let chp ← strchrnul m str ch fuel
  let b ← rd m chp
  if b = 0 then pure (if ch = scInt b then some chp else none)
  else pure (some chp)

/-- `while ((str = strchr(str, ch))) found = str++;` -/
def strrchrLoop (m : Mem) (ch : Int) (fuel : Nat) : Nat → Ptr → Option Ptr → Option (Option Ptr)
  | 0, _, _ => none
  | f + 1, str, found => do
      match ← strchr m str ch fuel with
      | some p => strrchrLoop m ch fuel f (p + 1) (some p)
      | none => pure found

def strrchr (m : Mem) (str : Ptr) (ch : Int) (fuel : Nat) : Option (Option Ptr) := do
  if toChar ch = 0 then
    let l ← strlen m str fuel
    pure (some (str + l))
  else strrchrLoop m ch fuel fuel str none

/-! ### strstr.c / strcasestr.c (the second is the first with `tolower` on plain
  `char`, i.e. on the sign-extended value) -/

/-- `while (*h && f(*h) == f(*n)) { ++h; ++n; }` — returns `n` -/
def strstrInner (f : Int → Int) (m : Mem) : Nat → Ptr → Ptr → Option Ptr
  | 0, _, _ => none
  | fuel + 1, h, n => do
      let a ← rd m h
      if a ≠ 0 then
        let b ← rd m n
        if f (scInt a) = f (scInt b) then strstrInner f m fuel (h + 1) (n + 1) else pure n
      else pure n

/-- `for (; *haystack; ++haystack) { …inner…; if (!*n) return haystack; } return NULL;` -/
def strstrOuter (f : Int → Int) (m : Mem) (needle : Ptr) (fuel : Nat) : Nat → Ptr → Option (Option Ptr)
  | 0, _ => none
  | g + 1, haystack => do
      let a ← rd m haystack
      if a ≠ 0 then
        let n ← strstrInner f m fuel haystack needle
        let b ← rd m n
        if b = 0 then pure (some haystack) else strstrOuter f m needle fuel g (haystack + 1)
      else pure none

def strstrF (f : Int → Int) (m : Mem) (haystack needle : Ptr) (fuel : Nat) : Option (Option Ptr) := do
  let b ← rd m needle
  if b = 0 then pure (some haystack) else strstrOuter f m needle fuel fuel haystack

def strstr := strstrF id
def strcasestr := strstrF tolowerI

/-! ### strspn.c -/

/-- `for (a = accept; *a != '\0'; ++a) if (*p == *a) break;` — returns `*a` at exit -/
def spnInner (m : Mem) (c : Byte) : Nat → Ptr → Option Byte
  | 0, _ => none
  | f + 1, a => do
      let b ← rd m a
      if b ≠ 0 then (if c = b then pure b else spnInner m c f (a + 1)) else pure b

def strspnLoop (m : Mem) (accept : Ptr) (fuel : Nat) : Nat → Ptr → Nat → Option Nat
  | 0, _, _ => none
  | g + 1, p, count => do
      let c ← rd m p
      if c ≠ 0 then
        let b ← spnInner m c fuel accept
        if b = 0 then pure count else strspnLoop m accept fuel g (p + 1) (count + 1)
      else pure count

def strspn (m : Mem) (s accept : Ptr) (fuel : Nat) : Option Nat := strspnLoop m accept fuel fuel s 0

/-! ### strcspn.c : `while (*s != '\0') { if (strchr(reject, *s++) == NULL) ++count; else return count; }` -/

def strcspnLoop (m : Mem) (reject : Ptr) (fuel : Nat) : Nat → Ptr → Nat → Option Nat
  | 0, _, _ => none
  | g + 1, s, count => do
      let c ← rd m s
      if c ≠ 0 then
        match ← strchr m reject (scInt c) fuel with
        | none => strcspnLoop m reject fuel g (s + 1) (count + 1)
        | some _ => pure count
      else pure count

def strcspn (m : Mem) (s reject : Ptr) (fuel : Nat) : Option Nat := strcspnLoop m reject fuel fuel s 0

/-! ### strpbrk.c -/

/-- `for (c = s2; *c; c++) if (*s1 == *c) break;` — returns `c` -/
def pbrkInner (m : Mem) (x : Byte) : Nat → Ptr → Option Ptr
  | 0, _ => none
  | f + 1, c => do
      let b ← rd m c
      if b ≠ 0 then (if x = b then pure c else pbrkInner m x f (c + 1)) else pure c

/-- `while (*s1) { for…; if (*c) break; s1++; }` — returns `(s1, c)` -/
def pbrkOuter (m : Mem) (s2 : Ptr) (fuel : Nat) : Nat → Ptr → Ptr → Option (Ptr × Ptr)
  | 0, _, _ => none
  | g + 1, s1, c => do
      let x ← rd m s1
      if x ≠ 0 then
        let c ← pbrkInner m x fuel s2
        let b ← rd m c
        if b ≠ 0 then pure (s1, c) else pbrkOuter m s2 fuel g (s1 + 1) c
      else pure (s1, c)

def strpbrk (m : Mem) (s1 s2 : Ptr) (fuel : Nat) : Option (Option Ptr) := do
  let x ← rd m s1
  if x = 0 then pure none else
  let (s1, c) ← pbrkOuter m s2 fuel fuel s1 s2
  let b ← rd m c
  if b = 0 then pure none else pure (some s1)

/-! ### strtok.c — the save pointer (`*saveptr`, resp. the `static` of strtok)
  is explicit state (after `fix: strtok_r stores the save pointer when no token
  is left`) -/

/-- `do { if ('\0' == (ch = *str++)) { *saveptr = str - 1; return NULL; } } while (strchr(delim, ch));`
returns `none` for the `return NULL` (with the address of the NUL), else `str` -/
def tokSkip (m : Mem) (delim : Ptr) (fuel : Nat) : Nat → Ptr → Option (Sum Ptr Ptr)
  | 0, _ => none
  | g + 1, str => do
      let ch ← rd m str
      if ch = 0 then pure (.inl str) else
      match ← strchr m delim (scInt ch) fuel with
      | some _ => tokSkip m delim fuel g (str + 1)
      | none => pure (.inr (str + 1))

/-- `if (str == NULL && (NULL == (str = *saveptr))) return NULL;` — where the
search starts, `none` for the early return -/
def tokStart (str save : Option Ptr) : Option Ptr :=
  match str with
  | some p => some p
  | none => save

/-- returns `(memory, *saveptr, result)` -/
def strtok_r (m : Mem) (str : Option Ptr) (delim : Ptr) (save : Option Ptr) (fuel : Nat) :
    Option (Mem × Option Ptr × Option Ptr) := do
  -- if (str == NULL && (NULL == (str = *saveptr))) return NULL;
  match tokStart str save with
  | none => pure (m, save, none)
  | some str =>
    match ← tokSkip m delim fuel fuel str with
    | .inl e => pure (m, some e, none)
    | .inr str =>
      -- *saveptr = str + strcspn(str, delim);
      let k ← strcspn m str delim fuel
      let sp := str + k
      let b ← rd m sp
      if b ≠ 0 then
        let m ← wr m sp 0
        pure (m, some (sp + 1), some (str - 1))
      else pure (m, some sp, some (str - 1))

/-- `char *strtok(char *str, const char *delim) { static char *saveptr; return strtok_r(str, delim, &saveptr); }`
— the static is the explicit state `static` (initially NULL) -/
def strtok (m : Mem) (str : Option Ptr) (delim : Ptr) («static» : Option Ptr) (fuel : Nat) :
    Option (Mem × Option Ptr × Option Ptr) := strtok_r m str delim «static» fuel

/-- a history of strtok_r calls on ONE string (round 3): the first call passes
`str`, every later one NULL; call i uses the delimiter string at `ds[i]`.  The
save pointer is threaded from call to call exactly as `*saveptr` (resp. the
static of `strtok`) is.  Returns the memory, the final save pointer and the
result of every call. -/
def strtokCalls (m : Mem) (fuel : Nat) : List Ptr → Option Ptr → Option Ptr →
    Option (Mem × Option Ptr × List (Option Ptr))
  | [], _, save => some (m, save, [])
  | d :: ds, str, save => do
      let (m, save, r) ← strtok_r m str d save fuel
      let (m, save, rs) ← strtokCalls m fuel ds none save
      pure (m, save, r :: rs)

/-- historical: without the fix the save pointer is left untouched on the
"no token" exit -/
def strtok_rOrig (m : Mem) (str : Option Ptr) (delim : Ptr) (save : Option Ptr) (fuel : Nat) :
    Option (Mem × Option Ptr × Option Ptr) := do
  match tokStart str save with
  | none => pure (m, save, none)
  | some str =>
    match ← tokSkip m delim fuel fuel str with
    | .inl _ => pure (m, save, none)
    | .inr str =>
      let k ← strcspn m str delim fuel
      let sp := str + k
      let b ← rd m sp
      if b ≠ 0 then
        let m ← wr m sp 0
        pure (m, some (sp + 1), some (str - 1))
      else pure (m, some sp, some (str - 1))

/-! ### strdup.c / strndup.c — `malloc` is a parameter: given the memory and a
  size it returns NULL (`none`) or a memory in which a block is mapped, and the
  block's address -/

abbrev Alloc := Mem → Nat → Option (Mem × Ptr)

def strdup (malloc : Alloc) (m : Mem) (s : Ptr) (fuel : Nat) : Option (Mem × Option Ptr) := do
  let l ← strlen m s fuel
  match malloc m (l + 1) with
  | none => pure (m, none)
  | some (m, ret) =>
    let (m, _) ← strcpy m ret s fuel
    pure (m, some ret)

/-- after `fix: strndup does not read past size bytes`: `len = strnlen(s, size)` -/
def strndup (malloc : Alloc) (m : Mem) (s : Ptr) (size : Nat) : Option (Mem × Option Ptr) := do
  let len ← strnlen m s size
  match malloc m (len + 1) with
  | none => pure (m, none)
  | some (m, ret) =>
    let (m, _) ← memcpy m ret s len
    let m ← wr m (ret + len) 0
    pure (m, some ret)

/-- historical: `slen = strlen(s); len = slen < size ? slen : size;` -/
def strndupOrig (malloc : Alloc) (m : Mem) (s : Ptr) (size : Nat) (fuel : Nat) :
    Option (Mem × Option Ptr) := do
  let slen ← strlen m s fuel
  let len := if slen < size then slen else size
  match malloc m (len + 1) with
  | none => pure (m, none)
  | some (m, ret) =>
    let (m, _) ← memcpy m ret s len
    let m ← wr m (ret + len) 0
    pure (m, some ret)

/-! ### strlwr.c / strupr.c
  `for (cp = string; *cp; ++cp) if ('A' <= *cp && *cp <= 'Z') *cp += 'a' - 'A';` -/

def caseLoop (lo hi : Int) (delta : Byte) : Nat → Mem → Ptr → Option Mem
  | 0, _, _ => none
  | f + 1, m, cp => do
      let b ← rd m cp
      if b ≠ 0 then
        if lo ≤ scInt b ∧ scInt b ≤ hi then
          let m ← wr m cp (b + delta)
          caseLoop lo hi delta f m (cp + 1)
        else caseLoop lo hi delta f m (cp + 1)
      else pure m

def strlwr (m : Mem) (s : Ptr) (fuel : Nat) : Option (Mem × Ptr) := do
  let m ← caseLoop 65 90 32 fuel m s
  pure (m, s)

def strupr (m : Mem) (s : Ptr) (fuel : Nat) : Option (Mem × Ptr) := do
  let m ← caseLoop 97 122 (-32) fuel m s
  pure (m, s)

/-! ### igris/util/ctype.h + compat/libc/include/ctype.h (round 3)
  `static inline int igris_isX(int c)`: a C `&&` / `||` / comparison yields the
  `int` 0 or 1, so the exact return value is modelled.  The libc names
  (`isalpha` …, `tolower`, `toupper`) are one-line wrappers of these.
  `isascii` / `toascii` are macros over `(unsigned char)(c)`. -/

/-- `(c >= 'a' && c <= 'f') || (c >= 'A' && c <= 'F')` -/
def isxdigitHelperI (c : Int) : Int := if (97 ≤ c ∧ c ≤ 102) ∨ (65 ≤ c ∧ c ≤ 70) then 1 else 0
/-- `c == ' ' || c == '\t'` -/
def isblankI (c : Int) : Int := if c = 32 ∨ c = 9 then 1 else 0
/-- `c == ' ' || c == '\t' || c == '\r' || c == '\n' || c == '\f' || c == '\v'` -/
def isspaceI (c : Int) : Int := if c = 32 ∨ c = 9 ∨ c = 13 ∨ c = 10 ∨ c = 12 ∨ c = 11 then 1 else 0
/-- `c >= '0' && c <= '9'` -/
def isdigitI (c : Int) : Int := if 48 ≤ c ∧ c ≤ 57 then 1 else 0
/-- `igris_isdigit(c) || igris_isxdigit_helper(c)` -/
def isxdigitI (c : Int) : Int := if isdigitI c ≠ 0 ∨ isxdigitHelperI c ≠ 0 then 1 else 0
/-- `c >= 'A' && c <= 'Z'` -/
def isupperI (c : Int) : Int := if 65 ≤ c ∧ c ≤ 90 then 1 else 0
/-- `c >= 'a' && c <= 'z'` -/
def islowerI (c : Int) : Int := if 97 ≤ c ∧ c ≤ 122 then 1 else 0
/-- `(c >= 'a' && c <= 'z') || (c >= 'A' && c <= 'Z')` -/
def isalphaI (c : Int) : Int := if (97 ≤ c ∧ c ≤ 122) ∨ (65 ≤ c ∧ c ≤ 90) then 1 else 0
/-- `igris_isalpha(c) || igris_isdigit(c)` -/
def isalnumI (c : Int) : Int := if isalphaI c ≠ 0 ∨ isdigitI c ≠ 0 then 1 else 0
/-- `igris_isalpha(c) || igris_isdigit(c) || (c >= ' ' && c <= '~')` -/
def isprintI (c : Int) : Int := if isalphaI c ≠ 0 ∨ isdigitI c ≠ 0 ∨ (32 ≤ c ∧ c ≤ 126) then 1 else 0
/-- `igris_islower(c) ? c + ('A'-'a') : c` — written through the predicate, as the header does
(`toupperI` above is the same function with the range test inlined) -/
def toupperC (c : Int) : Int := if islowerI c ≠ 0 then c + (65 - 97) else c
/-- `igris_isupper(c) ? c + ('a'-'A') : c` -/
def tolowerC (c : Int) : Int := if isupperI c ≠ 0 then c + (97 - 65) else c
/-- `#define isascii(c) (((unsigned)(c))<=0x7f)` (after `fix: isascii converts to unsigned, not to unsigned char`);
`int` and `unsigned` are 32 bits wide -/
def isasciiI (c : Int) : Int := if (BitVec.ofInt 32 c).toNat ≤ 0x7f then 1 else 0
/-- historical: `#define isascii(c) (((unsigned char)(c))<=0x7f)` -/
def isasciiOrig (c : Int) : Int := if (toChar c).toNat ≤ 0x7f then 1 else 0
/-- `#define toascii(c) (((unsigned char)(c))&0x7f)` -/
def toasciiI (c : Int) : Int := ((toChar c).toNat &&& 0x7f : Nat)

/-- the platform constants the model embeds (op `plat2`): `sizeof(long)`,
`sizeof(size_t)`, `sizeof(int)`, `'A'`, `'Z'`, `'a'`, `'z'`, `'a' - 'A'` -/
def platConsts : List Nat := [BLOCK_SZ, 8, 4, 65, 90, 97, 122, 32]

/-! ### building a memory from buffers (driver, witnesses) -/

/-- memory in which exactly the given `(address, bytes)` buffers are mapped -/
def ofBufs : List (Ptr × List Byte) → Mem
  | [], _ => none
  | (p, bs) :: rest, a => if p ≤ a ∧ a < p + bs.length then bs[a - p]? else ofBufs rest a

/-- the `n` cells at `p`, `none` if one of them is unmapped -/
def readOut (m : Mem) (p : Ptr) (n : Nat) : Option (List Byte) := loadN m n p

end Igris.C08
