import IgrisModel.C08.Lemmas
namespace Igris.C08
open Igris.Proto

/-- placeholder while the machinery is brought up -/
theorem wr_rd_same (m m' : Mem) (a : Ptr) (v : Byte) (h : wr m a v = some m') : rd m' a = some v := by
  unfold wr at h
  split at h
  · cases h; simp [rd]
  · cases h

end Igris.C08
