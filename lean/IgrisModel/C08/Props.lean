/-
  C08 — PROPERTY THEOREMS.

  Property: "Each memory and string function of the bundled libc returns the
  result its standard definition prescribes (value, sign, or pointer offset)
  and leaves the destination bytes the definition prescribes.  It reads and
  writes no byte outside the ranges the definition allows, for every content,
  length (including 0), alignment and, for memmove, overlap."

  Reading the statements.  `m : Mem` is ONE partial memory shared by all
  arguments; every theorem quantifies over all of it, all addresses (hence all
  alignments and all relative positions) and all byte contents.
    * `Holds m a l`   — the cells a, a+1, … contain the list `l`
    * `Mapped m a n`  — n cells at a exist;  `CStr m a l` — `l` then NUL, no NUL in `l`
    * a result `some …` means: no fault.  Since the hypotheses only say that the
      ranges named in them are mapped, the function never touches a cell
      outside those ranges (it would fault in the memory where nothing else is
      mapped) — this is the "reads and writes no byte outside" clause;
    * `SameOutside m m' d n` — nothing outside `[d, d+n)` was modified.
  The ISO/POSIX definitions are stated on lists: `l = p ++ c :: r` with `c ∉ p`
  says "the first occurrence of `c` in `l` is at index `p.length`", etc.
  `fuel` is the model's bound for "until NUL" loops; every theorem says how
  much is enough (string length + 1 or + 2).
-/
import IgrisModel.C08.Lemmas
import IgrisModel.C08.More
import IgrisModel.C08.Linear
import IgrisModel.C08.Unsigned
namespace Igris.C08
open Igris.Proto

/-! ### memset -/

/-- memset fills exactly `[dest, dest+n)` with `(unsigned char)c`, returns `dest` -/
theorem memset_spec (m : Mem) (dest : Nat) (c : Int) (n : Nat) (h : Mapped m dest n) :
    ∃ m', memset m dest c n = some (m', dest) ∧ Holds m' dest (List.replicate n (toChar c)) ∧
      SameOutside m m' dest n := by
  obtain ⟨m', e, hh, ho, _⟩ := memsetLoop_spec (toChar c) n m dest h
  exact ⟨m', by simp [memset, e], hh, ho⟩

/-! ### memchr / memrchr -/

/-- first occurrence: `l = p ++ d :: r`, `d ∉ p` ⇒ pointer to index `|p|` -/
theorem memchr_found (m : Mem) (s : Nat) (c : Int) (p r : List Byte)
    (hl : Holds m s (p ++ toChar c :: r)) (hp : toChar c ∉ p) :
    memchr m s c (p ++ toChar c :: r).length = some (some (s + p.length)) := by
  have : p ++ toChar c :: r = (p ++ [toChar c]) ++ r := by simp
  rw [this, holds_append] at hl
  exact memchrLoop_found m _ p s _ hl.1 hp (by simp)

/-- no occurrence in the `n` bytes ⇒ NULL (for `n = 0` too) -/
theorem memchr_absent (m : Mem) (s : Nat) (c : Int) (l : List Byte)
    (hl : Holds m s l) (hc : toChar c ∉ l) : memchr m s c l.length = some none :=
  memchrLoop_absent m _ l s hl hc

/-- C11 7.24.5.1: memchr behaves as if it read sequentially and stopped at the
first match — `n` may exceed the object when a match exists; only `p ++ [d]`
needs to be mapped -/
theorem memchr_stops_at_first_match (m : Mem) (s : Nat) (c : Int) (p : List Byte) (n : Nat)
    (hl : Holds m s (p ++ [toChar c])) (hp : toChar c ∉ p) (hn : p.length < n) :
    memchr m s c n = some (some (s + p.length)) :=
  memchrLoop_found m _ p s n hl hp hn

/-- last occurrence: `l = p ++ d :: r`, `d ∉ r` ⇒ pointer to index `|p|` -/
theorem memrchr_found (m : Mem) (s : Nat) (c : Int) (p r : List Byte)
    (hl : Holds m s (p ++ toChar c :: r)) (hr : toChar c ∉ r) :
    memrchr m s c (p ++ toChar c :: r).length = some (some (s + p.length)) := by
  have e : (p ++ toChar c :: r).length = p.length + 1 + r.length := by simp; omega
  unfold memrchr
  rw [e]
  apply memrchrLoop_found m _ _ s hl p.length r.length
  · simp
  · simp; omega
  · intro i h1 h2 h3
    have : (p ++ toChar c :: r)[i]? = r[i - p.length - 1]? := by
      rw [List.getElem?_append_right (by omega)]
      obtain ⟨k, hk⟩ : ∃ k, i - p.length = k + 1 := ⟨i - p.length - 1, by omega⟩
      rw [hk]; simp
    rw [this] at h3
    exact hr (List.mem_of_getElem? h3)

/-- no occurrence ⇒ NULL; with `l = []` this is the `n == 0` case, which reads nothing -/
theorem memrchr_absent (m : Mem) (s : Nat) (c : Int) (l : List Byte)
    (hl : Holds m s l) (hc : toChar c ∉ l) : memrchr m s c l.length = some none := by
  apply memrchrLoop_absent m _ l s hl l.length (Nat.le_refl _)
  intro i _ h
  exact hc (List.mem_of_getElem? h)

/-- `memrchr(s, c, 0)` on a zero-sized object (nothing mapped at all) is NULL, no access -/
theorem memrchr_zero (s : Nat) (c : Int) : memrchr (fun _ => none) s c 0 = some none := rfl

/-- historical (before `fix: memrchr with n == 0`): the do-while form read
`s[-1]` — in a memory where only `s[0]` exists, `n = 0` faults -/
theorem memrchrOrig_n0_witness :
    memrchrOrig (ofBufs [(8, [1#8])]) 8 0 0 100 = none := by decide

/-! ### memcmp -/

/-- equal blocks ⇒ 0 (for `n = 0` too: nothing is read) -/
theorem memcmp_equal (m : Mem) (d s : Nat) (l : List Byte) (hd : Holds m d l) (hs : Holds m s l) :
    memcmp m d s l.length = some 0 := by
  unfold memcmp
  split
  · rfl
  · next h => exact memcmpLoop_same m l _ d s (by omega) hd hs

/-- first differing pair `x ≠ y` after a common prefix `p` ⇒ the result is
`(unsigned char)x - (unsigned char)y`, so its sign is that of the first
difference; the bytes after it are not even required to exist -/
theorem memcmp_first_difference (m : Mem) (d s : Nat) (p : List Byte) (x y : Byte) (n : Nat)
    (hd : Holds m d (p ++ [x])) (hs : Holds m s (p ++ [y])) (hxy : x ≠ y) (hn : p.length < n) :
    memcmp m d s n = some (ucInt x - ucInt y) := by
  unfold memcmp
  rw [if_neg (by omega)]
  exact memcmpLoop_diff m p x y _ d s (by omega) hd hs hxy

/-- the sign is the order of the two bytes as unsigned values -/
theorem ucInt_sub_sign (x y : Byte) : (ucInt x - ucInt y < 0 ↔ x.toNat < y.toNat) ∧
    (ucInt x - ucInt y = 0 ↔ x = y) := by
  unfold ucInt
  refine ⟨by omega, ?_⟩
  constructor
  · intro h; exact BitVec.eq_of_toNat_eq (by omega)
  · intro h; subst h; omega

/-! ### memcpy / memmove -/

/-- ISO C memcpy (non-overlapping objects): the `n` source bytes arrive at
`dst`, nothing outside `[dst, dst+n)` changes, `dst` is returned; holds on the
byte path and on the word path alike (no alignment hypothesis) -/
theorem memcpy_spec (m : Mem) (dst src : Nat) (data : List Byte)
    (hs : Holds m src data) (hd : Mapped m dst data.length)
    (hdis : Disjoint dst data.length src data.length) :
    ∃ m', memcpy m dst src data.length = some (m', dst) ∧ Holds m' dst data ∧
      SameOutside m m' dst data.length := by
  obtain ⟨m', e, h⟩ := memcpy_fwd m dst src data.length
    (by unfold Disjoint at hdis; omega) hs.mapped hd
  exact ⟨m', e, h.done.holds hs, h.done.2⟩

/-- what memmove's fall-through relies on: the forward copy (word loops
included — each word is loaded before it is stored) is also correct for
overlapping ranges as long as `dst ≤ src` -/
theorem memcpy_forward_overlap (m : Mem) (dst src : Nat) (data : List Byte)
    (hs : Holds m src data) (hd : Mapped m dst data.length) (hle : dst ≤ src) :
    ∃ m', memcpy m dst src data.length = some (m', dst) ∧ Holds m' dst data ∧
      SameOutside m m' dst data.length := by
  obtain ⟨m', e, h⟩ := memcpy_fwd m dst src data.length (Or.inl hle) hs.mapped hd
  exact ⟨m', e, h.done.holds hs, h.done.2⟩

/-- memmove for EVERY relative position of source and destination -/
theorem memmove_spec (m : Mem) (dst src : Nat) (data : List Byte)
    (hs : Holds m src data) (hd : Mapped m dst data.length) :
    ∃ m', memmove m dst src data.length = some (m', dst) ∧ Holds m' dst data ∧
      SameOutside m m' dst data.length := by
  obtain ⟨m', e, h⟩ := memmove_done m dst src data.length hs.mapped hd
  exact ⟨m', e, h.holds hs, h.2⟩


/-! ### strlen / strnlen -/

/-- strlen returns the index of the terminator and reads `[s, s+len]` only -/
theorem strlen_spec (m : Mem) (s : Nat) (l : List Byte) (fuel : Nat) (h : CStr m s l)
    (hf : l.length < fuel) : strlen m s fuel = some l.length :=
  strlen_eq m l s fuel h hf

/-- strnlen on a string: `min(len, maxlen)` -/
theorem strnlen_spec (m : Mem) (s : Nat) (l : List Byte) (maxlen : Nat) (h : CStr m s l) :
    strnlen m s maxlen = some (min l.length maxlen) := by
  simpa [strnlen] using strnlenLoop_cstr m l s maxlen 0 h

/-- strnlen never examines more than `maxlen` bytes: on an array of `maxlen`
non-NUL bytes WITHOUT terminator (only those bytes mapped) it returns `maxlen` -/
theorem strnlen_unterminated (m : Mem) (s : Nat) (l : List Byte) (h : Holds m s l) (h0 : 0#8 ∉ l) :
    strnlen m s l.length = some l.length := by
  simpa [strnlen] using strnlenLoop_long m l s l.length 0 h h0 (Nat.le_refl _)

/-! ### strcpy / strncpy / strlcpy  (ISO: objects must not overlap) -/

theorem strcpy_spec (m : Mem) (dest src : Nat) (l : List Byte) (fuel : Nat) (hs : CStr m src l)
    (hd : Mapped m dest (l.length + 1)) (hdis : Disjoint dest (l.length + 1) src (l.length + 1))
    (hf : l.length < fuel) :
    ∃ m', strcpy m dest src fuel = some (m', dest) ∧ Holds m' dest (l ++ [0#8]) ∧
      SameOutside m m' dest (l.length + 1) := by
  obtain ⟨m', e, hh, ho⟩ := strcpyLoop_spec l m dest src fuel hs hd hdis hf
  exact ⟨m', by simp [strcpy, e], hh, ho⟩

/-- source string shorter than `n`: copied, then NUL-padded to exactly `n` bytes -/
theorem strncpy_short (m : Mem) (dst src : Nat) (l : List Byte) (n : Nat) (hs : CStr m src l)
    (hn : l.length < n) (hd : Mapped m dst n) (hdis : Disjoint dst n src (l.length + 1)) :
    ∃ m', strncpy m dst src n = some (m', dst) ∧
      Holds m' dst (l ++ List.replicate (n - l.length) 0#8) ∧ SameOutside m m' dst n := by
  obtain ⟨m', e, hh, ho⟩ := strncpyLoop_short l m dst src n hs hn hd hdis
  exact ⟨m', by simp [strncpy, e], hh, ho⟩

/-- source array with at least `n` characters before any NUL: exactly `n` are
copied, no terminator is written, and nothing after the first `n` source
bytes is read (the source need not be terminated).  `n = 0` is `p = []`. -/
theorem strncpy_long (m : Mem) (dst src : Nat) (p : List Byte) (hs : Holds m src p) (h0 : 0#8 ∉ p)
    (hd : Mapped m dst p.length) (hdis : Disjoint dst p.length src p.length) :
    ∃ m', strncpy m dst src p.length = some (m', dst) ∧ Holds m' dst p ∧
      SameOutside m m' dst p.length := by
  obtain ⟨m', e, hh, ho⟩ := strncpyLoop_long p m dst src hs h0 hd hdis
  exact ⟨m', by simp [strncpy, e], hh, ho⟩

/-- strlcpy with `size > 0`: the first `min(len, size-1)` characters and a
terminator are stored, the return value is `strlen(src)` — also when the copy
was truncated (`fix: strlcpy returns strlen(src)`) -/
theorem strlcpy_spec (m : Mem) (dst src : Nat) (l : List Byte) (size fuel : Nat) (hs : CStr m src l)
    (hsz : 0 < size) (hd : Mapped m dst (min l.length (size - 1) + 1))
    (hdis : Disjoint dst (min l.length (size - 1) + 1) src (l.length + 1)) (hf : l.length < fuel) :
    ∃ m', strlcpy m dst src size fuel = some (m', l.length) ∧
      Holds m' dst (l.take (size - 1) ++ [0#8]) ∧
      SameOutside m m' dst (min l.length (size - 1) + 1) := by
  have hd' : Mapped m dst (min l.length (size - 1)) := fun i hi => hd i (by omega)
  unfold Disjoint at hdis
  obtain ⟨m1, e, hh, ho⟩ := strlcpyLoop_spec l m dst src size hs hsz hd' (by unfold Disjoint; omega)
  have hmap : (m1 (dst + min l.length (size - 1))).isSome := by
    rw [ho _ (by omega)]; exact hd _ (by omega)
  have hs1 : CStr m1 src l := cstr_of_sameOutside hs ho (by omega)
  have hs2 : CStr (upd m1 (dst + min l.length (size - 1)) 0#8) src l :=
    cstr_upd_outside _ hs1 (by omega)
  -- the rest of src, from the point where copying stopped
  have hsplit : l = l.take (min l.length (size - 1)) ++ l.drop (min l.length (size - 1)) := by simp
  have hs3 : CStr (upd m1 (dst + min l.length (size - 1)) 0#8) (src + min l.length (size - 1))
      (l.drop (min l.length (size - 1))) := by
    have := hs2; rw [hsplit] at this
    have := cstr_suffix this
    simpa using this
  have e3 := strlen_eq _ _ _ fuel hs3 (by simp; omega)
  refine ⟨upd m1 (dst + min l.length (size - 1)) 0#8, ?_, ?_, ?_⟩
  · simp only [strlcpy, if_neg (Nat.pos_iff_ne_zero.mp hsz), e, bind, Option.bind, wr_upd hmap,
      BitVec.ofNat_eq_ofNat, e3]
    simp; omega
  · rw [holds_append]
    refine ⟨holds_upd_outside _ hh (by simp; omega), ?_⟩
    simp [holds_cons, Holds.nil, List.length_take, Nat.min_comm]
  · intro j hj
    rw [upd_other _ _ (by omega)]; exact ho j (by omega)

/-- `size == 0`: nothing is written, the result is still `strlen(src)` -/
theorem strlcpy_size0 (m : Mem) (dst src : Nat) (l : List Byte) (fuel : Nat) (hs : CStr m src l)
    (hf : l.length < fuel) : strlcpy m dst src 0 fuel = some (m, l.length) := by
  simp [strlcpy, strlen_eq m l src fuel hs hf]

/-- historical (before the fix): on truncation the unfixed code returns `size - 1` -/
theorem strlcpyOrig_witness :
    (strlcpyOrig (ofBufs [(8, [0xA5#8]), (16, [65#8, 66#8, 0#8])]) 8 16 1 10).map (·.2) = some 0 := by
  decide

/-! ### strcmp / strncmp -/

/-- equal strings ⇒ 0 -/
theorem strcmp_equal (m : Mem) (s1 s2 : Nat) (l : List Byte) (fuel : Nat) (h1 : CStr m s1 l)
    (h2 : CStr m s2 l) (hf : l.length < fuel) : strcmp m s1 s2 fuel = some 0 := by
  have := strcmpLoop_spec id m l l 0#8 0#8 s1 s2 fuel h1.1 h2.1 (forall2_eqF_refl _ _) h1.2 (Or.inl rfl) hf
  simpa [strcmp] using this

/-- first differing pair after a common prefix (either byte may be the
terminator, i.e. one string may be a proper prefix of the other) ⇒ the
difference of the two bytes as `unsigned char`; nothing after it is read -/
theorem strcmp_first_difference (m : Mem) (s1 s2 : Nat) (p : List Byte) (x y : Byte) (fuel : Nat)
    (h1 : Holds m s1 (p ++ [x])) (h2 : Holds m s2 (p ++ [y])) (h0 : 0#8 ∉ p) (hxy : x ≠ y)
    (hf : p.length < fuel) : strcmp m s1 s2 fuel = some (ucInt x - ucInt y) := by
  have := strcmpLoop_spec id m p p x y s1 s2 fuel h1 h2 (forall2_eqF_refl _ _) h0
    (Or.inr (fun e => hxy (eqF_id.mp e))) hf
  simpa [strcmp] using this

/-- `n == 0` ⇒ 0 without any access -/
theorem strncmp_zero (m : Mem) (s1 s2 : Nat) : strncmp m s1 s2 0 = some 0 := rfl

/-- the first `n` characters agree (none of the first `n-1` is NUL) ⇒ 0, and
nothing beyond the `n`-th character is read: the arrays need no terminator -/
theorem strncmp_equal_prefix (m : Mem) (s1 s2 : Nat) (p : List Byte) (x : Byte)
    (h1 : Holds m s1 (p ++ [x])) (h2 : Holds m s2 (p ++ [x])) (h0 : 0#8 ∉ p) :
    strncmp m s1 s2 (p.length + 1) = some 0 := by
  have := strncmpLoop_spec id m p p x x s1 s2 p.length h1 h2 (forall2_eqF_refl _ _) h0 (Or.inl rfl)
    (Nat.le_refl _)
  simpa [strncmp] using this

/-- equal strings ⇒ 0 for every `n` -/
theorem strncmp_equal (m : Mem) (s1 s2 : Nat) (l : List Byte) (n : Nat) (h1 : CStr m s1 l)
    (h2 : CStr m s2 l) : strncmp m s1 s2 n = some 0 := by
  cases n with
  | zero => rfl
  | succ k =>
    by_cases hk : l.length ≤ k
    · have := strncmpLoop_spec id m l l 0#8 0#8 s1 s2 k h1.1 h2.1 (forall2_eqF_refl _ _) h1.2
        (Or.inr (Or.inl rfl)) hk
      simpa [strncmp] using this
    · -- cut by n inside the strings
      have hk' : k < l.length := by omega
      have hsplit : l ++ [0#8] = (l.take k ++ [l[k]]) ++ (l.drop (k + 1) ++ [0#8]) := by
        rw [← List.append_assoc]; congr 1
        rw [List.append_assoc, List.singleton_append, List.getElem_cons_drop, List.take_append_drop]
      have g1 := h1.1; have g2 := h2.1
      rw [hsplit, holds_append] at g1 g2
      have := strncmpLoop_spec id m (l.take k) (l.take k) l[k] l[k] s1 s2 k g1.1 g2.1
        (forall2_eqF_refl _ _) (fun e => h1.2 (List.mem_of_mem_take e))
        (Or.inl (by simp; omega)) (by simp; omega)
      simpa [strncmp] using this

/-- first differing pair within the first `n` characters -/
theorem strncmp_first_difference (m : Mem) (s1 s2 : Nat) (p : List Byte) (x y : Byte) (n : Nat)
    (h1 : Holds m s1 (p ++ [x])) (h2 : Holds m s2 (p ++ [y])) (h0 : 0#8 ∉ p) (hxy : x ≠ y)
    (hn : p.length < n) : strncmp m s1 s2 n = some (ucInt x - ucInt y) := by
  have := strncmpLoop_spec id m p p x y s1 s2 (n - 1) h1 h2 (forall2_eqF_refl _ _) h0
    (Or.inr (Or.inr (fun e => hxy (eqF_id.mp e)))) (by omega)
  simpa [strncmp, Nat.pos_iff_ne_zero.mp (Nat.zero_lt_of_lt hn)] using this

/-! ### strchrnul / strchr / strrchr   (`c` = `ch` converted to `char`) -/

/-- strchrnul: first occurrence of `c`, else the terminator; `x` is the byte it stops at -/
theorem strchrnul_spec (m : Mem) (s : Nat) (ch : Int) (p : List Byte) (x : Byte) (fuel : Nat)
    (h : Holds m s (p ++ [x])) (h0 : 0#8 ∉ p) (hc : toChar ch ∉ p) (hx : x = 0#8 ∨ x = toChar ch)
    (hf : p.length < fuel) : strchrnul m s ch fuel = some (s + p.length) :=
  strchrnulLoop_spec m (toChar ch) p x s fuel h h0 hc hx hf

/-- strchr: first occurrence — `l = p ++ c :: r`, `c ∉ p` ⇒ `s + |p|`; only `p ++ [c]` is read -/
theorem strchr_found (m : Mem) (s : Nat) (ch : Int) (p : List Byte) (fuel : Nat)
    (h : Holds m s (p ++ [toChar ch])) (h0 : 0#8 ∉ p) (hp : toChar ch ∉ p) (hf : p.length < fuel) :
    strchr m s ch fuel = some (some (s + p.length)) :=
  strchr_first m p s ch fuel h h0 hp hf

/-- strchr: `c` does not occur and is not NUL ⇒ NULL -/
theorem strchr_absent (m : Mem) (s : Nat) (ch : Int) (l : List Byte) (fuel : Nat) (h : CStr m s l)
    (hc : toChar ch ∉ l) (hz : toChar ch ≠ 0#8) (hf : l.length < fuel) :
    strchr m s ch fuel = some none :=
  strchr_none m l s ch fuel h hc hz hf

/-- strchr: the terminator is part of the string — every `ch` whose conversion
to `char` is 0 (0, 256, -256, …) finds it (`fix: strchr converts ch to char`) -/
theorem strchr_terminator (m : Mem) (s : Nat) (ch : Int) (l : List Byte) (fuel : Nat) (h : CStr m s l)
    (hc : toChar ch = 0#8) (hf : l.length < fuel) :
    strchr m s ch fuel = some (some (s + l.length)) :=
  strchr_nul m l s ch fuel h hc hf

/-- historical (before the fix): `strchr("a", 256)` is NULL in the unfixed code -/
theorem strchrOrig_witness : strchrOrig (ofBufs [(8, [97#8, 0#8])]) 8 256 10 = some none := by decide

/-- strrchr: last occurrence — `l = p ++ c :: r`, `c ∉ r` ⇒ `s + |p|` -/
theorem strrchr_found (m : Mem) (s : Nat) (ch : Int) (p r : List Byte) (fuel : Nat)
    (h : CStr m s (p ++ toChar ch :: r)) (hr : toChar ch ∉ r)
    (hf : (p ++ toChar ch :: r).length + 1 < fuel) :
    strrchr m s ch fuel = some (some (s + p.length)) := by
  have hz : toChar ch ≠ 0#8 := fun e => h.2 (by rw [← e]; simp)
  have hz' : ¬ toChar ch = 0 := hz
  unfold strrchr
  rw [if_neg hz']
  exact strrchrLoop_last m p r s ch fuel fuel none h hr hz (by omega) (by simp at hf; omega)

theorem strrchr_absent (m : Mem) (s : Nat) (ch : Int) (l : List Byte) (fuel : Nat) (h : CStr m s l)
    (hc : toChar ch ∉ l) (hz : toChar ch ≠ 0#8) (hf : l.length < fuel) :
    strrchr m s ch fuel = some none := by
  have hz' : ¬ toChar ch = 0 := hz
  unfold strrchr
  rw [if_neg hz']
  exact strrchrLoop_none m l s ch fuel fuel none h hc hz hf (by omega)

theorem strrchr_terminator (m : Mem) (s : Nat) (ch : Int) (l : List Byte) (fuel : Nat) (h : CStr m s l)
    (hc : toChar ch = 0#8) (hf : l.length < fuel) :
    strrchr m s ch fuel = some (some (s + l.length)) := by
  simp [strrchr, hc, strlen_eq m l s fuel h hf]


/-! ### strcasecmp / strncasecmp — strcmp/strncmp of the strings mapped through the
C-locale `tolower` (`lowerB`) -/

theorem strcasecmp_equal (m : Mem) (s1 s2 : Nat) (l1 l2 : List Byte) (fuel : Nat) (h1 : CStr m s1 l1)
    (h2 : CStr m s2 l2) (he : l1.map lowerB = l2.map lowerB) (hf : l1.length < fuel) :
    strcasecmp m s1 s2 fuel = some 0 := by
  have := strcmpLoop_spec tolowerI m l1 l2 0#8 0#8 s1 s2 fuel h1.1 h2.1 (forall2_lower he) h1.2 (Or.inl rfl) hf
  simpa [strcasecmp] using this

theorem strcasecmp_first_difference (m : Mem) (s1 s2 : Nat) (p1 p2 : List Byte) (x y : Byte) (fuel : Nat)
    (h1 : Holds m s1 (p1 ++ [x])) (h2 : Holds m s2 (p2 ++ [y])) (he : p1.map lowerB = p2.map lowerB)
    (h0 : 0#8 ∉ p1) (hxy : lowerB x ≠ lowerB y) (hf : p1.length < fuel) :
    strcasecmp m s1 s2 fuel = some (ucInt (lowerB x) - ucInt (lowerB y)) := by
  have := strcmpLoop_spec tolowerI m p1 p2 x y s1 s2 fuel h1 h2 (forall2_lower he) h0
    (Or.inr (fun e => hxy (eqF_lower.mp e))) hf
  simpa [strcasecmp, tolowerI_ucInt] using this

theorem strncasecmp_zero (m : Mem) (s1 s2 : Nat) : strncasecmp m s1 s2 0 = some 0 := rfl

/-- the first `n` characters agree up to case ⇒ 0; nothing after them is read -/
theorem strncasecmp_equal_prefix (m : Mem) (s1 s2 : Nat) (p1 p2 : List Byte) (x y : Byte)
    (h1 : Holds m s1 (p1 ++ [x])) (h2 : Holds m s2 (p2 ++ [y])) (he : p1.map lowerB = p2.map lowerB)
    (hxy : lowerB x = lowerB y) (h0 : 0#8 ∉ p1) :
    strncasecmp m s1 s2 (p1.length + 1) = some 0 := by
  have := strncmpLoop_spec tolowerI m p1 p2 x y s1 s2 p1.length h1 h2 (forall2_lower he) h0 (Or.inl rfl)
    (Nat.le_refl _)
  simpa [strncasecmp, tolowerI_ucInt, hxy] using this

theorem strncasecmp_first_difference (m : Mem) (s1 s2 : Nat) (p1 p2 : List Byte) (x y : Byte) (n : Nat)
    (h1 : Holds m s1 (p1 ++ [x])) (h2 : Holds m s2 (p2 ++ [y])) (he : p1.map lowerB = p2.map lowerB)
    (h0 : 0#8 ∉ p1) (hxy : lowerB x ≠ lowerB y) (hn : p1.length < n) :
    strncasecmp m s1 s2 n = some (ucInt (lowerB x) - ucInt (lowerB y)) := by
  have := strncmpLoop_spec tolowerI m p1 p2 x y s1 s2 (n - 1) h1 h2 (forall2_lower he) h0
    (Or.inr (Or.inr (fun e => hxy (eqF_lower.mp e)))) (by omega)
  simpa [strncasecmp, tolowerI_ucInt, Nat.pos_iff_ne_zero.mp (Nat.zero_lt_of_lt hn)] using this

/-- equal up to case, both terminated ⇒ 0 for every `n` that reaches the terminator -/
theorem strncasecmp_equal (m : Mem) (s1 s2 : Nat) (l1 l2 : List Byte) (n : Nat) (h1 : CStr m s1 l1)
    (h2 : CStr m s2 l2) (he : l1.map lowerB = l2.map lowerB) (hn : l1.length < n) :
    strncasecmp m s1 s2 n = some 0 := by
  have := strncmpLoop_spec tolowerI m l1 l2 0#8 0#8 s1 s2 (n - 1) h1.1 h2.1 (forall2_lower he) h1.2
    (Or.inr (Or.inl rfl)) (by omega)
  simpa [strncasecmp, Nat.pos_iff_ne_zero.mp (Nat.zero_lt_of_lt hn)] using this

/-! ### strlwr / strupr — in place, ASCII letters only, bytes ≥ 0x80 untouched -/

theorem strlwr_spec (m : Mem) (s : Nat) (l : List Byte) (fuel : Nat) (h : CStr m s l) (hf : l.length < fuel) :
    ∃ m', strlwr m s fuel = some (m', s) ∧ Holds m' s (l.map lowerB ++ [0#8]) ∧
      SameOutside m m' s l.length := by
  obtain ⟨m', e, hh, ho⟩ := caseLoop_spec 65 90 32 lowerB lowerB_eq l m s fuel h hf
  exact ⟨m', by unfold strlwr; rw [e]; rfl, hh, ho⟩

theorem strupr_spec (m : Mem) (s : Nat) (l : List Byte) (fuel : Nat) (h : CStr m s l) (hf : l.length < fuel) :
    ∃ m', strupr m s fuel = some (m', s) ∧ Holds m' s (l.map upperB ++ [0#8]) ∧
      SameOutside m m' s l.length := by
  obtain ⟨m', e, hh, ho⟩ := caseLoop_spec 97 122 (-32) upperB upperB_eq l m s fuel h hf
  exact ⟨m', by unfold strupr; rw [e]; rfl, hh, ho⟩

/-! ### strcat -/

/-- strcat appends `b` and a terminator after `a`; only `[dest+|a|, dest+|a|+|b|]` is written -/
theorem strcat_spec (m : Mem) (dest src : Nat) (a b : List Byte) (fuel : Nat) (hdest : 0 < dest)
    (ha : CStr m dest a) (hb : CStr m src b) (hd : Mapped m (dest + a.length) (b.length + 1))
    (hdis : Disjoint dest (a.length + b.length + 1) src (b.length + 1))
    (hf : a.length + b.length < fuel) :
    ∃ m', strcat m dest src fuel = some (m', dest) ∧ Holds m' dest (a ++ b ++ [0#8]) ∧
      SameOutside m m' (dest + a.length) (b.length + 1) := by
  have e1 := scanNul_spec m a dest fuel ha (by omega)
  have ew : dest + a.length + 1 - 2 + 1 = dest + a.length := by omega
  unfold Disjoint at hdis
  obtain ⟨m', e, hh, ho⟩ := strcatCopy_spec b m (dest + a.length + 1 - 2) src fuel hb
    (by rw [ew]; exact hd) (by rw [ew]; unfold Disjoint; omega) (by omega)
  rw [ew] at hh ho
  refine ⟨m', by unfold strcat; rw [e1]; simp only [bind, Option.bind]; rw [e]; rfl, ?_, ho⟩
  rw [List.append_assoc, holds_append]
  exact ⟨holds_of_sameOutside (cstr_prefix_holds (r := []) (by simpa using ha)).1 ho (by omega), hh⟩

/-! ### strdup / strndup — `malloc` is a parameter; what is assumed of it: on
success the block `[ret, ret+size)` is mapped, does not overlap the argument
string, and the rest of the memory is as before -/

theorem strdup_spec (malloc : Alloc) (m m1 : Mem) (s ret : Nat) (l : List Byte) (fuel : Nat)
    (h : CStr m s l) (hal : malloc m (l.length + 1) = some (m1, ret)) (hok : AllocOk m m1 ret (l.length + 1))
    (hdis : Disjoint ret (l.length + 1) s (l.length + 1)) (hf : l.length < fuel) :
    ∃ m', strdup malloc m s fuel = some (m', some ret) ∧ Holds m' ret (l ++ [0#8]) ∧
      SameOutside m1 m' ret (l.length + 1) := by
  have e1 := strlen_eq m l s fuel h hf
  unfold Disjoint at hdis
  have h1 : CStr m1 s l := cstr_of_sameOutside h hok.2 (by omega)
  obtain ⟨m', e, hh, ho⟩ := strcpyLoop_spec l m1 ret s fuel h1 hok.1 (by unfold Disjoint; omega) hf
  exact ⟨m', by simp [strdup, e1, hal, strcpy, e], hh, ho⟩

/-- allocation failure ⇒ NULL, memory untouched -/
theorem strdup_nomem (malloc : Alloc) (m : Mem) (s : Nat) (l : List Byte) (fuel : Nat)
    (h : CStr m s l) (hal : malloc m (l.length + 1) = none) (hf : l.length < fuel) :
    strdup malloc m s fuel = some (m, none) := by
  simp [strdup, strlen_eq m l s fuel h hf, hal]

/-- strndup of an array of `size` non-NUL characters WITHOUT terminator: reads
exactly those (`fix: strndup does not read past size bytes`), result `p ++ [0]` -/
theorem strndup_array (malloc : Alloc) (m m1 : Mem) (s ret : Nat) (p : List Byte)
    (h : Holds m s p) (h0 : 0#8 ∉ p) (hal : malloc m (p.length + 1) = some (m1, ret))
    (hok : AllocOk m m1 ret (p.length + 1)) (hdis : Disjoint ret (p.length + 1) s p.length) :
    ∃ m', strndup malloc m s p.length = some (m', some ret) ∧ Holds m' ret (p ++ [0#8]) ∧
      SameOutside m1 m' ret (p.length + 1) := by
  have e1 : strnlen m s p.length = some p.length := by
    simpa [strnlen] using strnlenLoop_long m p s p.length 0 h h0 (Nat.le_refl _)
  unfold Disjoint at hdis
  have h1 : Holds m1 s p := holds_of_sameOutside h hok.2 (by omega)
  obtain ⟨m2, e2, hc⟩ := memcpy_fwd m1 ret s p.length (by omega) h1.mapped (fun i hi => hok.1 i (by omega))
  have hmap : (m2 (ret + p.length)).isSome := by
    rw [hc.done.2 _ (by omega)]; exact hok.1 _ (by omega)
  refine ⟨upd m2 (ret + p.length) 0#8, ?_, ?_, ?_⟩
  · simp only [strndup, e1, bind, Option.bind, hal, e2, BitVec.ofNat_eq_ofNat, wr_upd hmap]
    rfl
  · rw [holds_append]
    exact ⟨holds_upd_outside _ (hc.done.holds h1) (by omega), by simp [holds_cons, Holds.nil]⟩
  · intro j hj; rw [upd_other _ _ (by omega)]; exact hc.done.2 j (by omega)

/-- strndup of a string: the first `min(len, size)` characters and a terminator -/
theorem strndup_string (malloc : Alloc) (m m1 : Mem) (s ret : Nat) (l : List Byte) (size : Nat)
    (h : CStr m s l) (hal : malloc m (min l.length size + 1) = some (m1, ret))
    (hok : AllocOk m m1 ret (min l.length size + 1))
    (hdis : Disjoint ret (min l.length size + 1) s (l.length + 1)) :
    ∃ m', strndup malloc m s size = some (m', some ret) ∧ Holds m' ret (l.take size ++ [0#8]) ∧
      SameOutside m1 m' ret (min l.length size + 1) := by
  have e1 : strnlen m s size = some (min l.length size) := by
    simpa [strnlen] using strnlenLoop_cstr m l s size 0 h
  unfold Disjoint at hdis
  have hp := cstr_prefix_holds (p := l.take size) (r := l.drop size) (by simpa using h)
  have hlen : (l.take size).length = min l.length size := by simp [Nat.min_comm]
  have h1 : Holds m1 s (l.take size) := holds_of_sameOutside hp.1 hok.2 (by omega)
  obtain ⟨m2, e2, hc⟩ := memcpy_fwd m1 ret s (min l.length size) (by omega)
    (by rw [← hlen]; exact h1.mapped) (fun i hi => hok.1 i (by omega))
  have hmap : (m2 (ret + min l.length size)).isSome := by
    rw [hc.done.2 _ (by omega)]; exact hok.1 _ (by omega)
  refine ⟨upd m2 (ret + min l.length size) 0#8, ?_, ?_, ?_⟩
  · simp only [strndup, e1, bind, Option.bind, hal, e2, BitVec.ofNat_eq_ofNat, wr_upd hmap]
    rfl
  · rw [holds_append, hlen]
    refine ⟨holds_upd_outside _ ?_ (by omega), by simp [holds_cons, Holds.nil]⟩
    have := hc.done; rw [← hlen] at this; exact this.holds h1
  · intro j hj; rw [upd_other _ _ (by omega)]; exact hc.done.2 j (by omega)

/-- historical (before the fix): strndup of a 1-byte array without terminator read past it -/
theorem strndupOrig_witness :
    strndupOrig (fun m _ => some (m, 64)) (ofBufs [(8, [0x7a#8]), (64, [0#8, 0#8])]) 8 1 10 = none := by
  decide


/-! ### strspn / strcspn / strpbrk — `A` is the set argument (a C string) -/

/-- strspn: length of the longest prefix `q` consisting of bytes of `A`; `x` is
the byte that ends it (the terminator or a byte not in `A`) -/
theorem strspn_spec (m : Mem) (s accept : Nat) (A q : List Byte) (x : Byte) (fuel : Nat)
    (hA : CStr m accept A) (h : Holds m s (q ++ [x])) (h0 : 0#8 ∉ q) (hq : ∀ y ∈ q, y ∈ A)
    (hx : x = 0#8 ∨ x ∉ A) (hf : A.length < fuel) (hg : q.length < fuel) :
    strspn m s accept fuel = some q.length := by
  simpa [strspn] using strspnLoop_spec m A accept fuel hA hf q x s fuel 0 h h0 hq hx hg

/-- strcspn: length of the longest prefix `q` free of bytes of `R` -/
theorem strcspn_spec (m : Mem) (s reject : Nat) (R q : List Byte) (x : Byte) (fuel : Nat)
    (hR : CStr m reject R) (h : Holds m s (q ++ [x])) (h0 : 0#8 ∉ q) (hq : ∀ y ∈ q, y ∉ R)
    (hx : x = 0#8 ∨ x ∈ R) (hf : R.length < fuel) (hg : q.length < fuel) :
    strcspn m s reject fuel = some q.length := by
  simpa [strcspn] using strcspnLoop_spec m R reject fuel hR hf q x s fuel 0 h h0 hq hx hg

/-- strpbrk: pointer to the first byte of `s1` that is in `A` -/
theorem strpbrk_found (m : Mem) (s1 s2 : Nat) (A q : List Byte) (x : Byte) (fuel : Nat)
    (hA : CStr m s2 A) (h : Holds m s1 (q ++ [x])) (h0 : 0#8 ∉ q) (hq : ∀ y ∈ q, y ∉ A) (hx : x ∈ A)
    (hf : A.length < fuel) (hg : q.length < fuel) :
    strpbrk m s1 s2 fuel = some (some (s1 + q.length)) := by
  have hx0 : x ≠ 0#8 := fun e => hA.2 (e ▸ hx)
  have hfirst : ∃ b, m s1 = some b ∧ b ≠ 0#8 := by
    cases q with
    | nil => simp only [List.nil_append, holds_cons] at h; exact ⟨x, h.1, hx0⟩
    | cons b q =>
      simp only [List.cons_append, holds_cons] at h
      exact ⟨b, h.1, fun e => h0 (by simp [e])⟩
  obtain ⟨b, hb, hb0⟩ := hfirst
  -- the initial `c = s2` is only looked at when the loop body never ran; any cell holding 0 will do
  have hnul : m (s2 + A.length) = some 0#8 := by
    have := (holds_append.mp hA.1).2; rw [holds_cons] at this; exact this.1
  cases q with
  | nil =>
    obtain ⟨g, rfl⟩ : ∃ k, fuel = k + 1 := ⟨fuel - 1, by omega⟩
    obtain ⟨c, e, hc⟩ := pbrkInner_mem m x A s2 (g + 1) hA hx hf
    simp only [List.nil_append, holds_cons] at h
    simp [strpbrk, h.1, hx0, pbrkOuter, e, hc]
  | cons b' q =>
    obtain ⟨g, rfl⟩ : ∃ k, fuel = k + 1 := ⟨fuel - 1, by omega⟩
    simp only [List.cons_append, holds_cons] at h
    have hb'0 : ¬ b' = 0#8 := fun e => h0 (by simp [e])
    have hb'A : b' ∉ A := hq b' (by simp)
    obtain ⟨c1, e1, hc1⟩ := pbrkInner_not_mem m b' A s2 (g + 1) hA hb'A hf
    obtain ⟨c, e, hc⟩ := pbrkOuter_spec m A s2 (g + 1) hA hf q x (s1 + 1) g c1 h.2
      (fun e => h0 (by simp [e])) (fun y hy => hq y (by simp [hy])) (Or.inr hx) hc1
      (by simp at hg; omega)
    rw [if_pos hx] at hc
    simp [strpbrk, h.1, hb'0, pbrkOuter, e1, hc1, e, hc, hx0]
    omega

/-- strpbrk: no byte of `s1` is in `A` (or `s1` is empty) ⇒ NULL -/
theorem strpbrk_absent (m : Mem) (s1 s2 : Nat) (A l : List Byte) (fuel : Nat)
    (hA : CStr m s2 A) (h : CStr m s1 l) (hq : ∀ y ∈ l, y ∉ A)
    (hf : A.length < fuel) (hg : l.length < fuel) :
    strpbrk m s1 s2 fuel = some none := by
  cases l with
  | nil => simp [strpbrk, cstr_nil.mp h]
  | cons b' q =>
    obtain ⟨g, rfl⟩ : ∃ k, fuel = k + 1 := ⟨fuel - 1, by omega⟩
    obtain ⟨h1, h2, h3⟩ := cstr_cons.mp h
    have hb'A : b' ∉ A := hq b' (by simp)
    obtain ⟨c1, e1, hc1⟩ := pbrkInner_not_mem m b' A s2 (g + 1) hA hb'A hf
    obtain ⟨c, e, hc⟩ := pbrkOuter_spec m A s2 (g + 1) hA hf q 0#8 (s1 + 1) g c1 h3.1
      h3.2 (fun y hy => hq y (by simp [hy])) (Or.inl rfl) hc1 (by simp at hg; omega)
    rw [if_neg hA.2] at hc
    simp [strpbrk, h1, h2, pbrkOuter, e1, hc1, e, hc]

/-! ### strtok_r (strtok is strtok_r on a static save pointer).  `D` is the
delimiter string; `start` is where the search starts: `str`, or the saved
pointer when `str == NULL`.  The string at `start` is `q ++ t ++ rest`: `q`
leading delimiters, `t` the token. -/

/-- token followed by a delimiter `d`: the token's address is returned, `d` is
overwritten by NUL (so the token is a C string), the save pointer is the byte
after it; nothing else is written -/
theorem strtok_r_token (m : Mem) (str save : Option Nat) (start delim : Nat) (D q t r : List Byte)
    (d : Byte) (fuel : Nat)
    (hstart : tokStart str save = some start)
    (hD : CStr m delim D) (h : CStr m start (q ++ t ++ d :: r)) (hq : ∀ y ∈ q, y ∈ D)
    (ht : ∀ y ∈ t, y ∉ D) (htne : t ≠ []) (hd : d ∈ D)
    (hf : D.length < fuel) (hg : (q ++ t ++ d :: r).length < fuel) :
    ∃ m', strtok_r m str delim save fuel =
        some (m', some (start + q.length + t.length + 1), some (start + q.length)) ∧
      CStr m' (start + q.length) t ∧ SameOutside m m' (start + q.length + t.length) 1 := by
  obtain ⟨t0, t', rfl⟩ : ∃ t0 t', t = t0 :: t' := by
    cases t with
    | nil => exact absurd rfl htne
    | cons a b => exact ⟨a, b, rfl⟩
  have h0 : 0#8 ∉ q ++ t0 :: t' ++ d :: r := h.2
  have ht0 : t0 ≠ 0#8 := fun e => h0 (by simp [e])
  have hd0 : d ≠ 0#8 := fun e => h0 (by simp [e])
  have hA : Holds m start (q ++ [t0]) ∧ Holds m (start + (q.length + 1)) (t' ++ [d]) := by
    have := h.1
    rw [show q ++ t0 :: t' ++ d :: r ++ [0#8] = (q ++ [t0]) ++ ((t' ++ [d]) ++ (r ++ [0#8])) by simp,
      holds_append] at this
    refine ⟨this.1, ?_⟩
    have h2 := this.2
    rw [holds_append] at h2
    simpa using h2.1
  have e1 := tokSkip_spec m D delim fuel hD hf q t0 start fuel hA.1 (fun e => h0 (by simp [e])) hq
    (Or.inr (ht t0 (by simp))) (by simp at hg; omega)
  rw [if_neg ht0] at e1
  have e2 := strcspnLoop_spec m D delim fuel hD hf t' d (start + (q.length + 1)) fuel 0 hA.2
    (fun e => h0 (by simp [e])) (fun y hy => ht y (by simp [hy])) (Or.inr hd) (by simp at hg; omega)
  have hsp : m (start + (q.length + 1) + t'.length) = some d := by
    have := (holds_append.mp hA.2).2; rw [holds_cons] at this; exact this.1
  have hmap : (m (start + (q.length + 1) + t'.length)).isSome := by simp [hsp]
  refine ⟨upd m (start + (q.length + 1) + t'.length) 0#8, ?_, ?_, ?_⟩
  · simp only [strtok_r, hstart, bind, Option.bind, e1, strcspn]
    rw [show start + q.length + 1 = start + (q.length + 1) by omega, e2]
    simp only [Nat.zero_add, rd_eq, hsp, hd0, ne_eq, not_false_eq_true, if_true,
      BitVec.ofNat_eq_ofNat, wr_upd hmap]
    simp; omega
  · constructor
    · have hm : Holds m (start + q.length) (t0 :: t') := by
        have := h.1
        rw [show q ++ t0 :: t' ++ d :: r ++ [0#8] = q ++ ((t0 :: t') ++ (d :: r ++ [0#8])) by simp,
          holds_append, holds_append] at this
        exact this.2.1
      rw [holds_append]
      refine ⟨holds_upd_outside _ hm (by simp; omega), ?_⟩
      simp only [holds_cons, Holds.nil, and_true, List.length_cons]
      rw [show start + q.length + (t'.length + 1) = start + (q.length + 1) + t'.length by omega]
      simp
    · intro e; exact h0 (by simp at e ⊢; rcases e with e | e <;> simp [e])
  · intro j hj
    simp only [List.length_cons] at hj
    exact upd_other _ _ (by omega)

/-- the token runs to the end of the string: memory untouched, the save pointer
rests on the terminator (later calls return NULL) -/
theorem strtok_r_last_token (m : Mem) (str save : Option Nat) (start delim : Nat) (D q t : List Byte)
    (fuel : Nat) (hstart : tokStart str save = some start)
    (hD : CStr m delim D) (h : CStr m start (q ++ t)) (hq : ∀ y ∈ q, y ∈ D)
    (ht : ∀ y ∈ t, y ∉ D) (htne : t ≠ [])
    (hf : D.length < fuel) (hg : (q ++ t).length < fuel) :
    strtok_r m str delim save fuel =
      some (m, some (start + q.length + t.length), some (start + q.length)) := by
  obtain ⟨t0, t', rfl⟩ : ∃ t0 t', t = t0 :: t' := by
    cases t with
    | nil => exact absurd rfl htne
    | cons a b => exact ⟨a, b, rfl⟩
  have h0 : 0#8 ∉ q ++ t0 :: t' := h.2
  have ht0 : t0 ≠ 0#8 := fun e => h0 (by simp [e])
  have hA : Holds m start (q ++ [t0]) ∧ Holds m (start + (q.length + 1)) (t' ++ [0#8]) := by
    have := h.1
    rw [show q ++ t0 :: t' ++ [0#8] = (q ++ [t0]) ++ (t' ++ [0#8]) by simp, holds_append] at this
    simpa using this
  have e1 := tokSkip_spec m D delim fuel hD hf q t0 start fuel hA.1 (fun e => h0 (by simp [e])) hq
    (Or.inr (ht t0 (by simp))) (by simp at hg; omega)
  rw [if_neg ht0] at e1
  have e2 := strcspnLoop_spec m D delim fuel hD hf t' 0#8 (start + (q.length + 1)) fuel 0 hA.2
    (fun e => h0 (by simp [e])) (fun y hy => ht y (by simp [hy])) (Or.inl rfl) (by simp at hg; omega)
  have hsp : m (start + (q.length + 1) + t'.length) = some 0#8 := by
    have := (holds_append.mp hA.2).2; rw [holds_cons] at this; exact this.1
  simp only [strtok_r, hstart, bind, Option.bind, e1, strcspn]
  rw [show start + q.length + 1 = start + (q.length + 1) by omega, e2]
  simp only [Nat.zero_add, rd_eq, hsp]
  simp; omega

/-- only delimiters left (or the empty string): NULL, and the save pointer is
moved to the terminator (`fix: strtok_r stores the save pointer`) -/
theorem strtok_r_no_token (m : Mem) (str save : Option Nat) (start delim : Nat) (D q : List Byte)
    (fuel : Nat) (hstart : tokStart str save = some start)
    (hD : CStr m delim D) (h : CStr m start q) (hq : ∀ y ∈ q, y ∈ D)
    (hf : D.length < fuel) (hg : q.length < fuel) :
    strtok_r m str delim save fuel = some (m, some (start + q.length), none) := by
  have e1 := tokSkip_spec m D delim fuel hD hf q 0#8 start fuel h.1 h.2 hq (Or.inl rfl) hg
  simp only [strtok_r, hstart, bind, Option.bind, e1]
  simp

/-- `str == NULL` and nothing saved: NULL without any access -/
theorem strtok_r_null (m : Mem) (delim fuel : Nat) :
    strtok_r m none delim none fuel = some (m, none, none) := rfl

/-- historical (before the fix): after "no token" the save pointer kept its old
value — here it stays NULL-less stale `some 9` instead of moving to the terminator -/
theorem strtok_rOrig_witness :
    (strtok_rOrig (ofBufs [(8, [44#8, 0#8]), (16, [44#8, 0#8])]) (some 8) 16 (some 99) 10).map (·.2.1)
      = some (some 99) := by decide


/-! ### strstr / strcasestr — first position at which the needle is a prefix of
the rest of the haystack (for strcasestr: after the C-locale `tolower`) -/

/-- empty needle ⇒ the haystack itself; the haystack is not even read -/
theorem strstr_empty_needle (m : Mem) (haystack needle fuel : Nat) (h : m needle = some 0#8) :
    strstr m haystack needle fuel = some (some haystack) := by
  simp [strstr, strstrF, h]

theorem strcasestr_empty_needle (m : Mem) (haystack needle fuel : Nat) (h : m needle = some 0#8) :
    strcasestr m haystack needle fuel = some (some haystack) := by
  simp [strcasestr, strstrF, h]

/-- `l = p ++ nd ++ r` and the needle occurs at no earlier position ⇒ `haystack + |p|` -/
theorem strstr_found (m : Mem) (haystack needle : Nat) (nd p r : List Byte) (fuel : Nat)
    (hH : CStr m haystack (p ++ nd ++ r)) (hN : CStr m needle nd) (hne : nd ≠ [])
    (hfirst : ∀ i, i < p.length → ¬ nd <+: (p ++ nd ++ r).drop i)
    (hf : (p ++ nd ++ r).length < fuel) :
    strstr m haystack needle fuel = some (some (haystack + p.length)) := by
  obtain ⟨b, nd', rfl⟩ : ∃ b nd', nd = b :: nd' := by
    cases nd with
    | nil => exact absurd rfl hne
    | cons b t => exact ⟨b, t, rfl⟩
  obtain ⟨n1, n2, _⟩ := cstr_cons.mp hN
  rw [List.append_assoc] at hH hfirst hf
  have := strstrOuter_found id hf0_id m (b :: nd') needle fuel hN hne p ((b :: nd') ++ r) haystack fuel hH
    ((matchAt_id_iff _ _).mpr (List.prefix_append _ _))
    (fun i hi hm => hfirst i hi ((matchAt_id_iff _ _).mp hm)) hf (by simp at hf; omega)
  simp [strstr, strstrF, n1, n2, this]

/-- the needle occurs nowhere ⇒ NULL -/
theorem strstr_absent (m : Mem) (haystack needle : Nat) (nd l : List Byte) (fuel : Nat)
    (hH : CStr m haystack l) (hN : CStr m needle nd) (hne : nd ≠ [])
    (hno : ∀ i, i < l.length → ¬ nd <+: l.drop i) (hf : l.length < fuel) :
    strstr m haystack needle fuel = some none := by
  obtain ⟨b, nd', rfl⟩ : ∃ b nd', nd = b :: nd' := by
    cases nd with
    | nil => exact absurd rfl hne
    | cons b t => exact ⟨b, t, rfl⟩
  obtain ⟨n1, n2, _⟩ := cstr_cons.mp hN
  have := strstrOuter_none id hf0_id m (b :: nd') needle fuel hN l haystack fuel hH
    (fun i hi hm => hno i hi ((matchAt_id_iff _ _).mp hm)) hf hf
  simp [strstr, strstrF, n1, n2, this]

theorem strcasestr_found (m : Mem) (haystack needle : Nat) (nd p mid r : List Byte) (fuel : Nat)
    (hH : CStr m haystack (p ++ mid ++ r)) (hN : CStr m needle nd) (hne : nd ≠ [])
    (hmid : mid.map lowerB = nd.map lowerB)
    (hfirst : ∀ i, i < p.length → ¬ nd.map lowerB <+: ((p ++ mid ++ r).drop i).map lowerB)
    (hf : (p ++ mid ++ r).length < fuel) :
    strcasestr m haystack needle fuel = some (some (haystack + p.length)) := by
  obtain ⟨b, nd', rfl⟩ : ∃ b nd', nd = b :: nd' := by
    cases nd with
    | nil => exact absurd rfl hne
    | cons b t => exact ⟨b, t, rfl⟩
  obtain ⟨n1, n2, _⟩ := cstr_cons.mp hN
  rw [List.append_assoc] at hH hfirst hf
  have := strstrOuter_found tolowerI hf0_lower m (b :: nd') needle fuel hN hne p (mid ++ r) haystack fuel hH
    ((matchAt_lower_iff _ _).mpr (by rw [List.map_append, hmid]; exact List.prefix_append _ _))
    (fun i hi hm => hfirst i hi ((matchAt_lower_iff _ _).mp hm)) hf (by simp at hf; omega)
  simp [strcasestr, strstrF, n1, n2, this]

theorem strcasestr_absent (m : Mem) (haystack needle : Nat) (nd l : List Byte) (fuel : Nat)
    (hH : CStr m haystack l) (hN : CStr m needle nd) (hne : nd ≠ [])
    (hno : ∀ i, i < l.length → ¬ nd.map lowerB <+: (l.drop i).map lowerB) (hf : l.length < fuel) :
    strcasestr m haystack needle fuel = some none := by
  obtain ⟨b, nd', rfl⟩ : ∃ b nd', nd = b :: nd' := by
    cases nd with
    | nil => exact absurd rfl hne
    | cons b t => exact ⟨b, t, rfl⟩
  obtain ⟨n1, n2, _⟩ := cstr_cons.mp hN
  have := strstrOuter_none tolowerI hf0_lower m (b :: nd') needle fuel hN l haystack fuel hH
    (fun i hi hm => hno i hi ((matchAt_lower_iff _ _).mp hm)) hf hf
  simp [strcasestr, strstrF, n1, n2, this]


/-! ### strncat — `c` is what gets appended: the first `min(n, strlen(s2))`
characters of the source (either `n` characters, and then nothing after them
is read, or fewer followed by the source's terminator) -/

theorem strncat_eq_simple_loop (m : Mem) (s1 s2 n fuel e : Nat) (he : scanNul m fuel s1 = some e) :
    strncat m s1 s2 n fuel = (strncatTail n m (e - 2) s2 0).map fun m' => (m', s1) := by
  unfold strncat
  simp only [he, bind, Option.bind]
  by_cases h4 : n ≥ 4
  · rw [if_pos h4]
    have hn : n = 4 * (n / 4 - 1 + 1) + n % 4 := by omega
    conv => rhs; rw [hn, strncat4_eq_tail]
    cases strncat4 (n / 4 - 1) m (e - 2) s2 with
    | none => rfl
    | some x =>
      obtain ⟨m', res⟩ := x
      cases res with
      | none => rfl
      | some t =>
        obtain ⟨a, b, c⟩ := t
        simp only [Option.bind, Option.map, pure]
        cases strncatTail (n % 4) m' a b c <;> rfl
  · rw [if_neg h4]
    simp only [Option.map, pure]
    cases strncatTail n m (e - 2) s2 0 <;> rfl

theorem strncat_spec (m : Mem) (s1 s2 : Nat) (a c : List Byte) (n fuel : Nat) (hdest : 0 < s1)
    (ha : CStr m s1 a) (hs : Holds m s2 c) (h0 : 0#8 ∉ c) (hn : c.length ≤ n)
    (hend : c.length < n → m (s2 + c.length) = some 0#8)
    (hd : Mapped m (s1 + a.length) (c.length + 1))
    (hdis : Disjoint s1 (a.length + c.length + 1) s2 (c.length + 1)) (hf : a.length < fuel) :
    ∃ m', strncat m s1 s2 n fuel = some (m', s1) ∧ Holds m' s1 (a ++ c ++ [0#8]) ∧
      SameOutside m m' (s1 + a.length) (c.length + 1) := by
  have e1 := scanNul_spec m a s1 fuel ha hf
  have ew : s1 + a.length + 1 - 2 + 1 = s1 + a.length := by omega
  have hnul : m (s1 + a.length) = some 0#8 := by
    have := (holds_append.mp ha.1).2; rw [holds_cons] at this; exact this.1
  unfold Disjoint at hdis
  obtain ⟨m', e, hh, ho⟩ := strncatTail_spec c n m (s1 + a.length + 1 - 2) s2 0 hs h0 hn hend
    (Or.inr (by rw [ew]; exact hnul)) (by rw [ew]; exact hd) (by rw [ew]; unfold Disjoint; omega)
  rw [ew] at hh ho
  refine ⟨m', by rw [strncat_eq_simple_loop m s1 s2 n fuel _ e1, e]; rfl, ?_, ho⟩
  rw [List.append_assoc, holds_append]
  exact ⟨holds_of_sameOutside (cstr_prefix_holds (r := []) (by simpa using ha)).1 ho (by omega), hh⟩


/-! ### TOTALITY (round 3).  The theorems above are stated per case (found / absent, equal / first
difference ...).  These say that the cases are exhaustive: on EVERY content of the mapped objects
the call returns (no fault) and the result is characterised by an `iff`. -/

/-- memcmp is TOTAL on two mapped n-byte objects (never a fault, whatever the contents), its result
is 0 exactly when the two objects are equal, and otherwise it is the difference of the first
differing pair read as `unsigned char` -/
theorem memcmp_total (m : Mem) (d s : Nat) (l1 l2 : List Byte) (hlen : l1.length = l2.length)
    (h1 : Holds m d l1) (h2 : Holds m s l2) :
    ∃ r, memcmp m d s l1.length = some r ∧ (r = 0 ↔ l1 = l2) ∧
      (l1 ≠ l2 → ∃ p x y r1 r2, l1 = p ++ x :: r1 ∧ l2 = p ++ y :: r2 ∧ x ≠ y ∧ r = ucInt x - ucInt y) := by
  rcases first_diff l1 l2 hlen with e | ⟨p, x, y, r1, r2, e1, e2, hxy⟩
  · subst e
    exact ⟨0, memcmp_equal m d s l1 h1 h2, by simp, fun h => absurd rfl h⟩
  · have g1 : Holds m d (p ++ [x]) := by
      rw [e1, show p ++ x :: r1 = (p ++ [x]) ++ r1 by simp, holds_append] at h1; exact h1.1
    have g2 : Holds m s (p ++ [y]) := by
      rw [e2, show p ++ y :: r2 = (p ++ [y]) ++ r2 by simp, holds_append] at h2; exact h2.1
    have hr := memcmp_first_difference m d s p x y l1.length g1 g2 hxy (by rw [e1]; simp)
    have hne : l1 ≠ l2 := by
      rw [e1, e2]; intro h
      have := List.append_cancel_left h
      exact hxy (List.cons.inj this).1
    have hnz : ucInt x - ucInt y ≠ 0 := fun h0 => hxy ((ucInt_sub_sign x y).2.mp h0)
    exact ⟨_, hr, ⟨fun h0 => absurd h0 hnz, fun h => absurd h hne⟩, fun _ => ⟨p, x, y, r1, r2, e1, e2, hxy, rfl⟩⟩

/-- strcmp is TOTAL on two C strings: no fault, 0 exactly for equal strings, otherwise the difference
of the first differing pair of characters (the terminator counts) as `unsigned char` -/
theorem strcmp_total (m : Mem) (s1 s2 : Nat) (l1 l2 : List Byte) (fuel : Nat) (h1 : CStr m s1 l1) (h2 : CStr m s2 l2)
    (hf : l1.length < fuel) :
    ∃ r, strcmp m s1 s2 fuel = some r ∧ (r = 0 ↔ l1 = l2) := by
  rcases first_diff_cstr l1 l2 h1.2 h2.2 with e | ⟨p, x, y, r1, r2, e1, e2, hxy, hp⟩
  · subst e
    exact ⟨0, strcmp_equal m s1 s2 l1 fuel h1 h2 hf, by simp⟩
  · have g1 : Holds m s1 (p ++ [x]) := by
      have := h1.1; rw [e1, show p ++ x :: r1 = (p ++ [x]) ++ r1 by simp, holds_append] at this; exact this.1
    have g2 : Holds m s2 (p ++ [y]) := by
      have := h2.1; rw [e2, show p ++ y :: r2 = (p ++ [y]) ++ r2 by simp, holds_append] at this; exact this.1
    have hpl : p.length ≤ l1.length := by
      have := congrArg List.length e1; simp at this; omega
    have hr := strcmp_first_difference m s1 s2 p x y fuel g1 g2 hp hxy (by omega)
    have hne : l1 ≠ l2 := by
      intro h; subst h
      rw [e1] at e2
      exact hxy (List.cons.inj (List.append_cancel_left e2)).1
    have hnz : ucInt x - ucInt y ≠ 0 := fun h0 => hxy ((ucInt_sub_sign x y).2.mp h0)
    exact ⟨_, hr, fun h0 => absurd h0 hnz, fun h => absurd h hne⟩
/-- memchr is TOTAL on a mapped n-byte object: NULL exactly when the byte does not occur, otherwise
the pointer to its FIRST occurrence -/
theorem memchr_total (m : Mem) (s : Nat) (c : Int) (l : List Byte) (hl : Holds m s l) :
    ∃ r, memchr m s c l.length = some r ∧ (r = none ↔ toChar c ∉ l) ∧
      (toChar c ∈ l → ∃ p rest, l = p ++ toChar c :: rest ∧ toChar c ∉ p ∧ r = some (s + p.length)) := by
  by_cases hc : toChar c ∈ l
  · obtain ⟨p, rest, e, hp⟩ := first_split hc
    have hr : memchr m s c l.length = some (some (s + p.length)) := by
      have := memchr_found m s c p rest (by rw [← e]; exact hl) hp
      rwa [← e] at this
    exact ⟨_, hr, ⟨fun h => by simp at h, fun h => absurd hc h⟩, fun _ => ⟨p, rest, e, hp, rfl⟩⟩
  · exact ⟨none, memchr_absent m s c l hl hc, ⟨fun _ => hc, fun _ => rfl⟩, fun h => absurd h hc⟩

/-- strnlen is TOTAL on a mapped array of maxlen bytes with ANY contents: the index of the first
NUL, or maxlen when there is none -/
theorem strnlen_total (m : Mem) (s : Nat) (l : List Byte) (h : Holds m s l) :
    ∃ k, strnlen m s l.length = some k ∧ k ≤ l.length ∧ 0#8 ∉ l.take k ∧ (k < l.length → l[k]? = some 0#8) := by
  by_cases h0 : 0#8 ∈ l
  · obtain ⟨p, rest, e, hp⟩ := first_split h0
    have hc : CStr m s p := by
      refine ⟨?_, hp⟩
      rw [e, show p ++ 0#8 :: rest = (p ++ [0#8]) ++ rest by simp, holds_append] at h; exact h.1
    have hlen : l.length = p.length + 1 + rest.length := by rw [e]; simp; omega
    refine ⟨p.length, ?_, by omega, ?_, fun _ => ?_⟩
    · rw [strnlen_spec m s p l.length hc, Nat.min_eq_left (by omega)]
    · rw [e]; simpa using hp
    · rw [e]; simp
  · exact ⟨l.length, strnlen_unterminated m s l h h0, Nat.le_refl _, by simpa using h0, fun hk => absurd hk (Nat.lt_irrefl _)⟩
/-- strchr is TOTAL on a C string, for every `int` ch: the terminator when `(char)ch == 0`, the
FIRST occurrence when the character occurs, NULL otherwise -/
theorem strchr_total (m : Mem) (s : Nat) (ch : Int) (l : List Byte) (fuel : Nat) (h : CStr m s l)
    (hf : l.length < fuel) :
    ∃ r, strchr m s ch fuel = some r ∧
      (toChar ch = 0#8 → r = some (s + l.length)) ∧
      (toChar ch ≠ 0#8 → toChar ch ∉ l → r = none) ∧
      (toChar ch ∈ l → ∃ p rest, l = p ++ toChar ch :: rest ∧ toChar ch ∉ p ∧ r = some (s + p.length)) := by
  by_cases hz : toChar ch = 0#8
  · refine ⟨_, strchr_terminator m s ch l fuel h hz hf, fun _ => rfl, fun h' => absurd hz h', fun hin => ?_⟩
    exact absurd (hz ▸ hin) h.2
  · by_cases hin : toChar ch ∈ l
    · obtain ⟨p, rest, e, hp⟩ := first_split hin
      have g : Holds m s (p ++ [toChar ch]) := by
        have := h.1
        rw [e, show p ++ toChar ch :: rest ++ [0#8] = (p ++ [toChar ch]) ++ (rest ++ [0#8]) by simp, holds_append] at this
        exact this.1
      have h0 : 0#8 ∉ p := fun e0 => h.2 (by rw [e]; exact List.mem_append_left _ e0)
      have hlen : p.length < fuel := by
        have := congrArg List.length e; simp at this; omega
      exact ⟨_, strchr_found m s ch p fuel g h0 hp hlen, fun h' => absurd h' hz, fun _ hn => absurd hin hn,
        fun _ => ⟨p, rest, e, hp, rfl⟩⟩
    · exact ⟨_, strchr_absent m s ch l fuel h hin hz hf, fun h' => absurd h' hz, fun _ _ => rfl, fun h' => absurd h' hin⟩

/-- memrchr is TOTAL on a mapped n-byte object: NULL exactly when the byte does not occur, otherwise
the pointer to its LAST occurrence -/
theorem memrchr_total (m : Mem) (s : Nat) (c : Int) (l : List Byte) (hl : Holds m s l) :
    ∃ r, memrchr m s c l.length = some r ∧ (r = none ↔ toChar c ∉ l) ∧
      (toChar c ∈ l → ∃ p rest, l = p ++ toChar c :: rest ∧ toChar c ∉ rest ∧ r = some (s + p.length)) := by
  by_cases hc : toChar c ∈ l
  · obtain ⟨p, rest, e, hp⟩ := last_split hc
    have hr : memrchr m s c l.length = some (some (s + p.length)) := by
      have := memrchr_found m s c p rest (by rw [← e]; exact hl) hp
      rwa [← e] at this
    exact ⟨_, hr, ⟨fun h => by simp at h, fun h => absurd hc h⟩, fun _ => ⟨p, rest, e, hp, rfl⟩⟩
  · exact ⟨none, memrchr_absent m s c l hl hc, ⟨fun _ => hc, fun _ => rfl⟩, fun h => absurd h hc⟩

/-- strrchr is TOTAL on a C string, for every `int` ch: the terminator when `(char)ch == 0`, the LAST
occurrence when the character occurs, NULL otherwise -/
theorem strrchr_total (m : Mem) (s : Nat) (ch : Int) (l : List Byte) (fuel : Nat) (h : CStr m s l)
    (hf : l.length + 1 < fuel) :
    ∃ r, strrchr m s ch fuel = some r ∧
      (toChar ch = 0#8 → r = some (s + l.length)) ∧
      (toChar ch ≠ 0#8 → toChar ch ∉ l → r = none) ∧
      (toChar ch ∈ l → ∃ p rest, l = p ++ toChar ch :: rest ∧ toChar ch ∉ rest ∧ r = some (s + p.length)) := by
  by_cases hz : toChar ch = 0#8
  · refine ⟨_, strrchr_terminator m s ch l fuel h hz (by omega), fun _ => rfl, fun h' => absurd hz h', fun hin => ?_⟩
    exact absurd (hz ▸ hin) h.2
  · by_cases hin : toChar ch ∈ l
    · obtain ⟨p, rest, e, hp⟩ := last_split hin
      have := strrchr_found m s ch p rest fuel (by rw [← e]; exact h) hp (by rw [← e]; exact hf)
      exact ⟨_, this, fun h' => absurd h' hz, fun _ hn => absurd hin hn, fun _ => ⟨p, rest, e, hp, rfl⟩⟩
    · exact ⟨_, strrchr_absent m s ch l fuel h hin hz (by omega), fun h' => absurd h' hz, fun _ _ => rfl,
        fun h' => absurd h' hin⟩

/-- strlen is TOTAL in the sense of its definition: for ANY mapped byte array that contains a NUL the
result is the index of the first one, and nothing behind it is read -/
theorem strlen_first_nul (m : Mem) (s : Nat) (l : List Byte) (fuel : Nat) (h : Holds m s l) (h0 : 0#8 ∈ l)
    (hf : l.length < fuel) :
    ∃ p rest, l = p ++ 0#8 :: rest ∧ 0#8 ∉ p ∧ strlen m s fuel = some p.length := by
  obtain ⟨p, rest, e, hp⟩ := first_split h0
  refine ⟨p, rest, e, hp, ?_⟩
  have hc : CStr m s p := by
    refine ⟨?_, hp⟩
    rw [e, show p ++ 0#8 :: rest = (p ++ [0#8]) ++ rest by simp, holds_append] at h; exact h.1
  have : p.length < fuel := by have := congrArg List.length e; simp at this; omega
  exact strlen_spec m s p fuel hc this

/-- strncmp is TOTAL on two C strings for EVERY n (0, smaller, equal, larger than the lengths, SIZE_MAX):
no fault, and the result is 0 exactly when the first n characters - the terminator counts as a
character, nothing behind it is compared - agree -/
theorem strncmp_total (m : Mem) (s1 s2 : Nat) (l1 l2 : List Byte) (n : Nat) (h1 : CStr m s1 l1) (h2 : CStr m s2 l2) :
    ∃ r, strncmp m s1 s2 n = some r ∧ (r = 0 ↔ (l1 ++ [0#8]).take n = (l2 ++ [0#8]).take n) := by
  rcases first_diff_cstr l1 l2 h1.2 h2.2 with e | ⟨p, x, y, r1, r2, e1, e2, hxy, hp⟩
  · subst e
    exact ⟨0, strncmp_equal m s1 s2 l1 n h1 h2, by simp⟩
  · have g1 := h1.1; have g2 := h2.1
    rw [e1] at g1; rw [e2] at g2
    rw [e1, e2]
    by_cases hn : p.length < n
    · have a1 : Holds m s1 (p ++ [x]) := by
        rw [show p ++ x :: r1 = (p ++ [x]) ++ r1 by simp, holds_append] at g1; exact g1.1
      have a2 : Holds m s2 (p ++ [y]) := by
        rw [show p ++ y :: r2 = (p ++ [y]) ++ r2 by simp, holds_append] at g2; exact g2.1
      refine ⟨_, strncmp_first_difference m s1 s2 p x y n a1 a2 hp hxy hn, ?_⟩
      have hnz : ucInt x - ucInt y ≠ 0 := fun h0 => hxy ((ucInt_sub_sign x y).2.mp h0)
      constructor
      · intro h0; exact absurd h0 hnz
      · intro ht
        have t1 : (p ++ x :: r1).take n = p ++ (x :: r1).take (n - p.length) := by
          rw [List.take_append]; simp [List.take_of_length_le (Nat.le_of_lt hn)]
        have t2 : (p ++ y :: r2).take n = p ++ (y :: r2).take (n - p.length) := by
          rw [List.take_append]; simp [List.take_of_length_le (Nat.le_of_lt hn)]
        rw [t1, t2] at ht
        have := List.append_cancel_left ht
        obtain ⟨j, hj⟩ : ∃ j, n - p.length = j + 1 := ⟨n - p.length - 1, by omega⟩
        rw [hj, List.take_succ_cons, List.take_succ_cons] at this
        exact absurd (List.cons.inj this).1 hxy
    · have hn' : n ≤ p.length := by omega
      refine ⟨0, ?_, ?_⟩
      · cases n with
        | zero => rfl
        | succ k =>
          have hk : k < p.length := by omega
          have hsplit : p = p.take k ++ p[k] :: p.drop (k + 1) := by
            rw [List.getElem_cons_drop, List.take_append_drop]
          have hp3 : p.take k ++ [p[k]] ++ p.drop (k + 1) = p := by
            rw [List.append_assoc, List.singleton_append]; exact hsplit.symm
          have a1 : Holds m s1 (p.take k ++ [p[k]]) := by
            rw [show p ++ x :: r1 = (p.take k ++ [p[k]]) ++ (p.drop (k + 1) ++ x :: r1) by
              rw [← List.append_assoc, hp3], holds_append] at g1
            exact g1.1
          have a2 : Holds m s2 (p.take k ++ [p[k]]) := by
            rw [show p ++ y :: r2 = (p.take k ++ [p[k]]) ++ (p.drop (k + 1) ++ y :: r2) by
              rw [← List.append_assoc, hp3], holds_append] at g2
            exact g2.1
          have := strncmp_equal_prefix m s1 s2 (p.take k) p[k] a1 a2 (fun e => hp (List.mem_of_mem_take e))
          simpa [List.length_take, Nat.min_eq_left (Nat.le_of_lt hk)] using this
      · have t1 : (p ++ x :: r1).take n = p.take n := by
          rw [List.take_append]; simp [Nat.sub_eq_zero_of_le hn']
        have t2 : (p ++ y :: r2).take n = p.take n := by
          rw [List.take_append]; simp [Nat.sub_eq_zero_of_le hn']
        simp [t1, t2]

/-- strcasecmp is TOTAL on two C strings: no fault, and 0 exactly when the strings agree after the
"C"-locale tolower -/
theorem strcasecmp_total (m : Mem) (s1 s2 : Nat) (l1 l2 : List Byte) (fuel : Nat) (h1 : CStr m s1 l1)
    (h2 : CStr m s2 l2) (hf : l1.length < fuel) :
    ∃ r, strcasecmp m s1 s2 fuel = some r ∧ (r = 0 ↔ l1.map lowerB = l2.map lowerB) := by
  rcases first_diff_cstr_lower l1 l2 h1.2 h2.2 with e | ⟨p1, p2, x, y, r1, r2, e1, e2, hp, hxy, h0⟩
  · exact ⟨0, strcasecmp_equal m s1 s2 l1 l2 fuel h1 h2 e hf, by simp [e]⟩
  · have g1 : Holds m s1 (p1 ++ [x]) := by
      have := h1.1; rw [e1, show p1 ++ x :: r1 = (p1 ++ [x]) ++ r1 by simp, holds_append] at this; exact this.1
    have g2 : Holds m s2 (p2 ++ [y]) := by
      have := h2.1; rw [e2, show p2 ++ y :: r2 = (p2 ++ [y]) ++ r2 by simp, holds_append] at this; exact this.1
    have hpl : p1.length ≤ l1.length := by
      have := congrArg List.length e1; simp at this; omega
    refine ⟨_, strcasecmp_first_difference m s1 s2 p1 p2 x y fuel g1 g2 hp h0 hxy (by omega), ?_⟩
    have hnz : ucInt (lowerB x) - ucInt (lowerB y) ≠ 0 := fun h0' => hxy ((ucInt_sub_sign _ _).2.mp h0')
    constructor
    · intro h; exact absurd h hnz
    · intro hmap
      have : (l1 ++ [0#8]).map lowerB = (l2 ++ [0#8]).map lowerB := by simp [hmap]
      rw [e1, e2, List.map_append, List.map_append, hp, List.map_cons, List.map_cons] at this
      exact absurd (List.cons.inj (List.append_cancel_left this)).1 hxy

/-! closed forms: for EVERY pair of C strings the result is a `takeWhile` of the list -/

/-- strspn in closed form, for EVERY pair of C strings: the length of the longest prefix made of bytes of the set -/
theorem strspn_closed (m : Mem) (s accept : Nat) (A l : List Byte) (fuel : Nat)
    (hA : CStr m accept A) (h : CStr m s l) (hf : A.length < fuel) (hg : l.length < fuel) :
    strspn m s accept fuel = some (l.takeWhile (fun x => decide (x ∈ A))).length := by
  obtain ⟨e, hq, hr⟩ := span_spec (fun x => decide (x ∈ A)) l
  have hq' : ∀ y ∈ l.takeWhile (fun x => decide (x ∈ A)), y ∈ A := fun y hy => by simpa using hq y hy
  generalize l.takeWhile (fun x => decide (x ∈ A)) = q at *
  have hlen : q.length ≤ l.length := by have := congrArg List.length e; simp at this; omega
  have h0 : 0#8 ∉ q := fun e0 => h.2 (by rw [e]; exact List.mem_append_left _ e0)
  cases hd : l.dropWhile (fun x => decide (x ∈ A)) with
  | nil =>
    rw [hd, List.append_nil] at e; subst e
    exact strspn_spec m s accept A l 0#8 fuel hA h.1 h0 hq' (Or.inl rfl) hf hg
  | cons x r =>
    have hx : x ∉ A := by simpa using hr x r hd
    rw [hd] at e
    have g : Holds m s (q ++ [x]) := by
      have := h.1
      rw [e, show q ++ x :: r ++ [0#8] = (q ++ [x]) ++ (r ++ [0#8]) by simp, holds_append] at this
      exact this.1
    exact strspn_spec m s accept A q x fuel hA g h0 hq' (Or.inr hx) hf (by omega)

/-- strcspn in closed form: the length of the longest prefix free of bytes of the set -/
theorem strcspn_closed (m : Mem) (s reject : Nat) (R l : List Byte) (fuel : Nat)
    (hR : CStr m reject R) (h : CStr m s l) (hf : R.length < fuel) (hg : l.length < fuel) :
    strcspn m s reject fuel = some (l.takeWhile (fun x => decide (x ∉ R))).length := by
  obtain ⟨e, hq, hr⟩ := span_spec (fun x => decide (x ∉ R)) l
  have hq' : ∀ y ∈ l.takeWhile (fun x => decide (x ∉ R)), y ∉ R := fun y hy => by simpa using hq y hy
  generalize l.takeWhile (fun x => decide (x ∉ R)) = q at *
  have hlen : q.length ≤ l.length := by have := congrArg List.length e; simp at this; omega
  have h0 : 0#8 ∉ q := fun e0 => h.2 (by rw [e]; exact List.mem_append_left _ e0)
  cases hd : l.dropWhile (fun x => decide (x ∉ R)) with
  | nil =>
    rw [hd, List.append_nil] at e; subst e
    exact strcspn_spec m s reject R l 0#8 fuel hR h.1 h0 hq' (Or.inl rfl) hf hg
  | cons x r =>
    have hx : x ∈ R := by simpa using hr x r hd
    rw [hd] at e
    have g : Holds m s (q ++ [x]) := by
      have := h.1
      rw [e, show q ++ x :: r ++ [0#8] = (q ++ [x]) ++ (r ++ [0#8]) by simp, holds_append] at this
      exact this.1
    exact strcspn_spec m s reject R q x fuel hR g h0 hq' (Or.inr hx) hf (by omega)

/-- strpbrk in closed form: NULL when no byte of the string is in the set, otherwise the pointer
behind the longest prefix free of the set -/
theorem strpbrk_closed (m : Mem) (s1 s2 : Nat) (A l : List Byte) (fuel : Nat)
    (hA : CStr m s2 A) (h : CStr m s1 l) (hf : A.length < fuel) (hg : l.length < fuel) :
    strpbrk m s1 s2 fuel = some (if (l.dropWhile (fun x => decide (x ∉ A))).isEmpty then none
      else some (s1 + (l.takeWhile (fun x => decide (x ∉ A))).length)) := by
  obtain ⟨e, hq, hr⟩ := span_spec (fun x => decide (x ∉ A)) l
  have hq' : ∀ y ∈ l.takeWhile (fun x => decide (x ∉ A)), y ∉ A := fun y hy => by simpa using hq y hy
  generalize l.takeWhile (fun x => decide (x ∉ A)) = q at *
  have hlen : q.length ≤ l.length := by have := congrArg List.length e; simp at this; omega
  have h0 : 0#8 ∉ q := fun e0 => h.2 (by rw [e]; exact List.mem_append_left _ e0)
  cases hd : l.dropWhile (fun x => decide (x ∉ A)) with
  | nil =>
    rw [hd, List.append_nil] at e; subst e
    simpa using strpbrk_absent m s1 s2 A l fuel hA h hq' hf hg
  | cons x r =>
    have hx : x ∈ A := by simpa using hr x r hd
    rw [hd] at e
    have g : Holds m s1 (q ++ [x]) := by
      have := h.1
      rw [e, show q ++ x :: r ++ [0#8] = (q ++ [x]) ++ (r ++ [0#8]) by simp, holds_append] at this
      exact this.1
    simpa using strpbrk_found m s1 s2 A q x fuel hA g h0 hq' hx hf (by omega)
/-- strstr with the first matching position known -/
theorem strstr_first_match (m : Mem) (haystack needle : Nat) (nd l : List Byte) (fuel k : Nat)
    (hH : CStr m haystack l) (hN : CStr m needle nd) (hf : l.length < fuel)
    (hk : k ≤ l.length) (hm : nd <+: l.drop k) (hfirst : ∀ i, i < k → ¬ nd <+: l.drop i) :
    strstr m haystack needle fuel = some (some (haystack + k)) := by
  cases nd with
  | nil =>
    have : k = 0 := by
      cases k with
      | zero => rfl
      | succ j => exact absurd (List.nil_prefix) (hfirst 0 (by omega))
    subst this
    simpa using strstr_empty_needle m haystack needle fuel (cstr_nil.mp hN)
  | cons b nd' =>
    obtain ⟨t, ht⟩ := hm
    have el : l = l.take k ++ (b :: nd') ++ t := by
      rw [List.append_assoc, ht, List.take_append_drop]
    have hpl : (l.take k).length = k := by simp [Nat.min_eq_left hk]
    have := strstr_found m haystack needle (b :: nd') (l.take k) t fuel (by rw [← el]; exact hH) hN (by simp)
      (by rw [← el, hpl]; exact hfirst) (by rw [← el]; exact hf)
    rw [hpl] at this; exact this

/-- strstr is TOTAL on two C strings (the needle may be empty, longer than the haystack, or match only
at the very end): NULL exactly when the needle is a prefix of no suffix of the haystack, otherwise the
pointer to the FIRST position where it is -/
theorem strstr_total (m : Mem) (haystack needle : Nat) (nd l : List Byte) (fuel : Nat)
    (hH : CStr m haystack l) (hN : CStr m needle nd) (hf : l.length < fuel) :
    ∃ r, strstr m haystack needle fuel = some r ∧
      (r = none ↔ ∀ i, i ≤ l.length → ¬ nd <+: l.drop i) ∧
      (∀ k, r = some (haystack + k) → k ≤ l.length → (nd <+: l.drop k ∧ ∀ i, i < k → ¬ nd <+: l.drop i)) := by
  by_cases hex : ∃ k, k ≤ l.length ∧ nd <+: l.drop k
  · obtain ⟨k0, hk0⟩ := hex
    obtain ⟨k, ⟨hk, hm⟩, hmin⟩ := exists_least (fun k => k ≤ l.length ∧ nd <+: l.drop k) k0 hk0
    have hfirst : ∀ i, i < k → ¬ nd <+: l.drop i := fun i hi hp => hmin i hi ⟨by omega, hp⟩
    refine ⟨_, strstr_first_match m haystack needle nd l fuel k hH hN hf hk hm hfirst, ?_, ?_⟩
    · constructor
      · intro h; simp at h
      · intro h; exact absurd hm (h k hk)
    · intro k' hk' _
      have : k' = k := by simp at hk'; omega
      subst this; exact ⟨hm, hfirst⟩
  · have hno : ∀ i, i ≤ l.length → ¬ nd <+: l.drop i := fun i hi hp => hex ⟨i, hi, hp⟩
    have hne : nd ≠ [] := fun e => hno 0 (by omega) (by rw [e]; exact List.nil_prefix)
    refine ⟨none, strstr_absent m haystack needle nd l fuel hH hN hne (fun i hi => hno i (by omega)) hf, ?_, ?_⟩
    · exact ⟨fun _ => hno, fun _ => rfl⟩
    · intro k hk; simp at hk

/-! ### strtok / strtok_r HISTORIES (round 3; audit item 4).  A sequence of calls on one
string — the first with the string, the later ones with NULL, call i with its
own delimiter string `ds[i]` (contents `Ds[i]`; the sets may change from call
to call) — returns exactly what the list-level reference automaton
`tokHistory` (Spec.lean: `takeWhile`/`dropWhile` only) prescribes: the tokens in
order, each as a pointer into the string, then NULL for ever; the save pointer
is threaded from call to call as `*saveptr` is.  Nothing outside the string's
characters is modified (the terminator is not rewritten either), and every
call succeeds when only the string and the delimiter strings are mapped.
`strtok` is `strtok_r` on its static pointer (`rfl` below), so the same holds
for it with the static as the threaded state. -/

/-- the general form of the history theorem (any state of the save pointer) -/
theorem strtokCalls_history (fuel lo hi : Nat) : ∀ (Ds : List (List Byte)) (ds : List Nat) (m : Mem)
    (str save : Option Nat) (pos : Nat) (l : List Byte),
    tokStart str save = some pos → CStr m pos l → lo ≤ pos → pos + l.length + 1 ≤ hi → l.length < fuel →
    DelimsOk m fuel lo hi ds Ds →
    ∃ m' sv, strtokCalls m fuel ds str save =
        some (m', sv, (tokHistory Ds l).map (Option.map (pos + ·))) ∧
      SameOutside m m' pos l.length := by
  intro Ds
  induction Ds with
  | nil =>
    intro ds m str save pos l _ _ _ _ _ hD
    cases ds with
    | cons _ _ => exact hD.elim
    | nil =>
    exact ⟨m, save, by simp [strtokCalls, tokHistory], SameOutside.refl _ _ _⟩
  | cons D Ds ih =>
    intro ds m str save pos l hstart hl hlo hhi hfl hD
    cases ds with
    | nil => exact hD.elim
    | cons d ds' =>
    obtain ⟨⟨hDc, hDf, hDo⟩, hDs⟩ := hD
    obtain ⟨e1, hq, hr⟩ := span_spec (fun x => decide (x ∈ D)) l
    have hq' : ∀ y ∈ l.takeWhile (fun x => decide (x ∈ D)), y ∈ D := fun y hy => by simpa using hq y hy
    cases hdr : l.dropWhile (fun x => decide (x ∈ D)) with
    | nil =>
      -- only delimiters left
      rw [hdr, List.append_nil] at e1
      have hall : ∀ y ∈ l, y ∈ D := by rw [e1]; exact hq'
      have hcall := strtok_r_no_token m str save pos d D l fuel hstart hDc hl hall hDf hfl
      have hnil : CStr m (pos + l.length) [] := by
        have := cstr_suffix (p := l) (r := []) (by simpa using hl); exact this
      obtain ⟨m', sv, e, ho⟩ := ih ds' m none (some (pos + l.length)) (pos + l.length) [] rfl hnil (by omega)
        (by simp; omega) (by simp; omega) hDs
      refine ⟨m', sv, ?_, ?_⟩
      · simp only [strtokCalls, hcall, bind, Option.bind, e, tokHistory, tokRef, hdr, pure]
        simp [List.map_map, Function.comp_def, Option.map_map, Nat.add_assoc]
      · intro j hj; exact ho j (by simp)
    | cons x r =>
      have hxD : x ∉ D := by simpa using hr x r hdr
      obtain ⟨e2, ht, hr2⟩ := span_spec (fun y => decide (y ∉ D)) (x :: r)
      have ht' : ∀ y ∈ (x :: r).takeWhile (fun y => decide (y ∉ D)), y ∉ D := fun y hy => by simpa using ht y hy
      have htne : (x :: r).takeWhile (fun y => decide (y ∉ D)) ≠ [] := by
        simp [List.takeWhile_cons, hxD]
      generalize hq0 : l.takeWhile (fun x => decide (x ∈ D)) = q at *
      generalize ht0 : (x :: r).takeWhile (fun y => decide (y ∉ D)) = t at *
      rw [hdr] at e1
      cases hd2 : (x :: r).dropWhile (fun y => decide (y ∉ D)) with
      | nil =>
        rw [hd2, List.append_nil] at e2
        have el : l = q ++ t := by rw [e1, e2]
        subst el
        have hcall := strtok_r_last_token m str save pos d D q t fuel hstart hDc hl hq' ht' htne hDf hfl
        have hnil : CStr m (pos + q.length + t.length) [] := by
          have := cstr_suffix (p := q ++ t) (r := []) (by simpa using hl)
          simpa [Nat.add_assoc] using this
        obtain ⟨m', sv, e, ho⟩ := ih ds' m none (some (pos + q.length + t.length)) (pos + q.length + t.length) []
          rfl hnil (by omega) (by simp at hhi ⊢; omega) (by simp; omega) hDs
        refine ⟨m', sv, ?_, ?_⟩
        · simp only [strtokCalls, hcall, bind, Option.bind, e, tokHistory, tokRef, hdr, hq0, ht0, hd2, pure]
          simp [List.map_map, Function.comp_def, Option.map_map, Nat.add_assoc]
        · intro j hj; exact ho j (by simp)
      | cons dl r3 =>
        have hdD : dl ∈ D := by simpa using hr2 dl r3 hd2
        rw [hd2] at e2
        have el : l = q ++ t ++ dl :: r3 := by rw [e1, e2, List.append_assoc]
        subst el
        obtain ⟨m1, hcall, htok, ho1⟩ := strtok_r_token m str save pos d D q t r3 dl fuel hstart hDc hl hq' ht' htne hdD hDf hfl
        have hrest : CStr m1 (pos + q.length + t.length + 1) r3 := by
          have := cstr_suffix (p := q ++ t ++ [dl]) (r := r3) (by simpa using hl)
          have := cstr_of_sameOutside this ho1 (Or.inr (by simp; omega))
          simpa [Nat.add_assoc] using this
        simp only [List.length_append, List.length_cons] at hhi hfl
        obtain ⟨m', sv, e, ho⟩ := ih ds' m1 none (some (pos + q.length + t.length + 1)) (pos + q.length + t.length + 1) r3
          rfl hrest (by omega) (by omega) (by omega) (hDs.transport ho1 (by omega))
        refine ⟨m', sv, ?_, ?_⟩
        · simp only [strtokCalls, hcall, bind, Option.bind, e, tokHistory, tokRef, hdr, hq0, ht0, hd2, pure]
          simp [List.map_map, Function.comp_def, Option.map_map, Nat.add_assoc]
        · intro j hj
          simp only [List.length_append, List.length_cons] at hj
          rw [ho j (by omega), ho1 j (by omega)]

theorem strtok_r_history (m : Mem) (start fuel : Nat) (l : List Byte) (ds : List Nat) (Ds : List (List Byte))
    (save : Option Nat) (h : CStr m start l) (hf : l.length < fuel)
    (hD : DelimsOk m fuel start (start + l.length + 1) ds Ds) :
    ∃ m' sv, strtokCalls m fuel ds (some start) save =
        some (m', sv, (tokHistory Ds l).map (Option.map (start + ·))) ∧
      SameOutside m m' start l.length :=
  strtokCalls_history fuel start (start + l.length + 1) Ds ds m (some start) save start l rfl h
    (Nat.le_refl _) (Nat.le_refl _) hf hD

/-- a history that is CONTINUED (all calls with NULL) from a save pointer that rests at `pos` -/
theorem strtok_r_history_continued (m : Mem) (pos fuel lo hi : Nat) (l : List Byte) (ds : List Nat)
    (Ds : List (List Byte)) (h : CStr m pos l) (hlo : lo ≤ pos) (hhi : pos + l.length + 1 ≤ hi)
    (hf : l.length < fuel) (hD : DelimsOk m fuel lo hi ds Ds) :
    ∃ m' sv, strtokCalls m fuel ds none (some pos) =
        some (m', sv, (tokHistory Ds l).map (Option.map (pos + ·))) ∧
      SameOutside m m' pos l.length :=
  strtokCalls_history fuel lo hi Ds ds m none (some pos) pos l rfl h hlo hhi hf hD

/-- strtok's static is the threaded save pointer: the two functions are the same function -/
theorem strtok_is_strtok_r : @strtok = @strtok_r := rfl

/-- the reference automaton on "a,,b;c" with the delimiter sets ",", ",", ";", ";": tokens "a", "b;c"
(the second call still splits at ','), then nothing is left for ';' -/
example : tokHistory [[44#8], [44#8], [59#8], [59#8]] [97#8, 44#8, 44#8, 98#8, 59#8, 99#8] =
    [some 0, some 3, none, none] := by decide
/-- ... and with the set changed to ";" for the second call: "a", then ",b" (the commas are no delimiters now), "c" -/
example : tokHistory [[44#8], [59#8], [59#8], [59#8]] [97#8, 44#8, 44#8, 98#8, 59#8, 99#8] =
    [some 0, some 2, some 5, none] := by decide
/-- the model on the same history (string at 8, "," at 32, ";" at 40): same pointers, and the
hypotheses of `strtok_r_history` hold for this memory -/
example : (strtokCalls (ofBufs [(8, [97#8, 44#8, 44#8, 98#8, 59#8, 99#8, 0#8]), (32, [44#8, 0#8]), (40, [59#8, 0#8])])
    20 [32, 40, 40, 40] (some 8) none).map (·.2.2) = some [some 8, some 10, some 13, none] := by decide

/-- strndup: allocation failure ⇒ NULL, memory untouched (audit item 5) -/
theorem strndup_nomem (malloc : Alloc) (m : Mem) (s : Nat) (p : List Byte) (size : Nat)
    (h : Holds m s p) (h0 : 0#8 ∉ p) (hsz : size = p.length ∨ (p.length < size ∧ m (s + p.length) = some 0#8))
    (hal : malloc m (p.length + 1) = none) :
    strndup malloc m s size = some (m, none) := by
  have e1 : strnlen m s size = some p.length := by
    rcases hsz with rfl | ⟨hlt, hz⟩
    · simpa [strnlen] using strnlenLoop_long m p s p.length 0 h h0 (Nat.le_refl _)
    · have hc : CStr m s p := by
        refine ⟨?_, h0⟩
        rw [holds_append]; exact ⟨h, by simp [holds_cons, Holds.nil, hz]⟩
      have := strnlenLoop_cstr m p s size 0 hc
      simpa [strnlen, Nat.min_eq_left (Nat.le_of_lt hlt)] using this
  simp [strndup, e1, hal]

/-! ### ctype (round 3): igris/util/ctype.h and the libc wrappers of compat/libc/include/ctype.h
  For EVERY argument ISO C 7.4 allows (EOF and the 256 values of `unsigned char`:
  `ctypeArg i`, `i : Fin 257`) each classification function is non-zero exactly
  on the members of its "C"-locale class (class table `cLocaleTable` in
  Spec.lean, written independently of the range tests of the code) and each
  conversion moves exactly the letters of the other case.  All 257 cases are
  evaluated by the kernel.  `iscntrl`, `isgraph`, `ispunct` are commented out in
  the header (not provided), so there is nothing to state for them. -/

theorem isupper_c_locale : ∀ i : Fin 257, (isupperI (ctypeArg i) != 0) = inClass (ctypeArg i) CL_U := by decide +kernel
theorem islower_c_locale : ∀ i : Fin 257, (islowerI (ctypeArg i) != 0) = inClass (ctypeArg i) CL_L := by decide +kernel
theorem isdigit_c_locale : ∀ i : Fin 257, (isdigitI (ctypeArg i) != 0) = inClass (ctypeArg i) CL_D := by decide +kernel
theorem isalpha_c_locale : ∀ i : Fin 257, (isalphaI (ctypeArg i) != 0) = inClass (ctypeArg i) (CL_U ||| CL_L) := by decide +kernel
theorem isalnum_c_locale : ∀ i : Fin 257, (isalnumI (ctypeArg i) != 0) = inClass (ctypeArg i) (CL_U ||| CL_L ||| CL_D) := by decide +kernel
theorem isxdigit_c_locale : ∀ i : Fin 257, (isxdigitI (ctypeArg i) != 0) = inClass (ctypeArg i) (CL_D ||| CL_X) := by decide +kernel
theorem isspace_c_locale : ∀ i : Fin 257, (isspaceI (ctypeArg i) != 0) = inClass (ctypeArg i) CL_S := by decide +kernel
theorem isblank_c_locale : ∀ i : Fin 257, (isblankI (ctypeArg i) != 0) = inClass (ctypeArg i) CL_B := by decide +kernel
/-- printing characters: letters, digits, punctuation and the space character -/
theorem isprint_c_locale : ∀ i : Fin 257, (isprintI (ctypeArg i) != 0) =
    inClass (ctypeArg i) (CL_U ||| CL_L ||| CL_D ||| CL_P ||| CL_SP) := by decide +kernel
/-- tolower: an upper-case letter goes to the letter 32 above it; everything else (EOF included) is returned unchanged -/
theorem tolower_c_locale : ∀ i : Fin 257, tolowerC (ctypeArg i) =
    if inClass (ctypeArg i) CL_U then ctypeArg i + 32 else ctypeArg i := by decide +kernel
theorem toupper_c_locale : ∀ i : Fin 257, toupperC (ctypeArg i) =
    if inClass (ctypeArg i) CL_L then ctypeArg i - 32 else ctypeArg i := by decide +kernel
/-- toascii keeps the low seven bits (EOF ↦ 127) -/
theorem toascii_c_locale : ∀ i : Fin 257, toasciiI (ctypeArg i) = ctypeArg i % 128 := by decide +kernel
/-- every classification function returns exactly 0 or 1 (a C truth value), for every `int` -/
theorem ctype_results_are_0_or_1 (c : Int) :
    ∀ f ∈ [isupperI, islowerI, isdigitI, isalphaI, isalnumI, isxdigitI, isspaceI, isblankI, isprintI, isasciiI],
      f c = 0 ∨ f c = 1 := by
  have ite01 : ∀ (p : Prop) [Decidable p], (if p then (1 : Int) else 0) = 0 ∨ (if p then (1 : Int) else 0) = 1 := by
    intro p _; split <;> simp
  intro f hf
  simp only [List.mem_cons, List.not_mem_nil, or_false] at hf
  rcases hf with rfl | rfl | rfl | rfl | rfl | rfl | rfl | rfl | rfl | rfl <;> exact ite01 _
/-- for EVERY `int` outside 0..127 (not only the 257 ISO arguments): no class, conversions are the identity -/
theorem ctype_outside_ascii (c : Int) (h : c < 0 ∨ 127 < c) :
    isupperI c = 0 ∧ islowerI c = 0 ∧ isdigitI c = 0 ∧ isalphaI c = 0 ∧ isalnumI c = 0 ∧ isxdigitI c = 0 ∧
    isspaceI c = 0 ∧ isblankI c = 0 ∧ isprintI c = 0 ∧ tolowerC c = c ∧ toupperC c = c := by
  have e1 : isupperI c = 0 := by unfold isupperI; rw [if_neg (by omega)]
  have e2 : islowerI c = 0 := by unfold islowerI; rw [if_neg (by omega)]
  have e3 : isdigitI c = 0 := by unfold isdigitI; rw [if_neg (by omega)]
  have e4 : isalphaI c = 0 := by unfold isalphaI; rw [if_neg (by omega)]
  have e5 : isxdigitHelperI c = 0 := by unfold isxdigitHelperI; rw [if_neg (by omega)]
  refine ⟨e1, e2, e3, e4, ?_, ?_, ?_, ?_, ?_, ?_, ?_⟩
  · simp [isalnumI, e3, e4]
  · simp [isxdigitI, e3, e5]
  · unfold isspaceI; rw [if_neg (by omega)]
  · unfold isblankI; rw [if_neg (by omega)]
  · unfold isprintI; rw [if_neg (by rw [e3, e4]; omega)]
  · simp [tolowerC, e1]
  · simp [toupperC, e2]
/-- the two spellings of the conversions agree for every `int`: `tolowerI/toupperI` (range test inlined; used by
strcasecmp & co.) = `tolowerC/toupperC` (through the predicate, as igris/util/ctype.h writes them) -/
theorem tolower_twins_agree (c : Int) : tolowerC c = tolowerI c ∧ toupperC c = toupperI c := by
  unfold tolowerC tolowerI toupperC toupperI isupperI islowerI
  constructor <;> split <;> split <;> simp_all <;> omega
/-- isascii (POSIX: defined on ALL integer values, true exactly for 0..127) — for every 32-bit `int`
(`fix: isascii converts to unsigned`) -/
theorem isascii_spec (c : Int) (hc : -2147483648 ≤ c ∧ c ≤ 2147483647) :
    isasciiI c = if 0 ≤ c ∧ c ≤ 127 then 1 else 0 := by
  unfold isasciiI
  rw [BitVec.toNat_ofInt]
  by_cases h : 0 ≤ c ∧ c ≤ 127
  · rw [if_pos h, if_pos (by omega)]
  · rw [if_neg h, if_neg (by omega)]
/-- historical: `((unsigned char)(c)) <= 0x7f` called 321 (= 256 + 'A') an ASCII character -/
theorem isasciiOrig_witness : isasciiOrig 321 = 1 := by decide


/-! ### round 3b: strncasecmp / strcasestr in iff form -/

/-- the first `n` characters of two ARRAYS agree up to case and none of them is a NUL: 0, and nothing behind
the n-th character is read (the arrays need no terminator); `n` may be smaller than the arrays -/
theorem strncasecmp_cut (m : Mem) (s1 s2 : Nat) (P1 P2 : List Byte) (n : Nat)
    (h1 : Holds m s1 P1) (h2 : Holds m s2 P2) (he : P1.map lowerB = P2.map lowerB) (h0 : 0#8 ∉ P1)
    (hn : n ≤ P1.length) : strncasecmp m s1 s2 n = some 0 := by
  cases n with
  | zero => rfl
  | succ k =>
    have hl : P1.length = P2.length := by simpa using congrArg List.length he
    have hk1 : k < P1.length := by omega
    have hk2 : k < P2.length := by omega
    have sp1 : P1 = (P1.take k ++ [P1[k]]) ++ P1.drop (k + 1) := by
      rw [List.append_assoc, List.singleton_append, List.getElem_cons_drop, List.take_append_drop]
    have sp2 : P2 = (P2.take k ++ [P2[k]]) ++ P2.drop (k + 1) := by
      rw [List.append_assoc, List.singleton_append, List.getElem_cons_drop, List.take_append_drop]
    have g1 := h1; have g2 := h2
    rw [sp1, holds_append] at g1
    rw [sp2, holds_append] at g2
    have hek : (P1.take k).map lowerB = (P2.take k).map lowerB := by
      rw [List.map_take, List.map_take, he]
    have hxk : lowerB P1[k] = lowerB P2[k] := by
      have := congrArg (fun l => l[k]?) he
      simpa [hk1, hk2] using this
    have := strncasecmp_equal_prefix m s1 s2 (P1.take k) (P2.take k) P1[k] P2[k] g1.1 g2.1 hek hxk
      (fun e => h0 (List.mem_of_mem_take e))
    simpa [List.length_take, Nat.min_eq_left (Nat.le_of_lt hk1)] using this

/-- strncasecmp is TOTAL on two C strings for EVERY n (0, smaller, equal, larger than the lengths, SIZE_MAX): no
fault, and the result is 0 exactly when the first n characters (the terminator counts as a character, nothing
behind it is compared) agree after the "C"-locale tolower -/
theorem strncasecmp_total (m : Mem) (s1 s2 : Nat) (l1 l2 : List Byte) (n : Nat) (h1 : CStr m s1 l1)
    (h2 : CStr m s2 l2) :
    ∃ r, strncasecmp m s1 s2 n = some r ∧
      (r = 0 ↔ ((l1 ++ [0#8]).take n).map lowerB = ((l2 ++ [0#8]).take n).map lowerB) := by
  rcases first_diff_cstr_lower l1 l2 h1.2 h2.2 with e | ⟨p1, p2, x, y, r1, r2, e1, e2, hp, hxy, h0⟩
  · refine ⟨0, ?_, ?_⟩
    · by_cases hn : l1.length < n
      · exact strncasecmp_equal m s1 s2 l1 l2 n h1 h2 e hn
      · have a1 : Holds m s1 l1 := by have := h1.1; rw [holds_append] at this; exact this.1
        have a2 : Holds m s2 l2 := by have := h2.1; rw [holds_append] at this; exact this.1
        exact strncasecmp_cut m s1 s2 l1 l2 n a1 a2 e h1.2 (by omega)
    · simp [List.map_take, e]
  · have g1 := h1.1; have g2 := h2.1
    rw [e1] at g1; rw [e2] at g2
    have hl : p1.length = p2.length := by simpa using congrArg List.length hp
    have m1 : (l1 ++ [0#8]).map lowerB = p1.map lowerB ++ lowerB x :: r1.map lowerB := by rw [e1]; simp
    have m2 : (l2 ++ [0#8]).map lowerB = p1.map lowerB ++ lowerB y :: r2.map lowerB := by rw [e2, hp]; simp
    rw [List.map_take, List.map_take, m1, m2]
    by_cases hn : p1.length < n
    · have a1 : Holds m s1 (p1 ++ [x]) := by
        rw [show p1 ++ x :: r1 = (p1 ++ [x]) ++ r1 by simp, holds_append] at g1; exact g1.1
      have a2 : Holds m s2 (p2 ++ [y]) := by
        rw [show p2 ++ y :: r2 = (p2 ++ [y]) ++ r2 by simp, holds_append] at g2; exact g2.1
      refine ⟨_, strncasecmp_first_difference m s1 s2 p1 p2 x y n a1 a2 hp h0 hxy hn, ?_⟩
      have hnz : ucInt (lowerB x) - ucInt (lowerB y) ≠ 0 := fun h0' => hxy ((ucInt_sub_sign _ _).2.mp h0')
      constructor
      · intro h; exact absurd h hnz
      · intro ht
        exact absurd ht (take_append_cons_ne _ _ _ hxy (by simpa using hn))
    · have a1 : Holds m s1 p1 := by rw [holds_append] at g1; exact g1.1
      have a2 : Holds m s2 p2 := by rw [holds_append] at g2; exact g2.1
      refine ⟨0, strncasecmp_cut m s1 s2 p1 p2 n a1 a2 hp h0 (by omega), ?_⟩
      simp [take_append_of_le' (p1.map lowerB) _ (show n ≤ (p1.map lowerB).length by simp; omega)]

/-- strcasestr with the first matching position known -/
theorem strcasestr_first_match (m : Mem) (haystack needle : Nat) (nd l : List Byte) (fuel k : Nat)
    (hH : CStr m haystack l) (hN : CStr m needle nd) (hf : l.length < fuel)
    (hk : k ≤ l.length) (hm : nd.map lowerB <+: (l.drop k).map lowerB)
    (hfirst : ∀ i, i < k → ¬ nd.map lowerB <+: (l.drop i).map lowerB) :
    strcasestr m haystack needle fuel = some (some (haystack + k)) := by
  cases nd with
  | nil =>
    have : k = 0 := by
      cases k with
      | zero => rfl
      | succ j => exact absurd (by simp) (hfirst 0 (by omega))
    subst this
    simpa using strcasestr_empty_needle m haystack needle fuel (cstr_nil.mp hN)
  | cons b nd' =>
    obtain ⟨t, ht⟩ := hm
    let mid := (l.drop k).take (b :: nd').length
    let r := (l.drop k).drop (b :: nd').length
    have el : l = l.take k ++ mid ++ r := by
      rw [List.append_assoc, List.take_append_drop, List.take_append_drop]
    have hmid : mid.map lowerB = (b :: nd').map lowerB := by
      show ((l.drop k).take (b :: nd').length).map lowerB = _
      rw [List.map_take, ← ht]
      simp
    have hpl : (l.take k).length = k := by simp [Nat.min_eq_left hk]
    have := strcasestr_found m haystack needle (b :: nd') (l.take k) mid r fuel (by rw [← el]; exact hH) hN
      (by simp) hmid (by rw [← el, hpl]; exact hfirst) (by rw [← el]; exact hf)
    rw [hpl] at this; exact this

/-- strcasestr is TOTAL on two C strings -/
theorem strcasestr_total (m : Mem) (haystack needle : Nat) (nd l : List Byte) (fuel : Nat)
    (hH : CStr m haystack l) (hN : CStr m needle nd) (hf : l.length < fuel) :
    ∃ r, strcasestr m haystack needle fuel = some r ∧
      (r = none ↔ ∀ i, i ≤ l.length → ¬ nd.map lowerB <+: (l.drop i).map lowerB) ∧
      (∀ k, r = some (haystack + k) → k ≤ l.length →
        (nd.map lowerB <+: (l.drop k).map lowerB ∧ ∀ i, i < k → ¬ nd.map lowerB <+: (l.drop i).map lowerB)) := by
  by_cases hex : ∃ k, k ≤ l.length ∧ nd.map lowerB <+: (l.drop k).map lowerB
  · obtain ⟨k0, hk0⟩ := hex
    obtain ⟨k, ⟨hk, hm⟩, hmin⟩ := exists_least (fun k => k ≤ l.length ∧ nd.map lowerB <+: (l.drop k).map lowerB) k0 hk0
    have hfirst : ∀ i, i < k → ¬ nd.map lowerB <+: (l.drop i).map lowerB := fun i hi hp => hmin i hi ⟨by omega, hp⟩
    refine ⟨_, strcasestr_first_match m haystack needle nd l fuel k hH hN hf hk hm hfirst, ?_, ?_⟩
    · constructor
      · intro h; simp at h
      · intro h; exact absurd hm (h k hk)
    · intro k' hk' _
      have : k' = k := by simp at hk'; omega
      subst this; exact ⟨hm, hfirst⟩
  · have hno : ∀ i, i ≤ l.length → ¬ nd.map lowerB <+: (l.drop i).map lowerB := fun i hi hp => hex ⟨i, hi, hp⟩
    have hne : nd ≠ [] := fun e => hno 0 (by omega) (by rw [e]; simp)
    refine ⟨none, strcasestr_absent m haystack needle nd l fuel hH hN hne (fun i hi => hno i (by omega)) hf, ?_, ?_⟩
    · exact ⟨fun _ => hno, fun _ => rfl⟩
    · intro k hk; simp at hk


/-! ### round 3b: ACCESS MONOTONICITY (audit item 3).  `MemLe m m'` (More.lean): `m'` extends `m` - every cell
mapped in `m` is mapped in `m'` with the same content; `m'` may map any number of further cells with any
content.  For EVERY function of the model, for ALL arguments (also those outside the hypotheses of the
specification theorems): if the call succeeds on `m`, it succeeds on `m'` with the SAME result, and for the
writers the resulting memories are related again.  Together with the specification theorems (success when
only the allowed ranges are mapped) this is the "reads and writes no byte outside" clause without a reading
convention: the behaviour on any memory that contains the allowed ranges IS the behaviour on the memory
that contains nothing else; the additional cells are neither needed nor looked at (a fault is the only way
the model can observe a cell, and it does not occur). -/

theorem memchr_access_monotone {m m' : Mem} (h : MemLe m m') (s : Nat) (c : Int) (n : Nat) (r : Option Nat)
    (e : memchr m s c n = some r) : memchr m' s c n = some r := (memchr_le h s c n).eq e
theorem memrchr_access_monotone {m m' : Mem} (h : MemLe m m') (s : Nat) (c : Int) (n : Nat) (r : Option Nat)
    (e : memrchr m s c n = some r) : memrchr m' s c n = some r := (memrchr_le h s c n).eq e
theorem memcmp_access_monotone {m m' : Mem} (h : MemLe m m') (d s n : Nat) (r : Int)
    (e : memcmp m d s n = some r) : memcmp m' d s n = some r := (memcmp_le h d s n).eq e
theorem strlen_access_monotone {m m' : Mem} (h : MemLe m m') (s fuel : Nat) (r : Nat)
    (e : strlen m s fuel = some r) : strlen m' s fuel = some r := (strlen_le h s fuel).eq e
theorem strnlen_access_monotone {m m' : Mem} (h : MemLe m m') (s n : Nat) (r : Nat)
    (e : strnlen m s n = some r) : strnlen m' s n = some r := (strnlen_le h s n).eq e
theorem strcmp_access_monotone {m m' : Mem} (h : MemLe m m') (a b fuel : Nat) (r : Int)
    (e : strcmp m a b fuel = some r) : strcmp m' a b fuel = some r := (strcmpLoop_le h id fuel a b).eq e
theorem strcasecmp_access_monotone {m m' : Mem} (h : MemLe m m') (a b fuel : Nat) (r : Int)
    (e : strcasecmp m a b fuel = some r) : strcasecmp m' a b fuel = some r := (strcmpLoop_le h tolowerI fuel a b).eq e
theorem strncmp_access_monotone {m m' : Mem} (h : MemLe m m') (a b n : Nat) (r : Int)
    (e : strncmp m a b n = some r) : strncmp m' a b n = some r := (strncmpF_le h id a b n).eq e
theorem strncasecmp_access_monotone {m m' : Mem} (h : MemLe m m') (a b n : Nat) (r : Int)
    (e : strncasecmp m a b n = some r) : strncasecmp m' a b n = some r := (strncmpF_le h tolowerI a b n).eq e
theorem strchrnul_access_monotone {m m' : Mem} (h : MemLe m m') (s : Nat) (ch : Int) (fuel : Nat) (r : Nat)
    (e : strchrnul m s ch fuel = some r) : strchrnul m' s ch fuel = some r := (strchrnulLoop_le h (toChar ch) fuel s).eq e
theorem strchr_access_monotone {m m' : Mem} (h : MemLe m m') (s : Nat) (ch : Int) (fuel : Nat) (r : Option Nat)
    (e : strchr m s ch fuel = some r) : strchr m' s ch fuel = some r := (strchr_le h s ch fuel).eq e
theorem strrchr_access_monotone {m m' : Mem} (h : MemLe m m') (s : Nat) (ch : Int) (fuel : Nat) (r : Option Nat)
    (e : strrchr m s ch fuel = some r) : strrchr m' s ch fuel = some r := (strrchr_le h s ch fuel).eq e
theorem strstr_access_monotone {m m' : Mem} (h : MemLe m m') (hs nd fuel : Nat) (r : Option Nat)
    (e : strstr m hs nd fuel = some r) : strstr m' hs nd fuel = some r := (strstrF_le h id hs nd fuel).eq e
theorem strcasestr_access_monotone {m m' : Mem} (h : MemLe m m') (hs nd fuel : Nat) (r : Option Nat)
    (e : strcasestr m hs nd fuel = some r) : strcasestr m' hs nd fuel = some r := (strstrF_le h tolowerI hs nd fuel).eq e
theorem strspn_access_monotone {m m' : Mem} (h : MemLe m m') (s a fuel : Nat) (r : Nat)
    (e : strspn m s a fuel = some r) : strspn m' s a fuel = some r := (strspn_le h s a fuel).eq e
theorem strcspn_access_monotone {m m' : Mem} (h : MemLe m m') (s a fuel : Nat) (r : Nat)
    (e : strcspn m s a fuel = some r) : strcspn m' s a fuel = some r := (strcspn_le h s a fuel).eq e
theorem strpbrk_access_monotone {m m' : Mem} (h : MemLe m m') (s a fuel : Nat) (r : Option Nat)
    (e : strpbrk m s a fuel = some r) : strpbrk m' s a fuel = some r := (strpbrk_le h s a fuel).eq e

theorem memcpy_access_monotone {m m' : Mem} (h : MemLe m m') (d s n : Nat) (m1 : Mem) (r : Nat)
    (e : memcpy m d s n = some (m1, r)) : ∃ m1', memcpy m' d s n = some (m1', r) ∧ MemLe m1 m1' := (memcpy_le h d s n).mv e
theorem memmove_access_monotone {m m' : Mem} (h : MemLe m m') (d s n : Nat) (m1 : Mem) (r : Nat)
    (e : memmove m d s n = some (m1, r)) : ∃ m1', memmove m' d s n = some (m1', r) ∧ MemLe m1 m1' := (memmove_le h d s n).mv e
theorem memset_access_monotone {m m' : Mem} (h : MemLe m m') (d : Nat) (c : Int) (n : Nat) (m1 : Mem) (r : Nat)
    (e : memset m d c n = some (m1, r)) : ∃ m1', memset m' d c n = some (m1', r) ∧ MemLe m1 m1' := (memset_le h d c n).mv e
theorem strcpy_access_monotone {m m' : Mem} (h : MemLe m m') (d s fuel : Nat) (m1 : Mem) (r : Nat)
    (e : strcpy m d s fuel = some (m1, r)) : ∃ m1', strcpy m' d s fuel = some (m1', r) ∧ MemLe m1 m1' := (strcpy_le h d s fuel).mv e
theorem strncpy_access_monotone {m m' : Mem} (h : MemLe m m') (d s n : Nat) (m1 : Mem) (r : Nat)
    (e : strncpy m d s n = some (m1, r)) : ∃ m1', strncpy m' d s n = some (m1', r) ∧ MemLe m1 m1' := (strncpy_le h d s n).mv e
theorem strlcpy_access_monotone {m m' : Mem} (h : MemLe m m') (d s size fuel : Nat) (m1 : Mem) (r : Nat)
    (e : strlcpy m d s size fuel = some (m1, r)) : ∃ m1', strlcpy m' d s size fuel = some (m1', r) ∧ MemLe m1 m1' := (strlcpy_le h d s size fuel).mv e
theorem strcat_access_monotone {m m' : Mem} (h : MemLe m m') (d s fuel : Nat) (m1 : Mem) (r : Nat)
    (e : strcat m d s fuel = some (m1, r)) : ∃ m1', strcat m' d s fuel = some (m1', r) ∧ MemLe m1 m1' := (strcat_le h d s fuel).mv e
theorem strncat_access_monotone {m m' : Mem} (h : MemLe m m') (d s n fuel : Nat) (m1 : Mem) (r : Nat)
    (e : strncat m d s n fuel = some (m1, r)) : ∃ m1', strncat m' d s n fuel = some (m1', r) ∧ MemLe m1 m1' := (strncat_le h d s n fuel).mv e
theorem strlwr_access_monotone {m m' : Mem} (h : MemLe m m') (s fuel : Nat) (m1 : Mem) (r : Nat)
    (e : strlwr m s fuel = some (m1, r)) : ∃ m1', strlwr m' s fuel = some (m1', r) ∧ MemLe m1 m1' := (strlwr_le h s fuel).mv e
theorem strupr_access_monotone {m m' : Mem} (h : MemLe m m') (s fuel : Nat) (m1 : Mem) (r : Nat)
    (e : strupr m s fuel = some (m1, r)) : ∃ m1', strupr m' s fuel = some (m1', r) ∧ MemLe m1 m1' := (strupr_le h s fuel).mv e
theorem strtok_r_access_monotone {m m' : Mem} (h : MemLe m m') (str : Option Nat) (delim : Nat) (save : Option Nat) (fuel : Nat) (m1 : Mem) (r : Option Nat × Option Nat)
    (e : strtok_r m str delim save fuel = some (m1, r)) : ∃ m1', strtok_r m' str delim save fuel = some (m1', r) ∧ MemLe m1 m1' := (strtok_r_le h str delim save fuel).mv e
theorem strtok_access_monotone {m m' : Mem} (h : MemLe m m') (str : Option Nat) (delim : Nat) (save : Option Nat) (fuel : Nat) (m1 : Mem) (r : Option Nat × Option Nat)
    (e : strtok m str delim save fuel = some (m1, r)) : ∃ m1', strtok m' str delim save fuel = some (m1', r) ∧ MemLe m1 m1' := (strtok_r_le h str delim save fuel).mv e
theorem strdup_access_monotone {malloc : Alloc} (ha : AllocMono malloc) {m m' : Mem} (h : MemLe m m') (s fuel : Nat) (m1 : Mem) (r : Option Nat)
    (e : strdup malloc m s fuel = some (m1, r)) : ∃ m1', strdup malloc m' s fuel = some (m1', r) ∧ MemLe m1 m1' := (strdup_le ha h s fuel).mv e
theorem strndup_access_monotone {malloc : Alloc} (ha : AllocMono malloc) {m m' : Mem} (h : MemLe m m') (s size : Nat) (m1 : Mem) (r : Option Nat)
    (e : strndup malloc m s size = some (m1, r)) : ∃ m1', strndup malloc m' s size = some (m1', r) ∧ MemLe m1 m1' := (strndup_le ha h s size).mv e

/-- a whole strtok history on a larger memory: the same tokens, the same final save pointer -/
theorem strtokCalls_access_monotone {m m' : Mem} (h : MemLe m m') (fuel : Nat) (ds : List Nat) (str save : Option Nat)
    (m1 : Mem) (r : Option Nat × List (Option Nat))
    (e : strtokCalls m fuel ds str save = some (m1, r)) :
    ∃ m1', strtokCalls m' fuel ds str save = some (m1', r) ∧ MemLe m1 m1' := (strtokCalls_le fuel ds h str save).mv e

/-- the driver's allocator (a fresh block at a fixed address) satisfies `AllocMono` -/
example (base : Nat) : AllocMono (fun m n => some ((fun a => if base ≤ a ∧ a < base + n then some 0xA5#8 else m a), base)) := by
  intro m m' n h
  refine ⟨fun e => by simp at e, fun m1 p e => ?_⟩
  simp only [Option.some.injEq, Prod.mk.injEq] at e
  obtain ⟨e1, e2⟩ := e
  subst e1; subst e2
  refine ⟨_, rfl, ?_⟩
  intro a v hv
  by_cases c : base ≤ a ∧ a < base + n
  · simpa [c] using hv
  · simp only [if_neg c] at hv ⊢; exact h a v hv
/-- and so does the allocator that always fails -/
example : AllocMono (fun _ _ => none) := fun _ _ _ _ => ⟨fun _ => rfl, fun _ _ e => by simp at e⟩

/-- `MemLe` is not vacuous: "abc\0" alone vs. the same string with a second object next to it; strlen, which
succeeds on the small memory, gives the same value on the large one (and the converse fails: the large memory
lets strlen run on the second object, the small one faults there) -/
example : MemLe (ofBufs [(8, [97#8, 98#8, 99#8, 0#8])]) (ofBufs [(8, [97#8, 98#8, 99#8, 0#8]), (12, [1#8, 0#8])]) := by
  intro a v h
  have : a = 8 ∨ a = 9 ∨ a = 10 ∨ a = 11 := by
    by_cases c : 8 ≤ a ∧ a < 8 + 4
    · omega
    · simp [ofBufs, c] at h
  rcases this with rfl | rfl | rfl | rfl
  · rw [show (ofBufs [(8, [97#8, 98#8, 99#8, 0#8]), (12, [1#8, 0#8])]) 8 = (ofBufs [(8, [97#8, 98#8, 99#8, 0#8])]) 8 by decide]; exact h
  · rw [show (ofBufs [(8, [97#8, 98#8, 99#8, 0#8]), (12, [1#8, 0#8])]) 9 = (ofBufs [(8, [97#8, 98#8, 99#8, 0#8])]) 9 by decide]; exact h
  · rw [show (ofBufs [(8, [97#8, 98#8, 99#8, 0#8]), (12, [1#8, 0#8])]) 10 = (ofBufs [(8, [97#8, 98#8, 99#8, 0#8])]) 10 by decide]; exact h
  · rw [show (ofBufs [(8, [97#8, 98#8, 99#8, 0#8]), (12, [1#8, 0#8])]) 11 = (ofBufs [(8, [97#8, 98#8, 99#8, 0#8])]) 11 by decide]; exact h
example : strlen (ofBufs [(8, [97#8, 98#8, 99#8, 0#8]), (12, [1#8, 0#8])]) 8 10 = some 3 ∧
    strlen (ofBufs [(8, [97#8, 98#8, 99#8, 0#8]), (12, [1#8, 0#8])]) 12 10 = some 1 ∧
    strlen (ofBufs [(8, [97#8, 98#8, 99#8, 0#8])]) 12 10 = none := by decide
/-- `strncasecmp_total`: "aB" vs "Ac": equal up to case on the first character only; `strcasestr_total`: "xAb" / "aB" -/
example : strncasecmp (ofBufs [(8, [97#8, 66#8, 0#8]), (32, [65#8, 99#8, 0#8])]) 8 32 1 = some 0 ∧
    strncasecmp (ofBufs [(8, [97#8, 66#8, 0#8]), (32, [65#8, 99#8, 0#8])]) 8 32 2 = some (-1) ∧
    strcasestr (ofBufs [(8, [120#8, 65#8, 98#8, 0#8]), (32, [97#8, 66#8, 0#8])]) 8 32 10 = some (some 9) := by decide

/-! ### round 3b: the LINEAR-TIME FORM of the model (Fast.lean) IS the model.  `AMem` is an array of cells,
`absA c` the partial memory it stands for.  The ten functions that write O(n) bytes are defined a second time
over `AMem` - the text of Model.lean with `rd`/`wr` replaced by the O(1) `rdA`/`wrA` - and these theorems say that
the array version faults exactly when the literal model faults on `absA c`, returns the same value, and ends in
an array that stands for the literal model's resulting memory.  The driver runs the array versions on the
64 KiB / 300 KiB inputs of the writers: by these theorems that is a run of the literal model (closure memory:
O(n^2), out of reach), not of a second specification. -/

theorem memcpy_linear_form (c : AMem) (d s n : Nat) :
    (memcpyA c d s n).map absP = memcpy (absA c) d s n := (memcpy_absA c d s n).symm
theorem memmove_linear_form (c : AMem) (d s n : Nat) :
    (memmoveA c d s n).map absP = memmove (absA c) d s n := (memmove_absA c d s n).symm
theorem memset_linear_form (c : AMem) (d : Nat) (x : Int) (n : Nat) :
    (memsetA c d x n).map absP = memset (absA c) d x n := (memset_absA c d x n).symm
theorem strcpy_linear_form (c : AMem) (d s fuel : Nat) :
    (strcpyA c d s fuel).map absP = strcpy (absA c) d s fuel := (strcpy_absA c d s fuel).symm
theorem strncpy_linear_form (c : AMem) (d s n : Nat) :
    (strncpyA c d s n).map absP = strncpy (absA c) d s n := (strncpy_absA c d s n).symm
theorem strlcpy_linear_form (c : AMem) (d s size fuel : Nat) :
    (strlcpyA c d s size fuel).map absP = strlcpy (absA c) d s size fuel := (strlcpy_absA c d s size fuel).symm
theorem strcat_linear_form (c : AMem) (d s fuel : Nat) :
    (strcatA c d s fuel).map absP = strcat (absA c) d s fuel := (strcat_absA c d s fuel).symm
theorem strncat_linear_form (c : AMem) (d s n fuel : Nat) :
    (strncatA c d s n fuel).map absP = strncat (absA c) d s n fuel := (strncat_absA c d s n fuel).symm
theorem strdup_linear_form {malloc : Alloc} {mallocA : AllocA} (hm : AllocSim malloc mallocA) (c : AMem) (s fuel : Nat) :
    (strdupA mallocA c s fuel).map absP = strdup malloc (absA c) s fuel := (strdup_absA hm c s fuel).symm
theorem strndup_linear_form {malloc : Alloc} {mallocA : AllocA} (hm : AllocSim malloc mallocA) (c : AMem) (s size : Nat) :
    (strndupA mallocA c s size).map absP = strndup malloc (absA c) s size := (strndup_absA hm c s size).symm
/-- the allocator of the driver (a fresh block filled with 0xA5 at a fixed address, or NULL) in its two forms -/
theorem driver_malloc_linear_form (fail : Bool) (base : Nat) : AllocSim (mallocFn fail base) (mallocArr fail base) :=
  mallocArr_sim fail base
/-- the two primitives: reading a cell, and writing one (fault on an unmapped cell included) -/
theorem rd_wr_linear_form (c : AMem) (a : Nat) (v : Byte) :
    rdA c a = rd (absA c) a ∧ (wrA c a v).map absA = wr (absA c) a v := ⟨rfl, (wr_absA c a v).symm⟩
/-- `absA` is onto the finitely mapped memories the driver builds: an array and the memory it stands for, and a
memmove with overlap run in both forms -/
example : (memmoveA #[none, some 1#8, some 2#8, some 3#8, some 4#8, none] 2 1 3).map (fun r => (r.1, r.2)) =
    some (#[none, some 1#8, some 1#8, some 2#8, some 3#8, none], 2) := by decide
example : (memmove (absA #[none, some 1#8, some 2#8, some 3#8, some 4#8, none]) 2 1 3).map (fun r => (readOut r.1 1 4, r.2)) =
    some (some [1#8, 1#8, 2#8, 3#8], 2) := by decide
example : memmoveA #[none, some 1#8, some 2#8, some 3#8, some 4#8, none] 3 1 3 = none := by decide

/-! ### round 3b: NO RESULT DEPENDS ON THE SIGNEDNESS OF PLAIN `char` (audit item 1).  Unsigned.lean holds the
definitions of Model.lean that convert a plain `char` to `int`, with the zero-extending conversion of a target
whose `char` is unsigned (ARM, PowerPC) instead of the sign-extending one.  They are the same functions - for
all memories, arguments and fuels.  (All other functions of the library convert through `unsigned char`
explicitly or compare bytes only, so their transcription does not mention the conversion at all.) -/

theorem strstr_char_sign_free : @strstrU = @strstr := by
  funext m h n fuel; exact strstrFU_eq id (Or.inl rfl) m h n fuel
theorem strcasestr_char_sign_free : @strcasestrU = @strcasestr := by
  funext m h n fuel; exact strstrFU_eq tolowerI (Or.inr rfl) m h n fuel
theorem strcspn_char_sign_free : @strcspnU = @strcspn := by
  funext m s r fuel; exact strcspnLoopU_eq m r fuel fuel s 0
theorem strtok_r_char_sign_free : @strtok_rU = @strtok_r := by
  funext m str delim save fuel
  simp only [strtok_rU, strtok_r, tokSkipU_eq, strcspn_char_sign_free]
  rfl
theorem strlwr_char_sign_free : @strlwrU = @strlwr := by
  funext m s fuel; simp only [strlwrU, strlwr, caseLoopU_eq 65 90 (by decide) (by decide)]
theorem strupr_char_sign_free : @struprU = @strupr := by
  funext m s fuel; simp only [struprU, strupr, caseLoopU_eq 97 122 (by decide) (by decide)]
/-- strchr, and through it strrchr / strcspn / strtok, looks only at `(char)ch`: any two `int`s with the same low
byte - in particular the sign-extended and the zero-extended value of a character - give the same call -/
theorem strchr_depends_on_char_only (m : Mem) (s : Nat) (a b : Int) (fuel : Nat) (h : toChar a = toChar b) :
    strchr m s a fuel = strchr m s b fuel := strchr_char_only m s a b fuel h
/-- the two conversions really differ (on every byte >= 0x80), so the theorems above are not vacuous -/
example : scInt 0xE1#8 = -31 ∧ ucInt 0xE1#8 = 225 ∧ toChar (-31) = toChar 225 := by decide

/-- the class table is not degenerate: 26 + 26 letters, 10 digits, 6 white-space characters, 95 printing ones -/
example : ((List.range 128).filter fun c => inClass (c : Nat) CL_U).length = 26 ∧
    ((List.range 128).filter fun c => inClass (c : Nat) CL_L).length = 26 ∧
    ((List.range 128).filter fun c => inClass (c : Nat) CL_D).length = 10 ∧
    ((List.range 128).filter fun c => inClass (c : Nat) CL_S).length = 6 ∧
    ((List.range 128).filter fun c => inClass (c : Nat) (CL_U ||| CL_L ||| CL_D ||| CL_P ||| CL_SP)).length = 95 := by decide +kernel
example : ctypeArg 0 = -1 ∧ ctypeArg 256 = 255 := by decide

/-! composite hypothesis sets are satisfiable (audit item 6): concrete memories on which the
conclusions of the theorems are observed on the model -/

/-- `strstr_found` / `strstr_total`: "xab" at 8, needle "ab" at 32 — first match at offset 1, the very end -/
example : strstr (ofBufs [(8, [120#8, 97#8, 98#8, 0#8]), (32, [97#8, 98#8, 0#8])]) 8 32 10 = some (some 9) := by decide
/-- needle longer than the haystack -/
example : strstr (ofBufs [(8, [97#8, 0#8]), (32, [97#8, 98#8, 0#8])]) 8 32 10 = some none := by decide
/-- `strncat_spec` with n = 2 < strlen(s2): two characters and a terminator are appended, the byte behind them survives -/
example : (strncat (ofBufs [(8, [97#8, 0#8, 7#8, 7#8, 7#8]), (32, [98#8, 99#8, 100#8, 0#8])]) 8 32 2 10).map
    (fun r => (r.2, readOut r.1 8 5)) = some (8, some [97#8, 98#8, 99#8, 0#8, 7#8]) := by decide
/-- `strncmp_total`: "ab" vs "ac" agree on the first character only -/
example : strncmp (ofBufs [(8, [97#8, 98#8, 0#8]), (32, [97#8, 99#8, 0#8])]) 8 32 1 = some 0 ∧
    (strncmp (ofBufs [(8, [97#8, 98#8, 0#8]), (32, [97#8, 99#8, 0#8])]) 8 32 2) = some (-1) := by decide
/-- `memcmp_total` on bytes >= 0x80: 0x80 > 0x7f as unsigned char -/
example : memcmp (ofBufs [(8, [0x80#8]), (32, [0x7f#8])]) 8 32 1 = some 1 := by decide
/-- `strspn_closed` / `strcspn_closed` -/
example : strspn (ofBufs [(8, [97#8, 98#8, 44#8, 0#8]), (32, [98#8, 97#8, 0#8])]) 8 32 10 = some 2 ∧
    strcspn (ofBufs [(8, [97#8, 98#8, 44#8, 0#8]), (32, [44#8, 0#8])]) 8 32 10 = some 2 := by decide

/-! ### non-vacuity: the hypotheses used above are satisfiable (concrete memories) -/

example : CStr exMem 8 [97#8, 98#8, 99#8] := by
  constructor
  · intro i hi
    have : i = 0 ∨ i = 1 ∨ i = 2 ∨ i = 3 := by simp at hi; omega
    rcases this with rfl | rfl | rfl | rfl <;> decide
  · decide

example : Holds exMem 32 [1#8, 2#8, 3#8, 4#8, 5#8, 6#8] := by
  intro i hi
  have : i = 0 ∨ i = 1 ∨ i = 2 ∨ i = 3 ∨ i = 4 ∨ i = 5 := by simp at hi; omega
  rcases this with rfl | rfl | rfl | rfl | rfl | rfl <;> decide

example : Mapped exMem 32 6 := by
  intro i hi
  have : i = 0 ∨ i = 1 ∨ i = 2 ∨ i = 3 ∨ i = 4 ∨ i = 5 := by omega
  rcases this with rfl | rfl | rfl | rfl | rfl | rfl <;> decide

example : Disjoint 32 4 8 4 := by unfold Disjoint; omega

/-- memmove's hypotheses hold for an overlapping pair (dst = src + 2 inside the
6-byte object), and the model's run agrees with the theorem's conclusion -/
example : (memmove exMem 34 32 4).map (fun r => (r.2, readOut r.1 32 6)) =
    some (34, some [1#8, 2#8, 1#8, 2#8, 3#8, 4#8]) := by decide

/-- forward overlap (dst below src) goes through memcpy -/
example : (memmove exMem 32 33 5).map (fun r => readOut r.1 32 6) =
    some (some [2#8, 3#8, 4#8, 5#8, 6#8, 6#8]) := by decide

/-- the first-occurrence decomposition used by memchr/strchr: `98 ∉ [97]` -/
example : ([97#8, 98#8, 99#8] : List Byte) = [97#8] ++ 98#8 :: [99#8] ∧ (98#8 : Byte) ∉ [97#8] := by decide

/-- the access-range reading of the theorems: with only "abc\0" mapped, strlen
succeeds; with the terminator unmapped it faults -/
example : strlen (ofBufs [(8, [97#8, 98#8, 99#8, 0#8])]) 8 10 = some 3 := by decide
example : strlen (ofBufs [(8, [97#8, 98#8, 99#8])]) 8 10 = none := by decide

/-- an allocator satisfying `AllocOk` (the driver's `mallocAt` has this shape) -/
example (m : Mem) (n : Nat) :
    AllocOk m (fun a => if 64 ≤ a ∧ a < 64 + n then some 0xA5#8 else m a) 64 n := by
  constructor
  · intro i hi; simp [hi]
  · intro j hj; simp only; rw [if_neg hj]

end Igris.C08
