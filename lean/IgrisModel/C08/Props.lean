/-
  C08 — PROPERTY THEOREMS.

  Property: "Each memory and string function of the bundled libc returns the
  result its standard definition prescribes (value, sign, or pointer offset)
  and leaves the destination bytes the definition prescribes.  It reads and
  writes no byte outside the ranges the definition allows, for every content,
  length (including 0), alignment and, for memmove, overlap."

  Reading the statements.  `m : Mem` is ONE partial memory shared by all
  arguments; every theorem quantifies over all of it, all addresses (hence all
  alignments and all relative positions) and all byte contents.
    * `Holds m a l`   — the cells a, a+1, … contain the list `l`
    * `Mapped m a n`  — n cells at a exist;  `CStr m a l` — `l` then NUL, no NUL in `l`
    * a result `some …` means: no fault.  Since the hypotheses only say that the
      ranges named in them are mapped, the function never touches a cell
      outside those ranges (it would fault in the memory where nothing else is
      mapped) — this is the "reads and writes no byte outside" clause;
    * `SameOutside m m' d n` — nothing outside `[d, d+n)` was modified.
  The ISO/POSIX definitions are stated on lists: `l = p ++ c :: r` with `c ∉ p`
  says "the first occurrence of `c` in `l` is at index `p.length`", etc.
  `fuel` is the model's bound for "until NUL" loops; every theorem says how
  much is enough (string length + 1 or + 2).
-/
import IgrisModel.C08.Lemmas
namespace Igris.C08
open Igris.Proto

/-! ### memset -/

/-- memset fills exactly `[dest, dest+n)` with `(unsigned char)c`, returns `dest` -/
theorem memset_spec (m : Mem) (dest : Nat) (c : Int) (n : Nat) (h : Mapped m dest n) :
    ∃ m', memset m dest c n = some (m', dest) ∧ Holds m' dest (List.replicate n (toChar c)) ∧
      SameOutside m m' dest n := by
  obtain ⟨m', e, hh, ho, _⟩ := memsetLoop_spec (toChar c) n m dest h
  exact ⟨m', by simp [memset, e], hh, ho⟩

/-! ### memchr / memrchr -/

/-- first occurrence: `l = p ++ d :: r`, `d ∉ p` ⇒ pointer to index `|p|` -/
theorem memchr_found (m : Mem) (s : Nat) (c : Int) (p r : List Byte)
    (hl : Holds m s (p ++ toChar c :: r)) (hp : toChar c ∉ p) :
    memchr m s c (p ++ toChar c :: r).length = some (some (s + p.length)) := by
  have : p ++ toChar c :: r = (p ++ [toChar c]) ++ r := by simp
  rw [this, holds_append] at hl
  exact memchrLoop_found m _ p s _ hl.1 hp (by simp)

/-- no occurrence in the `n` bytes ⇒ NULL (for `n = 0` too) -/
theorem memchr_absent (m : Mem) (s : Nat) (c : Int) (l : List Byte)
    (hl : Holds m s l) (hc : toChar c ∉ l) : memchr m s c l.length = some none :=
  memchrLoop_absent m _ l s hl hc

/-- C11 7.24.5.1: memchr behaves as if it read sequentially and stopped at the
first match — `n` may exceed the object when a match exists; only `p ++ [d]`
needs to be mapped -/
theorem memchr_stops_at_first_match (m : Mem) (s : Nat) (c : Int) (p : List Byte) (n : Nat)
    (hl : Holds m s (p ++ [toChar c])) (hp : toChar c ∉ p) (hn : p.length < n) :
    memchr m s c n = some (some (s + p.length)) :=
  memchrLoop_found m _ p s n hl hp hn

/-- last occurrence: `l = p ++ d :: r`, `d ∉ r` ⇒ pointer to index `|p|` -/
theorem memrchr_found (m : Mem) (s : Nat) (c : Int) (p r : List Byte)
    (hl : Holds m s (p ++ toChar c :: r)) (hr : toChar c ∉ r) :
    memrchr m s c (p ++ toChar c :: r).length = some (some (s + p.length)) := by
  have e : (p ++ toChar c :: r).length = p.length + 1 + r.length := by simp; omega
  unfold memrchr
  rw [e]
  apply memrchrLoop_found m _ _ s hl p.length r.length
  · simp
  · simp; omega
  · intro i h1 h2 h3
    have : (p ++ toChar c :: r)[i]? = r[i - p.length - 1]? := by
      rw [List.getElem?_append_right (by omega)]
      obtain ⟨k, hk⟩ : ∃ k, i - p.length = k + 1 := ⟨i - p.length - 1, by omega⟩
      rw [hk]; simp
    rw [this] at h3
    exact hr (List.mem_of_getElem? h3)

/-- no occurrence ⇒ NULL; with `l = []` this is the `n == 0` case, which reads nothing -/
theorem memrchr_absent (m : Mem) (s : Nat) (c : Int) (l : List Byte)
    (hl : Holds m s l) (hc : toChar c ∉ l) : memrchr m s c l.length = some none := by
  apply memrchrLoop_absent m _ l s hl l.length (Nat.le_refl _)
  intro i _ h
  exact hc (List.mem_of_getElem? h)

/-- `memrchr(s, c, 0)` on a zero-sized object (nothing mapped at all) is NULL, no access -/
theorem memrchr_zero (s : Nat) (c : Int) : memrchr (fun _ => none) s c 0 = some none := rfl

/-- historical (before `fix: memrchr with n == 0`): the do-while form read
`s[-1]` — in a memory where only `s[0]` exists, `n = 0` faults -/
theorem memrchrOrig_n0_witness :
    memrchrOrig (ofBufs [(8, [1#8])]) 8 0 0 100 = none := by decide

/-! ### memcmp -/

/-- equal blocks ⇒ 0 (for `n = 0` too: nothing is read) -/
theorem memcmp_equal (m : Mem) (d s : Nat) (l : List Byte) (hd : Holds m d l) (hs : Holds m s l) :
    memcmp m d s l.length = some 0 := by
  unfold memcmp
  split
  · rfl
  · next h => exact memcmpLoop_same m l _ d s (by omega) hd hs

/-- first differing pair `x ≠ y` after a common prefix `p` ⇒ the result is
`(unsigned char)x - (unsigned char)y`, so its sign is that of the first
difference; the bytes after it are not even required to exist -/
theorem memcmp_first_difference (m : Mem) (d s : Nat) (p : List Byte) (x y : Byte) (n : Nat)
    (hd : Holds m d (p ++ [x])) (hs : Holds m s (p ++ [y])) (hxy : x ≠ y) (hn : p.length < n) :
    memcmp m d s n = some (ucInt x - ucInt y) := by
  unfold memcmp
  rw [if_neg (by omega)]
  exact memcmpLoop_diff m p x y _ d s (by omega) hd hs hxy

/-- the sign is the order of the two bytes as unsigned values -/
theorem ucInt_sub_sign (x y : Byte) : (ucInt x - ucInt y < 0 ↔ x.toNat < y.toNat) ∧
    (ucInt x - ucInt y = 0 ↔ x = y) := by
  unfold ucInt
  refine ⟨by omega, ?_⟩
  constructor
  · intro h; exact BitVec.eq_of_toNat_eq (by omega)
  · intro h; subst h; omega

/-! ### memcpy / memmove -/

/-- ISO C memcpy (non-overlapping objects): the `n` source bytes arrive at
`dst`, nothing outside `[dst, dst+n)` changes, `dst` is returned; holds on the
byte path and on the word path alike (no alignment hypothesis) -/
theorem memcpy_spec (m : Mem) (dst src : Nat) (data : List Byte)
    (hs : Holds m src data) (hd : Mapped m dst data.length)
    (hdis : Disjoint dst data.length src data.length) :
    ∃ m', memcpy m dst src data.length = some (m', dst) ∧ Holds m' dst data ∧
      SameOutside m m' dst data.length := by
  obtain ⟨m', e, h⟩ := memcpy_fwd m dst src data.length
    (by unfold Disjoint at hdis; omega) hs.mapped hd
  exact ⟨m', e, h.done.holds hs, h.done.2⟩

/-- what memmove's fall-through relies on: the forward copy (word loops
included — each word is loaded before it is stored) is also correct for
overlapping ranges as long as `dst ≤ src` -/
theorem memcpy_forward_overlap (m : Mem) (dst src : Nat) (data : List Byte)
    (hs : Holds m src data) (hd : Mapped m dst data.length) (hle : dst ≤ src) :
    ∃ m', memcpy m dst src data.length = some (m', dst) ∧ Holds m' dst data ∧
      SameOutside m m' dst data.length := by
  obtain ⟨m', e, h⟩ := memcpy_fwd m dst src data.length (Or.inl hle) hs.mapped hd
  exact ⟨m', e, h.done.holds hs, h.done.2⟩

/-- memmove for EVERY relative position of source and destination -/
theorem memmove_spec (m : Mem) (dst src : Nat) (data : List Byte)
    (hs : Holds m src data) (hd : Mapped m dst data.length) :
    ∃ m', memmove m dst src data.length = some (m', dst) ∧ Holds m' dst data ∧
      SameOutside m m' dst data.length := by
  obtain ⟨m', e, h⟩ := memmove_done m dst src data.length hs.mapped hd
  exact ⟨m', e, h.holds hs, h.2⟩

end Igris.C08
