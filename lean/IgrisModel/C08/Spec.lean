/-
  C08 — vocabulary of the specifications: how a region of the shared memory
  relates to an abstract byte list.  The ISO C / POSIX definitions themselves
  are stated directly in the theorems of Props.lean in terms of lists
  ("`l = p ++ c :: r` with `c ∉ p`" is "the first occurrence of `c` is at
  index `p.length`", and so on).
-/
import IgrisModel.C08.Model
namespace Igris.C08
open Igris.Proto

/-- the cells `a, a+1, …` hold exactly the bytes `bs` (and are therefore mapped) -/
def Holds (m : Mem) (a : Ptr) (bs : List Byte) : Prop :=
  ∀ i, i < bs.length → m (a + i) = bs[i]?

/-- the `n` cells from `a` on are mapped (an object of `n` bytes lives there) -/
def Mapped (m : Mem) (a : Ptr) (n : Nat) : Prop := ∀ i, i < n → (m (a + i)).isSome

/-- a C string: the bytes `l`, none of them NUL, followed by the terminator -/
def CStr (m : Mem) (a : Ptr) (l : List Byte) : Prop := Holds m a (l ++ [0#8]) ∧ 0#8 ∉ l

/-- `m'` differs from `m` at most inside `[a, a+n)` (mapped-ness included) -/
def SameOutside (m m' : Mem) (a : Ptr) (n : Nat) : Prop :=
  ∀ j, ¬(a ≤ j ∧ j < a + n) → m' j = m j

/-- the set of mapped cells is the same -/
def SameMapping (m m' : Mem) : Prop := ∀ j, (m' j).isSome = (m j).isSome

/-- two address ranges do not overlap -/
def Disjoint (a n b k : Nat) : Prop := a + n ≤ b ∨ b + k ≤ a

/-- C-locale `tolower` / `toupper` on a byte (only ASCII letters move) -/
def lowerB (b : Byte) : Byte := if 65 ≤ b.toNat ∧ b.toNat ≤ 90 then b + 32#8 else b
def upperB (b : Byte) : Byte := if 97 ≤ b.toNat ∧ b.toNat ≤ 122 then b - 32#8 else b

/-- the needle `nd` matches at the front of `hay`, characters compared by `R hayChar needleChar` -/
def MatchAt (R : Byte → Byte → Prop) : List Byte → List Byte → Prop
  | [], _ => True
  | _ :: _, [] => False
  | b :: nd, a :: hay => R a b ∧ MatchAt R nd hay

/-- what strdup/strndup assume of a successful `malloc(size)`: the block
`[ret, ret+size)` is mapped in the new memory and nothing else changed -/
def AllocOk (m m1 : Mem) (ret size : Nat) : Prop :=
  Mapped m1 ret size ∧ SameOutside m m1 ret size

/-- example memory for the non-vacuity examples in Props.lean: "abc\0" at
address 8, a 6-byte object at 32, nothing else mapped -/
def exMem : Mem := ofBufs [(8, [97#8, 98#8, 99#8, 0#8]), (32, [1#8, 2#8, 3#8, 4#8, 5#8, 6#8])]

end Igris.C08
