/-
  C08 — vocabulary of the specifications: how a region of the shared memory
  relates to an abstract byte list.  The ISO C / POSIX definitions themselves
  are stated directly in the theorems of Props.lean in terms of lists
  ("`l = p ++ c :: r` with `c ∉ p`" is "the first occurrence of `c` is at
  index `p.length`", and so on).
-/
import IgrisModel.C08.Model
namespace Igris.C08
open Igris.Proto

/-- the cells `a, a+1, …` hold exactly the bytes `bs` (and are therefore mapped) -/
def Holds (m : Mem) (a : Ptr) (bs : List Byte) : Prop :=
  ∀ i, i < bs.length → m (a + i) = bs[i]?

/-- the `n` cells from `a` on are mapped (an object of `n` bytes lives there) -/
def Mapped (m : Mem) (a : Ptr) (n : Nat) : Prop := ∀ i, i < n → (m (a + i)).isSome

/-- a C string: the bytes `l`, none of them NUL, followed by the terminator -/
def CStr (m : Mem) (a : Ptr) (l : List Byte) : Prop := Holds m a (l ++ [0#8]) ∧ 0#8 ∉ l

/-- `m'` differs from `m` at most inside `[a, a+n)` (mapped-ness included) -/
def SameOutside (m m' : Mem) (a : Ptr) (n : Nat) : Prop :=
  ∀ j, ¬(a ≤ j ∧ j < a + n) → m' j = m j

/-- the set of mapped cells is the same -/
def SameMapping (m m' : Mem) : Prop := ∀ j, (m' j).isSome = (m j).isSome

/-- two address ranges do not overlap -/
def Disjoint (a n b k : Nat) : Prop := a + n ≤ b ∨ b + k ≤ a

/-- C-locale `tolower` / `toupper` on a byte (only ASCII letters move) -/
def lowerB (b : Byte) : Byte := if 65 ≤ b.toNat ∧ b.toNat ≤ 90 then b + 32#8 else b
def upperB (b : Byte) : Byte := if 97 ≤ b.toNat ∧ b.toNat ≤ 122 then b - 32#8 else b

/-- the needle `nd` matches at the front of `hay`, characters compared by `R hayChar needleChar` -/
def MatchAt (R : Byte → Byte → Prop) : List Byte → List Byte → Prop
  | [], _ => True
  | _ :: _, [] => False
  | b :: nd, a :: hay => R a b ∧ MatchAt R nd hay

/-- what strdup/strndup assume of a successful `malloc(size)`: the block
`[ret, ret+size)` is mapped in the new memory and nothing else changed -/
def AllocOk (m m1 : Mem) (ret size : Nat) : Prop :=
  Mapped m1 ret size ∧ SameOutside m m1 ret size

/-! ### ISO C 7.4 in the "C" locale, as the classic class table (round 3)
  One entry per 7-bit code; bits: upper 1, lower 2, digit 4, white-space 8,
  punctuation 16, control 32, hexadecimal letter 64, the space character 128,
  blank 256.  `EOF` (-1) and 128..255 belong to no class in the "C" locale. -/

def CL_U : Nat := 1
def CL_L : Nat := 2
def CL_D : Nat := 4
def CL_S : Nat := 8
def CL_P : Nat := 16
def CL_C : Nat := 32
def CL_X : Nat := 64
def CL_SP : Nat := 128
def CL_B : Nat := 256

def cLocaleTable : List Nat := [
  32, 32, 32, 32, 32, 32, 32, 32, 32, 296, 40, 40, 40, 40, 32, 32,
  32, 32, 32, 32, 32, 32, 32, 32, 32, 32, 32, 32, 32, 32, 32, 32,
  392, 16, 16, 16, 16, 16, 16, 16, 16, 16, 16, 16, 16, 16, 16, 16,
  4, 4, 4, 4, 4, 4, 4, 4, 4, 4, 16, 16, 16, 16, 16, 16,
  16, 65, 65, 65, 65, 65, 65, 1, 1, 1, 1, 1, 1, 1, 1, 1,
  1, 1, 1, 1, 1, 1, 1, 1, 1, 1, 1, 16, 16, 16, 16, 16,
  16, 66, 66, 66, 66, 66, 66, 2, 2, 2, 2, 2, 2, 2, 2, 2,
  2, 2, 2, 2, 2, 2, 2, 2, 2, 2, 2, 16, 16, 16, 16, 32]

/-- the classes of `c` (`c` = EOF or a value of `unsigned char`; anything outside 0..127 has none) -/
def classOf (c : Int) : Nat := if 0 ≤ c ∧ c < 128 then cLocaleTable.getD c.toNat 0 else 0

/-- `c` is in one of the classes of `mask` -/
def inClass (c : Int) (mask : Nat) : Bool := classOf c &&& mask != 0

/-- the 257 arguments ISO C allows: EOF (= -1 here, as in the host's <stdio.h>) and 0..255 -/
def ctypeArg (i : Fin 257) : Int := (i.val : Int) - 1

/-! ### strtok on the list level (round 3): a reference automaton, written with
  `takeWhile` / `dropWhile` only -/

/-- one call: `l` is the rest of the string from the save pointer on, `D` the
delimiter set of THIS call.  `none`: only delimiters are left, no token.
Otherwise: the offset of the token in `l`, the token, and the rest of the
string behind the delimiter that ended it (`none`: the token ran to the end) -/
def tokRef (D l : List Byte) : Option (Nat × List Byte × Option (List Byte)) :=
  match l.dropWhile (fun x => decide (x ∈ D)) with
  | [] => none
  | x :: r =>
    some ((l.takeWhile (fun x => decide (x ∈ D))).length,
          (x :: r).takeWhile (fun y => decide (y ∉ D)),
          match (x :: r).dropWhile (fun y => decide (y ∉ D)) with
          | [] => none
          | _ :: r3 => some r3)

/-- the results of a sequence of calls, call i with delimiter set `Ds[i]`:
`some k` = pointer to offset `k` of `l`, `none` = NULL.  After "no token" or a
token that ran to the end, the rest is empty for all later calls. -/
def tokHistory : List (List Byte) → List Byte → List (Option Nat)
  | [], _ => []
  | D :: Ds, l =>
    match tokRef D l with
    | none => none :: (tokHistory Ds []).map (Option.map (l.length + ·))
    | some (q, t, none) => some q :: (tokHistory Ds []).map (Option.map (q + t.length + ·))
    | some (q, t, some r) => some q :: (tokHistory Ds r).map (Option.map (q + t.length + 1 + ·))

/-- what the history theorem assumes of the delimiter strings: each is a C string, short enough
for the fuel, and lies outside `[lo, hi)`, the range of the tokenised string -/
def DelimsOk (m : Mem) (fuel lo hi : Nat) : List Nat → List (List Byte) → Prop
  | [], [] => True
  | d :: ds, D :: Ds => (CStr m d D ∧ D.length < fuel ∧ (d + D.length + 1 ≤ lo ∨ hi ≤ d)) ∧ DelimsOk m fuel lo hi ds Ds
  | _, _ => False

/-- example memory for the non-vacuity examples in Props.lean: "abc\0" at
address 8, a 6-byte object at 32, nothing else mapped -/
def exMem : Mem := ofBufs [(8, [97#8, 98#8, 99#8, 0#8]), (32, [1#8, 2#8, 3#8, 4#8, 5#8, 6#8])]

end Igris.C08
