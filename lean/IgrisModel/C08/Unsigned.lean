/-
  C08 round 3b - the UNSIGNED-char instance (audit item 1).  Model.lean transcribes the code for a target on
  which plain `char` is signed (`scInt`: `char -> int` sign-extends).  The functions below are the definitions of
  Model.lean that convert a plain `char` to `int` - strstr / strcasestr (`tolower(*h)`), strcspn and strtok_r
  (`strchr(set, *s)`), strlwr / strupr (`'A' <= *cp`) - with that conversion replaced by the zero-extending one
  (`ucInt`), generated textually from Model.lean.  Props.lean (`*_char_sign_free`) proves that they are the SAME
  functions: no result of the library depends on the signedness of plain char.  (The harness confirms it on the
  real code: the whole correspondence stream is green when the code under test is compiled with -funsigned-char.)
-/
import IgrisModel.C08.Lemmas
namespace Igris.C08
open Igris.Proto

def strstrInnerU (f : Int → Int) (m : Mem) : Nat → Ptr → Ptr → Option Ptr
  | 0, _, _ => none
  | fuel + 1, h, n => do
      let a ← rd m h
      if a ≠ 0 then
        let b ← rd m n
        if f (ucInt a) = f (ucInt b) then strstrInnerU f m fuel (h + 1) (n + 1) else pure n
      else pure n

def strstrOuterU (f : Int → Int) (m : Mem) (needle : Ptr) (fuel : Nat) : Nat → Ptr → Option (Option Ptr)
  | 0, _ => none
  | g + 1, haystack => do
      let a ← rd m haystack
      if a ≠ 0 then
        let n ← strstrInnerU f m fuel haystack needle
        let b ← rd m n
        if b = 0 then pure (some haystack) else strstrOuterU f m needle fuel g (haystack + 1)
      else pure none

def strstrFU (f : Int → Int) (m : Mem) (haystack needle : Ptr) (fuel : Nat) : Option (Option Ptr) := do
  let b ← rd m needle
  if b = 0 then pure (some haystack) else strstrOuterU f m needle fuel fuel haystack

def strstrU := strstrFU id

def strcasestrU := strstrFU tolowerI

def strcspnLoopU (m : Mem) (reject : Ptr) (fuel : Nat) : Nat → Ptr → Nat → Option Nat
  | 0, _, _ => none
  | g + 1, s, count => do
      let c ← rd m s
      if c ≠ 0 then
        match ← strchr m reject (ucInt c) fuel with
        | none => strcspnLoopU m reject fuel g (s + 1) (count + 1)
        | some _ => pure count
      else pure count

def strcspnU (m : Mem) (s reject : Ptr) (fuel : Nat) : Option Nat := strcspnLoopU m reject fuel fuel s 0

def tokSkipU (m : Mem) (delim : Ptr) (fuel : Nat) : Nat → Ptr → Option (Sum Ptr Ptr)
  | 0, _ => none
  | g + 1, str => do
      let ch ← rd m str
      if ch = 0 then pure (.inl str) else
      match ← strchr m delim (ucInt ch) fuel with
      | some _ => tokSkipU m delim fuel g (str + 1)
      | none => pure (.inr (str + 1))

def strtok_rU (m : Mem) (str : Option Ptr) (delim : Ptr) (save : Option Ptr) (fuel : Nat) :
    Option (Mem × Option Ptr × Option Ptr) := do
  -- if (str == NULL && (NULL == (str = *saveptr))) return NULL;
  match tokStart str save with
  | none => pure (m, save, none)
  | some str =>
    match ← tokSkipU m delim fuel fuel str with
    | .inl e => pure (m, some e, none)
    | .inr str =>
      -- *saveptr = str + strcspnU(str, delim);
      let k ← strcspnU m str delim fuel
      let sp := str + k
      let b ← rd m sp
      if b ≠ 0 then
        let m ← wr m sp 0
        pure (m, some (sp + 1), some (str - 1))
      else pure (m, some sp, some (str - 1))

def caseLoopU (lo hi : Int) (delta : Byte) : Nat → Mem → Ptr → Option Mem
  | 0, _, _ => none
  | f + 1, m, cp => do
      let b ← rd m cp
      if b ≠ 0 then
        if lo ≤ ucInt b ∧ ucInt b ≤ hi then
          let m ← wr m cp (b + delta)
          caseLoopU lo hi delta f m (cp + 1)
        else caseLoopU lo hi delta f m (cp + 1)
      else pure m

def strlwrU (m : Mem) (s : Ptr) (fuel : Nat) : Option (Mem × Ptr) := do
  let m ← caseLoopU 65 90 32 fuel m s
  pure (m, s)

def struprU (m : Mem) (s : Ptr) (fuel : Nat) : Option (Mem × Ptr) := do
  let m ← caseLoopU 97 122 (-32) fuel m s
  pure (m, s)

/-! ### equality with the signed instance -/

theorem strchr_char_only (m : Mem) (s : Ptr) (a b : Int) (fuel : Nat) (h : toChar a = toChar b) :
    strchr m s a fuel = strchr m s b fuel := by
  simp only [strchr, strchrnul, h]

theorem toChar_ucInt (b : Byte) : toChar (ucInt b) = b := by
  unfold toChar ucInt
  apply BitVec.eq_of_toNat_eq
  have := b.isLt
  simp

theorem strchr_uc_sc (m : Mem) (s : Ptr) (c : Byte) (fuel : Nat) :
    strchr m s (ucInt c) fuel = strchr m s (scInt c) fuel :=
  strchr_char_only m s _ _ fuel (by rw [toChar_ucInt, toChar_scInt])

/-- the comparison of the inner loop of strstr / strcasestr does not depend on the conversion -/
theorem eq_uc_iff_sc (f : Int → Int) (hf : f = id ∨ f = tolowerI) (a b : Byte) :
    f (ucInt a) = f (ucInt b) ↔ f (scInt a) = f (scInt b) := by
  rcases hf with rfl | rfl
  · exact (eqF_id (a := a) (b := b)).trans (eqS_id (a := a) (b := b)).symm
  · exact (eqF_lower (a := a) (b := b)).trans (eqS_lower (a := a) (b := b)).symm

theorem strstrInnerU_eq (f : Int → Int) (hf : f = id ∨ f = tolowerI) (m : Mem) :
    ∀ fuel h n, strstrInnerU f m fuel h n = strstrInner f m fuel h n
  | 0, _, _ => rfl
  | fuel + 1, h, n => by
    simp only [strstrInnerU, strstrInner, eq_uc_iff_sc f hf, strstrInnerU_eq f hf m fuel]

theorem strstrOuterU_eq (f : Int → Int) (hf : f = id ∨ f = tolowerI) (m : Mem) (needle fuel : Nat) :
    ∀ g h, strstrOuterU f m needle fuel g h = strstrOuter f m needle fuel g h
  | 0, _ => rfl
  | g + 1, h => by
    simp only [strstrOuterU, strstrOuter, strstrInnerU_eq f hf, strstrOuterU_eq f hf m needle fuel g]

theorem strstrFU_eq (f : Int → Int) (hf : f = id ∨ f = tolowerI) (m : Mem) (h n fuel : Nat) :
    strstrFU f m h n fuel = strstrF f m h n fuel := by
  simp only [strstrFU, strstrF, strstrOuterU_eq f hf]

theorem strcspnLoopU_eq (m : Mem) (reject fuel : Nat) :
    ∀ g s count, strcspnLoopU m reject fuel g s count = strcspnLoop m reject fuel g s count
  | 0, _, _ => rfl
  | g + 1, s, count => by
    simp only [strcspnLoopU, strcspnLoop, strchr_uc_sc, strcspnLoopU_eq m reject fuel g]
    rfl

theorem tokSkipU_eq (m : Mem) (delim fuel : Nat) :
    ∀ g str, tokSkipU m delim fuel g str = tokSkip m delim fuel g str
  | 0, _ => rfl
  | g + 1, str => by
    simp only [tokSkipU, tokSkip, strchr_uc_sc, tokSkipU_eq m delim fuel g]
    rfl

theorem ucInt_range (b : Byte) (lo hi : Int) (hlo : 0 ≤ lo) (hhi : hi < 128) :
    (lo ≤ ucInt b ∧ ucInt b ≤ hi) ↔ (lo ≤ scInt b ∧ scInt b ≤ hi) := by
  rw [scInt_range b lo hi hlo hhi]; rfl

theorem caseLoopU_eq (lo hi : Int) (hlo : 0 ≤ lo) (hhi : hi < 128) (delta : Byte) :
    ∀ f m cp, caseLoopU lo hi delta f m cp = caseLoop lo hi delta f m cp
  | 0, _, _ => rfl
  | f + 1, m, cp => by
    simp only [caseLoopU, caseLoop, ucInt_range _ lo hi hlo hhi, caseLoopU_eq lo hi hlo hhi delta f]

end Igris.C08
