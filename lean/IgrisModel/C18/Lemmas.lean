/-
  C18 — helper lemmas.  Every byte-level fact is a `decide +kernel` over one
  `BitVec 8` variable (256 cases) or over at most 12 booleans (4096 cases);
  list-level facts are inductions that use them.
-/
import IgrisModel.C18.Model
import IgrisModel.C18.Spec
namespace Igris.C18
open Igris.Proto Spec

/-! ## hexascii: byte-level facts -/

theorem encHi_spec : ∀ b : Byte, encHi b = upperDigit (b.toNat / 16) := by decide +kernel
theorem encLo_spec : ∀ b : Byte, encLo b = upperDigit (b.toNat % 16) := by decide +kernel
theorem enc_upper : ∀ b : Byte, IsUpperHex (encHi b) ∧ IsUpperHex (encLo b) := by decide +kernel
theorem hex2byte_enc : ∀ b : Byte, hex2byte (encHi b) (encLo b) = b := by decide +kernel

/-- the fixed-width helpers split a byte with `HIHALF/LOHALF`: same digits -/
theorem half_hi : ∀ b : Byte, half2hex (HIHALF b) = encHi b := by decide +kernel
theorem half_lo : ∀ b : Byte, half2hex (LOHALF b) = encLo b := by decide +kernel

/-- an upper-case hex digit is the digit of its own value -/
theorem upper_digit : ∀ c : Byte, IsUpperHex c →
    (hex2half c).toNat < 16 ∧ c = upperDigit (hex2half c).toNat := by decide +kernel

/-- re-encoding the byte parsed from two digits gives the digits back -/
theorem enc_hex2byte_digits : ∀ m n : Fin 16,
    hex2half (upperDigit m) = BitVec.ofNat 8 m ∧
    encHi (hex2byte (upperDigit m) (upperDigit n)) = upperDigit m ∧
    encLo (hex2byte (upperDigit m) (upperDigit n)) = upperDigit n := by decide +kernel

theorem enc_hex2byte (hi lo : Byte) (h1 : IsUpperHex hi) (h2 : IsUpperHex lo) :
    encHi (hex2byte hi lo) = hi ∧ encLo (hex2byte hi lo) = lo := by
  obtain ⟨a1, a2⟩ := upper_digit hi h1
  obtain ⟨b1, b2⟩ := upper_digit lo h2
  have := enc_hex2byte_digits ⟨_, a1⟩ ⟨_, b1⟩
  simp only [← a2, ← b2] at this
  exact ⟨this.2.1, this.2.2⟩

/-! ## hexascii: lists -/

theorem hexEncodeStr_eq (data : List Byte) : hexEncodeStr data = hexEncode data := by
  induction data with
  | nil => rfl
  | cons b bs ih => simp [hexEncodeStr, hexEncode, ih]

theorem hexEncode_length' (data : List Byte) : (hexEncode data).length = 2 * data.length := by
  induction data with
  | nil => rfl
  | cons b bs ih => simp only [hexEncode, List.length_cons, ih]; omega

theorem decPairs_length : ∀ s : List Byte, (decPairs s).length = s.length / 2
  | [] => rfl
  | [_] => by simp [decPairs]
  | a :: b :: rest => by
    simp only [decPairs, List.length_cons, decPairs_length rest]; omega

/-- dropping the odd last character changes nothing: the pair loop never reads it -/
theorem decPairs_take_odd : ∀ s : List Byte, s.length % 2 = 1 → decPairs (s.take (s.length - 1)) = decPairs s
  | [], h => by simp at h
  | [_], _ => rfl
  | a :: b :: rest, h => by
    have hr : rest.length % 2 = 1 := by simp only [List.length_cons] at h; omega
    have : (a :: b :: rest).length - 1 = (rest.length - 1) + 2 := by simp only [List.length_cons]; omega
    rw [this]
    simp only [List.take_succ_cons, decPairs, decPairs_take_odd rest hr]

/-- `hexascii_decode` = the pair loop over the whole text -/
theorem hexDecode_eq (s : List Byte) : hexDecode s = decPairs s := by
  unfold hexDecode
  by_cases h : s.length % 2 = 1
  · simp only [h, if_true]
    split
    · rename_i h0
      have : s.length = 1 := by omega
      match s, this with
      | [_], _ => rfl
    · exact decPairs_take_odd s h
  · simp only [h, if_false]
    split
    · rename_i h0
      match s, h0 with
      | [], _ => rfl
    · simp

theorem decPairs_hexEncode (data : List Byte) : decPairs (hexEncode data) = data := by
  induction data with
  | nil => rfl
  | cons b bs ih => simp only [hexEncode, decPairs, hex2byte_enc, ih]

theorem hexEncode_decPairs : ∀ s : List Byte, (∀ c ∈ s, IsUpperHex c) → s.length % 2 = 0 →
    hexEncode (decPairs s) = s
  | [], _, _ => rfl
  | [_], _, h => by simp at h
  | a :: b :: rest, hc, hl => by
    have ha := hc a (by simp)
    have hb := hc b (by simp)
    have hr : ∀ c ∈ rest, IsUpperHex c := fun c h => hc c (by simp [h])
    have hl' : rest.length % 2 = 0 := by simp only [List.length_cons] at hl; omega
    obtain ⟨e1, e2⟩ := enc_hex2byte a b ha hb
    simp only [decPairs, hexEncode, e1, e2, hexEncode_decPairs rest hr hl']

/-! ## fixed-width helpers: byte lanes -/

theorem lane_toNat {w : Nat} (v : BitVec w) (k : Nat) : (lane v k).toNat = v.toNat / 2 ^ (8 * k) % 256 := by
  simp [lane, BitVec.toNat_setWidth, BitVec.toNat_ushiftRight, Nat.shiftRight_eq_div_pow]

theorem pair_inv : ∀ b : Byte, hex2byte (half2hex (HIHALF b)) (half2hex (LOHALF b)) = b := by
  decide +kernel

theorem ofLanes_lanes8 (v : BitVec 8) : hex2byte (half2hex (HIHALF v)) (half2hex (LOHALF v)) = v := pair_inv v

theorem ofLanes_lanes16 (v : BitVec 16) : ofLanes 16 [lane v 0, lane v 1] = v := by
  apply BitVec.eq_of_toNat_eq
  have := v.isLt
  simp only [ofLanes, lanesNat, lane_toNat, BitVec.toNat_ofNat]
  omega

theorem ofLanes_lanes32 (v : BitVec 32) : ofLanes 32 [lane v 0, lane v 1, lane v 2, lane v 3] = v := by
  apply BitVec.eq_of_toNat_eq
  have := v.isLt
  simp only [ofLanes, lanesNat, lane_toNat, BitVec.toNat_ofNat]
  omega

theorem ofLanes_lanes64 (v : BitVec 64) :
    ofLanes 64 [lane v 0, lane v 1, lane v 2, lane v 3, lane v 4, lane v 5, lane v 6, lane v 7] = v := by
  apply BitVec.eq_of_toNat_eq
  have := v.isLt
  simp only [ofLanes, lanesNat, lane_toNat, BitVec.toNat_ofNat]
  omega

theorem lane_ofLanes16 (l0 l1 : Byte) :
    lane (ofLanes 16 [l0, l1]) 0 = l0 ∧ lane (ofLanes 16 [l0, l1]) 1 = l1 := by
  have h0 := l0.isLt; have h1 := l1.isLt
  refine ⟨?_, ?_⟩ <;>
  · apply BitVec.eq_of_toNat_eq
    simp only [ofLanes, lanesNat, lane_toNat, BitVec.toNat_ofNat]
    omega

theorem lane_ofLanes32 (l0 l1 l2 l3 : Byte) :
    lane (ofLanes 32 [l0, l1, l2, l3]) 0 = l0 ∧ lane (ofLanes 32 [l0, l1, l2, l3]) 1 = l1 ∧
    lane (ofLanes 32 [l0, l1, l2, l3]) 2 = l2 ∧ lane (ofLanes 32 [l0, l1, l2, l3]) 3 = l3 := by
  have h0 := l0.isLt; have h1 := l1.isLt; have h2 := l2.isLt; have h3 := l3.isLt
  refine ⟨?_, ?_, ?_, ?_⟩ <;>
  · apply BitVec.eq_of_toNat_eq
    simp only [ofLanes, lanesNat, lane_toNat, BitVec.toNat_ofNat]
    omega

theorem lane_ofLanes64 (l0 l1 l2 l3 l4 l5 l6 l7 : Byte) :
    lane (ofLanes 64 [l0, l1, l2, l3, l4, l5, l6, l7]) 0 = l0 ∧ lane (ofLanes 64 [l0, l1, l2, l3, l4, l5, l6, l7]) 1 = l1 ∧
    lane (ofLanes 64 [l0, l1, l2, l3, l4, l5, l6, l7]) 2 = l2 ∧ lane (ofLanes 64 [l0, l1, l2, l3, l4, l5, l6, l7]) 3 = l3 ∧
    lane (ofLanes 64 [l0, l1, l2, l3, l4, l5, l6, l7]) 4 = l4 ∧ lane (ofLanes 64 [l0, l1, l2, l3, l4, l5, l6, l7]) 5 = l5 ∧
    lane (ofLanes 64 [l0, l1, l2, l3, l4, l5, l6, l7]) 6 = l6 ∧ lane (ofLanes 64 [l0, l1, l2, l3, l4, l5, l6, l7]) 7 = l7 := by
  have h0 := l0.isLt; have h1 := l1.isLt; have h2 := l2.isLt; have h3 := l3.isLt
  have h4 := l4.isLt; have h5 := l5.isLt; have h6 := l6.isLt; have h7 := l7.isLt
  refine ⟨?_, ?_, ?_, ?_, ?_, ?_, ?_, ?_⟩ <;>
  · apply BitVec.eq_of_toNat_eq
    simp only [ofLanes, lanesNat, lane_toNat, BitVec.toNat_ofNat]
    omega

/-- the two digits written for a lane, parsed back -/
theorem digits_of_pair (hi lo : Byte) (h1 : IsUpperHex hi) (h2 : IsUpperHex lo) :
    half2hex (HIHALF (hex2byte hi lo)) = hi ∧ half2hex (LOHALF (hex2byte hi lo)) = lo := by
  rw [half_hi, half_lo]; exact enc_hex2byte hi lo h1 h2


/-- the digit written for the high / low half of lane `k` is hex digit
`2k+1` / `2k` of the number -/
theorem digit_hi {w : Nat} (v : BitVec w) (k : Nat) :
    half2hex (HIHALF (lane v k)) = upperDigit (v.toNat / 16 ^ (2 * k + 1) % 16) := by
  rw [half_hi, encHi_spec, lane_toNat]
  congr 1
  have : 2 ^ (8 * k) = 16 ^ (2 * k) := by
    rw [show 8 * k = 4 * (2 * k) by omega, Nat.pow_mul]
  rw [this, Nat.pow_succ]
  generalize 16 ^ (2 * k) = p
  rw [← Nat.div_div_eq_div_mul]
  omega

theorem digit_lo {w : Nat} (v : BitVec w) (k : Nat) :
    half2hex (LOHALF (lane v k)) = upperDigit (v.toNat / 16 ^ (2 * k) % 16) := by
  rw [half_lo, encLo_spec, lane_toNat]
  congr 1
  have : 2 ^ (8 * k) = 16 ^ (2 * k) := by
    rw [show 8 * k = 4 * (2 * k) by omega, Nat.pow_mul]
  rw [this]
  omega

/-! ## base64: the encoder's table lookups are RFC letters of bit groups -/

theorem charset_eq : charset = stdAlphabet.map ch ++ [padChar] := by decide +kernel
theorem csAt64 : csAt 64#32 = padChar := by decide +kernel

theorem e0_spec : ∀ a : Byte, e0 a = letter stdAlphabet
    [a.getLsbD 7, a.getLsbD 6, a.getLsbD 5, a.getLsbD 4, a.getLsbD 3, a.getLsbD 2] := by decide +kernel
theorem e3_spec : ∀ c : Byte, e3 c = letter stdAlphabet
    [c.getLsbD 5, c.getLsbD 4, c.getLsbD 3, c.getLsbD 2, c.getLsbD 1, c.getLsbD 0] := by decide +kernel
theorem e1t_spec : ∀ a : Byte, e1t a = letter stdAlphabet
    [a.getLsbD 1, a.getLsbD 0, false, false, false, false] := by decide +kernel
theorem e2t_spec : ∀ b : Byte, e2t b = letter stdAlphabet
    [b.getLsbD 3, b.getLsbD 2, b.getLsbD 1, b.getLsbD 0, false, false] := by decide +kernel

/-- the two halves of a two-byte index, each a function of one byte -/
theorem idx1_hi : ∀ a : Byte, (sx a &&& 0x03#32) <<< 4 = BitVec.ofNat 32 (16 * bitsToNat [a.getLsbD 1, a.getLsbD 0]) := by
  decide +kernel
theorem idx1_lo : ∀ b : Byte, (sx b &&& 0xf0#32).sshiftRight 4
    = BitVec.ofNat 32 (bitsToNat [b.getLsbD 7, b.getLsbD 6, b.getLsbD 5, b.getLsbD 4]) := by decide +kernel
theorem idx2_hi : ∀ b : Byte, (sx b &&& 0x0f#32) <<< 2
    = BitVec.ofNat 32 (4 * bitsToNat [b.getLsbD 3, b.getLsbD 2, b.getLsbD 1, b.getLsbD 0]) := by decide +kernel
theorem idx2_lo : ∀ c : Byte, (sx c &&& 0xc0#32).sshiftRight 6
    = BitVec.ofNat 32 (bitsToNat [c.getLsbD 7, c.getLsbD 6]) := by decide +kernel

theorem glue1 : ∀ x1 x0 y3 y2 y1 y0 : Bool,
    csAt (BitVec.ofNat 32 (16 * bitsToNat [x1, x0]) ||| BitVec.ofNat 32 (bitsToNat [y3, y2, y1, y0]))
      = letter stdAlphabet [x1, x0, y3, y2, y1, y0] := by decide +kernel
theorem glue2 : ∀ x3 x2 x1 x0 y1 y0 : Bool,
    csAt (BitVec.ofNat 32 (4 * bitsToNat [x3, x2, x1, x0]) ||| BitVec.ofNat 32 (bitsToNat [y1, y0]))
      = letter stdAlphabet [x3, x2, x1, x0, y1, y0] := by decide +kernel

theorem e1_spec (a b : Byte) : e1 a b = letter stdAlphabet
    [a.getLsbD 1, a.getLsbD 0, b.getLsbD 7, b.getLsbD 6, b.getLsbD 5, b.getLsbD 4] := by
  rw [e1, idx1_hi, idx1_lo, glue1]
theorem e2_spec (b c : Byte) : e2 b c = letter stdAlphabet
    [b.getLsbD 3, b.getLsbD 2, b.getLsbD 1, b.getLsbD 0, c.getLsbD 7, c.getLsbD 6] := by
  rw [e2, idx2_hi, idx2_lo, glue2]

/-! ### the specification, three bytes at a time -/

theorem letters_triple (al : List Char) (a b c : Byte) (rest : List Byte) :
    letters al (a :: b :: c :: rest) =
      letter al [a.getLsbD 7, a.getLsbD 6, a.getLsbD 5, a.getLsbD 4, a.getLsbD 3, a.getLsbD 2] ::
      letter al [a.getLsbD 1, a.getLsbD 0, b.getLsbD 7, b.getLsbD 6, b.getLsbD 5, b.getLsbD 4] ::
      letter al [b.getLsbD 3, b.getLsbD 2, b.getLsbD 1, b.getLsbD 0, c.getLsbD 7, c.getLsbD 6] ::
      letter al [c.getLsbD 5, c.getLsbD 4, c.getLsbD 3, c.getLsbD 2, c.getLsbD 1, c.getLsbD 0] ::
      letters al rest := by
  simp [letters, byteBits, groups6]

theorem encodeWith_triple (al : List Char) (a b c : Byte) (rest : List Byte) :
    encodeWith al (a :: b :: c :: rest) =
      letter al [a.getLsbD 7, a.getLsbD 6, a.getLsbD 5, a.getLsbD 4, a.getLsbD 3, a.getLsbD 2] ::
      letter al [a.getLsbD 1, a.getLsbD 0, b.getLsbD 7, b.getLsbD 6, b.getLsbD 5, b.getLsbD 4] ::
      letter al [b.getLsbD 3, b.getLsbD 2, b.getLsbD 1, b.getLsbD 0, c.getLsbD 7, c.getLsbD 6] ::
      letter al [c.getLsbD 5, c.getLsbD 4, c.getLsbD 3, c.getLsbD 2, c.getLsbD 1, c.getLsbD 0] ::
      encodeWith al rest := by
  simp only [encodeWith, letters_triple, List.length_cons, List.cons_append]
  have : (((((letters al rest).length + 1) + 1) + 1) + 1) % 4 = (letters al rest).length % 4 := by omega
  rw [this]

theorem encodeWith_two (al : List Char) (a b : Byte) :
    encodeWith al [a, b] =
      [letter al [a.getLsbD 7, a.getLsbD 6, a.getLsbD 5, a.getLsbD 4, a.getLsbD 3, a.getLsbD 2],
       letter al [a.getLsbD 1, a.getLsbD 0, b.getLsbD 7, b.getLsbD 6, b.getLsbD 5, b.getLsbD 4],
       letter al [b.getLsbD 3, b.getLsbD 2, b.getLsbD 1, b.getLsbD 0, false, false],
       padChar] := by
  simp [encodeWith, letters, byteBits, groups6]

theorem encodeWith_one (al : List Char) (a : Byte) :
    encodeWith al [a] =
      [letter al [a.getLsbD 7, a.getLsbD 6, a.getLsbD 5, a.getLsbD 4, a.getLsbD 3, a.getLsbD 2],
       letter al [a.getLsbD 1, a.getLsbD 0, false, false, false, false],
       padChar, padChar] := by
  simp [encodeWith, letters, byteBits, groups6]

theorem encodeWith_nil (al : List Char) : encodeWith al [] = [] := by
  simp [encodeWith, letters, groups6]

/-! ## base64: decoder -/

/-- what the decoder recovers from an RFC letter: its 6-bit value; a letter
passes the loop test and is not the padding character -/
theorem letter_facts : ∀ b0 b1 b2 b3 b4 b5 : Bool,
    strchrIdx (letter stdAlphabet [b0, b1, b2, b3, b4, b5]) = BitVec.ofNat 8 (bitsToNat [b0, b1, b2, b3, b4, b5])
    ∧ isBase64 (letter stdAlphabet [b0, b1, b2, b3, b4, b5]) = true
    ∧ (letter stdAlphabet [b0, b1, b2, b3, b4, b5] == 0x3D#8) = false := by decide +kernel

theorem pad_is_3D : padChar = 0x3D#8 := by decide
theorem strchr_nul : strchrIdx 0#8 = 65#8 := by decide +kernel

/-- a byte assembled from a bit string -/
def byteOfBits (bs : List Bool) : Byte := BitVec.ofNat 8 (bitsToNat bs)

theorem byteOfBits_byteBits : ∀ a : Byte,
    byteOfBits [a.getLsbD 7, a.getLsbD 6, a.getLsbD 5, a.getLsbD 4, a.getLsbD 3, a.getLsbD 2, a.getLsbD 1, a.getLsbD 0] = a := by
  decide +kernel

theorem dec3_0 : ∀ a7 a6 a5 a4 a3 a2 a1 a0 b7 b6 b5 b4 : Bool,
    toU8 ((zx (BitVec.ofNat 8 (bitsToNat [a7, a6, a5, a4, a3, a2])) <<< 2)
          + (zx (BitVec.ofNat 8 (bitsToNat [a1, a0, b7, b6, b5, b4])) &&& 0x30#32).sshiftRight 4)
      = byteOfBits [a7, a6, a5, a4, a3, a2, a1, a0] := by decide +kernel

theorem dec3_1 : ∀ a1 a0 b7 b6 b5 b4 b3 b2 b1 b0 c7 c6 : Bool,
    toU8 (((zx (BitVec.ofNat 8 (bitsToNat [a1, a0, b7, b6, b5, b4])) &&& 0xf#32) <<< 4)
          + (zx (BitVec.ofNat 8 (bitsToNat [b3, b2, b1, b0, c7, c6])) &&& 0x3c#32).sshiftRight 2)
      = byteOfBits [b7, b6, b5, b4, b3, b2, b1, b0] := by decide +kernel

theorem dec3_2 : ∀ b3 b2 b1 b0 c7 c6 c5 c4 c3 c2 c1 c0 : Bool,
    toU8 (((zx (BitVec.ofNat 8 (bitsToNat [b3, b2, b1, b0, c7, c6])) &&& 0x3#32) <<< 6)
          + zx (BitVec.ofNat 8 (bitsToNat [c5, c4, c3, c2, c1, c0])))
      = byteOfBits [c7, c6, c5, c4, c3, c2, c1, c0] := by decide +kernel

/-- the tail group: slot 2 (resp. 2 and 3) holds `strchr`'s answer for NUL, 65 -/
theorem dec3_1_tail : ∀ a1 a0 b7 b6 b5 b4 b3 b2 b1 b0 : Bool,
    toU8 (((zx (BitVec.ofNat 8 (bitsToNat [a1, a0, b7, b6, b5, b4])) &&& 0xf#32) <<< 4)
          + (zx (BitVec.ofNat 8 (bitsToNat [b3, b2, b1, b0, false, false])) &&& 0x3c#32).sshiftRight 2)
      = byteOfBits [b7, b6, b5, b4, b3, b2, b1, b0] := fun a1 a0 b7 b6 b5 b4 b3 b2 b1 b0 =>
  dec3_1 a1 a0 b7 b6 b5 b4 b3 b2 b1 b0 false false

/-- one loop iteration on a character that passes the test -/
theorem decLoop_ok (c : Byte) (rest arr ret : List Byte) (h1 : (c == 0x3D#8) = false) (h2 : isBase64 c = true) :
    decLoop (c :: rest) arr ret =
      if (arr ++ [c]).length = 4 then decLoop rest [] (ret ++ decQuad (arr ++ [c])) else decLoop rest (arr ++ [c]) ret := by
  simp [decLoop, h1, h2]

theorem decLoop_pad (rest arr ret : List Byte) : decLoop (0x3D#8 :: rest) arr ret = (arr, ret) := by
  simp [decLoop]

/-- four RFC letters of the bit groups of `a b c` decode to `a b c` -/
theorem decQuad_letters (a b c : Byte) :
    decQuad
      [letter stdAlphabet [a.getLsbD 7, a.getLsbD 6, a.getLsbD 5, a.getLsbD 4, a.getLsbD 3, a.getLsbD 2],
       letter stdAlphabet [a.getLsbD 1, a.getLsbD 0, b.getLsbD 7, b.getLsbD 6, b.getLsbD 5, b.getLsbD 4],
       letter stdAlphabet [b.getLsbD 3, b.getLsbD 2, b.getLsbD 1, b.getLsbD 0, c.getLsbD 7, c.getLsbD 6],
       letter stdAlphabet [c.getLsbD 5, c.getLsbD 4, c.getLsbD 3, c.getLsbD 2, c.getLsbD 1, c.getLsbD 0]]
      = [a, b, c] := by
  simp only [decQuad, dec3, List.map_cons, List.map_nil, List.getD_cons_zero, List.getD_cons_succ,
    (letter_facts _ _ _ _ _ _).1, dec3_0, dec3_1, dec3_2, byteOfBits_byteBits]

theorem decLoop_quad (x0 x1 x2 x3 : Byte) (rest ret : List Byte)
    (h0 : (x0 == 0x3D#8) = false ∧ isBase64 x0 = true) (h1 : (x1 == 0x3D#8) = false ∧ isBase64 x1 = true)
    (h2 : (x2 == 0x3D#8) = false ∧ isBase64 x2 = true) (h3 : (x3 == 0x3D#8) = false ∧ isBase64 x3 = true) :
    decLoop (x0 :: x1 :: x2 :: x3 :: rest) [] ret = decLoop rest [] (ret ++ decQuad [x0, x1, x2, x3]) := by
  rw [decLoop_ok _ _ _ _ h0.1 h0.2]; simp only [List.nil_append, List.length_cons, List.length_nil]
  rw [if_neg (by decide), decLoop_ok _ _ _ _ h1.1 h1.2]; simp only [List.cons_append, List.nil_append, List.length_cons, List.length_nil]
  rw [if_neg (by decide), decLoop_ok _ _ _ _ h2.1 h2.2]; simp only [List.cons_append, List.nil_append, List.length_cons, List.length_nil]
  rw [if_neg (by decide), decLoop_ok _ _ _ _ h3.1 h3.2]; simp only [List.cons_append, List.nil_append, List.length_cons, List.length_nil]
  rw [if_pos (by decide)]

theorem letter_ok (b0 b1 b2 b3 b4 b5 : Bool) :
    (letter stdAlphabet [b0, b1, b2, b3, b4, b5] == 0x3D#8) = false ∧
    isBase64 (letter stdAlphabet [b0, b1, b2, b3, b4, b5]) = true :=
  ⟨(letter_facts _ _ _ _ _ _).2.2, (letter_facts _ _ _ _ _ _).2.1⟩

/-! ## url-safe variant -/

theorem urlSubst_letter : ∀ b0 b1 b2 b3 b4 b5 : Bool,
    urlSubst (letter stdAlphabet [b0, b1, b2, b3, b4, b5]) = letter urlAlphabet [b0, b1, b2, b3, b4, b5] := by
  decide +kernel
theorem urlSubst_pad : urlSubst padChar = padChar := by decide
instance (al : List Char) (c : Byte) : Decidable (InAlphabet al c) := by unfold InAlphabet; infer_instance
theorem urlUnsubst_subst : ∀ c : Byte, InAlphabet stdAlphabet c → urlUnsubst (urlSubst c) = c := by decide +kernel
theorem letter_in_std : ∀ b0 b1 b2 b3 b4 b5 : Bool, InAlphabet stdAlphabet (letter stdAlphabet [b0, b1, b2, b3, b4, b5]) := by
  decide +kernel
theorem letter_in_url : ∀ b0 b1 b2 b3 b4 b5 : Bool, InAlphabet urlAlphabet (letter urlAlphabet [b0, b1, b2, b3, b4, b5]) := by
  decide +kernel
theorem pad_in (al : List Char) : InAlphabet al padChar := Or.inr rfl

end Igris.C18
