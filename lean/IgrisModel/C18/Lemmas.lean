import IgrisModel.C18.Model
