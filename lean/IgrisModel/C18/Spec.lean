/-
  C18 — reference specifications, written without looking at the igris code.

  * upper-case hexadecimal text of a byte string / of a fixed-width number;
  * RFC 4648 base64 ("base64" §4 and "base64url" §5) as **bit-string
    regrouping**: the bytes are written as a bit string, most significant bit
    first; the string is cut into 6-bit groups, the last group padded with
    zero bits; each group, read as a number, selects a letter of the 64-letter
    alphabet; `=` is appended until the text length is a multiple of four.
-/
import IgrisModel.Common.Proto
namespace Igris.C18.Spec
open Igris.Proto

/-- the byte of an ASCII character -/
def ch (c : Char) : Byte := BitVec.ofNat 8 c.toNat

/-! ### hexadecimal -/

def hexDigits : List Char :=
  ['0', '1', '2', '3', '4', '5', '6', '7', '8', '9', 'A', 'B', 'C', 'D', 'E', 'F']

/-- the upper-case hex digit of `n < 16` -/
def upperDigit (n : Nat) : Byte := ch (hexDigits.getD n '?')

/-- two digits per byte, high nibble first -/
def hexOfBytes (data : List Byte) : List Byte :=
  data.flatMap fun b => [upperDigit (b.toNat / 16), upperDigit (b.toNat % 16)]

/-- `digits` hex digits of the number `v`, most significant first -/
def hexOfNumber (digits v : Nat) : List Byte :=
  (List.range digits).reverse.map fun i => upperDigit (v / 16 ^ i % 16)

/-- `c` is one of `0-9A-F` -/
def IsUpperHex (c : Byte) : Prop := c ∈ hexDigits.map ch

instance (c : Byte) : Decidable (IsUpperHex c) := by unfold IsUpperHex; infer_instance

def lowerHexDigits : List Char :=
  ['0', '1', '2', '3', '4', '5', '6', '7', '8', '9', 'a', 'b', 'c', 'd', 'e', 'f']

/-- the value of a hex digit of either case (`0-9`, `A-F`, `a-f`); `none` for
every other character -/
def hexVal (c : Byte) : Option Nat :=
  match (hexDigits.map ch).idxOf? c with
  | some v => some v
  | none => (lowerHexDigits.map ch).idxOf? c

/-- ASCII case folding: only `A-Z` / `a-z` change -/
def asciiLower (c : Byte) : Byte := if 0x41 ≤ c.toNat ∧ c.toNat ≤ 0x5A then c + 0x20#8 else c
def asciiUpper (c : Byte) : Byte := if 0x61 ≤ c.toNat ∧ c.toNat ≤ 0x7A then c - 0x20#8 else c

/-- reference parse of a hex text of either case: two digits per byte, high
digit first; an odd last character is not used -/
def bytesOfHex : List Byte → List Byte
  | hi :: lo :: rest => BitVec.ofNat 8 (16 * (hexVal hi).getD 0 + (hexVal lo).getD 0) :: bytesOfHex rest
  | _ => []

/-! ### RFC 4648 -/

/-- bits of a byte, most significant first -/
def byteBits (b : Byte) : List Bool :=
  [b.getLsbD 7, b.getLsbD 6, b.getLsbD 5, b.getLsbD 4, b.getLsbD 3, b.getLsbD 2, b.getLsbD 1, b.getLsbD 0]

/-- a bit string read as a binary number, most significant bit first -/
def bitsToNat (bs : List Bool) : Nat := bs.foldl (fun acc b => 2 * acc + b.toNat) 0

/-- cut into 6-bit groups; an incomplete last group is padded with zero bits -/
def groups6 : List Bool → List (List Bool)
  | b0 :: b1 :: b2 :: b3 :: b4 :: b5 :: rest => [b0, b1, b2, b3, b4, b5] :: groups6 rest
  | [] => []
  | tl => [(tl ++ List.replicate 6 false).take 6]

/-- RFC 4648 table 1 -/
def stdAlphabet : List Char :=
  ['A', 'B', 'C', 'D', 'E', 'F', 'G', 'H', 'I', 'J', 'K', 'L', 'M', 'N', 'O', 'P',
   'Q', 'R', 'S', 'T', 'U', 'V', 'W', 'X', 'Y', 'Z', 'a', 'b', 'c', 'd', 'e', 'f',
   'g', 'h', 'i', 'j', 'k', 'l', 'm', 'n', 'o', 'p', 'q', 'r', 's', 't', 'u', 'v',
   'w', 'x', 'y', 'z', '0', '1', '2', '3', '4', '5', '6', '7', '8', '9', '+', '/']

/-- RFC 4648 table 2 ("URL and filename safe") -/
def urlAlphabet : List Char :=
  ['A', 'B', 'C', 'D', 'E', 'F', 'G', 'H', 'I', 'J', 'K', 'L', 'M', 'N', 'O', 'P',
   'Q', 'R', 'S', 'T', 'U', 'V', 'W', 'X', 'Y', 'Z', 'a', 'b', 'c', 'd', 'e', 'f',
   'g', 'h', 'i', 'j', 'k', 'l', 'm', 'n', 'o', 'p', 'q', 'r', 's', 't', 'u', 'v',
   'w', 'x', 'y', 'z', '0', '1', '2', '3', '4', '5', '6', '7', '8', '9', '-', '_']

def padChar : Byte := ch '='

/-- the letter of a 6-bit group -/
def letter (alphabet : List Char) (g : List Bool) : Byte := ch (alphabet.getD (bitsToNat g) '?')

/-- the letters, before padding -/
def letters (alphabet : List Char) (data : List Byte) : List Byte :=
  (groups6 (data.flatMap byteBits)).map (letter alphabet)

/-- RFC 4648 encoding with `=` padding to a multiple of four characters -/
def encodeWith (alphabet : List Char) (data : List Byte) : List Byte :=
  let text := letters alphabet data
  text ++ List.replicate ((4 - text.length % 4) % 4) padChar

def base64 : List Byte → List Byte := encodeWith stdAlphabet
def base64url : List Byte → List Byte := encodeWith urlAlphabet

/-! RFC 4648 decoding, again as bit regrouping: the letters' 6-bit values are
written as one bit string, which is cut into whole bytes (an incomplete last
byte is dropped).  Decoding stops at the first character that is not a letter
of the alphabet (`=`, white space, anything else). -/

/-- the 6-bit value of a letter; `none` for every other character -/
def letterVal (alphabet : List Char) (c : Byte) : Option Nat := (alphabet.map ch).idxOf? c

/-- the six bits of a letter, most significant first -/
def letterBits (alphabet : List Char) (c : Byte) : List Bool :=
  let v := (letterVal alphabet c).getD 0
  [v.testBit 5, v.testBit 4, v.testBit 3, v.testBit 2, v.testBit 1, v.testBit 0]

/-- whole bytes of a bit string -/
def bytesOfBits : List Bool → List Byte
  | b0 :: b1 :: b2 :: b3 :: b4 :: b5 :: b6 :: b7 :: rest =>
    BitVec.ofNat 8 (bitsToNat [b0, b1, b2, b3, b4, b5, b6, b7]) :: bytesOfBits rest
  | _ => []

/-- the longest prefix of alphabet letters -/
def lettersPrefix (alphabet : List Char) (s : List Byte) : List Byte :=
  s.takeWhile fun c => (letterVal alphabet c).isSome

def decodeWith (alphabet : List Char) (s : List Byte) : List Byte :=
  bytesOfBits ((lettersPrefix alphabet s).flatMap (letterBits alphabet))

/-- `c` is a letter of the alphabet or the padding character -/
def InAlphabet (alphabet : List Char) (c : Byte) : Prop := c ∈ alphabet.map ch ∨ c = padChar

end Igris.C18.Spec
