/-
  C18 round 3b — lemmas for the fixed-width parsers on a mapped buffer.
-/
import IgrisModel.C18.Round3
namespace Igris.C18
open Igris.Proto Spec

theorem hexAtM_eq (hex : List Byte) (i : Nat) :
    hexAtM hex i = if i + 1 < hex.length then some (hexAt hex i) else none := by
  unfold hexAtM hexAt
  by_cases h : i + 1 < hex.length
  · have h0 : i < hex.length := by omega
    simp [h, h0, List.getD_eq_getElem?_getD]
  · simp only [h, if_false]
    by_cases h0 : i < hex.length
    · have : hex[i+1]? = none := by simp; omega
      simp [this]
    · have : hex[i]? = none := by simp; omega
      simp [this]

theorem hexAt_append (t r : List Byte) (i : Nat) (h : i + 1 < t.length) : hexAt (t ++ r) i = hexAt t i := by
  simp [hexAt, List.getD_eq_getElem?_getD, List.getElem?_append_left, h, show i < t.length by omega]

end Igris.C18
