/-
  C18 — model of igris/util/hexascii.{h,c}, igris/string/hexascii_string.cpp,
  igris/util/base64.cpp and the byte-lane macros of igris/util/access.h.

  Conventions.  A `char`/`uint8_t` is a `Byte = BitVec 8`; C's integer
  promotion is written out: `sx` (plain `char` is signed on the platform, the
  harness asserts it) / `zx` (`uint8_t`, `unsigned char`) to a 32-bit `int`,
  arithmetic in `BitVec 32`, `toU8` for the conversion back to a byte.  `>>`
  on an `int` is `sshiftRight`.  Texts and byte strings are `List Byte`.
  Every routine is transcribed statement by statement; the spec the theorems
  compare against lives in Spec.lean.
-/
import IgrisModel.Common.Proto
namespace Igris.C18
open Igris.Proto

abbrev I32 := BitVec 32
/-- `char → int` (sign extension) -/
def sx (c : Byte) : I32 := c.signExtend 32
/-- `uint8_t → int` -/
def zx (c : Byte) : I32 := c.zeroExtend 32
/-- `int → uint8_t` / `int → char` -/
def toU8 (x : I32) : Byte := x.truncate 8

/-! ### igris/util/hexascii.h -/

/-- `(uint8_t)(c <= '9' ? c - '0' : c >= 'a' ? c - 'a' + 10 : c - 'A' + 10)`, `c` a
(signed) `char`: the comparisons and subtractions are done on the promoted
`int`, the result is truncated to `uint8_t` (library commit a948610 added the
lower-case branch). -/
def hex2half (c : Byte) : Byte :=
  let ci := sx c
  toU8 (if ci.sle 0x39#32 then ci - 0x30#32
        else if (0x61#32).sle ci then ci - 0x61#32 + 10#32
        else ci - 0x41#32 + 10#32)

/-- `(char)(n < 10 ? '0' + n : 'A' - 10 + n)`, `n` a `uint8_t` -/
def half2hex (n : Byte) : Byte :=
  let ni := zx n
  toU8 (if ni.slt 10#32 then 0x30#32 + ni else 0x41#32 - 10#32 + ni)

/-- `(uint8_t)((hex2half(hi) << 4) + hex2half(lo))` -/
def hex2byte (hi lo : Byte) : Byte := toU8 ((zx (hex2half hi) <<< 4) + zx (hex2half lo))

/-! ### igris/util/access.h -/

/-- `(byte >> 4) & 0x0F` -/
def HIHALF (b : Byte) : Byte := toU8 ((zx b).sshiftRight 4 &&& 0x0F#32)
/-- `byte & 0x0F` -/
def LOHALF (b : Byte) : Byte := toU8 (zx b &&& 0x0F#32)

/-- `*((uint8_t *)&arg + k)`: byte `k` of the object representation of an
unsigned integer (little-endian platform, asserted by the harness) -/
def lane {w : Nat} (v : BitVec w) (k : Nat) : Byte := (v >>> (8 * k)).truncate 8

/-- the number whose little-endian object representation is the given bytes
(byte `k` has weight `256^k`) -/
def lanesNat : List Byte → Nat
  | [] => 0
  | b :: bs => b.toNat + 256 * lanesNat bs

/-- the `w`-bit unsigned integer with that object representation -/
def ofLanes (w : Nat) (bs : List Byte) : BitVec w := BitVec.ofNat w (lanesNat bs)

/-! ### hexascii.c : `hexascii_encode`, `hexascii_decode` -/

/-- `*oit++ = half2hex((*it & 0xF0) >> 4)` -/
def encHi (b : Byte) : Byte := half2hex (toU8 ((zx b &&& 0xF0#32).sshiftRight 4))
/-- `*oit++ = half2hex(*it & 0xF)` -/
def encLo (b : Byte) : Byte := half2hex (toU8 (zx b &&& 0xF#32))

/-- `for (it = data; it != eit; ++it) { *oit++ = …; *oit++ = …; }` -/
def hexEncode : List Byte → List Byte
  | [] => []
  | b :: rest => encHi b :: encLo b :: hexEncode rest

/-- `for (it = data; it != eit; it += 2) *oit++ = hex2byte(*it, *(it + 1));` -/
def decPairs : List Byte → List Byte
  | hi :: lo :: rest => hex2byte hi lo :: decPairs rest
  | _ => []

/-- `if (size % 2 == 1) --size; if (size <= 0) return; …` on a buffer of
exactly `size` characters -/
def hexDecode (cs : List Byte) : List Byte :=
  let size := cs.length
  let size := if size % 2 = 1 then size - 1 else size
  if size = 0 then [] else decPairs (cs.take size)

/-! ### hexascii_string.cpp : `igris::hexascii_encode` (same loop into a
`std::string` of `2*size` characters) and, after
`fix: define igris::hexascii_decode`, the string decoder
(`ret.resize(size/2); ::hexascii_decode(data, size, &ret[0])`) -/

def hexEncodeStr : List Byte → List Byte
  | [] => []
  | b :: rest => encHi b :: encLo b :: hexEncodeStr rest

def hexDecodeStr (s : List Byte) : List Byte :=
  let ret := List.replicate (s.length / 2) (0#8 : Byte)
  let w := hexDecode s
  -- the C routine writes `w` over the front of `ret`
  w ++ ret.drop w.length

/-! ### hexascii.h : fixed-width helpers.  `hex` is the caller's buffer of
exactly `2*sizeof(T)` characters (no terminator is written or read). -/

def uint8ToHex (v : BitVec 8) : List Byte := [half2hex (HIHALF v), half2hex (LOHALF v)]

def uint16ToHex (v : BitVec 16) : List Byte :=
  [half2hex (HIHALF (lane v 1)), half2hex (LOHALF (lane v 1)),
   half2hex (HIHALF (lane v 0)), half2hex (LOHALF (lane v 0))]

def uint32ToHex (v : BitVec 32) : List Byte :=
  [half2hex (HIHALF (lane v 3)), half2hex (LOHALF (lane v 3)),
   half2hex (HIHALF (lane v 2)), half2hex (LOHALF (lane v 2)),
   half2hex (HIHALF (lane v 1)), half2hex (LOHALF (lane v 1)),
   half2hex (HIHALF (lane v 0)), half2hex (LOHALF (lane v 0))]

def uint64ToHex (v : BitVec 64) : List Byte :=
  [half2hex (HIHALF (lane v 7)), half2hex (LOHALF (lane v 7)),
   half2hex (HIHALF (lane v 6)), half2hex (LOHALF (lane v 6)),
   half2hex (HIHALF (lane v 5)), half2hex (LOHALF (lane v 5)),
   half2hex (HIHALF (lane v 4)), half2hex (LOHALF (lane v 4)),
   half2hex (HIHALF (lane v 3)), half2hex (LOHALF (lane v 3)),
   half2hex (HIHALF (lane v 2)), half2hex (LOHALF (lane v 2)),
   half2hex (HIHALF (lane v 1)), half2hex (LOHALF (lane v 1)),
   half2hex (HIHALF (lane v 0)), half2hex (LOHALF (lane v 0))]

/-- `hex2byte(*(hex + i), *(hex + i + 1))` -/
def hexAt (hex : List Byte) (i : Nat) : Byte := hex2byte (hex.getD i 0#8) (hex.getD (i + 1) 0#8)

def hexToUint8 (hex : List Byte) : BitVec 8 := hexAt hex 0

/-- `UINT16_HI(out) = …(0,1); UINT16_LO(out) = …(2,3);` — lanes listed from
byte 0 of the object upwards -/
def hexToUint16 (hex : List Byte) : BitVec 16 := ofLanes 16 [hexAt hex 2, hexAt hex 0]

def hexToUint32 (hex : List Byte) : BitVec 32 :=
  ofLanes 32 [hexAt hex 6, hexAt hex 4, hexAt hex 2, hexAt hex 0]

def hexToUint64 (hex : List Byte) : BitVec 64 :=
  ofLanes 64 [hexAt hex 14, hexAt hex 12, hexAt hex 10, hexAt hex 8,
              hexAt hex 6, hexAt hex 4, hexAt hex 2, hexAt hex 0]

/-! ### igris/util/base64.cpp -/

/-- `base64_charset` (65 characters, the last one is the padding `=`);
the harness reads the compiled string (op `alpha`) and the driver compares -/
def charset : List Byte :=
  [0x41, 0x42, 0x43, 0x44, 0x45, 0x46, 0x47, 0x48, 0x49, 0x4A, 0x4B, 0x4C, 0x4D,
   0x4E, 0x4F, 0x50, 0x51, 0x52, 0x53, 0x54, 0x55, 0x56, 0x57, 0x58, 0x59, 0x5A,
   0x61, 0x62, 0x63, 0x64, 0x65, 0x66, 0x67, 0x68, 0x69, 0x6A, 0x6B, 0x6C, 0x6D,
   0x6E, 0x6F, 0x70, 0x71, 0x72, 0x73, 0x74, 0x75, 0x76, 0x77, 0x78, 0x79, 0x7A,
   0x30, 0x31, 0x32, 0x33, 0x34, 0x35, 0x36, 0x37, 0x38, 0x39, 0x2B, 0x2F, 0x3D]

/-- `base64_charset[i]`; index 65 is the terminating NUL of the literal -/
def csAt (i : I32) : Byte := charset.getD i.toNat 0#8

/-! `dp` is `const char *`: every `dp[k]` is promoted with sign extension. -/

/-- `base64_charset[(dp[0] & 0xfc) >> 2]` -/
def e0 (a : Byte) : Byte := csAt ((sx a &&& 0xfc#32).sshiftRight 2)
/-- `base64_charset[((dp[0] & 0x03) << 4) | ((dp[1] & 0xf0) >> 4)]` -/
def e1 (a b : Byte) : Byte := csAt (((sx a &&& 0x03#32) <<< 4) ||| (sx b &&& 0xf0#32).sshiftRight 4)
/-- `base64_charset[((dp[1] & 0x0f) << 2) | ((dp[2] & 0xc0) >> 6)]` -/
def e2 (b c : Byte) : Byte := csAt (((sx b &&& 0x0f#32) <<< 2) ||| (sx c &&& 0xc0#32).sshiftRight 6)
/-- `base64_charset[(dp[2] & 0x3f)]` -/
def e3 (c : Byte) : Byte := csAt (sx c &&& 0x3f#32)
/-- `base64_charset[((dp[0] & 0x03) << 4)]` (one byte left) -/
def e1t (a : Byte) : Byte := csAt ((sx a &&& 0x03#32) <<< 4)
/-- `base64_charset[((dp[1] & 0x0f) << 2)]` (two bytes left) -/
def e2t (b : Byte) : Byte := csAt ((sx b &&& 0x0f#32) <<< 2)

/-- `while (remaining >= 3) {…}  if (remaining == 2) {…} else if (remaining == 1) {…}` -/
def b64Encode : List Byte → List Byte
  | a :: b :: c :: rest => e0 a :: e1 a b :: e2 b c :: e3 c :: b64Encode rest
  | [a, b] => [e0 a, e1 a b, e2t b, csAt 64#32]
  | [a] => [e0 a, e1t a, csAt 64#32, csAt 64#32]
  | [] => []

/-- `isalnum` on an `unsigned char` in the "C" locale (the harness never calls
`setlocale`) -/
def isAlnum (c : Byte) : Bool :=
  (0x30#8 ≤ c && c ≤ 0x39#8) || (0x41#8 ≤ c && c ≤ 0x5A#8) || (0x61#8 ≤ c && c ≤ 0x7A#8)

/-- `isalnum(c) || c == '+' || c == '/'` -/
def isBase64 (c : Byte) : Bool := isAlnum c || c == 0x2B#8 || c == 0x2F#8

def idxOf (c : Byte) : List Byte → Nat
  | [] => 0
  | x :: xs => if x == c then 0 else idxOf c xs + 1

/-- `(unsigned char)(strchr(base64_charset, c) - base64_charset)`; `strchr`
also finds the terminating NUL (index 65), which is what happens to the
zero-filled slots of the tail group -/
def strchrIdx (c : Byte) : Byte := BitVec.ofNat 8 (idxOf c (charset ++ [0#8]))

/-- the three `char_array_3[…] = …` assignments -/
def dec3 (x0 x1 x2 x3 : Byte) : List Byte :=
  [toU8 ((zx x0 <<< 2) + (zx x1 &&& 0x30#32).sshiftRight 4),
   toU8 (((zx x1 &&& 0xf#32) <<< 4) + (zx x2 &&& 0x3c#32).sshiftRight 2),
   toU8 (((zx x2 &&& 0x3#32) <<< 6) + zx x3)]

/-- `for (i…) char_array_4[i] = strchr(…) - base64_charset;` then `dec3` -/
def decQuad (arr : List Byte) : List Byte :=
  let m := arr.map strchrIdx
  dec3 (m.getD 0 0#8) (m.getD 1 0#8) (m.getD 2 0#8) (m.getD 3 0#8)

/-- the `while (in_len-- && s[in_] != '=' && is_base64(s[in_]))` loop:
`arr` = `char_array_4[0..i)`, `ret` = decoded so far -/
def decLoop : List Byte → List Byte → List Byte → List Byte × List Byte
  | [], arr, ret => (arr, ret)
  | c :: rest, arr, ret =>
    if c == 0x3D#8 || !isBase64 c then (arr, ret) else
    let arr := arr ++ [c]
    if arr.length = 4 then decLoop rest [] (ret ++ decQuad arr) else decLoop rest arr ret

/-- the `if (i) {…}` tail: zero-fill, map, emit `i - 1` bytes -/
def decFinish (st : List Byte × List Byte) : List Byte :=
  let arr := st.1
  let ret := st.2
  if arr.length = 0 then ret else
    ret ++ (decQuad (arr ++ List.replicate (4 - arr.length) 0#8)).take (arr.length - 1)

def b64Decode (s : List Byte) : List Byte := decFinish (decLoop s [] [])

/-- `if (*it == '+') *it = '-'; if (*it == '/') *it = '_';` -/
def urlSubst (c : Byte) : Byte :=
  let c := if c == 0x2B#8 then 0x2D#8 else c
  if c == 0x2F#8 then 0x5F#8 else c

def b64urlEncode (data : List Byte) : List Byte := (b64Encode data).map urlSubst

/-- `base64url_decode` on the unchanged tree: it *encodes* its argument -/
def b64urlDecodeOrig (s : List Byte) : List Byte := (b64Encode s).map urlSubst

/-- after `fix: base64url_decode decodes`:
`if (*it == '-') *it = '+'; if (*it == '_') *it = '/';` on a copy, then
`base64_decode` -/
def urlUnsubst (c : Byte) : Byte :=
  let c := if c == 0x2D#8 then 0x2B#8 else c
  if c == 0x5F#8 then 0x2F#8 else c

def b64urlDecode (s : List Byte) : List Byte := b64Decode (s.map urlUnsubst)

/-! ### memory-checked forms (fault model)

The routines above compute on lists and cannot go out of range by
construction.  The forms below keep what C keeps: a buffer with a length that
the routine does not know, an explicit `int size`, a fixed array indexed by a
counter, a pointer returned by `strchr` that may be NULL.  Every access
outside the mapped bytes, a NULL `strchr` result and the overflow of an `int`
counter is `none` ("fault").  The driver runs these forms. -/

/-- the pair loop of `hexascii_decode`: `n` iterations left, `it` = read
offset, `k` = write offset (`oit - out`), `cap` = bytes the caller mapped at
`out`; returns the bytes written -/
def decPairsM (cs : List Byte) (cap : Nat) : (n it k : Nat) → List Byte → Option (List Byte)
  | 0, _, _, acc => some acc
  | n + 1, it, k, acc =>
    match cs[it]?, cs[it + 1]? with
    | some hi, some lo =>
      if k < cap then decPairsM cs cap n (it + 2) (k + 1) (acc ++ [hex2byte hi lo]) else none
    | _, _ => none

/-- `hexascii_decode(indata, size, out)`: `cs` = the bytes mapped at `indata`,
`size` = the C `int` argument (any sign, any parity), `cap` = bytes mapped at
`out`.  `size % 2` is C's truncating remainder (`-3 % 2 == -1`). -/
def hexDecodeM (cs : List Byte) (size : Int) (cap : Nat) : Option (List Byte) :=
  let size := if size.tmod 2 = 1 then size - 1 else size
  if size ≤ 0 then some [] else decPairsM cs cap (size.toNat / 2) 0 0 []

/-- `(int)str.size()`: conversion of a `size_t` to a 32-bit `int` -/
def toInt32 (n : Nat) : Int := (BitVec.ofNat 32 n).toInt

/-- `igris::hexascii_decode(std::string const&)` / `(igris::buffer const&)`:
`ret.resize(size / 2); ::hexascii_decode(data, (int)size, &ret[0]);` -/
def hexDecodeStrM (s : List Byte) : Option (List Byte) :=
  let ret := List.replicate (s.length / 2) (0#8 : Byte)
  match hexDecodeM s (toInt32 s.length) ret.length with
  | some w => some (w ++ ret.drop w.length)
  | none => none

/-- `strchr(base64_charset, c) - base64_charset`; NULL (character not in the
table and not the terminator) makes the subtraction undefined -/
def strchrM (c : Byte) : Option Byte :=
  if (charset ++ [0#8]).contains c then some (strchrIdx c) else none

/-- `for (k = 0; k < 4; k++) char_array_4[k] = strchr(...) - base64_charset;`
on the 4-slot array -/
def mapIdxM : List Byte → Option (List Byte)
  | [] => some []
  | c :: cs => match strchrM c, mapIdxM cs with
    | some v, some vs => some (v :: vs)
    | _, _ => none

/-- the decoder loop with `char_array_4` as a fixed 4-slot array `arr`, the
counter `i`, and the `int in_` index: `char_array_4[i++] = s[in_]; in_++;
if (i == 4) {…}`.  Faults: `i ≥ 4` at the store, NULL from `strchr`,
`in_` leaving the range of `int`. -/
def decLoopM : List Byte → (in_ : Nat) → (arr : List Byte) → (i : Nat) → List Byte →
    Option (List Byte × Nat × List Byte)
  | [], _, arr, i, ret => some (arr, i, ret)
  | c :: rest, in_, arr, i, ret =>
    if c == 0x3D#8 || !isBase64 c then some (arr, i, ret) else
    if 4 ≤ i then none else
    let arr := arr.set i c
    let i := i + 1
    if 2 ^ 31 ≤ in_ + 1 then none else
    if i = 4 then
      match mapIdxM arr with
      | none => none
      | some m =>
        decLoopM rest (in_ + 1) m 0
          (ret ++ dec3 (m.getD 0 0#8) (m.getD 1 0#8) (m.getD 2 0#8) (m.getD 3 0#8))
    else decLoopM rest (in_ + 1) arr i ret

/-- `for (j = i; j < 4; j++) char_array_4[j] = 0;` -/
def zeroFrom (arr : List Byte) (i : Nat) : List Byte :=
  arr.take i ++ List.replicate (arr.length - i) 0#8

/-- the `if (i) {…}` tail on the array: zero-fill `[i,4)`, map all four slots,
`for (j = 0; j < i - 1; j++) ret += char_array_3[j]` (a read of
`char_array_3[j]` with `j ≥ 3` is a fault) -/
def decFinishM (arr : List Byte) (i : Nat) (ret : List Byte) : Option (List Byte) :=
  if i = 0 then some ret else
  match mapIdxM (zeroFrom arr i) with
  | none => none
  | some m =>
    let out := dec3 (m.getD 0 0#8) (m.getD 1 0#8) (m.getD 2 0#8) (m.getD 3 0#8)
    if i - 1 ≤ out.length then some (ret ++ out.take (i - 1)) else none

/-- `base64_decode`; the array starts uninitialised (any four bytes: they are
overwritten before they are read, theorem `b64DecodeM_eq` holds for every
initial content) -/
def b64DecodeM (s : List Byte) (init : List Byte := [0#8, 0#8, 0#8, 0#8]) : Option (List Byte) :=
  match decLoopM s 0 init 0 [] with
  | none => none
  | some (arr, i, ret) => decFinishM arr i ret

def b64urlDecodeM (s : List Byte) : Option (List Byte) := b64DecodeM (s.map urlUnsubst)

/-- libstdc++ `std::string::max_size()` on the 64-bit host (the harness
prints the compiled value, op `maxsz`) -/
def strMaxSize : Nat := 2 ^ 63 - 1

/-! The only calls in the anchored files that can leave a function by an
exception are the `std::string` growth calls: `std::length_error` when the
requested size exceeds `max_size()` (decided before any allocation or read),
`std::bad_alloc` otherwise.  The requested sizes, in `size_t` arithmetic: -/

/-- `igris::hexascii_encode(indata, size)`: `ret.resize(size * 2)` -/
def hexEncodeStrReq (size : Nat) : Nat := (size * 2) % 2 ^ 64
/-- `igris::hexascii_decode(buffer)` / `(std::string)`: `ret.resize(size / 2)` -/
def hexDecodeStrReq (size : Nat) : Nat := (size % 2 ^ 64) / 2
/-- `base64_encode`: `outdata.reserve(((size * 8) / 6) + 2)` -/
def b64EncodeReq (size : Nat) : Nat := ((size * 8) % 2 ^ 64 / 6 + 2) % 2 ^ 64

/-- does `igris::hexascii_encode(indata, size)` throw `std::length_error`
(before a byte is read)? -/
def hexEncodeStrThrows (size : Nat) : Bool := strMaxSize < hexEncodeStrReq size

/-! ### round 3 — access.h on either byte order

`access.h` selects the lane macros by `__BYTE_ORDER__`.  Lanes are numbered by
significance (`0` = least significant byte … `n-1` = most significant:
`UINT32_LLO` is lane 0, `UINT32_HHI` lane 3).  `macroOff e n j` is the address
offset the macro of lane `j` uses in the branch for byte order `e`;
`objByte e n v k` is byte `k` (address order) of the object representation of
`v` on a machine of byte order `e`.  The harness prints the offsets of the
compiled branch (op `lanes`), the driver prints `laneOffsets .little`. -/

inductive Endian | little | big
  deriving DecidableEq, Repr

/-- `#define INTn_…(arg) *((uint8_t *)&arg + off)` -/
def macroOff (e : Endian) (n j : Nat) : Nat :=
  match e with
  | .little => j
  | .big => n - 1 - j

/-- byte `k` of the `n`-byte object holding `v` -/
def objByte {w : Nat} (e : Endian) (n : Nat) (v : BitVec w) (k : Nat) : Byte :=
  match e with
  | .little => lane v k
  | .big => lane v (n - 1 - k)

/-- the value held by an object with the given bytes (address order) -/
def valOfObj (e : Endian) (w : Nat) (obj : List Byte) : BitVec w :=
  match e with
  | .little => ofLanes w obj
  | .big => ofLanes w obj.reverse

/-- `MACRO_j(out) = v;` for the listed `(lane j, v)` in source order, on an
`n`-byte object (initially indeterminate: modelled as zero, every byte is stored) -/
def objOfStores (e : Endian) (n : Nat) (stores : List (Nat × Byte)) : List Byte :=
  stores.foldl (fun obj jv => obj.set (macroOff e n jv.1) jv.2) (List.replicate n 0#8)

/-- the offsets of `UINT16_HI, UINT16_LO, UINT32_HHI … UINT32_LLO, UINT64_HHHI … UINT64_LLLO` -/
def laneOffsets (e : Endian) : List Nat :=
  [macroOff e 2 1, macroOff e 2 0,
   macroOff e 4 3, macroOff e 4 2, macroOff e 4 1, macroOff e 4 0,
   macroOff e 8 7, macroOff e 8 6, macroOff e 8 5, macroOff e 8 4,
   macroOff e 8 3, macroOff e 8 2, macroOff e 8 1, macroOff e 8 0]

/-- `half2hex(HIHALF(M(in))), half2hex(LOHALF(M(in)))` for the macro of lane `j` -/
def laneHex {w : Nat} (e : Endian) (n : Nat) (v : BitVec w) (j : Nat) : List Byte :=
  let b := objByte e n v (macroOff e n j)
  [half2hex (HIHALF b), half2hex (LOHALF b)]

def uint16ToHexE (e : Endian) (v : BitVec 16) : List Byte := laneHex e 2 v 1 ++ laneHex e 2 v 0
def uint32ToHexE (e : Endian) (v : BitVec 32) : List Byte :=
  laneHex e 4 v 3 ++ laneHex e 4 v 2 ++ laneHex e 4 v 1 ++ laneHex e 4 v 0
def uint64ToHexE (e : Endian) (v : BitVec 64) : List Byte :=
  laneHex e 8 v 7 ++ laneHex e 8 v 6 ++ laneHex e 8 v 5 ++ laneHex e 8 v 4 ++
  laneHex e 8 v 3 ++ laneHex e 8 v 2 ++ laneHex e 8 v 1 ++ laneHex e 8 v 0

def hexToUint16E (e : Endian) (hex : List Byte) : BitVec 16 :=
  valOfObj e 16 (objOfStores e 2 [(1, hexAt hex 0), (0, hexAt hex 2)])
def hexToUint32E (e : Endian) (hex : List Byte) : BitVec 32 :=
  valOfObj e 32 (objOfStores e 4 [(3, hexAt hex 0), (2, hexAt hex 2), (1, hexAt hex 4), (0, hexAt hex 6)])
def hexToUint64E (e : Endian) (hex : List Byte) : BitVec 64 :=
  valOfObj e 64 (objOfStores e 8 [(7, hexAt hex 0), (6, hexAt hex 2), (5, hexAt hex 4), (4, hexAt hex 6),
    (3, hexAt hex 8), (2, hexAt hex 10), (1, hexAt hex 12), (0, hexAt hex 14)])

/-! ### round 3 — `hexascii_encode` with the C `int size`, in-place decoding -/

/-- the byte loop of `hexascii_encode`: `n` iterations left, `it` = read
offset, `k` = write offset, `cap` = bytes mapped at `out` -/
def encLoopM (cs : List Byte) (cap : Nat) : (n it k : Nat) → List Byte → Option (List Byte)
  | 0, _, _, acc => some acc
  | n + 1, it, k, acc =>
    match cs[it]? with
    | some b =>
      if k + 1 < cap then encLoopM cs cap n (it + 1) (k + 2) (acc ++ [encHi b, encLo b]) else none
    | none => none

/-- `hexascii_encode(indata, size, out)` with the C `int size`: `eit = indata +
size`, `for (it = data; it != eit; ++it)`.  A negative `size` puts `eit` in
front of the object; `it` walks upwards and never meets it inside any buffer:
fault. -/
def hexEncodeM (cs : List Byte) (size : Int) (cap : Nat) : Option (List Byte) :=
  if size < 0 then none else encLoopM cs cap size.toNat 0 0 []

/-- `hexascii_decode(buf, size, buf)` (the API takes two unrelated `void *`;
nothing forbids `out == indata`): the loop on ONE buffer — iteration `k` loads
`buf[2k]`, `buf[2k+1]`, then stores `buf[k]` -/
def decInPlace : (n k : Nat) → List Byte → Option (List Byte)
  | 0, _, buf => some buf
  | n + 1, k, buf =>
    match buf[2 * k]?, buf[2 * k + 1]? with
    | some hi, some lo => decInPlace n (k + 1) (buf.set k (hex2byte hi lo))
    | _, _ => none

def hexDecodeInPlaceM (buf : List Byte) (size : Int) : Option (List Byte) :=
  let size := if size.tmod 2 = 1 then size - 1 else size
  if size ≤ 0 then some buf else decInPlace (size.toNat / 2) 0 buf

/-! ### round 3 — accumulator forms for long inputs

`decPairsM`, `decLoop`, `decLoopM` append to the end of a list and index with
`[i]?`: quadratic.  The driver runs the forms below on long inputs; the
theorems `hexEncodeFast_eq`, `hexDecodeFast_eq`, `b64EncodeFast_eq`,
`b64DecodeFast_eq` (Props.lean) prove them equal to the model for every input. -/

def hexEncodeTR : List Byte → List Byte → List Byte
  | [], acc => acc.reverse
  | b :: rest, acc => hexEncodeTR rest (encLo b :: encHi b :: acc)
def hexEncodeFast (data : List Byte) : List Byte := hexEncodeTR data []

def decPairsTR : List Byte → List Byte → List Byte
  | hi :: lo :: rest, acc => decPairsTR rest (hex2byte hi lo :: acc)
  | _, acc => acc.reverse
def hexDecodeFast (cs : List Byte) : List Byte := decPairsTR cs []

def b64EncodeTR : List Byte → List Byte → List Byte
  | a :: b :: c :: rest, acc => b64EncodeTR rest (e3 c :: e2 b c :: e1 a b :: e0 a :: acc)
  | [a, b], acc => (csAt 64#32 :: e2t b :: e1 a b :: e0 a :: acc).reverse
  | [a], acc => (csAt 64#32 :: csAt 64#32 :: e1t a :: e0 a :: acc).reverse
  | [], acc => acc.reverse
def b64EncodeFast (data : List Byte) : List Byte := b64EncodeTR data []

/-- `decLoop` with the decoded bytes accumulated in reverse -/
def decLoopTR : List Byte → List Byte → List Byte → List Byte × List Byte
  | [], arr, racc => (arr, racc)
  | c :: rest, arr, racc =>
    if c == 0x3D#8 || !isBase64 c then (arr, racc) else
    let arr := arr ++ [c]
    if arr.length = 4 then decLoopTR rest [] ((decQuad arr).reverse ++ racc) else decLoopTR rest arr racc

def b64DecodeFast (s : List Byte) : List Byte :=
  let st := decLoopTR s [] []
  decFinish (st.1, st.2.reverse)

/-- the 48 bytes whose six-bit groups are 0, 1, …, 63 (op `alphas`: encoding
them prints the alphabet the build uses) -/
def sextetRamp : List Byte :=
  (List.range 16).flatMap fun q =>
    let g := 4 * q
    let v := g * 2 ^ 18 + (g + 1) * 2 ^ 12 + (g + 2) * 2 ^ 6 + (g + 3)
    [BitVec.ofNat 8 (v / 2 ^ 16), BitVec.ofNat 8 (v / 2 ^ 8), BitVec.ofNat 8 v]

/-- the PLATFORM types the model's arithmetic is written for, as the harness prints them (op `widths`):
`s4` = signed, 4 bytes.  (Round 3b: the types the library declares for its size parameters and helper results
are not fixed by the property; the harness reports them as tags and judges their consequences by behaviour.) -/
def widthsText : String := "int:s4 size_t:u8 char:s1 string.size:u8"

/-! ### Round 3b: the fixed-width parsers on a mapped caller buffer

`hexAt` reads a missing character as NUL (`getD`).  The forms below make the reads explicit: `none` = a
character outside the caller's buffer is read.  Reads in source order (`*(hex + 0)`, `*(hex + 1)`, …). -/

/-- `hex2byte(*(hex + i), *(hex + i + 1))`, both characters must be mapped -/
def hexAtM (hex : List Byte) (i : Nat) : Option Byte :=
  match hex[i]?, hex[i + 1]? with
  | some hi, some lo => some (hex2byte hi lo)
  | _, _ => none

def hexToUint8M (hex : List Byte) : Option (BitVec 8) := hexAtM hex 0

def hexToUint16M (hex : List Byte) : Option (BitVec 16) :=
  match hexAtM hex 0, hexAtM hex 2 with
  | some a, some b => some (ofLanes 16 [b, a])
  | _, _ => none

def hexToUint32M (hex : List Byte) : Option (BitVec 32) :=
  match hexAtM hex 0, hexAtM hex 2, hexAtM hex 4, hexAtM hex 6 with
  | some a, some b, some c, some d => some (ofLanes 32 [d, c, b, a])
  | _, _, _, _ => none

def hexToUint64M (hex : List Byte) : Option (BitVec 64) :=
  match hexAtM hex 0, hexAtM hex 2, hexAtM hex 4, hexAtM hex 6, hexAtM hex 8, hexAtM hex 10, hexAtM hex 12, hexAtM hex 14 with
  | some a, some b, some c, some d, some e, some f, some g, some h => some (ofLanes 64 [h, g, f, e, d, c, b, a])
  | _, _, _, _, _, _, _, _ => none

end Igris.C18
