/-
  C18 round 3 — lemmas for: accumulator forms, `hexascii_encode` with an
  explicit `int size`, in-place decoding, padding, byte order of access.h.
-/
import IgrisModel.C18.More
namespace Igris.C18
open Igris.Proto Spec

/-! ## accumulator forms = the model -/

theorem hexEncodeTR_eq : ∀ (d acc : List Byte), hexEncodeTR d acc = acc.reverse ++ hexEncode d
  | [], acc => by simp [hexEncodeTR, hexEncode]
  | b :: rest, acc => by
    rw [hexEncodeTR, hexEncodeTR_eq rest, hexEncode]
    simp

theorem decPairsTR_eq : ∀ (s acc : List Byte), decPairsTR s acc = acc.reverse ++ decPairs s
  | hi :: lo :: rest, acc => by
    rw [decPairsTR, decPairsTR_eq rest, decPairs]
    simp
  | [_], acc => by simp [decPairsTR, decPairs]
  | [], acc => by simp [decPairsTR, decPairs]

theorem b64EncodeTR_eq : ∀ (d acc : List Byte), b64EncodeTR d acc = acc.reverse ++ b64Encode d
  | a :: b :: c :: rest, acc => by
    rw [b64EncodeTR, b64EncodeTR_eq rest, b64Encode]
    simp
  | [a, b], acc => by simp [b64EncodeTR, b64Encode]
  | [a], acc => by simp [b64EncodeTR, b64Encode]
  | [], acc => by simp [b64EncodeTR, b64Encode]

theorem decLoopTR_eq : ∀ (s arr ret : List Byte),
    decLoopTR s arr ret.reverse = ((decLoop s arr ret).1, (decLoop s arr ret).2.reverse)
  | [], arr, ret => by simp [decLoopTR, decLoop]
  | c :: rest, arr, ret => by
    rw [decLoopTR, decLoop]
    by_cases h : (c == 0x3D#8 || !isBase64 c) = true
    · simp only [h, if_true]
    · have h' : (c == 0x3D#8 || !isBase64 c) = false := by simpa using h
      simp only [h', Bool.false_eq_true, if_false]
      by_cases h4 : (arr ++ [c]).length = 4
      · simp only [h4, if_true]
        rw [← List.reverse_append, decLoopTR_eq rest [] (ret ++ decQuad (arr ++ [c]))]
      · simp only [h4, if_false]
        exact decLoopTR_eq rest (arr ++ [c]) ret

/-! ## hexascii_encode with an explicit size on mapped buffers -/

theorem encLoopM_ok (cs : List Byte) (cap : Nat) : ∀ (n it k : Nat) (acc : List Byte),
    it + n ≤ cs.length → k + 2 * n ≤ cap →
    encLoopM cs cap n it k acc = some (acc ++ hexEncode ((cs.drop it).take n))
  | 0, it, k, acc, _, _ => by simp [encLoopM, hexEncode]
  | n + 1, it, k, acc, h1, h2 => by
    have l0 : it < cs.length := by omega
    have hd : cs.drop it = cs[it] :: cs.drop (it + 1) := by rw [List.drop_eq_getElem_cons l0]
    rw [encLoopM, List.getElem?_eq_getElem l0]
    simp only
    rw [if_pos (by omega), encLoopM_ok cs cap n (it + 1) (k + 2) _ (by omega) (by omega), hd]
    simp only [List.take_succ_cons, hexEncode, List.append_assoc, List.cons_append, List.nil_append]

theorem encLoopM_fault (cs : List Byte) (cap : Nat) : ∀ (n it k : Nat) (acc : List Byte),
    it ≤ cs.length → k ≤ cap → cs.length < it + n ∨ cap < k + 2 * n → encLoopM cs cap n it k acc = none
  | 0, it, k, acc, _, _, h => by omega
  | n + 1, it, k, acc, _, _, h => by
    rw [encLoopM]
    by_cases l0 : it < cs.length
    · rw [List.getElem?_eq_getElem l0]
      simp only
      by_cases hk : k + 1 < cap
      · rw [if_pos hk]
        exact encLoopM_fault cs cap n (it + 1) (k + 2) _ (by omega) (by omega) (by omega)
      · rw [if_neg hk]
    · have e : cs[it]? = none := List.getElem?_eq_none (by omega)
      rw [e]

/-! ## in-place decoding -/

/-- invariant of `hexascii_decode(buf, size, buf)`: after `k` iterations the
buffer is `done ++ mid ++ rest` — `k` decoded bytes, `k` stale characters that
were already consumed, the text not yet read -/
theorem decInPlace_inv : ∀ (n : Nat) (done mid rest : List Byte), done.length = mid.length →
    2 * n ≤ rest.length →
    decInPlace n done.length (done ++ mid ++ rest)
      = some (done ++ decPairs (rest.take (2 * n)) ++ (mid ++ rest).drop n)
  | 0, done, mid, rest, _, _ => by simp [decInPlace, decPairs]
  | n + 1, done, mid, rest, hl, hr => by
    match rest, hr with
    | hi :: lo :: rest', hr =>
      have hlen : (done ++ mid).length = 2 * done.length := by simp [hl]; omega
      have g0 : ((done ++ mid) ++ hi :: lo :: rest')[2 * done.length]? = some hi := by
        rw [List.getElem?_append_right (by omega), hlen]; simp
      have g1 : ((done ++ mid) ++ hi :: lo :: rest')[2 * done.length + 1]? = some lo := by
        rw [List.getElem?_append_right (by omega), hlen]; simp
      have e2 : 2 * (n + 1) = 2 * n + 1 + 1 := by omega
      rw [decInPlace, g0, g1]
      simp only
      match mid, hl with
      | [], hl =>
        have hd : done = [] := List.eq_nil_of_length_eq_zero (by simpa using hl)
        subst hd
        have ih := decInPlace_inv n [hex2byte hi lo] [lo] rest' rfl (by simp at hr; omega)
        simp only [List.length_singleton, List.cons_append, List.nil_append] at ih
        simp only [List.nil_append, List.length_nil, List.set_cons_zero, Nat.zero_add]
        rw [ih, e2]
        simp [decPairs]
      | m :: mid', hl =>
        have ih := decInPlace_inv n (done ++ [hex2byte hi lo]) (mid' ++ [hi, lo]) rest'
          (by simp at hl ⊢; omega) (by simp at hr; omega)
        simp only [List.length_append, List.length_singleton, List.append_assoc, List.cons_append,
          List.nil_append] at ih
        have hs : ((done ++ m :: mid') ++ hi :: lo :: rest').set done.length (hex2byte hi lo)
            = done ++ hex2byte hi lo :: (mid' ++ hi :: lo :: rest') := by
          simp
        rw [hs, ih, e2]
        simp [decPairs]

/-! ## padding -/

theorem letter_mem_std : ∀ b0 b1 b2 b3 b4 b5 : Bool,
    letter stdAlphabet [b0, b1, b2, b3, b4, b5] ∈ stdAlphabet.map ch := by decide +kernel
theorem letter_mem_url : ∀ b0 b1 b2 b3 b4 b5 : Bool,
    letter urlAlphabet [b0, b1, b2, b3, b4, b5] ∈ urlAlphabet.map ch := by decide +kernel
theorem pad_not_std : padChar ∉ stdAlphabet.map ch := by decide +kernel
theorem pad_not_url : padChar ∉ urlAlphabet.map ch := by decide +kernel
theorem urlSubst_mem : ∀ c : Byte, c ∈ stdAlphabet.map ch → urlSubst c ∈ urlAlphabet.map ch := by decide +kernel
theorem urlUnsubst_std : ∀ c : Byte, InAlphabet stdAlphabet c → urlUnsubst c = c := by decide +kernel

/-- `base64_encode` output = letters of table 1 followed by `(3 - n mod 3) mod 3` padding characters -/
theorem b64Encode_body : ∀ data : List Byte, ∃ body : List Byte,
    b64Encode data = body ++ List.replicate ((3 - data.length % 3) % 3) padChar ∧
    (∀ c ∈ body, c ∈ stdAlphabet.map ch)
  | a :: b :: c :: rest => by
    obtain ⟨body, h, hb⟩ := b64Encode_body rest
    refine ⟨e0 a :: e1 a b :: e2 b c :: e3 c :: body, ?_, ?_⟩
    · have : (3 - (a :: b :: c :: rest).length % 3) % 3 = (3 - rest.length % 3) % 3 := by
        simp only [List.length_cons]; omega
      rw [b64Encode, h, this]; rfl
    · rw [e0_spec, e1_spec, e2_spec, e3_spec]
      simp only [List.forall_mem_cons, letter_mem_std, true_and]
      exact hb
  | [a, b] => by
    refine ⟨[e0 a, e1 a b, e2t b], by rw [b64Encode, csAt64]; rfl, ?_⟩
    rw [e0_spec, e1_spec, e2t_spec]
    simp only [List.forall_mem_cons, letter_mem_std, true_and]
    simp
  | [a] => by
    refine ⟨[e0 a, e1t a], by rw [b64Encode, csAt64]; rfl, ?_⟩
    rw [e0_spec, e1t_spec]
    simp only [List.forall_mem_cons, letter_mem_std, true_and]
    simp
  | [] => ⟨[], by simp [b64Encode], by simp⟩

theorem count_body_pad (al : List Byte) (body : List Byte) (k : Nat) (hp : padChar ∉ al)
    (hb : ∀ c ∈ body, c ∈ al) : (body ++ List.replicate k padChar).count padChar = k := by
  rw [List.count_append, List.count_replicate_self, List.count_eq_zero.mpr (fun h => hp (hb _ h))]
  omega

/-! ## base64_decode: the `int in_` index, exactly -/

/-- the array loop, like the list loop, sees only the leading letters -/
theorem decLoopM_prefix : ∀ (s : List Byte) (in_ : Nat) (arr : List Byte) (i : Nat) (ret : List Byte),
    decLoopM s in_ arr i ret = decLoopM (lettersPrefix stdAlphabet s) in_ arr i ret
  | [], _, _, _, _ => rfl
  | c :: rest, in_, arr, i, ret => by
    by_cases h : (letterVal stdAlphabet c).isSome = true
    · have ht : (c == 0x3D#8 || !isBase64 c) = false := by rw [loopTest_iff, h]; rfl
      simp only [lettersPrefix, List.takeWhile_cons, h, if_true]
      rw [decLoopM, decLoopM]
      simp only [ht, Bool.false_eq_true, if_false]
      split
      · rfl
      · split
        · rfl
        · split
          · split
            · rfl
            · exact decLoopM_prefix rest _ _ _ _
          · exact decLoopM_prefix rest _ _ _ _
    · have ht : (c == 0x3D#8 || !isBase64 c) = true := by rw [loopTest_iff]; simp at h; simp [h]
      simp only [lettersPrefix, List.takeWhile_cons, h]
      simp [decLoopM, ht]

/-- on a run of letters that reaches index `2^31` the loop faults, whatever the array state -/
theorem decLoopM_overflow : ∀ (p : List Byte) (in_ : Nat) (arr : List Byte) (i : Nat) (ret : List Byte),
    (∀ c ∈ p, (letterVal stdAlphabet c).isSome = true) → in_ < 2 ^ 31 → 2 ^ 31 ≤ in_ + p.length →
    decLoopM p in_ arr i ret = none
  | [], in_, _, _, _, _, h1, h2 => by simp at h2; omega
  | c :: rest, in_, arr, i, ret, hp, h1, h2 => by
    have h := hp c (by simp)
    have ht : (c == 0x3D#8 || !isBase64 c) = false := by rw [loopTest_iff, h]; rfl
    simp only [List.length_cons] at h2
    rw [decLoopM]
    simp only [ht, Bool.false_eq_true, if_false]
    split
    · rfl
    · split
      · rfl
      · have ih := fun a j r => decLoopM_overflow rest (in_ + 1) a j r
          (fun x hx => hp x (by simp [hx])) (by omega) (by omega)
        split
        · split
          · rfl
          · exact ih _ _ _
        · exact ih _ _ _

theorem lettersPrefix_all (s : List Byte) :
    ∀ c ∈ lettersPrefix stdAlphabet s, (letterVal stdAlphabet c).isSome = true :=
  fun c hc => mem_takeWhile_true _ _ c hc

theorem lettersPrefix_idem (s : List Byte) :
    lettersPrefix stdAlphabet (lettersPrefix stdAlphabet s) = lettersPrefix stdAlphabet s :=
  takeWhile_all _ _ (lettersPrefix_all s)

/-! ## byte order -/

theorem objByte_macroOff {w : Nat} (e : Endian) (n j : Nat) (v : BitVec w) (h : j < n) :
    objByte e n v (macroOff e n j) = lane v j := by
  cases e
  · rfl
  · simp only [objByte, macroOff]
    congr 1; omega

theorem laneHex_eq {w : Nat} (e : Endian) (n j : Nat) (v : BitVec w) (h : j < n) :
    laneHex e n v j = [half2hex (HIHALF (lane v j)), half2hex (LOHALF (lane v j))] := by
  simp only [laneHex, objByte_macroOff e n j v h]

end Igris.C18
