import IgrisModel.C18.Model
open Igris.Proto Igris.C18

def bvOf (w : Nat) (s : String) : Option (BitVec w) := (parseHexNat? s).map (BitVec.ofNat w)

def optHex : Option (List Byte) → String
  | some r => bytesHex r
  | none => "fault"

/-- FNV-1a, 64 bit (digest of the long outputs; the harness computes the same) -/
def fnv64 (bs : List Byte) : String :=
  let h := bs.foldl (fun (h : UInt64) b => (h ^^^ UInt64.ofNat b.toNat) * 0x100000001b3) 0xcbf29ce484222325
  hexOfNat 16 h.toNat

/-- `data[i] = (a*i + b) mod 256` -/
def patternBytes (n a b : Nat) : List Byte := (List.range n).map fun i => BitVec.ofNat 8 (a * i + b)

def natsText (l : List Nat) : String := " ".intercalate (l.map toString)

def evalWords (ws : List String) : Option String :=
    match ws with
    | ["reset"] => some "ok"
    | ["alphas"] => some (bytesHex (b64Encode sextetRamp) ++ " " ++ bytesHex (b64urlEncode sextetRamp))
    | ["widths"] => some widthsText
    | ["lanes"] => some (natsText (laneOffsets .little))
    | ["nib", arg] => do
        let b ← bvOf 8 arg
        pure (byteHex (HIHALF b) ++ " " ++ byteHex (LOHALF b))
    | ["hencm", size, cap, arg] => do
        let m ← parseBytes? arg; let sz ← parseInt? size; let c ← parseInt? cap
        pure (optHex (hexEncodeM m sz c.toNat))
    | ["hdeci", size, arg] => do
        let m ← parseBytes? arg; let sz ← parseInt? size
        pure (optHex (hexDecodeInPlaceM m sz))
    | ["reuse", a, b] => do
        let _ ← parseBytes? a; let m ← parseBytes? b
        let c := hexEncode m; let cs := hexEncodeStr m; let e := b64Encode m; let u := b64urlEncode m
        pure (bytesHex c ++ " " ++ bytesHex cs ++ " " ++ bytesHex e ++ " " ++ bytesHex u ++ " " ++
          optHex ((hexDecodeM c c.length (c.length / 2)).bind fun d => (hexDecodeStrM cs).map fun d2 => d ++ d2) ++ " " ++
          optHex (b64DecodeM e) ++ " " ++ optHex (b64urlDecodeM u))
    | ["hlong", n, a, b] => do
        let n ← n.toNat?; let a ← a.toNat?; let b ← b.toNat?
        let m := patternBytes n a b
        let e := hexEncodeFast m
        let d := hexDecodeFast e
        -- second digests: the std::string twins (list models)
        pure (toString e.length ++ " " ++ fnv64 e ++ " " ++ fnv64 (hexEncodeStr m) ++ " " ++ toString d.length ++ " " ++ fnv64 d ++ " " ++ fnv64 (hexDecodeStr e))
    | ["blong", kind, n, a, b] => do
        let n ← n.toNat?; let a ← a.toNat?; let b ← b.toNat?
        let m := patternBytes n a b
        let e := if kind == "url" then (b64EncodeFast m).map urlSubst else b64EncodeFast m
        let d := if kind == "url" then b64DecodeFast (e.map urlUnsubst) else b64DecodeFast e
        pure (toString e.length ++ " " ++ fnv64 e ++ " " ++ toString d.length ++ " " ++ fnv64 d)
    | ["alpha"] => some (bytesHex charset)
    | ["oom", fn, arg] => do
        -- allocation failures are the harness's business: the compared result is the undisturbed answer
        let m ← parseBytes? arg
        match fn with
        | "hencp" | "hencs" | "hencb" => pure (bytesHex (hexEncodeStr m))
        | "hdecs" | "hdecb" => pure (optHex (hexDecodeStrM m))
        | "bencp" | "bencs" => pure (bytesHex (b64Encode m))
        | "buencp" | "buencs" => pure (bytesHex (b64urlEncode m))
        | "bdec" => pure (optHex (b64DecodeM m))
        | "budec" => pure (optHex (b64urlDecodeM m))
        | _ => none
    | ["maxsz"] => some (hexOfNat 16 strMaxSize)
    | ["hbyte", hi, lo] => do
        let h ← bvOf 8 hi; let l ← bvOf 8 lo
        pure (byteHex (hex2byte h l))
    | ["hdecm", size, cap, arg] => do
        let m ← parseBytes? arg; let sz ← parseInt? size; let c ← parseInt? cap
        pure (optHex (hexDecodeM m sz c.toNat))
    | ["hthrow", size] => do
        let n ← parseHexNat? size
        -- round 3b: the call breaks the routine's precondition (one mapped byte, n = 2^62..): its outcome
        -- (`hexEncodeStrThrows n`, theorem hexEncodeStr_throws_iff) is a tag of the harness, not compared
        let _ := hexEncodeStrThrows n
        pure "called"
    | [op, arg] => do
        match op with
        | "half" => do let n ← bvOf 8 arg; pure (byteHex (half2hex n))
        | "hhalf" => do let c ← bvOf 8 arg; pure (byteHex (hex2half c))
        | "henc" => do
            let m ← parseBytes? arg
            pure (bytesHex (hexEncode m) ++ " " ++ bytesHex (hexEncodeStr m))
        | "hdec" => do
            let m ← parseBytes? arg
            pure (optHex (hexDecodeM m m.length (m.length / 2)) ++ " " ++ optHex (hexDecodeStrM m))
        | "u8" => do
            let v ← bvOf 8 arg; let t := uint8ToHex v
            pure (bytesHex t ++ " " ++ hexOfNat 2 (hexToUint8 t).toNat)
        | "u16" => do
            let v ← bvOf 16 arg; let t := uint16ToHex v
            pure (bytesHex t ++ " " ++ hexOfNat 4 (hexToUint16 t).toNat)
        | "u32" => do
            let v ← bvOf 32 arg; let t := uint32ToHex v
            pure (bytesHex t ++ " " ++ hexOfNat 8 (hexToUint32 t).toNat)
        | "u64" => do
            let v ← bvOf 64 arg; let t := uint64ToHex v
            pure (bytesHex t ++ " " ++ hexOfNat 16 (hexToUint64 t).toNat)
        | "x8" => do
            let t ← parseBytes? arg
            pure (match hexToUint8M t with
              | some v => hexOfNat 2 v.toNat ++ " " ++ bytesHex (uint8ToHex v) | none => "fault")
        | "x16" => do
            let t ← parseBytes? arg
            pure (match hexToUint16M t with
              | some v => hexOfNat 4 v.toNat ++ " " ++ bytesHex (uint16ToHex v) | none => "fault")
        | "x32" => do
            let t ← parseBytes? arg
            pure (match hexToUint32M t with
              | some v => hexOfNat 8 v.toNat ++ " " ++ bytesHex (uint32ToHex v) | none => "fault")
        | "x64" => do
            let t ← parseBytes? arg
            pure (match hexToUint64M t with
              | some v => hexOfNat 16 v.toNat ++ " " ++ bytesHex (uint64ToHex v) | none => "fault")
        | "benc" => do let m ← parseBytes? arg; pure (bytesHex (b64Encode m))
        | "bdec" => do let m ← parseBytes? arg; pure (optHex (b64DecodeM m))
        | "buenc" => do let m ← parseBytes? arg; pure (bytesHex (b64urlEncode m))
        | "budec" => do let m ← parseBytes? arg; pure (optHex (b64urlDecodeM m))
        | _ => none
    | _ => none

/-- `premain <k> <op …>`: the battery line `k` executed by the harness before
`main()`; a pure function gives the same answer whenever it is called, so the
model computes the call itself -/
def stepLine (_ : Unit) (line : String) : Unit × String :=
  let r : Option String :=
    match words line with
    | "premain" :: _ :: "premain" :: _ => none
    | "premain" :: _ :: rest => evalWords rest
    -- round 3b: the same battery from two more positions of the initialisation order
    | "premainD" :: _ :: rest => if rest.head? == some "premain" then none else evalWords rest
    | "premainG" :: _ :: rest => if rest.head? == some "premain" then none else evalWords rest
    | ws => evalWords ws
  ((), r.getD "bad-op")

def main : IO Unit := run () stepLine
