/-
  C18 — PROPERTY THEOREMS (definitions: Model.lean = the igris code,
  Spec.lean = the reference; helper lemmas: Lemmas.lean).

  Property: "For every byte string, decode(encode(x)) returns x for the
  hexascii and base64 codecs (including the url-safe base64 variant), the
  encoded text has exactly the expected length, uses only the documented
  alphabet (upper-case hex; RFC 4648 letters with '=' padding, '-' and '_' for
  url-safe) and matches the RFC reference encoding.  The fixed-width helpers
  (8/16/32/64-bit to hex and back) invert each other for every value, and
  decoders accept everything their encoders can produce."

  All statements are over *all* byte strings / all values.
-/
import IgrisModel.C18.Lemmas
import IgrisModel.C18.More
import IgrisModel.C18.Round3
import IgrisModel.C18.Round3b
import IgrisModel.C07.Model
namespace Igris.C18
open Igris.Proto Spec

/-! ## hexascii -/

/-- `hexascii_encode` writes the upper-case hex text of the data -/
theorem hexEncode_eq_spec (data : List Byte) : hexEncode data = hexOfBytes data := by
  induction data with
  | nil => rfl
  | cons b bs ih =>
    simp only [hexEncode, encHi_spec, encLo_spec, ih, hexOfBytes, List.flatMap_cons, List.cons_append,
      List.nil_append]

/-- `igris::hexascii_encode` (std::string) is the same function -/
theorem hexEncodeStr_eq_spec (data : List Byte) : hexEncodeStr data = hexOfBytes data := by
  rw [hexEncodeStr_eq, hexEncode_eq_spec]

/-- exactly two characters per byte -/
theorem hexEncode_length (data : List Byte) : (hexEncode data).length = 2 * data.length :=
  hexEncode_length' data

/-- only `0-9A-F` -/
theorem hexEncode_alphabet (data : List Byte) : ∀ c ∈ hexEncode data, IsUpperHex c := by
  induction data with
  | nil => intro c h; simp [hexEncode] at h
  | cons b bs ih =>
    intro c h
    simp only [hexEncode, List.mem_cons] at h
    rcases h with h | h | h
    · exact h ▸ (enc_upper b).1
    · exact h ▸ (enc_upper b).2
    · exact ih c h

/-- `hexascii_decode(hexascii_encode(x)) = x` -/
theorem hex_roundtrip (data : List Byte) : hexDecode (hexEncode data) = data := by
  rw [hexDecode_eq, decPairs_hexEncode]

/-- the std::string pair: `igris::hexascii_decode(igris::hexascii_encode(x)) = x` -/
theorem hexStr_roundtrip (data : List Byte) : hexDecodeStr (hexEncodeStr data) = data := by
  have hl : (hexDecode (hexEncode data)).length = (hexEncode data).length / 2 := by
    rw [hex_roundtrip, hexEncode_length]; omega
  simp only [hexDecodeStr, hexEncodeStr_eq]
  rw [← hl, List.drop_of_length_le (by simp), hex_roundtrip]; simp

/-- the decoder returns `⌊len/2⌋` bytes for every text … -/
theorem hexDecode_length (s : List Byte) : (hexDecode s).length = s.length / 2 := by
  rw [hexDecode_eq, decPairs_length]

/-- … and accepts everything the encoder can produce: on an even-length text
over `0-9A-F` it is the exact inverse of the encoder (re-encoding gives the
text back), so it is injective there -/
theorem hexDecode_accepts (s : List Byte) (hc : ∀ c ∈ s, IsUpperHex c) (hl : s.length % 2 = 0) :
    hexEncode (hexDecode s) = s := by
  rw [hexDecode_eq, hexEncode_decPairs s hc hl]

example : (∀ c ∈ [0x41#8, 0x39#8], IsUpperHex c) ∧ [0x41#8, 0x39#8].length % 2 = 0 := by decide

/-! ## fixed-width helpers: `hex_to_uintN (uintN_to_hex v) = v` for every value -/

theorem uint8_hex_inverse (v : BitVec 8) : hexToUint8 (uint8ToHex v) = v := by
  simp only [hexToUint8, uint8ToHex, hexAt, List.getD_cons_zero, List.getD_cons_succ, pair_inv]

theorem uint16_hex_inverse (v : BitVec 16) : hexToUint16 (uint16ToHex v) = v := by
  simp only [hexToUint16, uint16ToHex, hexAt, List.getD_cons_zero, List.getD_cons_succ, pair_inv,
    ofLanes_lanes16]

theorem uint32_hex_inverse (v : BitVec 32) : hexToUint32 (uint32ToHex v) = v := by
  simp only [hexToUint32, uint32ToHex, hexAt, List.getD_cons_zero, List.getD_cons_succ, pair_inv,
    ofLanes_lanes32]

theorem uint64_hex_inverse (v : BitVec 64) : hexToUint64 (uint64ToHex v) = v := by
  simp only [hexToUint64, uint64ToHex, hexAt, List.getD_cons_zero, List.getD_cons_succ, pair_inv,
    ofLanes_lanes64]

/-! … and `uintN_to_hex (hex_to_uintN t) = t` for every text `t` of `2·sizeof`
upper-case hex digits (everything `uintN_to_hex` can produce, see
`uintN_hex_alphabet`) -/

theorem hex_uint8_inverse (t : List Byte) (hc : ∀ c ∈ t, IsUpperHex c) (hl : t.length = 2) :
    uint8ToHex (hexToUint8 t) = t := by
  match t, hl with
  | [c0, c1], _ =>
    have p0 := digits_of_pair c0 c1 (hc _ (by simp)) (hc _ (by simp))
    simp only [hexToUint8, uint8ToHex, hexAt, List.getD_cons_zero, List.getD_cons_succ, p0]

theorem hex_uint16_inverse (t : List Byte) (hc : ∀ c ∈ t, IsUpperHex c) (hl : t.length = 4) :
    uint16ToHex (hexToUint16 t) = t := by
  match t, hl with
  | [c0, c1, c2, c3], _ =>
    have p0 := digits_of_pair c0 c1 (hc _ (by simp)) (hc _ (by simp))
    have p1 := digits_of_pair c2 c3 (hc _ (by simp)) (hc _ (by simp))
    simp only [hexToUint16, uint16ToHex, hexAt, List.getD_cons_zero, List.getD_cons_succ,
      (lane_ofLanes16 _ _).1, (lane_ofLanes16 _ _).2, p0, p1]

theorem hex_uint32_inverse (t : List Byte) (hc : ∀ c ∈ t, IsUpperHex c) (hl : t.length = 8) :
    uint32ToHex (hexToUint32 t) = t := by
  match t, hl with
  | [c0, c1, c2, c3, c4, c5, c6, c7], _ =>
    have p0 := digits_of_pair c0 c1 (hc _ (by simp)) (hc _ (by simp))
    have p1 := digits_of_pair c2 c3 (hc _ (by simp)) (hc _ (by simp))
    have p2 := digits_of_pair c4 c5 (hc _ (by simp)) (hc _ (by simp))
    have p3 := digits_of_pair c6 c7 (hc _ (by simp)) (hc _ (by simp))
    obtain ⟨l0, l1, l2, l3⟩ := lane_ofLanes32 (hex2byte c6 c7) (hex2byte c4 c5) (hex2byte c2 c3) (hex2byte c0 c1)
    simp only [hexToUint32, uint32ToHex, hexAt, List.getD_cons_zero, List.getD_cons_succ,
      l0, l1, l2, l3, p0, p1, p2, p3]

theorem hex_uint64_inverse (t : List Byte) (hc : ∀ c ∈ t, IsUpperHex c) (hl : t.length = 16) :
    uint64ToHex (hexToUint64 t) = t := by
  match t, hl with
  | [c0, c1, c2, c3, c4, c5, c6, c7, c8, c9, c10, c11, c12, c13, c14, c15], _ =>
    have p0 := digits_of_pair c0 c1 (hc _ (by simp)) (hc _ (by simp))
    have p1 := digits_of_pair c2 c3 (hc _ (by simp)) (hc _ (by simp))
    have p2 := digits_of_pair c4 c5 (hc _ (by simp)) (hc _ (by simp))
    have p3 := digits_of_pair c6 c7 (hc _ (by simp)) (hc _ (by simp))
    have p4 := digits_of_pair c8 c9 (hc _ (by simp)) (hc _ (by simp))
    have p5 := digits_of_pair c10 c11 (hc _ (by simp)) (hc _ (by simp))
    have p6 := digits_of_pair c12 c13 (hc _ (by simp)) (hc _ (by simp))
    have p7 := digits_of_pair c14 c15 (hc _ (by simp)) (hc _ (by simp))
    obtain ⟨l0, l1, l2, l3, l4, l5, l6, l7⟩ := lane_ofLanes64 (hex2byte c14 c15) (hex2byte c12 c13)
      (hex2byte c10 c11) (hex2byte c8 c9) (hex2byte c6 c7) (hex2byte c4 c5) (hex2byte c2 c3) (hex2byte c0 c1)
    simp only [hexToUint64, uint64ToHex, hexAt, List.getD_cons_zero, List.getD_cons_succ,
      l0, l1, l2, l3, l4, l5, l6, l7, p0, p1, p2, p3, p4, p5, p6, p7]

/-- what `uintN_to_hex` writes: `2·sizeof` characters, all in `0-9A-F`
(so the hypotheses of `hex_uintN_inverse` hold for every encoder output) -/
theorem uint8ToHex_alphabet (v : BitVec 8) :
    (uint8ToHex v).length = 2 ∧ ∀ c ∈ uint8ToHex v, IsUpperHex c := by
  refine ⟨by simp [uint8ToHex], ?_⟩
  simp only [uint8ToHex, half_hi, half_lo, List.forall_mem_cons, (enc_upper _).1, (enc_upper _).2, true_and]
  simp

theorem uint16ToHex_alphabet (v : BitVec 16) :
    (uint16ToHex v).length = 4 ∧ ∀ c ∈ uint16ToHex v, IsUpperHex c := by
  refine ⟨by simp [uint16ToHex], ?_⟩
  simp only [uint16ToHex, half_hi, half_lo, List.forall_mem_cons, (enc_upper _).1, (enc_upper _).2, true_and]
  simp

theorem uint32ToHex_alphabet (v : BitVec 32) :
    (uint32ToHex v).length = 8 ∧ ∀ c ∈ uint32ToHex v, IsUpperHex c := by
  refine ⟨by simp [uint32ToHex], ?_⟩
  simp only [uint32ToHex, half_hi, half_lo, List.forall_mem_cons, (enc_upper _).1, (enc_upper _).2, true_and]
  simp

theorem uint64ToHex_alphabet (v : BitVec 64) :
    (uint64ToHex v).length = 16 ∧ ∀ c ∈ uint64ToHex v, IsUpperHex c := by
  refine ⟨by simp [uint64ToHex], ?_⟩
  simp only [uint64ToHex, half_hi, half_lo, List.forall_mem_cons, (enc_upper _).1, (enc_upper _).2, true_and]
  simp


/-- `uintN_to_hex` writes the `2·sizeof` upper-case hex digits of the value,
most significant first (independent of the byte-lane macros) -/
theorem uint8ToHex_eq_spec (v : BitVec 8) : uint8ToHex v = hexOfNumber 2 v.toNat := by
  have h0 : v = lane v 0 := by simp [lane]
  rw [uint8ToHex, h0, digit_hi, digit_lo]
  simp [hexOfNumber, List.range_succ, lane]

theorem uint16ToHex_eq_spec (v : BitVec 16) : uint16ToHex v = hexOfNumber 4 v.toNat := by
  simp [uint16ToHex, digit_hi, digit_lo, hexOfNumber, List.range_succ]

theorem uint32ToHex_eq_spec (v : BitVec 32) : uint32ToHex v = hexOfNumber 8 v.toNat := by
  simp [uint32ToHex, digit_hi, digit_lo, hexOfNumber, List.range_succ]

theorem uint64ToHex_eq_spec (v : BitVec 64) : uint64ToHex v = hexOfNumber 16 v.toNat := by
  simp [uint64ToHex, digit_hi, digit_lo, hexOfNumber, List.range_succ]

/-! ## base64 -/

/-- the table compiled into base64.cpp is RFC 4648 table 1 followed by `=` -/
theorem charset_is_rfc : charset = stdAlphabet.map ch ++ [padChar] := charset_eq

/-- `base64_encode` = RFC 4648 §4 (6-bit regrouping of the bit string, `=` padding) -/
theorem b64Encode_eq_rfc : ∀ data : List Byte, b64Encode data = base64 data
  | a :: b :: c :: rest => by
    rw [b64Encode, base64, encodeWith_triple, ← base64, ← b64Encode_eq_rfc rest, e0_spec, e1_spec, e2_spec, e3_spec]
  | [a, b] => by
    rw [b64Encode, base64, encodeWith_two, e0_spec, e1_spec, e2t_spec, csAt64]
  | [a] => by
    rw [b64Encode, base64, encodeWith_one, e0_spec, e1t_spec, csAt64]
  | [] => by
    rw [b64Encode, base64, encodeWith_nil]

/-- `base64url_encode` = RFC 4648 §5 (url-safe alphabet, padding kept) -/
theorem b64urlEncode_eq_rfc : ∀ data : List Byte, b64urlEncode data = base64url data
  | a :: b :: c :: rest => by
    have ih := b64urlEncode_eq_rfc rest
    simp only [b64urlEncode] at ih ⊢
    rw [b64Encode, base64url, encodeWith_triple, ← base64url, ← ih, e0_spec, e1_spec, e2_spec, e3_spec]
    simp only [List.map_cons, urlSubst_letter]
  | [a, b] => by
    rw [b64urlEncode, b64Encode, base64url, encodeWith_two, e0_spec, e1_spec, e2t_spec, csAt64]
    simp only [List.map_cons, List.map_nil, urlSubst_letter, urlSubst_pad]
  | [a] => by
    rw [b64urlEncode, b64Encode, base64url, encodeWith_one, e0_spec, e1t_spec, csAt64]
    simp only [List.map_cons, List.map_nil, urlSubst_letter, urlSubst_pad]
  | [] => by
    rw [b64urlEncode, b64Encode, base64url, encodeWith_nil]; rfl

/-- the encoded text has exactly `4·⌈n/3⌉` characters -/
theorem b64Encode_length : ∀ data : List Byte, (b64Encode data).length = 4 * ((data.length + 2) / 3)
  | a :: b :: c :: rest => by
    simp only [b64Encode, List.length_cons, b64Encode_length rest]; omega
  | [a, b] => by simp [b64Encode]
  | [a] => by simp [b64Encode]
  | [] => by simp [b64Encode]

theorem b64urlEncode_length (data : List Byte) : (b64urlEncode data).length = 4 * ((data.length + 2) / 3) := by
  rw [b64urlEncode, List.length_map, b64Encode_length]

/-- only RFC 4648 letters and `=` -/
theorem b64Encode_alphabet : ∀ data : List Byte, ∀ x ∈ b64Encode data, InAlphabet stdAlphabet x
  | a :: b :: c :: rest => by
    rw [b64Encode, e0_spec, e1_spec, e2_spec, e3_spec]
    simp only [List.forall_mem_cons, letter_in_std, true_and]
    exact b64Encode_alphabet rest
  | [a, b] => by
    rw [b64Encode, e0_spec, e1_spec, e2t_spec, csAt64]
    simp [letter_in_std, pad_in]
  | [a] => by
    rw [b64Encode, e0_spec, e1t_spec, csAt64]
    simp [letter_in_std, pad_in]
  | [] => by simp [b64Encode]

/-- url-safe: only `A-Za-z0-9-_` and `=` -/
theorem b64urlEncode_alphabet (data : List Byte) : ∀ x ∈ b64urlEncode data, InAlphabet urlAlphabet x := by
  rw [b64urlEncode_eq_rfc]
  induction data using b64Encode.induct with
  | case1 a b c rest ih =>
    rw [base64url, encodeWith_triple]
    simp only [List.forall_mem_cons, letter_in_url, true_and]
    exact ih
  | case2 a b => rw [base64url, encodeWith_two]; simp [letter_in_url, pad_in]
  | case3 a => rw [base64url, encodeWith_one]; simp [letter_in_url, pad_in]
  | case4 => simp [base64url, encodeWith_nil]

/-- decoding the encoder's output appends exactly the data to what was decoded before -/
theorem b64_decode_encode_from : ∀ (data ret : List Byte),
    decFinish (decLoop (b64Encode data) [] ret) = ret ++ data
  | a :: b :: c :: rest, ret => by
    rw [b64Encode, e0_spec, e1_spec, e2_spec, e3_spec,
      decLoop_quad _ _ _ _ _ _ (letter_ok ..) (letter_ok ..) (letter_ok ..) (letter_ok ..),
      decQuad_letters, b64_decode_encode_from rest]
    simp
  | [a, b], ret => by
    rw [b64Encode, e0_spec, e1_spec, e2t_spec, csAt64, pad_is_3D]
    rw [decLoop_ok _ _ _ _ (letter_ok ..).1 (letter_ok ..).2]; simp only [List.nil_append, List.length_cons, List.length_nil]
    rw [if_neg (by decide), decLoop_ok _ _ _ _ (letter_ok ..).1 (letter_ok ..).2]
    simp only [List.cons_append, List.nil_append, List.length_cons, List.length_nil]
    rw [if_neg (by decide), decLoop_ok _ _ _ _ (letter_ok ..).1 (letter_ok ..).2]
    simp only [List.cons_append, List.nil_append, List.length_cons, List.length_nil]
    rw [if_neg (by decide), decLoop_pad]
    simp only [decFinish, List.length_cons, List.length_nil, decQuad, dec3, List.map_cons, List.map_nil,
      List.replicate, List.cons_append, List.nil_append,
      List.getD_cons_zero, List.getD_cons_succ, (letter_facts _ _ _ _ _ _).1, dec3_0, dec3_1_tail,
      byteOfBits_byteBits]
    simp
  | [a], ret => by
    rw [b64Encode, e0_spec, e1t_spec, csAt64, pad_is_3D]
    rw [decLoop_ok _ _ _ _ (letter_ok ..).1 (letter_ok ..).2]; simp only [List.nil_append, List.length_cons, List.length_nil]
    rw [if_neg (by decide), decLoop_ok _ _ _ _ (letter_ok ..).1 (letter_ok ..).2]
    simp only [List.cons_append, List.nil_append, List.length_cons, List.length_nil]
    rw [if_neg (by decide), decLoop_pad]
    simp only [decFinish, List.length_cons, List.length_nil, decQuad, dec3, List.map_cons, List.map_nil,
      List.replicate, List.cons_append, List.nil_append,
      List.getD_cons_zero, List.getD_cons_succ, (letter_facts _ _ _ _ _ _).1, dec3_0,
      byteOfBits_byteBits]
    simp
  | [], ret => by
    simp [b64Encode, decLoop, decFinish]

/-- `base64_decode(base64_encode(x)) = x` for every byte string -/
theorem b64_roundtrip (data : List Byte) : b64Decode (b64Encode data) = data := by
  rw [b64Decode, b64_decode_encode_from]; rfl

/-- `base64url_decode(base64url_encode(x)) = x` for every byte string
(after `fix: base64url_decode decodes`) -/
theorem b64url_roundtrip (data : List Byte) : b64urlDecode (b64urlEncode data) = data := by
  rw [b64urlDecode, b64urlEncode, List.map_map]
  have : (b64Encode data).map (urlUnsubst ∘ urlSubst) = b64Encode data := by
    conv => rhs; rw [← List.map_id (b64Encode data)]
    apply List.map_congr_left
    intro x hx
    exact urlUnsubst_subst x (b64Encode_alphabet data x hx)
  rw [this, b64_roundtrip]

/-- historical: on the unchanged tree `base64url_decode` called the encoder -/
theorem b64urlDecodeOrig_witness : b64urlDecodeOrig (b64urlEncode [0#8]) ≠ [0#8] := by decide +kernel

/-- anchors for the specification itself: the RFC 4648 §10 test vectors -/
theorem rfc4648_test_vectors :
    base64 [] = [] ∧
    base64 ("f".toList.map ch) = "Zg==".toList.map ch ∧
    base64 ("fo".toList.map ch) = "Zm8=".toList.map ch ∧
    base64 ("foo".toList.map ch) = "Zm9v".toList.map ch ∧
    base64 ("foob".toList.map ch) = "Zm9vYg==".toList.map ch ∧
    base64 ("fooba".toList.map ch) = "Zm9vYmE=".toList.map ch ∧
    base64 ("foobar".toList.map ch) = "Zm9vYmFy".toList.map ch ∧
    base64url [0xfb#8, 0xff#8] = "-_8=".toList.map ch := by decide +kernel

/-! # Extension: `hex2half` on every character, case-insensitive decoders,
decoders on arbitrary text, memory safety -/

/-! ## hex2half / half2hex / hex2byte -/

/-- `hex2half ∘ half2hex = id` on the sixteen nibble values -/
theorem hex2half_half2hex (n : Byte) (h : n.toNat < 16) : hex2half (half2hex n) = n :=
  hex2half_half2hex' n h

example : (0x0b#8 : Byte).toNat < 16 := by decide

/-- `hex2half` accepts both cases: on `0-9`, `A-F`, `a-f` it returns the digit value -/
theorem hex2half_digit (c : Byte) (v : Nat) (h : hexVal c = some v) : (hex2half c).toNat = v :=
  hex2half_hexVal c v h

example : hexVal 0x61#8 = some 10 ∧ hexVal 0x46#8 = some 15 ∧ hexVal 0x39#8 = some 9 ∧ hexVal 0x47#8 = none := by decide

/-- what `hex2half` returns for EVERY `char` value (plain `char` signed: the
values `0x80..0xFF` are negative and take the `c <= '9'` branch) -/
theorem hex2half_exact (c : Byte) : (hex2half c).toNat =
    if 128 ≤ c.toNat ∨ c.toNat ≤ 0x39 then (c.toNat + 256 - 48) % 256
    else if 0x61 ≤ c.toNat then c.toNat - 87 else c.toNat - 55 := hex2half_exact' c

/-- the characters that are silently taken for a digit (`hex2half c < 16`):
the 22 hex digits and the seven characters `:;<=>?@` (values 3..9) -/
theorem hex2half_lt16_iff (c : Byte) :
    (hex2half c).toNat < 16 ↔ ((hexVal c).isSome ∨ (0x3A ≤ c.toNat ∧ c.toNat ≤ 0x40)) := by
  rw [hex2half_lt16']

/-- every letter has the value of its other case (also outside `A-F`) -/
theorem hex2half_caseInsensitive (c : Byte) :
    hex2half (asciiLower c) = hex2half c ∧ hex2half (asciiUpper c) = hex2half c :=
  ⟨hex2half_lower c, hex2half_upper c⟩

/-- `hex2byte` on two hex digits of either case = `16·hi + lo` -/
theorem hex2byte_eq_spec (hi lo : Byte) (h1 : (hexVal hi).isSome) (h2 : (hexVal lo).isSome) :
    hex2byte hi lo = BitVec.ofNat 8 (16 * (hexVal hi).getD 0 + (hexVal lo).getD 0) :=
  hex2byte_spec hi lo h1 h2

example : (hexVal 0x63#8).isSome ∧ (hexVal 0x37#8).isSome ∧ hex2byte 0x63#8 0x37#8 = 0xC7#8 := by decide

/-! ## decoders accept lower-case text as the same bytes -/

/-- `hexascii_decode(lower(s)) = hexascii_decode(s)` for EVERY text -/
theorem hexDecode_lower (s : List Byte) : hexDecode (s.map asciiLower) = hexDecode s := by
  rw [hexDecode_eq, hexDecode_eq, decPairs_lower]

theorem hexDecodeStr_lower (s : List Byte) : hexDecodeStr (s.map asciiLower) = hexDecodeStr s := by
  simp only [hexDecodeStr, hexDecode_lower, List.length_map]

/-- on every text of hex digits of either case the decoder is the reference
parse (two digits per byte, an odd last character unused) -/
theorem hexDecode_eq_spec (s : List Byte) (hc : ∀ c ∈ s, (hexVal c).isSome) : hexDecode s = bytesOfHex s := by
  rw [hexDecode_eq, decPairs_spec s hc]

example : (∀ c ∈ [0x61#8, 0x42#8, 0x33#8], (hexVal c).isSome) ∧ hexDecode [0x61#8, 0x42#8, 0x33#8] = [0xAB#8] := by decide

/-- odd length: the last character is not used at all -/
theorem hexDecode_odd (s : List Byte) (c : Byte) (h : s.length % 2 = 0) : hexDecode (s ++ [c]) = hexDecode s := by
  rw [hexDecode_eq, hexDecode_eq, decPairs_snoc_even s c h]

example : ([0x41#8, 0x42#8] : List Byte).length % 2 = 0 := by decide

theorem hexToUint8_lower (t : List Byte) : hexToUint8 (t.map asciiLower) = hexToUint8 t := by
  simp only [hexToUint8, hexAt_lower]
theorem hexToUint16_lower (t : List Byte) : hexToUint16 (t.map asciiLower) = hexToUint16 t := by
  simp only [hexToUint16, hexAt_lower]
theorem hexToUint32_lower (t : List Byte) : hexToUint32 (t.map asciiLower) = hexToUint32 t := by
  simp only [hexToUint32, hexAt_lower]
theorem hexToUint64_lower (t : List Byte) : hexToUint64 (t.map asciiLower) = hexToUint64 t := by
  simp only [hexToUint64, hexAt_lower]

/-! ## hexascii_decode: memory (buffer + explicit `int size`) -/

/-- `size` rounded down to even, as the routine does it (`-3 % 2 == -1`: a
negative odd size is not decremented, it leaves through `size <= 0`) -/
def evenSize (size : Int) : Nat := if size ≤ 1 then 0 else size.toNat - size.toNat % 2

/-- the routine completes iff the `evenSize size` characters and the
`evenSize size / 2` output bytes are mapped; it then reads exactly the indices
`[0, evenSize size)` and writes exactly `[0, evenSize size / 2)`; for
`size ≤ 1` (zero, one, every negative value) it touches nothing -/
theorem hexDecodeM_safe_iff (cs : List Byte) (size : Int) (cap : Nat) :
    (hexDecodeM cs size cap).isSome ↔ (evenSize size ≤ cs.length ∧ evenSize size / 2 ≤ cap) := by
  unfold hexDecodeM evenSize
  by_cases h1 : size ≤ 1
  · simp [h1, evened_le_one size h1]
  · have hs : 0 < size := by omega
    obtain ⟨n, rfl⟩ := Int.eq_ofNat_of_zero_le (Int.le_of_lt hs)
    have hn : 2 ≤ n := by omega
    obtain ⟨hpos, hcnt⟩ := evened_nat n hn
    simp only [h1, if_false, hpos, hcnt, Int.toNat_natCast]
    by_cases hok : n - n % 2 ≤ cs.length ∧ (n - n % 2) / 2 ≤ cap
    · rw [decPairsM_ok cs cap (n / 2) 0 0 [] (by omega) (by omega)]
      exact ⟨fun _ => hok, fun _ => rfl⟩
    · rw [decPairsM_fault cs cap (n / 2) 0 0 [] (by omega) (by omega) (by omega)]
      exact ⟨fun h => by simp at h, fun h => absurd h hok⟩

/-- when it completes, the bytes written are the decoder's result on the first `size` characters -/
theorem hexDecodeM_eq (cs : List Byte) (size : Nat) (cap : Nat) (h1 : size ≤ cs.length) (h2 : size / 2 ≤ cap) :
    hexDecodeM cs size cap = some (hexDecode (cs.take size)) := by
  unfold hexDecodeM
  by_cases h : size ≤ 1
  · rw [if_pos (evened_le_one _ (by omega)), hexDecode_eq]
    match hc : cs.take size with
    | [] => rfl
    | [_] => rfl
    | _ :: _ :: _ => have := congrArg List.length hc; simp at this; omega
  · obtain ⟨hpos, hcnt⟩ := evened_nat size (by omega)
    rw [if_neg hpos, hcnt, decPairsM_ok cs cap (size / 2) 0 0 [] (by omega) (by omega), hexDecode_eq]
    simp only [List.nil_append, List.drop_zero]
    by_cases hp : size % 2 = 0
    · rw [show 2 * (size / 2) = size by omega]
    · have e : cs.take size = cs.take (2 * (size / 2)) ++ [cs[2 * (size / 2)]'(by omega)] := by
        have : size = 2 * (size / 2) + 1 := by omega
        conv => lhs; rw [this]
        rw [List.take_add_one, List.getElem?_eq_getElem (by omega)]
        rfl
      rw [e, decPairs_snoc_even _ _ (by rw [List.length_take]; omega)]

example : hexDecodeM [0x61#8, 0x42#8, 0x33#8] 3 1 = some [0xAB#8] ∧ hexDecodeM [0x61#8, 0x42#8, 0x33#8] (-3) 0 = some []
    ∧ hexDecodeM [0x61#8, 0x42#8, 0x33#8] 4 2 = none ∧ hexDecodeM [0x61#8, 0x42#8] 2 0 = none := by decide

/-- `igris::hexascii_decode(std::string)` / `(igris::buffer)`: for EVERY
string, of any length (the `(int)size()` conversion included), no access
leaves the string or the `size()/2` bytes of the result -/
theorem hexDecodeStrM_never_faults (s : List Byte) : (hexDecodeStrM s).isSome := by
  have h : (hexDecodeM s (toInt32 s.length) (s.length / 2)).isSome := by
    rw [hexDecodeM_safe_iff]
    unfold evenSize toInt32
    split
    · simp
    · have hle : (BitVec.ofNat 32 s.length).toInt ≤ s.length := by
        rw [BitVec.toInt_eq_toNat_cond]
        simp only [BitVec.toNat_ofNat]
        split <;> omega
      omega
  obtain ⟨w, hw⟩ := Option.isSome_iff_exists.mp h
  simp only [hexDecodeStrM, List.length_replicate, hw]
  rfl

/-- … and below `2^31` characters it returns the decoder's result -/
theorem hexDecodeStrM_eq (s : List Byte) (h : s.length < 2 ^ 31) : hexDecodeStrM s = some (hexDecodeStr s) := by
  have hi : toInt32 s.length = (s.length : Int) := by
    unfold toInt32
    rw [BitVec.toInt_eq_toNat_cond]
    simp only [BitVec.toNat_ofNat]
    split <;> omega
  simp only [hexDecodeStrM, hexDecodeStr, hi, List.length_replicate]
  rw [hexDecodeM_eq s s.length _ (Nat.le_refl _) (Nat.le_refl _), List.take_length]

example : ([0x61#8, 0x42#8, 0x33#8] : List Byte).length < 2 ^ 31 := by decide

/-! ## base64_decode on arbitrary text -/

/-- what `base64_decode` does with EVERY text: it decodes the longest prefix
of RFC table-1 letters and ignores everything from the first other character
on (`=` wherever it stands, white space, bytes ≥ 0x80, `-`, `_`, NUL); the
result is the whole bytes of the letters' concatenated six-bit values (an
incomplete last byte is dropped, so missing padding is accepted) -/
theorem b64Decode_eq_spec (s : List Byte) : b64Decode s = decodeWith stdAlphabet s := by
  have hp : ∀ c ∈ lettersPrefix stdAlphabet s, (letterVal stdAlphabet c).isSome = true :=
    fun c hc => mem_takeWhile_true _ _ c hc
  rw [b64Decode, decLoop_takeWhile, decode_letters _ _ hp]
  rfl

/-- everything behind the first non-letter is ignored -/
theorem b64Decode_stops (p rest : List Byte) (c : Byte) (hp : ∀ x ∈ p, (letterVal stdAlphabet x).isSome)
    (hc : (letterVal stdAlphabet c).isSome = false) : b64Decode (p ++ c :: rest) = b64Decode p := by
  rw [b64Decode_eq_spec, b64Decode_eq_spec]
  have e1 : lettersPrefix stdAlphabet (p ++ c :: rest) = p := takeWhile_stop _ c rest hc p hp
  have e2 : lettersPrefix stdAlphabet p = p := takeWhile_all _ p hp
  simp only [decodeWith, e1, e2]

example : (∀ x ∈ [0x51#8, 0x55#8], (letterVal stdAlphabet x).isSome) ∧ (letterVal stdAlphabet 0x3D#8).isSome = false
    ∧ (letterVal stdAlphabet 0x20#8).isSome = false ∧ (letterVal stdAlphabet 0x2D#8).isSome = false := by decide

/-- result length on every text: `⌊6n/8⌋` for `n` leading letters
(`3·(n/4)` plus 0, 0, 1, 2 for a tail of 0, 1, 2, 3 letters) -/
theorem b64Decode_length (s : List Byte) :
    (b64Decode s).length = 6 * (lettersPrefix stdAlphabet s).length / 8 := by
  rw [b64Decode_eq_spec, decodeWith, bytesOfBits_length, flatMap_letterBits_length]

/-- the url-safe decoder: the same after `-`→`+`, `_`→`/` (it also takes `+` and `/`) -/
theorem b64urlDecode_eq_spec (s : List Byte) : b64urlDecode s = decodeWith stdAlphabet (s.map urlUnsubst) := by
  rw [b64urlDecode, b64Decode_eq_spec]

/-! ## base64_decode: memory -/

/-- for EVERY text shorter than `2^31` characters and every initial content of
`char_array_4`: no store leaves the four slots of `char_array_4`, no read
leaves `char_array_3`, `strchr` never returns NULL, the `int` index does not
overflow; the result is the list model's -/
theorem b64DecodeM_eq (s init : List Byte) (hi : init.length = 4) (h : s.length < 2 ^ 31) :
    b64DecodeM s init = some (b64Decode s) := by
  obtain ⟨arrM', i', h1, h2, h3, h4, h5⟩ :=
    decLoopM_sim s 0 init 0 [] hi (by omega) (by intro c hc; simp at hc) (by omega)
  unfold b64DecodeM b64Decode
  rw [h1]
  simp only [List.take_zero] at h2 ⊢
  rw [decFinishM_sim arrM' i' _ h4 h3 h5, ← h2]

theorem b64urlDecodeM_eq (s : List Byte) (h : s.length < 2 ^ 31) : b64urlDecodeM s = some (b64urlDecode s) := by
  rw [b64urlDecodeM, b64urlDecode, b64DecodeM_eq _ _ rfl (by rw [List.length_map]; exact h)]

example : ([0xAA#8, 0xBB#8, 0xCC#8, 0xDD#8] : List Byte).length = 4 ∧ ([0x51#8] : List Byte).length < 2 ^ 31 := by decide

/-- the `int in_` index: a text of `2^31` letters or more is outside the
routine's domain (signed overflow of `in_++`); the model faults exactly there -/
theorem decLoopM_int_overflow (c : Byte) (rest arr ret : List Byte) (i : Nat)
    (hc : (letterVal stdAlphabet c).isSome) (hi : i < 4) :
    decLoopM (c :: rest) (2 ^ 31 - 1) arr i ret = none := by
  have ht : (c == 0x3D#8 || !isBase64 c) = false := by rw [loopTest_iff, hc]; rfl
  rw [decLoopM]
  simp only [ht, Bool.false_eq_true, if_false]
  rw [if_neg (by omega), if_pos (by omega)]

example : (letterVal stdAlphabet 0x41#8).isSome ∧ (0 : Nat) < 4 := by decide

/-! ## exceptions: which `std::string` growth calls can throw `std::length_error` -/

/-- `igris::hexascii_encode(p, size)` throws exactly for `size·2 mod 2^64 ≥ 2^63` -/
theorem hexEncodeStr_throws_iff (size : Nat) : hexEncodeStrThrows size ↔ 2 ^ 63 ≤ (size * 2) % 2 ^ 64 := by
  unfold hexEncodeStrThrows hexEncodeStrReq strMaxSize
  rw [decide_eq_true_iff]; omega

/-- the other growth calls (`hexascii_decode`: `resize(size/2)`; `base64_encode`:
`reserve(size·8/6+2)`) never exceed `max_size()`: their exception edges
(gcov: hexascii_string.cpp 36, 44, base64.cpp 52; base64.cpp 118 = `ret +=`)
are reachable by `std::bad_alloc` only -/
theorem other_requests_below_max (size : Nat) :
    hexDecodeStrReq size ≤ strMaxSize ∧ b64EncodeReq size ≤ strMaxSize := by
  unfold hexDecodeStrReq b64EncodeReq strMaxSize
  have hx : size * 8 % 2 ^ 64 < 2 ^ 64 := Nat.mod_lt _ (by decide)
  generalize size * 8 % 2 ^ 64 = x at hx
  constructor <;> omega

/-! # Round 3 -/

/-! ## one function, two models (audit F): C07 and C18 both transcribe `hex2half` -/

/-- the model of `hex2half` used by property C07 (`BitVec 8` arithmetic on the
signed value) and this one (promotion to `int`, truncation) are the same
function on every `char` -/
theorem hex2half_eq_C07 : ∀ c : Byte, hex2half c = Igris.C07.hex2half c := by decide +kernel

/-! ## twins: hexascii_string.cpp against hexascii.c -/

/-- `igris::hexascii_encode` (std::string) = `hexascii_encode` (C) -/
theorem hexEncodeStr_twin (data : List Byte) : hexEncodeStr data = hexEncode data := hexEncodeStr_eq data

/-- `igris::hexascii_decode` (std::string / buffer) returns exactly the bytes the
C routine writes, for EVERY text (nothing of the zero-filled `resize` survives) -/
theorem hexDecodeStr_twin (s : List Byte) : hexDecodeStr s = hexDecode s := by
  have hl := hexDecode_length s
  simp only [hexDecodeStr]
  rw [List.drop_of_length_le (by simp [hl])]
  simp

/-! ## injectivity (two different byte strings never share an encoding) -/

theorem hexEncode_injective (x y : List Byte) (h : hexEncode x = hexEncode y) : x = y := by
  rw [← hex_roundtrip x, ← hex_roundtrip y, h]
theorem b64Encode_injective (x y : List Byte) (h : b64Encode x = b64Encode y) : x = y := by
  rw [← b64_roundtrip x, ← b64_roundtrip y, h]
theorem b64urlEncode_injective (x y : List Byte) (h : b64urlEncode x = b64urlEncode y) : x = y := by
  rw [← b64url_roundtrip x, ← b64url_roundtrip y, h]
theorem uint16ToHex_injective (x y : BitVec 16) (h : uint16ToHex x = uint16ToHex y) : x = y := by
  rw [← uint16_hex_inverse x, ← uint16_hex_inverse y, h]
theorem uint32ToHex_injective (x y : BitVec 32) (h : uint32ToHex x = uint32ToHex y) : x = y := by
  rw [← uint32_hex_inverse x, ← uint32_hex_inverse y, h]
theorem uint64ToHex_injective (x y : BitVec 64) (h : uint64ToHex x = uint64ToHex y) : x = y := by
  rw [← uint64_hex_inverse x, ← uint64_hex_inverse y, h]

example : hexEncode [0xAB#8] = hexEncode [0xAB#8] ∧ b64Encode [1#8] = b64Encode [1#8] := ⟨rfl, rfl⟩

/-- the decoder is injective on the encoder's range (even-length upper-case hex) -/
theorem hexDecode_injective_on_hex (s t : List Byte) (hs : ∀ c ∈ s, IsUpperHex c) (ht : ∀ c ∈ t, IsUpperHex c)
    (ls : s.length % 2 = 0) (lt : t.length % 2 = 0) (h : hexDecode s = hexDecode t) : s = t := by
  rw [← hexDecode_accepts s hs ls, ← hexDecode_accepts t ht lt, h]

example : (∀ c ∈ [0x41#8, 0x39#8], IsUpperHex c) ∧ [0x41#8, 0x39#8].length % 2 = 0 := by decide

/-! ## padding rules -/

/-- `base64_encode`: letters of RFC table 1 (never `=`) followed by exactly
`(3 - n mod 3) mod 3` padding characters: 0, 2, 1 for `n ≡ 0, 1, 2 (mod 3)` -/
theorem b64Encode_padding (data : List Byte) : ∃ body : List Byte,
    b64Encode data = body ++ List.replicate ((3 - data.length % 3) % 3) padChar ∧
    (∀ c ∈ body, c ∈ stdAlphabet.map ch) ∧ padChar ∉ stdAlphabet.map ch :=
  let ⟨body, h, hb⟩ := b64Encode_body data
  ⟨body, h, hb, pad_not_std⟩

/-- … so the number of `=` in the text is `(3 - n mod 3) mod 3` -/
theorem b64Encode_padCount (data : List Byte) :
    (b64Encode data).count padChar = (3 - data.length % 3) % 3 := by
  obtain ⟨body, h, hb⟩ := b64Encode_body data
  rw [h, count_body_pad _ body _ pad_not_std hb]

/-- url-safe: the same with table 2 (`-`, `_`), padding kept -/
theorem b64urlEncode_padding (data : List Byte) : ∃ body : List Byte,
    b64urlEncode data = body ++ List.replicate ((3 - data.length % 3) % 3) padChar ∧
    (∀ c ∈ body, c ∈ urlAlphabet.map ch) ∧ padChar ∉ urlAlphabet.map ch := by
  obtain ⟨body, h, hb⟩ := b64Encode_body data
  refine ⟨body.map urlSubst, ?_, ?_, pad_not_url⟩
  · rw [b64urlEncode, h, List.map_append, List.map_replicate, urlSubst_pad]
  · intro c hc
    obtain ⟨x, hx, rfl⟩ := List.mem_map.mp hc
    exact urlSubst_mem x (hb x hx)

theorem b64urlEncode_padCount (data : List Byte) :
    (b64urlEncode data).count padChar = (3 - data.length % 3) % 3 := by
  obtain ⟨body, h, hb, hp⟩ := b64urlEncode_padding data
  rw [h, count_body_pad _ body _ hp hb]

/-! ## the other alphabet fed to a decoder -/

/-- `base64url_decode` also decodes standard base64 text (`+`, `/` pass its translation unchanged) -/
theorem b64urlDecode_accepts_std (data : List Byte) : b64urlDecode (b64Encode data) = data := by
  have : (b64Encode data).map urlUnsubst = b64Encode data := by
    conv => rhs; rw [← List.map_id (b64Encode data)]
    apply List.map_congr_left
    intro x hx
    exact urlUnsubst_std x (b64Encode_alphabet data x hx)
  rw [b64urlDecode, this, b64_roundtrip]

/-- `base64_decode` does NOT decode url-safe text: it stops at the first `-` / `_`
(`b64Decode_stops`); `"-_8="` = base64url of `fb ff` decodes to nothing -/
theorem b64Decode_url_witness : b64Decode (b64urlEncode [0xfb#8, 0xff#8]) = [] ∧
    b64urlDecode (b64urlEncode [0xfb#8, 0xff#8]) = [0xfb#8, 0xff#8] := by decide +kernel

/-- the alphabets as the encoders print them: the 48 bytes whose sextets are
0,1,…,63 (op `alphas` runs the same call on the compiled code) -/
theorem sextetRamp_alphabets :
    b64Encode sextetRamp = stdAlphabet.map ch ∧ b64urlEncode sextetRamp = urlAlphabet.map ch := by decide +kernel

/-! ## `base64_decode`: the domain of the `int in_` index, exactly -/

/-- `b64DecodeM_eq` with its hypothesis weakened to what the routine really
depends on: the number of LEADING LETTERS (the text behind the first
non-letter is never indexed), for every initial array content -/
theorem b64DecodeM_eq_prefix (s init : List Byte) (hi : init.length = 4)
    (h : (lettersPrefix stdAlphabet s).length < 2 ^ 31) : b64DecodeM s init = some (b64Decode s) := by
  have e1 : b64DecodeM s init = b64DecodeM (lettersPrefix stdAlphabet s) init := by
    unfold b64DecodeM; rw [decLoopM_prefix]
  rw [e1, b64DecodeM_eq _ _ hi h, b64Decode_eq_spec, b64Decode_eq_spec, decodeWith, decodeWith, lettersPrefix_idem]

/-- totality, exactly: `base64_decode` completes without a fault (store outside
`char_array_4`, NULL from `strchr`, read outside `char_array_3`, overflow of
`int in_`) iff the text has fewer than `2^31` leading letters -/
theorem b64DecodeM_safe_iff (s init : List Byte) (hi : init.length = 4) :
    (b64DecodeM s init).isSome ↔ (lettersPrefix stdAlphabet s).length < 2 ^ 31 := by
  constructor
  · intro hs
    by_cases h : (lettersPrefix stdAlphabet s).length < 2 ^ 31
    · exact h
    · have e : decLoopM s 0 init 0 [] = none := by
        rw [decLoopM_prefix]
        exact decLoopM_overflow _ 0 init 0 [] (lettersPrefix_all s) (by omega) (by omega)
      unfold b64DecodeM at hs
      rw [e] at hs
      simp at hs
  · intro h
    rw [b64DecodeM_eq_prefix s init hi h]
    rfl

example : ([0#8, 0#8, 0#8, 0#8] : List Byte).length = 4 ∧
    (lettersPrefix stdAlphabet [0x51#8, 0x55#8, 0x3D#8, 0x51#8]).length < 2 ^ 31 := by decide

/-! ## `hexascii_encode(indata, int size, out)`: the C width of `size` -/

/-- the routine completes iff `size ≥ 0`, `size` bytes are mapped at `indata`
and `2·size` at `out` (a negative size never terminates inside any buffer) -/
theorem hexEncodeM_safe_iff (cs : List Byte) (size : Int) (cap : Nat) :
    (hexEncodeM cs size cap).isSome ↔ (0 ≤ size ∧ size.toNat ≤ cs.length ∧ 2 * size.toNat ≤ cap) := by
  unfold hexEncodeM
  by_cases hn : size < 0
  · simp [hn]; omega
  · rw [if_neg hn]
    by_cases hok : size.toNat ≤ cs.length ∧ 2 * size.toNat ≤ cap
    · rw [encLoopM_ok cs cap size.toNat 0 0 [] (by omega) (by omega)]
      exact ⟨fun _ => ⟨by omega, hok⟩, fun _ => rfl⟩
    · rw [encLoopM_fault cs cap size.toNat 0 0 [] (by omega) (by omega) (by omega)]
      exact ⟨fun h => by simp at h, fun h => absurd h.2 hok⟩

/-- … and then writes the hex text of the first `size` bytes -/
theorem hexEncodeM_eq (cs : List Byte) (size cap : Nat) (h1 : size ≤ cs.length) (h2 : 2 * size ≤ cap) :
    hexEncodeM cs size cap = some (hexEncode (cs.take size)) := by
  unfold hexEncodeM
  rw [if_neg (by omega), Int.toNat_natCast, encLoopM_ok cs cap size 0 0 [] (by omega) (by omega)]
  simp

example : hexEncodeM [0xAB#8, 0xCD#8] 1 2 = some [0x41#8, 0x42#8] ∧ hexEncodeM [0xAB#8] (-1) 100 = none
    ∧ hexEncodeM [0xAB#8] 1 1 = none ∧ hexEncodeM [0xAB#8] 2 4 = none := by decide

/-- a length of `2^31 … 2^32-1` bytes passed through the `int size` parameter
arrives negative: the encoder is outside its domain for EVERY buffer … -/
theorem hexEncodeM_int_wrap (cs : List Byte) (n cap : Nat) (h1 : 2 ^ 31 ≤ n) (h2 : n < 2 ^ 32) :
    hexEncodeM cs (toInt32 n) cap = none := by
  have hneg : toInt32 n < 0 := by
    unfold toInt32
    rw [BitVec.toInt_eq_toNat_cond]
    simp only [BitVec.toNat_ofNat]
    rw [Nat.mod_eq_of_lt h2]
    split <;> omega
  unfold hexEncodeM
  rw [if_pos hneg]

/-- … and the decoder silently decodes nothing -/
theorem hexDecodeM_int_wrap (cs : List Byte) (n cap : Nat) (h1 : 2 ^ 31 ≤ n) (h2 : n < 2 ^ 32) :
    hexDecodeM cs (toInt32 n) cap = some [] := by
  have hneg : toInt32 n < 0 := by
    unfold toInt32
    rw [BitVec.toInt_eq_toNat_cond]
    simp only [BitVec.toNat_ofNat]
    rw [Nat.mod_eq_of_lt h2]
    split <;> omega
  unfold hexDecodeM
  rw [if_pos (evened_le_one _ (by omega))]

example : (2 : Nat) ^ 31 ≤ 2 ^ 31 + 5 ∧ 2 ^ 31 + 5 < (2 : Nat) ^ 32 := by decide

/-- `igris::hexascii_decode(std::string)` for EVERY length (the region that
`hexDecodeStrM_eq` excludes is characterised exactly): only the first
`(int)size()` characters are decoded — none when that is negative —, the rest of
the `size()/2` result bytes stay zero.  A string of `2^31 … 2^32-1` characters
decodes to all zeros without any report. -/
theorem hexDecodeStrM_exact (s : List Byte) :
    hexDecodeStrM s = some (hexDecode (s.take (toInt32 s.length).toNat) ++
      List.replicate (s.length / 2 - (toInt32 s.length).toNat / 2) 0#8) := by
  have hle : toInt32 s.length ≤ s.length := by
    unfold toInt32
    rw [BitVec.toInt_eq_toNat_cond]
    simp only [BitVec.toNat_ofNat]
    split <;> omega
  unfold hexDecodeStrM
  simp only [List.length_replicate]
  by_cases hneg : toInt32 s.length < 0
  · have e : hexDecodeM s (toInt32 s.length) (s.length / 2) = some [] := by
      unfold hexDecodeM
      rw [if_pos (evened_le_one _ (by omega))]
    have z : (toInt32 s.length).toNat = 0 := by omega
    rw [e, z]
    simp [hexDecode]
  · have hc : toInt32 s.length = ((toInt32 s.length).toNat : Int) := by omega
    have e := hexDecodeM_eq s (toInt32 s.length).toNat (s.length / 2) (by omega) (by omega)
    rw [← hc] at e
    rw [e]
    simp only [List.drop_replicate, hexDecode_length, List.length_take]
    congr 3
    omega

/-! ## in place: `hexascii_decode(buf, size, buf)` -/

/-- decoding into the buffer that holds the text works: every pair is loaded
before its byte is stored and the store offset `k` never passes the load offset
`2k`.  Afterwards the first `size/2` bytes are the decoding of the ORIGINAL
text, everything behind them is unchanged. -/
theorem hexDecodeInPlaceM_eq (buf : List Byte) (size : Nat) (h : size ≤ buf.length) :
    hexDecodeInPlaceM buf size = some (hexDecode (buf.take size) ++ buf.drop (size / 2)) := by
  unfold hexDecodeInPlaceM
  by_cases h1 : size ≤ 1
  · rw [if_pos (evened_le_one _ (by omega)), hexDecode_eq]
    have : size / 2 = 0 := by omega
    rw [this]
    match hc : buf.take size with
    | [] => simp [decPairs]
    | [_] => simp [decPairs]
    | _ :: _ :: _ => have := congrArg List.length hc; simp at this; omega
  · obtain ⟨hpos, hcnt⟩ := evened_nat size (by omega)
    rw [if_neg hpos, hcnt]
    have inv := decInPlace_inv (size / 2) [] [] buf rfl (by omega)
    simp only [List.length_nil, List.nil_append] at inv
    rw [inv, hexDecode_eq]
    congr 2
    by_cases hp : size % 2 = 0
    · rw [show 2 * (size / 2) = size by omega]
    · have e : buf.take size = buf.take (2 * (size / 2)) ++ [buf[2 * (size / 2)]'(by omega)] := by
        have : size = 2 * (size / 2) + 1 := by omega
        conv => lhs; rw [this]
        rw [List.take_add_one, List.getElem?_eq_getElem (by omega)]
        rfl
      rw [e, decPairs_snoc_even _ _ (by rw [List.length_take]; omega)]

example : hexDecodeInPlaceM [0x61#8, 0x42#8, 0x33#8, 0x39#8, 0x7A#8] 4 = some [0xAB#8, 0x39#8, 0x33#8, 0x39#8, 0x7A#8] := by decide

/-! ## access.h on either byte order -/

/-- `uintN_to_hex` writes the same text whichever branch of access.h is compiled … -/
theorem uint16ToHexE_endian (e : Endian) (v : BitVec 16) : uint16ToHexE e v = uint16ToHex v := by
  simp [uint16ToHexE, uint16ToHex, laneHex_eq]
theorem uint32ToHexE_endian (e : Endian) (v : BitVec 32) : uint32ToHexE e v = uint32ToHex v := by
  simp [uint32ToHexE, uint32ToHex, laneHex_eq]
theorem uint64ToHexE_endian (e : Endian) (v : BitVec 64) : uint64ToHexE e v = uint64ToHex v := by
  simp [uint64ToHexE, uint64ToHex, laneHex_eq]

/-- … and `hex_to_uintN` returns the same value -/
theorem hexToUint16E_endian (e : Endian) (t : List Byte) : hexToUint16E e t = hexToUint16 t := by
  cases e <;> rfl
theorem hexToUint32E_endian (e : Endian) (t : List Byte) : hexToUint32E e t = hexToUint32 t := by
  cases e <;> rfl
theorem hexToUint64E_endian (e : Endian) (t : List Byte) : hexToUint64E e t = hexToUint64 t := by
  cases e <;> rfl

/-- the offsets of the two branches (the harness prints those of the compiled one) -/
theorem laneOffsets_values :
    laneOffsets .little = [1, 0, 3, 2, 1, 0, 7, 6, 5, 4, 3, 2, 1, 0] ∧
    laneOffsets .big = [0, 1, 0, 1, 2, 3, 0, 1, 2, 3, 4, 5, 6, 7] := by decide

/-! ## accumulator forms used by the driver on long inputs -/

theorem hexEncodeFast_eq (data : List Byte) : hexEncodeFast data = hexEncode data := by
  simp [hexEncodeFast, hexEncodeTR_eq]
theorem hexDecodeFast_eq (s : List Byte) : hexDecodeFast s = hexDecode s := by
  simp [hexDecodeFast, decPairsTR_eq, hexDecode_eq]
theorem b64EncodeFast_eq (data : List Byte) : b64EncodeFast data = b64Encode data := by
  simp [b64EncodeFast, b64EncodeTR_eq]
theorem b64DecodeFast_eq (s : List Byte) : b64DecodeFast s = b64Decode s := by
  have h := decLoopTR_eq s [] []
  simp only [List.reverse_nil] at h
  simp only [b64DecodeFast, b64Decode, h, List.reverse_reverse]

/-! ## Round 3b: the fixed-width parsers on a mapped buffer (closes the `getD` gap of `hexAt`) -/

/-- `hex_to_uint8(hex)` completes ⇔ 2 characters are mapped at `hex`; then it is `hexToUint8` -/
theorem hexToUint8M_eq (t : List Byte) :
    hexToUint8M t = if 2 ≤ t.length then some (hexToUint8 t) else none := by
  simp only [hexToUint8M, hexToUint8, hexAtM_eq]
  split <;> split <;> first | rfl | omega

/-- `hex_to_uint16(hex)` completes ⇔ 4 characters are mapped -/
theorem hexToUint16M_eq (t : List Byte) :
    hexToUint16M t = if 4 ≤ t.length then some (hexToUint16 t) else none := by
  simp only [hexToUint16M, hexToUint16, hexAtM_eq]
  by_cases h : 4 ≤ t.length
  · simp [h, show 0 + 1 < t.length by omega, show 2 + 1 < t.length by omega]
  · simp only [h, if_false]
    have : ¬ (2 + 1 < t.length) := by omega
    simp [this]

/-- `hex_to_uint32(hex)` completes ⇔ 8 characters are mapped -/
theorem hexToUint32M_eq (t : List Byte) :
    hexToUint32M t = if 8 ≤ t.length then some (hexToUint32 t) else none := by
  simp only [hexToUint32M, hexToUint32, hexAtM_eq]
  by_cases h : 8 ≤ t.length
  · simp [h, show 0 + 1 < t.length by omega, show 2 + 1 < t.length by omega, show 4 + 1 < t.length by omega, show 6 + 1 < t.length by omega]
  · simp only [h, if_false]
    have : ¬ (6 + 1 < t.length) := by omega
    simp [this]

/-- `hex_to_uint64(hex)` completes ⇔ 16 characters are mapped -/
theorem hexToUint64M_eq (t : List Byte) :
    hexToUint64M t = if 16 ≤ t.length then some (hexToUint64 t) else none := by
  simp only [hexToUint64M, hexToUint64, hexAtM_eq]
  by_cases h : 16 ≤ t.length
  · simp [h, show 0 + 1 < t.length by omega, show 2 + 1 < t.length by omega, show 4 + 1 < t.length by omega, show 6 + 1 < t.length by omega,
      show 8 + 1 < t.length by omega, show 10 + 1 < t.length by omega, show 12 + 1 < t.length by omega, show 14 + 1 < t.length by omega]
  · simp only [h, if_false]
    have : ¬ (14 + 1 < t.length) := by omega
    simp [this]

/-- nothing behind the `2·sizeof` characters is used: a longer buffer gives the same value -/
theorem hexToUint8_prefix (t r : List Byte) (hl : t.length = 2) : hexToUint8 (t ++ r) = hexToUint8 t := by
  simp only [hexToUint8, hexAt_append t r 0 (by omega)]
theorem hexToUint16_prefix (t r : List Byte) (hl : t.length = 4) : hexToUint16 (t ++ r) = hexToUint16 t := by
  simp only [hexToUint16, hexAt_append t r 0 (by omega), hexAt_append t r 2 (by omega)]
theorem hexToUint32_prefix (t r : List Byte) (hl : t.length = 8) : hexToUint32 (t ++ r) = hexToUint32 t := by
  simp only [hexToUint32, hexAt_append t r 0 (by omega), hexAt_append t r 2 (by omega), hexAt_append t r 4 (by omega),
    hexAt_append t r 6 (by omega)]
theorem hexToUint64_prefix (t r : List Byte) (hl : t.length = 16) : hexToUint64 (t ++ r) = hexToUint64 t := by
  simp only [hexToUint64, hexAt_append t r 0 (by omega), hexAt_append t r 2 (by omega), hexAt_append t r 4 (by omega),
    hexAt_append t r 6 (by omega), hexAt_append t r 8 (by omega), hexAt_append t r 10 (by omega), hexAt_append t r 12 (by omega),
    hexAt_append t r 14 (by omega)]

-- non-vacuity: a 4-character text, and the same text in a longer buffer
example : hexToUint16M [0x61, 0x42, 0x33, 0x44] = some 0xAB3D#16 ∧ hexToUint16M [0x61, 0x42, 0x33] = none := by decide
example : hexToUint16 ([0x61, 0x42, 0x33, 0x44] ++ [0x46, 0x46]) = 0xAB3D#16 := by decide

/-! ## Round 3b: the domains of the "encode ∘ decode = id" theorems, exactly

`hexDecode_accepts` and `hex_uintN_inverse` carry the hypothesis "upper-case hex digits (and the right length)".
These are not merely sufficient: outside them the composition never gives the text back. -/

/-- `hexascii_encode(hexascii_decode t) = t` ⇔ `t` has even length and consists of `0-9A-F` (every text) -/
theorem hexDecode_accepts_iff (s : List Byte) :
    hexEncode (hexDecode s) = s ↔ s.length % 2 = 0 ∧ ∀ c ∈ s, IsUpperHex c := by
  constructor
  · intro h
    refine ⟨?_, by rw [← h]; exact hexEncode_alphabet _⟩
    have := congrArg List.length h
    rw [hexEncode_length, hexDecode_length] at this
    omega
  · intro ⟨hl, hc⟩; exact hexDecode_accepts s hc hl

theorem hex_uint8_inverse_iff (t : List Byte) (hl : t.length = 2) :
    uint8ToHex (hexToUint8 t) = t ↔ ∀ c ∈ t, IsUpperHex c :=
  ⟨fun h => h ▸ (uint8ToHex_alphabet _).2, fun hc => hex_uint8_inverse t hc hl⟩
theorem hex_uint16_inverse_iff (t : List Byte) (hl : t.length = 4) :
    uint16ToHex (hexToUint16 t) = t ↔ ∀ c ∈ t, IsUpperHex c :=
  ⟨fun h => h ▸ (uint16ToHex_alphabet _).2, fun hc => hex_uint16_inverse t hc hl⟩
theorem hex_uint32_inverse_iff (t : List Byte) (hl : t.length = 8) :
    uint32ToHex (hexToUint32 t) = t ↔ ∀ c ∈ t, IsUpperHex c :=
  ⟨fun h => h ▸ (uint32ToHex_alphabet _).2, fun hc => hex_uint32_inverse t hc hl⟩
theorem hex_uint64_inverse_iff (t : List Byte) (hl : t.length = 16) :
    uint64ToHex (hexToUint64 t) = t ↔ ∀ c ∈ t, IsUpperHex c :=
  ⟨fun h => h ▸ (uint64ToHex_alphabet _).2, fun hc => hex_uint64_inverse t hc hl⟩

-- both sides of the equivalences occur: "A9" is given back, "a9" and "A9A" are not
example : hexEncode (hexDecode [0x41, 0x39]) = [0x41, 0x39] ∧ hexEncode (hexDecode [0x61, 0x39]) ≠ [0x61, 0x39] ∧
    hexEncode (hexDecode [0x41, 0x39, 0x41]) ≠ [0x41, 0x39, 0x41] := by decide

/-- base64: re-encoding the decoder's result gives the text back exactly on the encoder's range (canonical
texts) and nowhere else - together with `b64_roundtrip` the two routines are mutually inverse bijections between
all byte strings and the canonical texts -/
theorem b64_canonical_iff (t : List Byte) : b64Encode (b64Decode t) = t ↔ ∃ x, b64Encode x = t :=
  ⟨fun h => ⟨_, h⟩, fun ⟨x, hx⟩ => by rw [← hx, b64_roundtrip]⟩
theorem b64url_canonical_iff (t : List Byte) : b64urlEncode (b64urlDecode t) = t ↔ ∃ x, b64urlEncode x = t :=
  ⟨fun h => ⟨_, h⟩, fun ⟨x, hx⟩ => by rw [← hx, b64url_roundtrip]⟩

end Igris.C18
