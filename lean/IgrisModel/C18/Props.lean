import IgrisModel.C18.Lemmas
namespace Igris.C18
open Igris.Proto
theorem hexEncodeStr_eq (data : List Byte) : hexEncodeStr data = hexEncode data := by
  induction data with
  | nil => rfl
  | cons b bs ih => simp [hexEncodeStr, hexEncode, ih]
end Igris.C18
