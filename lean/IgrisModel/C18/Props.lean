/-
  C18 — PROPERTY THEOREMS (definitions: Model.lean = the igris code,
  Spec.lean = the reference; helper lemmas: Lemmas.lean).

  Property: "For every byte string, decode(encode(x)) returns x for the
  hexascii and base64 codecs (including the url-safe base64 variant), the
  encoded text has exactly the expected length, uses only the documented
  alphabet (upper-case hex; RFC 4648 letters with '=' padding, '-' and '_' for
  url-safe) and matches the RFC reference encoding.  The fixed-width helpers
  (8/16/32/64-bit to hex and back) invert each other for every value, and
  decoders accept everything their encoders can produce."

  All statements are over *all* byte strings / all values.
-/
import IgrisModel.C18.Lemmas
namespace Igris.C18
open Igris.Proto Spec

/-! ## hexascii -/

/-- `hexascii_encode` writes the upper-case hex text of the data -/
theorem hexEncode_eq_spec (data : List Byte) : hexEncode data = hexOfBytes data := by
  induction data with
  | nil => rfl
  | cons b bs ih =>
    simp only [hexEncode, encHi_spec, encLo_spec, ih, hexOfBytes, List.flatMap_cons, List.cons_append,
      List.nil_append]

/-- `igris::hexascii_encode` (std::string) is the same function -/
theorem hexEncodeStr_eq_spec (data : List Byte) : hexEncodeStr data = hexOfBytes data := by
  rw [hexEncodeStr_eq, hexEncode_eq_spec]

/-- exactly two characters per byte -/
theorem hexEncode_length (data : List Byte) : (hexEncode data).length = 2 * data.length :=
  hexEncode_length' data

/-- only `0-9A-F` -/
theorem hexEncode_alphabet (data : List Byte) : ∀ c ∈ hexEncode data, IsUpperHex c := by
  induction data with
  | nil => intro c h; simp [hexEncode] at h
  | cons b bs ih =>
    intro c h
    simp only [hexEncode, List.mem_cons] at h
    rcases h with h | h | h
    · exact h ▸ (enc_upper b).1
    · exact h ▸ (enc_upper b).2
    · exact ih c h

/-- `hexascii_decode(hexascii_encode(x)) = x` -/
theorem hex_roundtrip (data : List Byte) : hexDecode (hexEncode data) = data := by
  rw [hexDecode_eq, decPairs_hexEncode]

/-- the std::string pair: `igris::hexascii_decode(igris::hexascii_encode(x)) = x` -/
theorem hexStr_roundtrip (data : List Byte) : hexDecodeStr (hexEncodeStr data) = data := by
  have hl : (hexDecode (hexEncode data)).length = (hexEncode data).length / 2 := by
    rw [hex_roundtrip, hexEncode_length]; omega
  simp only [hexDecodeStr, hexEncodeStr_eq]
  rw [← hl, List.drop_of_length_le (by simp), hex_roundtrip]; simp

/-- the decoder returns `⌊len/2⌋` bytes for every text … -/
theorem hexDecode_length (s : List Byte) : (hexDecode s).length = s.length / 2 := by
  rw [hexDecode_eq, decPairs_length]

/-- … and accepts everything the encoder can produce: on an even-length text
over `0-9A-F` it is the exact inverse of the encoder (re-encoding gives the
text back), so it is injective there -/
theorem hexDecode_accepts (s : List Byte) (hc : ∀ c ∈ s, IsUpperHex c) (hl : s.length % 2 = 0) :
    hexEncode (hexDecode s) = s := by
  rw [hexDecode_eq, hexEncode_decPairs s hc hl]

example : (∀ c ∈ [0x41#8, 0x39#8], IsUpperHex c) ∧ [0x41#8, 0x39#8].length % 2 = 0 := by decide

/-! ## fixed-width helpers: `hex_to_uintN (uintN_to_hex v) = v` for every value -/

theorem uint8_hex_inverse (v : BitVec 8) : hexToUint8 (uint8ToHex v) = v := by
  simp only [hexToUint8, uint8ToHex, hexAt, List.getD_cons_zero, List.getD_cons_succ, pair_inv]

theorem uint16_hex_inverse (v : BitVec 16) : hexToUint16 (uint16ToHex v) = v := by
  simp only [hexToUint16, uint16ToHex, hexAt, List.getD_cons_zero, List.getD_cons_succ, pair_inv,
    ofLanes_lanes16]

theorem uint32_hex_inverse (v : BitVec 32) : hexToUint32 (uint32ToHex v) = v := by
  simp only [hexToUint32, uint32ToHex, hexAt, List.getD_cons_zero, List.getD_cons_succ, pair_inv,
    ofLanes_lanes32]

theorem uint64_hex_inverse (v : BitVec 64) : hexToUint64 (uint64ToHex v) = v := by
  simp only [hexToUint64, uint64ToHex, hexAt, List.getD_cons_zero, List.getD_cons_succ, pair_inv,
    ofLanes_lanes64]

/-! … and `uintN_to_hex (hex_to_uintN t) = t` for every text `t` of `2·sizeof`
upper-case hex digits (everything `uintN_to_hex` can produce, see
`uintN_hex_alphabet`) -/

theorem hex_uint8_inverse (t : List Byte) (hc : ∀ c ∈ t, IsUpperHex c) (hl : t.length = 2) :
    uint8ToHex (hexToUint8 t) = t := by
  match t, hl with
  | [c0, c1], _ =>
    have p0 := digits_of_pair c0 c1 (hc _ (by simp)) (hc _ (by simp))
    simp only [hexToUint8, uint8ToHex, hexAt, List.getD_cons_zero, List.getD_cons_succ, p0]

theorem hex_uint16_inverse (t : List Byte) (hc : ∀ c ∈ t, IsUpperHex c) (hl : t.length = 4) :
    uint16ToHex (hexToUint16 t) = t := by
  match t, hl with
  | [c0, c1, c2, c3], _ =>
    have p0 := digits_of_pair c0 c1 (hc _ (by simp)) (hc _ (by simp))
    have p1 := digits_of_pair c2 c3 (hc _ (by simp)) (hc _ (by simp))
    simp only [hexToUint16, uint16ToHex, hexAt, List.getD_cons_zero, List.getD_cons_succ,
      (lane_ofLanes16 _ _).1, (lane_ofLanes16 _ _).2, p0, p1]

theorem hex_uint32_inverse (t : List Byte) (hc : ∀ c ∈ t, IsUpperHex c) (hl : t.length = 8) :
    uint32ToHex (hexToUint32 t) = t := by
  match t, hl with
  | [c0, c1, c2, c3, c4, c5, c6, c7], _ =>
    have p0 := digits_of_pair c0 c1 (hc _ (by simp)) (hc _ (by simp))
    have p1 := digits_of_pair c2 c3 (hc _ (by simp)) (hc _ (by simp))
    have p2 := digits_of_pair c4 c5 (hc _ (by simp)) (hc _ (by simp))
    have p3 := digits_of_pair c6 c7 (hc _ (by simp)) (hc _ (by simp))
    obtain ⟨l0, l1, l2, l3⟩ := lane_ofLanes32 (hex2byte c6 c7) (hex2byte c4 c5) (hex2byte c2 c3) (hex2byte c0 c1)
    simp only [hexToUint32, uint32ToHex, hexAt, List.getD_cons_zero, List.getD_cons_succ,
      l0, l1, l2, l3, p0, p1, p2, p3]

theorem hex_uint64_inverse (t : List Byte) (hc : ∀ c ∈ t, IsUpperHex c) (hl : t.length = 16) :
    uint64ToHex (hexToUint64 t) = t := by
  match t, hl with
  | [c0, c1, c2, c3, c4, c5, c6, c7, c8, c9, c10, c11, c12, c13, c14, c15], _ =>
    have p0 := digits_of_pair c0 c1 (hc _ (by simp)) (hc _ (by simp))
    have p1 := digits_of_pair c2 c3 (hc _ (by simp)) (hc _ (by simp))
    have p2 := digits_of_pair c4 c5 (hc _ (by simp)) (hc _ (by simp))
    have p3 := digits_of_pair c6 c7 (hc _ (by simp)) (hc _ (by simp))
    have p4 := digits_of_pair c8 c9 (hc _ (by simp)) (hc _ (by simp))
    have p5 := digits_of_pair c10 c11 (hc _ (by simp)) (hc _ (by simp))
    have p6 := digits_of_pair c12 c13 (hc _ (by simp)) (hc _ (by simp))
    have p7 := digits_of_pair c14 c15 (hc _ (by simp)) (hc _ (by simp))
    obtain ⟨l0, l1, l2, l3, l4, l5, l6, l7⟩ := lane_ofLanes64 (hex2byte c14 c15) (hex2byte c12 c13)
      (hex2byte c10 c11) (hex2byte c8 c9) (hex2byte c6 c7) (hex2byte c4 c5) (hex2byte c2 c3) (hex2byte c0 c1)
    simp only [hexToUint64, uint64ToHex, hexAt, List.getD_cons_zero, List.getD_cons_succ,
      l0, l1, l2, l3, l4, l5, l6, l7, p0, p1, p2, p3, p4, p5, p6, p7]

/-- what `uintN_to_hex` writes: `2·sizeof` characters, all in `0-9A-F`
(so the hypotheses of `hex_uintN_inverse` hold for every encoder output) -/
theorem uint8ToHex_alphabet (v : BitVec 8) :
    (uint8ToHex v).length = 2 ∧ ∀ c ∈ uint8ToHex v, IsUpperHex c := by
  refine ⟨by simp [uint8ToHex], ?_⟩
  simp only [uint8ToHex, half_hi, half_lo, List.forall_mem_cons, (enc_upper _).1, (enc_upper _).2, true_and]
  simp

theorem uint16ToHex_alphabet (v : BitVec 16) :
    (uint16ToHex v).length = 4 ∧ ∀ c ∈ uint16ToHex v, IsUpperHex c := by
  refine ⟨by simp [uint16ToHex], ?_⟩
  simp only [uint16ToHex, half_hi, half_lo, List.forall_mem_cons, (enc_upper _).1, (enc_upper _).2, true_and]
  simp

theorem uint32ToHex_alphabet (v : BitVec 32) :
    (uint32ToHex v).length = 8 ∧ ∀ c ∈ uint32ToHex v, IsUpperHex c := by
  refine ⟨by simp [uint32ToHex], ?_⟩
  simp only [uint32ToHex, half_hi, half_lo, List.forall_mem_cons, (enc_upper _).1, (enc_upper _).2, true_and]
  simp

theorem uint64ToHex_alphabet (v : BitVec 64) :
    (uint64ToHex v).length = 16 ∧ ∀ c ∈ uint64ToHex v, IsUpperHex c := by
  refine ⟨by simp [uint64ToHex], ?_⟩
  simp only [uint64ToHex, half_hi, half_lo, List.forall_mem_cons, (enc_upper _).1, (enc_upper _).2, true_and]
  simp


/-- `uintN_to_hex` writes the `2·sizeof` upper-case hex digits of the value,
most significant first (independent of the byte-lane macros) -/
theorem uint8ToHex_eq_spec (v : BitVec 8) : uint8ToHex v = hexOfNumber 2 v.toNat := by
  have h0 : v = lane v 0 := by simp [lane]
  rw [uint8ToHex, h0, digit_hi, digit_lo]
  simp [hexOfNumber, List.range_succ, lane]

theorem uint16ToHex_eq_spec (v : BitVec 16) : uint16ToHex v = hexOfNumber 4 v.toNat := by
  simp [uint16ToHex, digit_hi, digit_lo, hexOfNumber, List.range_succ]

theorem uint32ToHex_eq_spec (v : BitVec 32) : uint32ToHex v = hexOfNumber 8 v.toNat := by
  simp [uint32ToHex, digit_hi, digit_lo, hexOfNumber, List.range_succ]

theorem uint64ToHex_eq_spec (v : BitVec 64) : uint64ToHex v = hexOfNumber 16 v.toNat := by
  simp [uint64ToHex, digit_hi, digit_lo, hexOfNumber, List.range_succ]

/-! ## base64 -/

/-- the table compiled into base64.cpp is RFC 4648 table 1 followed by `=` -/
theorem charset_is_rfc : charset = stdAlphabet.map ch ++ [padChar] := charset_eq

/-- `base64_encode` = RFC 4648 §4 (6-bit regrouping of the bit string, `=` padding) -/
theorem b64Encode_eq_rfc : ∀ data : List Byte, b64Encode data = base64 data
  | a :: b :: c :: rest => by
    rw [b64Encode, base64, encodeWith_triple, ← base64, ← b64Encode_eq_rfc rest, e0_spec, e1_spec, e2_spec, e3_spec]
  | [a, b] => by
    rw [b64Encode, base64, encodeWith_two, e0_spec, e1_spec, e2t_spec, csAt64]
  | [a] => by
    rw [b64Encode, base64, encodeWith_one, e0_spec, e1t_spec, csAt64]
  | [] => by
    rw [b64Encode, base64, encodeWith_nil]

/-- `base64url_encode` = RFC 4648 §5 (url-safe alphabet, padding kept) -/
theorem b64urlEncode_eq_rfc : ∀ data : List Byte, b64urlEncode data = base64url data
  | a :: b :: c :: rest => by
    have ih := b64urlEncode_eq_rfc rest
    simp only [b64urlEncode] at ih ⊢
    rw [b64Encode, base64url, encodeWith_triple, ← base64url, ← ih, e0_spec, e1_spec, e2_spec, e3_spec]
    simp only [List.map_cons, urlSubst_letter]
  | [a, b] => by
    rw [b64urlEncode, b64Encode, base64url, encodeWith_two, e0_spec, e1_spec, e2t_spec, csAt64]
    simp only [List.map_cons, List.map_nil, urlSubst_letter, urlSubst_pad]
  | [a] => by
    rw [b64urlEncode, b64Encode, base64url, encodeWith_one, e0_spec, e1t_spec, csAt64]
    simp only [List.map_cons, List.map_nil, urlSubst_letter, urlSubst_pad]
  | [] => by
    rw [b64urlEncode, b64Encode, base64url, encodeWith_nil]; rfl

/-- the encoded text has exactly `4·⌈n/3⌉` characters -/
theorem b64Encode_length : ∀ data : List Byte, (b64Encode data).length = 4 * ((data.length + 2) / 3)
  | a :: b :: c :: rest => by
    simp only [b64Encode, List.length_cons, b64Encode_length rest]; omega
  | [a, b] => by simp [b64Encode]
  | [a] => by simp [b64Encode]
  | [] => by simp [b64Encode]

theorem b64urlEncode_length (data : List Byte) : (b64urlEncode data).length = 4 * ((data.length + 2) / 3) := by
  rw [b64urlEncode, List.length_map, b64Encode_length]

/-- only RFC 4648 letters and `=` -/
theorem b64Encode_alphabet : ∀ data : List Byte, ∀ x ∈ b64Encode data, InAlphabet stdAlphabet x
  | a :: b :: c :: rest => by
    rw [b64Encode, e0_spec, e1_spec, e2_spec, e3_spec]
    simp only [List.forall_mem_cons, letter_in_std, true_and]
    exact b64Encode_alphabet rest
  | [a, b] => by
    rw [b64Encode, e0_spec, e1_spec, e2t_spec, csAt64]
    simp [letter_in_std, pad_in]
  | [a] => by
    rw [b64Encode, e0_spec, e1t_spec, csAt64]
    simp [letter_in_std, pad_in]
  | [] => by simp [b64Encode]

/-- url-safe: only `A-Za-z0-9-_` and `=` -/
theorem b64urlEncode_alphabet (data : List Byte) : ∀ x ∈ b64urlEncode data, InAlphabet urlAlphabet x := by
  rw [b64urlEncode_eq_rfc]
  induction data using b64Encode.induct with
  | case1 a b c rest ih =>
    rw [base64url, encodeWith_triple]
    simp only [List.forall_mem_cons, letter_in_url, true_and]
    exact ih
  | case2 a b => rw [base64url, encodeWith_two]; simp [letter_in_url, pad_in]
  | case3 a => rw [base64url, encodeWith_one]; simp [letter_in_url, pad_in]
  | case4 => simp [base64url, encodeWith_nil]

/-- decoding the encoder's output appends exactly the data to what was decoded before -/
theorem b64_decode_encode_from : ∀ (data ret : List Byte),
    decFinish (decLoop (b64Encode data) [] ret) = ret ++ data
  | a :: b :: c :: rest, ret => by
    rw [b64Encode, e0_spec, e1_spec, e2_spec, e3_spec,
      decLoop_quad _ _ _ _ _ _ (letter_ok ..) (letter_ok ..) (letter_ok ..) (letter_ok ..),
      decQuad_letters, b64_decode_encode_from rest]
    simp
  | [a, b], ret => by
    rw [b64Encode, e0_spec, e1_spec, e2t_spec, csAt64, pad_is_3D]
    rw [decLoop_ok _ _ _ _ (letter_ok ..).1 (letter_ok ..).2]; simp only [List.nil_append, List.length_cons, List.length_nil]
    rw [if_neg (by decide), decLoop_ok _ _ _ _ (letter_ok ..).1 (letter_ok ..).2]
    simp only [List.cons_append, List.nil_append, List.length_cons, List.length_nil]
    rw [if_neg (by decide), decLoop_ok _ _ _ _ (letter_ok ..).1 (letter_ok ..).2]
    simp only [List.cons_append, List.nil_append, List.length_cons, List.length_nil]
    rw [if_neg (by decide), decLoop_pad]
    simp only [decFinish, List.length_cons, List.length_nil, decQuad, dec3, List.map_cons, List.map_nil,
      List.replicate, List.cons_append, List.nil_append,
      List.getD_cons_zero, List.getD_cons_succ, (letter_facts _ _ _ _ _ _).1, dec3_0, dec3_1_tail,
      byteOfBits_byteBits]
    simp
  | [a], ret => by
    rw [b64Encode, e0_spec, e1t_spec, csAt64, pad_is_3D]
    rw [decLoop_ok _ _ _ _ (letter_ok ..).1 (letter_ok ..).2]; simp only [List.nil_append, List.length_cons, List.length_nil]
    rw [if_neg (by decide), decLoop_ok _ _ _ _ (letter_ok ..).1 (letter_ok ..).2]
    simp only [List.cons_append, List.nil_append, List.length_cons, List.length_nil]
    rw [if_neg (by decide), decLoop_pad]
    simp only [decFinish, List.length_cons, List.length_nil, decQuad, dec3, List.map_cons, List.map_nil,
      List.replicate, List.cons_append, List.nil_append,
      List.getD_cons_zero, List.getD_cons_succ, (letter_facts _ _ _ _ _ _).1, dec3_0,
      byteOfBits_byteBits]
    simp
  | [], ret => by
    simp [b64Encode, decLoop, decFinish]

/-- `base64_decode(base64_encode(x)) = x` for every byte string -/
theorem b64_roundtrip (data : List Byte) : b64Decode (b64Encode data) = data := by
  rw [b64Decode, b64_decode_encode_from]; rfl

/-- `base64url_decode(base64url_encode(x)) = x` for every byte string
(after `fix: base64url_decode decodes`) -/
theorem b64url_roundtrip (data : List Byte) : b64urlDecode (b64urlEncode data) = data := by
  rw [b64urlDecode, b64urlEncode, List.map_map]
  have : (b64Encode data).map (urlUnsubst ∘ urlSubst) = b64Encode data := by
    conv => rhs; rw [← List.map_id (b64Encode data)]
    apply List.map_congr_left
    intro x hx
    exact urlUnsubst_subst x (b64Encode_alphabet data x hx)
  rw [this, b64_roundtrip]

/-- historical: on the unchanged tree `base64url_decode` called the encoder -/
theorem b64urlDecodeOrig_witness : b64urlDecodeOrig (b64urlEncode [0#8]) ≠ [0#8] := by decide +kernel

/-- anchors for the specification itself: the RFC 4648 §10 test vectors -/
theorem rfc4648_test_vectors :
    base64 [] = [] ∧
    base64 ("f".toList.map ch) = "Zg==".toList.map ch ∧
    base64 ("fo".toList.map ch) = "Zm8=".toList.map ch ∧
    base64 ("foo".toList.map ch) = "Zm9v".toList.map ch ∧
    base64 ("foob".toList.map ch) = "Zm9vYg==".toList.map ch ∧
    base64 ("fooba".toList.map ch) = "Zm9vYmE=".toList.map ch ∧
    base64 ("foobar".toList.map ch) = "Zm9vYmFy".toList.map ch ∧
    base64url [0xfb#8, 0xff#8] = "-_8=".toList.map ch := by decide +kernel

end Igris.C18
