/-
  C18 extension — lemmas for: hex2half on every character, case-insensitive
  decoders, the decoders on arbitrary text, the memory-checked forms.
-/
import IgrisModel.C18.Lemmas
namespace Igris.C18
open Igris.Proto Spec

/-! ## hex2half on all 256 characters -/

theorem hex2half_half2hex' : ∀ n : Byte, n.toNat < 16 → hex2half (half2hex n) = n := by decide +kernel

theorem hex2half_hexVal : ∀ c : Byte, ∀ v, hexVal c = some v → (hex2half c).toNat = v := by
  have h : ∀ c : Byte, (hexVal c).all (fun v => (hex2half c).toNat == v) = true := by
    decide +kernel
  intro c v hv
  have := h c
  rw [hv] at this
  simpa using this

theorem hex2half_exact' : ∀ c : Byte, (hex2half c).toNat =
    if 128 ≤ c.toNat ∨ c.toNat ≤ 0x39 then (c.toNat + 256 - 48) % 256
    else if 0x61 ≤ c.toNat then c.toNat - 87 else c.toNat - 55 := by decide +kernel

theorem hex2half_lt16' : ∀ c : Byte,
    ((hex2half c).toNat < 16) = ((hexVal c).isSome ∨ (0x3A ≤ c.toNat ∧ c.toNat ≤ 0x40)) := by
  decide +kernel

theorem hex2half_lower : ∀ c : Byte, hex2half (asciiLower c) = hex2half c := by decide +kernel
theorem hex2half_upper : ∀ c : Byte, hex2half (asciiUpper c) = hex2half c := by decide +kernel

theorem hex2byte_lower (hi lo : Byte) : hex2byte (asciiLower hi) (asciiLower lo) = hex2byte hi lo := by
  simp only [hex2byte, hex2half_lower]

theorem asciiLower_zero : asciiLower 0#8 = 0#8 := by decide

theorem decPairs_lower : ∀ s : List Byte, decPairs (s.map asciiLower) = decPairs s
  | [] => rfl
  | [_] => by simp [decPairs]
  | a :: b :: rest => by
    simp only [List.map_cons, decPairs, hex2byte_lower, decPairs_lower rest]

theorem hexAt_lower (t : List Byte) (i : Nat) : hexAt (t.map asciiLower) i = hexAt t i := by
  have h : ∀ k, (t.map asciiLower).getD k 0#8 = asciiLower (t.getD k 0#8) := by
    intro k
    simp only [List.getD_eq_getElem?_getD, List.getElem?_map]
    cases t[k]? <;> simp [asciiLower_zero]
  simp only [hexAt, h, hex2byte_lower]

/-- value of two hex digits = the byte the decoder builds -/
theorem hex2byte_hexVal : ∀ m n : Fin 22,
    let ds := (hexDigits ++ ['a', 'b', 'c', 'd', 'e', 'f']).map ch
    hex2byte (ds.getD m 0#8) (ds.getD n 0#8)
      = BitVec.ofNat 8 (16 * (hexVal (ds.getD m 0#8)).getD 0 + (hexVal (ds.getD n 0#8)).getD 0) := by
  decide +kernel

theorem hexVal_some_mem : ∀ c : Byte, (hexVal c).isSome = true →
    ∃ m : Fin 22, ((hexDigits ++ ['a', 'b', 'c', 'd', 'e', 'f']).map ch).getD m 0#8 = c := by
  have h : ∀ c : Byte, (hexVal c).isSome = true →
      (List.finRange 22).any (fun m => ((hexDigits ++ ['a', 'b', 'c', 'd', 'e', 'f']).map ch).getD m 0#8 == c) = true := by
    decide +kernel
  intro c hc
  have := h c hc
  simp only [List.any_eq_true, beq_iff_eq] at this
  obtain ⟨m, _, hm⟩ := this
  exact ⟨m, hm⟩

theorem hex2byte_spec (hi lo : Byte) (h1 : (hexVal hi).isSome = true) (h2 : (hexVal lo).isSome = true) :
    hex2byte hi lo = BitVec.ofNat 8 (16 * (hexVal hi).getD 0 + (hexVal lo).getD 0) := by
  obtain ⟨m, rfl⟩ := hexVal_some_mem hi h1
  obtain ⟨n, rfl⟩ := hexVal_some_mem lo h2
  exact hex2byte_hexVal m n

theorem decPairs_spec : ∀ s : List Byte, (∀ c ∈ s, (hexVal c).isSome = true) → decPairs s = bytesOfHex s
  | [], _ => rfl
  | [_], _ => rfl
  | a :: b :: rest, hc => by
    have hr : ∀ c ∈ rest, (hexVal c).isSome = true := fun c h => hc c (by simp [h])
    simp only [decPairs, bytesOfHex, hex2byte_spec a b (hc a (by simp)) (hc b (by simp)), decPairs_spec rest hr]

theorem decPairs_snoc_even : ∀ (s : List Byte) (c : Byte), s.length % 2 = 0 → decPairs (s ++ [c]) = decPairs s
  | [], _, _ => rfl
  | [_], _, h => by simp at h
  | a :: b :: rest, c, h => by
    have hr : rest.length % 2 = 0 := by simp only [List.length_cons] at h; omega
    simp only [List.cons_append, decPairs, decPairs_snoc_even rest c hr]

/-! ## small list / integer facts -/

theorem tmod_nat (n : Nat) : (n : Int).tmod 2 = ((n % 2 : Nat) : Int) := rfl

/-- the `size` the pair loop runs to, for `size ≤ 1` -/
theorem evened_le_one (size : Int) (h : size ≤ 1) : (if size.tmod 2 = 1 then size - 1 else size) ≤ 0 := by
  by_cases h1 : size = 1
  · subst h1; decide
  · split <;> omega

/-- … and for a natural `size ≥ 2` -/
theorem evened_nat (n : Nat) (h : 2 ≤ n) :
    ¬ ((if (n : Int).tmod 2 = 1 then (n : Int) - 1 else (n : Int)) ≤ 0) ∧
    (if (n : Int).tmod 2 = 1 then (n : Int) - 1 else (n : Int)).toNat / 2 = n / 2 := by
  rw [tmod_nat]
  split <;> constructor <;> omega

theorem mem_takeWhile_true {α} (p : α → Bool) : ∀ (l : List α) (x : α), x ∈ l.takeWhile p → p x = true
  | [], x, h => by simp at h
  | a :: l, x, h => by
    rw [List.takeWhile_cons] at h
    split at h
    · rename_i ha
      rcases List.mem_cons.mp h with h | h
      · rw [h]; exact ha
      · exact mem_takeWhile_true p l x h
    · simp at h

theorem takeWhile_all {α} (p : α → Bool) : ∀ (l : List α), (∀ x ∈ l, p x = true) → l.takeWhile p = l
  | [], _ => rfl
  | a :: l, h => by
    rw [List.takeWhile_cons, if_pos (h a (by simp)), takeWhile_all p l (fun x hx => h x (by simp [hx]))]

theorem takeWhile_stop {α} (p : α → Bool) (c : α) (rest : List α) (hc : p c = false) :
    ∀ (l : List α), (∀ x ∈ l, p x = true) → (l ++ c :: rest).takeWhile p = l
  | [], _ => by simp [List.takeWhile_cons, hc]
  | a :: l, h => by
    rw [List.cons_append, List.takeWhile_cons, if_pos (h a (by simp)),
      takeWhile_stop p c rest hc l (fun x hx => h x (by simp [hx]))]

/-! ## hexascii_decode with an explicit `int size` on mapped buffers -/

/-- the checked pair loop, when everything it touches is mapped, is the
unchecked one on the `2n` characters from `it` -/
theorem decPairsM_ok (cs : List Byte) (cap : Nat) : ∀ (n it k : Nat) (acc : List Byte),
    it + 2 * n ≤ cs.length → k + n ≤ cap →
    decPairsM cs cap n it k acc = some (acc ++ decPairs ((cs.drop it).take (2 * n)))
  | 0, it, k, acc, _, _ => by simp [decPairsM, decPairs]
  | n + 1, it, k, acc, h1, h2 => by
    have l0 : it < cs.length := by omega
    have l1 : it + 1 < cs.length := by omega
    have hd : cs.drop it = cs[it] :: cs[it + 1] :: cs.drop (it + 2) := by
      rw [List.drop_eq_getElem_cons l0, List.drop_eq_getElem_cons l1]
    rw [decPairsM, List.getElem?_eq_getElem l0, List.getElem?_eq_getElem l1]
    simp only
    rw [if_pos (by omega), decPairsM_ok cs cap n (it + 2) (k + 1) _ (by omega) (by omega), hd]
    have : 2 * (n + 1) = 2 * n + 1 + 1 := by omega
    rw [this]
    simp only [List.take_succ_cons, decPairs, List.append_assoc, List.cons_append, List.nil_append]

/-- it faults as soon as one of the `2n` characters or `n` output bytes is not mapped -/
theorem decPairsM_fault (cs : List Byte) (cap : Nat) : ∀ (n it k : Nat) (acc : List Byte),
    it ≤ cs.length → k ≤ cap → cs.length < it + 2 * n ∨ cap < k + n → decPairsM cs cap n it k acc = none
  | 0, it, k, acc, _, _, h => by omega
  | n + 1, it, k, acc, _, _, h => by
    rw [decPairsM]
    by_cases l1 : it + 1 < cs.length
    · have l0 : it < cs.length := by omega
      rw [List.getElem?_eq_getElem l0, List.getElem?_eq_getElem l1]
      simp only
      by_cases hk : k < cap
      · rw [if_pos hk]
        exact decPairsM_fault cs cap n (it + 2) (k + 1) _ (by omega) (by omega) (by omega)
      · rw [if_neg hk]
    · have e1 : cs[it + 1]? = none := List.getElem?_eq_none (by omega)
      rw [e1]
      cases cs[it]? <;> rfl

/-! ## base64_decode on arbitrary text -/

/-- the loop test of `base64_decode` = "is a letter of RFC table 1" -/
theorem loopTest_iff : ∀ c : Byte,
    (c == 0x3D#8 || !isBase64 c) = !(letterVal stdAlphabet c).isSome := by decide +kernel

/-- a letter is the letter of its own six bits -/
theorem letter_of_bits : ∀ c : Byte, (letterVal stdAlphabet c).isSome = true →
    letter stdAlphabet
      [((letterVal stdAlphabet c).getD 0).testBit 5, ((letterVal stdAlphabet c).getD 0).testBit 4,
       ((letterVal stdAlphabet c).getD 0).testBit 3, ((letterVal stdAlphabet c).getD 0).testBit 2,
       ((letterVal stdAlphabet c).getD 0).testBit 1, ((letterVal stdAlphabet c).getD 0).testBit 0] = c := by
  decide +kernel

theorem decLoop_takeWhile : ∀ (s arr ret : List Byte),
    decLoop s arr ret = decLoop (lettersPrefix stdAlphabet s) arr ret
  | [], arr, ret => rfl
  | c :: rest, arr, ret => by
    by_cases h : (letterVal stdAlphabet c).isSome = true
    · have ht : (c == 0x3D#8 || !isBase64 c) = false := by rw [loopTest_iff, h]; rfl
      simp only [lettersPrefix, List.takeWhile_cons, h, if_true]
      simp only [decLoop, ht, Bool.false_eq_true, if_false]
      split
      · exact decLoop_takeWhile rest [] _
      · exact decLoop_takeWhile rest _ ret
    · have ht : (c == 0x3D#8 || !isBase64 c) = true := by rw [loopTest_iff]; simp at h; simp [h]
      simp only [lettersPrefix, List.takeWhile_cons, h]
      simp [decLoop, ht]

theorem passes (c : Byte) (h : (letterVal stdAlphabet c).isSome = true) :
    (c == 0x3D#8) = false ∧ isBase64 c = true := by
  have := loopTest_iff c
  rw [h] at this
  simp only [Bool.not_true, Bool.or_eq_false_iff, Bool.not_eq_false'] at this
  exact this

/-- four letters → the three bytes of their 24 bits -/
theorem decQuad_bits (a0 a1 a2 a3 a4 a5 b0 b1 b2 b3 b4 b5 c0 c1 c2 c3 c4 c5 d0 d1 d2 d3 d4 d5 : Bool) :
    decQuad [letter stdAlphabet [a0, a1, a2, a3, a4, a5], letter stdAlphabet [b0, b1, b2, b3, b4, b5],
             letter stdAlphabet [c0, c1, c2, c3, c4, c5], letter stdAlphabet [d0, d1, d2, d3, d4, d5]]
      = bytesOfBits [a0, a1, a2, a3, a4, a5, b0, b1, b2, b3, b4, b5, c0, c1, c2, c3, c4, c5, d0, d1, d2, d3, d4, d5] := by
  simp only [decQuad, dec3, List.map_cons, List.map_nil, List.getD_cons_zero, List.getD_cons_succ,
    (letter_facts _ _ _ _ _ _).1, dec3_0, dec3_1, dec3_2, bytesOfBits, byteOfBits]

/-- three letters and a zero-filled slot: two bytes -/
theorem decQuad_bits3 (a0 a1 a2 a3 a4 a5 b0 b1 b2 b3 b4 b5 c0 c1 c2 c3 c4 c5 : Bool) :
    (decQuad [letter stdAlphabet [a0, a1, a2, a3, a4, a5], letter stdAlphabet [b0, b1, b2, b3, b4, b5],
             letter stdAlphabet [c0, c1, c2, c3, c4, c5], 0#8]).take 2
      = bytesOfBits [a0, a1, a2, a3, a4, a5, b0, b1, b2, b3, b4, b5, c0, c1, c2, c3, c4, c5] := by
  simp only [decQuad, dec3, List.map_cons, List.map_nil, List.getD_cons_zero, List.getD_cons_succ,
    (letter_facts _ _ _ _ _ _).1, dec3_0, dec3_1, bytesOfBits, byteOfBits, List.take_succ_cons, List.take_zero]

/-- two letters and two zero-filled slots: one byte -/
theorem decQuad_bits2 (a0 a1 a2 a3 a4 a5 b0 b1 b2 b3 b4 b5 : Bool) :
    (decQuad [letter stdAlphabet [a0, a1, a2, a3, a4, a5], letter stdAlphabet [b0, b1, b2, b3, b4, b5],
             0#8, 0#8]).take 1
      = bytesOfBits [a0, a1, a2, a3, a4, a5, b0, b1, b2, b3, b4, b5] := by
  simp only [decQuad, dec3, List.map_cons, List.map_nil, List.getD_cons_zero, List.getD_cons_succ,
    (letter_facts _ _ _ _ _ _).1, dec3_0, bytesOfBits, byteOfBits, List.take_succ_cons, List.take_zero]

theorem bytesOfBits_24 (a0 a1 a2 a3 a4 a5 a6 a7 b0 b1 b2 b3 b4 b5 b6 b7 c0 c1 c2 c3 c4 c5 c6 c7 : Bool) (rest : List Bool) :
    bytesOfBits (a0 :: a1 :: a2 :: a3 :: a4 :: a5 :: a6 :: a7 :: b0 :: b1 :: b2 :: b3 :: b4 :: b5 :: b6 :: b7 ::
                 c0 :: c1 :: c2 :: c3 :: c4 :: c5 :: c6 :: c7 :: rest)
      = bytesOfBits [a0, a1, a2, a3, a4, a5, a6, a7, b0, b1, b2, b3, b4, b5, b6, b7, c0, c1, c2, c3, c4, c5, c6, c7]
        ++ bytesOfBits rest := by
  simp [bytesOfBits]

/-- the decoder on a text of letters: the whole bytes of the letters' bits -/
theorem decode_letters : ∀ (p ret : List Byte), (∀ c ∈ p, (letterVal stdAlphabet c).isSome = true) →
    decFinish (decLoop p [] ret) = ret ++ bytesOfBits (p.flatMap (letterBits stdAlphabet))
  | x0 :: x1 :: x2 :: x3 :: rest, ret, h => by
    have h0 := h x0 (by simp); have h1 := h x1 (by simp); have h2 := h x2 (by simp); have h3 := h x3 (by simp)
    have hr : ∀ c ∈ rest, (letterVal stdAlphabet c).isSome = true := fun c hc => h c (by simp [hc])
    rw [decLoop_quad _ _ _ _ _ _ (passes _ h0) (passes _ h1) (passes _ h2) (passes _ h3), decode_letters rest _ hr]
    have q := decQuad_bits
      (((letterVal stdAlphabet x0).getD 0).testBit 5) (((letterVal stdAlphabet x0).getD 0).testBit 4)
      (((letterVal stdAlphabet x0).getD 0).testBit 3) (((letterVal stdAlphabet x0).getD 0).testBit 2)
      (((letterVal stdAlphabet x0).getD 0).testBit 1) (((letterVal stdAlphabet x0).getD 0).testBit 0)
      (((letterVal stdAlphabet x1).getD 0).testBit 5) (((letterVal stdAlphabet x1).getD 0).testBit 4)
      (((letterVal stdAlphabet x1).getD 0).testBit 3) (((letterVal stdAlphabet x1).getD 0).testBit 2)
      (((letterVal stdAlphabet x1).getD 0).testBit 1) (((letterVal stdAlphabet x1).getD 0).testBit 0)
      (((letterVal stdAlphabet x2).getD 0).testBit 5) (((letterVal stdAlphabet x2).getD 0).testBit 4)
      (((letterVal stdAlphabet x2).getD 0).testBit 3) (((letterVal stdAlphabet x2).getD 0).testBit 2)
      (((letterVal stdAlphabet x2).getD 0).testBit 1) (((letterVal stdAlphabet x2).getD 0).testBit 0)
      (((letterVal stdAlphabet x3).getD 0).testBit 5) (((letterVal stdAlphabet x3).getD 0).testBit 4)
      (((letterVal stdAlphabet x3).getD 0).testBit 3) (((letterVal stdAlphabet x3).getD 0).testBit 2)
      (((letterVal stdAlphabet x3).getD 0).testBit 1) (((letterVal stdAlphabet x3).getD 0).testBit 0)
    rw [letter_of_bits x0 h0, letter_of_bits x1 h1, letter_of_bits x2 h2, letter_of_bits x3 h3] at q
    rw [q]
    simp only [List.flatMap_cons, letterBits, List.cons_append, List.nil_append]
    conv => rhs; rw [bytesOfBits_24]
    rw [List.append_assoc]
  | [x0, x1, x2], ret, h => by
    have h0 := h x0 (by simp); have h1 := h x1 (by simp); have h2 := h x2 (by simp)
    rw [decLoop_ok _ _ _ _ (passes _ h0).1 (passes _ h0).2]; simp only [List.nil_append, List.length_cons, List.length_nil]
    rw [if_neg (by decide), decLoop_ok _ _ _ _ (passes _ h1).1 (passes _ h1).2]
    simp only [List.cons_append, List.nil_append, List.length_cons, List.length_nil]
    rw [if_neg (by decide), decLoop_ok _ _ _ _ (passes _ h2).1 (passes _ h2).2]
    simp only [List.cons_append, List.nil_append, List.length_cons, List.length_nil]
    rw [if_neg (by decide)]
    have q := decQuad_bits3
      (((letterVal stdAlphabet x0).getD 0).testBit 5) (((letterVal stdAlphabet x0).getD 0).testBit 4)
      (((letterVal stdAlphabet x0).getD 0).testBit 3) (((letterVal stdAlphabet x0).getD 0).testBit 2)
      (((letterVal stdAlphabet x0).getD 0).testBit 1) (((letterVal stdAlphabet x0).getD 0).testBit 0)
      (((letterVal stdAlphabet x1).getD 0).testBit 5) (((letterVal stdAlphabet x1).getD 0).testBit 4)
      (((letterVal stdAlphabet x1).getD 0).testBit 3) (((letterVal stdAlphabet x1).getD 0).testBit 2)
      (((letterVal stdAlphabet x1).getD 0).testBit 1) (((letterVal stdAlphabet x1).getD 0).testBit 0)
      (((letterVal stdAlphabet x2).getD 0).testBit 5) (((letterVal stdAlphabet x2).getD 0).testBit 4)
      (((letterVal stdAlphabet x2).getD 0).testBit 3) (((letterVal stdAlphabet x2).getD 0).testBit 2)
      (((letterVal stdAlphabet x2).getD 0).testBit 1) (((letterVal stdAlphabet x2).getD 0).testBit 0)
    rw [letter_of_bits x0 h0, letter_of_bits x1 h1, letter_of_bits x2 h2] at q
    simp only [decLoop, decFinish, List.length_cons, List.length_nil, List.replicate, List.cons_append, List.nil_append]
    simp only [show 0 + 1 + 1 + 1 - 1 = 2 by rfl, show (0 + 1 + 1 + 1 = 0) = False by simp, if_false, q]
    simp only [List.flatMap_cons, List.flatMap_nil, letterBits, List.cons_append, List.nil_append, List.append_nil]
  | [x0, x1], ret, h => by
    have h0 := h x0 (by simp); have h1 := h x1 (by simp)
    rw [decLoop_ok _ _ _ _ (passes _ h0).1 (passes _ h0).2]; simp only [List.nil_append, List.length_cons, List.length_nil]
    rw [if_neg (by decide), decLoop_ok _ _ _ _ (passes _ h1).1 (passes _ h1).2]
    simp only [List.cons_append, List.nil_append, List.length_cons, List.length_nil]
    rw [if_neg (by decide)]
    have q := decQuad_bits2
      (((letterVal stdAlphabet x0).getD 0).testBit 5) (((letterVal stdAlphabet x0).getD 0).testBit 4)
      (((letterVal stdAlphabet x0).getD 0).testBit 3) (((letterVal stdAlphabet x0).getD 0).testBit 2)
      (((letterVal stdAlphabet x0).getD 0).testBit 1) (((letterVal stdAlphabet x0).getD 0).testBit 0)
      (((letterVal stdAlphabet x1).getD 0).testBit 5) (((letterVal stdAlphabet x1).getD 0).testBit 4)
      (((letterVal stdAlphabet x1).getD 0).testBit 3) (((letterVal stdAlphabet x1).getD 0).testBit 2)
      (((letterVal stdAlphabet x1).getD 0).testBit 1) (((letterVal stdAlphabet x1).getD 0).testBit 0)
    rw [letter_of_bits x0 h0, letter_of_bits x1 h1] at q
    simp only [decLoop, decFinish, List.length_cons, List.length_nil, List.replicate, List.cons_append, List.nil_append]
    simp only [show 0 + 1 + 1 - 1 = 1 by rfl, show (0 + 1 + 1 = 0) = False by simp, if_false, q]
    simp only [List.flatMap_cons, List.flatMap_nil, letterBits, List.cons_append, List.nil_append, List.append_nil]
  | [x0], ret, h => by
    have h0 := h x0 (by simp)
    rw [decLoop_ok _ _ _ _ (passes _ h0).1 (passes _ h0).2]; simp only [List.nil_append, List.length_cons, List.length_nil]
    rw [if_neg (by decide)]
    simp [decLoop, decFinish, letterBits, bytesOfBits]
  | [], ret, _ => by
    simp [decLoop, decFinish, bytesOfBits]

theorem bytesOfBits_length : ∀ bs : List Bool, (bytesOfBits bs).length = bs.length / 8
  | b0 :: b1 :: b2 :: b3 :: b4 :: b5 :: b6 :: b7 :: rest => by
    simp only [bytesOfBits, List.length_cons, bytesOfBits_length rest]; omega
  | [] => rfl
  | [_] => by simp [bytesOfBits]
  | [_, _] => by simp [bytesOfBits]
  | [_, _, _] => by simp [bytesOfBits]
  | [_, _, _, _] => by simp [bytesOfBits]
  | [_, _, _, _, _] => by simp [bytesOfBits]
  | [_, _, _, _, _, _] => by simp [bytesOfBits]
  | [_, _, _, _, _, _, _] => by simp [bytesOfBits]

theorem flatMap_letterBits_length (al : List Char) (p : List Byte) :
    (p.flatMap (letterBits al)).length = 6 * p.length := by
  induction p with
  | nil => rfl
  | cons c cs ih => simp only [List.flatMap_cons, List.length_append, ih, letterBits, List.length_cons, List.length_nil]; omega

/-! ## base64_decode: the array form never faults -/

/-- `strchr` finds every character that passed the loop test, and the NUL of the zero fill -/
theorem strchrM_found : ∀ c : Byte, ((letterVal stdAlphabet c).isSome || c == 0#8) = true →
    strchrM c = some (strchrIdx c) := by decide +kernel

theorem mapIdxM_ok : ∀ arr : List Byte, (∀ c ∈ arr, ((letterVal stdAlphabet c).isSome || c == 0#8) = true) →
    mapIdxM arr = some (arr.map strchrIdx)
  | [], _ => rfl
  | c :: cs, h => by
    rw [mapIdxM, strchrM_found c (h c (by simp)), mapIdxM_ok cs (fun x hx => h x (by simp [hx]))]
    rfl

theorem take_set_succ (l : List Byte) (i : Nat) (c : Byte) (h : i < l.length) :
    (l.set i c).take (i + 1) = l.take i ++ [c] := by
  induction l generalizing i with
  | nil => simp at h
  | cons x xs ih =>
    cases i with
    | zero => simp
    | succ j =>
      simp only [List.length_cons] at h
      simp [List.set_cons_succ, List.take_succ_cons, ih j (by omega)]

/-- simulation: the array loop follows the list loop; `arr` = the first `i` slots -/
theorem decLoopM_sim : ∀ (s : List Byte) (in_ : Nat) (arrM : List Byte) (i : Nat) (ret : List Byte),
    arrM.length = 4 → i < 4 → (∀ c ∈ arrM.take i, (letterVal stdAlphabet c).isSome = true) →
    in_ + s.length < 2 ^ 31 →
    ∃ arrM' i', decLoopM s in_ arrM i ret = some (arrM', i', (decLoop s (arrM.take i) ret).2) ∧
      (decLoop s (arrM.take i) ret).1 = arrM'.take i' ∧ i' < 4 ∧ arrM'.length = 4 ∧
      (∀ c ∈ arrM'.take i', (letterVal stdAlphabet c).isSome = true)
  | [], in_, arrM, i, ret, hl, hi, hok, _ => ⟨arrM, i, rfl, rfl, hi, hl, hok⟩
  | c :: rest, in_, arrM, i, ret, hl, hi, hok, hin => by
    by_cases h : (letterVal stdAlphabet c).isSome = true
    · have ht : (c == 0x3D#8 || !isBase64 c) = false := by rw [loopTest_iff, h]; rfl
      have hlen : (arrM.take i ++ [c]).length = i + 1 := by
        rw [List.length_append, List.length_take]; simp; omega
      have hset : (arrM.set i c).take (i + 1) = arrM.take i ++ [c] := take_set_succ arrM i c (by omega)
      have hsl : (arrM.set i c).length = 4 := by rw [List.length_set]; exact hl
      have hok' : ∀ x ∈ arrM.take i ++ [c], (letterVal stdAlphabet x).isSome = true := by
        intro x hx
        rcases List.mem_append.mp hx with hx | hx
        · exact hok x hx
        · simp at hx; rw [hx]; exact h
      simp only [List.length_cons] at hin
      rw [decLoopM, decLoop]
      simp only [ht, Bool.false_eq_true, if_false, hlen]
      rw [if_neg (by omega), if_neg (by omega)]
      by_cases h4 : i + 1 = 4
      · rw [if_pos h4, if_pos h4]
        have hfull : arrM.set i c = arrM.take i ++ [c] := by
          rw [← hset, h4, List.take_of_length_le (by omega)]
        have hm : mapIdxM (arrM.set i c) = some ((arrM.take i ++ [c]).map strchrIdx) := by
          rw [hfull]
          exact mapIdxM_ok _ (fun x hx => by rw [hok' x hx]; rfl)
        rw [hm]
        simp only
        have := decLoopM_sim rest (in_ + 1) ((arrM.take i ++ [c]).map strchrIdx) 0
          (ret ++ decQuad (arrM.take i ++ [c])) (by rw [List.length_map]; omega) (by omega)
          (by intro x hx; simp at hx) (by omega)
        simpa only [decQuad, List.take_zero] using this
      · rw [if_neg h4, if_neg h4]
        have := decLoopM_sim rest (in_ + 1) (arrM.set i c) (i + 1) ret hsl (by omega)
          (by rw [hset]; exact hok') (by omega)
        rw [hset] at this
        exact this
    · have ht : (c == 0x3D#8 || !isBase64 c) = true := by rw [loopTest_iff]; simp at h; simp [h]
      refine ⟨arrM, i, ?_, ?_, hi, hl, hok⟩
      · simp [decLoopM, decLoop, ht]
      · simp [decLoop, ht]

theorem decFinishM_sim (arrM : List Byte) (i : Nat) (ret : List Byte)
    (hl : arrM.length = 4) (hi : i < 4) (hok : ∀ c ∈ arrM.take i, (letterVal stdAlphabet c).isSome = true) :
    decFinishM arrM i ret = some (decFinish (arrM.take i, ret)) := by
  have hlen : (arrM.take i).length = i := by rw [List.length_take]; omega
  unfold decFinishM decFinish
  simp only [hlen]
  by_cases h0 : i = 0
  · simp [h0]
  · rw [if_neg h0, if_neg h0]
    have hz : zeroFrom arrM i = arrM.take i ++ List.replicate (4 - i) 0#8 := by rw [zeroFrom, hl]
    have hm : mapIdxM (zeroFrom arrM i) = some ((arrM.take i ++ List.replicate (4 - i) 0#8).map strchrIdx) := by
      rw [hz]
      apply mapIdxM_ok
      intro x hx
      rcases List.mem_append.mp hx with hx | hx
      · rw [hok x hx]; rfl
      · rw [(List.mem_replicate.mp hx).2]; decide
    rw [hm]
    simp only [decQuad]
    rw [if_pos (by simp [dec3]; omega)]

end Igris.C18
