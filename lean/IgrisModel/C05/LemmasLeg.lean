/-
  C05 — legacy receiver (after `fix: legacy gstuff receiver hunts for the start
  marker`): soundness invariant and the overflow clause.
-/
import IgrisModel.C05.Lemmas
namespace Igris.Gstuff
open Igris.Proto Igris.C17

/-- the legacy alphabet AC / AD / AE / AF written as a `Ctx` (start = stop); it is the V0 alphabet -/
def Ctx.leg : Ctx := ⟨legStart, legStart, legStub, legStubStart, legStubStart, legStubStub⟩

theorem Ctx.leg_eq_v0 : Ctx.leg = Ctx.v0 := by decide

/-- soundness invariant of the legacy receiver; `g` = raw bytes since the last marker -/
def LSound (r : LRecv) (g : Option (List Byte)) : Prop :=
  match r.state with
  | .l0 => g = some []
  | .l1 => ∃ since, g = some since ∧ unescPartial Ctx.leg since = some (r.line, false) ∧
            r.crc = strmcrc8 0xFF#8 r.line
  | .l2 => ∃ since, g = some since ∧ unescPartial Ctx.leg since = some (r.line, true) ∧
            r.crc = strmcrc8 0xFF#8 r.line
  | .l3 => True

theorem lputchar_fst_sound (st : LSt) (crc : BitVec 8) (line since : List Byte) (cap : Nat) (x : Byte)
    (hcrc : crc = strmcrc8 0xFF#8 line) (hu : unescPartial Ctx.leg since = some (line ++ [x], false)) :
    LSound (lputchar ⟨st, crc, line, cap⟩ x).1 (some since) := by
  unfold lputchar
  split
  · refine ⟨since, rfl, hu, ?_⟩
    simp only; rw [strmcrc8_snoc, ← hcrc]
  · trivial

/-- one step from the in-frame state -/
theorem lsound_step_l1 (crc : BitVec 8) (line since : List Byte) (cap : Nat) (c : Byte)
    (hu : unescPartial Ctx.leg since = some (line, false)) (hcrc : crc = strmcrc8 0xFF#8 line) :
    LSound (lnewchar ⟨.l1, crc, line, cap⟩ c).1 (sinceStep legStart (some since) c) := by
  rw [lnewchar_l1]
  by_cases hc : c = legStart
  · subst hc
    simp only [if_true, sinceStep]
    by_cases hl : line = []
    · subst hl
      have : crc = 0xFF#8 := by simpa [strmcrc8] using hcrc
      subst this
      simp [LSound, unescPartial, strmcrc8]
    · have hl' : line.isEmpty = false := by simpa using hl
      simp only [hl', Bool.false_eq_true, if_false]
      split <;> rfl
  · by_cases hstub : c = legStub
    · subst hstub
      simp only [hc, if_false, if_true, sinceStep, Option.map_some]
      refine ⟨since ++ [legStub], rfl, ?_, hcrc⟩
      rw [unescPartial_snoc, hu]; simp [unescStep, Ctx.leg]
    · simp only [hc, hstub, if_false, sinceStep, Option.map_some]
      apply lputchar_fst_sound _ _ _ _ _ _ hcrc
      rw [unescPartial_snoc, hu]; simp [unescStep, Ctx.leg, hstub]

theorem lsound_step (r : LRecv) (g : Option (List Byte)) (c : Byte) (hs : LSound r g) :
    LSound (lnewchar r c).1 (sinceStep legStart g c) := by
  obtain ⟨st, crc, line, cap⟩ := r
  cases st
  · -- l0: a marker was the last event; reset and continue as in-frame
    have hg : g = some [] := hs
    subst hg
    rw [lnewchar_l0]
    exact lsound_step_l1 _ _ _ _ _ (by simp [unescPartial]) (by simp [strmcrc8])
  · obtain ⟨since, hg, hu, hcrc⟩ : ∃ since, g = some since ∧
        unescPartial Ctx.leg since = some (line, false) ∧ crc = strmcrc8 0xFF#8 line := hs
    subst hg
    exact lsound_step_l1 _ _ _ _ _ hu hcrc
  · obtain ⟨since, hg, hu, hcrc⟩ : ∃ since, g = some since ∧
        unescPartial Ctx.leg since = some (line, true) ∧ crc = strmcrc8 0xFF#8 line := hs
    subst hg
    rw [lnewchar_l2]
    have e1 : legStubStart ≠ legStart := by decide
    have e2 : legStubStub ≠ legStart := by decide
    have e3 : legStubStub ≠ legStubStart := by decide
    by_cases h1 : c = legStubStart
    · subst h1
      simp only [if_true, sinceStep, e1, if_false, Option.map_some]
      apply lputchar_fst_sound _ _ _ _ _ _ hcrc
      rw [unescPartial_snoc, hu]; simp [unescStep, codeOf, Ctx.leg]
    · by_cases h2 : c = legStubStub
      · subst h2
        simp only [e3, if_false, if_true, sinceStep, e2, Option.map_some]
        apply lputchar_fst_sound _ _ _ _ _ _ hcrc
        rw [unescPartial_snoc, hu]; simp [unescStep, codeOf, Ctx.leg, e3]
      · by_cases hc : c = legStart
        · subst hc
          simp only [h1, h2, if_false, if_true, sinceStep]
          rfl
        · simp only [h1, h2, hc, if_false]; trivial
  · rw [lnewchar_l3]
    by_cases hc : c = legStart
    · subst hc
      simp [LSound, sinceStep, unescPartial, strmcrc8]
    · simp only [hc, if_false]; trivial

theorem lfeed_sound (r : LRecv) (g : Option (List Byte)) (bs : List Byte) (hs : LSound r g) :
    LSound (lfeed r bs).1 (bs.foldl (sinceStep legStart) g) := by
  induction bs generalizing r g with
  | nil => simpa [lfeed]
  | cons c cs ih => simp only [lfeed, List.foldl_cons]; exact ih _ _ (lsound_step r g c hs)

theorem lputchar_snd_ne (r : LRecv) (c : Byte) : (lputchar r c).2 ≠ NEWPACKAGE := by
  unfold lputchar; split <;> simp [CONTINUE, OVERFLOW, NEWPACKAGE]

/-- the legacy receiver answers NEWPACKAGE only to the marker, in-frame, with CRC residue 0
and a non-empty line, and leaves the line as it is -/
theorem lnewpackage_inv (r : LRecv) (c : Byte) (hn : (lnewchar r c).2 = NEWPACKAGE) :
    r.state = .l1 ∧ c = legStart ∧ r.crc = 0#8 ∧ r.line ≠ [] ∧ (lnewchar r c).1.line = r.line := by
  obtain ⟨st, crc, line, cap⟩ := r
  cases st
  · rw [lnewchar_l0, lnewchar_l1] at hn
    split at hn
    · simp [CONTINUE, NEWPACKAGE] at hn
    · split at hn
      · simp [CONTINUE, NEWPACKAGE] at hn
      · exact absurd hn (lputchar_snd_ne _ _)
  · rw [lnewchar_l1] at hn ⊢
    split at hn
    · rename_i hc
      subst hc
      simp only [if_true]
      split at hn
      · simp [CONTINUE, NEWPACKAGE] at hn
      · rename_i hl
        split at hn
        · simp [CRC_ERROR, NEWPACKAGE] at hn
        · rename_i hz
          have hz' : crc = 0#8 := by simpa using hz
          have hl' : line ≠ [] := by simpa using hl
          simp [hz', hl']
    · split at hn
      · simp [CONTINUE, NEWPACKAGE] at hn
      · exact absurd hn (lputchar_snd_ne _ _)
  · rw [lnewchar_l2] at hn
    split at hn
    · exact absurd hn (lputchar_snd_ne _ _)
    · split at hn
      · exact absurd hn (lputchar_snd_ne _ _)
      · split at hn <;> simp [LDATA_ERROR, NEWPACKAGE] at hn
  · rw [lnewchar_l3] at hn
    split at hn <;> simp [CONTINUE, NEWPACKAGE] at hn

theorem lnewpackage_sound (r : LRecv) (g : Option (List Byte)) (c : Byte)
    (hs : LSound r g) (hn : (lnewchar r c).2 = NEWPACKAGE) :
    c = legStart ∧ ∃ since, g = some since ∧
      unescape Ctx.leg since = some ((lnewchar r c).1.line.dropLast ++
        [strmcrc8 0xFF#8 (lnewchar r c).1.line.dropLast]) ∧
      (lnewchar r c).1.line ≠ [] := by
  obtain ⟨h1, h2, h3, h4, h5⟩ := lnewpackage_inv r c hn
  refine ⟨h2, ?_⟩
  obtain ⟨st, crc, line, cap⟩ := r
  simp only at h1 h3 h4; subst h1; subst h3
  obtain ⟨since, hg, hu, hcrc⟩ : ∃ since, g = some since ∧
      unescPartial Ctx.leg since = some (line, false) ∧ (0#8 : BitVec 8) = strmcrc8 0xFF#8 line := hs
  refine ⟨since, hg, ?_, by rw [h5]; exact h4⟩
  rw [h5]
  simp only
  rw [← crc_zero_split line hcrc.symm]
  simp [unescape, hu]

end Igris.Gstuff
