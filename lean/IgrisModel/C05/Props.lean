/-
  C05 — PROPERTY THEOREMS: the gstuff receiver on arbitrary byte streams.

  "For every byte stream and every receive buffer size, the receiver never
  stores more than capacity-1 bytes nor touches memory outside the buffer it
  was given, and a frame that does not fit is reported as overflow rather than
  delivered.  Whenever it reports a completed packet, the delivered bytes are
  exactly the unescaped bytes since the last start marker minus a trailing
  CRC-8 that matches them.  After any garbage prefix the well-formed frames
  that follow are delivered intact - from the first one when start and stop
  markers differ, from the second at the latest when they coincide."
-/
import IgrisModel.C05.Lemmas
namespace Igris.Gstuff
open Igris.Proto Igris.C17

/-! ### memory safety -/

/-- never more than capacity-1 bytes in the line, in every reachable state,
for every alphabet (well-formed or not), stream and capacity -/
theorem recv_bounds (ctx : Ctx) (cap : Nat) (bs : List Byte) :
    (feed ctx (Recv.init cap) bs).1.line.length ≤ cap - 1 ∧ (feed ctx (Recv.init cap) bs).1.cap = cap := by
  have h := feed_lineOK ctx (Recv.init cap) bs (by simp [LineOK, Recv.init])
  have hc := feed_cap ctx (Recv.init cap) bs
  simp only [LineOK, hc] at h
  exact ⟨h, hc⟩

/-- the only buffer writes are `buf[len] = c` by `sline_putchar` (performed iff
the line grows) and `buf[len] = 0` by `cstr()`; both indices are `< cap` in
every reachable state (capacity ≥ 1) -/
theorem recv_write_indices (ctx : Ctx) (cap : Nat) (hcap : 1 ≤ cap) (bs : List Byte) (c : Byte) :
    -- terminator written by cstr()
    (feed ctx (Recv.init cap) bs).1.line.length < cap ∧
    -- a byte stored by newchar lands at index `old length`, which is `< cap - 1`
    ((newchar ctx (feed ctx (Recv.init cap) bs).1 c).1.line.length =
        (feed ctx (Recv.init cap) bs).1.line.length + 1 →
      (feed ctx (Recv.init cap) bs).1.line.length < cap - 1) := by
  have hb := recv_bounds ctx cap bs
  have hn := newchar_lineOK ctx (feed ctx (Recv.init cap) bs).1 c (by simp only [LineOK, hb.2]; exact hb.1)
  have hcap' := newchar_cap ctx (feed ctx (Recv.init cap) bs).1 c
  refine ⟨by have := hb.1; omega, ?_⟩
  intro hgrow
  simp only [LineOK, hcap', hb.2] at hn
  omega

/-! ### soundness of every delivered packet -/

/-- Whenever NEWPACKAGE is answered (to byte `c` after stream `bs`): `c` is the
stop marker, a start marker was received, and the unescaping of the raw bytes
since the LAST start marker is exactly the delivered line followed by its
CRC-8. -/
theorem recv_sound (ctx : Ctx) (h : ctx.WF) (cap : Nat) (bs : List Byte) (c : Byte)
    (hn : (newchar ctx (feed ctx (Recv.init cap) bs).1 c).2 = NEWPACKAGE) :
    c = ctx.stop ∧ ∃ since, sinceLastStart ctx.start bs = some since ∧
      unescape ctx since =
        some ((newchar ctx (feed ctx (Recv.init cap) bs).1 c).1.line ++
              [strmcrc8 0xFF#8 (newchar ctx (feed ctx (Recv.init cap) bs).1 c).1.line]) := by
  have hs := feed_sound ctx h (Recv.init cap) none bs (by simp [Sound, Recv.init])
  exact newpackage_sound ctx _ _ c hs hn

/-! ### over-long frames -/

/-- a frame whose unescaped content (payload + CRC) does not fit in capacity-1
bytes is answered with OVERFLOW and is not delivered -/
theorem overflow_reported (ctx : Ctx) (h : ctx.WF) (r : Recv) (hr : Idle r) (p : List Byte)
    (hcap : 1 ≤ r.cap) (hbig : r.cap < p.length + 2) :
    OVERFLOW ∈ (feed ctx r (encode ctx p)).2 ∧ delivered ctx r (encode ctx p) = [] := by
  -- split the unescaped content (payload ++ crc) at the capacity
  have hlen : r.cap - 1 < (p ++ [strmcrc8 0xFF#8 p]).length := by simp; omega
  obtain ⟨pre, x, post, hsplit, hpre⟩ : ∃ pre x post, p ++ [strmcrc8 0xFF#8 p] = pre ++ x :: post ∧
      pre.length = r.cap - 1 := by
    refine ⟨(p ++ [strmcrc8 0xFF#8 p]).take (r.cap - 1), (p ++ [strmcrc8 0xFF#8 p])[r.cap - 1],
      (p ++ [strmcrc8 0xFF#8 p]).drop (r.cap - 1 + 1), ?_, ?_⟩
    · rw [List.getElem_cons_drop, List.take_append_drop]
    · rw [List.length_take]; omega
  rw [encode_eq]
  unfold frameBody
  rw [hsplit]
  simp only [List.flatMap_append, List.flatMap_cons, List.append_assoc]
  -- start marker, then the first cap-1 bytes fill the line
  obtain ⟨e1, a1⟩ := feed_stuffed ctx h pre { r with state := .s1, crc := 0xFF#8, line := [] } rfl
    (by simp; omega)
  have d1 := delivered_nil_of_statuses _ _ _ (allCont_no_newpackage a1)
  -- the next byte does not fit
  obtain ⟨o1, o2, o3, o4⟩ := feed_stuffByte_full ctx h
    { r with state := .s1, crc := pre.foldl strmStep 0xFF#8, line := pre } x rfl (by simp; omega)
  -- the rest of the body is ignored, the closing marker delivers nothing
  have hpost : ∀ b ∈ post.flatMap (stuffByte ctx), b ≠ ctx.start := by
    intro b hb
    obtain ⟨c, _, hc⟩ := List.mem_flatMap.mp hb
    exact (stuffByte_no_marker ctx h c b hc).1
  obtain ⟨g1, g2⟩ := garbage_run ctx _ (post.flatMap (stuffByte ctx)) o2 hpost
  have hlast := idle_no_delivery ctx _ ctx.stop g1
  simp only [feed, delivered, newchar_start_idle ctx r hr, feed_append, delivered_append, e1,
    List.nil_append, d1, o3, g2]
  refine ⟨?_, ?_⟩
  · simp only [List.mem_cons, List.mem_append]
    exact Or.inr (Or.inr (Or.inl o1))
  · have hlast' := hlast
    simp only [NEWPACKAGE] at hlast'
    simp only [CONTINUE, NEWPACKAGE, show ¬ ((0 : Int) = 1) by decide, if_false]
    exact if_neg hlast'

/-! ### resynchronisation -/

/-- START ≠ STOP: after ANY garbage prefix `g` (fed to any receiver `r`,
whatever state that leaves it in), the well-formed frames that follow are all
delivered, from the first one, in order, and nothing else is delivered after
the garbage. -/
theorem resync_distinct (ctx : Ctx) (h : ctx.WF) (hne : ctx.start ≠ ctx.stop) (r : Recv)
    (g : List Byte) (ps : List (List Byte)) (hcap : ∀ p ∈ ps, p.length + 2 ≤ r.cap) :
    delivered ctx r (g ++ ps.flatMap (encode ctx)) = delivered ctx r g ++ ps := by
  rw [delivered_append]
  congr 1
  have hc : (feed ctx r g).1.cap = r.cap := feed_cap ctx r g
  generalize (feed ctx r g).1 = r' at hc
  induction ps generalizing r' with
  | nil => simp [delivered]
  | cons p ps ih =>
    obtain ⟨d, s0, cp⟩ := frame_any_state_distinct ctx h hne r' p (by rw [hc]; exact hcap p (by simp))
    simp only [List.flatMap_cons, delivered_append, d]
    rw [ih (fun q hq => hcap q (by simp [hq])) _ (by rw [cp, hc])]
    simp

/-- START = STOP (v0 alphabet, after `fix: … resynchronises when start and stop
markers coincide`): after any garbage prefix, of the frames p₁ p₂ … that follow
at most the first is lost: what is delivered after the garbage is `junk ++
[p₂, …]` where `junk` is at most one packet (p₁ itself, or a packet completed
by p₁'s opening marker, or nothing). -/
theorem resync_coincide (ctx : Ctx) (h : ctx.WF) (he : ctx.start = ctx.stop) (r : Recv)
    (g : List Byte) (p1 : List Byte) (ps : List (List Byte))
    (hcap : ∀ p ∈ p1 :: ps, p.length + 2 ≤ r.cap) :
    ∃ junk, junk.length ≤ 1 ∧
      delivered ctx r (g ++ (p1 :: ps).flatMap (encode ctx)) = delivered ctx r g ++ junk ++ ps := by
  have hc : (feed ctx r g).1.cap = r.cap := feed_cap ctx r g
  obtain ⟨j1, rd, cp⟩ := first_frame_coincide ctx h he (feed ctx r g).1 p1
    (by rw [hc]; exact hcap p1 (by simp))
  refine ⟨delivered ctx (feed ctx r g).1 (encode ctx p1), j1, ?_⟩
  rw [delivered_append, List.flatMap_cons, delivered_append]
  rw [frames_from_ready ctx h _ rd ps (by intro q hq; rw [cp, hc]; exact hcap q (by simp [hq]))]
  simp

/-- when the receiver is between frames or primed (e.g. freshly initialised),
nothing is lost even when the markers coincide -/
theorem frames_delivered_from_init (ctx : Ctx) (h : ctx.WF) (cap : Nat) (ps : List (List Byte))
    (hcap : ∀ p ∈ ps, p.length + 2 ≤ cap) :
    delivered ctx (Recv.init cap) (ps.flatMap (encode ctx)) = ps :=
  frames_from_ready ctx h (Recv.init cap) (Or.inl (Or.inl rfl)) ps hcap

-- non-vacuity: the shipped alphabets satisfy the hypotheses of the two resync theorems
example : Ctx.v1.WF ∧ Ctx.v1.start ≠ Ctx.v1.stop := by decide
example : Ctx.v0.WF ∧ Ctx.v0.start = Ctx.v0.stop := by decide

/-- historical witness: the stream of C05-v0-never-resyncs. On the repaired
model the second and third frame after the garbage `55 AC 66` are delivered. -/
theorem resync_v0_example :
    delivered Ctx.v0 (Recv.init 8)
      ([0x55#8, 0xAC#8, 0x66#8] ++ [[0x41#8], [0x42#8], [0x43#8]].flatMap (encode Ctx.v0)) =
      [[0x42#8], [0x43#8]] := by decide +kernel

/-! ### legacy receiver (gstuff_autorecv_newchar_v1) -/

theorem legacy_bounds (cap : Nat) (bs : List Byte) :
    (lfeed (LRecv.init cap) bs).1.line.length ≤ cap - 1 ∧ (lfeed (LRecv.init cap) bs).1.cap = cap := by
  have h := lfeed_lineOK (LRecv.init cap) bs (by simp [LLineOK, LRecv.init])
  have hc := lfeed_cap (LRecv.init cap) bs
  simp only [LLineOK, hc] at h
  exact ⟨h, hc⟩

/-- Legacy resynchronisation (start = stop = AC): after ANY garbage prefix `g`
and the first frame `p₁`, every following frame is delivered intact and in
order; the deliveries end with exactly `[p₂, …]` (packet = line minus its
trailing CRC byte, the legacy convention). -/
theorem legacy_resync (cap : Nat) (g : List Byte) (p1 : List Byte) (ps : List (List Byte))
    (hcap : ∀ p ∈ ps, p.length + 2 ≤ cap) :
    ∃ junk, ldelivered (LRecv.init cap) (g ++ (p1 :: ps).flatMap encodeLeg) = junk ++ ps := by
  -- everything up to and including p₁'s closing marker
  have hsplit : g ++ (p1 :: ps).flatMap encodeLeg =
      ((g ++ legStart :: lframeBody p1) ++ [legStart]) ++ ps.flatMap encodeLeg := by
    simp [encodeLeg_eq]
  rw [hsplit, ldelivered_append]
  refine ⟨ldelivered (LRecv.init cap) ((g ++ legStart :: lframeBody p1) ++ [legStart]), ?_⟩
  congr 1
  have hgood : LGood (lfeed (LRecv.init cap) (g ++ legStart :: lframeBody p1)).1 :=
    lfeed_good _ _ (by simp [LGood, LRecv.init])
  have hready : LReady (lfeed (LRecv.init cap) ((g ++ legStart :: lframeBody p1) ++ [legStart])).1 := by
    rw [lfeed_append]; simp only [lfeed]
    exact lready_after_marker _ hgood
  apply lframes_from_ready _ hready
  intro q hq
  rw [lfeed_cap]; exact hcap q hq

/-- from a freshly initialised legacy receiver every frame is delivered, from the first -/
theorem legacy_frames_from_init (cap : Nat) (ps : List (List Byte)) (hcap : ∀ p ∈ ps, p.length + 2 ≤ cap) :
    ldelivered (LRecv.init cap) (ps.flatMap encodeLeg) = ps :=
  lframes_from_ready (LRecv.init cap) (Or.inl (Or.inr rfl)) ps hcap

/-- historical witness (defect C05-legacy-no-hunt, repaired by `fix: legacy
receiver hunts for the start marker`): before the repair `41 crc AC` with no
start marker at all was delivered as the packet [41]; the repaired receiver
skips everything in front of the first marker and delivers nothing -/
theorem legacy_no_hunt_witness :
    sinceLastStart legStart [0x41#8, strmcrc8 0xFF#8 [0x41#8]] = none ∧
    ldelivered (LRecv.init 16) [0x41#8, strmcrc8 0xFF#8 [0x41#8], legStart] = [] := by
  decide +kernel

/-- historical witness: before the repair the bytes after a DATA_ERROR (invalid
escape) were accumulated without waiting for a start marker, `AC AD 00 41 crc AC`
delivered [41] although the bytes since the last start marker (`AD 00 41 crc`)
do not unescape; the repaired receiver hunts for the next marker and delivers nothing -/
theorem legacy_no_hunt_after_error_witness :
    ldelivered (LRecv.init 16) [legStart, legStub, 0x00#8, 0x41#8, strmcrc8 0xFF#8 [0x41#8], legStart] = [] ∧
    unescape ⟨legStart, legStart, legStub, legStubStart, legStubStart, legStubStub⟩
      [legStub, 0x00#8, 0x41#8, strmcrc8 0xFF#8 [0x41#8]] = none := by
  decide +kernel

end Igris.Gstuff
