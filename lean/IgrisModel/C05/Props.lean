import IgrisModel.C04.Model
namespace Igris.Gstuff
theorem placeholder_c05 : True := trivial
end Igris.Gstuff
