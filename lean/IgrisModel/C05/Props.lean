/-
  C05 — PROPERTY THEOREMS: the gstuff receiver on arbitrary byte streams.

  "For every byte stream and every receive buffer size, the receiver never
  stores more than capacity-1 bytes nor touches memory outside the buffer it
  was given, and a frame that does not fit is reported as overflow rather than
  delivered.  Whenever it reports a completed packet, the delivered bytes are
  exactly the unescaped bytes since the last start marker minus a trailing
  CRC-8 that matches them.  After any garbage prefix the well-formed frames
  that follow are delivered intact - from the first one when start and stop
  markers differ, from the second at the latest when they coincide."
-/
import IgrisModel.C05.LemmasBuf
import IgrisModel.C05.Lemmas3
namespace Igris.Gstuff
open Igris.Proto Igris.C17

/-! ### memory safety -/

/-- never more than capacity-1 bytes in the line, in every reachable state,
for every alphabet (well-formed or not), stream and capacity.  (List-level model,
`cap : Nat`.  For capacity 0 the statement says "nothing is ever stored"; since
`fix: sline_putchar refuses when the line has no buffer` that is what the code
does too — before it the unsigned `cap - 1` wrapped and the code stored without
bound, see `sline_putchar_cap0_witness`.  The statement about the C object itself,
32-bit counters and buffer indices included, is `recv_never_faults`.) -/
theorem recv_bounds (ctx : Ctx) (cap : Nat) (bs : List Byte) :
    (feed ctx (Recv.init cap) bs).1.line.length ≤ cap - 1 ∧ (feed ctx (Recv.init cap) bs).1.cap = cap := by
  have h := feed_lineOK ctx (Recv.init cap) bs (by simp [LineOK, Recv.init])
  have hc := feed_cap ctx (Recv.init cap) bs
  simp only [LineOK, hc] at h
  exact ⟨h, hc⟩

/-- the only buffer writes are `buf[len] = c` by `sline_putchar` (performed iff
the line grows) and `buf[len] = 0` by `cstr()`; both indices are `< cap` in
every reachable state (capacity ≥ 1) -/
theorem recv_write_indices (ctx : Ctx) (cap : Nat) (hcap : 1 ≤ cap) (bs : List Byte) (c : Byte) :
    -- terminator written by cstr()
    (feed ctx (Recv.init cap) bs).1.line.length < cap ∧
    -- a byte stored by newchar lands at index `old length`, which is `< cap - 1`
    ((newchar ctx (feed ctx (Recv.init cap) bs).1 c).1.line.length =
        (feed ctx (Recv.init cap) bs).1.line.length + 1 →
      (feed ctx (Recv.init cap) bs).1.line.length < cap - 1) := by
  have hb := recv_bounds ctx cap bs
  have hn := newchar_lineOK ctx (feed ctx (Recv.init cap) bs).1 c (by simp only [LineOK, hb.2]; exact hb.1)
  have hcap' := newchar_cap ctx (feed ctx (Recv.init cap) bs).1 c
  refine ⟨by have := hb.1; omega, ?_⟩
  intro hgrow
  simp only [LineOK, hcap', hb.2] at hn
  omega

/-! ### memory safety at the level of the C line object (C04/Buf.lean) -/

/-- MEMORY SAFETY, buffer level.  The receiver is given a memory block `buf` and
told it has `cap` bytes (`init(buf, cap)`; the block may be larger — the bytes
from index `cap` on then stand for the memory BEHIND the buffer).  For every
alphabet, every declared capacity (0 included, 32-bit unsigned) and every
stream: no call ever faults (no `buf[i]`, no `memmove` outside the block);
statuses, state, CRC and line bytes are those of the list-level receiver (so
every other theorem of this file speaks about this object); afterwards
`cursor = len ≤ cap - 1` (the `memmove` branches of `sline_putchar` /
`sline_backspace` are never taken); and no byte at an index ≥ `cap` was modified. -/
theorem recv_never_faults (ctx : Ctx) (buf : List Byte) (cap : BitVec 32)
    (hblk : cap.toNat ≤ buf.length) (bs : List Byte) :
    ∃ r', bfeed ctx (BRecv.init buf cap) bs = some (r', (feed ctx (Recv.init cap.toNat) bs).2) ∧
      r'.abs = (feed ctx (Recv.init cap.toNat) bs).1 ∧
      r'.line.cursor = r'.line.len ∧ r'.line.len.toNat ≤ cap.toNat - 1 ∧ r'.line.cap = cap ∧
      r'.line.buf.length = buf.length ∧ r'.line.buf.drop cap.toNat = buf.drop cap.toNat := by
  have hok : SlineOK (BRecv.init buf cap).line := ⟨rfl, hblk, by simp [BRecv.init, Sline.init]⟩
  obtain ⟨r', e1, e2, e3, e4, e5, e6⟩ := bfeed_refines ctx (BRecv.init buf cap) hok bs
  have habs : (BRecv.init buf cap).abs = Recv.init cap.toNat := by
    simp [BRecv.abs, BRecv.init, Sline.init, Sline.bytes, Recv.init]
  rw [habs] at e1 e2
  have hc : r'.line.cap = cap := e4
  exact ⟨r', e1, e2, e3.cur, by have := e3.bound; rw [hc] at this; exact this, hc, e5, e6⟩

/-- the same for `gstuff_autorecv(ctx)` used WITHOUT `setbuf` (buf = NULL, cap = 0):
no call faults and nothing is ever stored -/
theorem recv_nobuf_never_faults (ctx : Ctx) (bs : List Byte) :
    ∃ r', bfeed ctx BRecv.noBuf bs = some (r', (feed ctx ⟨.s0, 0#8, [], 0⟩ bs).2) ∧
      r'.line.len = 0 ∧ r'.line.buf = [] := by
  have hok : SlineOK BRecv.noBuf.line := ⟨rfl, by simp [BRecv.noBuf], by simp [BRecv.noBuf]⟩
  obtain ⟨r', e1, _, e3, e4, e5, _⟩ := bfeed_refines ctx BRecv.noBuf hok bs
  refine ⟨r', e1, ?_, ?_⟩
  · have := e3.bound
    rw [e4] at this
    exact BitVec.eq_of_toNat_eq (by simpa [BRecv.noBuf] using this)
  · exact List.eq_nil_of_length_eq_zero (by simpa [BRecv.noBuf] using e5)

/-- reading the packet (`cstr()`: terminator `buf[len] = 0`, then `size()` bytes)
never faults after any stream when the capacity is at least 1, and returns the line;
with it, the trace the DRIVER computes on the buffer-level model is the list-level trace -/
theorem recv_trace_never_faults (ctx : Ctx) (buf : List Byte) (cap : BitVec 32)
    (hcap : 1 ≤ cap.toNat) (hblk : cap.toNat ≤ buf.length) (bs : List Byte) :
    bfeedTrace ctx (BRecv.init buf cap) bs = some (feedTrace ctx (Recv.init cap.toNat) bs) := by
  have hok : SlineOK (BRecv.init buf cap).line := ⟨rfl, hblk, by simp [BRecv.init, Sline.init]⟩
  have habs : (BRecv.init buf cap).abs = Recv.init cap.toNat := by
    simp [BRecv.abs, BRecv.init, Sline.init, Sline.bytes, Recv.init]
  rw [← habs]
  exact bfeedTrace_eq ctx _ hok hcap bs

-- non-vacuity: an 8-byte block declared as 8 bytes
example : (1 : Nat) ≤ (8#32).toNat ∧ (8#32).toNat ≤ (List.replicate 8 (0xA5#8)).length := by decide

/-- witness for the repaired defect C05-capacity-zero-unsigned-wrap: with the old
guard `len >= cap - 1` a line without a buffer (cap 0) did not refuse — the store
`buf[0]` faults (NULL / zero-sized block), and with memory behind the pointer it
stored with no bound; the repaired guard `len + 1 >= cap` refuses -/
theorem sline_putchar_cap0_witness :
    (Sline.init [] 0).putcharOld 0x41#8 = none ∧
    (Sline.init [0xA5#8, 0xA5#8] 0).putcharOld 0x41#8 = some (⟨[0x41#8, 0xA5#8], 0, 1, 1⟩, true) ∧
    (Sline.init [] 0).putchar 0x41#8 = some (Sline.init [] 0, false) := by decide

/-! ### soundness of every delivered packet -/

/-- Whenever NEWPACKAGE is answered (to byte `c` after stream `bs`): `c` is the
stop marker, a start marker was received, and the unescaping of the raw bytes
since the LAST start marker is exactly the delivered line followed by its
CRC-8. -/
theorem recv_sound (ctx : Ctx) (h : ctx.WF) (cap : Nat) (bs : List Byte) (c : Byte)
    (hn : (newchar ctx (feed ctx (Recv.init cap) bs).1 c).2 = NEWPACKAGE) :
    c = ctx.stop ∧ ∃ since, sinceLastStart ctx.start bs = some since ∧
      unescape ctx since =
        some ((newchar ctx (feed ctx (Recv.init cap) bs).1 c).1.line ++
              [strmcrc8 0xFF#8 (newchar ctx (feed ctx (Recv.init cap) bs).1 c).1.line]) := by
  have hs := feed_sound ctx h (Recv.init cap) none bs (by simp [Sound, Recv.init])
  exact newpackage_sound ctx _ _ c hs hn

/-! ### over-long frames -/

/-- a frame whose unescaped content (payload + CRC) does not fit in capacity-1
bytes is answered with OVERFLOW and is not delivered -/
theorem overflow_reported (ctx : Ctx) (h : ctx.WF) (r : Recv) (hr : Idle r) (p : List Byte)
    (hcap : 1 ≤ r.cap) (hbig : r.cap < p.length + 2) :
    OVERFLOW ∈ (feed ctx r (encode ctx p)).2 ∧ delivered ctx r (encode ctx p) = [] := by
  -- split the unescaped content (payload ++ crc) at the capacity
  have hlen : r.cap - 1 < (p ++ [strmcrc8 0xFF#8 p]).length := by simp; omega
  obtain ⟨pre, x, post, hsplit, hpre⟩ : ∃ pre x post, p ++ [strmcrc8 0xFF#8 p] = pre ++ x :: post ∧
      pre.length = r.cap - 1 := by
    refine ⟨(p ++ [strmcrc8 0xFF#8 p]).take (r.cap - 1), (p ++ [strmcrc8 0xFF#8 p])[r.cap - 1],
      (p ++ [strmcrc8 0xFF#8 p]).drop (r.cap - 1 + 1), ?_, ?_⟩
    · rw [List.getElem_cons_drop, List.take_append_drop]
    · rw [List.length_take]; omega
  rw [encode_eq]
  unfold frameBody
  rw [hsplit]
  simp only [List.flatMap_append, List.flatMap_cons, List.append_assoc]
  -- start marker, then the first cap-1 bytes fill the line
  obtain ⟨e1, a1⟩ := feed_stuffed ctx h pre { r with state := .s1, crc := 0xFF#8, line := [] } rfl
    (by simp; omega)
  have d1 := delivered_nil_of_statuses _ _ _ (allCont_no_newpackage a1)
  -- the next byte does not fit
  obtain ⟨o1, o2, o3, o4⟩ := feed_stuffByte_full ctx h
    { r with state := .s1, crc := pre.foldl strmStep 0xFF#8, line := pre } x rfl (by simp; omega)
  -- the rest of the body is ignored, the closing marker delivers nothing
  have hpost : ∀ b ∈ post.flatMap (stuffByte ctx), b ≠ ctx.start := by
    intro b hb
    obtain ⟨c, _, hc⟩ := List.mem_flatMap.mp hb
    exact (stuffByte_no_marker ctx h c b hc).1
  obtain ⟨g1, g2⟩ := garbage_run ctx _ (post.flatMap (stuffByte ctx)) o2 hpost
  have hlast := idle_no_delivery ctx _ ctx.stop g1
  simp only [feed, delivered, newchar_start_idle ctx r hr, feed_append, delivered_append, e1,
    List.nil_append, d1, o3, g2]
  refine ⟨?_, ?_⟩
  · simp only [List.mem_cons, List.mem_append]
    exact Or.inr (Or.inr (Or.inl o1))
  · have hlast' := hlast
    simp only [NEWPACKAGE] at hlast'
    simp only [CONTINUE, NEWPACKAGE, show ¬ ((0 : Int) = 1) by decide, if_false]
    exact if_neg hlast'

/-- OVERFLOW CLAUSE IN GENERAL FORM.  From ANY receiver state when start ≠ stop
(from any ready state — between frames or primed — when the markers coincide;
there an in-frame receiver takes the opening marker for a stop and swallows
the frame as garbage, which is the "second frame at the latest" of the
resynchronisation clause), for ANY capacity (0 included) and ANY byte sequence
between a start and a stop marker — not only frames made by the encoder —
whose unescaping is valid up to a point `pre` where it has grown beyond
capacity-1 bytes (whatever follows, valid or not): OVERFLOW is answered,
NOTHING is delivered, and the receiver is ready for the next frame. -/
theorem overflow_any_state (ctx : Ctx) (h : ctx.WF) (r : Recv)
    (hr : ctx.start ≠ ctx.stop ∨ Ready r) (pre rest : List Byte)
    (hnm : ∀ b ∈ pre ++ rest, b ≠ ctx.start ∧ b ≠ ctx.stop)
    (u : List Byte) (pend : Bool) (hu : unescPartial ctx pre = some (u, pend))
    (hbig : r.cap - 1 < u.length) :
    OVERFLOW ∈ (feed ctx r (ctx.start :: ((pre ++ rest) ++ [ctx.stop]))).2 ∧
    delivered ctx r (ctx.start :: ((pre ++ rest) ++ [ctx.stop])) = [] ∧
    Ready (feed ctx r (ctx.start :: ((pre ++ rest) ++ [ctx.stop]))).1 := by
  have hstart : (newchar ctx r ctx.start).1 = ⟨.s1, 0xFF#8, [], r.cap⟩ ∧
      (newchar ctx r ctx.start).2 ≠ NEWPACKAGE := by
    rcases hr with hne | hrd
    · exact start_primes_distinct ctx h hne r
    · exact start_primes_ready ctx r hrd
  obtain ⟨o1, o2, o3⟩ := feed_body_overflow ctx ⟨.s1, 0xFF#8, [], r.cap⟩ pre rest (Or.inl rfl)
    (by simp [LineOK]) hnm u pend (by simpa [unescFrom, unescPartial] using hu) hbig
  obtain ⟨p1, p2⟩ := stop_when_idle ctx _ o2
  generalize pre ++ rest = body at o1 o2 o3 p1 p2 ⊢
  simp only [feed, delivered, hstart.1, hstart.2, if_false, feed_append, delivered_append, o3,
    List.nil_append, p1]
  exact ⟨List.mem_cons_of_mem _ (List.mem_append_left _ o1), trivial, p2⟩

-- non-vacuity: 41 42 43 does not fit into a 3-byte buffer
example : (Ctx.v1.start ≠ Ctx.v1.stop ∨ Ready (Recv.init 3)) ∧
    (∀ b ∈ [0x41#8, 0x42#8, 0x43#8] ++ ([] : List Byte), b ≠ Ctx.v1.start ∧ b ≠ Ctx.v1.stop) ∧
    unescPartial Ctx.v1 [0x41#8, 0x42#8, 0x43#8] = some ([0x41#8, 0x42#8, 0x43#8], false) ∧
    (Recv.init 3).cap - 1 < [0x41#8, 0x42#8, 0x43#8].length :=
  ⟨Or.inl (by decide), by decide, by decide, by decide⟩

/-- why `Ready` is required when the markers coincide: a v0 receiver that is in
the middle of a frame takes the opening marker of the over-long frame for a stop
marker and swallows the frame as garbage — no OVERFLOW at all (and nothing delivered) -/
theorem overflow_coincide_inframe_witness :
    OVERFLOW ∉ (feed Ctx.v0 ⟨.s1, 0x12#8, [0x55#8], 3⟩
      (Ctx.v0.start :: ([0x41#8, 0x42#8, 0x43#8] ++ [Ctx.v0.stop]))).2 ∧
    delivered Ctx.v0 ⟨.s1, 0x12#8, [0x55#8], 3⟩
      (Ctx.v0.start :: ([0x41#8, 0x42#8, 0x43#8] ++ [Ctx.v0.stop])) = [] := by decide +kernel

/-! ### resynchronisation -/

/-- START ≠ STOP: after ANY garbage prefix `g` (fed to any receiver `r`,
whatever state that leaves it in), the well-formed frames that follow are all
delivered, from the first one, in order, and nothing else is delivered after
the garbage. -/
theorem resync_distinct (ctx : Ctx) (h : ctx.WF) (hne : ctx.start ≠ ctx.stop) (r : Recv)
    (g : List Byte) (ps : List (List Byte)) (hcap : ∀ p ∈ ps, p.length + 2 ≤ r.cap) :
    delivered ctx r (g ++ ps.flatMap (encode ctx)) = delivered ctx r g ++ ps := by
  rw [delivered_append]
  congr 1
  have hc : (feed ctx r g).1.cap = r.cap := feed_cap ctx r g
  generalize (feed ctx r g).1 = r' at hc
  induction ps generalizing r' with
  | nil => simp [delivered]
  | cons p ps ih =>
    obtain ⟨d, s0, cp⟩ := frame_any_state_distinct ctx h hne r' p (by rw [hc]; exact hcap p (by simp))
    simp only [List.flatMap_cons, delivered_append, d]
    rw [ih (fun q hq => hcap q (by simp [hq])) _ (by rw [cp, hc])]
    simp

/-- START = STOP (v0 alphabet, after `fix: … resynchronises when start and stop
markers coincide`): after any garbage prefix, of the frames p₁ p₂ … that follow
at most the first is lost: what is delivered after the garbage is `junk ++
[p₂, …]` where `junk` is at most one packet (p₁ itself, or a packet completed
by p₁'s opening marker, or nothing). -/
theorem resync_coincide (ctx : Ctx) (h : ctx.WF) (he : ctx.start = ctx.stop) (r : Recv)
    (g : List Byte) (p1 : List Byte) (ps : List (List Byte))
    (hcap : ∀ p ∈ p1 :: ps, p.length + 2 ≤ r.cap) :
    ∃ junk, junk.length ≤ 1 ∧
      delivered ctx r (g ++ (p1 :: ps).flatMap (encode ctx)) = delivered ctx r g ++ junk ++ ps := by
  have hc : (feed ctx r g).1.cap = r.cap := feed_cap ctx r g
  obtain ⟨j1, rd, cp⟩ := first_frame_coincide ctx h he (feed ctx r g).1 p1
    (by rw [hc]; exact hcap p1 (by simp))
  refine ⟨delivered ctx (feed ctx r g).1 (encode ctx p1), j1, ?_⟩
  rw [delivered_append, List.flatMap_cons, delivered_append]
  rw [frames_from_ready ctx h _ rd ps (by intro q hq; rw [cp, hc]; exact hcap q (by simp [hq]))]
  simp

/-- when the receiver is between frames or primed (e.g. freshly initialised),
nothing is lost even when the markers coincide -/
theorem frames_delivered_from_init (ctx : Ctx) (h : ctx.WF) (cap : Nat) (ps : List (List Byte))
    (hcap : ∀ p ∈ ps, p.length + 2 ≤ cap) :
    delivered ctx (Recv.init cap) (ps.flatMap (encode ctx)) = ps :=
  frames_from_ready ctx h (Recv.init cap) (Or.inl (Or.inl rfl)) ps hcap

-- non-vacuity: the shipped alphabets satisfy the hypotheses of the two resync theorems
example : Ctx.v1.WF ∧ Ctx.v1.start ≠ Ctx.v1.stop := by decide
example : Ctx.v0.WF ∧ Ctx.v0.start = Ctx.v0.stop := by decide

/-- historical witness: the stream of C05-v0-never-resyncs. On the repaired
model the second and third frame after the garbage `55 AC 66` are delivered. -/
theorem resync_v0_example :
    delivered Ctx.v0 (Recv.init 8)
      ([0x55#8, 0xAC#8, 0x66#8] ++ [[0x41#8], [0x42#8], [0x43#8]].flatMap (encode Ctx.v0)) =
      [[0x42#8], [0x43#8]] := by decide +kernel

/-! ### legacy receiver (gstuff_autorecv_newchar_v1) -/

/-- legacy receiver: never more than capacity-1 bytes in the line (every stream, every
capacity; capacity 0: nothing is stored — see the remark at `recv_bounds`) -/
theorem legacy_bounds (cap : Nat) (bs : List Byte) :
    (lfeed (LRecv.init cap) bs).1.line.length ≤ cap - 1 ∧ (lfeed (LRecv.init cap) bs).1.cap = cap := by
  have h := lfeed_lineOK (LRecv.init cap) bs (by simp [LLineOK, LRecv.init])
  have hc := lfeed_cap (LRecv.init cap) bs
  simp only [LLineOK, hc] at h
  exact ⟨h, hc⟩

/-- legacy receiver, buffer level (`gstuff_autorecv_setbuf_v1(buf, cap)`): as
`recv_never_faults` — no fault for any declared capacity and stream, refinement of
the list-level legacy receiver, `cursor = len ≤ cap - 1`, memory from index `cap`
on untouched -/
theorem legacy_never_faults (buf : List Byte) (cap : BitVec 32) (hblk : cap.toNat ≤ buf.length)
    (bs : List Byte) :
    ∃ r', blfeed (BLRecv.init buf cap) bs = some (r', (lfeed (LRecv.init cap.toNat) bs).2) ∧
      r'.abs = (lfeed (LRecv.init cap.toNat) bs).1 ∧
      r'.line.cursor = r'.line.len ∧ r'.line.len.toNat ≤ cap.toNat - 1 ∧ r'.line.cap = cap ∧
      r'.line.buf.length = buf.length ∧ r'.line.buf.drop cap.toNat = buf.drop cap.toNat := by
  have hok : SlineOK (BLRecv.init buf cap).line := ⟨rfl, hblk, by simp [BLRecv.init, Sline.init]⟩
  obtain ⟨r', e1, e2, e3, e4, e5, e6⟩ := blfeed_refines (BLRecv.init buf cap) hok bs
  have habs : (BLRecv.init buf cap).abs = LRecv.init cap.toNat := by
    simp [BLRecv.abs, BLRecv.init, Sline.init, Sline.bytes, LRecv.init]
  rw [habs] at e1 e2
  have hc : r'.line.cap = cap := e4
  exact ⟨r', e1, e2, e3.cur, by have := e3.bound; rw [hc] at this; exact this, hc, e5, e6⟩

/-- the legacy trace the driver computes (with `sline_getline` at every NEWPACKAGE) never faults -/
theorem legacy_trace_never_faults (buf : List Byte) (cap : BitVec 32)
    (hcap : 1 ≤ cap.toNat) (hblk : cap.toNat ≤ buf.length) (bs : List Byte) :
    blfeedTrace (BLRecv.init buf cap) bs = some (lfeedTrace (LRecv.init cap.toNat) bs) := by
  have hok : SlineOK (BLRecv.init buf cap).line := ⟨rfl, hblk, by simp [BLRecv.init, Sline.init]⟩
  have habs : (BLRecv.init buf cap).abs = LRecv.init cap.toNat := by
    simp [BLRecv.abs, BLRecv.init, Sline.init, Sline.bytes, LRecv.init]
  rw [← habs]
  exact blfeedTrace_eq _ hok hcap bs

/-- Legacy resynchronisation (start = stop = AC): after ANY garbage prefix `g`
and the first frame `p₁`, every following frame is delivered intact and in
order; the deliveries end with exactly `[p₂, …]` (packet = line minus its
trailing CRC byte, the legacy convention). -/
theorem legacy_resync (cap : Nat) (g : List Byte) (p1 : List Byte) (ps : List (List Byte))
    (hcap : ∀ p ∈ ps, p.length + 2 ≤ cap) :
    ∃ junk, ldelivered (LRecv.init cap) (g ++ (p1 :: ps).flatMap encodeLeg) = junk ++ ps := by
  -- everything up to and including p₁'s closing marker
  have hsplit : g ++ (p1 :: ps).flatMap encodeLeg =
      ((g ++ legStart :: lframeBody p1) ++ [legStart]) ++ ps.flatMap encodeLeg := by
    simp [encodeLeg_eq]
  rw [hsplit, ldelivered_append]
  refine ⟨ldelivered (LRecv.init cap) ((g ++ legStart :: lframeBody p1) ++ [legStart]), ?_⟩
  congr 1
  have hgood : LGood (lfeed (LRecv.init cap) (g ++ legStart :: lframeBody p1)).1 :=
    lfeed_good _ _ (by simp [LGood, LRecv.init])
  have hready : LReady (lfeed (LRecv.init cap) ((g ++ legStart :: lframeBody p1) ++ [legStart])).1 := by
    rw [lfeed_append]; simp only [lfeed]
    exact lready_after_marker _ hgood
  apply lframes_from_ready _ hready
  intro q hq
  rw [lfeed_cap]; exact hcap q hq

/-- from a freshly initialised legacy receiver every frame is delivered, from the first -/
theorem legacy_frames_from_init (cap : Nat) (ps : List (List Byte)) (hcap : ∀ p ∈ ps, p.length + 2 ≤ cap) :
    ldelivered (LRecv.init cap) (ps.flatMap encodeLeg) = ps :=
  lframes_from_ready (LRecv.init cap) (Or.inl (Or.inr rfl)) ps hcap

/-! ### legacy receiver: soundness and the overflow clause (after `fix: legacy gstuff
receiver hunts for the start marker`; before it both clauses were false, see the two
historical witnesses below) -/

/-- LEGACY SOUNDNESS, same shape as `recv_sound`.  Whenever the legacy receiver
answers NEWPACKAGE (to byte `c` after ANY stream `bs`, any capacity): `c` is the
marker, a marker was received before, and the unescaping of the raw bytes since
the LAST marker is exactly the delivered packet followed by its CRC-8 — where
the packet is the line without its last byte (the legacy receiver leaves the
CRC byte in the line, which therefore is never empty here). -/
theorem legacy_sound (cap : Nat) (bs : List Byte) (c : Byte)
    (hn : (lnewchar (lfeed (LRecv.init cap) bs).1 c).2 = NEWPACKAGE) :
    c = legStart ∧ ∃ since, sinceLastStart legStart bs = some since ∧
      unescape Ctx.leg since =
        some ((lnewchar (lfeed (LRecv.init cap) bs).1 c).1.line.dropLast ++
              [strmcrc8 0xFF#8 (lnewchar (lfeed (LRecv.init cap) bs).1 c).1.line.dropLast]) ∧
      (lnewchar (lfeed (LRecv.init cap) bs).1 c).1.line ≠ [] := by
  have hs := lfeed_sound (LRecv.init cap) none bs (by simp [LSound, LRecv.init])
  exact lnewpackage_sound _ _ c hs hn

-- non-vacuity: the frame of [41] is answered with NEWPACKAGE on its closing marker
example : (lnewchar (lfeed (LRecv.init 8) [legStart, 0x41#8, strmcrc8 0xFF#8 [0x41#8]]).1 legStart).2
    = NEWPACKAGE := by decide +kernel

/-- LEGACY OVERFLOW CLAUSE, from ANY reachable state (any history `g`), any
capacity, ANY byte sequence between two markers whose unescaping is valid up
to a point where it has grown beyond capacity-1 bytes: OVERFLOW is answered;
the only thing that can be delivered is a packet completed by the OPENING
marker (begun inside `g`) — nothing of the over-long frame; and the receiver
ends primed for the next frame. -/
theorem legacy_overflow_reported (cap : Nat) (g pre rest : List Byte)
    (hnm : ∀ b ∈ pre ++ rest, b ≠ legStart)
    (u : List Byte) (pend : Bool) (hu : unescPartial Ctx.leg pre = some (u, pend))
    (hbig : cap - 1 < u.length) :
    OVERFLOW ∈ (lfeed (lfeed (LRecv.init cap) g).1 (legStart :: ((pre ++ rest) ++ [legStart]))).2 ∧
    ldelivered (lfeed (LRecv.init cap) g).1 (legStart :: ((pre ++ rest) ++ [legStart])) =
      ldelivered (lfeed (LRecv.init cap) g).1 [legStart] ∧
    (lfeed (lfeed (LRecv.init cap) g).1 (legStart :: ((pre ++ rest) ++ [legStart]))).1 =
      ⟨.l1, 0xFF#8, [], cap⟩ := by
  have hgood : LGood (lfeed (LRecv.init cap) g).1 := lfeed_good _ _ (by simp [LGood, LRecv.init])
  have hcap : (lfeed (LRecv.init cap) g).1.cap = cap := lfeed_cap _ _
  generalize (lfeed (LRecv.init cap) g).1 = r at hgood hcap
  obtain ⟨hm, hmc⟩ := lafter_marker r hgood
  rw [hcap] at hm hmc
  -- the body, fed to the primed receiver
  obtain ⟨o1, o2, o3⟩ := lfeed_body_overflow ⟨.l1, 0xFF#8, [], cap⟩ pre rest (Or.inl rfl)
    (by simp [LLineOK]) hnm u pend (by simpa [unescFrom, unescPartial] using hu) hbig
  -- the receiver after the opening marker behaves like the primed one on the (non-empty) body
  have hne : pre ++ rest ≠ [] := by
    intro he
    have : pre = [] := (List.append_eq_nil_iff.mp he).1
    subst this
    simp [unescPartial] at hu
    rw [hu.1] at hbig; simp at hbig
  have hsame : lfeed (lnewchar r legStart).1 (pre ++ rest) = lfeed ⟨.l1, 0xFF#8, [], cap⟩ (pre ++ rest) ∧
      ldelivered (lnewchar r legStart).1 (pre ++ rest) = ldelivered ⟨.l1, 0xFF#8, [], cap⟩ (pre ++ rest) := by
    rcases hm with h0 | h1
    · obtain ⟨c, cs, hcs⟩ := List.exists_cons_of_ne_nil hne
      generalize (lnewchar r legStart).1 = r1 at h0 hmc
      obtain ⟨st, crc, line, cap1⟩ := r1
      simp only at h0 hmc; subst h0; subst hmc
      rw [hcs]; exact lfeed_l0 crc line cap1 c cs
    · rw [h1]; exact ⟨rfl, rfl⟩
  -- the closing marker primes the hunting receiver
  have hclose : ∀ r3 : LRecv, r3.state = .l3 → r3.cap = cap →
      lnewchar r3 legStart = (⟨.l1, 0xFF#8, [], cap⟩, CONTINUE) := by
    intro r3 h3 hc3
    obtain ⟨st, crc, line, cap3⟩ := r3
    simp only at h3 hc3; subst h3; subst hc3
    rw [lnewchar_l3]; simp
  have hc3 : (lfeed ⟨.l1, 0xFF#8, [], cap⟩ (pre ++ rest)).1.cap = cap := lfeed_cap _ _
  have hcl := hclose _ o2 hc3
  generalize pre ++ rest = body at o1 o2 o3 hsame hcl ⊢
  simp only [lfeed, ldelivered, lfeed_append, ldelivered_append, hsame.1, hsame.2, o3,
    hcl, List.nil_append]
  refine ⟨List.mem_cons_of_mem _ (List.mem_append_left _ o1), ?_, trivial⟩
  split <;> simp [CONTINUE, NEWPACKAGE]

-- non-vacuity: 41 42 43 does not fit into a 3-byte buffer
example : (∀ b ∈ [0x41#8, 0x42#8, 0x43#8] ++ ([] : List Byte), b ≠ legStart) ∧
    unescPartial Ctx.leg [0x41#8, 0x42#8, 0x43#8] = some ([0x41#8, 0x42#8, 0x43#8], false) ∧
    3 - 1 < [0x41#8, 0x42#8, 0x43#8].length := by decide

/-- historical witness for the overflow clause (audit finding, defect
C05-legacy-no-hunt): the WELL-FORMED frame of the payload 01 02 EB 41 does not
fit into a 3-byte buffer; before the repair the receiver answered OVERFLOW on EB
and then delivered the tail `41` as a packet (statuses C C C O C C N); the
repaired receiver skips the tail -/
theorem legacy_overflow_tail_witness :
    gstuffingLeg [0x01#8, 0x02#8, 0xEB#8, 0x41#8] = [0xAC#8, 0x01#8, 0x02#8, 0xEB#8, 0x41#8, 0xA0#8, 0xAC#8] ∧
    (lfeed (LRecv.init 3) (gstuffingLeg [0x01#8, 0x02#8, 0xEB#8, 0x41#8])).2 =
      [CONTINUE, CONTINUE, CONTINUE, OVERFLOW, CONTINUE, CONTINUE, CONTINUE] ∧
    ldelivered (LRecv.init 3) (gstuffingLeg [0x01#8, 0x02#8, 0xEB#8, 0x41#8]) = [] := by
  decide +kernel

/-- historical witness (defect C05-legacy-no-hunt, repaired by `fix: legacy
receiver hunts for the start marker`): before the repair `41 crc AC` with no
start marker at all was delivered as the packet [41]; the repaired receiver
skips everything in front of the first marker and delivers nothing -/
theorem legacy_no_hunt_witness :
    sinceLastStart legStart [0x41#8, strmcrc8 0xFF#8 [0x41#8]] = none ∧
    ldelivered (LRecv.init 16) [0x41#8, strmcrc8 0xFF#8 [0x41#8], legStart] = [] := by
  decide +kernel

/-- historical witness: before the repair the bytes after a DATA_ERROR (invalid
escape) were accumulated without waiting for a start marker, `AC AD 00 41 crc AC`
delivered [41] although the bytes since the last start marker (`AD 00 41 crc`)
do not unescape; the repaired receiver hunts for the next marker and delivers nothing -/
theorem legacy_no_hunt_after_error_witness :
    ldelivered (LRecv.init 16) [legStart, legStub, 0x00#8, 0x41#8, strmcrc8 0xFF#8 [0x41#8], legStart] = [] ∧
    unescape ⟨legStart, legStart, legStub, legStubStart, legStubStart, legStubStub⟩
      [legStub, 0x00#8, 0x41#8, strmcrc8 0xFF#8 [0x41#8]] = none := by
  decide +kernel

/-! ### round 3: soundness and overflow clauses ON THE BUFFER-LEVEL MODEL, both receivers -/

/-- LEGACY SOUNDNESS about the C object itself (`struct sline` block, 32-bit counters, every access
checked): after ANY stream `bs` fed to `gstuff_autorecv_setbuf_v1(buf, cap)` (any block, any declared
capacity ≤ |buf|), whenever `gstuff_autorecv_newchar_v1` answers NEWPACKAGE to a byte `c`: `c` is the
marker; a marker was received before; reading the packet through `sline_getline` / `sline_size` does
not fault and hands over a NON-EMPTY line of at most cap-1 bytes; and the unescaping of the raw bytes
since the last marker is exactly (line minus its last byte) followed by the matching CRC-8 — a packet
is delivered only if its CRC matches. -/
theorem legacy_sound_buf (buf : List Byte) (cap : BitVec 32) (hblk : cap.toNat ≤ buf.length)
    (bs : List Byte) (c : Byte) (r r' : BLRecv) (ss : List Int)
    (h1 : blfeed (BLRecv.init buf cap) bs = some (r, ss)) (h2 : blnewchar r c = some (r', NEWPACKAGE)) :
    c = legStart ∧ ∃ since r'' line, sinceLastStart legStart bs = some since ∧
      r'.getline = some (r'', line) ∧ line ≠ [] ∧ line.length + 1 ≤ cap.toNat ∧
      unescape Ctx.leg since = some (line.dropLast ++ [strmcrc8 0xFF#8 line.dropLast]) := by
  have hok : SlineOK (BLRecv.init buf cap).line := ⟨rfl, hblk, by simp [BLRecv.init, Sline.init]⟩
  have habs : (BLRecv.init buf cap).abs = LRecv.init cap.toNat := by
    simp [BLRecv.abs, BLRecv.init, Sline.init, Sline.bytes, LRecv.init]
  obtain ⟨r0, e1, e2, e3, e4, _, _⟩ := blfeed_refines (BLRecv.init buf cap) hok bs
  rw [e1] at h1
  simp only [Option.some.injEq, Prod.mk.injEq] at h1
  obtain ⟨rfl, _⟩ := h1
  obtain ⟨r1, f1, f2, f3, _, _⟩ := blnewchar_refines r0 e3 c
  rw [f1] at h2
  simp only [Option.some.injEq, Prod.mk.injEq] at h2
  obtain ⟨rfl, hst⟩ := h2
  rw [habs] at e2
  rw [e2] at hst f2
  obtain ⟨hc, since, hs1, hs2, hs3⟩ := legacy_sound cap.toNat bs c hst
  rw [← f2] at hs2 hs3
  have hcap1 : r1.line.cap = cap := by
    have := congrArg LRecv.cap f2
    rw [lnewchar_cap, lfeed_cap] at this
    exact BitVec.eq_of_toNat_eq this
  have hlen : r1.abs.line.length ≤ cap.toNat - 1 := by
    have := f3.bound
    rw [hcap1] at this
    simp only [BLRecv.abs, Sline.bytes, List.length_take]
    omega
  have hpos : 1 ≤ r1.abs.line.length := by
    cases hq : r1.abs.line with
    | nil => exact absurd hq hs3
    | cons x xs => simp
  obtain ⟨r2, g1, _, _⟩ := lgetline_ok r1 f3 (by rw [hcap1]; omega)
  exact ⟨hc, since, r2, r1.abs.line, hs1, g1, hs3, by omega, hs2⟩

-- non-vacuity: the buffer-level legacy receiver does answer NEWPACKAGE (frame of [41] in an 8-byte block)
example : ((blfeed (BLRecv.init (List.replicate 8 0xA5#8) 8#32) [legStart, 0x41#8, strmcrc8 0xFF#8 [0x41#8]]).bind
    fun x => blnewchar x.1 legStart).map (·.2) = some NEWPACKAGE := by decide +kernel

/-- the same for the configurable receiver on the buffer-level model (`init(buf, cap)`, `cstr()` /
`size()`): NEWPACKAGE only on the stop marker, `cstr()` does not fault, the line it hands over has at
most cap-2 bytes and line ++ crc8(line) is the unescaping of the raw bytes since the last start marker -/
theorem recv_sound_buf (ctx : Ctx) (h : ctx.WF) (buf : List Byte) (cap : BitVec 32) (hblk : cap.toNat ≤ buf.length)
    (bs : List Byte) (c : Byte) (r r' : BRecv) (ss : List Int)
    (h1 : bfeed ctx (BRecv.init buf cap) bs = some (r, ss)) (h2 : bnewchar ctx r c = some (r', NEWPACKAGE)) :
    c = ctx.stop ∧ ∃ since r'' line, sinceLastStart ctx.start bs = some since ∧
      r'.cstr = some (r'', line) ∧ line.length + 2 ≤ cap.toNat ∧
      unescape ctx since = some (line ++ [strmcrc8 0xFF#8 line]) := by
  have hok : SlineOK (BRecv.init buf cap).line := ⟨rfl, hblk, by simp [BRecv.init, Sline.init]⟩
  have habs : (BRecv.init buf cap).abs = Recv.init cap.toNat := by
    simp [BRecv.abs, BRecv.init, Sline.init, Sline.bytes, Recv.init]
  obtain ⟨r0, e1, e2, e3, e4, _, _⟩ := bfeed_refines ctx (BRecv.init buf cap) hok bs
  rw [e1] at h1
  simp only [Option.some.injEq, Prod.mk.injEq] at h1
  obtain ⟨rfl, _⟩ := h1
  obtain ⟨r1, f1, f2, f3, _, _⟩ := bnewchar_refines ctx r0 e3 c
  rw [f1] at h2
  simp only [Option.some.injEq, Prod.mk.injEq] at h2
  obtain ⟨rfl, hst⟩ := h2
  rw [habs] at e2
  rw [e2] at hst f2
  obtain ⟨hc, since, hs1, hs2⟩ := recv_sound ctx h cap.toNat bs c hst
  rw [← f2] at hs2
  -- before the stop marker the line was  line ++ [crc]  (non-empty: CRC residue 0 ≠ FF), at most cap - 1 bytes
  obtain ⟨n1, _, n3, n4⟩ := newpackage_inv ctx (feed ctx (Recv.init cap.toNat) bs).1 c hst
  have hgood : Good (feed ctx (Recv.init cap.toNat) bs).1 := feed_good ctx _ bs (by simp [Good, Recv.init])
  have hne : (feed ctx (Recv.init cap.toNat) bs).1.line ≠ [] := by
    intro he
    have := hgood n1 he
    rw [n3] at this
    exact absurd this (by decide)
  have hb := (recv_bounds ctx cap.toNat bs).1
  have hpos : 1 ≤ (feed ctx (Recv.init cap.toNat) bs).1.line.length := by
    cases hq : (feed ctx (Recv.init cap.toNat) bs).1.line with
    | nil => exact absurd hq hne
    | cons x xs => simp
  have hl1 : r1.abs.line.length + 2 ≤ cap.toNat := by
    rw [f2, n4, List.length_dropLast]; omega
  have hcap1 : r1.line.cap = cap := by
    have := congrArg Recv.cap f2
    rw [newchar_cap, feed_cap] at this
    exact BitVec.eq_of_toNat_eq this
  obtain ⟨r2, g1, _, _⟩ := cstr_ok r1 f3 (by rw [hcap1]; omega)
  exact ⟨hc, since, r2, r1.abs.line, hs1, g1, hl1, hs2⟩

/-- LEGACY OVERFLOW CLAUSE about the C object: block `buf`, declared capacity 1 ≤ cap ≤ |buf|, ANY
history `g`, ANY marker-free byte sequence between two markers whose unescaping grows beyond cap-1
bytes: the trace computed on the buffer-level model (what the driver prints, `sline_getline` at every
NEWPACKAGE) exists — NO ACCESS OUTSIDE THE BLOCK —, contains OVERFLOW among the answers to the frame,
and its deliveries are those of `g` followed by the opening marker alone: nothing of the over-long frame -/
theorem legacy_overflow_reported_buf (buf : List Byte) (cap : BitVec 32) (hcap1 : 1 ≤ cap.toNat)
    (hblk : cap.toNat ≤ buf.length) (g pre rest : List Byte)
    (hnm : ∀ b ∈ pre ++ rest, b ≠ legStart)
    (u : List Byte) (pend : Bool) (hu : unescPartial Ctx.leg pre = some (u, pend))
    (hbig : cap.toNat - 1 < u.length) :
    ∃ t t0, blfeedTrace (BLRecv.init buf cap) (g ++ legStart :: ((pre ++ rest) ++ [legStart])) = some t ∧
      blfeedTrace (BLRecv.init buf cap) (g ++ [legStart]) = some t0 ∧
      'O' ∈ t.1.drop g.length ∧ t.2 = t0.2 := by
  obtain ⟨o1, o2, _⟩ := legacy_overflow_reported cap.toNat g pre rest hnm u pend hu hbig
  refine ⟨_, _, legacy_trace_never_faults buf cap hcap1 hblk _, legacy_trace_never_faults buf cap hcap1 hblk _, ?_, ?_⟩
  · rw [lfeedTrace_eq, lfeed_append]
    simp only [List.map_append]
    rw [List.drop_left' (by rw [List.length_map, lfeed_length])]
    exact List.mem_map.mpr ⟨OVERFLOW, o1, by decide⟩
  · rw [lfeedTrace_eq, lfeedTrace_eq]
    simp only [ldelivered_append, o2]

/-- the configurable receiver alike (start ≠ stop: from any history; the start = stop case needs a
ready receiver, see `overflow_any_state`): buffer-level trace exists, OVERFLOW answered inside the
frame, deliveries = those of the history `g` -/
theorem overflow_reported_buf (ctx : Ctx) (h : ctx.WF) (hne : ctx.start ≠ ctx.stop)
    (buf : List Byte) (cap : BitVec 32) (hcap1 : 1 ≤ cap.toNat) (hblk : cap.toNat ≤ buf.length)
    (g pre rest : List Byte) (hnm : ∀ b ∈ pre ++ rest, b ≠ ctx.start ∧ b ≠ ctx.stop)
    (u : List Byte) (pend : Bool) (hu : unescPartial ctx pre = some (u, pend))
    (hbig : cap.toNat - 1 < u.length) :
    ∃ t t0, bfeedTrace ctx (BRecv.init buf cap) (g ++ ctx.start :: ((pre ++ rest) ++ [ctx.stop])) = some t ∧
      bfeedTrace ctx (BRecv.init buf cap) g = some t0 ∧
      'O' ∈ t.1.drop g.length ∧ t.2 = t0.2 := by
  have hc : (feed ctx (Recv.init cap.toNat) g).1.cap = cap.toNat := feed_cap ctx _ g
  obtain ⟨o1, o2, _⟩ := overflow_any_state ctx h (feed ctx (Recv.init cap.toNat) g).1 (Or.inl hne) pre rest hnm u pend hu
    (by rw [hc]; exact hbig)
  refine ⟨_, _, recv_trace_never_faults ctx buf cap hcap1 hblk _, recv_trace_never_faults ctx buf cap hcap1 hblk _, ?_, ?_⟩
  · rw [feedTrace_eq, feed_append]
    simp only [List.map_append]
    rw [List.drop_left' (by rw [List.length_map, feed_length])]
    exact List.mem_map.mpr ⟨OVERFLOW, o1, by decide⟩
  · rw [feedTrace_eq, feedTrace_eq]
    simp only [delivered_append, o2, List.append_nil]

/-- a legacy struct used WITHOUT `gstuff_autorecv_setbuf_v1` (zero-initialised: state 0, crc 0, no
buffer, capacity 0 — how a session starts): no call faults and nothing is ever stored -/
theorem legacy_nobuf_never_faults (bs : List Byte) :
    ∃ r', blfeed ⟨.l0, 0#8, ⟨[], 0, 0, 0⟩⟩ bs = some (r', (lfeed ⟨.l0, 0#8, [], 0⟩ bs).2) ∧
      r'.line.len = 0 ∧ r'.line.buf = [] := by
  have hok : SlineOK (⟨.l0, 0#8, ⟨[], 0, 0, 0⟩⟩ : BLRecv).line := ⟨rfl, by simp, by simp⟩
  obtain ⟨r', e1, _, e3, e4, e5, _⟩ := blfeed_refines ⟨.l0, 0#8, ⟨[], 0, 0, 0⟩⟩ hok bs
  refine ⟨r', e1, ?_, ?_⟩
  · have := e3.bound
    rw [e4] at this
    exact BitVec.eq_of_toNat_eq (by simpa using this)
  · exact List.eq_nil_of_length_eq_zero (by simpa using e5)

/-! ### round 3: resynchronisation, exactly -/

/-- SELF-RESYNCHRONISATION, EXACT FORM, every well-formed alphabet (start ≠ stop AND start = stop),
any garbage `g` fed to a fresh receiver (`g` arbitrary = every reachable state), frames p₁ p₂ … of
which p₂ … fit.  Let r' be the receiver after the garbage.
  (1) EXACTLY ONE FRAME — the first — IS LOST iff  start = stop  and r' is inside a frame with a
      non-empty line: p₁'s opening marker is then taken for the stop marker, which delivers the line
      begun inside the garbage (if its CRC happens to match) or nothing; p₁ — of ANY length, fitting
      or not — is skipped; every later frame is delivered.
  (2) in every other case NO frame is lost: all of p₁ p₂ … are delivered, in order, nothing else.
So at most one frame is lost, never a later one, and the condition under which it is lost is decidable
from the receiver state. -/
theorem resync_loss_exact (ctx : Ctx) (h : ctx.WF) (cap : Nat) (g p1 : List Byte) (ps : List (List Byte))
    (hcap : ∀ p ∈ ps, p.length + 2 ≤ cap) :
    (ctx.start = ctx.stop ∧ (feed ctx (Recv.init cap) g).1.state = .s1 ∧ (feed ctx (Recv.init cap) g).1.line ≠ [] →
      delivered ctx (Recv.init cap) (g ++ (p1 :: ps).flatMap (encode ctx)) =
        delivered ctx (Recv.init cap) g ++
          (if (feed ctx (Recv.init cap) g).1.crc = 0#8 then [(feed ctx (Recv.init cap) g).1.line.dropLast] else []) ++ ps) ∧
    (¬ (ctx.start = ctx.stop ∧ (feed ctx (Recv.init cap) g).1.state = .s1 ∧ (feed ctx (Recv.init cap) g).1.line ≠ []) →
      p1.length + 2 ≤ cap →
      delivered ctx (Recv.init cap) (g ++ (p1 :: ps).flatMap (encode ctx)) =
        delivered ctx (Recv.init cap) g ++ p1 :: ps) := by
  have hc : (feed ctx (Recv.init cap) g).1.cap = cap := feed_cap ctx _ g
  have hgood : Good (feed ctx (Recv.init cap) g).1 := feed_good ctx _ g (by simp [Good, Recv.init])
  rw [delivered_append, List.flatMap_cons, delivered_append]
  generalize (feed ctx (Recv.init cap) g).1 = r' at hc hgood
  obtain ⟨st, crc, line, cap'⟩ := r'
  simp only at hc; subst hc
  constructor
  · rintro ⟨he, hs, hl⟩
    simp only at hs hl; subst hs
    obtain ⟨d, rd, cp⟩ := first_frame_inframe ctx h he crc line cap' hl p1
    rw [d, frames_from_ready ctx h _ rd ps (by intro q hq; rw [cp]; exact hcap q hq)]
    simp
  · intro hn hp1
    have key : delivered ctx ⟨st, crc, line, cap'⟩ (encode ctx p1) = [p1] ∧
        Ready (feed ctx ⟨st, crc, line, cap'⟩ (encode ctx p1)).1 ∧
        (feed ctx ⟨st, crc, line, cap'⟩ (encode ctx p1)).1.cap = cap' := by
      by_cases he : ctx.start = ctx.stop
      · cases st
        · exact frame_from_ready ctx h _ (Or.inl (Or.inl rfl)) p1 hp1
        · exact frame_from_ready ctx h _ (Or.inl (Or.inr rfl)) p1 hp1
        · have hl : line = [] := by
            by_cases hl : line = []
            · exact hl
            · exact absurd ⟨he, rfl, hl⟩ hn
          subst hl
          have hk : crc = 0xFF#8 := hgood rfl rfl
          subst hk
          exact frame_from_ready ctx h _ (Or.inr ⟨rfl, rfl, rfl⟩) p1 hp1
        · exact first_frame_s2 ctx h crc line cap' p1 hp1
      · obtain ⟨d, s0, cp⟩ := frame_any_state_distinct ctx h he ⟨st, crc, line, cap'⟩ p1 hp1
        exact ⟨d, Or.inl (Or.inl s0), cp⟩
    obtain ⟨d, rd, cp⟩ := key
    rw [d, frames_from_ready ctx h _ rd ps (by intro q hq; rw [cp]; exact hcap q hq)]
    simp

-- non-vacuity of both branches: see `resync_loss_tight_witness`

/-- the bound "one frame" is tight and so is "none": v0, capacity 8, frames [41] [42]; after the
garbage `AC 66` (in a frame, line 66) the first frame is lost, after the garbage `66` (hunting) none -/
theorem resync_loss_tight_witness :
    delivered Ctx.v0 (Recv.init 8) ([0xAC#8, 0x66#8] ++ [[0x41#8], [0x42#8]].flatMap (encode Ctx.v0)) = [[0x42#8]] ∧
    delivered Ctx.v0 (Recv.init 8) ([0x66#8] ++ [[0x41#8], [0x42#8]].flatMap (encode Ctx.v0)) = [[0x41#8], [0x42#8]] := by
  decide +kernel

/-- LEGACY RECEIVER (start = stop = AC), exact form: after ANY garbage `g` NO FRAME IS LOST — every
frame p₁ p₂ … that fits is delivered, in order; the only other delivery is at most one packet completed
by p₁'s opening marker (begun inside the garbage).  (The legacy automaton treats every marker as both
stop and start: state 0 accumulates at once, which is why it does better than "from the second at the
latest"; `legacy_resync` of the first round only said `junk ++ [p₂ …]` with unbounded junk.) -/
theorem legacy_resync_exact (cap : Nat) (g p1 : List Byte) (ps : List (List Byte))
    (hcap : ∀ p ∈ p1 :: ps, p.length + 2 ≤ cap) :
    ldelivered (LRecv.init cap) (g ++ (p1 :: ps).flatMap encodeLeg) =
      ldelivered (LRecv.init cap) (g ++ [legStart]) ++ p1 :: ps ∧
    (ldelivered (LRecv.init cap) (g ++ [legStart])).length ≤ (ldelivered (LRecv.init cap) g).length + 1 := by
  have hsplit : g ++ (p1 :: ps).flatMap encodeLeg =
      (g ++ [legStart]) ++ ((lframeBody p1 ++ [legStart]) ++ ps.flatMap encodeLeg) := by
    simp [encodeLeg_eq]
  have hgood : LGood (lfeed (LRecv.init cap) g).1 := lfeed_good _ _ (by simp [LGood, LRecv.init])
  have hcg : (lfeed (LRecv.init cap) g).1.cap = cap := lfeed_cap _ _
  constructor
  · rw [hsplit, ldelivered_append, ldelivered_append]
    congr 1
    rw [lfeed_append]
    simp only [lfeed]
    generalize (lfeed (LRecv.init cap) g).1 = r at hgood hcg
    obtain ⟨hm, hmc⟩ := lafter_marker r hgood
    rw [hcg] at hm hmc
    obtain ⟨t1, t2, _, t4⟩ := lframe_tail p1 0xFF#8 cap (hcap p1 (by simp))
    -- the receiver after the opening marker behaves like the primed one on the (non-empty) rest of the frame
    have hne : lframeBody p1 ++ [legStart] ≠ [] := by simp
    obtain ⟨c, cs, hcs⟩ := List.exists_cons_of_ne_nil hne
    have hsame : lfeed (lnewchar r legStart).1 (lframeBody p1 ++ [legStart]) =
          lfeed ⟨.l1, 0xFF#8, [], cap⟩ (lframeBody p1 ++ [legStart]) ∧
        ldelivered (lnewchar r legStart).1 (lframeBody p1 ++ [legStart]) =
          ldelivered ⟨.l1, 0xFF#8, [], cap⟩ (lframeBody p1 ++ [legStart]) := by
      rcases hm with h0 | h1
      · generalize (lnewchar r legStart).1 = r1 at h0 hmc
        obtain ⟨st, crc, line, cap1⟩ := r1
        simp only at h0 hmc; subst h0; subst hmc
        rw [hcs]; exact lfeed_l0 crc line cap1 c cs
      · rw [h1]; exact ⟨rfl, rfl⟩
    rw [ldelivered_append, hsame.1, hsame.2, t4 rfl]
    have hready : LReady (lfeed ⟨.l1, 0xFF#8, [], cap⟩ (lframeBody p1 ++ [legStart])).1 := Or.inl (Or.inl t1)
    rw [lframes_from_ready _ hready ps (by intro q hq; rw [t2]; exact hcap q (by simp [hq]))]
    simp
  · rw [ldelivered_append]
    simp only [ldelivered, List.length_append]
    split <;> simp

-- non-vacuity: garbage AC 66 (in a frame), then the frames of [41] and [42]: both delivered
example : ldelivered (LRecv.init 8) ([0xAC#8, 0x66#8] ++ [[0x41#8], [0x42#8]].flatMap encodeLeg) = [[0x41#8], [0x42#8]] := by
  decide +kernel

/-! ### round 3b: the overflow clause on the buffer-level trace when start = stop -/

/-- `overflow_reported_buf` WITHOUT the restriction start ≠ stop: the history `g` may leave the receiver in any
state when the markers differ, in any READY state (between frames or primed) when they coincide (v0).  The
buffer-level trace the driver prints exists, OVERFLOW is among the answers to the over-long frame, deliveries =
those of the history. -/
theorem overflow_reported_buf_ready (ctx : Ctx) (h : ctx.WF)
    (buf : List Byte) (cap : BitVec 32) (hcap1 : 1 ≤ cap.toNat) (hblk : cap.toNat ≤ buf.length)
    (g pre rest : List Byte)
    (hr : ctx.start ≠ ctx.stop ∨ Ready (feed ctx (Recv.init cap.toNat) g).1)
    (hnm : ∀ b ∈ pre ++ rest, b ≠ ctx.start ∧ b ≠ ctx.stop)
    (u : List Byte) (pend : Bool) (hu : unescPartial ctx pre = some (u, pend))
    (hbig : cap.toNat - 1 < u.length) :
    ∃ t t0, bfeedTrace ctx (BRecv.init buf cap) (g ++ ctx.start :: ((pre ++ rest) ++ [ctx.stop])) = some t ∧
      bfeedTrace ctx (BRecv.init buf cap) g = some t0 ∧
      'O' ∈ t.1.drop g.length ∧ t.2 = t0.2 := by
  have hc : (feed ctx (Recv.init cap.toNat) g).1.cap = cap.toNat := feed_cap ctx _ g
  obtain ⟨o1, o2, _⟩ := overflow_any_state ctx h (feed ctx (Recv.init cap.toNat) g).1 hr pre rest hnm u pend hu
    (by rw [hc]; exact hbig)
  refine ⟨_, _, recv_trace_never_faults ctx buf cap hcap1 hblk _, recv_trace_never_faults ctx buf cap hcap1 hblk _, ?_, ?_⟩
  · rw [feedTrace_eq, feed_append]
    simp only [List.map_append]
    rw [List.drop_left' (by rw [List.length_map, feed_length])]
    exact List.mem_map.mpr ⟨OVERFLOW, o1, by decide⟩
  · rw [feedTrace_eq, feedTrace_eq]
    simp only [delivered_append, o2, List.append_nil]

-- non-vacuity (v0, start = stop): after the history "frame of [41]" (a delivered packet) the receiver is between frames
example : Ctx.v0.start = Ctx.v0.stop ∧ Ready (feed Ctx.v0 (Recv.init 3) (encode Ctx.v0 [0x41#8])).1 :=
  ⟨by decide, Or.inl (Or.inl (by decide +kernel))⟩

/-- THE REMAINING CASE, exactly: start = stop and the history leaves the receiver INSIDE a frame with a
non-empty line (the only states that are not `Ready` besides "after the escape byte", from which the opening
marker restarts the frame).  Then the opening marker of the next frame is taken for a stop marker and the
frame - over-long or not, ANY body without a marker - is skipped as garbage: the buffer-level trace exists (no
access outside the block), what is delivered is exactly what the history followed by that one marker delivers
(NOTHING of the frame), and OVERFLOW is not among the answers.  So "not delivered" holds in every state;
"reported as overflow" fails exactly here (`overflow_coincide_inframe_witness`): this frame is the one the
resynchronisation clause allows to be lost when the markers coincide (`resync_loss_exact`). -/
theorem overflow_coincide_inframe_buf (ctx : Ctx) (he : ctx.start = ctx.stop)
    (buf : List Byte) (cap : BitVec 32) (hcap1 : 1 ≤ cap.toNat) (hblk : cap.toNat ≤ buf.length)
    (g body : List Byte) (hnm : ∀ b ∈ body, b ≠ ctx.start)
    (hs : (feed ctx (Recv.init cap.toNat) g).1.state = .s1)
    (hl : (feed ctx (Recv.init cap.toNat) g).1.line ≠ []) :
    ∃ t t0, bfeedTrace ctx (BRecv.init buf cap) (g ++ ctx.start :: (body ++ [ctx.stop])) = some t ∧
      bfeedTrace ctx (BRecv.init buf cap) (g ++ [ctx.start]) = some t0 ∧
      t.2 = t0.2 ∧ 'O' ∉ t.1.drop g.length := by
  have key : delivered ctx (feed ctx (Recv.init cap.toNat) g).1 (ctx.start :: (body ++ [ctx.stop])) =
        delivered ctx (feed ctx (Recv.init cap.toNat) g).1 [ctx.start] ∧
      OVERFLOW ∉ (feed ctx (feed ctx (Recv.init cap.toNat) g).1 (ctx.start :: (body ++ [ctx.stop]))).2 := by
    generalize (feed ctx (Recv.init cap.toNat) g).1 = r at hs hl
    obtain ⟨st, crc, line, cp⟩ := r
    simp only at hs hl
    subst hs
    exact inframe_swallow ctx he crc line cp hl body hnm
  refine ⟨_, _, recv_trace_never_faults ctx buf cap hcap1 hblk _, recv_trace_never_faults ctx buf cap hcap1 hblk _, ?_, ?_⟩
  · rw [feedTrace_eq, feedTrace_eq]
    simp only [delivered_append, key.1]
  · rw [feedTrace_eq, feed_append]
    simp only [List.map_append]
    rw [List.drop_left' (by rw [List.length_map, feed_length])]
    intro hmem
    obtain ⟨x, hx, hxo⟩ := List.mem_map.mp hmem
    have : x = OVERFLOW := stsChar_O x hxo
    exact key.2 (this ▸ hx)

example : Ctx.v0.start = Ctx.v0.stop ∧ (feed Ctx.v0 (Recv.init 3) [0xAC#8, 0x55#8]).1.state = .s1 ∧
    (feed Ctx.v0 (Recv.init 3) [0xAC#8, 0x55#8]).1.line ≠ [] := by decide +kernel

/-! ### round 3b: `cstr()` / `sline_getline` at capacity 0 (was "Still open") -/

/-- `recv_trace_never_faults` for EVERY declared capacity, 0 included: the trace the driver computes on the
buffer-level model, with `cstr()` at every NEWPACKAGE, never faults and is the list-level trace.  (The model
of `sline_getline` now has the guard `if (sl->cap)` of the repaired code.) -/
theorem recv_trace_never_faults_any_cap (ctx : Ctx) (buf : List Byte) (cap : BitVec 32)
    (hblk : cap.toNat ≤ buf.length) (bs : List Byte) :
    bfeedTrace ctx (BRecv.init buf cap) bs = some (feedTrace ctx (Recv.init cap.toNat) bs) := by
  have hok : SlineOK (BRecv.init buf cap).line := ⟨rfl, hblk, by simp [BRecv.init, Sline.init]⟩
  have habs : (BRecv.init buf cap).abs = Recv.init cap.toNat := by
    simp [BRecv.abs, BRecv.init, Sline.init, Sline.bytes, Recv.init]
  rw [← habs]
  exact bfeedTrace_eq_any ctx _ hok bs

/-- the legacy receiver alike -/
theorem legacy_trace_never_faults_any_cap (buf : List Byte) (cap : BitVec 32)
    (hblk : cap.toNat ≤ buf.length) (bs : List Byte) :
    blfeedTrace (BLRecv.init buf cap) bs = some (lfeedTrace (LRecv.init cap.toNat) bs) := by
  have hok : SlineOK (BLRecv.init buf cap).line := ⟨rfl, hblk, by simp [BLRecv.init, Sline.init]⟩
  have habs : (BLRecv.init buf cap).abs = LRecv.init cap.toNat := by
    simp [BLRecv.abs, BLRecv.init, Sline.init, Sline.bytes, LRecv.init]
  rw [← habs]
  exact blfeedTrace_eq_any _ hok bs

/-- `cstr()` called AT ANY TIME (not only after NEWPACKAGE), after any stream, at any capacity, and on the
receiver that never got a buffer (`gstuff_autorecv(ctx)`: NULL, capacity 0): it does not fault and hands over
the bytes of the list-level line; with capacity 0 it stores nothing (the receiver object, its block included,
is unchanged) and the line is empty. -/
theorem cstr_any_time (ctx : Ctx) (buf : List Byte) (cap : BitVec 32)
    (hblk : cap.toNat ≤ buf.length) (bs : List Byte) :
    ∃ r' r'' sts, bfeed ctx (BRecv.init buf cap) bs = some (r', sts) ∧
      r'.cstr = some (r'', (feed ctx (Recv.init cap.toNat) bs).1.line) ∧
      (cap = 0 → r'' = r' ∧ (feed ctx (Recv.init cap.toNat) bs).1.line = []) := by
  obtain ⟨r', e1, e2, _, e4, e5, _, _⟩ := recv_never_faults ctx buf cap hblk bs
  have hok : SlineOK (BRecv.init buf cap).line := ⟨rfl, hblk, by simp [BRecv.init, Sline.init]⟩
  obtain ⟨_, f1, _, f3, _⟩ := bfeed_refines ctx (BRecv.init buf cap) hok bs
  rw [e1] at f1
  obtain rfl : r' = _ := (Prod.mk.inj (Option.some.inj f1)).1
  obtain ⟨r2, g1, g2, _, g4⟩ := cstr_ok_any r' f3
  refine ⟨r', r2, _, e1, by rw [g1, e2], ?_⟩
  intro h0
  refine ⟨g4 (by rw [e5, h0]), ?_⟩
  have hb := (recv_bounds ctx cap.toNat bs).1
  have h00 : cap.toNat - 1 = 0 := by rw [h0]; rfl
  rw [h00] at hb
  exact List.eq_nil_of_length_eq_zero (by omega)

theorem cstr_nobuf_any_time (ctx : Ctx) (bs : List Byte) :
    ∃ r' sts, bfeed ctx BRecv.noBuf bs = some (r', sts) ∧ r'.cstr = some (r', []) := by
  obtain ⟨r', e1, e2, e3⟩ := recv_nobuf_never_faults ctx bs
  have hok : SlineOK BRecv.noBuf.line := ⟨rfl, by simp [BRecv.noBuf], by simp [BRecv.noBuf]⟩
  obtain ⟨r1, f1, _, f3, f4, _⟩ := bfeed_refines ctx BRecv.noBuf hok bs
  rw [e1] at f1
  obtain rfl : r' = r1 := (Prod.mk.inj (Option.some.inj f1)).1
  refine ⟨r', _, e1, ?_⟩
  have hc : r'.line.cap = 0 := by rw [f4]; rfl
  simp [BRecv.cstr, Sline.getline, hc, e2]

-- non-vacuity: capacity 0 on an empty block
example : (0#32).toNat ≤ ([] : List Byte).length := by decide

/-! ### round 3b: a negative `len` given to `init` / `setbuf_v1` (was "Still open": caller error) -/

/-- INSIDE THE EXCLUDED REGION of `recv_never_faults` (`cap ≤ |buf|`): `init(buf, -1)` - the `int` length
arrives in `sline_init` as the unsigned capacity 0xFFFFFFFF - on a 4-byte block: the receiver accepts more
bytes than the block has and the fifth payload byte is stored outside it (fault); with the true length 4 the
same stream is answered OVERFLOW.  A negative length is a caller error the receiver cannot detect. -/
theorem recv_negative_len_witness :
    bfeed Ctx.v1 (BRecv.init [0, 0, 0, 0] (BitVec.ofInt 32 (-1))) [0xA8, 1, 2, 3, 4, 5] = none ∧
    (bfeed Ctx.v1 (BRecv.init [0, 0, 0, 0] 4#32) [0xA8, 1, 2, 3, 4, 5]).map (·.2) =
      some [CONTINUE, CONTINUE, CONTINUE, CONTINUE, OVERFLOW, GARBAGE] := by decide +kernel

/-- the legacy receiver (`gstuff_autorecv_setbuf_v1(a, buf, -1)`) alike -/
theorem legacy_negative_len_witness :
    blfeed (BLRecv.init [0, 0, 0, 0] (BitVec.ofInt 32 (-1))) [0xAC, 1, 2, 3, 4, 5] = none ∧
    (blfeed (BLRecv.init [0, 0, 0, 0] 4#32) [0xAC, 1, 2, 3, 4, 5]).map (·.2) =
      some [CONTINUE, CONTINUE, CONTINUE, CONTINUE, OVERFLOW, CONTINUE] := by decide +kernel

end Igris.Gstuff
