import IgrisModel.C04.Drv2
def main : IO Unit := Igris.Proto.run () Igris.Gstuff.stepLine2
