/-
  C05 — the buffer-level receivers (C04/Buf.lean: `struct sline` with 32-bit
  counters, explicit faults) never fault and refine the list-level receivers of
  C04/Model.lean, so every theorem about `newchar`/`lnewchar` is a theorem about
  the code that indexes the buffer.
-/
import IgrisModel.C04.More
import IgrisModel.C05.LemmasOvf
namespace Igris.Gstuff
open Igris.Proto Igris.C17

/-- invariant of the C line object inside the receivers: the cursor is at the
end, the block really has (at least) the declared size, one byte stays free -/
structure SlineOK (sl : Sline) : Prop where
  cur : sl.cursor = sl.len
  blk : sl.cap.toNat ≤ sl.buf.length
  bound : sl.len.toNat ≤ sl.cap.toNat - 1

/-- the bytes of the line: `buf[0 .. len)` -/
def Sline.bytes (sl : Sline) : List Byte := sl.buf.take sl.len.toNat

theorem drop_set_of_lt {α : Type} (l : List α) (i n : Nat) (a : α) (h : i < n) :
    (l.set i a).drop n = l.drop n := by
  induction l generalizing i n with
  | nil => simp
  | cons x xs ih =>
    cases n with
    | zero => omega
    | succ m =>
      cases i with
      | zero => simp
      | succ j => simp only [List.set_cons_succ, List.drop_succ_cons]; exact ih j m (by omega)

theorem one_toNat32 : (1 : BitVec 32).toNat = 1 := rfl

/-- `sline_putchar` under the invariant: refuses exactly when the list-level model
refuses (`cap - 1 ≤ len` over `Nat`, capacity 0 included), otherwise stores at
index `len` — never a fault, never a `memmove` -/
theorem putchar_ok (sl : Sline) (h : SlineOK sl) (c : Byte) :
    sl.putchar c =
      if sl.cap.toNat - 1 ≤ sl.len.toNat then some (sl, false)
      else some ({ sl with buf := sl.buf.set sl.len.toNat c, cursor := sl.len + 1, len := sl.len + 1 }, true) := by
  obtain ⟨buf, cap, len, cursor⟩ := sl
  obtain ⟨hc, hb, hl⟩ := h
  simp only at hc hb hl
  subst hc
  have hcl := cap.isLt
  unfold Sline.putchar
  by_cases hfull : cap.toNat - 1 ≤ cursor.toNat
  · have : cursor + 1 ≥ cap := by
      simp only [ge_iff_le, BitVec.le_def, BitVec.toNat_add, one_toNat32]; omega
    rw [if_pos this, if_pos hfull]
  · have : ¬ (cursor + 1 ≥ cap) := by
      simp only [ge_iff_le, BitVec.le_def, BitVec.toNat_add, one_toNat32]; omega
    have hidx : cursor.toNat < buf.length := by omega
    rw [if_neg this, if_neg hfull]
    simp [Sline.store, storeAt, hidx]

/-- the line after an accepted byte -/
theorem putchar_ok_post (sl : Sline) (h : SlineOK sl) (c : Byte) (hroom : ¬ sl.cap.toNat - 1 ≤ sl.len.toNat) :
    SlineOK { sl with buf := sl.buf.set sl.len.toNat c, cursor := sl.len + 1, len := sl.len + 1 } ∧
    Sline.bytes { sl with buf := sl.buf.set sl.len.toNat c, cursor := sl.len + 1, len := sl.len + 1 } =
      sl.bytes ++ [c] := by
  obtain ⟨buf, cap, len, cursor⟩ := sl
  obtain ⟨hc, hb, hl⟩ := h
  simp only at hc hb hl hroom
  subst hc
  have hcl := cap.isLt
  have hn : (cursor + 1).toNat = cursor.toNat + 1 := by
    simp only [BitVec.toNat_add, one_toNat32]; omega
  refine ⟨⟨rfl, by simp only [List.length_set]; exact hb, by simp only [hn]; omega⟩, ?_⟩
  simp only [Sline.bytes, hn]
  exact take_set_succ buf cursor.toNat c (by omega)

/-- `sline_backspace(sl, 1)` under the invariant: drops the last byte (nothing on
an empty line) — never a fault, never a `memmove` -/
theorem backspace_ok (sl : Sline) (h : SlineOK sl) :
    ∃ sl', sl.backspace 1 = some sl' ∧ SlineOK sl' ∧ sl'.cap = sl.cap ∧ sl'.buf = sl.buf ∧
      sl'.bytes = sl.bytes.dropLast := by
  obtain ⟨buf, cap, len, cursor⟩ := sl
  obtain ⟨hc, hb, hl⟩ := h
  simp only at hc hb hl
  subst hc
  have hcl := cap.isLt
  have hul := cursor.isLt
  unfold Sline.backspace
  by_cases h0 : cursor = 0
  · subst h0
    refine ⟨⟨buf, cap, 0, 0⟩, by simp, ⟨rfl, hb, by simp⟩, rfl, rfl, by simp [Sline.bytes]⟩
  · have hpos : 0 < cursor.toNat := by
      rcases Nat.eq_zero_or_pos cursor.toNat with hz | hp
      · exact absurd (BitVec.eq_of_toNat_eq (by simpa using hz)) h0
      · exact hp
    have hgt : ¬ ((1 : BitVec 32) > cursor) := by
      simp only [gt_iff_lt, BitVec.lt_def, one_toNat32]; omega
    have hsub : (cursor - 1).toNat = cursor.toNat - 1 := by
      simp only [BitVec.toNat_sub, one_toNat32]; omega
    refine ⟨⟨buf, cap, cursor - 1, cursor - 1⟩, ?_, ⟨rfl, hb, by simp only [hsub]; omega⟩,
      rfl, rfl, ?_⟩
    · simp only [if_neg hgt, ne_eq, not_true_eq_false, if_false]
    simp only [Sline.bytes, hsub, List.dropLast_eq_take, List.take_take, List.length_take]
    congr 1
    omega

theorem reset_ok (sl : Sline) (hb : sl.cap.toNat ≤ sl.buf.length) :
    SlineOK sl.reset ∧ sl.reset.bytes = [] ∧ sl.reset.cap = sl.cap ∧ sl.reset.buf = sl.buf := by
  refine ⟨⟨rfl, hb, by simp [Sline.reset]⟩, by simp [Sline.reset, Sline.bytes], rfl, rfl⟩

theorem empty_ok (sl : Sline) (h : SlineOK sl) : sl.empty = sl.bytes.isEmpty := by
  obtain ⟨buf, cap, len, cursor⟩ := sl
  obtain ⟨hc, hb, hl⟩ := h
  simp only at hc hb hl
  simp only [Sline.empty, Sline.bytes]
  by_cases h0 : len = 0
  · subst h0; simp
  · have hpos : 0 < len.toNat := by
      rcases Nat.eq_zero_or_pos len.toNat with hz | hp
      · exact absurd (BitVec.eq_of_toNat_eq (by simpa using hz)) h0
      · exact hp
    have : buf.take len.toNat ≠ [] := by
      intro he
      have := congrArg List.length he
      simp only [List.length_take, List.length_nil] at this
      omega
    rw [show decide (len = 0) = false from decide_eq_false h0]
    cases hq : buf.take len.toNat with
    | nil => exact absurd hq this
    | cons x xs => rfl

/-- `sline_getline` (the terminator `buf[len] = 0`) under the invariant, capacity ≥ 1 -/
theorem getline_ok (sl : Sline) (h : SlineOK sl) (hcap : 1 ≤ sl.cap.toNat) :
    ∃ sl', sl.getline = some (sl', sl.bytes) ∧ SlineOK sl' ∧ sl'.bytes = sl.bytes ∧ sl'.cap = sl.cap ∧
      sl'.len = sl.len := by
  obtain ⟨buf, cap, len, cursor⟩ := sl
  obtain ⟨hc, hb, hl⟩ := h
  simp only at hc hb hl hcap
  subst hc
  have hidx : cursor.toNat < buf.length := by omega
  have htake : (buf.set cursor.toNat 0#8).take cursor.toNat = buf.take cursor.toNat := by
    rw [List.take_set_of_le (Nat.le_refl _)]
  have hc0 : ¬ (cap = 0#32) := by
    intro h0; subst h0; simp at hcap
  refine ⟨⟨buf.set cursor.toNat 0, cap, cursor, cursor⟩, ?_, ⟨rfl, by simpa using hb, hl⟩, ?_, rfl, rfl⟩
  · simp [Sline.getline, storeAt, hidx, Sline.bytes, htake, hc0]
  · simp [Sline.bytes, htake]

/-- round 3b: `sline_getline` for EVERY capacity, 0 included (the guard `if (sl->cap)`: nothing is stored) -/
theorem getline_ok_any (sl : Sline) (h : SlineOK sl) :
    ∃ sl', sl.getline = some (sl', sl.bytes) ∧ SlineOK sl' ∧ sl'.bytes = sl.bytes ∧ sl'.cap = sl.cap ∧
      sl'.len = sl.len ∧ (sl.cap = 0 → sl' = sl) := by
  by_cases hc : sl.cap = 0
  · exact ⟨sl, by simp [Sline.getline, hc, Sline.bytes], h, rfl, rfl, rfl, fun _ => rfl⟩
  · have hcap : 1 ≤ sl.cap.toNat := by
      rcases Nat.eq_zero_or_pos sl.cap.toNat with hz | hp
      · exact absurd (BitVec.eq_of_toNat_eq (by simpa using hz)) hc
      · exact hp
    obtain ⟨sl', e1, e2, e3, e4, e5⟩ := getline_ok sl h hcap
    exact ⟨sl', e1, e2, e3, e4, e5, fun h0 => absurd h0 hc⟩

/-! ### configurable receiver -/

/-- abstraction to the list-level receiver of C04/Model.lean -/
def BRecv.abs (r : BRecv) : Recv := ⟨r.state, r.crc, r.line.bytes, r.line.cap.toNat⟩

/-- refinement of one call: no fault, same status, abstraction commutes, invariant kept,
declared capacity and block length unchanged -/
def Refines (ctx : Ctx) (r : BRecv) (c : Byte) (out : Option (BRecv × Int)) : Prop :=
  ∃ r', out = some (r', (newchar ctx r.abs c).2) ∧ r'.abs = (newchar ctx r.abs c).1 ∧ SlineOK r'.line ∧
    r'.line.buf.length = r.line.buf.length ∧
    r'.line.buf.drop r.line.cap.toNat = r.line.buf.drop r.line.cap.toNat

theorem bputcharL_ok (st : St) (crc : BitVec 8) (sl : Sline) (h : SlineOK sl) (x : Byte) :
    ∃ r', bputcharL ⟨st, crc, sl⟩ x = some (r', (putcharL ⟨st, crc, sl.bytes, sl.cap.toNat⟩ x).2) ∧
      r'.abs = (putcharL ⟨st, crc, sl.bytes, sl.cap.toNat⟩ x).1 ∧ SlineOK r'.line ∧
      r'.line.buf.length = sl.buf.length ∧ r'.line.buf.drop sl.cap.toNat = sl.buf.drop sl.cap.toNat := by
  have hlen : sl.bytes.length = sl.len.toNat := by
    have := h.blk; have := h.bound
    simp only [Sline.bytes, List.length_take]; omega
  unfold bputcharL putcharL
  rw [putchar_ok sl h x]
  by_cases hfull : sl.cap.toNat - 1 ≤ sl.len.toNat
  · have hp : (Recv.putOk ⟨st, crc, sl.bytes, sl.cap.toNat⟩) = false := by simp [Recv.putOk, hlen, hfull]
    simp only [hfull, if_true, hp, Bool.false_eq_true, if_false]
    exact ⟨_, rfl, rfl, h, rfl, rfl⟩
  · have hp : (Recv.putOk ⟨st, crc, sl.bytes, sl.cap.toNat⟩) = true := by simp [Recv.putOk, hlen, hfull]
    obtain ⟨p1, p2⟩ := putchar_ok_post sl h x hfull
    simp only [hfull, if_false, hp, if_true]
    refine ⟨_, rfl, ?_, p1, by simp, ?_⟩
    · simp only [BRecv.abs, p2]
    · have := h.bound
      exact drop_set_of_lt _ _ _ _ (by omega)

theorem bstopL_ok (st : St) (crc : BitVec 8) (sl : Sline) (h : SlineOK sl) :
    ∃ r', bstopL ⟨st, crc, sl⟩ = some (r', (stopL ⟨st, crc, sl.bytes, sl.cap.toNat⟩).2) ∧
      r'.abs = (stopL ⟨st, crc, sl.bytes, sl.cap.toNat⟩).1 ∧ SlineOK r'.line ∧
      r'.line.buf.length = sl.buf.length ∧ r'.line.buf.drop sl.cap.toNat = sl.buf.drop sl.cap.toNat := by
  simp only [bstopL, stopL]
  by_cases hz : crc ≠ 0
  · rw [if_pos hz, if_pos hz]
    exact ⟨_, rfl, rfl, h, rfl, rfl⟩
  · obtain ⟨sl', e, ok, cp, bf, by'⟩ := backspace_ok sl h
    rw [if_neg hz, if_neg hz, e]
    refine ⟨_, rfl, ?_, ok, by simp [bf], by simp [bf]⟩
    simp only [BRecv.abs, by', cp]

theorem bnewchar_s0 (ctx : Ctx) (crc : BitVec 8) (sl : Sline) (c : Byte) :
    bnewchar ctx ⟨.s0, crc, sl⟩ c =
      if c = ctx.start then some (⟨.s1, 0xFF#8, sl.reset.reset⟩, CONTINUE)
      else some (⟨.s4, 0xFF#8, sl.reset⟩, GARBAGE) := by
  simp [bnewchar, BRecv.reset]

theorem bnewchar_s4 (ctx : Ctx) (crc : BitVec 8) (sl : Sline) (c : Byte) :
    bnewchar ctx ⟨.s4, crc, sl⟩ c =
      if c = ctx.start then some (⟨.s1, 0xFF#8, sl.reset⟩, CONTINUE) else some (⟨.s4, crc, sl⟩, GARBAGE) := by
  simp [bnewchar, BRecv.reset]

theorem bnewchar_s1 (ctx : Ctx) (crc : BitVec 8) (sl : Sline) (c : Byte) :
    bnewchar ctx ⟨.s1, crc, sl⟩ c =
      if c = ctx.start ∧ ctx.start ≠ ctx.stop then some (⟨.s1, 0xFF#8, sl.reset⟩, FORCE_RESTART)
      else if c = ctx.start ∧ sl.empty then some (⟨.s1, crc, sl⟩, CONTINUE)
      else if c = ctx.stop then bstopL ⟨.s1, crc, sl⟩
      else if c = ctx.stub then some (⟨.s2, crc, sl⟩, CONTINUE)
      else bputcharL ⟨.s1, crc, sl⟩ c := by
  simp [bnewchar, BRecv.reset]

theorem bnewchar_s2 (ctx : Ctx) (crc : BitVec 8) (sl : Sline) (c : Byte) :
    bnewchar ctx ⟨.s2, crc, sl⟩ c =
      if c = ctx.stubStart then bputcharL ⟨.s2, crc, sl⟩ ctx.start
      else if c = ctx.stubStop then bputcharL ⟨.s2, crc, sl⟩ ctx.stop
      else if c = ctx.stubStub then bputcharL ⟨.s2, crc, sl⟩ ctx.stub
      else if c = ctx.start then some (⟨.s1, 0xFF#8, sl.reset⟩, FORCE_RESTART)
      else some (⟨.s0, crc, sl⟩, STUFFING_ERROR) := by
  simp [bnewchar, BRecv.reset]

theorem refines_of (ctx : Ctx) (st : St) (crc : BitVec 8) (sl : Sline) (c : Byte)
    (out : Option (BRecv × Int)) (x : Recv × Int)
    (hn : newchar ctx ⟨st, crc, sl.bytes, sl.cap.toNat⟩ c = x) (r' : BRecv)
    (hb : out = some (r', x.2)) (habs : r'.abs = x.1) (ok : SlineOK r'.line)
    (hlen : r'.line.buf.length = sl.buf.length)
    (hdrop : r'.line.buf.drop sl.cap.toNat = sl.buf.drop sl.cap.toNat) :
    Refines ctx ⟨st, crc, sl⟩ c out := by
  subst hn
  exact ⟨r', hb, habs, ok, hlen, hdrop⟩

theorem bnewchar_refines (ctx : Ctx) (r : BRecv) (h : SlineOK r.line) (c : Byte) :
    Refines ctx r c (bnewchar ctx r c) := by
  obtain ⟨st, crc, sl⟩ := r
  simp only at h
  obtain ⟨k1, k2, k3, k4⟩ := reset_ok sl h.blk
  obtain ⟨kk1, kk2, kk3, kk4⟩ := reset_ok sl.reset k1.blk
  have hemp := empty_ok sl h
  have a0 : ∀ st' crc', BRecv.abs ⟨st', crc', sl.reset⟩ = ⟨st', crc', [], sl.cap.toNat⟩ := by
    intro st' crc'; simp only [BRecv.abs, k2, k3]
  have a00 : ∀ st' crc', BRecv.abs ⟨st', crc', sl.reset.reset⟩ = ⟨st', crc', [], sl.cap.toNat⟩ := by
    intro st' crc'; simp only [BRecv.abs, kk2, kk3, k3]
  cases st
  · by_cases hc : c = ctx.start
    · exact refines_of ctx _ _ _ _ _ _ (by rw [newchar_s0, if_pos hc]) ⟨.s1, 0xFF#8, sl.reset.reset⟩
        (by rw [bnewchar_s0, if_pos hc]) (a00 _ _) kk1 (by rw [kk4, k4]) (by rw [kk4, k4])
    · exact refines_of ctx _ _ _ _ _ _ (by rw [newchar_s0, if_neg hc]) ⟨.s4, 0xFF#8, sl.reset⟩
        (by rw [bnewchar_s0, if_neg hc]) (a0 _ _) k1 (by rw [k4]) (by rw [k4])
  · by_cases hc : c = ctx.start
    · exact refines_of ctx _ _ _ _ _ _ (by rw [newchar_s4, if_pos hc]) ⟨.s1, 0xFF#8, sl.reset⟩
        (by rw [bnewchar_s4, if_pos hc]) (a0 _ _) k1 (by rw [k4]) (by rw [k4])
    · exact refines_of ctx _ _ _ _ _ _ (by rw [newchar_s4, if_neg hc]) ⟨.s4, crc, sl⟩
        (by rw [bnewchar_s4, if_neg hc]) rfl h rfl rfl
  · by_cases h1 : c = ctx.start ∧ ctx.start ≠ ctx.stop
    · exact refines_of ctx _ _ _ _ _ _ (by rw [newchar_s1, if_pos h1]) ⟨.s1, 0xFF#8, sl.reset⟩
        (by rw [bnewchar_s1, if_pos h1]) (a0 _ _) k1 (by rw [k4]) (by rw [k4])
    · by_cases h2 : c = ctx.start ∧ sl.bytes.isEmpty
      · exact refines_of ctx _ _ _ _ _ _ (by rw [newchar_s1, if_neg h1, if_pos h2]) ⟨.s1, crc, sl⟩
          (by rw [bnewchar_s1, if_neg h1, hemp, if_pos h2]) rfl h rfl rfl
      · by_cases h3 : c = ctx.stop
        · obtain ⟨r', e1, e2, e3, e4, e5⟩ := bstopL_ok .s1 crc sl h
          exact refines_of ctx _ _ _ _ _ _ (by rw [newchar_s1, if_neg h1, if_neg h2, if_pos h3]) r'
            (by rw [bnewchar_s1, if_neg h1, hemp, if_neg h2, if_pos h3]; exact e1) e2 e3 e4 e5
        · by_cases h4 : c = ctx.stub
          · exact refines_of ctx _ _ _ _ _ _
              (by rw [newchar_s1, if_neg h1, if_neg h2, if_neg h3, if_pos h4]) ⟨.s2, crc, sl⟩
              (by rw [bnewchar_s1, if_neg h1, hemp, if_neg h2, if_neg h3, if_pos h4]) rfl h rfl rfl
          · obtain ⟨r', e1, e2, e3, e4, e5⟩ := bputcharL_ok .s1 crc sl h c
            exact refines_of ctx _ _ _ _ _ _
              (by rw [newchar_s1, if_neg h1, if_neg h2, if_neg h3, if_neg h4]) r'
              (by rw [bnewchar_s1, if_neg h1, hemp, if_neg h2, if_neg h3, if_neg h4]; exact e1) e2 e3 e4 e5
  · by_cases c1 : c = ctx.stubStart
    · obtain ⟨r', e1, e2, e3, e4, e5⟩ := bputcharL_ok .s2 crc sl h ctx.start
      exact refines_of ctx _ _ _ _ _ _ (by rw [newchar_s2, if_pos c1]) r'
        (by rw [bnewchar_s2, if_pos c1]; exact e1) e2 e3 e4 e5
    · by_cases c2 : c = ctx.stubStop
      · obtain ⟨r', e1, e2, e3, e4, e5⟩ := bputcharL_ok .s2 crc sl h ctx.stop
        exact refines_of ctx _ _ _ _ _ _ (by rw [newchar_s2, if_neg c1, if_pos c2]) r'
          (by rw [bnewchar_s2, if_neg c1, if_pos c2]; exact e1) e2 e3 e4 e5
      · by_cases c3 : c = ctx.stubStub
        · obtain ⟨r', e1, e2, e3, e4, e5⟩ := bputcharL_ok .s2 crc sl h ctx.stub
          exact refines_of ctx _ _ _ _ _ _ (by rw [newchar_s2, if_neg c1, if_neg c2, if_pos c3]) r'
            (by rw [bnewchar_s2, if_neg c1, if_neg c2, if_pos c3]; exact e1) e2 e3 e4 e5
        · by_cases hc : c = ctx.start
          · exact refines_of ctx _ _ _ _ _ _
              (by rw [newchar_s2, if_neg c1, if_neg c2, if_neg c3, if_pos hc]) ⟨.s1, 0xFF#8, sl.reset⟩
              (by rw [bnewchar_s2, if_neg c1, if_neg c2, if_neg c3, if_pos hc]) (a0 _ _) k1
              (by rw [k4]) (by rw [k4])
          · exact refines_of ctx _ _ _ _ _ _
              (by rw [newchar_s2, if_neg c1, if_neg c2, if_neg c3, if_neg hc]) ⟨.s0, crc, sl⟩
              (by rw [bnewchar_s2, if_neg c1, if_neg c2, if_neg c3, if_neg hc]) rfl h rfl rfl

theorem refines_cap (ctx : Ctx) (r : BRecv) (c : Byte) (r' : BRecv)
    (habs : r'.abs = (newchar ctx r.abs c).1) : r'.line.cap = r.line.cap := by
  have := congrArg Recv.cap habs
  rw [newchar_cap] at this
  exact BitVec.eq_of_toNat_eq this

/-- REFINEMENT over whole streams: the buffer-level receiver never faults, answers the
same statuses, its line bytes / state / crc are those of the list-level receiver, the
invariant `cursor = len ≤ cap - 1` holds afterwards, and the block is unchanged at
every index ≥ the declared capacity -/
theorem bfeed_refines (ctx : Ctx) (r : BRecv) (h : SlineOK r.line) (bs : List Byte) :
    ∃ r', bfeed ctx r bs = some (r', (feed ctx r.abs bs).2) ∧ r'.abs = (feed ctx r.abs bs).1 ∧
      SlineOK r'.line ∧ r'.line.cap = r.line.cap ∧ r'.line.buf.length = r.line.buf.length ∧
      r'.line.buf.drop r.line.cap.toNat = r.line.buf.drop r.line.cap.toNat := by
  induction bs generalizing r with
  | nil => exact ⟨r, rfl, rfl, h, rfl, rfl, rfl⟩
  | cons c cs ih =>
    obtain ⟨r1, e1, e2, e3, e4, e5⟩ := bnewchar_refines ctx r h c
    have ecap := refines_cap ctx r c r1 e2
    obtain ⟨r2, f1, f2, f3, f4, f5, f6⟩ := ih r1 e3
    refine ⟨r2, ?_, ?_, f3, by rw [f4, ecap], by rw [f5, e4], ?_⟩
    · simp only [bfeed, e1, f1, feed, e2]
    · simp only [feed]; rw [f2, e2]
    · rw [ecap] at f6; rw [f6, e5]

/-! ### legacy receiver -/

def BLRecv.abs (r : BLRecv) : LRecv := ⟨r.state, r.crc, r.line.bytes, r.line.cap.toNat⟩

theorem blputchar_ok (st : LSt) (crc : BitVec 8) (sl : Sline) (h : SlineOK sl) (x : Byte) :
    ∃ r', blputchar ⟨st, crc, sl⟩ x = some (r', (lputchar ⟨st, crc, sl.bytes, sl.cap.toNat⟩ x).2) ∧
      r'.abs = (lputchar ⟨st, crc, sl.bytes, sl.cap.toNat⟩ x).1 ∧ SlineOK r'.line ∧
      r'.line.buf.length = sl.buf.length ∧ r'.line.buf.drop sl.cap.toNat = sl.buf.drop sl.cap.toNat := by
  have hlen : sl.bytes.length = sl.len.toNat := by
    have := h.blk; have := h.bound
    simp only [Sline.bytes, List.length_take]; omega
  simp only [blputchar, lputchar]
  rw [putchar_ok sl h x, hlen]
  by_cases hfull : sl.cap.toNat - 1 ≤ sl.len.toNat
  · rw [if_pos hfull, if_neg (fun hn => hn hfull)]
    exact ⟨_, rfl, rfl, h, rfl, rfl⟩
  · obtain ⟨p1, p2⟩ := putchar_ok_post sl h x hfull
    rw [if_neg hfull, if_pos hfull]
    refine ⟨_, rfl, ?_, p1, by simp, ?_⟩
    · simp only [BLRecv.abs, p2]
    · have := h.bound
      exact drop_set_of_lt _ _ _ _ (by omega)

def LRefines (r : BLRecv) (c : Byte) (out : Option (BLRecv × Int)) : Prop :=
  ∃ r', out = some (r', (lnewchar r.abs c).2) ∧ r'.abs = (lnewchar r.abs c).1 ∧ SlineOK r'.line ∧
    r'.line.buf.length = r.line.buf.length ∧
    r'.line.buf.drop r.line.cap.toNat = r.line.buf.drop r.line.cap.toNat

theorem blnewchar_l1 (crc : BitVec 8) (sl : Sline) (c : Byte) :
    blnewchar ⟨.l1, crc, sl⟩ c =
      if c = legStart then
        if sl.empty then some (⟨.l1, crc, sl⟩, CONTINUE)
        else if crc ≠ 0 then some (⟨.l0, crc, sl⟩, CRC_ERROR)
        else some (⟨.l0, crc, sl⟩, NEWPACKAGE)
      else if c = legStub then some (⟨.l2, crc, sl⟩, CONTINUE)
      else blputchar ⟨.l1, crc, sl⟩ c := by
  simp [blnewchar]

theorem blnewchar_l0 (crc : BitVec 8) (sl : Sline) (c : Byte) :
    blnewchar ⟨.l0, crc, sl⟩ c = blnewchar ⟨.l1, 0xFF#8, sl.reset⟩ c := by
  simp [blnewchar]

theorem blnewchar_l2 (crc : BitVec 8) (sl : Sline) (c : Byte) :
    blnewchar ⟨.l2, crc, sl⟩ c =
      if c = legStubStart then blputchar ⟨.l2, crc, sl⟩ legStart
      else if c = legStubStub then blputchar ⟨.l2, crc, sl⟩ legStub
      else if c = legStart then some (⟨.l0, crc, sl⟩, LDATA_ERROR)
      else some (⟨.l3, crc, sl⟩, LDATA_ERROR) := by
  simp [blnewchar]

theorem blnewchar_l3 (crc : BitVec 8) (sl : Sline) (c : Byte) :
    blnewchar ⟨.l3, crc, sl⟩ c =
      if c = legStart then some (⟨.l1, 0xFF#8, sl.reset⟩, CONTINUE)
      else some (⟨.l3, crc, sl⟩, CONTINUE) := by
  by_cases hc : c = legStart <;> simp [blnewchar, hc, Sline.empty, Sline.reset]

theorem lrefines_of (st : LSt) (crc : BitVec 8) (sl : Sline) (c : Byte)
    (out : Option (BLRecv × Int)) (x : LRecv × Int)
    (hn : lnewchar ⟨st, crc, sl.bytes, sl.cap.toNat⟩ c = x) (r' : BLRecv)
    (hb : out = some (r', x.2)) (habs : r'.abs = x.1) (ok : SlineOK r'.line)
    (hlen : r'.line.buf.length = sl.buf.length)
    (hdrop : r'.line.buf.drop sl.cap.toNat = sl.buf.drop sl.cap.toNat) :
    LRefines ⟨st, crc, sl⟩ c out := by
  subst hn
  exact ⟨r', hb, habs, ok, hlen, hdrop⟩

theorem blnewchar_l1_refines (crc : BitVec 8) (sl : Sline) (h : SlineOK sl) (c : Byte) :
    LRefines ⟨.l1, crc, sl⟩ c (blnewchar ⟨.l1, crc, sl⟩ c) := by
  have hemp := empty_ok sl h
  by_cases hc : c = legStart
  · by_cases he : sl.bytes.isEmpty
    · exact lrefines_of _ _ _ _ _ _ (by rw [lnewchar_l1, if_pos hc, if_pos he]) ⟨.l1, crc, sl⟩
        (by rw [blnewchar_l1, if_pos hc, hemp, if_pos he]) rfl h rfl rfl
    · by_cases hz : crc ≠ 0
      · exact lrefines_of _ _ _ _ _ _ (by rw [lnewchar_l1, if_pos hc, if_neg he, if_pos hz]) ⟨.l0, crc, sl⟩
          (by rw [blnewchar_l1, if_pos hc, hemp, if_neg he, if_pos hz]) rfl h rfl rfl
      · exact lrefines_of _ _ _ _ _ _ (by rw [lnewchar_l1, if_pos hc, if_neg he, if_neg hz]) ⟨.l0, crc, sl⟩
          (by rw [blnewchar_l1, if_pos hc, hemp, if_neg he, if_neg hz]) rfl h rfl rfl
  · by_cases hs : c = legStub
    · exact lrefines_of _ _ _ _ _ _ (by rw [lnewchar_l1, if_neg hc, if_pos hs]) ⟨.l2, crc, sl⟩
        (by rw [blnewchar_l1, if_neg hc, if_pos hs]) rfl h rfl rfl
    · obtain ⟨r', e1, e2, e3, e4, e5⟩ := blputchar_ok .l1 crc sl h c
      exact lrefines_of _ _ _ _ _ _ (by rw [lnewchar_l1, if_neg hc, if_neg hs]) r'
        (by rw [blnewchar_l1, if_neg hc, if_neg hs]; exact e1) e2 e3 e4 e5

theorem blnewchar_refines (r : BLRecv) (h : SlineOK r.line) (c : Byte) :
    LRefines r c (blnewchar r c) := by
  obtain ⟨st, crc, sl⟩ := r
  simp only at h
  obtain ⟨k1, k2, k3, k4⟩ := reset_ok sl h.blk
  cases st
  · -- state 0: reset, then as state 1
    obtain ⟨r', e1, e2, e3, e4, e5⟩ := blnewchar_l1_refines 0xFF#8 sl.reset k1 c
    have ha : BLRecv.abs ⟨.l1, 0xFF#8, sl.reset⟩ = ⟨.l1, 0xFF#8, [], sl.cap.toNat⟩ := by
      simp only [BLRecv.abs, k2, k3]
    rw [ha] at e1 e2
    refine ⟨r', ?_, ?_, e3, by rw [e4, k4], ?_⟩
    · rw [blnewchar_l0, e1]; simp only [BLRecv.abs]; rw [lnewchar_l0]
    · rw [e2]; simp only [BLRecv.abs]; rw [lnewchar_l0]
    · rw [k3, k4] at e5; exact e5
  · exact blnewchar_l1_refines crc sl h c
  · by_cases c1 : c = legStubStart
    · obtain ⟨r', e1, e2, e3, e4, e5⟩ := blputchar_ok .l2 crc sl h legStart
      exact lrefines_of _ _ _ _ _ _ (by rw [lnewchar_l2, if_pos c1]) r'
        (by rw [blnewchar_l2, if_pos c1]; exact e1) e2 e3 e4 e5
    · by_cases c2 : c = legStubStub
      · obtain ⟨r', e1, e2, e3, e4, e5⟩ := blputchar_ok .l2 crc sl h legStub
        exact lrefines_of _ _ _ _ _ _ (by rw [lnewchar_l2, if_neg c1, if_pos c2]) r'
          (by rw [blnewchar_l2, if_neg c1, if_pos c2]; exact e1) e2 e3 e4 e5
      · by_cases hc : c = legStart
        · exact lrefines_of _ _ _ _ _ _ (by rw [lnewchar_l2, if_neg c1, if_neg c2, if_pos hc]) ⟨.l0, crc, sl⟩
            (by rw [blnewchar_l2, if_neg c1, if_neg c2, if_pos hc]) rfl h rfl rfl
        · exact lrefines_of _ _ _ _ _ _ (by rw [lnewchar_l2, if_neg c1, if_neg c2, if_neg hc]) ⟨.l3, crc, sl⟩
            (by rw [blnewchar_l2, if_neg c1, if_neg c2, if_neg hc]) rfl h rfl rfl
  · by_cases hc : c = legStart
    · exact lrefines_of _ _ _ _ _ _ (by rw [lnewchar_l3, if_pos hc]) ⟨.l1, 0xFF#8, sl.reset⟩
        (by rw [blnewchar_l3, if_pos hc]) (by simp only [BLRecv.abs, k2, k3]) k1 (by rw [k4]) (by rw [k4])
    · exact lrefines_of _ _ _ _ _ _ (by rw [lnewchar_l3, if_neg hc]) ⟨.l3, crc, sl⟩
        (by rw [blnewchar_l3, if_neg hc]) rfl h rfl rfl

theorem blfeed_refines (r : BLRecv) (h : SlineOK r.line) (bs : List Byte) :
    ∃ r', blfeed r bs = some (r', (lfeed r.abs bs).2) ∧ r'.abs = (lfeed r.abs bs).1 ∧
      SlineOK r'.line ∧ r'.line.cap = r.line.cap ∧ r'.line.buf.length = r.line.buf.length ∧
      r'.line.buf.drop r.line.cap.toNat = r.line.buf.drop r.line.cap.toNat := by
  induction bs generalizing r with
  | nil => exact ⟨r, rfl, rfl, h, rfl, rfl, rfl⟩
  | cons c cs ih =>
    obtain ⟨r1, e1, e2, e3, e4, e5⟩ := blnewchar_refines r h c
    have ecap : r1.line.cap = r.line.cap := by
      have := congrArg LRecv.cap e2
      rw [lnewchar_cap] at this
      exact BitVec.eq_of_toNat_eq this
    obtain ⟨r2, f1, f2, f3, f4, f5, f6⟩ := ih r1 e3
    refine ⟨r2, ?_, ?_, f3, by rw [f4, ecap], by rw [f5, e4], ?_⟩
    · simp only [blfeed, e1, f1, lfeed, e2]
    · simp only [lfeed]; rw [f2, e2]
    · rw [ecap] at f6; rw [f6, e5]

/-! ### the traces the driver prints -/

theorem cstr_ok (r : BRecv) (h : SlineOK r.line) (hcap : 1 ≤ r.line.cap.toNat) :
    ∃ r', r.cstr = some (r', r.abs.line) ∧ r'.abs = r.abs ∧ SlineOK r'.line := by
  obtain ⟨sl', e1, e2, e3, e4, _⟩ := getline_ok r.line h hcap
  refine ⟨{ r with line := sl' }, ?_, ?_, e2⟩
  · simp only [BRecv.cstr, e1, BRecv.abs]
  · simp only [BRecv.abs, e3, e4]

/-- what the driver runs (`bfeedTrace`, buffer level, with `cstr()` at every NEWPACKAGE)
is the list-level trace: no fault, same statuses, same packets -/
theorem bfeedTrace_eq (ctx : Ctx) (r : BRecv) (h : SlineOK r.line) (hcap : 1 ≤ r.line.cap.toNat)
    (bs : List Byte) : bfeedTrace ctx r bs = some (feedTrace ctx r.abs bs) := by
  induction bs generalizing r with
  | nil => rfl
  | cons c cs ih =>
    obtain ⟨r1, e1, e2, e3, _, _⟩ := bnewchar_refines ctx r h c
    have ecap := refines_cap ctx r c r1 e2
    by_cases hs : (newchar ctx r.abs c).2 = NEWPACKAGE
    · obtain ⟨r2, g1, g2, g3⟩ := cstr_ok r1 e3 (by rw [ecap]; exact hcap)
      have hc2 : r2.line.cap = r1.line.cap := by
        have := congrArg Recv.cap g2
        exact BitVec.eq_of_toNat_eq this
      have := ih r2 g3 (by rw [hc2, ecap]; exact hcap)
      simp only [bfeedTrace, e1, hs, if_true, g1, Option.map_some, this, g2, e2, feedTrace]
      simp
    · have := ih r1 e3 (by rw [ecap]; exact hcap)
      simp only [bfeedTrace, e1, hs, if_false, this, e2, feedTrace]
      simp

theorem lgetline_ok (r : BLRecv) (h : SlineOK r.line) (hcap : 1 ≤ r.line.cap.toNat) :
    ∃ r', r.getline = some (r', r.abs.line) ∧ r'.abs = r.abs ∧ SlineOK r'.line := by
  obtain ⟨sl', e1, e2, e3, e4, _⟩ := getline_ok r.line h hcap
  refine ⟨{ r with line := sl' }, ?_, ?_, e2⟩
  · simp only [BLRecv.getline, e1, BLRecv.abs]
  · simp only [BLRecv.abs, e3, e4]

theorem blfeedTrace_eq (r : BLRecv) (h : SlineOK r.line) (hcap : 1 ≤ r.line.cap.toNat)
    (bs : List Byte) : blfeedTrace r bs = some (lfeedTrace r.abs bs) := by
  induction bs generalizing r with
  | nil => rfl
  | cons c cs ih =>
    obtain ⟨r1, e1, e2, e3, _, _⟩ := blnewchar_refines r h c
    have ecap : r1.line.cap = r.line.cap := by
      have := congrArg LRecv.cap e2
      rw [lnewchar_cap] at this
      exact BitVec.eq_of_toNat_eq this
    by_cases hs : (lnewchar r.abs c).2 = NEWPACKAGE
    · obtain ⟨r2, g1, g2, g3⟩ := lgetline_ok r1 e3 (by rw [ecap]; exact hcap)
      have hc2 : r2.line.cap = r1.line.cap := by
        have := congrArg LRecv.cap g2
        exact BitVec.eq_of_toNat_eq this
      have := ih r2 g3 (by rw [hc2, ecap]; exact hcap)
      simp only [blfeedTrace, e1, hs, if_true, g1, Option.map_some, this, g2, e2, lfeedTrace]
      simp
    · have := ih r1 e3 (by rw [ecap]; exact hcap)
      simp only [blfeedTrace, e1, hs, if_false, this, e2, lfeedTrace]
      simp

/-! ### round 3b: the same for EVERY capacity, 0 included (`sline_getline` guards its store with `if (sl->cap)`) -/

theorem cstr_ok_any (r : BRecv) (h : SlineOK r.line) :
    ∃ r', r.cstr = some (r', r.abs.line) ∧ r'.abs = r.abs ∧ SlineOK r'.line ∧ (r.line.cap = 0 → r' = r) := by
  obtain ⟨sl', e1, e2, e3, e4, _, e6⟩ := getline_ok_any r.line h
  refine ⟨{ r with line := sl' }, ?_, ?_, e2, ?_⟩
  · simp only [BRecv.cstr, e1, BRecv.abs]
  · simp only [BRecv.abs, e3, e4]
  · intro h0; rw [e6 h0]

theorem bfeedTrace_eq_any (ctx : Ctx) (r : BRecv) (h : SlineOK r.line)
    (bs : List Byte) : bfeedTrace ctx r bs = some (feedTrace ctx r.abs bs) := by
  induction bs generalizing r with
  | nil => rfl
  | cons c cs ih =>
    obtain ⟨r1, e1, e2, e3, _, _⟩ := bnewchar_refines ctx r h c
    by_cases hs : (newchar ctx r.abs c).2 = NEWPACKAGE
    · obtain ⟨r2, g1, g2, g3, _⟩ := cstr_ok_any r1 e3
      have := ih r2 g3
      simp only [bfeedTrace, e1, hs, if_true, g1, Option.map_some, this, g2, e2, feedTrace]
      simp
    · have := ih r1 e3
      simp only [bfeedTrace, e1, hs, if_false, this, e2, feedTrace]
      simp

theorem lgetline_ok_any (r : BLRecv) (h : SlineOK r.line) :
    ∃ r', r.getline = some (r', r.abs.line) ∧ r'.abs = r.abs ∧ SlineOK r'.line ∧ (r.line.cap = 0 → r' = r) := by
  obtain ⟨sl', e1, e2, e3, e4, _, e6⟩ := getline_ok_any r.line h
  refine ⟨{ r with line := sl' }, ?_, ?_, e2, ?_⟩
  · simp only [BLRecv.getline, e1, BLRecv.abs]
  · simp only [BLRecv.abs, e3, e4]
  · intro h0; rw [e6 h0]

theorem blfeedTrace_eq_any (r : BLRecv) (h : SlineOK r.line)
    (bs : List Byte) : blfeedTrace r bs = some (lfeedTrace r.abs bs) := by
  induction bs generalizing r with
  | nil => rfl
  | cons c cs ih =>
    obtain ⟨r1, e1, e2, e3, _, _⟩ := blnewchar_refines r h c
    by_cases hs : (lnewchar r.abs c).2 = NEWPACKAGE
    · obtain ⟨r2, g1, g2, g3, _⟩ := lgetline_ok_any r1 e3
      have := ih r2 g3
      simp only [blfeedTrace, e1, hs, if_true, g1, Option.map_some, this, g2, e2, lfeedTrace]
      simp
    · have := ih r1 e3
      simp only [blfeedTrace, e1, hs, if_false, this, e2, lfeedTrace]
      simp

end Igris.Gstuff
