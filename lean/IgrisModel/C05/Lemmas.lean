import IgrisModel.C05.Spec
namespace Igris.Gstuff
open Igris.Proto Igris.C17

/-! ## capacity invariant -/

def LineOK (r : Recv) : Prop := r.line.length ≤ r.cap - 1

theorem newchar_cap (ctx : Ctx) (r : Recv) (c : Byte) : (newchar ctx r c).1.cap = r.cap := by
  obtain ⟨st, crc, line, cap⟩ := r
  cases st <;> simp only [newchar, Recv.reset, putcharL, stopL] <;>
    (repeat' split) <;> simp

theorem newchar_lineOK (ctx : Ctx) (r : Recv) (c : Byte) (h : LineOK r) : LineOK (newchar ctx r c).1 := by
  obtain ⟨st, crc, line, cap⟩ := r
  simp only [LineOK] at h
  cases st <;> simp only [newchar, Recv.reset, putcharL, stopL, Recv.putOk, LineOK] <;>
    (repeat' split) <;> simp_all <;> omega

theorem feed_lineOK (ctx : Ctx) (r : Recv) (bs : List Byte) (h : LineOK r) : LineOK (feed ctx r bs).1 := by
  induction bs generalizing r with
  | nil => simpa [feed]
  | cons c cs ih => simp only [feed]; exact ih _ (newchar_lineOK ctx r c h)

theorem feed_cap (ctx : Ctx) (r : Recv) (bs : List Byte) : (feed ctx r bs).1.cap = r.cap := by
  induction bs generalizing r with
  | nil => simp [feed]
  | cons c cs ih => simp only [feed]; rw [ih, newchar_cap]

end Igris.Gstuff

namespace Igris.Gstuff
open Igris.Proto Igris.C17

/-! ## soundness invariant -/

def Sound (ctx : Ctx) (r : Recv) (g : Option (List Byte)) : Prop :=
  match r.state with
  | .s1 => ∃ since, g = some since ∧ unescPartial ctx since = some (r.line, false) ∧
            r.crc = strmcrc8 0xFF#8 r.line
  | .s2 => ∃ since, g = some since ∧ unescPartial ctx since = some (r.line, true) ∧
            r.crc = strmcrc8 0xFF#8 r.line
  | _ => True

theorem unescPartial_snoc (ctx : Ctx) (bs : List Byte) (c : Byte) :
    unescPartial ctx (bs ++ [c]) = unescStep ctx (unescPartial ctx bs) c := by
  simp [unescPartial, List.foldl_append]

theorem strmcrc8_snoc (k : BitVec 8) (l : List Byte) (c : Byte) :
    strmcrc8 k (l ++ [c]) = strmStep (strmcrc8 k l) c := by
  simp [strmcrc8, List.foldl_append]

theorem sound_fresh (ctx : Ctx) (r : Recv) (hs : r.state = .s1) (hl : r.line = []) (hc : r.crc = 0xFF#8) :
    Sound ctx r (some []) := by
  simp [Sound, hs, hl, hc, unescPartial, strmcrc8]

theorem newchar_s1 (ctx : Ctx) (crc : BitVec 8) (line : List Byte) (cap : Nat) (c : Byte) :
    newchar ctx ⟨.s1, crc, line, cap⟩ c =
      if c = ctx.start ∧ ctx.start ≠ ctx.stop then (⟨.s1, 0xFF#8, [], cap⟩, FORCE_RESTART)
      else if c = ctx.start ∧ line.isEmpty then (⟨.s1, crc, line, cap⟩, CONTINUE)
      else if c = ctx.stop then stopL ⟨.s1, crc, line, cap⟩
      else if c = ctx.stub then (⟨.s2, crc, line, cap⟩, CONTINUE)
      else putcharL ⟨.s1, crc, line, cap⟩ c := by
  simp [newchar, Recv.reset]

theorem newchar_s2 (ctx : Ctx) (crc : BitVec 8) (line : List Byte) (cap : Nat) (c : Byte) :
    newchar ctx ⟨.s2, crc, line, cap⟩ c =
      if c = ctx.stubStart then putcharL ⟨.s2, crc, line, cap⟩ ctx.start
      else if c = ctx.stubStop then putcharL ⟨.s2, crc, line, cap⟩ ctx.stop
      else if c = ctx.stubStub then putcharL ⟨.s2, crc, line, cap⟩ ctx.stub
      else if c = ctx.start then (⟨.s1, 0xFF#8, [], cap⟩, FORCE_RESTART)
      else (⟨.s0, crc, line, cap⟩, STUFFING_ERROR) := by
  simp [newchar, Recv.reset]

theorem newchar_s4 (ctx : Ctx) (crc : BitVec 8) (line : List Byte) (cap : Nat) (c : Byte) :
    newchar ctx ⟨.s4, crc, line, cap⟩ c =
      if c = ctx.start then (⟨.s1, 0xFF#8, [], cap⟩, CONTINUE) else (⟨.s4, crc, line, cap⟩, GARBAGE) := by
  simp [newchar, Recv.reset]

theorem newchar_s0 (ctx : Ctx) (crc : BitVec 8) (line : List Byte) (cap : Nat) (c : Byte) :
    newchar ctx ⟨.s0, crc, line, cap⟩ c =
      if c = ctx.start then (⟨.s1, 0xFF#8, [], cap⟩, CONTINUE) else (⟨.s4, 0xFF#8, [], cap⟩, GARBAGE) := by
  simp [newchar, Recv.reset]

theorem putcharL_fst_sound (ctx : Ctx) (st : St) (crc : BitVec 8) (line since : List Byte) (cap : Nat) (x : Byte)
    (hcrc : crc = strmcrc8 0xFF#8 line) (hu : unescPartial ctx since = some (line ++ [x], false)) :
    Sound ctx (putcharL ⟨st, crc, line, cap⟩ x).1 (some since) := by
  unfold putcharL
  split
  · refine ⟨since, rfl, hu, ?_⟩
    simp only; rw [strmcrc8_snoc, ← hcrc]
  · trivial

theorem sound_step (ctx : Ctx) (h : ctx.WF) (r : Recv) (g : Option (List Byte)) (c : Byte)
    (hs : Sound ctx r g) : Sound ctx (newchar ctx r c).1 (sinceStep ctx.start g c) := by
  have w1 := h.stub_ne_start; have w2 := h.stub_ne_stop
  have w3 := h.sstart_ne_start; have w5 := h.sstop_ne_start; have w7 := h.sstub_ne_start
  obtain ⟨st, crc, line, cap⟩ := r
  cases st
  · -- s0: behaves like s4 after reset
    rw [newchar_s0]
    by_cases hc : c = ctx.start
    · subst hc; simp [sinceStep]; exact sound_fresh _ _ rfl rfl rfl
    · simp only [hc, if_false]; trivial
  · rw [newchar_s4]
    by_cases hc : c = ctx.start
    · subst hc; simp [sinceStep]; exact sound_fresh _ _ rfl rfl rfl
    · simp only [hc, if_false]; trivial
  · -- s1
    have hs' : ∃ since, g = some since ∧ unescPartial ctx since = some (line, false) ∧
        crc = strmcrc8 0xFF#8 line := hs
    obtain ⟨since, hg, hu, hcrc⟩ := hs'
    subst hg
    rw [newchar_s1]
    by_cases hc : c = ctx.start
    · subst hc
      by_cases hss : ctx.start = ctx.stop
      · by_cases hl : line = []
        · subst hl
          have : crc = 0xFF#8 := by simpa [strmcrc8] using hcrc
          subst this
          simp [hss, sinceStep]; exact sound_fresh _ _ rfl rfl rfl
        · have hl' : line.isEmpty = false := by simpa using hl
          simp only [hss, ne_eq, not_true_eq_false, and_false, if_false, hl', Bool.false_eq_true, if_true, stopL]
          split <;> trivial
      · simp [hss, sinceStep]; exact sound_fresh _ _ rfl rfl rfl
    · by_cases hstop : c = ctx.stop
      · subst hstop
        simp only [hc, false_and, if_false, if_true, stopL]
        split <;> trivial
      · by_cases hstub : c = ctx.stub
        · subst hstub
          simp only [hc, hstop, sinceStep, false_and, if_false, if_true, Option.map_some]
          refine ⟨since ++ [ctx.stub], rfl, ?_, hcrc⟩
          rw [unescPartial_snoc, hu]; simp [unescStep]
        · simp only [hc, hstop, hstub, sinceStep, false_and, if_false, Option.map_some]
          apply putcharL_fst_sound _ _ _ _ _ _ _ hcrc
          rw [unescPartial_snoc, hu]; simp [unescStep, hstub]
  · -- s2
    have hs' : ∃ since, g = some since ∧ unescPartial ctx since = some (line, true) ∧
        crc = strmcrc8 0xFF#8 line := hs
    obtain ⟨since, hg, hu, hcrc⟩ := hs'
    subst hg
    rw [newchar_s2]
    have key : ∀ (x : Byte), c ≠ ctx.start → codeOf ctx c = some x →
        Sound ctx (putcharL ⟨.s2, crc, line, cap⟩ x).1 (sinceStep ctx.start (some since) c) := by
      intro x hne hx
      simp only [sinceStep, hne, if_false, Option.map_some]
      apply putcharL_fst_sound _ _ _ _ _ _ _ hcrc
      rw [unescPartial_snoc, hu]; simp [unescStep, hx]
    by_cases h1 : c = ctx.stubStart
    · subst h1
      have := key ctx.start w3 (by simp [codeOf])
      simpa using this
    · by_cases h2 : c = ctx.stubStop
      · subst h2
        have := key ctx.stop w5 (by simp [codeOf, h1])
        simpa [h1] using this
      · by_cases h3 : c = ctx.stubStub
        · subst h3
          have := key ctx.stub w7 (by simp [codeOf, h1, h2])
          simpa [h1, h2] using this
        · by_cases hc : c = ctx.start
          · subst hc
            simp [h1, h2, h3, sinceStep]; exact sound_fresh _ _ rfl rfl rfl
          · simp only [h1, h2, h3, hc, if_false]; trivial

end Igris.Gstuff

namespace Igris.Gstuff
open Igris.Proto Igris.C17

theorem feed_sound (ctx : Ctx) (h : ctx.WF) (r : Recv) (g : Option (List Byte)) (bs : List Byte)
    (hs : Sound ctx r g) : Sound ctx (feed ctx r bs).1 (bs.foldl (sinceStep ctx.start) g) := by
  induction bs generalizing r g with
  | nil => simpa [feed]
  | cons c cs ih => simp only [feed, List.foldl_cons]; exact ih _ _ (sound_step ctx h r g c hs)

theorem strmShift8_inj0 : ∀ y : BitVec 8, iter strmShift 8 y = 0#8 → y = 0#8 := by decide +kernel

theorem strmStep_eq_zero (k x : BitVec 8) (h : strmStep k x = 0#8) : x = k := by
  have := strmShift8_inj0 _ h
  exact (BitVec.xor_eq_zero_iff.mp this).symm

theorem putcharL_snd_ne (r : Recv) (c : Byte) : (putcharL r c).2 ≠ NEWPACKAGE := by
  unfold putcharL; split <;> simp [CONTINUE, OVERFLOW, NEWPACKAGE]

/-- NEWPACKAGE is only ever answered to a stop marker, in-frame, with CRC 0 -/
theorem newpackage_inv (ctx : Ctx) (r : Recv) (c : Byte) (hn : (newchar ctx r c).2 = NEWPACKAGE) :
    r.state = .s1 ∧ c = ctx.stop ∧ r.crc = 0#8 ∧ (newchar ctx r c).1.line = r.line.dropLast := by
  obtain ⟨st, crc, line, cap⟩ := r
  cases st
  · rw [newchar_s0] at hn; split at hn <;> simp [CONTINUE, GARBAGE, NEWPACKAGE] at hn
  · rw [newchar_s4] at hn; split at hn <;> simp [CONTINUE, GARBAGE, NEWPACKAGE] at hn
  · rw [newchar_s1] at hn ⊢
    split at hn
    · simp [FORCE_RESTART, NEWPACKAGE] at hn
    · split at hn
      · simp [CONTINUE, NEWPACKAGE] at hn
      · split at hn
        · rename_i h1 h2 h3
          subst h3
          rw [if_neg h1, if_neg h2, if_pos rfl]
          unfold stopL at hn ⊢
          split at hn
          · simp [CRC_ERROR, NEWPACKAGE] at hn
          · rename_i hz
            have hz' : crc = 0#8 := by simpa using hz
            simp [hz']
        · split at hn
          · simp [CONTINUE, NEWPACKAGE] at hn
          · exact absurd hn (putcharL_snd_ne _ _)
  · rw [newchar_s2] at hn
    split at hn
    · exact absurd hn (putcharL_snd_ne _ _)
    · split at hn
      · exact absurd hn (putcharL_snd_ne _ _)
      · split at hn
        · exact absurd hn (putcharL_snd_ne _ _)
        · split at hn <;> simp [FORCE_RESTART, STUFFING_ERROR, NEWPACKAGE] at hn

theorem crc_zero_split (line : List Byte) (h : strmcrc8 0xFF#8 line = 0#8) :
    line = line.dropLast ++ [strmcrc8 0xFF#8 line.dropLast] := by
  rcases List.eq_nil_or_concat line with hnil | ⟨init, last, hl⟩
  · subst hnil; simp [strmcrc8] at h
  · subst hl
    simp only [List.concat_eq_append] at h ⊢
    rw [strmcrc8_snoc] at h
    have := strmStep_eq_zero _ _ h
    simp [this]

theorem newpackage_sound (ctx : Ctx) (r : Recv) (g : Option (List Byte)) (c : Byte)
    (hs : Sound ctx r g) (hn : (newchar ctx r c).2 = NEWPACKAGE) :
    c = ctx.stop ∧ ∃ since, g = some since ∧
      unescape ctx since = some ((newchar ctx r c).1.line ++ [strmcrc8 0xFF#8 (newchar ctx r c).1.line]) := by
  obtain ⟨h1, h2, h3, h4⟩ := newpackage_inv ctx r c hn
  refine ⟨h2, ?_⟩
  obtain ⟨st, crc, line, cap⟩ := r
  simp only at h1 h3; subst h1; subst h3
  have hs' : ∃ since, g = some since ∧ unescPartial ctx since = some (line, false) ∧
      (0#8 : BitVec 8) = strmcrc8 0xFF#8 line := hs
  obtain ⟨since, hg, hu, hcrc⟩ := hs'
  refine ⟨since, hg, ?_⟩
  rw [h4]
  simp only
  rw [← crc_zero_split line hcrc.symm]
  simp [unescape, hu]

end Igris.Gstuff

namespace Igris.Gstuff
open Igris.Proto Igris.C17

/-! ## deliveries and resynchronisation -/

theorem delivered_append (ctx : Ctx) (r : Recv) (a b : List Byte) :
    delivered ctx r (a ++ b) = delivered ctx r a ++ delivered ctx (feed ctx r a).1 b := by
  induction a generalizing r with
  | nil => simp [delivered, feed]
  | cons c cs ih =>
    simp only [List.cons_append, delivered, feed]
    split <;> simp [ih]

theorem delivered_nil_of_statuses (ctx : Ctx) (r : Recv) (a : List Byte)
    (h : ∀ s ∈ (feed ctx r a).2, s ≠ NEWPACKAGE) : delivered ctx r a = [] := by
  induction a generalizing r with
  | nil => simp [delivered]
  | cons c cs ih =>
    simp only [feed, List.mem_cons, forall_eq_or_imp] at h
    simp only [delivered, h.1, if_false]
    exact ih _ h.2

theorem allCont_no_newpackage {ss : List Int} (h : AllCont ss) : ∀ s ∈ ss, s ≠ NEWPACKAGE := by
  intro s hs; rw [h s hs]; decide

/-- the body of a frame: stuffed payload followed by the stuffed CRC -/
def frameBody (ctx : Ctx) (p : List Byte) : List Byte :=
  (p ++ [strmcrc8 0xFF#8 p]).flatMap (stuffByte ctx)

theorem encode_eq (ctx : Ctx) (p : List Byte) : encode ctx p = ctx.start :: (frameBody ctx p ++ [ctx.stop]) := by
  simp [encode, frameBody]

theorem frameBody_no_start (ctx : Ctx) (h : ctx.WF) (p : List Byte) :
    ∀ b ∈ frameBody ctx p, b ≠ ctx.start := by
  intro b hb
  obtain ⟨c, _, hc⟩ := List.mem_flatMap.mp hb
  exact (stuffByte_no_marker ctx h c b hc).1

/-- in-frame, nothing received yet -/
def Primed (r : Recv) : Prop := r.state = .s1 ∧ r.line = [] ∧ r.crc = 0xFF#8

/-- from an in-frame receiver with an EMPTY line (any running crc `k`), the
rest of a frame (body + stop) is consumed with CONTINUEs and a final verdict;
the receiver ends between frames, and what is delivered is `[p]` when primed -/
theorem frame_tail (ctx : Ctx) (h : ctx.WF) (p : List Byte) (crc : BitVec 8) (cap : Nat)
    (hcap : p.length + 2 ≤ cap) :
    (feed ctx ⟨.s1, crc, [], cap⟩ (frameBody ctx p ++ [ctx.stop])).1.state = .s0 ∧
    (feed ctx ⟨.s1, crc, [], cap⟩ (frameBody ctx p ++ [ctx.stop])).1.cap = cap ∧
    (delivered ctx ⟨.s1, crc, [], cap⟩ (frameBody ctx p ++ [ctx.stop])).length ≤ 1 ∧
    (crc = 0xFF#8 → delivered ctx ⟨.s1, crc, [], cap⟩ (frameBody ctx p ++ [ctx.stop]) = [p]) := by
  obtain ⟨e1, a1⟩ := feed_stuffed ctx h (p ++ [strmcrc8 0xFF#8 p]) ⟨.s1, crc, [], cap⟩ rfl (by simp; omega)
  have hd0 : delivered ctx ⟨.s1, crc, [], cap⟩ (frameBody ctx p) = [] :=
    delivered_nil_of_statuses _ _ _ (allCont_no_newpackage a1)
  simp only [feed_append, delivered_append, hd0, List.nil_append]
  unfold frameBody
  rw [e1]
  simp only [List.nil_append]
  -- the stop marker on a non-empty line
  have hne : (p ++ [strmcrc8 0xFF#8 p]).isEmpty = false := by simp
  have hstop : ∀ k : BitVec 8, newchar ctx ⟨.s1, k, p ++ [strmcrc8 0xFF#8 p], cap⟩ ctx.stop =
      stopL ⟨.s1, k, p ++ [strmcrc8 0xFF#8 p], cap⟩ := by
    intro k
    rw [newchar_s1]
    by_cases he : ctx.stop = ctx.start
    · simp [he, hne]
    · simp [he]
  simp only [feed, delivered, hstop]
  refine ⟨?_, ?_, ?_, ?_⟩
  · unfold stopL; split <;> rfl
  · unfold stopL; split <;> rfl
  · unfold stopL; split <;> simp [CRC_ERROR, NEWPACKAGE]
  · intro hk; subst hk
    have hcrc : (p ++ [strmcrc8 0xFF#8 p]).foldl strmStep 0xFF#8 = 0#8 := by
      rw [List.foldl_append]; simp only [List.foldl_cons, List.foldl_nil]
      exact strmStep_self _
    simp [hcrc, stopL, NEWPACKAGE]

/-- bytes other than the start marker are ignored between frames -/
theorem garbage_run (ctx : Ctx) (r : Recv) (bs : List Byte) (hr : Idle r)
    (hb : ∀ b ∈ bs, b ≠ ctx.start) :
    Idle (feed ctx r bs).1 ∧ delivered ctx r bs = [] := by
  induction bs generalizing r with
  | nil => exact ⟨by simpa [feed], by simp [delivered]⟩
  | cons c cs ih =>
    have hc : c ≠ ctx.start := hb c (by simp)
    have hstep : Idle (newchar ctx r c).1 ∧ (newchar ctx r c).2 = GARBAGE := by
      obtain ⟨st, crc, line, cap⟩ := r
      rcases hr with hr | hr <;> simp only at hr <;> subst hr
      · rw [newchar_s0]; simp [hc, Idle]
      · rw [newchar_s4]; simp [hc, Idle]
    have := ih (newchar ctx r c).1 hstep.1 (fun b hb' => hb b (by simp [hb']))
    simp only [feed, delivered, hstep.2]
    exact ⟨this.1, by simpa [GARBAGE, NEWPACKAGE] using this.2⟩

end Igris.Gstuff

namespace Igris.Gstuff
open Igris.Proto Igris.C17

/-- start ≠ stop: the start marker sends EVERY receiver state to the primed state -/
theorem start_primes_distinct (ctx : Ctx) (h : ctx.WF) (hne : ctx.start ≠ ctx.stop) (r : Recv) :
    (newchar ctx r ctx.start).1 = ⟨.s1, 0xFF#8, [], r.cap⟩ ∧ (newchar ctx r ctx.start).2 ≠ NEWPACKAGE := by
  obtain ⟨st, crc, line, cap⟩ := r
  have w3 := h.sstart_ne_start; have w5 := h.sstop_ne_start; have w7 := h.sstub_ne_start
  cases st
  · rw [newchar_s0]; simp [CONTINUE, NEWPACKAGE]
  · rw [newchar_s4]; simp [CONTINUE, NEWPACKAGE]
  · rw [newchar_s1]; simp [hne, FORCE_RESTART, NEWPACKAGE]
  · rw [newchar_s2]; simp [Ne.symm w3, Ne.symm w5, Ne.symm w7, FORCE_RESTART, NEWPACKAGE]

/-- a frame is delivered from ANY receiver state when start ≠ stop -/
theorem frame_any_state_distinct (ctx : Ctx) (h : ctx.WF) (hne : ctx.start ≠ ctx.stop) (r : Recv)
    (p : List Byte) (hcap : p.length + 2 ≤ r.cap) :
    delivered ctx r (encode ctx p) = [p] ∧ (feed ctx r (encode ctx p)).1.state = .s0 ∧
      (feed ctx r (encode ctx p)).1.cap = r.cap := by
  obtain ⟨e, hs⟩ := start_primes_distinct ctx h hne r
  obtain ⟨t1, t2, _, t4⟩ := frame_tail ctx h p 0xFF#8 r.cap hcap
  rw [encode_eq]
  simp only [delivered, feed, hs, if_false, e]
  exact ⟨t4 rfl, t1, t2⟩

/-- ready for a frame when start = stop: between frames, or primed -/
def Ready (r : Recv) : Prop := Idle r ∨ Primed r

theorem start_primes_ready (ctx : Ctx) (r : Recv) (hr : Ready r) :
    (newchar ctx r ctx.start).1 = ⟨.s1, 0xFF#8, [], r.cap⟩ ∧ (newchar ctx r ctx.start).2 ≠ NEWPACKAGE := by
  obtain ⟨st, crc, line, cap⟩ := r
  rcases hr with (hr | hr) | ⟨h1, h2, h3⟩
  · simp only at hr; subst hr; rw [newchar_s0]; simp [CONTINUE, NEWPACKAGE]
  · simp only at hr; subst hr; rw [newchar_s4]; simp [CONTINUE, NEWPACKAGE]
  · simp only at h1 h2 h3; subst h1; subst h2; subst h3
    rw [newchar_s1]
    by_cases he : ctx.start = ctx.stop
    · simp [he, CONTINUE, NEWPACKAGE]
    · simp [he, FORCE_RESTART, NEWPACKAGE]

theorem frame_from_ready (ctx : Ctx) (h : ctx.WF) (r : Recv) (hr : Ready r)
    (p : List Byte) (hcap : p.length + 2 ≤ r.cap) :
    delivered ctx r (encode ctx p) = [p] ∧ Ready (feed ctx r (encode ctx p)).1 ∧
      (feed ctx r (encode ctx p)).1.cap = r.cap := by
  obtain ⟨e, hs⟩ := start_primes_ready ctx r hr
  obtain ⟨t1, t2, _, t4⟩ := frame_tail ctx h p 0xFF#8 r.cap hcap
  rw [encode_eq]
  simp only [delivered, feed, hs, if_false, e]
  exact ⟨t4 rfl, Or.inl (Or.inl t1), t2⟩

theorem frames_from_ready (ctx : Ctx) (h : ctx.WF) (r : Recv) (hr : Ready r)
    (ps : List (List Byte)) (hcap : ∀ p ∈ ps, p.length + 2 ≤ r.cap) :
    delivered ctx r (ps.flatMap (encode ctx)) = ps := by
  induction ps generalizing r with
  | nil => simp [delivered]
  | cons p ps ih =>
    obtain ⟨d, rd, cp⟩ := frame_from_ready ctx h r hr p (hcap p (by simp))
    simp only [List.flatMap_cons, delivered_append, d]
    rw [ih _ rd (by intro q hq; rw [cp]; exact hcap q (by simp [hq]))]
    simp

/-- start = stop: whatever the receiver state, after ONE frame it is ready,
and at most one (possibly unrelated) packet was delivered meanwhile -/
theorem first_frame_coincide (ctx : Ctx) (h : ctx.WF) (he : ctx.start = ctx.stop) (r : Recv)
    (p : List Byte) (hcap : p.length + 2 ≤ r.cap) :
    (delivered ctx r (encode ctx p)).length ≤ 1 ∧ Ready (feed ctx r (encode ctx p)).1 ∧
      (feed ctx r (encode ctx p)).1.cap = r.cap := by
  obtain ⟨st, crc, line, cap⟩ := r
  simp only at hcap
  have w3 := h.sstart_ne_start; have w5 := h.sstop_ne_start; have w7 := h.sstub_ne_start
  have viaReady : ∀ r' : Recv, Ready r' → p.length + 2 ≤ r'.cap →
      (delivered ctx r' (encode ctx p)).length ≤ 1 ∧ Ready (feed ctx r' (encode ctx p)).1 ∧
        (feed ctx r' (encode ctx p)).1.cap = r'.cap := by
    intro r' hr' hc'
    obtain ⟨d, rd, cp⟩ := frame_from_ready ctx h r' hr' p hc'
    exact ⟨by simp [d], rd, cp⟩
  cases st
  · exact viaReady _ (Or.inl (Or.inl rfl)) hcap
  · exact viaReady _ (Or.inl (Or.inr rfl)) hcap
  · -- in-frame
    by_cases hl : line = []
    · -- empty line, arbitrary crc: the marker is a repeated start, the frame runs with that crc
      subst hl
      have hstep : newchar ctx ⟨.s1, crc, [], cap⟩ ctx.start = (⟨.s1, crc, [], cap⟩, CONTINUE) := by
        rw [newchar_s1]; simp [he]
      obtain ⟨t1, t2, t3, _⟩ := frame_tail ctx h p crc cap hcap
      rw [encode_eq]
      simp only [delivered, feed, hstep]
      refine ⟨?_, Or.inl (Or.inl t1), t2⟩
      simpa [CONTINUE, NEWPACKAGE] using t3
    · -- non-empty line: the opening marker is taken as a stop; the body is
      -- ignored; the closing marker primes the receiver
      have hl' : line.isEmpty = false := by simpa using hl
      have hstep : newchar ctx ⟨.s1, crc, line, cap⟩ ctx.start = stopL ⟨.s1, crc, line, cap⟩ := by
        rw [newchar_s1]; simp [he, hl']
      have hidle : Idle (stopL ⟨.s1, crc, line, cap⟩).1 ∧ (stopL ⟨.s1, crc, line, cap⟩).1.cap = cap := by
        unfold stopL; split <;> exact ⟨Or.inl rfl, rfl⟩
      obtain ⟨g1, g2⟩ := garbage_run ctx _ (frameBody ctx p) hidle.1 (frameBody_no_start ctx h p)
      have hcapg : (feed ctx (stopL ⟨.s1, crc, line, cap⟩).1 (frameBody ctx p)).1.cap = cap := by
        rw [feed_cap]; exact hidle.2
      obtain ⟨e, hs⟩ := start_primes_ready ctx _ (Or.inl g1)
      rw [encode_eq]
      simp only [delivered, feed, hstep, feed_append, delivered_append, g2, List.nil_append, ← he]
      rw [hcapg] at e
      refine ⟨?_, ?_, ?_⟩
      · simp only [hs, if_false]
        split <;> simp
      · rw [e]; exact Or.inr ⟨rfl, rfl, rfl⟩
      · rw [e]
  · -- stub pending: the marker restarts the frame
    have hstep : newchar ctx ⟨.s2, crc, line, cap⟩ ctx.start = (⟨.s1, 0xFF#8, [], cap⟩, FORCE_RESTART) := by
      rw [newchar_s2]; simp [Ne.symm w3, Ne.symm w5, Ne.symm w7]
    obtain ⟨t1, t2, t3, _⟩ := frame_tail ctx h p 0xFF#8 cap hcap
    rw [encode_eq]
    simp only [delivered, feed, hstep]
    refine ⟨?_, Or.inl (Or.inl t1), t2⟩
    simpa [FORCE_RESTART, NEWPACKAGE] using t3

end Igris.Gstuff

namespace Igris.Gstuff
open Igris.Proto Igris.C17

theorem putcharL_full (r : Recv) (c : Byte) (h : r.cap - 1 ≤ r.line.length) :
    putcharL r c = ({ r with state := .s0 }, OVERFLOW) := by
  have : r.putOk = false := by simp [Recv.putOk]; omega
  simp [putcharL, this]

/-- on a full line the stuffed form of any byte is answered with OVERFLOW,
nothing is delivered, and the receiver drops back between frames -/
theorem feed_stuffByte_full (ctx : Ctx) (h : ctx.WF) (r : Recv) (c : Byte)
    (hs : r.state = .s1) (hfull : r.cap - 1 ≤ r.line.length) :
    OVERFLOW ∈ (feed ctx r (stuffByte ctx c)).2 ∧ Idle (feed ctx r (stuffByte ctx c)).1 ∧
    delivered ctx r (stuffByte ctx c) = [] ∧ (feed ctx r (stuffByte ctx c)).1.cap = r.cap := by
  have h1 := h.stub_ne_start; have h2 := h.stub_ne_stop
  have h3 := h.sstub_ne_sstart; have h4 := h.sstub_ne_sstop
  obtain ⟨st, crc, line, cap⟩ := r
  simp only at hs hfull; subst hs
  have pf : ∀ (st : St) (x : Byte), putcharL ⟨st, crc, line, cap⟩ x = (⟨.s0, crc, line, cap⟩, OVERFLOW) :=
    fun st x => putcharL_full ⟨st, crc, line, cap⟩ x hfull
  unfold stuffByte
  by_cases hc1 : c = ctx.start
  · subst hc1
    simp [feed, delivered, newchar_s1, newchar_s2, h1, h2, pf, Idle, CONTINUE, OVERFLOW, NEWPACKAGE]
  · by_cases hc2 : c = ctx.stub
    · subst hc2
      simp [feed, delivered, newchar_s1, newchar_s2, h1, h2, h3, h4, pf, Idle, CONTINUE, OVERFLOW, NEWPACKAGE]
    · by_cases hc3 : c = ctx.stop
      · subst hc3
        have h5 := h.sstop_ne_sstart (fun e => hc1 e.symm)
        simp [feed, delivered, newchar_s1, newchar_s2, h1, h2, hc1, hc2, h5, pf, Idle, CONTINUE, OVERFLOW, NEWPACKAGE]
      · simp [feed, delivered, newchar_s1, hc1, hc2, hc3, pf, Idle, OVERFLOW, NEWPACKAGE]

/-- between frames no single byte completes a packet -/
theorem idle_no_delivery (ctx : Ctx) (r : Recv) (c : Byte) (hr : Idle r) :
    (newchar ctx r c).2 ≠ NEWPACKAGE := by
  obtain ⟨st, crc, line, cap⟩ := r
  rcases hr with hr | hr <;> simp only at hr <;> subst hr
  · rw [newchar_s0]; split <;> simp [CONTINUE, GARBAGE, NEWPACKAGE]
  · rw [newchar_s4]; split <;> simp [CONTINUE, GARBAGE, NEWPACKAGE]

end Igris.Gstuff

namespace Igris.Gstuff
open Igris.Proto Igris.C17

/-! ## legacy receiver -/

def ldelivered : LRecv → List Byte → List (List Byte)
  | _, [] => []
  | r, c :: cs =>
    let x := lnewchar r c
    -- legacy convention: the line still holds the CRC byte; the packet is the line without it
    if x.2 = NEWPACKAGE then x.1.line.dropLast :: ldelivered x.1 cs else ldelivered x.1 cs

theorem lnewchar_l0 (crc : BitVec 8) (line : List Byte) (cap : Nat) (c : Byte) :
    lnewchar ⟨.l0, crc, line, cap⟩ c = lnewchar ⟨.l1, 0xFF#8, [], cap⟩ c := by
  simp [lnewchar]

theorem lnewchar_l1 (crc : BitVec 8) (line : List Byte) (cap : Nat) (c : Byte) :
    lnewchar ⟨.l1, crc, line, cap⟩ c =
      if c = legStart then
        if line.isEmpty then (⟨.l1, crc, line, cap⟩, CONTINUE)
        else if crc ≠ 0 then (⟨.l0, crc, line, cap⟩, CRC_ERROR)
        else (⟨.l0, crc, line, cap⟩, NEWPACKAGE)
      else if c = legStub then (⟨.l2, crc, line, cap⟩, CONTINUE)
      else lputchar ⟨.l1, crc, line, cap⟩ c := by
  simp [lnewchar]

theorem lnewchar_l2 (crc : BitVec 8) (line : List Byte) (cap : Nat) (c : Byte) :
    lnewchar ⟨.l2, crc, line, cap⟩ c =
      if c = legStubStart then lputchar ⟨.l2, crc, line, cap⟩ legStart
      else if c = legStubStub then lputchar ⟨.l2, crc, line, cap⟩ legStub
      else if c = legStart then (⟨.l0, crc, line, cap⟩, LDATA_ERROR)
      else (⟨.l3, crc, line, cap⟩, LDATA_ERROR) := by
  simp [lnewchar]

/-- hunt state: everything but the marker is skipped; the marker primes the receiver -/
theorem lnewchar_l3 (crc : BitVec 8) (line : List Byte) (cap : Nat) (c : Byte) :
    lnewchar ⟨.l3, crc, line, cap⟩ c =
      if c = legStart then (⟨.l1, 0xFF#8, [], cap⟩, CONTINUE)
      else (⟨.l3, crc, line, cap⟩, CONTINUE) := by
  by_cases hc : c = legStart <;> simp [lnewchar, hc]

def LLineOK (r : LRecv) : Prop := r.line.length ≤ r.cap - 1

theorem lnewchar_cap (r : LRecv) (c : Byte) : (lnewchar r c).1.cap = r.cap := by
  obtain ⟨st, crc, line, cap⟩ := r
  cases st <;> simp only [lnewchar_l0, lnewchar_l1, lnewchar_l2, lnewchar_l3, lputchar] <;> (repeat' split) <;> simp

theorem lnewchar_lineOK (r : LRecv) (c : Byte) (h : LLineOK r) : LLineOK (lnewchar r c).1 := by
  obtain ⟨st, crc, line, cap⟩ := r
  simp only [LLineOK] at h
  cases st <;> simp only [lnewchar_l0, lnewchar_l1, lnewchar_l2, lnewchar_l3, lputchar, LLineOK] <;>
    (repeat' split) <;> simp_all <;> omega

theorem lfeed_lineOK (r : LRecv) (bs : List Byte) (h : LLineOK r) : LLineOK (lfeed r bs).1 := by
  induction bs generalizing r with
  | nil => simpa [lfeed]
  | cons c cs ih => simp only [lfeed]; exact ih _ (lnewchar_lineOK r c h)

theorem lfeed_cap (r : LRecv) (bs : List Byte) : (lfeed r bs).1.cap = r.cap := by
  induction bs generalizing r with
  | nil => simp [lfeed]
  | cons c cs ih => simp only [lfeed]; rw [ih, lnewchar_cap]

theorem ldelivered_append (r : LRecv) (a b : List Byte) :
    ldelivered r (a ++ b) = ldelivered r a ++ ldelivered (lfeed r a).1 b := by
  induction a generalizing r with
  | nil => simp [ldelivered, lfeed]
  | cons c cs ih =>
    simp only [List.cons_append, ldelivered, lfeed]
    split <;> simp [ih]

theorem ldelivered_nil_of_statuses (r : LRecv) (a : List Byte)
    (h : ∀ s ∈ (lfeed r a).2, s ≠ NEWPACKAGE) : ldelivered r a = [] := by
  induction a generalizing r with
  | nil => simp [ldelivered]
  | cons c cs ih =>
    simp only [lfeed, List.mem_cons, forall_eq_or_imp] at h
    simp only [ldelivered, h.1, if_false]
    exact ih _ h.2

def lframeBody (p : List Byte) : List Byte := (p ++ [strmcrc8 0xFF#8 p]).flatMap legStuffByte

theorem encodeLeg_eq (p : List Byte) : encodeLeg p = legStart :: (lframeBody p ++ [legStart]) := by
  simp [encodeLeg, lframeBody]

/-- from an in-frame legacy receiver with an EMPTY line (any crc), body + closing
marker end in state 0; when the crc is the initial one the packet is `p` -/
theorem lframe_tail (p : List Byte) (crc : BitVec 8) (cap : Nat) (hcap : p.length + 2 ≤ cap) :
    (lfeed ⟨.l1, crc, [], cap⟩ (lframeBody p ++ [legStart])).1.state = .l0 ∧
    (lfeed ⟨.l1, crc, [], cap⟩ (lframeBody p ++ [legStart])).1.cap = cap ∧
    (ldelivered ⟨.l1, crc, [], cap⟩ (lframeBody p ++ [legStart])).length ≤ 1 ∧
    (crc = 0xFF#8 → ldelivered ⟨.l1, crc, [], cap⟩ (lframeBody p ++ [legStart]) = [p]) := by
  obtain ⟨e1, a1⟩ := lfeed_stuffed (p ++ [strmcrc8 0xFF#8 p]) ⟨.l1, crc, [], cap⟩ rfl (by simp; omega)
  have hd0 : ldelivered ⟨.l1, crc, [], cap⟩ (lframeBody p) = [] :=
    ldelivered_nil_of_statuses _ _ (allCont_no_newpackage a1)
  simp only [lfeed_append, ldelivered_append, hd0, List.nil_append]
  unfold lframeBody
  rw [e1]
  simp only [List.nil_append]
  have hne : (p ++ [strmcrc8 0xFF#8 p]).isEmpty = false := by simp
  simp only [lfeed, ldelivered, lnewchar_l1, hne, if_true, Bool.false_eq_true, if_false]
  refine ⟨?_, ?_, ?_, ?_⟩
  · split <;> rfl
  · split <;> rfl
  · split <;> simp [CRC_ERROR, NEWPACKAGE]
  · intro hk; subst hk
    have hcrc : (p ++ [strmcrc8 0xFF#8 p]).foldl strmStep 0xFF#8 = 0#8 := by
      rw [List.foldl_append]; simp only [List.foldl_cons, List.foldl_nil]
      exact strmStep_self _
    simp [hcrc, NEWPACKAGE]

/-- a legacy frame fed to a receiver in state 0, hunting (state 3), or primed (l1, empty, FF) -/
def LReady (r : LRecv) : Prop :=
  (r.state = .l0 ∨ r.state = .l3) ∨ (r.state = .l1 ∧ r.line = [] ∧ r.crc = 0xFF#8)

theorem lframe_from_ready (r : LRecv) (hr : LReady r) (p : List Byte) (hcap : p.length + 2 ≤ r.cap) :
    ldelivered r (encodeLeg p) = [p] ∧ LReady (lfeed r (encodeLeg p)).1 ∧
      (lfeed r (encodeLeg p)).1.cap = r.cap := by
  obtain ⟨st, crc, line, cap⟩ := r
  obtain ⟨t1, t2, _, t4⟩ := lframe_tail p 0xFF#8 cap hcap
  have hstep : lnewchar ⟨st, crc, line, cap⟩ legStart = (⟨.l1, 0xFF#8, [], cap⟩, CONTINUE) := by
    rcases hr with (hr | hr) | ⟨h1, h2, h3⟩
    · simp only at hr; subst hr; rw [lnewchar_l0, lnewchar_l1]; simp
    · simp only at hr; subst hr; rw [lnewchar_l3]; simp
    · simp only at h1 h2 h3; subst h1; subst h2; subst h3; rw [lnewchar_l1]; simp
  rw [encodeLeg_eq]
  simp only [ldelivered, lfeed, hstep]
  refine ⟨?_, Or.inl (Or.inl t1), t2⟩
  simpa [CONTINUE, NEWPACKAGE] using t4 rfl

theorem lframes_from_ready (r : LRecv) (hr : LReady r) (ps : List (List Byte))
    (hcap : ∀ p ∈ ps, p.length + 2 ≤ r.cap) :
    ldelivered r (ps.flatMap encodeLeg) = ps := by
  induction ps generalizing r with
  | nil => simp [ldelivered]
  | cons p ps ih =>
    obtain ⟨d, rd, cp⟩ := lframe_from_ready r hr p (hcap p (by simp))
    simp only [List.flatMap_cons, ldelivered_append, d]
    rw [ih _ rd (by intro q hq; rw [cp]; exact hcap q (by simp [hq]))]
    simp

/-- reachable-state invariant of the legacy receiver: an empty line carries the initial CRC -/
def LGood (r : LRecv) : Prop := r.line = [] → r.crc = 0xFF#8

theorem lnewchar_good (r : LRecv) (c : Byte) (h : LGood r) : LGood (lnewchar r c).1 := by
  obtain ⟨st, crc, line, cap⟩ := r
  simp only [LGood] at h
  cases st <;> simp only [lnewchar_l0, lnewchar_l1, lnewchar_l2, lnewchar_l3, lputchar, LGood] <;>
    (repeat' split) <;> simp_all

theorem lfeed_good (r : LRecv) (bs : List Byte) (h : LGood r) : LGood (lfeed r bs).1 := by
  induction bs generalizing r with
  | nil => simpa [lfeed]
  | cons c cs ih => simp only [lfeed]; exact ih _ (lnewchar_good r c h)

/-- after ANY stream that ends with the marker a (reachable) legacy receiver is ready for a frame -/
theorem lready_after_marker (r : LRecv) (h : LGood r) : LReady (lnewchar r legStart).1 := by
  obtain ⟨st, crc, line, cap⟩ := r
  simp only [LGood] at h
  have e1 : legStart ≠ legStubStart := by decide
  have e2 : legStart ≠ legStubStub := by decide
  cases st
  · rw [lnewchar_l0, lnewchar_l1]; simp [LReady]
  · rw [lnewchar_l1]
    by_cases hl : line = []
    · subst hl; simp [LReady, h rfl]
    · have : line.isEmpty = false := by simpa using hl
      simp only [this, if_true, Bool.false_eq_true, if_false]
      split <;> exact Or.inl (Or.inl rfl)
  · rw [lnewchar_l2]; simp [e1, e2, LReady]
  · rw [lnewchar_l3]; simp [LReady]

end Igris.Gstuff
