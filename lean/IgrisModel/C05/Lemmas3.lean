/-
  C05 — lemmas of round 3: reachable-state invariant of the configurable receiver, what exactly
  happens to the first frame after a garbage prefix when start = stop, legacy receiver alike.
-/
import IgrisModel.C05.LemmasBuf
namespace Igris.Gstuff
open Igris.Proto Igris.C17

/-- reachable-state invariant of the configurable receiver: in a frame, an empty line carries the initial CRC -/
def Good (r : Recv) : Prop := r.state = .s1 → r.line = [] → r.crc = 0xFF#8

theorem putcharL_good (r : Recv) (c : Byte) : Good (putcharL r c).1 := by
  unfold putcharL; split <;> simp [Good]

theorem newchar_good (ctx : Ctx) (r : Recv) (c : Byte) (h : Good r) : Good (newchar ctx r c).1 := by
  obtain ⟨st, crc, line, cap⟩ := r
  cases st
  · rw [newchar_s0]; split <;> simp [Good]
  · rw [newchar_s4]; split <;> simp [Good]
  · rw [newchar_s1]
    split
    · simp [Good]
    · split
      · exact h
      · split
        · unfold stopL; split <;> simp [Good]
        · split
          · simp [Good]
          · exact putcharL_good _ _
  · rw [newchar_s2]
    split
    · exact putcharL_good _ _
    · split
      · exact putcharL_good _ _
      · split
        · exact putcharL_good _ _
        · split <;> simp [Good]

theorem feed_good (ctx : Ctx) (r : Recv) (bs : List Byte) (h : Good r) : Good (feed ctx r bs).1 := by
  induction bs generalizing r with
  | nil => simpa [feed]
  | cons c cs ih => simp only [feed]; exact ih _ (newchar_good ctx r c h)


/-- start = stop, receiver IN A FRAME WITH A NON-EMPTY LINE: the opening marker of the next frame
is taken for the stop marker (it completes the packet begun before, or is a CRC error), the body of
the frame - of ANY length - is skipped as garbage, its closing marker primes the receiver.  The
frame is lost; what is delivered is determined by the state before, not by the frame. -/
theorem first_frame_inframe (ctx : Ctx) (h : ctx.WF) (he : ctx.start = ctx.stop)
    (crc : BitVec 8) (line : List Byte) (cap : Nat) (hl : line ≠ []) (p : List Byte) :
    delivered ctx ⟨.s1, crc, line, cap⟩ (encode ctx p) = (if crc = 0#8 then [line.dropLast] else []) ∧
    Ready (feed ctx ⟨.s1, crc, line, cap⟩ (encode ctx p)).1 ∧
    (feed ctx ⟨.s1, crc, line, cap⟩ (encode ctx p)).1.cap = cap := by
  have hl' : line.isEmpty = false := by simpa using hl
  have hstep : newchar ctx ⟨.s1, crc, line, cap⟩ ctx.start = stopL ⟨.s1, crc, line, cap⟩ := by
    rw [newchar_s1]; simp [he, hl']
  have hidle : Idle (stopL ⟨.s1, crc, line, cap⟩).1 ∧ (stopL ⟨.s1, crc, line, cap⟩).1.cap = cap := by
    unfold stopL; split <;> exact ⟨Or.inl rfl, rfl⟩
  obtain ⟨g1, g2⟩ := garbage_run ctx _ (frameBody ctx p) hidle.1 (frameBody_no_start ctx h p)
  have hcapg : (feed ctx (stopL ⟨.s1, crc, line, cap⟩).1 (frameBody ctx p)).1.cap = cap := by
    rw [feed_cap]; exact hidle.2
  obtain ⟨e, hs⟩ := start_primes_ready ctx _ (Or.inl g1)
  rw [encode_eq]
  simp only [delivered, feed, hstep, feed_append, delivered_append, g2, List.nil_append, ← he]
  rw [hcapg] at e
  refine ⟨?_, ?_, ?_⟩
  · simp only [hs, if_false]
    by_cases hz : crc = 0#8
    · simp [stopL, hz, NEWPACKAGE]
    · simp [stopL, hz, CRC_ERROR, NEWPACKAGE]
  · rw [e]; exact Or.inr ⟨rfl, rfl, rfl⟩
  · rw [e]

/-- a frame that arrives right after the escape byte restarts the receiver and is delivered (any alphabet) -/
theorem first_frame_s2 (ctx : Ctx) (h : ctx.WF) (crc : BitVec 8) (line : List Byte) (cap : Nat)
    (p : List Byte) (hcap : p.length + 2 ≤ cap) :
    delivered ctx ⟨.s2, crc, line, cap⟩ (encode ctx p) = [p] ∧
    Ready (feed ctx ⟨.s2, crc, line, cap⟩ (encode ctx p)).1 ∧
    (feed ctx ⟨.s2, crc, line, cap⟩ (encode ctx p)).1.cap = cap := by
  have w3 := h.sstart_ne_start; have w5 := h.sstop_ne_start; have w7 := h.sstub_ne_start
  have hstep : newchar ctx ⟨.s2, crc, line, cap⟩ ctx.start = (⟨.s1, 0xFF#8, [], cap⟩, FORCE_RESTART) := by
    rw [newchar_s2]; simp [Ne.symm w3, Ne.symm w5, Ne.symm w7]
  obtain ⟨t1, t2, _, t4⟩ := frame_tail ctx h p 0xFF#8 cap hcap
  rw [encode_eq]
  simp only [delivered, feed, hstep]
  refine ⟨?_, Or.inl (Or.inl t1), t2⟩
  simpa [FORCE_RESTART, NEWPACKAGE] using t4 rfl

/-- the trace the driver prints = (statuses, deliveries) -/
theorem lfeedTrace_eq (r : LRecv) (s : List Byte) :
    lfeedTrace r s = ((lfeed r s).2.map stsChar, ldelivered r s) := by
  induction s generalizing r with
  | nil => rfl
  | cons c cs ih =>
    simp only [lfeedTrace, lfeed, ldelivered, ih, List.map_cons]

theorem feedTrace_eq (ctx : Ctx) (r : Recv) (s : List Byte) :
    feedTrace ctx r s = ((feed ctx r s).2.map stsChar, delivered ctx r s) := by
  induction s generalizing r with
  | nil => rfl
  | cons c cs ih =>
    simp only [feedTrace, feed, delivered, ih, List.map_cons]

/-! ### round 3b: start = stop, receiver inside a frame: the next frame is skipped as garbage -/

theorem garbage_statuses (ctx : Ctx) (r : Recv) (bs : List Byte) (hr : Idle r)
    (hb : ∀ b ∈ bs, b ≠ ctx.start) : ∀ s ∈ (feed ctx r bs).2, s = GARBAGE := by
  induction bs generalizing r with
  | nil => simp [feed]
  | cons c cs ih =>
    have hc : c ≠ ctx.start := hb c (by simp)
    have hstep : Idle (newchar ctx r c).1 ∧ (newchar ctx r c).2 = GARBAGE := by
      obtain ⟨st, crc, line, cap⟩ := r
      rcases hr with hr | hr <;> simp only at hr <;> subst hr
      · rw [newchar_s0]; simp [hc, Idle]
      · rw [newchar_s4]; simp [hc, Idle]
    have := ih (newchar ctx r c).1 hstep.1 (fun b hb' => hb b (by simp [hb']))
    intro s hs
    simp only [feed, List.mem_cons] at hs
    rcases hs with hs | hs
    · rw [hs]; exact hstep.2
    · exact this s hs

theorem inframe_swallow (ctx : Ctx) (he : ctx.start = ctx.stop) (crc : BitVec 8) (line : List Byte) (cp : Nat)
    (hl : line ≠ []) (body : List Byte) (hnm : ∀ b ∈ body, b ≠ ctx.start) :
    delivered ctx ⟨.s1, crc, line, cp⟩ (ctx.start :: (body ++ [ctx.stop])) = delivered ctx ⟨.s1, crc, line, cp⟩ [ctx.start] ∧
    OVERFLOW ∉ (feed ctx ⟨.s1, crc, line, cp⟩ (ctx.start :: (body ++ [ctx.stop]))).2 := by
  have hemp : line.isEmpty = false := by cases line <;> simp_all
  have hidle : Idle (newchar ctx ⟨.s1, crc, line, cp⟩ ctx.start).1 ∧ (newchar ctx ⟨.s1, crc, line, cp⟩ ctx.start).2 ≠ OVERFLOW := by
    rw [newchar_s1]
    simp only [he, ne_eq, not_true_eq_false, and_false, if_false, hemp, Bool.false_eq_true, if_true, stopL]
    split <;> exact ⟨Or.inl rfl, by simp [CRC_ERROR, NEWPACKAGE, OVERFLOW]⟩
  obtain ⟨g1, g2⟩ := garbage_run ctx _ body hidle.1 hnm
  have g3 := garbage_statuses ctx _ body hidle.1 hnm
  have hlast := idle_no_delivery ctx _ ctx.stop g1
  have hlast2 : (newchar ctx (feed ctx (newchar ctx ⟨.s1, crc, line, cp⟩ ctx.start).1 body).1 ctx.stop).2 = CONTINUE := by
    rw [← he, newchar_start_idle ctx _ g1]
  refine ⟨?_, ?_⟩
  · simp only [delivered, delivered_append, g2, List.nil_append]
    simp only [hlast, if_false]
  · simp only [feed, feed_append, List.mem_cons, List.mem_append, not_or, List.not_mem_nil, or_false]
    refine ⟨fun h => hidle.2 h.symm, fun h => ?_, fun h => ?_⟩
    · have := g3 _ h; revert this; decide
    · rw [hlast2] at h; revert h; decide

theorem stsChar_O (x : Int) (h : stsChar x = 'O') : x = OVERFLOW := by
  by_cases h6 : x = OVERFLOW
  · exact h6
  · exfalso
    unfold stsChar at h
    rw [if_neg h6] at h
    by_cases h1 : x = CONTINUE
    · rw [if_pos h1] at h; exact absurd h (by decide)
    rw [if_neg h1] at h
    by_cases h2 : x = NEWPACKAGE
    · rw [if_pos h2] at h; exact absurd h (by decide)
    rw [if_neg h2] at h
    by_cases h3 : x = FORCE_RESTART
    · rw [if_pos h3] at h; exact absurd h (by decide)
    rw [if_neg h3] at h
    by_cases h4 : x = GARBAGE
    · rw [if_pos h4] at h; exact absurd h (by decide)
    rw [if_neg h4] at h
    by_cases h5 : x = CRC_ERROR
    · rw [if_pos h5] at h; exact absurd h (by decide)
    rw [if_neg h5] at h
    by_cases h7 : x = STUFFING_ERROR
    · rw [if_pos h7] at h; exact absurd h (by decide)
    rw [if_neg h7] at h
    exact absurd h (by decide)

end Igris.Gstuff
