/-
  C05 — lemmas of round 3: reachable-state invariant of the configurable receiver, what exactly
  happens to the first frame after a garbage prefix when start = stop, legacy receiver alike.
-/
import IgrisModel.C05.LemmasBuf
namespace Igris.Gstuff
open Igris.Proto Igris.C17

/-- reachable-state invariant of the configurable receiver: in a frame, an empty line carries the initial CRC -/
def Good (r : Recv) : Prop := r.state = .s1 → r.line = [] → r.crc = 0xFF#8

theorem putcharL_good (r : Recv) (c : Byte) : Good (putcharL r c).1 := by
  unfold putcharL; split <;> simp [Good]

theorem newchar_good (ctx : Ctx) (r : Recv) (c : Byte) (h : Good r) : Good (newchar ctx r c).1 := by
  obtain ⟨st, crc, line, cap⟩ := r
  cases st
  · rw [newchar_s0]; split <;> simp [Good]
  · rw [newchar_s4]; split <;> simp [Good]
  · rw [newchar_s1]
    split
    · simp [Good]
    · split
      · exact h
      · split
        · unfold stopL; split <;> simp [Good]
        · split
          · simp [Good]
          · exact putcharL_good _ _
  · rw [newchar_s2]
    split
    · exact putcharL_good _ _
    · split
      · exact putcharL_good _ _
      · split
        · exact putcharL_good _ _
        · split <;> simp [Good]

theorem feed_good (ctx : Ctx) (r : Recv) (bs : List Byte) (h : Good r) : Good (feed ctx r bs).1 := by
  induction bs generalizing r with
  | nil => simpa [feed]
  | cons c cs ih => simp only [feed]; exact ih _ (newchar_good ctx r c h)


/-- start = stop, receiver IN A FRAME WITH A NON-EMPTY LINE: the opening marker of the next frame
is taken for the stop marker (it completes the packet begun before, or is a CRC error), the body of
the frame - of ANY length - is skipped as garbage, its closing marker primes the receiver.  The
frame is lost; what is delivered is determined by the state before, not by the frame. -/
theorem first_frame_inframe (ctx : Ctx) (h : ctx.WF) (he : ctx.start = ctx.stop)
    (crc : BitVec 8) (line : List Byte) (cap : Nat) (hl : line ≠ []) (p : List Byte) :
    delivered ctx ⟨.s1, crc, line, cap⟩ (encode ctx p) = (if crc = 0#8 then [line.dropLast] else []) ∧
    Ready (feed ctx ⟨.s1, crc, line, cap⟩ (encode ctx p)).1 ∧
    (feed ctx ⟨.s1, crc, line, cap⟩ (encode ctx p)).1.cap = cap := by
  have hl' : line.isEmpty = false := by simpa using hl
  have hstep : newchar ctx ⟨.s1, crc, line, cap⟩ ctx.start = stopL ⟨.s1, crc, line, cap⟩ := by
    rw [newchar_s1]; simp [he, hl']
  have hidle : Idle (stopL ⟨.s1, crc, line, cap⟩).1 ∧ (stopL ⟨.s1, crc, line, cap⟩).1.cap = cap := by
    unfold stopL; split <;> exact ⟨Or.inl rfl, rfl⟩
  obtain ⟨g1, g2⟩ := garbage_run ctx _ (frameBody ctx p) hidle.1 (frameBody_no_start ctx h p)
  have hcapg : (feed ctx (stopL ⟨.s1, crc, line, cap⟩).1 (frameBody ctx p)).1.cap = cap := by
    rw [feed_cap]; exact hidle.2
  obtain ⟨e, hs⟩ := start_primes_ready ctx _ (Or.inl g1)
  rw [encode_eq]
  simp only [delivered, feed, hstep, feed_append, delivered_append, g2, List.nil_append, ← he]
  rw [hcapg] at e
  refine ⟨?_, ?_, ?_⟩
  · simp only [hs, if_false]
    by_cases hz : crc = 0#8
    · simp [stopL, hz, NEWPACKAGE]
    · simp [stopL, hz, CRC_ERROR, NEWPACKAGE]
  · rw [e]; exact Or.inr ⟨rfl, rfl, rfl⟩
  · rw [e]

/-- a frame that arrives right after the escape byte restarts the receiver and is delivered (any alphabet) -/
theorem first_frame_s2 (ctx : Ctx) (h : ctx.WF) (crc : BitVec 8) (line : List Byte) (cap : Nat)
    (p : List Byte) (hcap : p.length + 2 ≤ cap) :
    delivered ctx ⟨.s2, crc, line, cap⟩ (encode ctx p) = [p] ∧
    Ready (feed ctx ⟨.s2, crc, line, cap⟩ (encode ctx p)).1 ∧
    (feed ctx ⟨.s2, crc, line, cap⟩ (encode ctx p)).1.cap = cap := by
  have w3 := h.sstart_ne_start; have w5 := h.sstop_ne_start; have w7 := h.sstub_ne_start
  have hstep : newchar ctx ⟨.s2, crc, line, cap⟩ ctx.start = (⟨.s1, 0xFF#8, [], cap⟩, FORCE_RESTART) := by
    rw [newchar_s2]; simp [Ne.symm w3, Ne.symm w5, Ne.symm w7]
  obtain ⟨t1, t2, _, t4⟩ := frame_tail ctx h p 0xFF#8 cap hcap
  rw [encode_eq]
  simp only [delivered, feed, hstep]
  refine ⟨?_, Or.inl (Or.inl t1), t2⟩
  simpa [FORCE_RESTART, NEWPACKAGE] using t4 rfl

/-- the trace the driver prints = (statuses, deliveries) -/
theorem lfeedTrace_eq (r : LRecv) (s : List Byte) :
    lfeedTrace r s = ((lfeed r s).2.map stsChar, ldelivered r s) := by
  induction s generalizing r with
  | nil => rfl
  | cons c cs ih =>
    simp only [lfeedTrace, lfeed, ldelivered, ih, List.map_cons]

theorem feedTrace_eq (ctx : Ctx) (r : Recv) (s : List Byte) :
    feedTrace ctx r s = ((feed ctx r s).2.map stsChar, delivered ctx r s) := by
  induction s generalizing r with
  | nil => rfl
  | cons c cs ih =>
    simp only [feedTrace, feed, delivered, ih, List.map_cons]

end Igris.Gstuff
