/-
  C05 — the overflow clause in general form: ANY marker-free byte sequence
  whose unescaping grows beyond capacity-1 bytes, fed to an in-frame receiver,
  is answered with OVERFLOW and nothing of it is delivered.
-/
import IgrisModel.C05.LemmasLeg
namespace Igris.Gstuff
open Igris.Proto Igris.C17

theorem foldl_unescStep_none (ctx : Ctx) (bs : List Byte) :
    bs.foldl (unescStep ctx) none = none := by
  induction bs with
  | nil => rfl
  | cons c cs ih => simpa [unescStep] using ih

/-- continue unescaping from an intermediate state -/
def unescFrom (ctx : Ctx) (line : List Byte) (pending : Bool) (bs : List Byte) : Option (List Byte × Bool) :=
  bs.foldl (unescStep ctx) (some (line, pending))

theorem unescPartial_eq_from (ctx : Ctx) (bs : List Byte) : unescPartial ctx bs = unescFrom ctx [] false bs := rfl

/-! ### configurable receiver -/

/-- what one body byte (neither start nor stop marker) does to an in-frame receiver -/
inductive BodyStep (ctx : Ctx) (r : Recv) (c : Byte) : Prop
  | cont (hs : (newchar ctx r c).2 = CONTINUE)
      (hst : (newchar ctx r c).1.state = .s1 ∨ (newchar ctx r c).1.state = .s2)
      (hok : LineOK (newchar ctx r c).1)
      (hu : unescStep ctx (some (r.line, decide (r.state = .s2))) c =
        some ((newchar ctx r c).1.line, decide ((newchar ctx r c).1.state = .s2)))
  | ovf (hs : (newchar ctx r c).2 = OVERFLOW) (hst : (newchar ctx r c).1.state = .s0)
      (hfull : r.cap - 1 ≤ r.line.length)
  | bad (hu : unescStep ctx (some (r.line, decide (r.state = .s2))) c = none)

theorem putcharL_bodyStep (st : St) (crc : BitVec 8) (line : List Byte) (cap : Nat) (x : Byte)
    (hok : line.length ≤ cap - 1) :
    ((putcharL ⟨st, crc, line, cap⟩ x).2 = CONTINUE ∧ (putcharL ⟨st, crc, line, cap⟩ x).1.state = .s1 ∧
      LineOK (putcharL ⟨st, crc, line, cap⟩ x).1 ∧ (putcharL ⟨st, crc, line, cap⟩ x).1.line = line ++ [x]) ∨
    ((putcharL ⟨st, crc, line, cap⟩ x).2 = OVERFLOW ∧ (putcharL ⟨st, crc, line, cap⟩ x).1.state = .s0 ∧
      cap - 1 ≤ line.length) := by
  by_cases hp : cap - 1 ≤ line.length
  · right
    have : (Recv.putOk ⟨st, crc, line, cap⟩) = false := by simp [Recv.putOk, hp]
    simp [putcharL, this, hp]
  · left
    have : (Recv.putOk ⟨st, crc, line, cap⟩) = true := by simp [Recv.putOk, hp]
    refine ⟨by simp [putcharL, this], by simp [putcharL, this], ?_, by simp [putcharL, this]⟩
    simp only [putcharL, this, if_true, LineOK, List.length_append, List.length_cons, List.length_nil]
    omega

theorem bodyStep (ctx : Ctx) (r : Recv) (c : Byte) (hs : r.state = .s1 ∨ r.state = .s2) (hok : LineOK r)
    (h1 : c ≠ ctx.start) (h2 : c ≠ ctx.stop) : BodyStep ctx r c := by
  obtain ⟨st, crc, line, cap⟩ := r
  simp only [LineOK] at hok
  rcases hs with hs | hs <;> simp only at hs <;> subst hs
  · -- state 1
    by_cases hstub : c = ctx.stub
    · subst hstub
      refine .cont ?_ ?_ ?_ ?_ <;> rw [newchar_s1] <;> simp [h1, h2, LineOK, unescStep, hok]
    · have hn : newchar ctx ⟨.s1, crc, line, cap⟩ c = putcharL ⟨.s1, crc, line, cap⟩ c := by
        rw [newchar_s1]; simp [h1, h2, hstub]
      rcases putcharL_bodyStep .s1 crc line cap c hok with ⟨a, b, d, e⟩ | ⟨a, b, d⟩
      · refine .cont (by rw [hn]; exact a) (by rw [hn]; exact Or.inl b) (by rw [hn]; exact d) ?_
        rw [hn, e, b]; simp [unescStep, hstub]
      · exact .ovf (by rw [hn]; exact a) (by rw [hn]; exact b) d
  · -- state 2
    have key : ∀ x : Byte, newchar ctx ⟨.s2, crc, line, cap⟩ c = putcharL ⟨.s2, crc, line, cap⟩ x →
        codeOf ctx c = some x → BodyStep ctx ⟨.s2, crc, line, cap⟩ c := by
      intro x hn hx
      rcases putcharL_bodyStep .s2 crc line cap x hok with ⟨a, b, d, e⟩ | ⟨a, b, d⟩
      · refine .cont (by rw [hn]; exact a) (by rw [hn]; exact Or.inl b) (by rw [hn]; exact d) ?_
        rw [hn, e, b]; simp [unescStep, hx]
      · exact .ovf (by rw [hn]; exact a) (by rw [hn]; exact b) d
    by_cases c1 : c = ctx.stubStart
    · exact key ctx.start (by rw [newchar_s2]; simp [c1]) (by simp [codeOf, c1])
    · by_cases c2 : c = ctx.stubStop
      · subst c2
        exact key ctx.stop (by rw [newchar_s2]; simp [c1]) (by simp [codeOf, c1])
      · by_cases c3 : c = ctx.stubStub
        · subst c3
          exact key ctx.stub (by rw [newchar_s2]; simp [c1, c2]) (by simp [codeOf, c1, c2])
        · exact .bad (by simp [unescStep, codeOf, c1, c2, c3])

/-- BODY OVERFLOW.  An in-frame receiver (state 1 or 2) is fed marker-free bytes
whose unescaping, continued from the current line, is valid up to some point
where it has grown beyond capacity-1 bytes: OVERFLOW is answered, nothing is
delivered, and the receiver ends between frames. -/
theorem feed_body_overflow (ctx : Ctx) (r : Recv) (pre rest : List Byte)
    (hs : r.state = .s1 ∨ r.state = .s2) (hok : LineOK r)
    (hnm : ∀ b ∈ pre ++ rest, b ≠ ctx.start ∧ b ≠ ctx.stop)
    (u : List Byte) (pend : Bool)
    (hu : unescFrom ctx r.line (decide (r.state = .s2)) pre = some (u, pend))
    (hbig : r.cap - 1 < u.length) :
    OVERFLOW ∈ (feed ctx r (pre ++ rest)).2 ∧ Idle (feed ctx r (pre ++ rest)).1 ∧
      delivered ctx r (pre ++ rest) = [] := by
  induction pre generalizing r with
  | nil =>
    simp only [unescFrom, List.foldl_nil, Option.some.injEq, Prod.mk.injEq] at hu
    simp only [LineOK] at hok
    rw [← hu.1] at hbig
    omega
  | cons c cs ih =>
    have hc := hnm c (by simp)
    have hnm' : ∀ b ∈ cs ++ rest, b ≠ ctx.start ∧ b ≠ ctx.stop := fun b hb => hnm b (List.mem_cons_of_mem _ hb)
    simp only [unescFrom, List.foldl_cons] at hu
    simp only [List.cons_append, feed, delivered]
    rcases bodyStep ctx r c hs hok hc.1 hc.2 with ⟨a, b, d, e⟩ | ⟨a, b, _⟩ | e
    · rw [e] at hu
      have hcap : (newchar ctx r c).1.cap = r.cap := newchar_cap ctx r c
      obtain ⟨i1, i2, i3⟩ := ih (newchar ctx r c).1 b d hnm' hu (by rw [hcap]; exact hbig)
      refine ⟨List.mem_cons_of_mem _ i1, i2, ?_⟩
      simp only [a, CONTINUE, NEWPACKAGE, show ¬ ((0 : Int) = 1) by decide, if_false]
      exact i3
    · obtain ⟨g1, g2⟩ := garbage_run ctx (newchar ctx r c).1 (cs ++ rest) (Or.inl b)
        (fun x hx => (hnm' x hx).1)
      refine ⟨by rw [a]; exact List.mem_cons_self, g1, ?_⟩
      simp only [a, OVERFLOW, NEWPACKAGE, show ¬ ((-2 : Int) = 1) by decide, if_false]
      exact g2
    · rw [e, foldl_unescStep_none] at hu
      exact absurd hu (by simp)

/-- the stop marker between frames: nothing delivered; the receiver stays ready for a frame -/
theorem stop_when_idle (ctx : Ctx) (r : Recv) (hr : Idle r) :
    (newchar ctx r ctx.stop).2 ≠ NEWPACKAGE ∧ Ready (newchar ctx r ctx.stop).1 := by
  refine ⟨idle_no_delivery ctx r ctx.stop hr, ?_⟩
  obtain ⟨st, crc, line, cap⟩ := r
  rcases hr with hr | hr <;> simp only at hr <;> subst hr
  · rw [newchar_s0]; split
    · exact Or.inr ⟨rfl, rfl, rfl⟩
    · exact Or.inl (Or.inr rfl)
  · rw [newchar_s4]; split
    · exact Or.inr ⟨rfl, rfl, rfl⟩
    · exact Or.inl (Or.inr rfl)

/-! ### legacy receiver -/

inductive LBodyStep (r : LRecv) (c : Byte) : Prop
  | cont (hs : (lnewchar r c).2 = CONTINUE)
      (hst : (lnewchar r c).1.state = .l1 ∨ (lnewchar r c).1.state = .l2)
      (hok : LLineOK (lnewchar r c).1)
      (hu : unescStep Ctx.leg (some (r.line, decide (r.state = .l2))) c =
        some ((lnewchar r c).1.line, decide ((lnewchar r c).1.state = .l2)))
  | ovf (hs : (lnewchar r c).2 = OVERFLOW) (hst : (lnewchar r c).1.state = .l3)
  | bad (hu : unescStep Ctx.leg (some (r.line, decide (r.state = .l2))) c = none)

theorem lputchar_bodyStep (st : LSt) (crc : BitVec 8) (line : List Byte) (cap : Nat) (x : Byte)
    (hok : line.length ≤ cap - 1) :
    ((lputchar ⟨st, crc, line, cap⟩ x).2 = CONTINUE ∧ (lputchar ⟨st, crc, line, cap⟩ x).1.state = .l1 ∧
      LLineOK (lputchar ⟨st, crc, line, cap⟩ x).1 ∧ (lputchar ⟨st, crc, line, cap⟩ x).1.line = line ++ [x]) ∨
    ((lputchar ⟨st, crc, line, cap⟩ x).2 = OVERFLOW ∧ (lputchar ⟨st, crc, line, cap⟩ x).1.state = .l3) := by
  by_cases hp : cap - 1 ≤ line.length
  · right; simp [lputchar, hp]
  · left
    refine ⟨by simp [lputchar, hp], by simp [lputchar, hp], ?_, by simp [lputchar, hp]⟩
    simp only [lputchar, hp, not_false_eq_true, if_true, LLineOK, List.length_append, List.length_cons,
      List.length_nil]
    omega

theorem lbodyStep (r : LRecv) (c : Byte) (hs : r.state = .l1 ∨ r.state = .l2) (hok : LLineOK r)
    (h1 : c ≠ legStart) : LBodyStep r c := by
  obtain ⟨st, crc, line, cap⟩ := r
  simp only [LLineOK] at hok
  rcases hs with hs | hs <;> simp only at hs <;> subst hs
  · by_cases hstub : c = legStub
    · subst hstub
      have e0 : legStub ≠ legStart := by decide
      refine .cont ?_ ?_ ?_ ?_ <;> rw [lnewchar_l1] <;> simp [e0, LLineOK, unescStep, hok, Ctx.leg]
    · have hn : lnewchar ⟨.l1, crc, line, cap⟩ c = lputchar ⟨.l1, crc, line, cap⟩ c := by
        rw [lnewchar_l1]; simp [h1, hstub]
      rcases lputchar_bodyStep .l1 crc line cap c hok with ⟨a, b, d, e⟩ | ⟨a, b⟩
      · refine .cont (by rw [hn]; exact a) (by rw [hn]; exact Or.inl b) (by rw [hn]; exact d) ?_
        rw [hn, e, b]; simp [unescStep, hstub, Ctx.leg]
      · exact .ovf (by rw [hn]; exact a) (by rw [hn]; exact b)
  · have e3 : legStubStub ≠ legStubStart := by decide
    have key : ∀ x : Byte, lnewchar ⟨.l2, crc, line, cap⟩ c = lputchar ⟨.l2, crc, line, cap⟩ x →
        codeOf Ctx.leg c = some x → LBodyStep ⟨.l2, crc, line, cap⟩ c := by
      intro x hn hx
      rcases lputchar_bodyStep .l2 crc line cap x hok with ⟨a, b, d, e⟩ | ⟨a, b⟩
      · refine .cont (by rw [hn]; exact a) (by rw [hn]; exact Or.inl b) (by rw [hn]; exact d) ?_
        rw [hn, e, b]; simp [unescStep, hx]
      · exact .ovf (by rw [hn]; exact a) (by rw [hn]; exact b)
    by_cases c1 : c = legStubStart
    · exact key legStart (by rw [lnewchar_l2]; simp [c1]) (by simp [codeOf, c1, Ctx.leg])
    · by_cases c3 : c = legStubStub
      · subst c3
        exact key legStub (by rw [lnewchar_l2]; simp [e3]) (by simp [codeOf, e3, Ctx.leg])
      · exact .bad (by simp [unescStep, codeOf, c1, c3, Ctx.leg])

/-- the hunting legacy receiver skips marker-free bytes -/
theorem lhunt_run (r : LRecv) (bs : List Byte) (hr : r.state = .l3) (hb : ∀ b ∈ bs, b ≠ legStart) :
    (lfeed r bs).1 = r ∧ ldelivered r bs = [] ∧ (∀ s ∈ (lfeed r bs).2, s = CONTINUE) := by
  obtain ⟨st, crc, line, cap⟩ := r
  simp only at hr; subst hr
  induction bs with
  | nil => simp [lfeed, ldelivered]
  | cons c cs ih =>
    have hc : c ≠ legStart := hb c (by simp)
    have hstep : lnewchar ⟨.l3, crc, line, cap⟩ c = (⟨.l3, crc, line, cap⟩, CONTINUE) := by
      rw [lnewchar_l3]; simp [hc]
    obtain ⟨i1, i2, i3⟩ := ih (fun b hb' => hb b (by simp [hb']))
    refine ⟨?_, ?_, ?_⟩
    · simp only [lfeed, hstep, i1]
    · simp only [ldelivered, hstep, i2]; simp [CONTINUE, NEWPACKAGE]
    · simp only [lfeed, hstep]
      intro s hs'
      rcases List.mem_cons.mp hs' with rfl | h
      · rfl
      · exact i3 s h

/-- LEGACY BODY OVERFLOW: as `feed_body_overflow`; the receiver ends in the hunt state -/
theorem lfeed_body_overflow (r : LRecv) (pre rest : List Byte)
    (hs : r.state = .l1 ∨ r.state = .l2) (hok : LLineOK r)
    (hnm : ∀ b ∈ pre ++ rest, b ≠ legStart)
    (u : List Byte) (pend : Bool)
    (hu : unescFrom Ctx.leg r.line (decide (r.state = .l2)) pre = some (u, pend))
    (hbig : r.cap - 1 < u.length) :
    OVERFLOW ∈ (lfeed r (pre ++ rest)).2 ∧ (lfeed r (pre ++ rest)).1.state = .l3 ∧
      ldelivered r (pre ++ rest) = [] := by
  induction pre generalizing r with
  | nil =>
    simp only [unescFrom, List.foldl_nil, Option.some.injEq, Prod.mk.injEq] at hu
    simp only [LLineOK] at hok
    rw [← hu.1] at hbig
    omega
  | cons c cs ih =>
    have hc := hnm c (by simp)
    have hnm' : ∀ b ∈ cs ++ rest, b ≠ legStart := fun b hb => hnm b (List.mem_cons_of_mem _ hb)
    simp only [unescFrom, List.foldl_cons] at hu
    simp only [List.cons_append, lfeed, ldelivered]
    rcases lbodyStep r c hs hok hc with ⟨a, b, d, e⟩ | ⟨a, b⟩ | e
    · rw [e] at hu
      have hcap : (lnewchar r c).1.cap = r.cap := lnewchar_cap r c
      obtain ⟨i1, i2, i3⟩ := ih (lnewchar r c).1 b d hnm' hu (by rw [hcap]; exact hbig)
      refine ⟨List.mem_cons_of_mem _ i1, i2, ?_⟩
      simp only [a, CONTINUE, NEWPACKAGE, show ¬ ((0 : Int) = 1) by decide, if_false]
      exact i3
    · obtain ⟨g1, g2, _⟩ := lhunt_run (lnewchar r c).1 (cs ++ rest) b hnm'
      refine ⟨by rw [a]; exact List.mem_cons_self, by rw [g1]; exact b, ?_⟩
      simp only [a, OVERFLOW, NEWPACKAGE, show ¬ ((-2 : Int) = 1) by decide, if_false]
      exact g2
    · rw [e, foldl_unescStep_none] at hu
      exact absurd hu (by simp)

/-- after the marker a reachable legacy receiver is in state 0 or primed — never hunting -/
theorem lafter_marker (r : LRecv) (h : LGood r) :
    ((lnewchar r legStart).1.state = .l0 ∨
      (lnewchar r legStart).1 = ⟨.l1, 0xFF#8, [], r.cap⟩) ∧ (lnewchar r legStart).1.cap = r.cap := by
  refine ⟨?_, lnewchar_cap r legStart⟩
  obtain ⟨st, crc, line, cap⟩ := r
  simp only [LGood] at h
  have e1 : legStart ≠ legStubStart := by decide
  have e2 : legStart ≠ legStubStub := by decide
  cases st
  · rw [lnewchar_l0, lnewchar_l1]; simp
  · rw [lnewchar_l1]
    by_cases hl : line = []
    · subst hl; simp [h rfl]
    · have : line.isEmpty = false := by simpa using hl
      simp only [this, if_true, Bool.false_eq_true, if_false]
      split <;> exact Or.inl rfl
  · rw [lnewchar_l2]; simp [e1, e2]
  · rw [lnewchar_l3]; simp

/-- state 0 = "reset, then as in-frame": on a non-empty input the two behave alike -/
theorem lfeed_l0 (crc : BitVec 8) (line : List Byte) (cap : Nat) (c : Byte) (cs : List Byte) :
    lfeed ⟨.l0, crc, line, cap⟩ (c :: cs) = lfeed ⟨.l1, 0xFF#8, [], cap⟩ (c :: cs) ∧
    ldelivered ⟨.l0, crc, line, cap⟩ (c :: cs) = ldelivered ⟨.l1, 0xFF#8, [], cap⟩ (c :: cs) := by
  simp only [lfeed, ldelivered, lnewchar_l0, and_self]

end Igris.Gstuff
