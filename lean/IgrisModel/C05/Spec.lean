/-
  C05 — specification-side definitions (independent of the receiver automaton):
  "the bytes since the last start marker" and "unescaping".
-/
import IgrisModel.C04.Lemmas
namespace Igris.Gstuff
open Igris.Proto Igris.C17

/-- raw bytes received after the most recent start marker (`none`: no start marker so far) -/
def sinceStep (start : Byte) (acc : Option (List Byte)) (c : Byte) : Option (List Byte) :=
  if c = start then some [] else acc.map (· ++ [c])

def sinceLastStart (start : Byte) (bs : List Byte) : Option (List Byte) :=
  bs.foldl (sinceStep start) none

/-- the byte an escape code stands for -/
def codeOf (ctx : Ctx) (d : Byte) : Option Byte :=
  if d = ctx.stubStart then some ctx.start
  else if d = ctx.stubStop then some ctx.stop
  else if d = ctx.stubStub then some ctx.stub
  else none

/-- left-to-right unescaping: (decoded so far, an escape is pending); `none` = invalid escape -/
def unescStep (ctx : Ctx) (st : Option (List Byte × Bool)) (c : Byte) : Option (List Byte × Bool) :=
  st.bind fun s =>
    if s.2 then (codeOf ctx c).map fun x => (s.1 ++ [x], false)
    else if c = ctx.stub then some (s.1, true)
    else some (s.1 ++ [c], false)

def unescPartial (ctx : Ctx) (bs : List Byte) : Option (List Byte × Bool) :=
  bs.foldl (unescStep ctx) (some ([], false))

/-- complete unescaping of a frame body: every escape valid, none dangling -/
def unescape (ctx : Ctx) (bs : List Byte) : Option (List Byte) :=
  match unescPartial ctx bs with
  | some (out, false) => some out
  | _ => none

/-- the lines delivered (at NEWPACKAGE) while feeding a stream -/
def delivered (ctx : Ctx) : Recv → List Byte → List (List Byte)
  | _, [] => []
  | r, c :: cs =>
    let x := newchar ctx r c
    if x.2 = NEWPACKAGE then x.1.line :: delivered ctx x.1 cs else delivered ctx x.1 cs

end Igris.Gstuff
