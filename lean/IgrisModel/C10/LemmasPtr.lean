/-
  C10 — the `nx` pointer representation of the heap's free list.

  `FChain szf nxf p l`   following the `nx` words from pointer `p` reads exactly
                         the chunks of `l` (address and `sz` word), then NULL
  `FSeg szf nxf p l q`   the same for a list segment that ends in pointer `q`
  `FRep ph h`            the pointer heap `ph` represents the abstract heap `h`

  Main theorems: `walkFl_eq`, `mallocP_refines`, `freeP_refines`,
  `reallocP_refines`, `stepP_refines`, `runP_refines`.
-/
import IgrisModel.C10.Lemmas
import IgrisModel.C10.ModelPtr
namespace Igris.C10

@[simp] theorem updS_same (m : Nat → Nat) (a v : Nat) : updS m a v a = v := by simp [updS]
@[simp] theorem updS_other (m : Nat → Nat) {a x : Nat} (v : Nat) (h : x ≠ a) : updS m a v x = m x := by
  simp [updS, h]
@[simp] theorem updN_same (m : Nat → Option Nat) (a : Nat) (v : Option Nat) : updN m a v a = v := by
  simp [updN]
@[simp] theorem updN_other (m : Nat → Option Nat) {a x : Nat} (v : Option Nat) (h : x ≠ a) :
    updN m a v x = m x := by
  simp [updN, h]

/-- list segment: from pointer `p` the `nx` words lead through the chunks of `l` to pointer `q` -/
def FSeg (szf : Nat → Nat) (nxf : Nat → Option Nat) : Option Nat → List Chunk → Option Nat → Prop
  | p, [], q => p = q
  | p, c :: r, q => p = some c.1 ∧ szf c.1 = c.2 ∧ FSeg szf nxf (nxf c.1) r q

/-- NULL-terminated list -/
def FChain (szf : Nat → Nat) (nxf : Nat → Option Nat) : Option Nat → List Chunk → Prop
  | p, [] => p = none
  | p, c :: r => p = some c.1 ∧ szf c.1 = c.2 ∧ FChain szf nxf (nxf c.1) r

theorem fchain_iff {szf nxf} {l : List Chunk} {p : Option Nat} :
    FChain szf nxf p l ↔ FSeg szf nxf p l none := by
  induction l generalizing p with
  | nil => simp [FChain, FSeg]
  | cons c r ih => simp only [FChain, FSeg, ih]

/-- the pointer heap represents the abstract heap -/
def FRep (ph : PHeap) (h : Heap) : Prop :=
  ph.brk = h.brk ∧ FChain ph.szf ph.nxf ph.flp h.flp ∧ ∀ c ∈ h.live, ph.szf c.1 = c.2

/-! ### frame, append -/

/-- only the words of the nodes matter -/
theorem fseg_congr {szf szf' : Nat → Nat} {nxf nxf' : Nat → Option Nat} {l : List Chunk} {p q : Option Nat}
    (hc : ∀ c ∈ l, szf' c.1 = szf c.1 ∧ nxf' c.1 = nxf c.1) (h : FSeg szf nxf p l q) :
    FSeg szf' nxf' p l q := by
  induction l generalizing p with
  | nil => exact h
  | cons c r ih =>
    obtain ⟨h1, h2, h3⟩ := h
    have hcc := hc c (by simp)
    refine ⟨h1, by rw [hcc.1]; exact h2, ?_⟩
    rw [hcc.2]
    exact ih (fun d hd => hc d (List.mem_cons_of_mem _ hd)) h3

/-- frame: a `sz` store at an address that is not a node of the list -/
theorem fseg_updS {szf nxf} {a v : Nat} {l : List Chunk} {p q : Option Nat}
    (ha : ∀ c ∈ l, c.1 ≠ a) (h : FSeg szf nxf p l q) : FSeg (updS szf a v) nxf p l q :=
  fseg_congr (fun c hc => ⟨updS_other _ _ (ha c hc), rfl⟩) h

/-- frame: a `nx` store at an address that is not a node of the list -/
theorem fseg_updN {szf nxf} {a : Nat} {v : Option Nat} {l : List Chunk} {p q : Option Nat}
    (ha : ∀ c ∈ l, c.1 ≠ a) (h : FSeg szf nxf p l q) : FSeg szf (updN nxf a v) p l q :=
  fseg_congr (fun c hc => ⟨rfl, updN_other _ _ (ha c hc)⟩) h

theorem fchain_updS {szf nxf} {a v : Nat} {l : List Chunk} {p : Option Nat}
    (ha : ∀ c ∈ l, c.1 ≠ a) (h : FChain szf nxf p l) : FChain (updS szf a v) nxf p l :=
  fchain_iff.2 (fseg_updS ha (fchain_iff.1 h))

theorem fchain_updN {szf nxf} {a : Nat} {v : Option Nat} {l : List Chunk} {p : Option Nat}
    (ha : ∀ c ∈ l, c.1 ≠ a) (h : FChain szf nxf p l) : FChain szf (updN nxf a v) p l :=
  fchain_iff.2 (fseg_updN ha (fchain_iff.1 h))

theorem fseg_append {szf nxf} {l1 l2 : List Chunk} {p q : Option Nat} :
    FSeg szf nxf p (l1 ++ l2) q ↔ ∃ m, FSeg szf nxf p l1 m ∧ FSeg szf nxf m l2 q := by
  induction l1 generalizing p with
  | nil =>
    simp only [List.nil_append, FSeg]
    constructor
    · intro h; exact ⟨p, rfl, h⟩
    · rintro ⟨m, rfl, h⟩; exact h
  | cons c r ih =>
    simp only [List.cons_append, FSeg, ih]
    constructor
    · rintro ⟨h1, h2, m, h3, h4⟩; exact ⟨m, ⟨h1, h2, h3⟩, h4⟩
    · rintro ⟨m, ⟨h1, h2, h3⟩, h4⟩; exact ⟨h1, h2, m, h3, h4⟩

/-! ### the predecessor pointer -/

/-- the last node address of a prefix (`prev` when the prefix is empty): the value of
`fp2` / `sfp2` / `ofp3` when the walk stands behind the prefix -/
def lastA : Option Nat → List Chunk → Option Nat
  | prev, [] => prev
  | _, c :: r => lastA (some c.1) r

theorem lastA_snoc (prev : Option Nat) (l : List Chunk) (c : Chunk) : lastA prev (l ++ [c]) = some c.1 := by
  induction l generalizing prev with
  | nil => rfl
  | cons d r ih => simp only [List.cons_append, lastA, ih]

theorem predOf_append {c : Chunk} {prev : Option Nat} {l1 l2 : List Chunk} (h : ∀ d ∈ l1, d.1 ≠ c.1) :
    predOf c.1 prev (l1 ++ c :: l2) = lastA prev l1 := by
  induction l1 generalizing prev with
  | nil => simp [predOf, lastA]
  | cons d r ih =>
    have hd := h d (by simp)
    simp only [List.cons_append, predOf, hd, ↓reduceIte, lastA]
    exact ih (fun e he => h e (List.mem_cons_of_mem _ he))

theorem remove_append {c : Chunk} {l1 l2 : List Chunk} (h : ∀ d ∈ l1, d.1 ≠ c.1) :
    remove c.1 (l1 ++ c :: l2) = l1 ++ l2 := by
  induction l1 with
  | nil => simp [remove]
  | cons d r ih =>
    have hd := h d (by simp)
    simp only [List.cons_append, remove, hd, ↓reduceIte]
    rw [ih (fun e he => h e (List.mem_cons_of_mem _ he))]

theorem setChunk_append {c new : Chunk} {l1 l2 : List Chunk} (h : ∀ d ∈ l1, d.1 ≠ c.1) :
    setChunk c.1 new (l1 ++ c :: l2) = l1 ++ new :: l2 := by
  induction l1 with
  | nil => simp [setChunk]
  | cons d r ih =>
    have hd := h d (by simp)
    simp only [List.cons_append, setChunk, hd, ↓reduceIte]
    rw [ih (fun e he => h e (List.mem_cons_of_mem _ he))]

/-- in a sorted list split at `c`: the addresses before `c` and behind `c` differ from every
address inside `c` -/
theorem sorted_split {l1 l2 : List Chunk} {c : Chunk} (hs : (l1 ++ c :: l2).Pairwise Below) :
    (∀ d ∈ l1, d.1 + 8 + d.2 < c.1) ∧ (∀ d ∈ l2, c.1 + 8 + c.2 < d.1) ∧
    (∀ d ∈ l1, ∀ e ∈ l2, d.1 + 8 + d.2 < e.1) ∧ (l1 ++ l2).Pairwise Below := by
  have hs' := hs
  rw [List.pairwise_append, List.pairwise_cons] at hs
  refine ⟨fun d hd => hs.2.2 d hd c (by simp), fun d hd => hs.2.1.1 d hd,
    fun d hd e he => hs.2.2 d hd e (by simp [he]), ?_⟩
  exact hs'.sublist (List.Sublist.append (List.Sublist.refl _) (List.sublist_cons_self _ _))

/-- `if (prev) prev->nx = q; else __flp = q;` where `prev` is the predecessor pointer behind
the prefix `l1`: the prefix now leads to `q` -/
theorem fseg_relink_aux {szf nxf} {q : Option Nat} {l1 : List Chunk} (hs : l1.Pairwise Below) :
    ∀ {p m prev : Option Nat}, l1 ≠ [] → FSeg szf nxf p l1 m →
    ∃ c ∈ l1, lastA prev l1 = some c.1 ∧ FSeg szf (updN nxf c.1 q) p l1 q := by
  induction l1 with
  | nil => intro p m prev h; exact absurd rfl h
  | cons c r ih =>
    intro p m prev _ h
    obtain ⟨h1, h2, h3⟩ := h
    rw [List.pairwise_cons] at hs
    cases r with
    | nil =>
      refine ⟨c, by simp, rfl, h1, h2, ?_⟩
      simp only [updN_same, FSeg]
    | cons d r' =>
      obtain ⟨e, he, hl, hf⟩ := ih hs.2 (prev := some c.1) (by simp) h3
      have hne : c.1 ≠ e.1 := by have := hs.1 e he; unfold Below at this; omega
      refine ⟨e, List.mem_cons_of_mem _ he, hl, h1, h2, ?_⟩
      rw [updN_other _ _ hne]
      exact hf

theorem relink {ph : PHeap} {l1 l2 : List Chunk} {m q : Option Nat} (hs : (l1 ++ l2).Pairwise Below)
    (h1 : FSeg ph.szf ph.nxf ph.flp l1 m) (h2 : FSeg ph.szf ph.nxf q l2 none) :
    FSeg (ph.setLink (lastA none l1) q).szf (ph.setLink (lastA none l1) q).nxf
      (ph.setLink (lastA none l1) q).flp (l1 ++ l2) none ∧
    (ph.setLink (lastA none l1) q).szf = ph.szf ∧ (ph.setLink (lastA none l1) q).brk = ph.brk := by
  cases l1 with
  | nil =>
    exact ⟨h2, rfl, rfl⟩
  | cons c r =>
    rw [List.pairwise_append] at hs
    obtain ⟨e, he, hl, hf⟩ := fseg_relink_aux (q := q) hs.1 (prev := none) (by simp) h1
    rw [hl]
    refine ⟨fseg_append.2 ⟨q, hf, fseg_updN (fun d hd => ?_) h2⟩, rfl, rfl⟩
    have := hs.2.2 e he d hd
    unfold Below at this; omega

/-! ### reading the list -/

theorem walkLoop_eq {ph : PHeap} {l : List Chunk} : ∀ {fuel : Nat} {p : Option Nat},
    FSeg ph.szf ph.nxf p l none → l.length < fuel → walkLoop ph fuel p = l := by
  induction l with
  | nil =>
    intro fuel p h hf
    cases fuel with
    | zero => simp at hf
    | succ k => simp only [FSeg] at h; subst h; rfl
  | cons c r ih =>
    intro fuel p h hf
    obtain ⟨h1, h2, h3⟩ := h
    cases fuel with
    | zero => simp at hf
    | succ k =>
      subst h1
      simp only [walkLoop, h2]
      rw [ih h3 (by simp at hf; omega)]

/-- following `__flp` and the `nx` words reads the abstract free list -/
theorem walkFl_eq {ph : PHeap} {h : Heap} {fuel : Nat} (hr : FRep ph h) (hf : h.flp.length < fuel) :
    walkFl ph fuel = h.flp :=
  walkLoop_eq (fchain_iff.1 hr.2.1) hf

/-! ### malloc -/

theorem below_ne {l : List Chunk} {c : Chunk} (h : ∀ d ∈ l, d.1 + 8 + d.2 < c.1) : ∀ d ∈ l, d.1 ≠ c.1 := by
  intro d hd; have := h d hd; omega

/-- the first loop of malloc computes `scan`, and its `fp2` / `sfp2` are `predOf` -/
theorem mallocLoopP_spec (ph : PHeap) (len : Nat) (L : List Chunk) (hs : L.Pairwise Below) :
    ∀ (l l0 : List Chunk) (fuel : Nat) (cur : Option Nat) (s sfp1 : Nat) (sfp2 : Option Nat),
    L = l0 ++ l → FSeg ph.szf ph.nxf cur l none → l.length < fuel →
    (s = 0 ∨ sfp2 = predOf sfp1 none L) →
    (∀ a, scan len l s sfp1 = .inl a →
      mallocLoopP ph len fuel cur (lastA none l0) s sfp1 sfp2 = .inl (a, predOf a none L)) ∧
    (∀ s' f', scan len l s sfp1 = .inr (s', f') →
      ∃ f2, mallocLoopP ph len fuel cur (lastA none l0) s sfp1 sfp2 = .inr (s', f', f2) ∧
        (s' = 0 ∨ f2 = predOf f' none L)) := by
  intro l
  induction l with
  | nil =>
    intro l0 fuel cur s sfp1 sfp2 _ h hf h0
    simp only [FSeg] at h; subst h
    cases fuel with
    | zero => simp at hf
    | succ k =>
      simp only [scan, mallocLoopP]
      refine ⟨fun a ha => (by cases ha), fun s' f' he => ?_⟩
      simp only [Sum.inr.injEq, Prod.mk.injEq] at he
      obtain ⟨rfl, rfl⟩ := he
      exact ⟨sfp2, rfl, h0⟩
  | cons c r ih =>
    intro l0 fuel cur s sfp1 sfp2 hL h hf h0
    obtain ⟨h1, h2, h3⟩ := h
    subst h1
    cases fuel with
    | zero => simp at hf
    | succ k =>
      have hk : r.length < k := by simp at hf; omega
      have hL' : L = (l0 ++ [c]) ++ r := by rw [hL]; simp
      have hsp := sorted_split (hL ▸ hs)
      have hpred : predOf c.1 none L = lastA none l0 := by
        rw [hL]; exact predOf_append (below_ne hsp.1)
      have hlast : lastA none (l0 ++ [c]) = some c.1 := lastA_snoc _ _ _
      simp only [scan, mallocLoopP, h2]
      split
      · have := ih (l0 ++ [c]) k (ph.nxf c.1) s sfp1 sfp2 hL' h3 hk h0
        rw [hlast] at this; exact this
      · split
        · refine ⟨fun a ha => ?_, fun s' f' he => by cases he⟩
          simp only [Sum.inl.injEq] at ha; subst ha
          rw [hpred]
        · split
          · have := ih (l0 ++ [c]) k (ph.nxf c.1) c.2 c.1 (lastA none l0) hL' h3 hk (Or.inr hpred.symm)
            rw [hlast] at this; exact this
          · have := ih (l0 ++ [c]) k (ph.nxf c.1) s sfp1 sfp2 hL' h3 hk h0
            rw [hlast] at this; exact this

/-- unlinking the node `c` of the represented list: `if (pred) pred->nx = c->nx; else __flp = c->nx;` -/
theorem unlink_rep {ph : PHeap} {L : List Chunk} {c : Chunk} (hs : L.Pairwise Below)
    (hc : FSeg ph.szf ph.nxf ph.flp L none) (hm : c ∈ L) :
    FSeg (ph.setLink (predOf c.1 none L) (ph.nxf c.1)).szf (ph.setLink (predOf c.1 none L) (ph.nxf c.1)).nxf
      (ph.setLink (predOf c.1 none L) (ph.nxf c.1)).flp (remove c.1 L) none ∧
    (ph.setLink (predOf c.1 none L) (ph.nxf c.1)).szf = ph.szf ∧
    (ph.setLink (predOf c.1 none L) (ph.nxf c.1)).brk = ph.brk ∧ ph.szf c.1 = c.2 := by
  obtain ⟨l1, l2, rfl⟩ := List.append_of_mem hm
  have hsp := sorted_split hs
  rw [predOf_append (below_ne hsp.1), remove_append (below_ne hsp.1)]
  obtain ⟨m, hm1, hm2, hm3, hm4⟩ := fseg_append.1 hc
  have := relink hsp.2.2.2 hm1 hm4
  exact ⟨this.1, this.2.1, this.2.2, hm3⟩

theorem length_remove_le (a : Nat) (l : List Chunk) : (remove a l).length ≤ l.length := by
  induction l with
  | nil => simp [remove]
  | cons c r ih => simp only [remove]; split <;> simp <;> omega

theorem length_setChunk (a : Nat) (new : Chunk) (l : List Chunk) : (setChunk a new l).length = l.length := by
  induction l with
  | nil => simp [setChunk]
  | cons c r ih => simp only [setChunk]; split <;> simp [ih]

/-- an address strictly inside a listed chunk is not the address of a listed chunk -/
theorem inside_not_node {L : List Chunk} {c : Chunk} {x : Nat} (hs : L.Pairwise Below) (hm : c ∈ L)
    (h1 : c.1 < x) (h2 : x < c.1 + 8 + c.2) : ∀ d ∈ L, d.1 ≠ x := by
  obtain ⟨l1, l2, rfl⟩ := List.append_of_mem hm
  have hsp := sorted_split hs
  intro d hd
  rcases List.mem_append.1 hd with hd | hd
  · have := hsp.1 d hd; omega
  · rcases List.mem_cons.1 hd with rfl | hd
    · omega
    · have := hsp.2.1 d hd; omega

/-- rewriting the `sz` word of a listed chunk -/
theorem setsz_rep {szf nxf} {p : Option Nat} {L : List Chunk} {c : Chunk} {v : Nat} (hs : L.Pairwise Below)
    (hc : FSeg szf nxf p L none) (hm : c ∈ L) :
    FSeg (updS szf c.1 v) nxf p (setChunk c.1 (c.1, v) L) none := by
  obtain ⟨l1, l2, rfl⟩ := List.append_of_mem hm
  have hsp := sorted_split hs
  rw [setChunk_append (below_ne hsp.1)]
  obtain ⟨m, hm1, hm2, hm3, hm4⟩ := fseg_append.1 hc
  refine fseg_append.2 ⟨m, fseg_updS (below_ne hsp.1) hm1, hm2, by simp, ?_⟩
  exact fseg_updS (fun d hd => by have := hsp.2.1 d hd; omega) hm4

theorem mallocP_refines (cfg : Cfg) (ph : PHeap) (h : Heap) (n fuel : Nat) (hi : HInv cfg h)
    (hr : FRep ph h) (hf : h.flp.length < fuel) :
    (mallocP cfg ph n fuel).ret = (malloc cfg h n).ret ∧
    FRep (mallocP cfg ph n fuel).h (malloc cfg h n).h := by
  obtain ⟨hb, hc, hl⟩ := hr
  have hc' := fchain_iff.1 hc
  have hspec := mallocLoopP_spec ph (minLen (roundLen cfg.W n)) h.flp hi.sorted h.flp [] fuel ph.flp 0 0 none
    (by simp) hc' hf (Or.inl rfl)
  unfold malloc mallocP
  generalize minLen (roundLen cfg.W n) = len at *
  simp only [lastA] at hspec
  simp only
  cases hsc : scan len h.flp 0 0 with
  | inl a =>
    rw [hspec.1 a hsc]
    simp only
    have hm := scan_inl hsc
    obtain ⟨u1, u2, u3, u4⟩ := unlink_rep hi.sorted hc' hm
    refine ⟨trivial, ?_, fchain_iff.2 u1, ?_⟩
    · rw [u3]; exact hb
    · intro c hc; rw [u2]
      rcases List.mem_cons.1 hc with rfl | hc
      · exact u4
      · exact hl c hc
  | inr x =>
    obtain ⟨s, sfp1⟩ := x
    obtain ⟨f2, h1, h2⟩ := hspec.2 s sfp1 hsc
    rw [h1]
    simp only
    have hbb := scan_inr (L := h.flp) hsc (fun c hc => hc) (Or.inl rfl)
    by_cases hs0 : s ≠ 0
    · simp only [if_pos hs0]
      have ⟨hm, hlt⟩ := hbb.resolve_left hs0
      have h2' := h2.resolve_left hs0
      subst h2'
      by_cases hsm : s - len < 16
      · simp only [if_pos hsm]
        obtain ⟨u1, u2, u3, u4⟩ := unlink_rep hi.sorted hc' hm
        refine ⟨trivial, ?_, fchain_iff.2 u1, ?_⟩
        · rw [u3]; exact hb
        · intro c hc; rw [u2]
          rcases List.mem_cons.1 hc with rfl | hc
          · exact u4
          · exact hl c hc
      · simp only [if_neg hsm]
        have hins := inside_not_node (x := sfp1 + (s - len)) hi.sorted hm (by simp only; omega) (by simp only; omega)
        refine ⟨trivial, hb, fchain_iff.2 ?_, ?_⟩
        · have := setsz_rep (v := s - len - 8) hi.sorted (fseg_updS (a := sfp1 + (s - len)) (v := len) hins hc') hm
          exact this
        · intro c hc
          simp only
          rcases List.mem_cons.1 hc with rfl | hc
          · rw [updS_other _ _ (by simp only; omega), updS_same]
          · have hd := hi.disj_free_live hm hc
            simp only at hd
            rw [updS_other _ _ (by omega), updS_other _ _ (by omega)]
            exact hl c hc
    · simp only [if_neg hs0]
      by_cases hlim : cfg.lim ≠ 0 ∧ ¬ (availOf cfg.lim ph.brk ≥ len ∧ availOf cfg.lim ph.brk ≥ len + 8)
      · have hlim' := hlim; rw [hb] at hlim'
        simp only [if_pos hlim, if_pos hlim']
        exact ⟨trivial, hb, hc, hl⟩
      · have hlim' := hlim; rw [hb] at hlim'
        simp only [if_neg hlim, if_neg hlim']
        refine ⟨by rw [hb], by simp only; rw [hb], fchain_iff.2 ?_, ?_⟩
        · refine fseg_updS (fun d hd => ?_) hc'
          have := hi.fin_le_brk (Or.inl hd); omega
        · intro c hc
          simp only
          rcases List.mem_cons.1 hc with rfl | hc
          · rw [hb]; simp
          · have := hi.fin_le_brk (Or.inr hc)
            rw [updS_other _ _ (by omega)]
            exact hl c hc

example : walkFl (runP ⟨64, 0⟩ PHeap.init [.malloc 1, .malloc 64, .malloc 9, .free (some 80)]) 2 = [(72, 64)] := by
  decide

/-! ### free -/

theorem fseg_frame {szf szf' : Nat → Nat} {nxf nxf' : Nat → Option Nat} {l : List Chunk} {p q : Option Nat}
    {a : Nat} (ha : ∀ d ∈ l, d.1 ≠ a) (hfr : ∀ x, x ≠ a → szf' x = szf x ∧ nxf' x = nxf x)
    (h : FSeg szf nxf p l q) : FSeg szf' nxf' p l q :=
  fseg_congr (fun d hd => hfr d.1 (ha d hd)) h

theorem insUpP_pos {ph : PHeap} {a c : Nat} (h : a + 8 + ph.szf a = c) :
    insUpP ph a c = ⟨ph.brk, ph.flp, updS ph.szf a (ph.szf a + (ph.szf c + 8)),
      updN (updN ph.nxf a (some c)) a (updN ph.nxf a (some c) c)⟩ := by
  unfold insUpP
  exact if_pos h

theorem insUpP_neg {ph : PHeap} {a c : Nat} (h : ¬ a + 8 + ph.szf a = c) :
    insUpP ph a c = ⟨ph.brk, ph.flp, ph.szf, updN ph.nxf a (some c)⟩ := by
  unfold insUpP
  exact if_neg h

theorem mergeDownP_pos {ph : PHeap} {b a : Nat} (h : b + 8 + ph.szf b = a) :
    mergeDownP ph b a = ⟨ph.brk, ph.flp, updS ph.szf b (ph.szf b + (ph.szf a + 8)),
      updN (updN ph.nxf b (some a)) b (updN ph.nxf b (some a) a)⟩ := by
  unfold mergeDownP
  exact if_pos h

theorem mergeDownP_neg {ph : PHeap} {b a : Nat} (h : ¬ b + 8 + ph.szf b = a) :
    mergeDownP ph b a = ⟨ph.brk, ph.flp, ph.szf, updN ph.nxf b (some a)⟩ := by
  unfold mergeDownP
  exact if_neg h

/-- the upper merge on pointers is `insUp` -/
theorem insUpP_spec {ph : PHeap} {a sz : Nat} {c : Chunk} {r : List Chunk}
    (hc : FSeg ph.szf ph.nxf (some c.1) (c :: r) none) (ha : ∀ d ∈ c :: r, d.1 ≠ a) (hsz : ph.szf a = sz) :
    ∃ N tl, insUp (a, sz) (c :: r) = N :: tl ∧ N.1 = a ∧ (∀ y ∈ tl, y ∈ c :: r) ∧
      FSeg (insUpP ph a c.1).szf (insUpP ph a c.1).nxf (some a) (N :: tl) none ∧
      (insUpP ph a c.1).flp = ph.flp ∧ (insUpP ph a c.1).brk = ph.brk ∧
      (∀ x, x ≠ a → (insUpP ph a c.1).szf x = ph.szf x ∧ (insUpP ph a c.1).nxf x = ph.nxf x) := by
  obtain ⟨_, h2, h3⟩ := hc
  have hca : c.1 ≠ a := ha c (by simp)
  have har : ∀ d ∈ r, d.1 ≠ a := fun d hd => ha d (List.mem_cons_of_mem _ hd)
  subst hsz
  by_cases hadj : a + 8 + ph.szf a = c.1
  · have hI : insUp (a, ph.szf a) (c :: r) = (a, ph.szf a + (c.2 + 8)) :: r := by
      simp only [insUp]; exact if_pos hadj
    rw [insUpP_pos hadj, hI]
    refine ⟨_, _, rfl, rfl, fun y hy => List.mem_cons_of_mem _ hy, ⟨rfl, ?_, ?_⟩, rfl, rfl,
      fun x hx => by simp [updS, updN, hx]⟩
    · simp [h2]
    · have hp : updN (updN ph.nxf a (some c.1)) a (updN ph.nxf a (some c.1) c.1) a = ph.nxf c.1 := by
        simp [updN, hca]
      show FSeg _ _ (updN (updN ph.nxf a (some c.1)) a (updN ph.nxf a (some c.1) c.1) a) r none
      rw [hp]
      refine fseg_congr (fun d hd => ?_) h3
      have := har d hd
      simp [updS, updN, this]
  · have hI : insUp (a, ph.szf a) (c :: r) = (a, ph.szf a) :: c :: r := by
      simp only [insUp]; exact if_neg hadj
    rw [insUpP_neg hadj, hI]
    refine ⟨_, _, rfl, rfl, fun y hy => hy, ⟨rfl, rfl, ?_⟩, rfl, rfl, fun x hx => by simp [updN, hx]⟩
    simp only [updN_same]
    exact fseg_updN ha ⟨rfl, h2, h3⟩

/-- the lower merge on pointers is `mergeDown` -/
theorem mergeDownP_spec {ph : PHeap} {b : Nat} {N : Chunk} {tl : List Chunk}
    (hc : FSeg ph.szf ph.nxf (some N.1) (N :: tl) none) (hb : ∀ d ∈ N :: tl, d.1 ≠ b) :
    FSeg (mergeDownP ph b N.1).szf (mergeDownP ph b N.1).nxf (some b)
      (mergeDown (b, ph.szf b) (N :: tl)) none ∧
    (mergeDownP ph b N.1).flp = ph.flp ∧ (mergeDownP ph b N.1).brk = ph.brk ∧
    (∀ x, x ≠ b → (mergeDownP ph b N.1).szf x = ph.szf x ∧ (mergeDownP ph b N.1).nxf x = ph.nxf x) := by
  obtain ⟨_, h2, h3⟩ := hc
  have hNb : N.1 ≠ b := hb N (by simp)
  have hbt : ∀ d ∈ tl, d.1 ≠ b := fun d hd => hb d (List.mem_cons_of_mem _ hd)
  by_cases hadj : b + 8 + ph.szf b = N.1
  · have hI : mergeDown (b, ph.szf b) (N :: tl) = (b, ph.szf b + (N.2 + 8)) :: tl := by
      simp only [mergeDown]; exact if_pos hadj
    rw [mergeDownP_pos hadj, hI]
    refine ⟨⟨rfl, ?_, ?_⟩, rfl, rfl, fun x hx => by simp [updS, updN, hx]⟩
    · simp [h2]
    · have hp : updN (updN ph.nxf b (some N.1)) b (updN ph.nxf b (some N.1) N.1) b = ph.nxf N.1 := by
        simp [updN, hNb]
      show FSeg _ _ (updN (updN ph.nxf b (some N.1)) b (updN ph.nxf b (some N.1) N.1) b) tl none
      rw [hp]
      refine fseg_congr (fun d hd => ?_) h3
      have := hbt d hd
      simp [updS, updN, this]
  · have hI : mergeDown (b, ph.szf b) (N :: tl) = (b, ph.szf b) :: N :: tl := by
      simp only [mergeDown]; exact if_neg hadj
    rw [mergeDownP_neg hadj, hI]
    refine ⟨⟨rfl, rfl, ?_⟩, rfl, rfl, fun x hx => by simp [updN, hx]⟩
    simp only [updN_same]
    exact fseg_updN hb ⟨rfl, h2, h3⟩

/-- the first loop of free, entered behind a node `b` that lies below `fpnew`, followed by the
lower merge, is `freeWalk` -/
theorem freeLoopP_walk (a sz : Nat) : ∀ (rest : List Chunk) (b : Chunk) (ph : PHeap) (fuel : Nat),
    (b :: rest).Pairwise Below → b.1 < a → (∀ c ∈ b :: rest, c.1 ≠ a) →
    ph.szf a = sz → ph.nxf a = none →
    FSeg ph.szf ph.nxf (some b.1) (b :: rest) none → rest.length < fuel →
    ∃ ph1 b', freeLoopP ph a fuel (ph.nxf b.1) (some b.1) = (ph1, some b', false) ∧
      FSeg (mergeDownP ph1 b' a).szf (mergeDownP ph1 b' a).nxf (some b.1) (freeWalk (a, sz) b rest) none ∧
      (mergeDownP ph1 b' a).flp = ph.flp ∧ (mergeDownP ph1 b' a).brk = ph.brk ∧
      (∀ x, x ≠ a → (∀ c ∈ b :: rest, c.1 ≠ x) →
        (mergeDownP ph1 b' a).szf x = ph.szf x ∧ (mergeDownP ph1 b' a).nxf x = ph.nxf x) := by
  intro rest
  induction rest with
  | nil =>
    intro b ph fuel hs hba hna hsz hnx hc hf
    obtain ⟨_, h2, h3⟩ := hc
    simp only [FSeg] at h3
    cases fuel with
    | zero => simp at hf
    | succ k =>
      rw [h3]
      refine ⟨ph, b.1, rfl, ?_⟩
      have hm := mergeDownP_spec (ph := ph) (b := b.1) (N := (a, sz)) (tl := []) ⟨rfl, hsz, hnx⟩
        (by intro d hd; simp at hd; subst hd; simp only; omega)
      rw [h2] at hm
      exact ⟨hm.1, hm.2.1, hm.2.2.1, fun x _ hxl => hm.2.2.2 x (hxl b (by simp)).symm⟩
  | cons c r ih =>
    intro b ph fuel hs hba hna hsz hnx hc hf
    obtain ⟨_, h2, h3⟩ := hc
    have h3' := h3
    obtain ⟨h31, h32, h33⟩ := h3
    cases fuel with
    | zero => simp at hf
    | succ k =>
      have hk : r.length < k := by simp at hf; omega
      rw [List.pairwise_cons] at hs
      have hbc : ∀ d ∈ c :: r, d.1 ≠ b.1 := fun d hd => by
        have := hs.1 d hd; unfold Below at this; omega
      have hna' : ∀ d ∈ c :: r, d.1 ≠ a := fun d hd => hna d (List.mem_cons_of_mem _ hd)
      rw [h31] at h3'
      rw [h31]
      simp only [freeLoopP, freeWalk]
      by_cases hlt : c.1 < a
      · simp only [if_pos hlt]
        obtain ⟨ph1, b', e1, e2, e3, e4, e5⟩ := ih c ph k hs.2 hlt hna' hsz hnx h3' hk
        refine ⟨ph1, b', e1, ?_, e3, e4, fun x hx hxl => e5 x hx (fun d hd => hxl d (List.mem_cons_of_mem _ hd))⟩
        have hb := e5 b.1 (by omega) hbc
        exact ⟨rfl, by rw [hb.1]; exact h2, by rw [hb.2, h31]; exact e2⟩
      · simp only [if_neg hlt]
        obtain ⟨N, tl, hI, hN1, htl, hF, _, _, hfr⟩ := insUpP_spec h3' hna' hsz
        refine ⟨insUpP ph a c.1, b.1, rfl, ?_⟩
        rw [hI]
        subst hN1
        have hNb : ∀ d ∈ N :: tl, d.1 ≠ b.1 := by
          intro d hd
          rcases List.mem_cons.1 hd with rfl | hd
          · omega
          · exact hbc d (htl d hd)
        have hm := mergeDownP_spec (b := b.1) hF hNb
        have hb1 := hfr b.1 (by omega)
        rw [hb1.1, h2] at hm
        refine ⟨hm.1, by rw [hm.2.1]; assumption, by rw [hm.2.2.1]; assumption, fun x hx hxl => ?_⟩
        have h5 := hm.2.2.2 x (hxl b (by simp)).symm
        have h6 := hfr x hx
        exact ⟨h5.1.trans h6.1, h5.2.trans h6.2⟩

/-- the second loop of free finds the last node and its predecessor -/
theorem lastLoopP_spec {ph : PHeap} : ∀ (l' : List Chunk) (f : Chunk) (p : Nat) (prev : Option Nat) (fuel : Nat),
    FSeg ph.szf ph.nxf (some p) (l' ++ [f]) none → l'.length < fuel →
    lastLoopP ph fuel p prev = (f.1, lastA prev l') := by
  intro l'
  induction l' with
  | nil =>
    intro f p prev fuel h hf
    obtain ⟨h1, _, h3⟩ := h
    simp only [FSeg] at h3
    cases fuel with
    | zero => simp at hf
    | succ k =>
      simp only [Option.some.injEq] at h1; subst h1
      simp only [lastLoopP, h3, lastA]
  | cons c r ih =>
    intro f p prev fuel h hf
    obtain ⟨h1, _, h3⟩ := h
    cases fuel with
    | zero => simp at hf
    | succ k =>
      simp only [Option.some.injEq] at h1; subst h1
      have hk : r.length < k := by simp at hf; omega
      have : ∃ x, ph.nxf c.1 = some x := by
        cases r with
        | nil => exact ⟨_, h3.1⟩
        | cons d r' => exact ⟨_, h3.1⟩
      obtain ⟨x, hx⟩ := this
      simp only [lastLoopP, hx, lastA]
      rw [hx] at h3
      exact ih f x (some c.1) k h3 hk

/-- "If there's a new topmost chunk, lower __brkval instead": the second loop of free and the
stores behind it are `lowerBrk` -/
theorem lower_spec {ph : PHeap} {l : List Chunk} {f fuel : Nat} (hs : l.Pairwise Below)
    (hc : FSeg ph.szf ph.nxf ph.flp l none) (hflp : ph.flp = some f) (hf : l.length ≤ fuel) :
    ∃ g prev, lastLoopP ph fuel f none = (g, prev) ∧
      (g + 8 + ph.szf g = ph.brk →
        FSeg (ph.setLink prev none).szf (ph.setLink prev none).nxf (ph.setLink prev none).flp
          (lowerBrk ph.brk l).1 none ∧
        (lowerBrk ph.brk l).2 = g ∧ (ph.setLink prev none).szf = ph.szf) ∧
      (¬ g + 8 + ph.szf g = ph.brk → lowerBrk ph.brk l = (l, ph.brk)) := by
  rcases List.eq_nil_or_concat l with rfl | ⟨l', g, hlg⟩
  · simp only [FSeg] at hc; rw [hflp] at hc; cases hc
  · rw [List.concat_eq_append] at hlg
    subst hlg
    have hc0 := hc
    rw [hflp] at hc0
    have hlast := lastLoopP_spec (ph := ph) l' g f none fuel hc0 (by simp at hf; omega)
    obtain ⟨m, hm1, hm2, hm3, _⟩ := fseg_append.1 hc
    refine ⟨g.1, lastA none l', hlast, ?_, ?_⟩
    · intro hadj
      rw [hm3] at hadj
      rcases lowerBrk_spec ph.brk (l' ++ [g]) with ⟨_, h2⟩ | ⟨l'', f', e1, e2, e3⟩
      · exact absurd hadj (h2 g (by simp))
      · obtain ⟨rfl, e4⟩ := List.append_inj' e1 rfl
        simp only [List.cons.injEq, and_true] at e4
        subst e4
        rw [e3]
        have hs' : (l' ++ []).Pairwise Below := by
          rw [List.pairwise_append] at hs; simpa using hs.1
        have := relink (q := none) (l2 := []) hs' hm1 rfl
        rw [List.append_nil] at this
        exact ⟨this.1, rfl, this.2.1⟩
    · intro hadj
      rw [hm3] at hadj
      rcases lowerBrk_spec ph.brk (l' ++ [g]) with ⟨h1, _⟩ | ⟨l'', f', e1, e2, e3⟩
      · exact h1
      · obtain ⟨rfl, e4⟩ := List.append_inj' e1 rfl
        simp only [List.cons.injEq, and_true] at e4
        subst e4
        exact absurd e2 hadj

/-- `free` behind its first store `fpnew->nx = 0` -/
def freeBodyP (ph0 : PHeap) (p fuel : Nat) : PRes :=
  let fpnew := p - 8
  match ph0.flp with
  | none =>
    if p + ph0.szf fpnew = ph0.brk then ⟨{ ph0 with brk := fpnew }, none⟩
    else ⟨{ ph0 with flp := some fpnew }, none⟩
  | some _ =>
    match freeLoopP ph0 fpnew fuel ph0.flp none with
    | (ph1, _, true) => ⟨ph1, none⟩
    | (ph1, none, false) => ⟨ph1, none⟩
    | (ph1, some fp2, false) =>
      let ph2 := mergeDownP ph1 fp2 fpnew
      match ph2.flp with
      | none => ⟨ph2, none⟩
      | some f =>
        let x := lastLoopP ph2 fuel f none
        if x.1 + 8 + ph2.szf x.1 = ph2.brk then
          ⟨{ ph2.setLink x.2 none with brk := x.1 }, none⟩
        else ⟨ph2, none⟩

theorem freeP_eq (ph : PHeap) (p fuel : Nat) :
    freeP ph p fuel = freeBodyP (ph.setNx (p - 8) none) p fuel := rfl

/-- the chunks that stay live have an address different from the released one -/
theorem mem_remove_ne {cfg h} (hi : HInv cfg h) {a sz : Nat} (hl : lookup a h.live = some sz) {c : Chunk}
    (hc : c ∈ remove a h.live) : c.1 ≠ a := by
  intro he
  have h1 := hi.tile a
  have h2 := cnt_remove (x := a) hl
  have h3 := hasN_le_cnt (x := a) hc
  have h4 : hasN a c = 1 := by unfold hasN; rw [if_pos]; constructor <;> omega
  have h5 : hasN a (a, sz) = 1 := by unfold hasN; rw [if_pos]; constructor <;> simp only <;> omega
  split at h1 <;> omega

theorem length_mergeDown_le (b : Chunk) (l : List Chunk) : (mergeDown b l).length ≤ l.length + 1 := by
  cases l with
  | nil => simp [mergeDown]
  | cons c r => simp only [mergeDown]; split <;> simp

theorem length_insUp_le (N : Chunk) (l : List Chunk) : (insUp N l).length ≤ l.length + 1 := by
  cases l with
  | nil => simp [insUp]
  | cons c r => simp only [insUp]; split <;> simp

theorem length_freeWalk_le (N : Chunk) : ∀ (rest : List Chunk) (b : Chunk),
    (freeWalk N b rest).length ≤ rest.length + 2 := by
  intro rest
  induction rest with
  | nil => intro b; simp only [freeWalk]; have := length_mergeDown_le b [N]; simp at this ⊢; omega
  | cons c r ih =>
    intro b
    simp only [freeWalk]
    split
    · have := ih c; simp; omega
    · have h1 := length_mergeDown_le b (insUp N (c :: r))
      have h2 := length_insUp_le N (c :: r)
      simp at h2 ⊢; omega

theorem freeBodyP_refines (cfg : Cfg) (ph0 : PHeap) (h : Heap) (p sz fuel : Nat) (r : Res) (hi : HInv cfg h)
    (hb : ph0.brk = h.brk) (hc0 : FSeg ph0.szf ph0.nxf ph0.flp h.flp none)
    (hlv : ∀ c ∈ h.live, ph0.szf c.1 = c.2) (hnx : ph0.nxf (p - 8) = none)
    (hf : h.flp.length < fuel) (h8 : 8 ≤ p) (hl : lookup (p - 8) h.live = some sz)
    (hfree : free h p = some r) : FRep (freeBodyP ph0 p fuel).h r.h := by
  have hN := lookup_mem hl
  have hsz : ph0.szf (p - 8) = sz := hlv _ hN
  have hdis : ∀ f ∈ h.flp, f.1 ≠ p - 8 := fun f hf' => by
    have := hi.disj_free_live hf' hN; simp only at this; omega
  have hlive' : ∀ c ∈ remove (p - 8) h.live, c.1 ≠ p - 8 ∧ (∀ f ∈ h.flp, f.1 ≠ c.1) ∧ ph0.szf c.1 = c.2 := by
    intro c hc
    have hcl := mem_remove hc
    refine ⟨mem_remove_ne hi hl hc, fun f hf' => ?_, hlv c hcl⟩
    have := hi.disj_free_live hf' hcl; omega
  have hsorted := hi.sorted
  unfold free at hfree
  rw [if_neg (by omega)] at hfree
  simp only [hl] at hfree
  unfold freeBodyP
  simp only
  cases hflp : h.flp with
  | nil =>
    rw [hflp] at hc0 hfree
    simp only [FSeg] at hc0
    simp only at hfree
    rw [hc0]
    simp only
    rw [hsz, hb]
    by_cases htop : p + sz = h.brk
    · rw [if_pos htop] at hfree ⊢
      cases hfree
      exact ⟨rfl, rfl, fun c hc => (hlive' c hc).2.2⟩
    · rw [if_neg htop] at hfree ⊢
      cases hfree
      exact ⟨rfl, ⟨rfl, hsz, by rw [hnx]; rfl⟩, fun c hc => (hlive' c hc).2.2⟩
  | cons fp1 rest =>
    rw [hflp] at hc0 hfree hdis hsorted hf
    simp only at hfree
    have hc1 := hc0
    obtain ⟨hpf, h2, h3⟩ := hc0
    rw [hpf] at hc1
    cases fuel with
    | zero => simp at hf
    | succ k =>
    have hk : rest.length < k := by simp at hf; omega
    rw [hpf]
    simp only [freeLoopP]
    by_cases hlt : fp1.1 < p - 8
    · rw [if_pos hlt] at hfree
      cases hfree
      simp only [if_pos hlt]
      obtain ⟨ph1, b', e1, e2, e3, e4, e5⟩ := freeLoopP_walk (p - 8) sz rest fp1 ph0 k hsorted hlt hdis hsz hnx hc1 hk
      rw [e1]
      simp only
      rw [e3, hpf]
      simp only
      have hwN := hi.wfL _ hN
      have hsl : (freeWalk (p - 8, sz) fp1 rest).Pairwise Below :=
        freeWalk_sorted (N := (p - 8, sz)) hsorted hlt
          (fun f hf' => hi.disj_free_live (by rw [hflp]; exact hf') hN) ⟨hwN.1, hwN.2.1⟩
          (fun f hf' => ⟨(hi.wfF f (by rw [hflp]; exact hf')).1, (hi.wfF f (by rw [hflp]; exact hf')).2.1⟩)
      have hlen := length_freeWalk_le (p - 8, sz) rest fp1
      rw [← hpf, ← e3] at e2
      have hflp2 : (mergeDownP ph1 b' (p - 8)).flp = some fp1.1 := by rw [e3, hpf]
      generalize mergeDownP ph1 b' (p - 8) = ph2 at *
      obtain ⟨g, prev, hlast, hA, hB⟩ := lower_spec (fuel := k + 1) hsl e2 hflp2 (by omega)
      rw [hlast]
      simp only
      have hlive2 : ∀ c ∈ remove (p - 8) h.live, ph2.szf c.1 = c.2 := by
        intro c hc
        obtain ⟨q1, q2, q3⟩ := hlive' c hc
        rw [(e5 c.1 q1 (fun f hf' => q2 f (by rw [hflp]; exact hf'))).1]
        exact q3
      by_cases hadj : g + 8 + ph2.szf g = ph2.brk
      · rw [if_pos hadj]
        obtain ⟨a1, a2, a3⟩ := hA hadj
        rw [e4, hb] at a1 a2
        refine ⟨a2.symm, fchain_iff.2 a1, fun c hc => ?_⟩
        show (ph2.setLink prev none).szf c.1 = c.2
        rw [a3]; exact hlive2 c hc
      · rw [if_neg hadj]
        have hB' := hB hadj
        rw [e4, hb] at hB'
        rw [hB']
        exact ⟨by rw [e4, hb], fchain_iff.2 e2, hlive2⟩
    · rw [if_neg hlt] at hfree
      cases hfree
      simp only [if_neg hlt]
      obtain ⟨N, tl, hI, hN1, htl, hF, hflp', hbrk', hfr⟩ := insUpP_spec hc1 hdis hsz
      rw [hI]
      refine ⟨by rw [← hb, ← hbrk'], fchain_iff.2 hF, fun c hc => ?_⟩
      obtain ⟨q1, q2, q3⟩ := hlive' c hc
      show (insUpP ph0 (p - 8) fp1.1).szf c.1 = c.2
      rw [(hfr c.1 q1).1]; exact q3

/-- `free(p)` on pointers refines `free` (for a live `p`) -/
theorem freeP_refines (cfg : Cfg) (ph : PHeap) (h : Heap) (p sz fuel : Nat) (r : Res) (hi : HInv cfg h)
    (hr : FRep ph h) (hf : h.flp.length < fuel) (h8 : 8 ≤ p) (hl : lookup (p - 8) h.live = some sz)
    (hfree : free h p = some r) : FRep (freeP ph p fuel).h r.h := by
  obtain ⟨hb, hc, hlv⟩ := hr
  have hN := lookup_mem hl
  have hdis : ∀ f ∈ h.flp, f.1 ≠ p - 8 := fun f hf' => by
    have := hi.disj_free_live hf' hN; simp only at this; omega
  rw [freeP_eq]
  exact freeBodyP_refines cfg _ h p sz fuel r hi hb (fseg_updN hdis (fchain_iff.1 hc)) hlv
    (updN_same _ _ _) hf h8 hl hfree

example : (freeP (runP ⟨64, 0⟩ PHeap.init [.malloc 1, .malloc 64, .malloc 9]) 80 3).h.flp = some 72 := by
  decide

/-! ### realloc -/

/-- the loop of realloc computes `growScan`, its `ofp3` is `predOf` -/
theorem growLoopP_spec (ph : PHeap) (fp2 incr : Nat) (L : List Chunk) (hs : L.Pairwise Below) :
    ∀ (l l0 : List Chunk) (fuel : Nat) (cur : Option Nat) (s : Nat),
    L = l0 ++ l → FSeg ph.szf ph.nxf cur l none → l.length < fuel →
    (∀ c, growScan fp2 incr l s = .inl c →
      growLoopP ph fp2 incr fuel cur (lastA none l0) s = .inl (c.1, predOf c.1 none L)) ∧
    (∀ s', growScan fp2 incr l s = .inr s' →
      growLoopP ph fp2 incr fuel cur (lastA none l0) s = .inr s') := by
  intro l
  induction l with
  | nil =>
    intro l0 fuel cur s _ h hf
    simp only [FSeg] at h; subst h
    cases fuel with
    | zero => simp at hf
    | succ k =>
      simp only [growScan, growLoopP]
      exact ⟨fun c hc => (by cases hc), fun s' he => (by cases he; rfl)⟩
  | cons c r ih =>
    intro l0 fuel cur s hL h hf
    obtain ⟨h1, h2, h3⟩ := h
    subst h1
    cases fuel with
    | zero => simp at hf
    | succ k =>
      have hk : r.length < k := by simp at hf; omega
      have hL' : L = (l0 ++ [c]) ++ r := by rw [hL]; simp
      have hsp := sorted_split (hL ▸ hs)
      have hpred : predOf c.1 none L = lastA none l0 := by
        rw [hL]; exact predOf_append (below_ne hsp.1)
      have hlast : lastA none (l0 ++ [c]) = some c.1 := lastA_snoc _ _ _
      simp only [growScan, growLoopP, h2]
      split
      · refine ⟨fun d hd => ?_, fun s' he => (by cases he)⟩
        simp only [Sum.inl.injEq] at hd; subst hd
        rw [hpred]
      · have := ih (l0 ++ [c]) k (ph.nxf c.1) (if c.2 > s then c.2 else s) hL' h3 hk
        rw [hlast] at this; exact this


theorem fseg_mem_sz {szf nxf} {L : List Chunk} {p q : Option Nat} {c : Chunk}
    (h : FSeg szf nxf p L q) (hm : c ∈ L) : szf c.1 = c.2 := by
  induction L generalizing p with
  | nil => cases hm
  | cons d r ih =>
    obtain ⟨_, h2, h3⟩ := h
    rcases List.mem_cons.1 hm with rfl | hm
    · exact h2
    · exact ih h3 hm

theorem mem_setChunk' {a s : Nat} {c new : Chunk} {l : List Chunk} (hl : lookup a l = some s)
    (h : c ∈ setChunk a new l) : c = new ∨ c ∈ remove a l := by
  induction l with
  | nil => simp [lookup] at hl
  | cons d l ih =>
    simp only [lookup] at hl
    simp only [setChunk] at h
    simp only [remove]
    split at hl
    · rename_i hd
      rw [if_pos hd] at h ⊢
      rcases List.mem_cons.1 h with rfl | h
      · exact Or.inl rfl
      · exact Or.inr h
    · rename_i hd
      rw [if_neg hd] at h ⊢
      rcases List.mem_cons.1 h with rfl | h
      · exact Or.inr (by simp)
      · rcases ih hl h with h | h
        · exact Or.inl h
        · exact Or.inr (List.mem_cons_of_mem _ h)

theorem malloc_flp_length (cfg : Cfg) (h : Heap) (n : Nat) : (malloc cfg h n).h.flp.length ≤ h.flp.length := by
  unfold malloc
  simp only
  split
  · exact length_remove_le _ _
  · split
    · split
      · exact length_remove_le _ _
      · simp only [length_setChunk]; exact Nat.le_refl _
    · split <;> exact Nat.le_refl _

/-- the live part of `FRep` after the `sz` word of the live chunk at `a` has been rewritten -/
theorem live_setChunk_rep {h : Heap} {a sz v : Nat} {szf' : Nat → Nat} {ph : PHeap}
    (hl : lookup a h.live = some sz) (hlv : ∀ c ∈ h.live, ph.szf c.1 = c.2)
    (ha : szf' a = v) (hfr : ∀ c ∈ remove a h.live, szf' c.1 = ph.szf c.1) :
    ∀ c ∈ setChunk a (a, v) h.live, szf' c.1 = c.2 := by
  intro c hc
  rcases mem_setChunk' hl hc with rfl | hc
  · exact ha
  · rw [hfr c hc]; exact hlv c (mem_remove hc)


/-- `realloc(ptr, len)` on pointers refines `realloc` (for `ptr` NULL or live: `realloc … = some r`) -/
theorem reallocP_refines (cfg : Cfg) (ok : CfgOK cfg) (ph : PHeap) (h : Heap) (ptr : Option Nat)
    (n fuel : Nat) (r : Res) (hi : HInv cfg h) (hr : FRep ph h) (hf : h.flp.length < fuel)
    (hre : realloc cfg h ptr n = some r) :
    (reallocP cfg ph ptr n fuel).ret = r.ret ∧ FRep (reallocP cfg ph ptr n fuel).h r.h := by
  obtain ⟨hn, hn8, hnm⟩ := reqLen_props cfg ok n
  unfold realloc reallocCore at hre
  unfold reallocP
  generalize minLen (roundLen cfg.W n) = len at *
  cases ptr with
  | none =>
    simp only at hre ⊢
    cases hre
    exact mallocP_refines cfg ph h len fuel hi hr hf
  | some p =>
    simp only at hre ⊢
    split at hre
    · cases hre
    rename_i hp8
    split at hre
    · cases hre
    rename_i sz hl
    have hr0 := hr
    obtain ⟨hb, hc, hlv⟩ := hr
    have hc' := fchain_iff.1 hc
    have hN := lookup_mem hl
    have hsz : ph.szf (p - 8) = sz := hlv _ hN
    obtain ⟨hN8, hNm, hNa⟩ := hi.wfL _ hN
    simp only at hN8 hNm hNa
    have hdisN : ∀ f ∈ h.flp, f.1 + 8 + f.2 ≤ p - 8 ∨ p - 8 + 8 + sz ≤ f.1 :=
      fun f hf' => hi.disj_free_live hf' hN
    have hna : ∀ f ∈ h.flp, f.1 ≠ p - 8 := fun f hf' => by have := hdisN f hf'; omega
    have hrem : ∀ c ∈ remove (p - 8) h.live, c.1 ≠ p - 8 ∧ (c.1 + 8 + c.2 ≤ p - 8 ∨ p - 8 + 8 + sz ≤ c.1) := by
      intro c hc
      have hne := mem_remove_ne hi hl hc
      exact ⟨hne, hi.disj_live_live (mem_remove hc) hl hne⟩
    rw [if_neg (by omega), hsz]
    by_cases hle : len ≤ sz
    · rw [if_pos hle] at hre ⊢
      by_cases hno : sz ≤ 16 ∨ len > sz - 16
      · rw [if_pos hno] at hre ⊢
        cases hre
        exact ⟨rfl, hr0⟩
      · rw [if_neg hno] at hre ⊢
        have h1 : HInv cfg { h with live := (p + len, sz - len - 8) :: setChunk (p - 8) (p - 8, len) h.live } := by
          refine ⟨fun x => ?_, hi.sorted, hi.notTop, hi.wfF, fun c hc => ?_, hi.brk8, hi.lim⟩
          · have := hi.tile x
            have := cnt_setChunk (x := x) (new := (p - 8, len)) hl
            have := hasN_split2 x (p - 8) sz len (by omega)
            have hpe : p - 8 + 8 + len = p + len := by omega
            rw [hpe] at this
            simp only [cnt_cons]; omega
          · rcases List.mem_cons.1 hc with rfl | hc
            · simp only; omega
            · rcases mem_setChunk hc with hc | rfl
              · exact hi.wfL c hc
              · exact ⟨hn8, hnm, hNa⟩
        have hrep1 : FRep ((ph.setSz (p + len) (sz - len - 8)).setSz (p - 8) len)
            { h with live := (p + len, sz - len - 8) :: setChunk (p - 8) (p - 8, len) h.live } := by
          refine ⟨hb, ?_, ?_⟩
          · refine fchain_updS hna (fchain_updS (fun f hf' => ?_) hc)
            have := hdisN f hf'; omega
          · intro c hc
            rcases List.mem_cons.1 hc with rfl | hc
            · show updS (updS ph.szf (p + len) (sz - len - 8)) (p - 8) len (p + len) = _
              rw [updS_other _ _ (by omega), updS_same]
            · refine live_setChunk_rep (ph := ph) hl hlv (updS_same _ _ _) (fun d hd => ?_) c hc
              have := hrem d hd
              show updS (updS ph.szf (p + len) (sz - len - 8)) (p - 8) len d.1 = _
              rw [updS_other _ _ this.1, updS_other _ _ (by omega)]
        split at hre
        · cases hre
        · rename_i r1 hfree
          cases hre
          refine ⟨rfl, ?_⟩
          have hp : p + len + 8 - 8 = p + len := by omega
          exact freeP_refines cfg _ _ (p + len + 8) (sz - len - 8) fuel r1 h1 hrep1 hf (by omega)
            (by simp [lookup, hp]) hfree
    · rw [if_neg hle] at hre ⊢
      have hspec := growLoopP_spec ph (p + sz) (len - sz) h.flp hi.sorted h.flp [] fuel ph.flp 0 rfl hc' hf
      simp only [lastA] at hspec
      cases hg : growScan (p + sz) (len - sz) h.flp 0 with
      | inl fp3 =>
        rw [hg] at hre
        rw [hspec.1 fp3 hg]
        simp only at hre ⊢
        obtain ⟨hm3, ha3, hs3⟩ := growScan_inl hg
        have hsz3 : ph.szf fp3.1 = fp3.2 := fseg_mem_sz hc' hm3
        have hw3 := hi.wfF _ hm3
        rw [hsz3]
        by_cases hbig : fp3.2 + 8 - (len - sz) > 16
        · rw [if_pos hbig] at hre ⊢
          cases hre
          refine ⟨rfl, ?_⟩
          obtain ⟨l1, l2, hL⟩ := List.append_of_mem hm3
          have hsorted := hi.sorted
          have hl3 := lookup_of_mem_sorted hi.sorted hm3
          have hsnew := sorted_setChunk (new := (p + len, fp3.2 - (len - sz))) hi.sorted hl3
            (by simp only; omega) (by simp only; omega)
          have hin : ∀ d ∈ h.flp, d.1 ≠ p + len :=
            inside_not_node hi.sorted hm3 (by omega) (by omega)
          rw [hL] at hsorted hsnew hc' hin hna
          have hsp := sorted_split hsorted
          rw [setChunk_append (below_ne hsp.1)] at hsnew
          obtain ⟨m, hm1, hm2, _, hm4⟩ := fseg_append.1 hc'
          have hfr : ∀ d, d ≠ p + len → d ≠ p - 8 →
              updS (updS ph.szf (p + len) (fp3.2 - (len - sz))) (p - 8) len d = ph.szf d ∧
              updN ph.nxf (p + len) (ph.nxf fp3.1) d = ph.nxf d := by
            intro d h1 h2; simp [updS, updN, h1, h2]
          have R := relink (ph := ⟨ph.brk, ph.flp, updS (updS ph.szf (p + len) (fp3.2 - (len - sz))) (p - 8) len,
              updN ph.nxf (p + len) (ph.nxf fp3.1)⟩) (l1 := l1) (l2 := (p + len, fp3.2 - (len - sz)) :: l2)
            (m := m) (q := some (p + len)) hsnew
            (fseg_congr (fun d hd => hfr d.1 (hin d (by simp [hd])) (hna d (by simp [hd]))) hm1)
            ⟨rfl, by simp [updS]; omega, by
              simp only [updN_same]
              exact fseg_congr (fun d hd => hfr d.1 (hin d (by simp [hd])) (hna d (by simp [hd]))) hm4⟩
          rw [hL, setChunk_append (below_ne hsp.1), predOf_append (below_ne hsp.1)]
          refine ⟨by rw [← hb]; exact R.2.2, fchain_iff.2 R.1, ?_⟩
          · refine live_setChunk_rep (ph := ph) hl hlv ?_ (fun d hd => ?_)
            · rw [R.2.1]; exact updS_same _ _ _
            · rw [R.2.1]
              have h1 := hrem d hd
              have h2 := hi.disj_free_live hm3 (mem_remove hd)
              exact (hfr d.1 (by omega) h1.1).1
        · rw [if_neg hbig] at hre ⊢
          cases hre
          refine ⟨rfl, ?_⟩
          have hc1 : FSeg (ph.setSz (p - 8) (sz + (fp3.2 + 8))).szf (ph.setSz (p - 8) (sz + (fp3.2 + 8))).nxf
              (ph.setSz (p - 8) (sz + (fp3.2 + 8))).flp h.flp none := fseg_updS hna hc'
          obtain ⟨u1, u2, u3, _⟩ := unlink_rep hi.sorted hc1 hm3
          refine ⟨by rw [u3]; exact hb, fchain_iff.2 u1, ?_⟩
          rw [u2]
          refine live_setChunk_rep (ph := ph) hl hlv (updS_same _ _ _) (fun d hd => ?_)
          exact updS_other _ _ (hrem d hd).1
      | inr s =>
        rw [hg] at hre
        rw [hspec.2 s hg]
        simp only at hre ⊢
        rw [hb]
        by_cases htop : h.brk = p + sz ∧ len > s
        · rw [if_pos htop] at hre ⊢
          by_cases hlim : cfg.lim ≠ 0 ∧ p + len > cfg.lim
          · rw [if_pos hlim] at hre ⊢
            cases hre
            exact ⟨rfl, hr0⟩
          · rw [if_neg hlim] at hre ⊢
            cases hre
            refine ⟨rfl, rfl, fchain_updS hna hc, ?_⟩
            refine live_setChunk_rep (ph := ph) hl hlv (updS_same _ _ _) (fun d hd => ?_)
            exact updS_other _ _ (hrem d hd).1
        · rw [if_neg htop] at hre ⊢
          obtain ⟨m1, m2⟩ := mallocP_refines cfg ph h len fuel hi hr0 hf
          have him := malloc_inv cfg ok h len hi
          have hlen := malloc_flp_length cfg h len
          rw [m1]
          split at hre
          · rename_i hnone
            cases hre
            rw [hnone]
            exact ⟨rfl, m2⟩
          · rename_i memp hsome
            rw [hsome]
            simp only
            split at hre
            · cases hre
            · rename_i r2 hfree
              cases hre
              refine ⟨rfl, ?_⟩
              obtain ⟨_, _, sz', hl'⟩ := free_live hfree
              exact freeP_refines cfg _ _ p sz' fuel r2 him m2 (by omega) (by omega) hl' hfree


example : (reallocP ⟨64, 0⟩ (runP ⟨64, 0⟩ PHeap.init [.malloc 1, .malloc 64, .malloc 9, .free (some 80)])
    (some 8) 100 3).ret = some 8 ∧
    walkFl (reallocP ⟨64, 0⟩ (runP ⟨64, 0⟩ PHeap.init [.malloc 1, .malloc 64, .malloc 9, .free (some 80)])
      (some 8) 100 3).h 3 = [] := by
  decide

/-! ### histories -/

theorem sorted_length_le : ∀ (l : List Chunk) (lo B : Nat), l.Pairwise Below →
    (∀ c ∈ l, lo ≤ c.1 ∧ c.1 + 8 + c.2 ≤ B) → l.length ≤ B - lo := by
  intro l
  induction l with
  | nil => intro lo B _ _; simp
  | cons c r ih =>
    intro lo B hs hb
    rw [List.pairwise_cons] at hs
    have hc := hb c (by simp)
    have := ih (c.1 + 8 + c.2 + 1) B hs.2 (fun d hd => by
      have h1 := hs.1 d hd
      have h2 := hb d (List.mem_cons_of_mem _ hd)
      unfold Below at h1; omega)
    simp only [List.length_cons]
    omega

/-- the free list has at most `brk` nodes: the fuel `brk + 1` of `stepP` suffices -/
theorem flp_length_le_brk {cfg : Cfg} {h : Heap} (hi : HInv cfg h) : h.flp.length ≤ h.brk := by
  have := sorted_length_le h.flp 0 h.brk hi.sorted
    (fun c hc => ⟨Nat.zero_le _, hi.fin_le_brk (Or.inl hc)⟩)
  omega

theorem FRep.init : FRep PHeap.init Heap.init := ⟨rfl, rfl, fun c hc => by cases hc⟩

/-- one request: the pointer heap follows the abstract heap; malloc and realloc return the
same pointer (free returns nothing) -/
theorem stepP_refines (cfg : Cfg) (ok : CfgOK cfg) (ph : PHeap) (h : Heap) (op : Op) (r : Res)
    (hi : HInv cfg h) (hr : FRep ph h) (hs : step cfg h op = some r) :
    FRep (stepP cfg ph op).h r.h ∧ ((∀ q, op ≠ .free q) → (stepP cfg ph op).ret = r.ret) := by
  have hfuel : h.flp.length < ph.brk + 1 := by
    have := flp_length_le_brk hi; rw [hr.1]; omega
  cases op with
  | malloc n =>
    simp only [step, Option.some.injEq] at hs
    subst hs
    have := mallocP_refines cfg ph h n (ph.brk + 1) hi hr hfuel
    exact ⟨this.2, fun _ => this.1⟩
  | free p =>
    cases p with
    | none =>
      simp only [step, Option.some.injEq] at hs
      subst hs
      exact ⟨hr, fun hq => absurd rfl (hq _)⟩
    | some p =>
      simp only [step] at hs
      obtain ⟨_, h8, sz, hl⟩ := free_live hs
      exact ⟨freeP_refines cfg ph h p sz (ph.brk + 1) r hi hr hfuel h8 hl hs, fun hq => absurd rfl (hq _)⟩
  | realloc p n =>
    simp only [step] at hs
    have := reallocP_refines cfg ok ph h p n (ph.brk + 1) r hi hr hfuel hs
    exact ⟨this.2, fun _ => this.1⟩

/-- every history: the pointer heap reached by `runP` represents the abstract heap reached by `run` -/
theorem runP_refines' (cfg : Cfg) (ok : CfgOK cfg) (ops : List Op) : ∀ (ph : PHeap) (h h' : Heap),
    HInv cfg h → FRep ph h → run cfg h ops = some h' → FRep (runP cfg ph ops) h' := by
  induction ops with
  | nil => intro ph h h' _ hr hrun; simp only [run, Option.some.injEq] at hrun; subst hrun; exact hr
  | cons op ops ih =>
    intro ph h h' hi hr hrun
    simp only [run] at hrun
    split at hrun
    · cases hrun
    · rename_i r hs
      exact ih _ r.h h' (step_inv cfg ok h op r hi hs) (stepP_refines cfg ok ph h op r hi hr hs).1 hrun

theorem runP_refines (cfg : Cfg) (ok : CfgOK cfg) (ops : List Op) (h : Heap)
    (hrun : run cfg Heap.init ops = some h) : FRep (runP cfg PHeap.init ops) h :=
  runP_refines' cfg ok ops PHeap.init Heap.init h (HInv.init cfg) FRep.init hrun

/-- the free list read from memory after any history is the abstract free list -/
theorem runP_walkFl (cfg : Cfg) (ok : CfgOK cfg) (ops : List Op) (h : Heap)
    (hrun : run cfg Heap.init ops = some h) :
    walkFl (runP cfg PHeap.init ops) ((runP cfg PHeap.init ops).brk + 1) = h.flp := by
  have hr := runP_refines cfg ok ops h hrun
  have hi := run_inv cfg ok ops Heap.init h (HInv.init cfg) hrun
  refine walkFl_eq hr ?_
  have := flp_length_le_brk hi; rw [hr.1]; omega

example : run ⟨64, 0⟩ Heap.init [.malloc 1, .malloc 64, .malloc 9, .free (some 80), .realloc (some 8) 100]
    = some ⟨216, [], [(144, 64), (0, 136)]⟩ := by decide


/-! non-vacuity: the hypotheses of `runP_refines` hold for the host configuration and a
history with a split, a coalescing free and a realloc; the conclusion computes -/
example : CfgOK ⟨64, 0⟩ := ⟨by decide, by decide⟩

example : (mallocP ⟨64, 0⟩ (runP ⟨64, 0⟩ PHeap.init [.malloc 1, .malloc 200, .malloc 9, .free (some 80)]) 64 4).ret
    = (malloc ⟨64, 0⟩ ⟨408, [(72, 256)], [(336, 64), (0, 64)]⟩ 64).ret := by decide

example : walkFl (runP ⟨64, 0⟩ PHeap.init
    [.malloc 1, .malloc 200, .malloc 9, .free (some 80), .malloc 64, .realloc (some 8) 100]) 5 = [(136, 120)] := by
  decide

end Igris.C10
