/-
  C10 — model of the igris allocators.

  Pools   igris/datastruct/slist.h, igris/datastruct/pool.h,
          igris/container/pool.h, igris/container/static_object_pool.h
  Heap    compat/mem/lin_malloc.cpp, compat/mem/lin_realloc.cpp (avr-libc
          malloc/free/realloc), after the `fix:` commits of branch fix-C10.

  Conventions
  * every pointer is a byte offset from the start of its arena (the pool zone,
    `__malloc_heap_start`); the NULL pointer is `none`;
  * the singly linked lists of the C code (`slist_head.next`, `__freelist.nx`)
    are Lean lists in list order, first element = the node the head points to;
    unlinking / relinking a node is removal / replacement of the list element
    with that address (addresses on a list are distinct);
  * `sizeof(size_t) = 8`, `sizeof(struct __freelist) = 16`, `sizeof(struct
    slist_head) = 8` (LP64; the harness prints them, op `consts`);
  * every store the C code performs into the arena is reported as an event
    (`Ev.w addr len`, `Ev.cp dst src len` for `memcpy`) in program order; stores
    to the globals `__flp`, `__brkval`, `head.next` are state updates, not events.
-/
import IgrisModel.Common.Proto
namespace Igris.C10

/-- a store into the arena -/
inductive Ev where
  | w (addr len : Nat)          -- `len` bytes at `addr` get a new (unspecified) value
  | cp (dst src len : Nat)      -- memcpy(dst, src, len)
  deriving Repr, DecidableEq

/-! ## igris/datastruct/slist.h + igris/datastruct/pool.h

`struct pool_head { struct slist_head free_blocks; }` — the list of free cells,
threaded through the first 8 bytes of every free cell. -/

structure Pool where
  /-- offsets (from `zone`) of the free cells, list head first -/
  free : List Nat
  deriving Repr, DecidableEq

/-- `pool_init`: `slist_init(&head->free_blocks)` -/
def Pool.init : Pool := ⟨[]⟩

/-- `pool_engage`:
```
char *stop = zone + size; char *it = zone;
while (it < stop) { slist_add((slist_head *)it, &pool->free_blocks); it += elemsz; }
```
`slist_add(link, head)`: `link->next = head->next; head->next = link` = cons.
The loop runs at most `size` times when `elemsz ≥ 1` (fuel). -/
def engageLoop (elemsz stop : Nat) : Nat → Nat → List Nat → List Nat
  | 0, _, fl => fl
  | fuel + 1, it, fl =>
    if it < stop then engageLoop elemsz stop fuel (it + elemsz) (it :: fl) else fl

def Pool.engage (p : Pool) (size elemsz : Nat) : Pool :=
  ⟨engageLoop elemsz size (size + 1) 0 p.free⟩

/-- the stores of `pool_engage`: `link->next = …` into every cell -/
def engageEvs (elemsz stop : Nat) : Nat → Nat → List Ev
  | 0, _ => []
  | fuel + 1, it => if it < stop then .w it 8 :: engageEvs elemsz stop fuel (it + elemsz) else []

/-- `pool_alloc`: `if (slist_empty) return nullptr; return slist_pop_first(...)`.
(`slist_pop_first` only rewrites `head->next`.) -/
def Pool.alloc (p : Pool) : Option Nat × Pool :=
  match p.free with
  | [] => (none, p)
  | c :: rest => (some c, ⟨rest⟩)

/-- `pool_free`: `slist_add((slist_head *)ptr, &head->free_blocks)`; the store is
`ptr->next = head->next` (8 bytes at `ptr`). -/
def Pool.release (p : Pool) (c : Nat) : Pool × List Ev := (⟨c :: p.free⟩, [.w c 8])

/-- `pool_avail` = `slist_size` -/
def Pool.avail (p : Pool) : Nat := p.free.length

/-- `pool_in_freelist` = `slist_in` -/
def Pool.inFreelist (p : Pool) (c : Nat) : Bool := p.free.contains c

/-! ### the same routines at the level of `next` pointers

`Links` is the memory of the `next` fields: address ↦ address.  Cells are
addressed by their offset in the zone, the list head (`&pool->free_blocks`)
by some address `head` that is not a cell.  `Props.lean` shows that these
routines implement the list operations above (`slist_*_refines`). -/

abbrev Links := Nat → Nat

def upd (m : Links) (a v : Nat) : Links := fun x => if x = a then v else m x

/-- `slist_init`: `head->next = head` -/
def slistInit (m : Links) (head : Nat) : Links := upd m head head

/-- `slist_empty`: `head->next == head` -/
def slistEmpty (m : Links) (head : Nat) : Bool := m head == head

/-- `slist_add(link, head)`: `link->next = head->next; head->next = link;` -/
def slistAdd (m : Links) (link head : Nat) : Links := upd (upd m link (m head)) head link

/-- `slist_pop_first`: `ret = head->next; if (ret == head) return NULL; head->next = ret->next; return ret;` -/
def slistPopFirst (m : Links) (head : Nat) : Option Nat × Links :=
  let ret := m head
  if ret = head then (none, m) else (some ret, upd m head (m ret))

/-- `slist_size`: `slist_for_each(it, head) i++` (fuel bounds the walk) -/
def slistSizeLoop (m : Links) (head : Nat) : Nat → Nat → Nat → Nat
  | 0, _, i => i
  | fuel + 1, pos, i => if pos = head then i else slistSizeLoop m head fuel (m pos) (i + 1)

def slistSize (m : Links) (head fuel : Nat) : Nat := slistSizeLoop m head fuel (m head) 0

/-- `slist_in`: `slist_for_each(it, head) if (it == finded) return true; return false` -/
def slistInLoop (m : Links) (head finded : Nat) : Nat → Nat → Bool
  | 0, _ => false
  | fuel + 1, pos => if pos = head then false else if pos = finded then true else slistInLoop m head finded fuel (m pos)

def slistIn (m : Links) (head finded fuel : Nat) : Bool := slistInLoop m head finded fuel (m head)

/-- `pool_engage` on pointers -/
def engageLoopP (elemsz stop head : Nat) : Nat → Nat → Links → Links
  | 0, _, m => m
  | fuel + 1, it, m =>
    if it < stop then engageLoopP elemsz stop head fuel (it + elemsz) (slistAdd m it head) else m

/-- `pool_alloc` on pointers -/
def poolAllocP (m : Links) (head : Nat) : Option Nat × Links :=
  if slistEmpty m head then (none, m) else slistPopFirst m head

/-! ## igris/container/pool.h — `igris::pool` -/

structure IPool where
  head : Pool
  size : Nat        -- `_size` (bytes)
  elemsz : Nat      -- `_elemsz`
  count : Int       -- `int _count`
  deriving Repr, DecidableEq

/-- `size()`: `_size / _elemsz` -/
def IPool.cells (p : IPool) : Nat := p.size / p.elemsz

/-- `init(zone, size, elsize)` -/
def IPool.init (size elsize : Nat) : IPool :=
  let h := Pool.init.engage size elsize
  { head := h, size := size, elemsz := elsize, count := ((size / elsize : Nat) : Int) }

/-- `size_t room() const { return _count; }` — `int` converted to `size_t` -/
def IPool.room (p : IPool) : Nat := (p.count % (2 ^ 64 : Int)).toNat

def IPool.avail (p : IPool) : Nat := p.head.avail

/-- `get()` (after `fix: igris::pool::get() …`):
`ret = pool_alloc(&head); if (ret != nullptr) _count--; return ret;` -/
def IPool.get (p : IPool) : Option Nat × IPool :=
  let (ret, h) := p.head.alloc
  match ret with
  | none => (none, { p with head := h })
  | some c => (some c, { p with head := h, count := p.count - 1 })

/-- the routine as it was before the fix: `_count--` unconditionally -/
def IPool.getOrig (p : IPool) : Option Nat × IPool :=
  let (ret, h) := p.head.alloc
  (ret, { p with head := h, count := p.count - 1 })

/-- `put(ptr)`: NULL is ignored; the two `assert`s (ptr inside the zone) are
reported as `none` (abort). -/
def IPool.put (p : IPool) (ptr : Option Nat) : Option (IPool × List Ev) :=
  match ptr with
  | none => some (p, [])
  | some c =>
    if c < p.size then
      let (h, evs) := p.head.release c
      some ({ p with head := h, count := p.count + 1 }, evs)
    else none

/-- `cell_is_allocated(int i)` -/
def IPool.cellIsAllocated (p : IPool) (i : Int) : Bool :=
  if i ≥ (p.cells : Int) ∨ i < 0 then false
  else !(p.head.inFreelist (i.toNat * p.elemsz))

/-- `unlinked_iterator::next()`: `do { ++_num; } while (_num < size && !allocated(_num));
return _num < size ? _num : -1` (fuel = number of cells + 1) -/
def IPool.iterNextLoop (p : IPool) : Nat → Int → Int
  | 0, num => num
  | fuel + 1, num =>
    let num := num + 1
    if num < (p.cells : Int) ∧ !(p.cellIsAllocated num) then p.iterNextLoop fuel num else num

def IPool.iterNext (p : IPool) (num : Int) : Int :=
  let n := p.iterNextLoop (p.cells + 1) num
  if n < (p.cells : Int) then n else -1

/-- `for (it = begin(); it != end(); ++it)`: the cell numbers visited -/
def IPool.iterAllLoop (p : IPool) : Nat → Int → List Int
  | 0, _ => []
  | fuel + 1, it => if it = -1 then [] else it :: p.iterAllLoop fuel (p.iterNext it)

def IPool.iterAll (p : IPool) : List Int := p.iterAllLoop (p.cells + 1) (p.iterNext (-1))

/-! ## igris/container/static_object_pool.h — `static_object_pool<T, Capacity>` -/

/-- `sizeof(storage_type)`: `elsize = max(sizeof T, 8)` rounded up to
`elalign = max(alignof T, 8)` -/
def storageSize (sizeofT alignofT : Nat) : Nat :=
  let els := max sizeofT 8
  let ela := max alignofT 8
  (els + ela - 1) / ela * ela

structure SOP where
  head : Pool
  /-- ghost: cells that hold a constructed `T` -/
  objs : List Nat
  /-- ghost: a `T` was constructed over a live `T`, or a dead cell was destroyed -/
  fault : Bool
  deriving Repr, DecidableEq

def SOP.init (sizeofT alignofT cap : Nat) : SOP :=
  let s := storageSize sizeofT alignofT
  ⟨Pool.init.engage (cap * s) s, [], false⟩

/-- `create(args…)`: `ptr = pool_alloc(&head); if (!ptr) return nullptr; new (ptr) T(args…)` -/
def SOP.create (p : SOP) : Option Nat × SOP :=
  let (ret, h) := p.head.alloc
  match ret with
  | none => (none, { p with head := h })
  | some c => (some c, { head := h, objs := c :: p.objs, fault := p.fault || p.objs.contains c })

/-- `destroy(obj)`: `obj->~T(); pool_free(&head, obj)` -/
def SOP.destroy (p : SOP) (c : Nat) : SOP :=
  { head := (p.head.release c).1, objs := p.objs.erase c, fault := p.fault || !(p.objs.contains c) }

def SOP.avail (p : SOP) : Nat := p.head.avail

/-- `create(args…)` whose `T` constructor THROWS (round 3b), after `fix: static_object_pool::create
returns the cell when the constructor throws`: `ptr = pool_alloc(&head); if (!ptr) return nullptr;`
then a guard object whose destructor does `pool_free(&head, ptr)` unless the placement `new`
completed.  `true` = the exception reaches the caller.  No object comes into existence. -/
def SOP.createThrow (p : SOP) : Bool × SOP :=
  let (ret, h) := p.head.alloc
  match ret with
  | none => (false, { p with head := h })
  | some c => (true, { p with head := (h.release c).1 })

/-- the routine as it was: nothing returns the cell -/
def SOP.createThrowOrig (p : SOP) : Bool × SOP :=
  let (ret, h) := p.head.alloc
  match ret with
  | none => (false, { p with head := h })
  | some _ => (true, { p with head := h })

/-! ## compat/mem/lin_malloc.cpp, lin_realloc.cpp

`struct __freelist { size_t sz; struct __freelist *nx; }`.  A chunk is its
header address (offset from the heap start) and the value of its `sz` field:
it occupies `[addr, addr + 8 + sz)`, the payload starts at `addr + 8`. -/

abbrev Chunk := Nat × Nat

/-- first address behind the chunk -/
def Chunk.fin (c : Chunk) : Nat := c.1 + 8 + c.2

structure Cfg where
  /-- `__WORDSIZE` (64 on the LP64 host: requests are rounded to multiples of 64) -/
  W : Nat
  /-- `__malloc_heap_end - __malloc_heap_start`, 0 = no limit -/
  lim : Nat
  deriving Repr, DecidableEq

structure Heap where
  /-- `__brkval - __malloc_heap_start` (0 also stands for the initial NULL) -/
  brk : Nat
  /-- the free list `__flp` in list order -/
  flp : List Chunk
  /-- the `sz` fields of the chunks that are not on the free list (what
  `free`/`realloc` read at `ptr - sizeof(size_t)`) -/
  live : List Chunk
  deriving Repr, DecidableEq

def Heap.init : Heap := ⟨0, [], []⟩

structure Res where
  h : Heap
  ret : Option Nat
  evs : List Ev
  deriving Repr, DecidableEq

/-- the `sz` field found at header address `a` -/
def lookup (a : Nat) : List Chunk → Option Nat
  | [] => none
  | c :: r => if c.1 = a then some c.2 else lookup a r

/-- unlink the node at address `a` (`fp2->nx = fp1->nx` / `__flp = fp1->nx`) -/
def remove (a : Nat) : List Chunk → List Chunk
  | [] => []
  | c :: r => if c.1 = a then r else c :: remove a r

/-- the node at address `a` is replaced, at the same list position, by `new`
(rewriting its `sz`, or relinking the predecessor to a node that inherits `nx`) -/
def setChunk (a : Nat) (new : Chunk) : List Chunk → List Chunk
  | [] => []
  | c :: r => if c.1 = a then new :: r else c :: setChunk a new r

/-- the predecessor pointer (`fp2`, `sfp2`, `ofp3`) when the walk stands on the
node at `a`; `none` = the node is the list head (`__flp` is rewritten) -/
def predOf (a : Nat) : Option Nat → List Chunk → Option Nat
  | _, [] => none
  | prev, c :: r => if c.1 = a then prev else predOf a (some c.1) r

/-- the store `pred->nx = …` -/
def nxWrite : Option Nat → List Ev
  | none => []
  | some b => [.w (b + 8) 8]

/-- `if (len % __WORDSIZE != 0) len += (__WORDSIZE - (len % __WORDSIZE));` -/
def roundLen (W len : Nat) : Nat :=
  if len % W ≠ 0 then len + (W - len % W) else len

/-- `if (len < sizeof(struct __freelist) - sizeof(size_t)) len = …` -/
def minLen (len : Nat) : Nat := if len < 8 then 8 else len

/-- malloc step 1: `for (s = 0, fp1 = __flp, fp2 = 0; fp1; fp2 = fp1, fp1 = fp1->nx)`.
`.inl a`: exact fit at `a`; `.inr (s, sfp1)`: smallest larger chunk seen (`s = 0`: none). -/
def scan (len : Nat) : List Chunk → Nat → Nat → Sum Nat (Nat × Nat)
  | [], s, sfp => .inr (s, sfp)
  | c :: rest, s, sfp =>
    if c.2 < len then scan len rest s sfp
    else if c.2 = len then .inl c.1
    else if s = 0 ∨ c.2 < s then scan len rest c.2 c.1
    else scan len rest s sfp

/-- `avail = cp <= __brkval ? 0 : cp - __brkval` with `cp = __malloc_heap_end` -/
def availOf (lim brk : Nat) : Nat := if lim ≤ brk then 0 else lim - brk

def malloc (cfg : Cfg) (h : Heap) (len0 : Nat) : Res :=
  let len := minLen (roundLen cfg.W len0)
  match scan len h.flp 0 0 with
  | .inl a =>
    -- exact fit: disconnect the chunk from the freelist and return it
    ⟨{ h with flp := remove a h.flp, live := (a, len) :: h.live }, some (a + 8),
      nxWrite (predOf a none h.flp)⟩
  | .inr (s, sfp1) =>
    if s ≠ 0 then
      if s - len < 16 then
        -- remainder too small for a freelist entry: use the entire chunk
        ⟨{ h with flp := remove sfp1 h.flp, live := (sfp1, s) :: h.live }, some (sfp1 + 8),
          nxWrite (predOf sfp1 none h.flp)⟩
      else
        -- split: the lower part stays on the list, the upper part is returned
        --   cp = sfp1; s -= len; cp += s; sfp2 = cp; sfp2->sz = len; sfp1->sz = s - 8
        let s' := s - len
        let sfp2 := sfp1 + s'
        ⟨{ h with flp := setChunk sfp1 (sfp1, s' - 8) h.flp, live := (sfp2, len) :: h.live },
          some (sfp2 + 8), [.w sfp2 8, .w sfp1 8]⟩
    else
      -- step 3: extend the break (with the optional limit `__malloc_heap_end`)
      let avail := availOf cfg.lim h.brk
      if cfg.lim ≠ 0 ∧ ¬ (avail ≥ len ∧ avail ≥ len + 8) then
        ⟨h, none, []⟩
      else
        ⟨{ h with brk := h.brk + (len + 8), live := (h.brk, len) :: h.live }, some (h.brk + 8),
          [.w h.brk 8]⟩

/-! ### free -/

/-- upper merge, standing on `fp1` (head of the list given), `fpnew->nx = fp1`:
`if (&fpnew->nx + fpnew->sz == fp1) { fpnew->sz += fp1->sz + 8; fpnew->nx = fp1->nx; }` -/
def insUp (new : Chunk) : List Chunk → List Chunk
  | [] => [new]
  | fp1 :: rest =>
    if new.1 + 8 + new.2 = fp1.1 then (new.1, new.2 + (fp1.2 + 8)) :: rest
    else new :: fp1 :: rest

def insUpEvs (new : Chunk) : List Chunk → List Ev
  | [] => []
  | fp1 :: _ =>
    .w (new.1 + 8) 8 :: (if new.1 + 8 + new.2 = fp1.1 then [.w new.1 8, .w (new.1 + 8) 8] else [])

/-- lower merge; the list given starts with `fpnew` (possibly already merged up):
`fp2->nx = fpnew; if (&fp2->nx + fp2->sz == fpnew) { fp2->sz += fpnew->sz + 8; fp2->nx = fpnew->nx; }` -/
def mergeDown (fp2 : Chunk) : List Chunk → List Chunk
  | [] => [fp2]
  | new :: tl =>
    if fp2.1 + 8 + fp2.2 = new.1 then (fp2.1, fp2.2 + (new.2 + 8)) :: tl
    else fp2 :: new :: tl

def mergeDownEvs (fp2 : Chunk) (newAddr : Nat) : List Ev :=
  .w (fp2.1 + 8) 8 :: (if fp2.1 + 8 + fp2.2 = newAddr then [.w fp2.1 8, .w (fp2.1 + 8) 8] else [])

/-- `for (fp1 = __flp, fp2 = 0; fp1; fp2 = fp1, fp1 = fp1->nx) { if (fp1 < fpnew) continue; … break; }`
entered with `fp2` already known to lie below `fpnew`; returns the list from `fp2` on. -/
def freeWalk (new : Chunk) : Chunk → List Chunk → List Chunk
  | fp2, [] => mergeDown fp2 [new]
  | fp2, fp1 :: rest =>
    if fp1.1 < new.1 then fp2 :: freeWalk new fp1 rest
    else mergeDown fp2 (insUp new (fp1 :: rest))

def freeWalkEvs (new : Chunk) : Chunk → List Chunk → List Ev
  | fp2, [] => mergeDownEvs fp2 new.1
  | fp2, fp1 :: rest =>
    if fp1.1 < new.1 then freeWalkEvs new fp1 rest
    else insUpEvs new (fp1 :: rest) ++ mergeDownEvs fp2 new.1

/-- "If there's a new topmost chunk, lower __brkval instead":
walk to the last entry; `if (&fp1->nx + fp1->sz == __brkval) { unlink it; __brkval = fp1; }` -/
def lowerBrk (brk : Nat) : List Chunk → List Chunk × Nat
  | [] => ([], brk)
  | [f] => if f.1 + 8 + f.2 = brk then ([], f.1) else ([f], brk)
  | f :: g :: r => let x := lowerBrk brk (g :: r); (f :: x.1, x.2)

def lowerBrkEvs (brk : Nat) : List Chunk → List Ev
  | [] => []
  | [_] => []
  | [f, g] => if g.1 + 8 + g.2 = brk then [.w (f.1 + 8) 8] else []
  | _ :: g :: r => lowerBrkEvs brk (g :: r)

/-- `free(p)` for `p ≠ NULL`; `none` = `p` is not the payload of a live chunk
(undefined behaviour in C, outside the property). -/
def free (h : Heap) (p : Nat) : Option Res :=
  if p < 8 then none else
  let a := p - 8
  match lookup a h.live with
  | none => none
  | some sz =>
    let live := remove a h.live
    -- fpnew->nx = 0
    let e0 : Ev := .w (a + 8) 8
    match h.flp with
    | [] =>
      if p + sz = h.brk then some ⟨{ brk := a, flp := [], live := live }, none, [e0]⟩
      else some ⟨{ h with flp := [(a, sz)], live := live }, none, [e0]⟩
    | fp1 :: rest =>
      if fp1.1 < a then
        let l := freeWalk (a, sz) fp1 rest
        let x := lowerBrk h.brk l
        some ⟨{ brk := x.2, flp := x.1, live := live }, none,
          e0 :: (freeWalkEvs (a, sz) fp1 rest ++ lowerBrkEvs h.brk l)⟩
      else
        -- fp2 == 0: new head of the freelist, return at once
        some ⟨{ h with flp := insUp (a, sz) (fp1 :: rest), live := live }, none,
          e0 :: insUpEvs (a, sz) (fp1 :: rest)⟩

/-! ### realloc -/

/-- `for (s = 0, ofp3 = 0, fp3 = __flp; fp3; ofp3 = fp3, fp3 = fp3->nx)`:
`.inl fp3` = the chunk right above ours and large enough; `.inr s` = largest `sz` seen -/
def growScan (fp2 incr : Nat) : List Chunk → Nat → Sum Chunk Nat
  | [], s => .inr s
  | c :: rest, s =>
    if c.1 = fp2 ∧ c.2 + 8 ≥ incr then .inl c
    else growScan fp2 incr rest (if c.2 > s then c.2 else s)

/-- realloc after the request size has been adjusted to `len` -/
def reallocCore (cfg : Cfg) (h : Heap) (ptr : Option Nat) (len : Nat) : Option Res :=
  match ptr with
  | none => some (malloc cfg h len)
  | some p =>
    if p < 8 then none else
    let a := p - 8
    match lookup a h.live with
    | none => none
    | some sz =>
      if len ≤ sz then
        if sz ≤ 16 ∨ len > sz - 16 then some ⟨h, some p, []⟩
        else
          -- fp2 = ptr + len; fp2->sz = fp1->sz - len - 8; fp1->sz = len; free(&fp2->nx)
          let h1 : Heap := { h with live := (p + len, sz - len - 8) :: setChunk a (a, len) h.live }
          match free h1 (p + len + 8) with
          | none => none
          | some r => some ⟨r.h, some p, .w (p + len) 8 :: .w a 8 :: r.evs⟩
      else
        let incr := len - sz
        match growScan (p + sz) incr h.flp 0 with
        | .inl fp3 =>
          if fp3.2 + 8 - incr > 16 then
            -- split off a new freelist entry at ptr + len
            some ⟨{ h with flp := setChunk fp3.1 (p + len, fp3.2 - incr) h.flp,
                           live := setChunk a (a, len) h.live }, some p,
              .w (p + len + 8) 8 :: .w (p + len) 8 :: .w a 8 :: nxWrite (predOf fp3.1 none h.flp)⟩
          else
            -- it just fits, use it entirely
            some ⟨{ h with flp := remove fp3.1 h.flp,
                           live := setChunk a (a, sz + (fp3.2 + 8)) h.live }, some p,
              .w a 8 :: nxWrite (predOf fp3.1 none h.flp)⟩
        | .inr s =>
          if h.brk = p + sz ∧ len > s then
            -- topmost chunk: extend the break in place (optional limit)
            if cfg.lim ≠ 0 ∧ p + len > cfg.lim then some ⟨h, none, []⟩
            else some ⟨{ h with brk := p + len, live := setChunk a (a, len) h.live }, some p, [.w a 8]⟩
          else
            -- malloc a new chunk, copy, release the old one
            let r := malloc cfg h len
            match r.ret with
            | none => some ⟨r.h, none, r.evs⟩
            | some memp =>
              match free r.h p with
              | none => none
              | some r2 => some ⟨r2.h, some memp, r.evs ++ .cp memp p sz :: r2.evs⟩

/-- `realloc(ptr, len)`: the request is rounded like in malloc and (after
`fix: realloc() enforces malloc()'s minimum chunk size`) raised to the minimum
chunk size -/
def realloc (cfg : Cfg) (h : Heap) (ptr : Option Nat) (len0 : Nat) : Option Res :=
  reallocCore cfg h ptr (minLen (roundLen cfg.W len0))

/-- the routine as it was before that fix: no minimum, `realloc(p, 0)` can
leave a chunk with `sz = 0` behind -/
def reallocOrig (cfg : Cfg) (h : Heap) (ptr : Option Nat) (len0 : Nat) : Option Res :=
  reallocCore cfg h ptr (roundLen cfg.W len0)

/-! ### histories -/

inductive Op where
  | malloc (n : Nat)
  | free (p : Option Nat)
  | realloc (p : Option Nat) (n : Nat)
  deriving Repr, DecidableEq

/-- one request; `none` = a pointer that is not live was passed to free/realloc -/
def step (cfg : Cfg) (h : Heap) : Op → Option Res
  | .malloc n => some (malloc cfg h n)
  | .free none => some ⟨h, none, []⟩
  | .free (some p) => free h p
  | .realloc p n => realloc cfg h p n

/-- run a history from a heap; `none` as soon as one request is invalid -/
def run (cfg : Cfg) : Heap → List Op → Option Heap
  | h, [] => some h
  | h, op :: ops =>
    match step cfg h op with
    | none => none
    | some r => run cfg r.h ops

/-- run a history and collect all stores in program order -/
def runE (cfg : Cfg) : Heap → List Op → Option (Heap × List Ev)
  | h, [] => some (h, [])
  | h, op :: ops =>
    match step cfg h op with
    | none => none
    | some r =>
      match runE cfg r.h ops with
      | none => none
      | some x => some (x.1, r.evs ++ x.2)

/-! pool histories -/

inductive POp where
  | alloc
  | free (c : Nat)
  deriving Repr, DecidableEq

/-- pool state with the ghost list of cells handed out -/
structure PState where
  pool : Pool
  live : List Nat
  deriving Repr, DecidableEq

/-- `none` = `pool_free` of a cell that is not allocated (outside the property) -/
def pstep (s : PState) : POp → Option (PState × Option Nat)
  | .alloc =>
    match s.pool.alloc with
    | (none, p) => some (⟨p, s.live⟩, none)
    | (some c, p) => some (⟨p, c :: s.live⟩, some c)
  | .free c =>
    if s.live.contains c then some (⟨(s.pool.release c).1, s.live.erase c⟩, none) else none

def prun : PState → List POp → Option PState
  | s, [] => some s
  | s, op :: ops =>
    match pstep s op with
    | none => none
    | some (s', _) => prun s' ops

/-! igris::pool histories -/

inductive IOp where
  | get
  | put (c : Option Nat)
  deriving Repr, DecidableEq

structure IState where
  pool : IPool
  live : List Nat
  deriving Repr, DecidableEq

/-- `none` = `put` of a cell that is not allocated (outside the property) or
an `assert` of `put` fired -/
def istep (s : IState) : IOp → Option (IState × Option Nat)
  | .get =>
    match s.pool.get with
    | (none, p) => some (⟨p, s.live⟩, none)
    | (some c, p) => some (⟨p, c :: s.live⟩, some c)
  | .put none =>
    match s.pool.put none with
    | some (p, _) => some (⟨p, s.live⟩, none)
    | none => none
  | .put (some c) =>
    if s.live.contains c then
      match s.pool.put (some c) with
      | some (p, _) => some (⟨p, s.live.erase c⟩, none)
      | none => none
    else none

def irun : IState → List IOp → Option IState
  | s, [] => some s
  | s, op :: ops =>
    match istep s op with
    | none => none
    | some (s', _) => irun s' ops

/-! static_object_pool histories -/

inductive SOp where
  | create
  | destroy (c : Nat)
  deriving Repr, DecidableEq

/-- `none` = `destroy` of a pointer that does not hold an object (outside the property) -/
def sstep (s : SOP) : SOp → Option (SOP × Option Nat)
  | .create => let x := s.create; some (x.2, x.1)
  | .destroy c => if s.objs.contains c then some (s.destroy c, none) else none

def srun : SOP → List SOp → Option SOP
  | s, [] => some s
  | s, op :: ops =>
    match sstep s op with
    | none => none
    | some (s', _) => srun s' ops

/-! ## `size_t` is 64 bits wide: rounding the request up can wrap

`malloc` / `realloc` above compute with unbounded naturals.  In C the statement
`len += __WORDSIZE - len % __WORDSIZE` wraps around for requests within
`__WORDSIZE` of `SIZE_MAX`.  After
`fix: malloc()/realloc() fail when rounding the request up to __WORDSIZE wraps around`
both routines test for it first and return NULL (`malloc64` / `realloc64`: what
the driver runs).  `mallocOrig64` / `reallocOrig64` are the routines as they
were: the wrapped sum is used as the request. -/

def SIZE_MAX : Nat := 2 ^ 64 - 1

/-- ```
if (len % __WORDSIZE != 0) { pad = __WORDSIZE - len % __WORDSIZE;
                             if (len > SIZE_MAX - pad) { __allocation_counter--; return 0; }
                             len += pad; }
``` -/
def malloc64 (cfg : Cfg) (h : Heap) (len0 : Nat) : Res :=
  if len0 % cfg.W ≠ 0 ∧ len0 > SIZE_MAX - (cfg.W - len0 % cfg.W) then ⟨h, none, []⟩ else malloc cfg h len0

/-- the same test in `realloc`, before anything else: the block is left untouched -/
def realloc64 (cfg : Cfg) (h : Heap) (ptr : Option Nat) (len0 : Nat) : Option Res :=
  if len0 % cfg.W ≠ 0 ∧ len0 > SIZE_MAX - (cfg.W - len0 % cfg.W) then some ⟨h, none, []⟩
  else realloc cfg h ptr len0

/-- before the fix: `len` wraps modulo 2⁶⁴ -/
def mallocOrig64 (cfg : Cfg) (h : Heap) (len0 : Nat) : Res := malloc cfg h (roundLen cfg.W len0 % 2 ^ 64)

def reallocOrig64 (cfg : Cfg) (h : Heap) (ptr : Option Nat) (len0 : Nat) : Option Res :=
  realloc cfg h ptr (roundLen cfg.W len0 % 2 ^ 64)

/-! ## pools fed from several zones

`pool_init` and `pool_engage` are separate calls so that a pool can be fed from
more than one memory zone, at any time (`static_object_pool::freelist()` exists
for the same purpose).  Cells are now addressed by their address in one common
address space; a zone is its base address, its size in bytes and the element
size it was engaged with. -/

/-- `pool_engage(pool, zone, size, elemsz)` with `zone` at address `base`:
```
char *stop = zone + size; char *it = zone;
while (it < stop) { slist_add((slist_head *)it, &pool->free_blocks); it += elemsz; }
```
(`Pool.engage` above is the case `base = 0`.) -/
def Pool.engageAt (p : Pool) (base size elemsz : Nat) : Pool :=
  ⟨engageLoop elemsz (base + size) (size + 1) base p.free⟩

/-- the same on `next` pointers -/
def engageAtP (m : Links) (head base size elemsz : Nat) : Links :=
  engageLoopP elemsz (base + size) head (size + 1) base m

/-- the two `assert`s on the way into `pool_engage` through `igris::pool::init`:
`assert(elsize >= sizeof(struct slist_head))` (`init`, after
`fix: igris::pool::init() asserts that a cell can hold the free-list link`) and
`assert(size % elemsz == 0)` (`pool_engage`).  For the C function `pool_engage` itself
`elemsz >= sizeof(struct slist_head)` is its documented precondition. -/
def engageRefused (size elemsz : Nat) : Bool := elemsz < 8 || size % elemsz != 0

structure Zone where
  base : Nat
  size : Nat
  elemsz : Nat
  deriving Repr, DecidableEq

/-- number of cells `pool_engage` carves out of the zone -/
def Zone.ncells (z : Zone) : Nat := z.size / z.elemsz

/-- the two byte ranges share no byte -/
def Zone.disjoint (z w : Zone) : Bool := z.base + z.size ≤ w.base || w.base + w.size ≤ z.base

/-- total number of cells of the zones engaged so far -/
def capacity : List Zone → Nat
  | [] => 0
  | z :: zs => z.ncells + capacity zs

inductive MOp where
  | engage (base size elemsz : Nat)
  | alloc
  | free (c : Nat)
  deriving Repr, DecidableEq

/-- pool state with the ghost list of cells handed out and the ghost list of
zones engaged so far (most recent first) -/
structure MState where
  pool : Pool
  live : List Nat
  zones : List Zone
  deriving Repr, DecidableEq

def MState.init : MState := ⟨Pool.init, [], []⟩

/-- `none` = outside the property: `pool_engage` refuses the zone (`engageRefused`: its two
`assert`s), a zone that overlaps a zone engaged before
(the same memory handed to the pool twice), `pool_free` of a cell that is not
allocated -/
def mstep (s : MState) : MOp → Option (MState × Option Nat)
  | .engage b sz e =>
    if engageRefused sz e then none
    else if s.zones.all (Zone.disjoint ⟨b, sz, e⟩) then
      some (⟨s.pool.engageAt b sz e, s.live, ⟨b, sz, e⟩ :: s.zones⟩, none)
    else none
  | .alloc =>
    match s.pool.alloc with
    | (none, p) => some (⟨p, s.live, s.zones⟩, none)
    | (some c, p) => some (⟨p, c :: s.live, s.zones⟩, some c)
  | .free c =>
    if s.live.contains c then some (⟨(s.pool.release c).1, s.live.erase c, s.zones⟩, none) else none

def mrun : MState → List MOp → Option MState
  | s, [] => some s
  | s, op :: ops =>
    match mstep s op with
    | none => none
    | some (s', _) => mrun s' ops

/-- the stores a request performs into the zones (program order): `pool_engage`
writes one link per cell of the new zone, `pool_free` one link into the freed
cell, `pool_alloc` none (it only rewrites `head->next`) -/
def mstepEvs (s : MState) : MOp → List Ev
  | .engage b sz e => engageEvs e (b + sz) (sz + 1) b
  | .alloc => []
  | .free c => (s.pool.release c).2

/-- run a multi-zone history and collect all stores in program order -/
def mrunE : MState → List MOp → Option (MState × List Ev)
  | s, [] => some (s, [])
  | s, op :: ops =>
    match mstep s op with
    | none => none
    | some (s', _) =>
      match mrunE s' ops with
      | none => none
      | some x => some (x.1, mstepEvs s op ++ x.2)

/-- the same requests executed on the `next` pointers (`head` = address of
`pool->free_blocks`); returns the new link memory and the pointer returned -/
def mstepP (m : Links) (head : Nat) : MOp → Links × Option Nat
  | .engage b sz e => (engageAtP m head b sz e, none)
  | .alloc => let x := poolAllocP m head; (x.2, x.1)
  | .free c => (slistAdd m c head, none)

def mrunP (head : Nat) : Links → List MOp → Links
  | m, [] => m
  | m, op :: ops => mrunP head (mstepP m head op).1 ops

/-! ### a default-constructed `igris::pool` (`pool() = default`, never `init`-ed)

The member initialisers give `head = POOL_HEAD_INIT(head)` (empty list),
`_zone = nullptr`, `_size = _elemsz = 0`, `_count = 0`.  After
`fix: igris::pool::size() of a pool without a zone is 0` the routine reads
`return _elemsz ? _size / _elemsz : 0;` — which is what `IPool.cells` computes
(`x / 0 = 0` on `Nat`).  The routine as it was divided by `_elemsz`
unconditionally: a trap (SIGFPE) in `size()`, hence in `cell_is_allocated()`,
`begin()` and `++it`. -/

def IPool.default : IPool := ⟨Pool.init, 0, 0, 0⟩

/-- `size()` as it was before the fix: `none` = division by zero (trap) -/
def IPool.cellsOrig (p : IPool) : Option Nat := if p.elemsz = 0 then none else some (p.size / p.elemsz)

/-! ### static_object_pool with its construction / destruction ledger and
zones added through `freelist()` -/

structure SOPx where
  sop : SOP
  /-- ghost: the pool's own storage and the zones engaged through `freelist()` -/
  zones : List Zone
  /-- ghost: every run of `T`'s constructor (the cell it ran on), most recent first -/
  ctor : List Nat
  /-- ghost: every run of `T`'s destructor -/
  dtor : List Nat
  deriving Repr, DecidableEq

def SOPx.init (sizeofT alignofT cap : Nat) : SOPx :=
  let s := storageSize sizeofT alignofT
  ⟨SOP.init sizeofT alignofT cap, [⟨0, cap * s, s⟩], [], []⟩

inductive SXOp where
  | create
  | destroy (c : Nat)
  /-- `pool_engage(p.freelist(), zone, ncells * sizeof(storage_type), sizeof(storage_type))` -/
  | engage (base ncells : Nat)
  deriving Repr, DecidableEq

/-- `create`: the constructor runs exactly when `pool_alloc` returned a cell, on
that cell; `destroy(obj)`: the destructor runs on `obj`, then `pool_free`.
`none` = outside the property (destroy of a pointer that holds no object, an
overlapping extra zone). `s` = `sizeof(storage_type)`. -/
def sxstep (s : Nat) (p : SOPx) : SXOp → Option (SOPx × Option Nat)
  | .create =>
    let x := p.sop.create
    match x.1 with
    | none => some ({ p with sop := x.2 }, none)
    | some c => some ({ p with sop := x.2, ctor := c :: p.ctor }, some c)
  | .destroy c =>
    if p.sop.objs.contains c then some ({ p with sop := p.sop.destroy c, dtor := c :: p.dtor }, none) else none
  | .engage b n =>
    if engageRefused (n * s) s then none
    else if p.zones.all (Zone.disjoint ⟨b, n * s, s⟩) then
      some ({ p with sop := { p.sop with head := p.sop.head.engageAt b (n * s) s }, zones := ⟨b, n * s, s⟩ :: p.zones }, none)
    else none

def sxrun (s : Nat) : SOPx → List SXOp → Option SOPx
  | p, [] => some p
  | p, op :: ops =>
    match sxstep s p op with
    | none => none
    | some (p', _) => sxrun s p' ops


/-! ## 64-bit ADDRESSES: the arena sits at address `base`, pointers wrap modulo 2⁶⁴

Everything above computes with offsets from `__malloc_heap_start`.  The C code
computes with 64-bit pointers: `__brkval += len + sizeof(size_t)` (malloc, step 3),
`cp = (char *)ptr + len; if (cp < cp1) return 0;` (realloc).  `base` = the address of
`__malloc_heap_start`; the address of offset `x` is `(base + x) mod 2⁶⁴`.
After `fix: malloc() refuses a request that would move the break across the top of
the address space` step 3 reads
```
if (__malloc_heap_end != 0) { … }
else if (len > SIZE_MAX - sizeof(size_t) || len + sizeof(size_t) > SIZE_MAX - (size_t)__brkval) return 0;
``` -/

/-- malloc reaches step 3 (no exact fit, no larger chunk on the free list) -/
def reachesStep3 (cfg : Cfg) (h : Heap) (len0 : Nat) : Bool :=
  match scan (minLen (roundLen cfg.W len0)) h.flp 0 0 with
  | .inl _ => false
  | .inr (s, _) => s == 0

/-- `len > SIZE_MAX - sizeof(size_t) || len + sizeof(size_t) > SIZE_MAX - (size_t)__brkval`
(all in `size_t`; `__brkval` = `base + brk`, which is `__malloc_heap_start` when `__brkval` was still 0) -/
def brkWraps (base : Nat) (h : Heap) (len : Nat) : Bool :=
  len > SIZE_MAX - 8 || len + 8 > SIZE_MAX - (base + h.brk)

/-- the request is refused by that test -/
def mallocRefusesA (base : Nat) (cfg : Cfg) (h : Heap) (len0 : Nat) : Bool :=
  cfg.lim == 0 && reachesStep3 cfg h len0 && brkWraps base h (minLen (roundLen cfg.W len0))

/-- `malloc` with 64-bit sizes and 64-bit addresses (what the driver runs) -/
def mallocA (base : Nat) (cfg : Cfg) (h : Heap) (len0 : Nat) : Res :=
  if len0 % cfg.W ≠ 0 ∧ len0 > SIZE_MAX - (cfg.W - len0 % cfg.W) then ⟨h, none, []⟩
  else if mallocRefusesA base cfg h len0 then ⟨h, none, []⟩
  else malloc cfg h len0

/-- malloc as it was before that fix: `fp1 = __brkval; __brkval += len + sizeof(size_t)` on a
64-bit pointer, no test.  The new break is kept as an offset from `base` modulo 2⁶⁴. -/
def mallocOrigA (base : Nat) (cfg : Cfg) (h : Heap) (len0 : Nat) : Res :=
  if cfg.lim = 0 ∧ reachesStep3 cfg h len0 = true then
    let len := minLen (roundLen cfg.W len0)
    let newBrkAddr := (base + h.brk + (len + 8) % 2 ^ 64) % 2 ^ 64
    ⟨{ h with brk := (newBrkAddr + 2 ^ 64 - base) % 2 ^ 64, live := (h.brk, len) :: h.live },
      some (h.brk + 8), [.w h.brk 8]⟩
  else malloc cfg h len0

/-- realloc's wrap test on 64-bit pointers: `cp = (char *)ptr + len; if (cp < cp1) return 0;`
with `cp1 = ptr - sizeof(size_t)` -/
def reallocWrapTest (base p len : Nat) : Bool :=
  (base + p + len) % 2 ^ 64 < base + p - 8

/-- the request reaches the `malloc(len)` call at the end of realloc (the block has to move) -/
def reachesMove (cfg : Cfg) (h : Heap) (p len : Nat) : Bool :=
  match lookup (p - 8) h.live with
  | none => false
  | some sz =>
    if len ≤ sz then false
    else match growScan (p + sz) (len - sz) h.flp 0 with
      | .inl _ => false
      | .inr s => !(h.brk == p + sz && len > s)

/-- `realloc` with 64-bit sizes and 64-bit addresses (what the driver runs): the rounding test,
the pointer wrap test, and `malloc`'s refusal on the move path; otherwise the routine above -/
def reallocA (base : Nat) (cfg : Cfg) (h : Heap) (ptr : Option Nat) (len0 : Nat) : Option Res :=
  if len0 % cfg.W ≠ 0 ∧ len0 > SIZE_MAX - (cfg.W - len0 % cfg.W) then some ⟨h, none, []⟩
  else
    let len := minLen (roundLen cfg.W len0)
    match ptr with
    | none => some (mallocA base cfg h len)
    | some p =>
      if reallocWrapTest base p len then some ⟨h, none, []⟩
      else if reachesMove cfg h p len && mallocRefusesA base cfg h len then some ⟨h, none, []⟩
      else realloc cfg h (some p) len0

def stepA (base : Nat) (cfg : Cfg) (h : Heap) : Op → Option Res
  | .malloc n => some (mallocA base cfg h n)
  | .free none => some ⟨h, none, []⟩
  | .free (some p) => free h p
  | .realloc p n => reallocA base cfg h p n

def runA (base : Nat) (cfg : Cfg) : Heap → List Op → Option Heap
  | h, [] => some h
  | h, op :: ops =>
    match stepA base cfg h op with
    | none => none
    | some r => runA base cfg r.h ops

/-! ## pool zones the precondition of `pool_engage` excludes (what the loop does there) -/

/-- `pool_engage` of a zone that OVERLAPS cells already engaged: nothing in the code notices -/
def engageTwice (size elemsz : Nat) : Pool := (Pool.init.engage size elemsz).engageAt 0 size elemsz


/-! ## the first statement of malloc / free / realloc: `if (critical_context_level() > 0) abort();` -/

/-- a request made at critical-context level `lvl`: `none` = `abort()`, otherwise the request -/
def stepCtx (lvl : Nat) (base : Nat) (cfg : Cfg) (h : Heap) (op : Op) : Option (Option Res) :=
  match op with
  | .free none => some (some ⟨h, none, []⟩)          -- `if (p == 0) return;` comes first in free
  | _ => if lvl > 0 then none else some (stepA base cfg h op)

/-- `void *cell(int i) { return (char *)_zone + _elemsz * i; }` (offset from the zone);
`unlinked_iterator::operator*` = `cell(_num)` -/
def IPool.cell (p : IPool) (i : Nat) : Nat := p.elemsz * i

/-! ## a concrete byte memory (round 3b: moved here from the lemma files so that the DRIVER runs it)

`Mem` is the specification vocabulary of the content theorems; `execJ` executes the stores of a
request on it.  The harness fills every block it owns with `pat seed i`; after a `realloc` the
driver executes the model's events on the old block's bytes and prints `prefixDigest` of the first
`min(old, new)` bytes of the RETURNED block, the harness prints the same digest of the real bytes. -/

/-- contents of the arena: byte offset ↦ value -/
abbrev Mem := Nat → Nat

/-- the stores executed on a concrete byte memory: `memcpy` copies byte by byte (source read
before the call), an allocator store of a header word writes bytes `junk x` (whatever the
word's bytes are: the theorems hold for every `junk`) -/
def execJ (junk : Nat → Nat) : Mem → List Ev → Mem
  | m, [] => m
  | m, .w a n :: es => execJ junk (fun x => if a ≤ x ∧ x < a + n then junk x else m x) es
  | m, .cp d s n :: es => execJ junk (fun x => if d ≤ x ∧ x < d + n then m (s + (x - d)) else m x) es

/-- the harness' fill pattern: byte `i` of a block filled with seed `seed` -/
def pat (seed i : Nat) : Nat := (seed * 0x9E37 + i * 131) % 251 + 1

/-- a memory that holds the pattern `seed` in `[p, p + n)` and `other` everywhere else -/
def patMem (p n seed other : Nat) : Mem := fun x => if p ≤ x ∧ x < p + n then pat seed (x - p) else other

/-- digest of the `k` bytes `m (a + i) … ` (`i` counts up from the start value): `d ↦ (31 d + byte) mod 2³²` -/
def digestFrom (m : Mem) (a : Nat) : Nat → Nat → Nat → Nat
  | 0, _, acc => acc
  | k + 1, i, acc => digestFrom m a k (i + 1) ((acc * 31 + m (a + i)) % 2 ^ 32)

def prefixDigest (m : Mem) (a k : Nat) : Nat := digestFrom m a k 0 0

end Igris.C10
