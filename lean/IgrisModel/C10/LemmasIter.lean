/-
  C10 — `igris::pool::unlinked_iterator` (igris/container/pool.h).

  `next()` is the do/while `do ++_num; while (_num < size() && !cell_is_allocated(_num))`,
  `begin()` = `{this, -1}.next()`, `end()` = `{this, -1}`.  The model gives the
  loop `cells + 1` units of fuel; the theorems below show that the fuel is never
  exhausted, that `next()` finds the smallest allocated cell above `_num`
  (`-1` when there is none) and that the range-for visits exactly the allocated
  cells, each once, in ascending order.
-/
import IgrisModel.C10.Lemmas
namespace Igris.C10

/-! ### `next()` in terms of `cell_is_allocated` -/

/-- the do/while with enough fuel: it stops at the first index above `num` that
is allocated or not below `size()` -/
theorem iterNextLoop_spec (p : IPool) : ∀ (fuel : Nat) (num : Int),
    1 ≤ fuel → (p.cells : Int) ≤ num + fuel →
    num < p.iterNextLoop fuel num ∧
    (∀ k, num < k → k < p.iterNextLoop fuel num → p.cellIsAllocated k = false) ∧
    (p.iterNextLoop fuel num < (p.cells : Int) →
      p.cellIsAllocated (p.iterNextLoop fuel num) = true) := by
  intro fuel
  induction fuel with
  | zero => intro num h; omega
  | succ fuel ih =>
    intro num _ hf
    simp only [IPool.iterNextLoop]
    by_cases hc : num + 1 < (p.cells : Int) ∧ (!(p.cellIsAllocated (num + 1))) = true
    · rw [if_pos hc]
      obtain ⟨h1, h2, h3⟩ := ih (num + 1) (by omega) (by omega)
      refine ⟨by omega, ?_, h3⟩
      intro k hk1 hk2
      by_cases hk : k = num + 1
      · subst hk; simpa using hc.2
      · exact h2 k (by omega) hk2
    · rw [if_neg hc]
      refine ⟨by omega, fun k _ _ => by omega, ?_⟩
      intro hlt
      cases hA : p.cellIsAllocated (num + 1) with
      | true => rfl
      | false => exact absurd ⟨hlt, by simp [hA]⟩ hc

/-- `next()` with the fuel of the model (`cells + 1`) -/
theorem iterNext_raw (p : IPool) (num : Int) (h : -1 ≤ num) :
    (p.iterNext num = -1 ∧ ∀ j, num < j → j < (p.cells : Int) → p.cellIsAllocated j = false) ∨
    (∃ j, p.iterNext num = j ∧ num < j ∧ j < (p.cells : Int) ∧ p.cellIsAllocated j = true ∧
      ∀ k, num < k → k < j → p.cellIsAllocated k = false) := by
  obtain ⟨h1, h2, h3⟩ := iterNextLoop_spec p (p.cells + 1) num (by omega) (by omega)
  simp only [IPool.iterNext]
  by_cases hlt : p.iterNextLoop (p.cells + 1) num < (p.cells : Int)
  · rw [if_pos hlt]; right; exact ⟨_, rfl, h1, hlt, h3 hlt, h2⟩
  · rw [if_neg hlt]; left; exact ⟨rfl, fun j hj1 hj2 => h2 j hj1 (by omega)⟩

/-! ### filtered ranges -/

theorem filter_range'_first (P : Nat → Bool) (L : Nat) : ∀ (d m j : Nat), j = m + d → j < L →
    (∀ k, m ≤ k → k < j → P k = false) → P j = true →
    (List.range' m (L - m)).filter P = j :: (List.range' (j + 1) (L - (j + 1))).filter P := by
  intro d
  induction d with
  | zero =>
    intro m j hj hL _ hP
    have : j = m := by omega
    subst this
    have h3 : L - j = (L - (j + 1)) + 1 := by omega
    rw [h3, List.range'_succ, List.filter_cons_of_pos hP]
  | succ d ih =>
    intro m j hj hL hall hP
    have h3 : L - m = (L - (m + 1)) + 1 := by omega
    have hm : ¬ P m = true := by rw [hall m (by omega) (by omega)]; decide
    rw [h3, List.range'_succ, List.filter_cons_of_neg hm]
    exact ih (m + 1) j (by omega) hL (fun k hk1 hk2 => hall k (by omega) hk2) hP

theorem filter_range'_none (P : Nat → Bool) (L m : Nat) (hall : ∀ k, m ≤ k → k < L → P k = false) :
    (List.range' m (L - m)).filter P = [] := by
  rw [List.filter_eq_nil_iff]
  intro a ha
  rw [List.mem_range'_1] at ha
  rw [hall a ha.1 (by omega)]; decide

/-! ### the range-for in terms of `cell_is_allocated` -/

/-- the allocated cells with index `≥ m`, ascending -/
def allocFrom (p : IPool) (m : Nat) : List Int :=
  ((List.range' m (p.cells - m)).filter (fun i : Nat => p.cellIsAllocated (i : Int))).map
    (fun i : Nat => (i : Int))

theorem iterAllLoop_nil (p : IPool) (fuel : Nat) : p.iterAllLoop fuel (-1) = [] := by
  cases fuel <;> simp [IPool.iterAllLoop]

theorem iterAllLoop_spec (p : IPool) : ∀ (fuel : Nat) (num : Int), -1 ≤ num →
    (p.cells : Int) ≤ num + 1 + fuel →
    p.iterAllLoop fuel (p.iterNext num) = allocFrom p (num + 1).toNat := by
  intro fuel
  induction fuel with
  | zero =>
    intro num hn hf
    rcases iterNext_raw p num hn with ⟨hj, hnone⟩ | ⟨j, hj, h1, h2, h3, h4⟩
    · rw [hj, iterAllLoop_nil]
      unfold allocFrom
      rw [filter_range'_none _ _ _ (fun k hk1 hk2 => hnone k (by omega) (by omega))]; rfl
    · omega
  | succ fuel ih =>
    intro num hn hf
    rcases iterNext_raw p num hn with ⟨hj, hnone⟩ | ⟨j, hj, h1, h2, h3, h4⟩
    · rw [hj, iterAllLoop_nil]
      unfold allocFrom
      rw [filter_range'_none _ _ _ (fun k hk1 hk2 => hnone k (by omega) (by omega))]; rfl
    · rw [hj]
      simp only [IPool.iterAllLoop]
      rw [if_neg (by omega), ih j (by omega) (by omega)]
      unfold allocFrom
      have hjj : ((j.toNat : Nat) : Int) = j := Int.toNat_of_nonneg (by omega)
      rw [filter_range'_first (fun i : Nat => p.cellIsAllocated (i : Int)) p.cells
        (j.toNat - (num + 1).toNat) (num + 1).toNat j.toNat (by omega) (by omega)
        (fun k hk1 hk2 => h4 k (by omega) (by omega)) (by simpa only [hjj] using h3)]
      have hj1 : (j + 1).toNat = j.toNat + 1 := by omega
      rw [List.map_cons, hjj, hj1]

theorem iterAll_raw (p : IPool) :
    p.iterAll = ((List.range p.cells).filter (fun i : Nat => p.cellIsAllocated (i : Int))).map
      (fun i : Nat => (i : Int)) := by
  unfold IPool.iterAll
  rw [iterAllLoop_spec p (p.cells + 1) (-1) (by omega) (by omega)]
  simp [allocFrom, List.range_eq_range']

/-! ### histories of `igris::pool` -/

theorem IInv.cells_eq {e n : Nat} {s : IState} (he : 0 < e) (hi : IInv e n s) : s.pool.cells = n := by
  obtain ⟨_, _, hsz, hel⟩ := hi
  simp [IPool.cells, hsz, hel, Nat.mul_div_cancel n he]

/-- `cell_is_allocated(i)` ⇔ cell `i` exists and is handed out -/
theorem IInv.cellIsAllocated_iff {e n : Nat} {s : IState} (he : 0 < e) (hi : IInv e n s) (i : Int) :
    s.pool.cellIsAllocated i = true ↔ 0 ≤ i ∧ i < n ∧ i.toNat * e ∈ s.live := by
  have hcells := hi.cells_eq he
  obtain ⟨hp, _, hsz, hel⟩ := hi
  have hf := PInv.facts he hp
  simp only [IPool.cellIsAllocated, hcells, hel]
  split
  · rename_i h; constructor
    · intro h'; cases h'
    · intro ⟨h1, h2, _⟩; omega
  · rename_i h
    have hi0 : 0 ≤ i := by omega
    have hin : i.toNat < n := by omega
    have hmem : i.toNat * e ∈ s.pool.head.free ++ s.live := hp.mem_iff.2 (mem_cells.2 ⟨_, hin, rfl⟩)
    simp only [Pool.inFreelist, Bool.not_eq_true', List.contains_eq_mem, decide_eq_false_iff_not]
    constructor
    · intro hnf
      refine ⟨hi0, by omega, ?_⟩
      rcases List.mem_append.1 hmem with h' | h'
      · exact absurd h' hnf
      · exact h'
    · intro ⟨_, _, hl⟩; exact hf.2.2.1 _ hl

theorem IInv.cellIsAllocated_false {e n : Nat} {s : IState} (he : 0 < e) (hi : IInv e n s) (i : Int)
    (h0 : 0 ≤ i) (hn : i < n) : s.pool.cellIsAllocated i = false ↔ i.toNat * e ∉ s.live := by
  have := hi.cellIsAllocated_iff he i
  constructor
  · intro hf hl
    rw [this.2 ⟨h0, hn, hl⟩] at hf; cases hf
  · intro hl
    cases hA : s.pool.cellIsAllocated i with
    | false => rfl
    | true => exact absurd (this.1 hA).2.2 hl

/-- `unlinked_iterator{pool, num}.next()`: the smallest allocated cell above
`num`, `-1` (= `end()`) when there is none; the do/while stops within the fuel
the model gives it -/
theorem ipool_iterNext_spec (e n : Nat) (he : 0 < e) (ops : List IOp) (s : IState)
    (hr : irun ⟨IPool.init (n * e) e, []⟩ ops = some s) (num : Int) (hnum : -1 ≤ num) :
    (s.pool.iterNext num = -1 ∧ ∀ j : Int, num < j → j < n → j.toNat * e ∉ s.live) ∨
    (∃ j : Int, s.pool.iterNext num = j ∧ num < j ∧ j < n ∧ j.toNat * e ∈ s.live ∧
      ∀ k : Int, num < k → k < j → k.toNat * e ∉ s.live) := by
  have hi := irun_inv he (IInv.init e n he) hr
  have hcells := hi.cells_eq he
  rcases iterNext_raw s.pool num hnum with ⟨hj, hnone⟩ | ⟨j, hj, h1, h2, h3, h4⟩
  · left
    refine ⟨hj, fun j hj1 hj2 => ?_⟩
    exact (hi.cellIsAllocated_false he j (by omega) hj2).1 (hnone j hj1 (by omega))
  · right
    rw [hcells] at h2
    refine ⟨j, hj, h1, h2, ((hi.cellIsAllocated_iff he j).1 h3).2.2, fun k hk1 hk2 => ?_⟩
    exact (hi.cellIsAllocated_false he k (by omega) (by omega)).1 (h4 k hk1 hk2)

/-- `for (it = begin(); it != end(); ++it)` visits exactly the allocated cells,
each once, in ascending cell order -/
theorem ipool_iterAll_eq (e n : Nat) (he : 0 < e) (ops : List IOp) (s : IState)
    (hr : irun ⟨IPool.init (n * e) e, []⟩ ops = some s) :
    s.pool.iterAll =
      ((List.range n).filter (fun i : Nat => decide (i * e ∈ s.live))).map (fun i : Nat => (i : Int)) := by
  have hi := irun_inv he (IInv.init e n he) hr
  have hcells := hi.cells_eq he
  rw [iterAll_raw, hcells]
  congr 1
  apply List.filter_congr
  intro i hi'
  rw [List.mem_range] at hi'
  have := hi.cellIsAllocated_iff he (i : Int)
  simp only [Int.toNat_natCast] at this
  cases hA : s.pool.cellIsAllocated (i : Int) with
  | true => exact (decide_eq_true (this.1 hA).2.2).symm
  | false =>
    symm; apply decide_eq_false
    intro hl
    rw [this.2 ⟨by omega, by omega, hl⟩] at hA; cases hA

/-- the live cells are the images of the visited indices -/
theorem live_perm_filter {e n : Nat} {s : PState} (he : 0 < e) (hi : PInv e n s) :
    (((List.range n).filter (fun i : Nat => decide (i * e ∈ s.live))).map (· * e)).Perm s.live := by
  have hf := PInv.facts he hi
  apply (List.perm_ext_iff_of_nodup ?_ hf.1).2
  · intro c
    simp only [List.mem_map, List.mem_filter, List.mem_range, decide_eq_true_eq]
    constructor
    · rintro ⟨i, ⟨_, hl⟩, rfl⟩; exact hl
    · intro hc
      obtain ⟨i, hin, rfl⟩ := hf.2.2.2.1 c (Or.inl hc)
      exact ⟨i, ⟨hin, hc⟩, rfl⟩
  · rw [List.Nodup, List.pairwise_map]
    have : ((List.range n).filter (fun i : Nat => decide (i * e ∈ s.live))).Nodup :=
      (List.nodup_range (n := n)).sublist List.filter_sublist
    exact this.imp (fun {a b} hab h => hab (Nat.eq_of_mul_eq_mul_right he h))

/-- the range-for visits as many cells as are handed out -/
theorem ipool_iterAll_length (e n : Nat) (he : 0 < e) (ops : List IOp) (s : IState)
    (hr : irun ⟨IPool.init (n * e) e, []⟩ ops = some s) :
    s.pool.iterAll.length = s.live.length := by
  rw [ipool_iterAll_eq e n he ops s hr, List.length_map]
  have hi := irun_inv he (IInv.init e n he) hr
  have := (live_perm_filter (s := ⟨s.pool.head, s.live⟩) he hi.1).length_eq
  simpa using this

/-- `*it` = `cell(i)` of a visited index is a live cell of the zone -/
theorem ipool_iter_cell_in_zone (e n : Nat) (he : 0 < e) (ops : List IOp) (s : IState)
    (hr : irun ⟨IPool.init (n * e) e, []⟩ ops = some s) (i : Int) (hi : i ∈ s.pool.iterAll) :
    0 ≤ i ∧ i < n ∧ i.toNat * e ∈ s.live := by
  rw [ipool_iterAll_eq e n he ops s hr] at hi
  simp only [List.mem_map, List.mem_filter, List.mem_range, decide_eq_true_eq] at hi
  obtain ⟨k, ⟨hk, hl⟩, rfl⟩ := hi
  exact ⟨by omega, by omega, by simpa using hl⟩

/-- the visited indices are strictly ascending (hence distinct) -/
theorem ipool_iterAll_sorted (e n : Nat) (he : 0 < e) (ops : List IOp) (s : IState)
    (hr : irun ⟨IPool.init (n * e) e, []⟩ ops = some s) :
    s.pool.iterAll.Pairwise (· < ·) := by
  rw [ipool_iterAll_eq e n he ops s hr, List.pairwise_map]
  have : ((List.range n).filter (fun i : Nat => decide (i * e ∈ s.live))).Pairwise (· < ·) :=
    (List.pairwise_lt_range (n := n)).sublist List.filter_sublist
  exact this.imp (fun {a b} hab => by omega)

/-- every allocated cell is visited -/
theorem ipool_iter_visits_all (e n : Nat) (he : 0 < e) (ops : List IOp) (s : IState)
    (hr : irun ⟨IPool.init (n * e) e, []⟩ ops = some s) (c : Nat) (hc : c ∈ s.live) :
    ∃ i : Int, i ∈ s.pool.iterAll ∧ c = i.toNat * e := by
  have hi := irun_inv he (IInv.init e n he) hr
  obtain ⟨k, hk, rfl⟩ := (PInv.facts he hi.1).2.2.2.1 c (Or.inl hc)
  refine ⟨(k : Int), ?_, by simp⟩
  rw [ipool_iterAll_eq e n he ops s hr]
  simp only [List.mem_map, List.mem_filter, List.mem_range, decide_eq_true_eq]
  exact ⟨k, ⟨hk, hc⟩, rfl⟩

/-- a cell given back by `put` is handed out by the very next `get` -/
theorem ipool_put_then_get_returns_it (s s1 : IState) (c : Nat) (r : Option Nat)
    (hp : istep s (.put (some c)) = some (s1, r)) : ∃ s2, istep s1 .get = some (s2, some c) := by
  simp only [istep] at hp
  split at hp
  · simp only [IPool.put, Pool.release] at hp
    by_cases hcs : c < s.pool.size
    · rw [if_pos hcs] at hp; simp only at hp; cases hp
      exact ⟨_, rfl⟩
    · rw [if_neg hcs] at hp; cases hp
  · cases hp

/-! ### the statements are not vacuous -/

example : ∃ s, irun ⟨IPool.init 48 16, []⟩ [.get, .get, .get, .put (some 16)] = some s ∧
    s.pool.iterAll = [0, 2] ∧ s.pool.iterNext (-1) = 0 ∧ s.pool.iterNext 0 = 2 ∧
    s.pool.iterNext 2 = -1 := ⟨_, rfl, by decide⟩
example : (IPool.init 48 16).iterAll = [] := by decide
example : ∃ s, irun ⟨IPool.init 48 16, []⟩ [.get, .get, .get] = some s ∧
    s.pool.iterAll = [0, 1, 2] := ⟨_, rfl, by decide⟩
example : ∃ s s2, irun ⟨IPool.init 48 16, []⟩ [.get, .get, .put (some 32)] = some s ∧
    istep s .get = some (s2, some 32) := ⟨_, _, rfl, rfl⟩

end Igris.C10
