/-
  C10 — lemmas for the 64-bit ADDRESS level of the heap (`mallocA`, `reallocA`,
  `mallocOrigA`, `reallocWrapTest`; Model.lean, last section) and for the pool
  zones outside `pool_engage`'s precondition.
-/
import IgrisModel.C10.Lemmas
import IgrisModel.C10.LemmasZones
namespace Igris.C10

theorem SIZE_MAX_eq : SIZE_MAX = 18446744073709551615 := by decide

/-- the C test `len > SIZE_MAX - 8 || len + 8 > SIZE_MAX - brkaddr` says: the new
chunk (header + payload) does not fit below the top of the address space -/
theorem brkWraps_iff (base : Nat) (h : Heap) (len : Nat) (hb : base + h.brk ≤ SIZE_MAX) :
    brkWraps base h len = true ↔ SIZE_MAX < base + h.brk + (len + 8) := by
  simp only [brkWraps, Bool.or_eq_true, decide_eq_true_eq]
  rw [SIZE_MAX_eq] at *
  omega

/-- the break after malloc: unchanged, or step 3 moved it by the chunk size -/
theorem malloc_brk (cfg : Cfg) (h : Heap) (n : Nat) :
    (malloc cfg h n).h.brk = h.brk ∨
    (reachesStep3 cfg h n = true ∧ (malloc cfg h n).h.brk = h.brk + (minLen (roundLen cfg.W n) + 8)) := by
  unfold malloc reachesStep3
  simp only
  split
  · left; rfl
  · rename_i s sfp1 hsc
    split
    · split <;> (left; rfl)
    · rename_i hs0
      have hs : s = 0 := by simpa using hs0
      split
      · left; rfl
      · right; subst hs; exact ⟨by simp, rfl⟩

theorem lowerBrk_le (brk : Nat) (l : List Chunk) : (lowerBrk brk l).2 ≤ brk := by
  induction l with
  | nil => simp [lowerBrk]
  | cons f r ih =>
    cases r with
    | nil => simp only [lowerBrk]; split <;> simp <;> omega
    | cons g r => simpa [lowerBrk] using ih

/-- free never raises the break -/
theorem free_brk_le {h : Heap} {p : Nat} {r : Res} (hr : free h p = some r) : r.h.brk ≤ h.brk := by
  unfold free at hr
  split at hr
  · cases hr
  · simp only at hr
    split at hr
    · cases hr
    · rename_i sz hl
      split at hr
      · split at hr
        · rename_i hb
          simp only [Option.some.injEq] at hr; subst hr; simp only; omega
        · simp only [Option.some.injEq] at hr; subst hr; exact Nat.le_refl _
      · split at hr
        · simp only [Option.some.injEq] at hr; subst hr; exact lowerBrk_le _ _
        · simp only [Option.some.injEq] at hr; subst hr; exact Nat.le_refl _

/-- realloc's pointer comparison `cp < cp1` is exactly "ptr + len does not fit 64 bits"
(for a payload pointer `p ≥ 8` and a rounded request below `2⁶⁴ − 8`) -/
theorem reallocWrapTest_iff (base p len : Nat) (hb : base + p ≤ SIZE_MAX) (h8 : 8 ≤ p) (hl : len < 2 ^ 64 - 8) :
    reallocWrapTest base p len = true ↔ SIZE_MAX < base + p + len := by
  simp only [reallocWrapTest, decide_eq_true_eq]
  rw [SIZE_MAX_eq] at *
  have : (2 : Nat) ^ 64 = 18446744073709551616 := by decide
  rw [this] at *
  omega

/-- the break after realloc: not raised, or raised in place to `p + len`, or the break malloc left on the move path -/
theorem realloc_brk (cfg : Cfg) (h : Heap) (p n : Nat) (r : Res) (hr : realloc cfg h (some p) n = some r) :
    r.h.brk ≤ h.brk ∨ r.h.brk = p + minLen (roundLen cfg.W n) ∨
    (reachesMove cfg h p (minLen (roundLen cfg.W n)) = true ∧
      r.h.brk ≤ (malloc cfg h (minLen (roundLen cfg.W n))).h.brk) := by
  unfold realloc reallocCore at hr
  unfold reachesMove
  simp only at hr
  generalize minLen (roundLen cfg.W n) = len at *
  split at hr
  · cases hr
  · split at hr
    · cases hr
    · rename_i sz hl
      skip
      split at hr
      · rename_i hle
        split at hr
        · simp only [Option.some.injEq] at hr; subst hr; left; exact Nat.le_refl _
        · split at hr
          · cases hr
          · rename_i r2 hf
            simp only [Option.some.injEq] at hr; subst hr
            left; exact (free_brk_le hf : r2.h.brk ≤ _)
      · rename_i hgt
        rw [if_neg hgt]
        split at hr
        · rename_i fp3 hg
          split at hr <;> (simp only [Option.some.injEq] at hr; subst hr; left; exact Nat.le_refl _)
        · rename_i s hg
          skip
          split at hr
          · split at hr
            · simp only [Option.some.injEq] at hr; subst hr; left; exact Nat.le_refl _
            · simp only [Option.some.injEq] at hr; subst hr; right; left; rfl
          · rename_i hnt
            right; right
            refine ⟨by
              simp only [Bool.not_eq_true', Bool.and_eq_false_iff, beq_eq_false_iff_ne, decide_eq_false_iff_not]
              by_cases hb : h.brk = p + sz
              · right; have := (not_and.1 hnt) hb; omega
              · left; exact hb, ?_⟩
            split at hr
            · simp only [Option.some.injEq] at hr; subst hr; exact Nat.le_refl _
            · split at hr
              · cases hr
              · rename_i r2 hf
                simp only [Option.some.injEq] at hr; subst hr
                exact (free_brk_le hf : r2.h.brk ≤ _)

/-- invariant of the address-level histories -/
structure AInv (base : Nat) (cfg : Cfg) (h : Heap) : Prop where
  inv : HInv cfg h
  top : base + h.brk ≤ SIZE_MAX

theorem malloc_not_refused_top (base : Nat) (cfg : Cfg) (ok : CfgOK cfg) (h : Heap) (n : Nat)
    (hi : AInv base cfg h) (hlim : cfg.lim ≠ 0 → base + cfg.lim ≤ SIZE_MAX)
    (hnr : mallocRefusesA base cfg h n = false) : base + (malloc cfg h n).h.brk ≤ SIZE_MAX := by
  have hi' := malloc_inv cfg ok h n hi.inv
  by_cases hl : cfg.lim = 0
  · rcases malloc_brk cfg h n with hb | ⟨h3, hb⟩
    · rw [hb]; exact hi.top
    · rw [hb]
      simp only [mallocRefusesA, hl, h3, beq_self_eq_true, Bool.true_and] at hnr
      have hw := brkWraps_iff base h (minLen (roundLen cfg.W n)) hi.top
      rw [hnr] at hw
      simp only [Bool.false_eq_true, false_iff, Nat.not_lt] at hw
      omega
  · have := hi'.lim hl
    have := hlim hl
    omega


/-- `mallocA` either refuses (nothing changes) or is the unbounded routine -/
theorem mallocA_cases (base : Nat) (cfg : Cfg) (h : Heap) (n : Nat) :
    mallocA base cfg h n = ⟨h, none, []⟩ ∨
    (mallocRefusesA base cfg h n = false ∧ mallocA base cfg h n = malloc cfg h n) := by
  unfold mallocA
  split
  · left; rfl
  · split
    · left; rfl
    · rename_i hnr; right; exact ⟨by simpa using hnr, rfl⟩

theorem mallocA_inv (base : Nat) (cfg : Cfg) (ok : CfgOK cfg) (h : Heap) (n : Nat)
    (hi : AInv base cfg h) (hlim : cfg.lim ≠ 0 → base + cfg.lim ≤ SIZE_MAX) :
    AInv base cfg (mallocA base cfg h n).h := by
  rcases mallocA_cases base cfg h n with he | ⟨hnr, he⟩
  · rw [he]; exact hi
  · rw [he]; exact ⟨malloc_inv cfg ok h n hi.inv, malloc_not_refused_top base cfg ok h n hi hlim hnr⟩

/-- a representable request, rounded: a multiple of `W` below `2⁶⁴`, hence at most `2⁶⁴ − W` -/
theorem reqLen_lt (cfg : Cfg) (ok : CfgOK cfg) (hWd : cfg.W ∣ 2 ^ 64) (hW16 : 16 ≤ cfg.W) (n : Nat)
    (hn : n ≤ SIZE_MAX) (hrep : ¬ (n % cfg.W ≠ 0 ∧ n > SIZE_MAX - (cfg.W - n % cfg.W))) :
    minLen (roundLen cfg.W n) < 2 ^ 64 - 8 := by
  have hd := roundLen_dvd cfg.W n ok.pos
  have hle : roundLen cfg.W n ≤ SIZE_MAX := by
    unfold roundLen
    have := Nat.mod_lt n ok.pos
    split
    · rename_i hm
      have hc : ¬ n > SIZE_MAX - (cfg.W - n % cfg.W) := fun hc => hrep ⟨hm, hc⟩
      have h1 : cfg.W - n % cfg.W + n % cfg.W = cfg.W := Nat.sub_add_cancel (Nat.le_of_lt this)
      have h2 : cfg.W ≤ 2 ^ 64 := Nat.le_of_dvd (by decide) hWd
      have h3 : n % cfg.W ≤ n := Nat.mod_le _ _
      have h4 : (2 : Nat) ^ 64 = 18446744073709551616 := by decide
      rw [SIZE_MAX_eq] at *; omega
    · exact hn
  obtain ⟨k, hk⟩ := hd
  obtain ⟨m, hm⟩ := hWd
  have hkm : k < m := by
    apply Nat.lt_of_mul_lt_mul_left (a := cfg.W)
    rw [← hk, ← hm]; rw [SIZE_MAX_eq] at hle
    have : (2 : Nat) ^ 64 = 18446744073709551616 := by decide
    omega
  have h1 : cfg.W * (k + 1) ≤ cfg.W * m := Nat.mul_le_mul_left _ hkm
  rw [Nat.mul_add, Nat.mul_one, ← hk, ← hm] at h1
  unfold minLen
  have : (2 : Nat) ^ 64 = 18446744073709551616 := by decide
  split <;> omega

theorem reallocA_cases (base : Nat) (cfg : Cfg) (h : Heap) (ptr : Option Nat) (n : Nat) (r : Res)
    (hr : reallocA base cfg h ptr n = some r) :
    r = ⟨h, none, []⟩ ∨
    (ptr = none ∧ r = mallocA base cfg h (minLen (roundLen cfg.W n))) ∨
    (∃ p, ptr = some p ∧ ¬ (n % cfg.W ≠ 0 ∧ n > SIZE_MAX - (cfg.W - n % cfg.W)) ∧
      reallocWrapTest base p (minLen (roundLen cfg.W n)) = false ∧
      (reachesMove cfg h p (minLen (roundLen cfg.W n)) && mallocRefusesA base cfg h (minLen (roundLen cfg.W n))) = false ∧
      realloc cfg h (some p) n = some r) := by
  unfold reallocA at hr
  split at hr
  · simp only [Option.some.injEq] at hr; left; exact hr.symm
  · rename_i hrep
    simp only at hr
    split at hr
    · simp only [Option.some.injEq] at hr; right; left; exact ⟨rfl, hr.symm⟩
    · rename_i p
      split at hr
      · simp only [Option.some.injEq] at hr; left; exact hr.symm
      · rename_i hw
        split at hr
        · simp only [Option.some.injEq] at hr; left; exact hr.symm
        · rename_i hm
          right; right
          exact ⟨p, rfl, hrep, by simpa using hw, by simpa using hm, hr⟩

theorem realloc_some_live {cfg : Cfg} {h : Heap} {p n : Nat} {r : Res} (hr : realloc cfg h (some p) n = some r) :
    8 ≤ p ∧ ∃ sz, lookup (p - 8) h.live = some sz := by
  unfold realloc reallocCore at hr
  simp only at hr
  split at hr
  · cases hr
  · rename_i h8
    split at hr
    · cases hr
    · rename_i sz hl; exact ⟨by omega, sz, hl⟩

theorem reallocA_inv (base : Nat) (cfg : Cfg) (ok : CfgOK cfg) (hWd : cfg.W ∣ 2 ^ 64) (hW16 : 16 ≤ cfg.W)
    (h : Heap) (ptr : Option Nat) (n : Nat) (r : Res) (hn : n ≤ SIZE_MAX)
    (hi : AInv base cfg h) (hlim : cfg.lim ≠ 0 → base + cfg.lim ≤ SIZE_MAX)
    (hr : reallocA base cfg h ptr n = some r) : AInv base cfg r.h := by
  rcases reallocA_cases base cfg h ptr n r hr with rfl | ⟨_, rfl⟩ | ⟨p, _, hrep, hw, hm, hre⟩
  · exact hi
  · exact mallocA_inv base cfg ok h _ hi hlim
  · refine ⟨realloc_inv cfg ok h (some p) n r hi.inv hre, ?_⟩
    obtain ⟨h8, sz, hl⟩ := realloc_some_live hre
    have hfin := hi.inv.fin_le_brk (Or.inr (lookup_mem hl))
    simp only at hfin
    have htop := hi.top
    rcases realloc_brk cfg h p n r hre with hb | hb | ⟨hmv, hb⟩
    · omega
    · rw [hb]
      have hlen := reqLen_lt cfg ok hWd hW16 n hn hrep
      have := reallocWrapTest_iff base p (minLen (roundLen cfg.W n)) (by omega) h8 hlen
      rw [hw] at this
      simp only [Bool.false_eq_true, false_iff, Nat.not_lt] at this
      omega
    · rw [hmv, Bool.true_and] at hm
      have := malloc_not_refused_top base cfg ok h (minLen (roundLen cfg.W n)) hi hlim hm
      omega

/-- every address-level request is a request of the unbounded model or changes nothing -/
theorem stepA_reach (base : Nat) (cfg : Cfg) (h : Heap) (op : Op) (r : Res) (hreach : Reach cfg h)
    (hs : stepA base cfg h op = some r) : Reach cfg r.h := by
  cases op with
  | malloc n =>
    simp only [stepA, Option.some.injEq] at hs; subst hs
    rcases mallocA_cases base cfg h n with he | ⟨_, he⟩
    · rw [he]; exact hreach
    · rw [he]; exact hreach.step (op := .malloc n) rfl
  | free p =>
    cases p with
    | none => simp only [stepA, Option.some.injEq] at hs; subst hs; exact hreach
    | some p => exact hreach.step (op := .free (some p)) hs
  | realloc ptr n =>
    simp only [stepA] at hs
    rcases reallocA_cases base cfg h ptr n r hs with rfl | ⟨_, rfl⟩ | ⟨p, rfl, _, _, _, hre⟩
    · exact hreach
    · rcases mallocA_cases base cfg h (minLen (roundLen cfg.W n)) with he | ⟨_, he⟩
      · rw [he]; exact hreach
      · rw [he]; exact hreach.step (op := .malloc _) rfl
    · exact hreach.step (op := .realloc (some p) n) hre

/-- all request sizes of a history are `size_t` values -/
def Op.sizeOK : Op → Prop
  | .malloc n => n ≤ SIZE_MAX
  | .free _ => True
  | .realloc _ n => n ≤ SIZE_MAX

theorem stepA_inv (base : Nat) (cfg : Cfg) (ok : CfgOK cfg) (hWd : cfg.W ∣ 2 ^ 64) (hW16 : 16 ≤ cfg.W)
    (h : Heap) (op : Op) (r : Res) (hsz : op.sizeOK)
    (hi : AInv base cfg h) (hlim : cfg.lim ≠ 0 → base + cfg.lim ≤ SIZE_MAX)
    (hs : stepA base cfg h op = some r) : AInv base cfg r.h := by
  cases op with
  | malloc n => simp only [stepA, Option.some.injEq] at hs; subst hs; exact mallocA_inv base cfg ok h n hi hlim
  | free p =>
    cases p with
    | none => simp only [stepA, Option.some.injEq] at hs; subst hs; exact hi
    | some p =>
      simp only [stepA] at hs
      exact ⟨free_inv cfg h p r hi.inv hs, by have := free_brk_le hs; have := hi.top; omega⟩
  | realloc ptr n => exact reallocA_inv base cfg ok hWd hW16 h ptr n r hsz hi hlim hs

theorem runA_inv (base : Nat) (cfg : Cfg) (ok : CfgOK cfg) (hWd : cfg.W ∣ 2 ^ 64) (hW16 : 16 ≤ cfg.W)
    (ops : List Op) (h h' : Heap) (hsz : ∀ op ∈ ops, op.sizeOK)
    (hi : AInv base cfg h) (hreach : Reach cfg h) (hlim : cfg.lim ≠ 0 → base + cfg.lim ≤ SIZE_MAX)
    (hr : runA base cfg h ops = some h') : AInv base cfg h' ∧ Reach cfg h' := by
  induction ops generalizing h with
  | nil => simp only [runA, Option.some.injEq] at hr; subst hr; exact ⟨hi, hreach⟩
  | cons op ops ih =>
    simp only [runA] at hr
    split at hr
    · cases hr
    · rename_i r hs
      exact ih r.h (fun o ho => hsz o (by simp [ho]))
        (stepA_inv base cfg ok hWd hW16 h op r (hsz op (by simp)) hi hlim hs)
        (stepA_reach base cfg h op r hreach hs) hr


/-! ### pools: the stores of `pool_engage`, zones outside its precondition, twins -/

/-- every cell of the zone gets its link store -/
theorem engageEvs_mem (e b n : Nat) (he : 0 < e) : ∀ fuel k j, k ≤ j → j < n → n - k < fuel →
    Ev.w (b + j * e) 8 ∈ engageEvs e (b + n * e) fuel (b + k * e) := by
  intro fuel
  induction fuel with
  | zero => intro k j _ _ h; omega
  | succ fuel ih =>
    intro k j hkj hjn hf
    have hkn : k * e < n * e := Nat.mul_lt_mul_of_pos_right (by omega) he
    simp only [engageEvs]
    rw [if_pos (by omega)]
    by_cases hjk : j = k
    · subst hjk; simp
    · have h2 : b + k * e + e = b + (k + 1) * e := by rw [Nat.add_mul, Nat.one_mul]; omega
      rw [h2]
      exact List.mem_cons_of_mem _ (ih (k + 1) j (by omega) hjn (by omega))

/-- a zone that is not whole cells: `while (it < stop)` behaves as for the next multiple -/
theorem engageLoop_ragged (e q r : Nat) (hr0 : 0 < r) (hre : r < e) : ∀ fuel k fl,
    engageLoop e (q * e + r) fuel (k * e) fl = engageLoop e ((q + 1) * e) fuel (k * e) fl := by
  intro fuel
  induction fuel with
  | zero => intro k fl; rfl
  | succ fuel ih =>
    intro k fl
    simp only [engageLoop]
    have h1 : (q + 1) * e = q * e + e := by rw [Nat.add_mul, Nat.one_mul]
    have h2 : k * e + e = (k + 1) * e := by rw [Nat.add_mul, Nat.one_mul]
    by_cases hk : k ≤ q
    · have : k * e ≤ q * e := Nat.mul_le_mul_right e hk
      rw [if_pos (by omega), if_pos (by omega), h2]
      exact ih (k + 1) _
    · have : (q + 1) * e ≤ k * e := Nat.mul_le_mul_right e (by omega)
      rw [if_neg (by omega), if_neg (by omega)]

/-- the spec of one allocation from a set of blocks, read off a free list that together with the
live blocks is a permutation of the blocks -/
theorem perm_alloc_spec {free live blocks : List Nat} (hp : (free ++ live).Perm blocks) (hnd : blocks.Nodup) :
    (free = [] → ∀ c ∈ blocks, c ∈ live) ∧
    (∀ c rest, free = c :: rest → c ∈ blocks ∧ c ∉ live) := by
  refine ⟨fun h c hc => ?_, fun c rest h => ?_⟩
  · subst h; exact (hp.mem_iff).2 hc
  · subst h
    have hnd' : ((c :: rest) ++ live).Nodup := hp.nodup_iff.2 hnd
    refine ⟨(hp.mem_iff).1 (by simp), fun hl => ?_⟩
    simp only [List.cons_append, List.nodup_cons, List.mem_append] at hnd'
    exact hnd'.1 (Or.inr hl)

/-- `get()` histories of igris::pool are `pool_alloc` histories of its `pool_head` -/
theorem irun_gets : ∀ (k : Nat) (s s' : IState), irun s (List.replicate k .get) = some s' →
    prun ⟨s.pool.head, s.live⟩ (List.replicate k .alloc) = some ⟨s'.pool.head, s'.live⟩ := by
  intro k
  induction k with
  | zero => intro s s' h; simp only [List.replicate, irun, Option.some.injEq] at h; subst h; rfl
  | succ k ih =>
    intro s s' h
    simp only [List.replicate, irun] at h
    split at h
    · cases h
    · rename_i s1 ret hs
      have := ih s1 s' h
      simp only [List.replicate, prun]
      simp only [istep, IPool.get, Pool.alloc] at hs
      cases hfr : s.pool.head.free with
      | nil =>
        rw [hfr] at hs; simp only [Option.some.injEq, Prod.mk.injEq] at hs
        obtain ⟨rfl, _⟩ := hs
        simp only [pstep, Pool.alloc, hfr]
        simpa [hfr] using this
      | cons c rest =>
        rw [hfr] at hs; simp only [Option.some.injEq, Prod.mk.injEq] at hs
        obtain ⟨rfl, _⟩ := hs
        simp only [pstep, Pool.alloc, hfr]
        simpa using this

/-- `create()` histories of static_object_pool are `pool_alloc` histories of its `pool_head` -/
theorem srun_creates : ∀ (k : Nat) (s s' : SOP), srun s (List.replicate k .create) = some s' →
    prun ⟨s.head, s.objs⟩ (List.replicate k .alloc) = some ⟨s'.head, s'.objs⟩ := by
  intro k
  induction k with
  | zero => intro s s' h; simp only [List.replicate, srun, Option.some.injEq] at h; subst h; rfl
  | succ k ih =>
    intro s s' h
    simp only [List.replicate, srun] at h
    split at h
    · cases h
    · rename_i s1 ret hs
      have := ih s1 s' h
      simp only [List.replicate, prun]
      simp only [sstep, SOP.create, Pool.alloc, Option.some.injEq, Prod.mk.injEq] at hs
      cases hfr : s.head.free with
      | nil =>
        rw [hfr] at hs
        obtain ⟨rfl, _⟩ := hs
        simp only [pstep, Pool.alloc, hfr]
        simpa [hfr] using this
      | cons c rest =>
        rw [hfr] at hs
        obtain ⟨rfl, _⟩ := hs
        simp only [pstep, Pool.alloc, hfr]
        simpa using this


/-! ### a concrete byte memory -/

-- (`execJ`: since round 3b in Model.lean, run by the driver)

/-- the concrete run is one of the memories the event semantics admits -/
theorem exec_execJ (junk : Nat → Nat) : ∀ (evs : List Ev) (m : Mem), Exec m evs (execJ junk m evs) := by
  intro evs
  induction evs with
  | nil => intro m; rfl
  | cons e es ih =>
    intro m
    cases e with
    | w a n =>
      refine ⟨_, ?_, ih _⟩
      intro x hx
      show (if a ≤ x ∧ x < a + n then junk x else m x) = m x
      rw [if_neg hx]
    | cp d s n =>
      refine ⟨_, ⟨?_, ?_⟩, ih _⟩
      · intro i hi
        show (if d ≤ d + i ∧ d + i < d + n then m (s + (d + i - d)) else m (d + i)) = m (s + i)
        rw [if_pos (by omega)]
        congr 1; omega
      · intro x hx
        show (if d ≤ x ∧ x < d + n then m (s + (x - d)) else m x) = m x
        rw [if_neg hx]

theorem free_live_eq {h : Heap} {p : Nat} {r : Res} (hr : free h p = some r) :
    r.h.live = remove (p - 8) h.live := by
  unfold free at hr
  split at hr
  · cases hr
  · simp only at hr
    split at hr
    · cases hr
    · split at hr
      · split at hr <;> (simp only [Option.some.injEq] at hr; subst hr; rfl)
      · split at hr <;> (simp only [Option.some.injEq] at hr; subst hr; rfl)

/-- addresses of live chunks are pairwise distinct: after unlinking the chunk at `a` no chunk
at `a` is left -/
theorem lookup_remove_none {cfg : Cfg} {h : Heap} {a sz : Nat} (hi : HInv cfg h)
    (hl : lookup a h.live = some sz) : lookup a (remove a h.live) = none := by
  cases hl2 : lookup a (remove a h.live) with
  | none => rfl
  | some s2 =>
    exfalso
    have hm := lookup_mem hl2
    have h1 := hasN_le_cnt (x := a) hm
    have h2 := cnt_remove (x := a) hl
    have h3 := hi.tile a
    have h4 : hasN a (a, sz) = 1 := by unfold hasN; rw [if_pos (by simp; omega)]
    have h5 : hasN a (a, s2) = 1 := by unfold hasN; rw [if_pos (by simp; omega)]
    split at h3 <;> omega

/-- realloc's scan of the free list, when it falls off the end: no chunk directly above ours was
large enough; the result is the largest `sz` on the list (or the start value) -/
theorem growScan_inr {fp2 incr : Nat} : ∀ {l : List Chunk} {s s' : Nat}, growScan fp2 incr l s = .inr s' →
    (∀ c ∈ l, ¬ (c.1 = fp2 ∧ c.2 + 8 ≥ incr)) ∧ s ≤ s' ∧ (∀ c ∈ l, c.2 ≤ s') ∧ (s' = s ∨ ∃ c ∈ l, c.2 = s') := by
  intro l
  induction l with
  | nil => intro s s' h; simp only [growScan, Sum.inr.injEq] at h; subst h; simp
  | cons c l ih =>
    intro s s' h
    simp only [growScan] at h
    split at h
    · cases h
    · rename_i hc
      obtain ⟨h1, h2, h3, h4⟩ := ih h
      refine ⟨?_, ?_, ?_, ?_⟩
      · intro d hd
        rcases List.mem_cons.1 hd with rfl | hd
        · exact hc
        · exact h1 d hd
      · split at h2 <;> omega
      · intro d hd
        rcases List.mem_cons.1 hd with rfl | hd
        · split at h2 <;> omega
        · exact h3 d hd
      · rcases h4 with h4 | ⟨d, hd, h4⟩
        · split at h4
          · right; exact ⟨c, by simp, h4.symm⟩
          · left; exact h4
        · right; exact ⟨d, by simp [hd], h4⟩

theorem map_remove (a : Nat) : ∀ (l : List Chunk),
    (remove a l).map (fun c => c.1 + 8) = (l.map (fun c => c.1 + 8)).erase (a + 8) := by
  intro l
  induction l with
  | nil => rfl
  | cons c r ih =>
    simp only [remove, List.map_cons, List.erase_cons]
    by_cases h : c.1 = a
    · simp [h]
    · have : ¬ (c.1 + 8 == a + 8) = true := by simp; omega
      rw [if_neg h, if_neg this, List.map_cons, ih]

theorem lookup_of_mem_addr {a : Nat} : ∀ {l : List Chunk}, a + 8 ∈ l.map (fun c => c.1 + 8) → ∃ s, lookup a l = some s := by
  intro l
  induction l with
  | nil => intro h; simp at h
  | cons c r ih =>
    intro h
    simp only [lookup]
    by_cases hc : c.1 = a
    · exact ⟨c.2, by rw [if_pos hc]⟩
    · rw [if_neg hc]
      simp only [List.map_cons, List.mem_cons] at h
      rcases h with h | h
      · omega
      · exact ih h
end Igris.C10
