/-
  C10 — pools fed from several zones: lemmas.

    zcells / allCells   the cells of one zone / of a list of zones
    InZone z c          c is the address of a cell of zone z
    MInv                free list ++ handed-out cells is a permutation of all cells of
                        all zones engaged so far; zones pairwise disjoint, elemsz > 0,
                        elemsz ∣ size
    engageAt_eq         pool_engage onto ANY list: the new cells in front, the old list kept
    engageLoopP_rep'    the same on `next` pointers (Rep)
    SXInv               static_object_pool with extra zones + constructor/destructor ledger
-/
import IgrisModel.C10.Lemmas
namespace Igris.C10

/-- the cells `pool_engage` carves out of a zone, lowest address first -/
def zcells (z : Zone) : List Nat := (List.range z.ncells).map (fun i => z.base + i * z.elemsz)

/-- all cells of a list of zones -/
def allCells : List Zone → List Nat
  | [] => []
  | z :: zs => zcells z ++ allCells zs

/-- `c` is the address of a cell of zone `z` -/
def InZone (z : Zone) (c : Nat) : Prop := ∃ i, i < z.ncells ∧ c = z.base + i * z.elemsz

/-- a well-formed zone = the precondition of `pool_engage` (asserted by `igris::pool::init` and
`pool_engage`): a cell can hold the
8-byte link (`elemsz >= sizeof(struct slist_head)`) and the zone is whole cells (`size % elemsz == 0`) -/
def Zone.WF (z : Zone) : Prop := 8 ≤ z.elemsz ∧ z.size % z.elemsz = 0

theorem Zone.WF.pos {z : Zone} (h : z.WF) : 0 < z.elemsz := by have := h.1; omega

theorem not_refused_wf {b sz e : Nat} (h : ¬ engageRefused sz e = true) : (⟨b, sz, e⟩ : Zone).WF := by
  simp only [engageRefused, Bool.or_eq_true, decide_eq_true_eq, bne_iff_ne, ne_eq, not_or, Nat.not_lt,
    Decidable.not_not] at h
  exact h

theorem mem_zcells {z : Zone} {c : Nat} : c ∈ zcells z ↔ InZone z c := by
  simp only [zcells, List.mem_map, List.mem_range, InZone]
  constructor
  · rintro ⟨i, hi, rfl⟩; exact ⟨i, hi, rfl⟩
  · rintro ⟨i, hi, rfl⟩; exact ⟨i, hi, rfl⟩

theorem mem_allCells {zs : List Zone} {c : Nat} : c ∈ allCells zs ↔ ∃ z ∈ zs, InZone z c := by
  induction zs with
  | nil => simp [allCells]
  | cons z zs ih =>
    simp only [allCells, List.mem_append, mem_zcells, ih, List.mem_cons]
    constructor
    · rintro (h | ⟨w, hw, h⟩)
      · exact ⟨z, Or.inl rfl, h⟩
      · exact ⟨w, Or.inr hw, h⟩
    · rintro ⟨w, rfl | hw, h⟩
      · exact Or.inl h
      · exact Or.inr ⟨w, hw, h⟩

theorem zcells_length (z : Zone) : (zcells z).length = z.ncells := by simp [zcells]

theorem allCells_length (zs : List Zone) : (allCells zs).length = capacity zs := by
  induction zs with
  | nil => rfl
  | cons z zs ih => simp [allCells, capacity, zcells_length, ih]

/-- a cell of a zone lies inside the zone, on a cell boundary -/
theorem InZone.range {z : Zone} {c : Nat} (hw : z.WF) (h : InZone z c) :
    z.base ≤ c ∧ c + z.elemsz ≤ z.base + z.size ∧ (c - z.base) % z.elemsz = 0 := by
  obtain ⟨i, hi, rfl⟩ := h
  have h1 : (i + 1) * z.elemsz ≤ z.ncells * z.elemsz := Nat.mul_le_mul_right _ hi
  have h2 : z.ncells * z.elemsz ≤ z.size := Nat.div_mul_le_self _ _
  rw [Nat.add_mul, Nat.one_mul] at h1
  refine ⟨by omega, by omega, ?_⟩
  rw [Nat.add_sub_cancel_left]; exact Nat.mul_mod_left _ _

theorem zcells_nodup (z : Zone) (he : 0 < z.elemsz) : (zcells z).Nodup := by
  unfold zcells
  rw [List.Nodup, List.pairwise_map]
  refine (List.nodup_range (n := z.ncells)).imp (fun {a b} hab h => hab ?_)
  have : a * z.elemsz = b * z.elemsz := by omega
  exact Nat.eq_of_mul_eq_mul_right he this

theorem disjoint_iff {z w : Zone} :
    z.disjoint w = true ↔ z.base + z.size ≤ w.base ∨ w.base + w.size ≤ z.base := by
  simp [Zone.disjoint]

/-- two cells of two disjoint zones are different byte ranges -/
theorem cells_of_disjoint_zones {z w : Zone} {c d : Nat} (hz : z.WF) (hw : w.WF)
    (hd : z.disjoint w = true) (hc : InZone z c) (hd' : InZone w d) :
    c + z.elemsz ≤ d ∨ d + w.elemsz ≤ c := by
  have h1 := hc.range hz
  have h2 := hd'.range hw
  rcases disjoint_iff.1 hd with h | h
  · left; omega
  · right; omega

/-- two different cells of one zone are different byte ranges -/
theorem cells_of_one_zone {z : Zone} {c d : Nat} (hc : InZone z c) (hd : InZone z d) (hne : c ≠ d) :
    c + z.elemsz ≤ d ∨ d + z.elemsz ≤ c := by
  obtain ⟨i, _, rfl⟩ := hc
  obtain ⟨j, _, rfl⟩ := hd
  have hij : i * z.elemsz ≠ j * z.elemsz := fun h => hne (by omega)
  have := cells_disjoint hij
  omega

theorem allCells_nodup {zs : List Zone} (hd : zs.Pairwise (fun z w => z.disjoint w = true))
    (hw : ∀ z ∈ zs, z.WF) : (allCells zs).Nodup := by
  induction zs with
  | nil => simp [allCells]
  | cons z zs ih =>
    rw [List.pairwise_cons] at hd
    simp only [allCells]
    rw [List.nodup_append]
    refine ⟨zcells_nodup z (hw z (by simp)).pos, ih hd.2 (fun w hw' => hw w (by simp [hw'])), ?_⟩
    intro a ha b hb hab
    subst hab
    obtain ⟨w, hwz, hin⟩ := mem_allCells.1 hb
    have hzw := hw z (by simp)
    have := cells_of_disjoint_zones hzw (hw w (by simp [hwz])) (hd.1 w hwz) (mem_zcells.1 ha) hin
    have := hzw.1
    have := (hw w (by simp [hwz])).1
    omega

/-! ### `pool_engage` onto an arbitrary list -/

theorem engageLoop_at (e b n : Nat) (he : 0 < e) : ∀ fuel k fl, k ≤ n → n - k < fuel →
    engageLoop e (b + n * e) fuel (b + k * e) fl =
      ((List.range' k (n - k)).map (fun i => b + i * e)).reverse ++ fl := by
  intro fuel
  induction fuel with
  | zero => intro k fl _ h; omega
  | succ fuel ih =>
    intro k fl hk hf
    simp only [engageLoop]
    by_cases hlt : k < n
    · have h1 : k * e < n * e := Nat.mul_lt_mul_of_pos_right hlt he
      rw [if_pos (by omega)]
      have h2 : b + k * e + e = b + (k + 1) * e := by rw [Nat.add_mul, Nat.one_mul]; omega
      rw [h2, ih (k + 1) ((b + k * e) :: fl) (by omega) (by omega)]
      have h3 : n - k = (n - (k + 1)) + 1 := by omega
      rw [h3, List.range'_succ]
      simp
    · have hkn : k = n := by omega
      subst hkn
      simp

/-- `pool_engage` puts the cells of the zone in front of the list it finds and
keeps that list: nothing that was free before is lost -/
theorem engageAt_eq (p : Pool) (z : Zone) (hw : z.WF) :
    (p.engageAt z.base z.size z.elemsz).free = (zcells z).reverse ++ p.free := by
  have he : 0 < z.elemsz := hw.pos
  have hd := hw.2
  have hsz : z.size = z.ncells * z.elemsz := (Nat.div_mul_cancel (Nat.dvd_of_mod_eq_zero hd)).symm
  have hle : z.ncells ≤ z.size := by
    rw [hsz]; exact Nat.le_mul_of_pos_right _ he
  have := engageLoop_at z.elemsz z.base z.ncells he (z.size + 1) 0 p.free (by omega) (by omega)
  simp only [Nat.zero_mul, Nat.add_zero, Nat.sub_zero] at this
  simp only [Pool.engageAt, zcells, List.range_eq_range']
  rw [← hsz] at this
  exact this

theorem engageAt_zero (p : Pool) (size e : Nat) : p.engageAt 0 size e = p.engage size e := by
  simp [Pool.engageAt, Pool.engage]

/-! ### the invariant of multi-zone histories -/

structure MInv (s : MState) : Prop where
  perm : (s.pool.free ++ s.live).Perm (allCells s.zones)
  disj : s.zones.Pairwise (fun z w => z.disjoint w = true)
  wf : ∀ z ∈ s.zones, z.WF

theorem MInv.init : MInv MState.init := ⟨by simp [MState.init, Pool.init, allCells], by simp [MState.init], by simp [MState.init]⟩

theorem perm_alloc {c : Nat} {rest live C : List Nat} (h : (c :: rest ++ live).Perm C) :
    (rest ++ c :: live).Perm C := (List.perm_middle).trans h

theorem perm_free {c : Nat} {free live C : List Nat} (hc : c ∈ live) (h : (free ++ live).Perm C) :
    (c :: free ++ live.erase c).Perm C := by
  have h1 : (c :: live.erase c).Perm live := (List.perm_cons_erase hc).symm
  have h2 : (c :: free ++ live.erase c).Perm (free ++ c :: live.erase c) := by
    simpa using (List.perm_middle (l₁ := free) (a := c) (l₂ := live.erase c)).symm
  exact h2.trans ((List.Perm.append_left _ h1).trans h)

theorem mstep_inv {s s' : MState} {op : MOp} {ret : Option Nat} (hi : MInv s)
    (hs : mstep s op = some (s', ret)) : MInv s' := by
  cases op with
  | engage b sz e =>
    simp only [mstep] at hs
    split at hs
    · cases hs
    · rename_i hc
      split at hs
      · rename_i hall
        simp only [Option.some.injEq, Prod.mk.injEq] at hs
        obtain ⟨rfl, _⟩ := hs
        have hwz : (⟨b, sz, e⟩ : Zone).WF := not_refused_wf hc
        refine ⟨?_, ?_, ?_⟩
        · simp only
          rw [show s.pool.engageAt b sz e = s.pool.engageAt (⟨b, sz, e⟩ : Zone).base (⟨b, sz, e⟩ : Zone).size
            (⟨b, sz, e⟩ : Zone).elemsz from rfl, engageAt_eq _ _ hwz]
          simp only [allCells, List.append_assoc]
          exact List.Perm.append (List.reverse_perm _) hi.perm
        · simp only [List.pairwise_cons]
          refine ⟨fun w hw => ?_, hi.disj⟩
          exact (List.all_eq_true.1 hall) w hw
        · intro z hz
          rcases List.mem_cons.1 hz with rfl | hz
          · exact hwz
          · exact hi.wf z hz
      · cases hs
  | alloc =>
    simp only [mstep, Pool.alloc] at hs
    cases hf : s.pool.free with
    | nil =>
      rw [hf] at hs; simp only [Option.some.injEq, Prod.mk.injEq] at hs
      obtain ⟨rfl, _⟩ := hs
      exact ⟨by simpa [hf] using hi.perm, hi.disj, hi.wf⟩
    | cons c rest =>
      rw [hf] at hs; simp only [Option.some.injEq, Prod.mk.injEq] at hs
      obtain ⟨rfl, _⟩ := hs
      refine ⟨?_, hi.disj, hi.wf⟩
      have := hi.perm; rw [hf] at this
      exact perm_alloc this
  | free c =>
    simp only [mstep] at hs
    split at hs
    · rename_i hc
      simp only [Option.some.injEq, Prod.mk.injEq] at hs
      obtain ⟨rfl, _⟩ := hs
      have hc' : c ∈ s.live := by simpa using hc
      exact ⟨by simpa [Pool.release] using perm_free hc' hi.perm, hi.disj, hi.wf⟩
    · cases hs

theorem mrun_inv {ops : List MOp} {s s' : MState} (hi : MInv s) (hr : mrun s ops = some s') : MInv s' := by
  induction ops generalizing s with
  | nil => simp only [mrun] at hr; cases hr; exact hi
  | cons op ops ih =>
    simp only [mrun] at hr
    split at hr
    · cases hr
    · rename_i s1 ret hs
      exact ih (mstep_inv hi hs) hr

theorem MInv.facts {s : MState} (hi : MInv s) :
    s.live.Nodup ∧ s.pool.free.Nodup ∧ (∀ c, c ∈ s.live → c ∉ s.pool.free) ∧
    (∀ c, c ∈ s.live ∨ c ∈ s.pool.free → ∃ z ∈ s.zones, InZone z c) ∧
    s.pool.free.length + s.live.length = capacity s.zones := by
  have hnd : (s.pool.free ++ s.live).Nodup := hi.perm.nodup_iff.2 (allCells_nodup hi.disj hi.wf)
  rw [List.nodup_append] at hnd
  refine ⟨hnd.2.1, hnd.1, fun c hc hf => hnd.2.2 c hf c hc rfl, fun c hc => ?_, ?_⟩
  · apply mem_allCells.1
    apply hi.perm.mem_iff.1
    rcases hc with hc | hc <;> simp [hc]
  · have := hi.perm.length_eq
    simpa [allCells_length] using this

/-- two zones of a pairwise disjoint list are the same entry or disjoint -/
theorem zones_eq_or_disjoint {zs : List Zone} (hd : zs.Pairwise (fun z w => z.disjoint w = true))
    {z w : Zone} (hz : z ∈ zs) (hw : w ∈ zs) : z = w ∨ z.disjoint w = true := by
  induction zs with
  | nil => cases hz
  | cons a zs ih =>
    rw [List.pairwise_cons] at hd
    rcases List.mem_cons.1 hz with hza | hza
    · rcases List.mem_cons.1 hw with hwa | hwa
      · exact Or.inl (hza.trans hwa.symm)
      · subst hza; exact Or.inr (hd.1 w hwa)
    · rcases List.mem_cons.1 hw with hwa | hwa
      · subst hwa
        right
        have := hd.1 z hza
        rw [disjoint_iff] at this ⊢; omega
      · exact ih hd.2 hza hwa

theorem mrun_allocs : ∀ (k : Nat) (s s' : MState), MInv s →
    mrun s (List.replicate k .alloc) = some s' →
    s'.live.length = min (s.live.length + k) (capacity s.zones) ∧ s'.zones = s.zones := by
  intro k
  induction k with
  | zero =>
    intro s s' hi hr
    simp only [List.replicate, mrun] at hr; cases hr
    have := hi.facts.2.2.2.2
    exact ⟨by omega, rfl⟩
  | succ k ih =>
    intro s s' hi hr
    simp only [List.replicate, mrun] at hr
    split at hr
    · cases hr
    · rename_i s1 ret hs
      have hi1 := mstep_inv hi hs
      have := ih s1 s' hi1 hr
      have hf := hi.facts.2.2.2.2
      have hf1 := hi1.facts.2.2.2.2
      simp only [mstep, Pool.alloc] at hs
      cases hfr : s.pool.free with
      | nil =>
        rw [hfr] at hs; simp only [Option.some.injEq, Prod.mk.injEq] at hs
        obtain ⟨rfl, _⟩ := hs
        simp only [hfr, List.length_nil] at hf
        simp only at this
        exact ⟨by omega, this.2⟩
      | cons c rest =>
        rw [hfr] at hs; simp only [Option.some.injEq, Prod.mk.injEq] at hs
        obtain ⟨rfl, _⟩ := hs
        simp only [List.length_cons] at this hf1 ⊢
        exact ⟨by omega, this.2⟩

/-! ### the stores of `pool_engage` -/

theorem engageEvs_inside (e b n : Nat) (he : 8 ≤ e) : ∀ fuel k, k ≤ n →
    ∀ ev ∈ engageEvs e (b + n * e) fuel (b + k * e), ev.Inside b (b + n * e) := by
  intro fuel
  induction fuel with
  | zero => intro k _ ev hev; simp [engageEvs] at hev
  | succ fuel ih =>
    intro k hk ev hev
    simp only [engageEvs] at hev
    split at hev
    · rename_i hlt
      have hkn : k < n := by
        by_cases h : k < n
        · exact h
        · have : n * e ≤ k * e := Nat.mul_le_mul_right e (by omega)
          omega
      have h1 : (k + 1) * e ≤ n * e := Nat.mul_le_mul_right e hkn
      rw [Nat.add_mul, Nat.one_mul] at h1
      rcases List.mem_cons.1 hev with rfl | hev
      · simp only [Ev.Inside, Ev.lo, Ev.hi]; omega
      · have h2 : b + k * e + e = b + (k + 1) * e := by rw [Nat.add_mul, Nat.one_mul]; omega
        rw [h2] at hev
        exact ih (k + 1) hkn ev hev
    · cases hev

/-- every link store of `pool_engage` is the first 8 bytes of one cell of the zone -/
theorem engageEvs_cells (e b n : Nat) (he : 0 < e) : ∀ fuel k0, k0 ≤ n →
    ∀ ev ∈ engageEvs e (b + n * e) fuel (b + k0 * e), ∃ k, k0 ≤ k ∧ k < n ∧ ev = .w (b + k * e) 8 := by
  intro fuel
  induction fuel with
  | zero => intro k0 _ ev hev; simp [engageEvs] at hev
  | succ fuel ih =>
    intro k0 hk ev hev
    simp only [engageEvs] at hev
    split at hev
    · rename_i hlt
      have hkn : k0 < n := by
        by_cases h : k0 < n
        · exact h
        · have : n * e ≤ k0 * e := Nat.mul_le_mul_right e (by omega)
          omega
      rcases List.mem_cons.1 hev with rfl | hev
      · exact ⟨k0, Nat.le_refl _, hkn, rfl⟩
      · have h2 : b + k0 * e + e = b + (k0 + 1) * e := by rw [Nat.add_mul, Nat.one_mul]; omega
        rw [h2] at hev
        obtain ⟨k, h1, h3, h4⟩ := ih (k0 + 1) hkn ev hev
        exact ⟨k, by omega, h3, h4⟩
    · cases hev

/-! ### pointer level -/

theorem engageLoopP_rep' (e stop head : Nat) : ∀ (fuel it : Nat) (m : Links) (fl : List Nat),
    Rep m head fl → (∀ c ∈ fl, c < it ∨ stop ≤ c) → (head < it ∨ stop ≤ head) → 0 < e →
    Rep (engageLoopP e stop head fuel it m) head (engageLoop e stop fuel it fl) := by
  intro fuel
  induction fuel with
  | zero => intro it m fl hr _ _ _; exact hr
  | succ f ih =>
    intro it m fl hr hlt hhead he
    simp only [engageLoopP, engageLoop]
    split
    · rename_i hit
      refine ih (it + e) _ _ (rep_add hr (fun h => ?_) (by omega)) ?_ (by omega) he
      · have := hlt it h; omega
      · intro c hc
        rcases List.mem_cons.1 hc with rfl | hc
        · omega
        · have := hlt c hc; omega
    · exact hr

theorem mstep_zones {s s' : MState} {op : MOp} {r : Option Nat} (hs : mstep s op = some (s', r)) :
    ∀ z ∈ s.zones, z ∈ s'.zones := by
  intro z hz
  cases op with
  | engage b sz e =>
    simp only [mstep] at hs
    split at hs
    · cases hs
    · split at hs
      · simp only [Option.some.injEq, Prod.mk.injEq] at hs
        obtain ⟨rfl, _⟩ := hs
        exact List.mem_cons_of_mem _ hz
      · cases hs
  | alloc =>
    simp only [mstep] at hs
    split at hs <;> (simp only [Option.some.injEq, Prod.mk.injEq] at hs; obtain ⟨rfl, _⟩ := hs; exact hz)
  | free c =>
    simp only [mstep] at hs
    split at hs
    · simp only [Option.some.injEq, Prod.mk.injEq] at hs
      obtain ⟨rfl, _⟩ := hs; exact hz
    · cases hs

theorem mrun_zones {ops : List MOp} {s s' : MState} (hr : mrun s ops = some s') :
    ∀ z ∈ s.zones, z ∈ s'.zones := by
  induction ops generalizing s with
  | nil => simp only [mrun] at hr; cases hr; exact fun _ h => h
  | cons op ops ih =>
    simp only [mrun] at hr
    split at hr
    · cases hr
    · rename_i s1 ret hs
      exact fun z hz => ih hr z (mstep_zones hs z hz)

theorem mstepP_rep {s s' : MState} {op : MOp} {r : Option Nat} {m : Links} {head : Nat}
    (hi : MInv s) (hr : Rep m head s.pool.free) (hs : mstep s op = some (s', r))
    (hh : ∀ z ∈ s'.zones, head < z.base ∨ z.base + z.size ≤ head) :
    (mstepP m head op).2 = r ∧ Rep (mstepP m head op).1 head s'.pool.free := by
  have hi' := mstep_inv hi hs
  cases op with
  | engage b sz e =>
    simp only [mstep] at hs
    split at hs
    · cases hs
    · rename_i hc
      split at hs
      · rename_i hall
        simp only [Option.some.injEq, Prod.mk.injEq] at hs
        obtain ⟨rfl, rfl⟩ := hs
        refine ⟨rfl, ?_⟩
        simp only [mstepP, engageAtP, Pool.engageAt]
        have hwz : (⟨b, sz, e⟩ : Zone).WF := hi'.wf _ (by simp)
        refine engageLoopP_rep' e (b + sz) head (sz + 1) b m _ hr (fun c hc => ?_) ?_ hwz.pos
        · obtain ⟨w, hw, hin⟩ := hi.facts.2.2.2.1 c (Or.inr hc)
          have hrg := hin.range (hi.wf w hw)
          have hd := (List.all_eq_true.1 hall) w hw
          have := (hi.wf w hw).1
          rw [disjoint_iff] at hd; simp only at hd
          omega
        · have := hh ⟨b, sz, e⟩ (by simp); simpa using this
      · cases hs
  | alloc =>
    simp only [mstep, Pool.alloc] at hs
    simp only [mstepP, poolAllocP]
    cases hf : s.pool.free with
    | nil =>
      rw [hf] at hs hr
      simp only [Option.some.injEq, Prod.mk.injEq] at hs
      obtain ⟨rfl, rfl⟩ := hs
      simp only [(rep_pop_nil hr).2, ↓reduceIte]
      exact ⟨trivial, by rw [hf]; exact hr⟩
    | cons c rest =>
      rw [hf] at hs hr
      simp only [Option.some.injEq, Prod.mk.injEq] at hs
      obtain ⟨rfl, rfl⟩ := hs
      have hne : slistEmpty m head = false := by
        cases h : slistEmpty m head with
        | false => rfl
        | true => exact absurd ((rep_empty_iff hr).1 h) (by simp)
      simp only [hne, Bool.false_eq_true, ↓reduceIte]
      obtain ⟨h1, h2⟩ := rep_pop_cons hr
      rw [h1]; exact ⟨rfl, h2⟩
  | free c =>
    simp only [mstep] at hs
    split at hs
    · rename_i hc
      simp only [Option.some.injEq, Prod.mk.injEq] at hs
      obtain ⟨rfl, rfl⟩ := hs
      have hc' : c ∈ s.live := by simpa using hc
      refine ⟨rfl, ?_⟩
      simp only [mstepP, Pool.release]
      refine rep_add hr (hi.facts.2.2.1 c hc') ?_
      obtain ⟨w, hw, hin⟩ := hi.facts.2.2.2.1 c (Or.inl hc')
      have hrg := hin.range (hi.wf w hw)
      have := (hi.wf w hw).1
      have := hh w hw
      omega
    · cases hs

theorem mrunP_rep {ops : List MOp} {s s' : MState} {m : Links} {head : Nat}
    (hi : MInv s) (hr : Rep m head s.pool.free) (hs : mrun s ops = some s')
    (hh : ∀ z ∈ s'.zones, head < z.base ∨ z.base + z.size ≤ head) :
    Rep (mrunP head m ops) head s'.pool.free := by
  induction ops generalizing s m with
  | nil => simp only [mrun] at hs; cases hs; exact hr
  | cons op ops ih =>
    simp only [mrun] at hs
    split at hs
    · cases hs
    · rename_i s1 ret hs1
      simp only [mrunP]
      have h1 := mstepP_rep hi hr hs1 (fun z hz => hh z (mrun_zones hs z hz))
      exact ih (mstep_inv hi hs1) h1.2 hs

/-! ### the stores of a multi-zone history avoid the cells that stay handed out -/

theorem mstep_evs_avoid {s s' : MState} {op : MOp} {r : Option Nat} (hi : MInv s)
    (hs : mstep s op = some (s', r)) :
    ∀ ev ∈ mstepEvs s op, ∀ c ∈ s.live, c ∈ s'.live → ∀ z ∈ s'.zones, InZone z c →
      ev.Avoids c (c + z.elemsz) := by
  have hi' := mstep_inv hi hs
  intro ev hev c hc hc' z hz hzc
  cases op with
  | engage b sz e =>
    simp only [mstep] at hs
    split at hs
    · cases hs
    · split at hs
      · rename_i hall
        simp only [Option.some.injEq, Prod.mk.injEq] at hs
        obtain ⟨rfl, _⟩ := hs
        have hwz : (⟨b, sz, e⟩ : Zone).WF := hi'.wf _ (by simp)
        have he8 : 8 ≤ e := hwz.1
        have hsz : sz = sz / e * e := (Nat.div_mul_cancel (Nat.dvd_of_mod_eq_zero hwz.2)).symm
        -- all stores stay inside the new zone
        have hin : ev.Inside b (b + sz) := by
          simp only [mstepEvs] at hev
          have := engageEvs_inside e b (sz / e) he8 (sz + 1) 0 (Nat.zero_le _)
          simp only [Nat.zero_mul, Nat.add_zero] at this
          rw [← hsz] at this
          exact this ev hev
        obtain ⟨w, hw, hwc⟩ := hi.facts.2.2.2.1 c (Or.inl hc)
        have hrw := hwc.range (hi.wf w hw)
        have hdw := (List.all_eq_true.1 hall) w hw
        rw [disjoint_iff] at hdw; simp only at hdw
        have hew := (hi.wf w hw).1
        rcases List.mem_cons.1 hz with rfl | hz'
        · -- a cell handed out before cannot be a cell of the new zone
          have hrz := hzc.range hwz
          simp only at hrz
          omega
        · have hrz := hzc.range (hi.wf z hz')
          have hdz := (List.all_eq_true.1 hall) z hz'
          rw [disjoint_iff] at hdz; simp only at hdz
          exact hin.avoids (by omega)
      · cases hs
  | alloc => simp [mstepEvs] at hev
  | free c0 =>
    simp only [mstep] at hs
    split at hs
    · rename_i hc0
      simp only [Option.some.injEq, Prod.mk.injEq] at hs
      obtain ⟨rfl, _⟩ := hs
      have hc0' : c0 ∈ s.live := by simpa using hc0
      simp only [mstepEvs, Pool.release, List.mem_singleton] at hev
      subst hev
      have hne : c ≠ c0 := ((List.Nodup.mem_erase_iff hi.facts.1).1 hc').1
      obtain ⟨w, hw, hwc⟩ := hi.facts.2.2.2.1 c0 (Or.inl hc0')
      have hew := (hi.wf w hw).1
      have hdis : c + z.elemsz ≤ c0 ∨ c0 + w.elemsz ≤ c := by
        rcases zones_eq_or_disjoint hi.disj hz hw with rfl | hd
        · exact cells_of_one_zone hzc hwc hne
        · exact cells_of_disjoint_zones (hi.wf z hz) (hi.wf w hw) hd hzc hwc
      simp only [Ev.Avoids, Ev.lo, Ev.hi]
      omega
    · cases hs

/-- a cell that is not freed by the request stays handed out -/
theorem mstep_keeps_live {s s' : MState} {op : MOp} {r : Option Nat} (hs : mstep s op = some (s', r))
    {c : Nat} (hc : c ∈ s.live) (hne : op ≠ .free c) : c ∈ s'.live := by
  cases op with
  | engage b sz e =>
    simp only [mstep] at hs
    split at hs
    · cases hs
    · split at hs
      · simp only [Option.some.injEq, Prod.mk.injEq] at hs
        obtain ⟨rfl, _⟩ := hs; exact hc
      · cases hs
  | alloc =>
    simp only [mstep] at hs
    split at hs
    · simp only [Option.some.injEq, Prod.mk.injEq] at hs
      obtain ⟨rfl, _⟩ := hs; exact hc
    · simp only [Option.some.injEq, Prod.mk.injEq] at hs
      obtain ⟨rfl, _⟩ := hs; exact List.mem_cons_of_mem _ hc
  | free c0 =>
    simp only [mstep] at hs
    split at hs
    · simp only [Option.some.injEq, Prod.mk.injEq] at hs
      obtain ⟨rfl, _⟩ := hs
      have : c ≠ c0 := fun h => hne (by rw [h])
      exact (List.mem_erase_of_ne this).2 hc
    · cases hs

theorem mrunE_zones {ops : List MOp} {s s' : MState} {evs : List Ev} (hr : mrunE s ops = some (s', evs)) :
    ∀ z ∈ s.zones, z ∈ s'.zones := by
  induction ops generalizing s evs with
  | nil => simp only [mrunE, Option.some.injEq, Prod.mk.injEq] at hr; obtain ⟨rfl, _⟩ := hr; exact fun _ h => h
  | cons op ops ih =>
    simp only [mrunE] at hr
    split at hr
    · cases hr
    · rename_i s1 ret hs
      split at hr
      · cases hr
      · rename_i x hx
        simp only [Option.some.injEq, Prod.mk.injEq] at hr
        obtain ⟨rfl, _⟩ := hr
        exact fun z hz => ih (by rw [hx]) z (mstep_zones hs z hz)

/-- over a whole history: while no request frees the cell it stays handed out and
every byte of it keeps its value, whatever zones are engaged and whatever other
cells are allocated and freed in between -/
theorem mrunE_frame {ops : List MOp} {s s' : MState} {evs : List Ev} (hi : MInv s)
    (hr : mrunE s ops = some (s', evs))
    {c : Nat} (hc : c ∈ s.live) (hne : ∀ op ∈ ops, op ≠ .free c) {z : Zone} (hz : z ∈ s.zones)
    (hzc : InZone z c) {m m' : Mem} (hx : Exec m evs m') :
    c ∈ s'.live ∧ ∀ x, c ≤ x → x < c + z.elemsz → m' x = m x := by
  induction ops generalizing s evs m with
  | nil =>
    simp only [mrunE, Option.some.injEq, Prod.mk.injEq] at hr
    obtain ⟨rfl, rfl⟩ := hr
    simp only [Exec] at hx; subst hx
    exact ⟨hc, fun _ _ _ => rfl⟩
  | cons op ops ih =>
    simp only [mrunE] at hr
    split at hr
    · cases hr
    · rename_i s1 ret hs
      split at hr
      · cases hr
      · rename_i x hx2
        simp only [Option.some.injEq, Prod.mk.injEq] at hr
        obtain ⟨rfl, rfl⟩ := hr
        obtain ⟨m1, ha, hb⟩ := Exec.append hx
        have hc1 := mstep_keeps_live hs hc (hne op (by simp))
        have hz1 := mstep_zones hs z hz
        have hav := mstep_evs_avoid hi hs
        have h1 := Exec.frame ha (fun e he => hav e he c hc hc1 z hz1 hzc)
        have h2 := ih (mstep_inv hi hs) (by rw [hx2]) hc1 (fun o ho => hne o (by simp [ho])) hz1 hb
        exact ⟨h2.1, fun y hy1 hy2 => by rw [h2.2 y hy1 hy2, h1 y hy1 hy2]⟩

/-! ### static_object_pool with extra zones and the constructor / destructor ledger -/

structure SXInv (st : Nat) (p : SOPx) : Prop where
  m : MInv ⟨p.sop.head, p.sop.objs, p.zones⟩
  fault : p.sop.fault = false
  /-- per cell: constructor runs = destructor runs + (1 if an object lives there) -/
  ledger : ∀ c, p.ctor.count c = p.dtor.count c + (if c ∈ p.sop.objs then 1 else 0)
  esz : ∀ z ∈ p.zones, z.elemsz = st

theorem SXInv.init (szT alT cap : Nat) : SXInv (storageSize szT alT) (SOPx.init szT alT cap) := by
  have he : 0 < storageSize szT alT := by have := storageSize_pos szT alT; omega
  refine ⟨⟨?_, by simp [SOPx.init], ?_⟩, rfl, by simp [SOPx.init, SOP.init], by simp [SOPx.init]⟩
  · simp only [SOPx.init, SOP.init, allCells, List.append_nil]
    have hwz : (⟨0, cap * storageSize szT alT, storageSize szT alT⟩ : Zone).WF :=
      ⟨storageSize_pos szT alT, Nat.mul_mod_left _ _⟩
    have := engageAt_eq Pool.init ⟨0, cap * storageSize szT alT, storageSize szT alT⟩ hwz
    simp only [engageAt_zero, Pool.init, List.append_nil] at this
    simp only [Pool.init]
    rw [this]
    exact List.reverse_perm _
  · intro z hz
    simp only [SOPx.init, List.mem_singleton] at hz
    subst hz
    exact ⟨storageSize_pos szT alT, Nat.mul_mod_left _ _⟩

theorem sxstep_inv {st : Nat} {p p' : SOPx} {op : SXOp} {ret : Option Nat} (hi : SXInv st p)
    (hs : sxstep st p op = some (p', ret)) : SXInv st p' := by
  obtain ⟨hm, hflt, hled, hesz⟩ := hi
  cases op with
  | create =>
    simp only [sxstep, SOP.create, Pool.alloc] at hs
    cases hfr : p.sop.head.free with
    | nil =>
      rw [hfr] at hs; simp only [Option.some.injEq, Prod.mk.injEq] at hs
      obtain ⟨rfl, _⟩ := hs
      refine ⟨⟨by simpa [hfr] using hm.perm, hm.disj, hm.wf⟩, hflt, hled, hesz⟩
    | cons c rest =>
      rw [hfr] at hs; simp only [Option.some.injEq, Prod.mk.injEq] at hs
      obtain ⟨rfl, _⟩ := hs
      have hfacts := hm.facts
      have hc : c ∉ p.sop.objs := fun hc => hfacts.2.2.1 c hc (by simp [hfr])
      refine ⟨⟨?_, hm.disj, hm.wf⟩, ?_, ?_, hesz⟩
      · have := hm.perm; simp only at this; rw [hfr] at this
        exact perm_alloc this
      · simp only [hflt, Bool.false_or]; simpa using hc
      · intro d
        have := hled d
        simp only [List.count_cons, List.mem_cons]
        by_cases hd : d = c
        · subst hd; simp only [hc, if_false] at this; simp [this]
        · have hd' : (c == d) = false := by simp; exact fun h => hd h.symm
          simp only [hd', hd, false_or]; simpa using this
  | destroy c =>
    simp only [sxstep] at hs
    split at hs
    · rename_i hcl
      have hc' : c ∈ p.sop.objs := by simpa using hcl
      simp only [Option.some.injEq, Prod.mk.injEq] at hs
      obtain ⟨rfl, _⟩ := hs
      have hnd := hm.facts.1
      refine ⟨⟨?_, hm.disj, hm.wf⟩, ?_, ?_, hesz⟩
      · simpa [SOP.destroy, Pool.release] using perm_free hc' hm.perm
      · simp only [SOP.destroy, hflt, Bool.false_or]; simpa using hc'
      · intro d
        have := hled d
        simp only [SOP.destroy, List.count_cons]
        simp only at hnd
        by_cases hd : d = c
        · subst hd
          have : d ∉ p.sop.objs.erase d := fun h => (List.Nodup.mem_erase_iff hnd).1 h |>.1 rfl
          simp only [this, if_false, hc', if_true] at *
          simp; omega
        · have hd' : (c == d) = false := by simp; exact fun h => hd h.symm
          have hmem : d ∈ p.sop.objs.erase c ↔ d ∈ p.sop.objs := by
            rw [List.Nodup.mem_erase_iff hnd]; exact ⟨fun h => h.2, fun h => ⟨hd, h⟩⟩
          simp only [hd', hmem]; simpa using this
    · cases hs
  | engage b n =>
    simp only [sxstep] at hs
    split at hs
    · cases hs
    · rename_i hst
      split at hs
      · rename_i hall
        simp only [Option.some.injEq, Prod.mk.injEq] at hs
        obtain ⟨rfl, _⟩ := hs
        have hms : mstep ⟨p.sop.head, p.sop.objs, p.zones⟩ (.engage b (n * st) st) =
            some (⟨p.sop.head.engageAt b (n * st) st, p.sop.objs, ⟨b, n * st, st⟩ :: p.zones⟩, none) := by
          simp only [mstep]
          rw [if_neg hst, if_pos hall]
        refine ⟨mstep_inv hm hms, hflt, hled, ?_⟩
        intro z hz
        rcases List.mem_cons.1 hz with rfl | hz
        · rfl
        · exact hesz z hz
      · cases hs

theorem sxrun_inv {st : Nat} {ops : List SXOp} {p p' : SOPx} (hi : SXInv st p)
    (hr : sxrun st p ops = some p') : SXInv st p' := by
  induction ops generalizing p with
  | nil => simp only [sxrun] at hr; cases hr; exact hi
  | cons op ops ih =>
    simp only [sxrun] at hr
    split at hr
    · cases hr
    · rename_i p1 ret hs
      exact ih (sxstep_inv hi hs) hr

end Igris.C10
