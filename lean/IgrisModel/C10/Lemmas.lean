import IgrisModel.C10.Model
namespace Igris.C10

/-- 1 if byte `x` lies in the chunk (header or payload), else 0 -/
def hasN (x : Nat) (c : Chunk) : Nat := if c.1 ≤ x ∧ x < c.1 + 8 + c.2 then 1 else 0

/-- number of chunks of the list that contain byte `x` -/
def cnt (x : Nat) : List Chunk → Nat
  | [] => 0
  | c :: l => hasN x c + cnt x l

@[simp] theorem cnt_nil (x) : cnt x [] = 0 := rfl
@[simp] theorem cnt_cons (x c l) : cnt x (c :: l) = hasN x c + cnt x l := rfl
theorem cnt_append (x l₁ l₂) : cnt x (l₁ ++ l₂) = cnt x l₁ + cnt x l₂ := by
  induction l₁ with
  | nil => simp
  | cons c l ih => simp [ih]; omega

theorem hasN_le_one (x c) : hasN x c ≤ 1 := by unfold hasN; split <;> omega

theorem cnt_pos_of_mem {x c l} (hm : c ∈ l) (hx : hasN x c = 1) : 1 ≤ cnt x l := by
  induction l with
  | nil => cases hm
  | cons d l ih =>
    rcases List.mem_cons.1 hm with rfl | h
    · simp; omega
    · have := ih h; simp; omega

theorem hasN_merge (x : Nat) (a b : Chunk) (h : a.1 + 8 + a.2 = b.1) :
    hasN x (a.1, a.2 + (b.2 + 8)) = hasN x a + hasN x b := by
  unfold hasN; simp only; split <;> split <;> split <;> omega

theorem disj_of_hasN (c d : Chunk) (h : ∀ x, hasN x c + hasN x d ≤ 1) :
    c.1 + 8 + c.2 ≤ d.1 ∨ d.1 + 8 + d.2 ≤ c.1 := by
  have := h (max c.1 d.1)
  unfold hasN at this
  split at this <;> split at this <;> omega

theorem lookup_mem {a s} {l : List Chunk} (h : lookup a l = some s) : (a, s) ∈ l := by
  induction l with
  | nil => simp [lookup] at h
  | cons c l ih =>
    simp only [lookup] at h
    split at h
    · rename_i hc; cases h; cases c; simp at hc; subst hc; simp
    · exact List.mem_cons_of_mem _ (ih h)

theorem cnt_remove {a s x} {l : List Chunk} (h : lookup a l = some s) :
    cnt x l = cnt x (remove a l) + hasN x (a, s) := by
  induction l with
  | nil => simp [lookup] at h
  | cons c l ih =>
    simp only [lookup] at h
    simp only [remove]
    split at h
    · rename_i hc; cases h; cases c; simp at hc; subst hc; simp; omega
    · rename_i hc; simp [hc, ih h]; omega

theorem cnt_setChunk {a s x new} {l : List Chunk} (h : lookup a l = some s) :
    cnt x (setChunk a new l) + hasN x (a, s) = cnt x l + hasN x new := by
  induction l with
  | nil => simp [lookup] at h
  | cons c l ih =>
    simp only [lookup] at h
    simp only [setChunk]
    split at h
    · rename_i hc; cases h; cases c; simp at hc; subst hc; simp; omega
    · rename_i hc; simp [hc]; have := ih h; omega


theorem mem_remove {a c} {l : List Chunk} (h : c ∈ remove a l) : c ∈ l := by
  induction l with
  | nil => simp [remove] at h
  | cons d l ih =>
    simp only [remove] at h
    split at h
    · exact List.mem_cons_of_mem _ h
    · rcases List.mem_cons.1 h with rfl | h
      · simp
      · exact List.mem_cons_of_mem _ (ih h)

theorem remove_sublist (a) (l : List Chunk) : (remove a l).Sublist l := by
  induction l with
  | nil => simp [remove]
  | cons d l ih =>
    simp only [remove]
    split
    · exact List.sublist_cons_self _ _
    · exact ih.cons_cons _

theorem mem_setChunk {a c new} {l : List Chunk} (h : c ∈ setChunk a new l) : c ∈ l ∨ c = new := by
  induction l with
  | nil => simp [setChunk] at h
  | cons d l ih =>
    simp only [setChunk] at h
    split at h
    · rcases List.mem_cons.1 h with rfl | h
      · exact Or.inr rfl
      · exact Or.inl (List.mem_cons_of_mem _ h)
    · rcases List.mem_cons.1 h with rfl | h
      · simp
      · rcases ih h with h | h
        · exact Or.inl (List.mem_cons_of_mem _ h)
        · exact Or.inr h

/-- strictly address ordered and not adjacent -/
def Below (c d : Chunk) : Prop := c.1 + 8 + c.2 < d.1

theorem sorted_setChunk {a s new} {l : List Chunk} (hs : l.Pairwise Below) (h : lookup a l = some s)
    (h1 : a ≤ new.1) (h2 : new.1 + 8 + new.2 ≤ a + 8 + s) : (setChunk a new l).Pairwise Below := by
  induction l with
  | nil => simp [setChunk]
  | cons d l ih =>
    simp only [lookup] at h
    simp only [setChunk]
    rw [List.pairwise_cons] at hs
    split at h
    · rename_i hd; cases h
      simp only [hd, ↓reduceIte]
      rw [List.pairwise_cons]
      refine ⟨fun y hy => ?_, hs.2⟩
      have := hs.1 y hy
      unfold Below at *; omega
    · rename_i hd; simp only [hd, ↓reduceIte]
      rw [List.pairwise_cons]
      refine ⟨fun y hy => ?_, ih hs.2 h⟩
      rcases mem_setChunk hy with hy | rfl
      · exact hs.1 y hy
      · have := hs.1 _ (lookup_mem h)
        unfold Below at *; simp at this; omega

theorem lookup_of_mem_sorted {c : Chunk} {l : List Chunk} (hs : l.Pairwise Below) (hm : c ∈ l) :
    lookup c.1 l = some c.2 := by
  induction l with
  | nil => cases hm
  | cons d l ih =>
    rw [List.pairwise_cons] at hs
    simp only [lookup]
    rcases List.mem_cons.1 hm with rfl | h
    · simp
    · have := hs.1 c h
      have hne : ¬ d.1 = c.1 := by unfold Below at this; omega
      simp only [hne, ↓reduceIte]
      exact ih hs.2 h

/-- what the step-1 loop of malloc returns -/
theorem scan_inl {len a} {l : List Chunk} {s sfp} (h : scan len l s sfp = .inl a) :
    (a, len) ∈ l := by
  induction l generalizing s sfp with
  | nil => simp [scan] at h
  | cons c l ih =>
    simp only [scan] at h
    split at h
    · exact List.mem_cons_of_mem _ (ih h)
    · split at h
      · rename_i h2; cases h; cases c; simp at h2; subst h2; simp
      · split at h
        · exact List.mem_cons_of_mem _ (ih h)
        · exact List.mem_cons_of_mem _ (ih h)

theorem scan_inr {len s' sfp'} {L l : List Chunk} {s sfp} (h : scan len l s sfp = .inr (s', sfp'))
    (hsub : ∀ c ∈ l, c ∈ L) (h0 : s = 0 ∨ ((sfp, s) ∈ L ∧ len < s)) :
    s' = 0 ∨ ((sfp', s') ∈ L ∧ len < s') := by
  induction l generalizing s sfp with
  | nil => simp [scan] at h; rcases h with ⟨rfl, rfl⟩; exact h0
  | cons c l ih =>
    simp only [scan] at h
    have hsub' : ∀ c ∈ l, c ∈ L := fun c hc => hsub c (List.mem_cons_of_mem _ hc)
    split at h
    · exact ih h hsub' h0
    · split at h
      · cases h
      · split at h
        · refine ih h hsub' (Or.inr ⟨hsub c (by simp), ?_⟩)
          omega
        · exact ih h hsub' h0


theorem le_roundLen (W len : Nat) : len ≤ roundLen W len := by
  unfold roundLen; split <;> omega

theorem roundLen_dvd (W len : Nat) (hW : 0 < W) : W ∣ roundLen W len := by
  unfold roundLen
  split
  · have h1 := Nat.div_add_mod len W
    have h2 := Nat.mod_lt len hW
    refine ⟨len / W + 1, ?_⟩
    rw [Nat.mul_add, Nat.mul_one]; omega
  · rename_i h; simp at h; exact Nat.dvd_of_mod_eq_zero h

structure CfgOK (cfg : Cfg) : Prop where
  pos : 0 < cfg.W
  w8 : cfg.W % 8 = 0

theorem reqLen_props (cfg : Cfg) (ok : CfgOK cfg) (n : Nat) :
    n ≤ minLen (roundLen cfg.W n) ∧ 8 ≤ minLen (roundLen cfg.W n) ∧ minLen (roundLen cfg.W n) % 8 = 0 := by
  have h1 := le_roundLen cfg.W n
  have h2 := roundLen_dvd cfg.W n ok.pos
  have h3 : 8 ∣ roundLen cfg.W n := Nat.dvd_trans (Nat.dvd_of_mod_eq_zero ok.w8) h2
  unfold minLen
  split <;> omega

structure HInv (cfg : Cfg) (h : Heap) : Prop where
  tile : ∀ x, cnt x h.flp + cnt x h.live = if x < h.brk then 1 else 0
  sorted : h.flp.Pairwise Below
  notTop : ∀ f ∈ h.flp, f.1 + 8 + f.2 ≠ h.brk
  wfF : ∀ c ∈ h.flp, 8 ≤ c.2 ∧ c.2 % 8 = 0 ∧ c.1 % 8 = 0
  wfL : ∀ c ∈ h.live, 8 ≤ c.2 ∧ c.2 % 8 = 0 ∧ c.1 % 8 = 0
  brk8 : h.brk % 8 = 0
  lim : cfg.lim ≠ 0 → h.brk ≤ cfg.lim

theorem HInv.fin_le_brk {cfg h} (hi : HInv cfg h) {c : Chunk} (hc : c ∈ h.flp ∨ c ∈ h.live) :
    c.1 + 8 + c.2 ≤ h.brk := by
  have ht := hi.tile (c.1 + 8 + c.2 - 1)
  have hx : hasN (c.1 + 8 + c.2 - 1) c = 1 := by unfold hasN; split <;> omega
  have : 1 ≤ cnt (c.1 + 8 + c.2 - 1) h.flp + cnt (c.1 + 8 + c.2 - 1) h.live := by
    rcases hc with hc | hc
    · have := cnt_pos_of_mem hc hx; omega
    · have := cnt_pos_of_mem hc hx; omega
  split at ht <;> omega

theorem hasN_split (x a s k : Nat) (hk : k ≤ s) :
    hasN x (a, s) = hasN x (a, s - k - 8) + hasN x (a + (s - k), k) ∨ s - k < 8 := by
  by_cases h : s - k < 8
  · exact Or.inr h
  · left; unfold hasN; simp only; split <;> split <;> split <;> omega

theorem malloc_inv (cfg : Cfg) (ok : CfgOK cfg) (h : Heap) (n : Nat) (hi : HInv cfg h) :
    HInv cfg (malloc cfg h n).h := by
  obtain ⟨hn, hn8, hnm⟩ := reqLen_props cfg ok n
  unfold malloc
  generalize minLen (roundLen cfg.W n) = len at *
  simp only
  split
  · -- exact fit
    rename_i a hsc
    have hm := scan_inl hsc
    have hl := lookup_of_mem_sorted hi.sorted hm
    simp only at hl
    have hw := hi.wfF _ hm
    refine ⟨fun x => ?_, hi.sorted.sublist (remove_sublist _ _), fun f hf => hi.notTop f (mem_remove hf),
      fun c hc => hi.wfF c (mem_remove hc), fun c hc => ?_, hi.brk8, hi.lim⟩
    · have := hi.tile x; have := cnt_remove (x := x) hl; simp only [cnt_cons]; omega
    · rcases List.mem_cons.1 hc with rfl | hc
      · exact hw
      · exact hi.wfL c hc
  · rename_i s sfp1 hsc
    have hb := scan_inr (L := h.flp) hsc (fun c hc => hc) (Or.inl rfl)
    split
    · rename_i hs0
      have ⟨hm, hlt⟩ := hb.resolve_left hs0
      have hl := lookup_of_mem_sorted hi.sorted hm
      simp only at hl
      have hw := hi.wfF _ hm
      split
      · -- whole chunk
        refine ⟨fun x => ?_, hi.sorted.sublist (remove_sublist _ _), fun f hf => hi.notTop f (mem_remove hf),
          fun c hc => hi.wfF c (mem_remove hc), fun c hc => ?_, hi.brk8, hi.lim⟩
        · have := hi.tile x; have := cnt_remove (x := x) hl; simp only [cnt_cons]; omega
        · rcases List.mem_cons.1 hc with rfl | hc
          · exact hw
          · exact hi.wfL c hc
      · -- split
        rename_i hsp
        have hfin := hi.fin_le_brk (Or.inl hm)
        simp only at hfin hw
        refine ⟨fun x => ?_, sorted_setChunk hi.sorted hl (by simp) (by simp; omega), fun f hf => ?_,
          fun c hc => ?_, fun c hc => ?_, hi.brk8, hi.lim⟩
        · have := hi.tile x; have := cnt_setChunk (x := x) (new := (sfp1, s - len - 8)) hl
          have := hasN_split x sfp1 s len (by omega)
          simp only [cnt_cons]; omega
        · rcases mem_setChunk hf with hf | rfl
          · exact hi.notTop f hf
          · simp only; omega
        · rcases mem_setChunk hc with hc | rfl
          · exact hi.wfF c hc
          · simp only; omega
        · rcases List.mem_cons.1 hc with rfl | hc
          · simp only; omega
          · exact hi.wfL c hc
    · -- extend the break
      split
      · exact hi
      · rename_i hlim
        refine ⟨fun x => ?_, hi.sorted, fun f hf => ?_, hi.wfF, fun c hc => ?_, ?_, fun hl => ?_⟩
        · have := hi.tile x; simp only [cnt_cons, hasN]; split at this <;> split <;> split <;> omega
        · have := hi.fin_le_brk (Or.inl hf); simp only; omega
        · rcases List.mem_cons.1 hc with rfl | hc
          · have := hi.brk8; simp only; omega
          · exact hi.wfL c hc
        · have := hi.brk8; simp only; omega
        · have := hi.lim hl; simp only at *
          have hlim' : availOf cfg.lim h.brk ≥ len ∧ availOf cfg.lim h.brk ≥ len + 8 := by
            by_cases hq : availOf cfg.lim h.brk ≥ len ∧ availOf cfg.lim h.brk ≥ len + 8
            · exact hq
            · exact absurd ⟨hl, hq⟩ hlim
          unfold availOf at hlim'
          split at hlim' <;> omega

end Igris.C10
