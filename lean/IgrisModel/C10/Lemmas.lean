import IgrisModel.C10.Model
namespace Igris.C10
end Igris.C10
