/-
  C10 — helper lemmas and specification vocabulary.

  Heap
    hasN / cnt      number of chunks that contain a given byte; the tiling
                    invariant is  ∀ x, cnt x (flp ++ live) = [x < brk]
    Below           free-list order: end of c < address of d (ordered, not adjacent)
    HInv            the inductive heap invariant; malloc_inv / free_inv /
                    realloc_inv / run_inv
    Made            chunks produced by coalescing: address and end are those of
                    constituents
    Ev.lo/hi, Ev.Avoids, Ev.Inside, *_evs_where, *_evs_avoid   where the stores go
    Mem, Ev.Step, Exec                                         memory semantics of the events
    realloc_where, realloc_prefix', realloc_result, step_keeps_others
    Reach           states reachable by a history from the initial heap
  Pools
    cells, engage_eq, PInv (free ++ live is a permutation of the cells),
    IInv (igris::pool: _count = length of the free list), SInv (object ledger)
-/
import IgrisModel.C10.Model
namespace Igris.C10

/-- 1 if byte `x` lies in the chunk (header or payload), else 0 -/
def hasN (x : Nat) (c : Chunk) : Nat := if c.1 ≤ x ∧ x < c.1 + 8 + c.2 then 1 else 0

/-- number of chunks of the list that contain byte `x` -/
def cnt (x : Nat) : List Chunk → Nat
  | [] => 0
  | c :: l => hasN x c + cnt x l

@[simp] theorem cnt_nil (x) : cnt x [] = 0 := rfl
@[simp] theorem cnt_cons (x c l) : cnt x (c :: l) = hasN x c + cnt x l := rfl
theorem cnt_append (x l₁ l₂) : cnt x (l₁ ++ l₂) = cnt x l₁ + cnt x l₂ := by
  induction l₁ with
  | nil => simp
  | cons c l ih => simp [ih]; omega

theorem hasN_le_one (x c) : hasN x c ≤ 1 := by unfold hasN; split <;> omega

theorem cnt_pos_of_mem {x c l} (hm : c ∈ l) (hx : hasN x c = 1) : 1 ≤ cnt x l := by
  induction l with
  | nil => cases hm
  | cons d l ih =>
    rcases List.mem_cons.1 hm with rfl | h
    · simp; omega
    · have := ih h; simp; omega

theorem hasN_merge (x : Nat) (a b : Chunk) (h : a.1 + 8 + a.2 = b.1) :
    hasN x (a.1, a.2 + (b.2 + 8)) = hasN x a + hasN x b := by
  unfold hasN; simp only; split <;> split <;> split <;> omega

theorem disj_of_hasN (c d : Chunk) (h : ∀ x, hasN x c + hasN x d ≤ 1) :
    c.1 + 8 + c.2 ≤ d.1 ∨ d.1 + 8 + d.2 ≤ c.1 := by
  have := h (max c.1 d.1)
  unfold hasN at this
  split at this <;> split at this <;> omega

theorem lookup_mem {a s} {l : List Chunk} (h : lookup a l = some s) : (a, s) ∈ l := by
  induction l with
  | nil => simp [lookup] at h
  | cons c l ih =>
    simp only [lookup] at h
    split at h
    · rename_i hc; cases h; cases c; simp at hc; subst hc; simp
    · exact List.mem_cons_of_mem _ (ih h)

theorem cnt_remove {a s x} {l : List Chunk} (h : lookup a l = some s) :
    cnt x l = cnt x (remove a l) + hasN x (a, s) := by
  induction l with
  | nil => simp [lookup] at h
  | cons c l ih =>
    simp only [lookup] at h
    simp only [remove]
    split at h
    · rename_i hc; cases h; cases c; simp at hc; subst hc; simp; omega
    · rename_i hc; simp [hc, ih h]; omega

theorem cnt_setChunk {a s x new} {l : List Chunk} (h : lookup a l = some s) :
    cnt x (setChunk a new l) + hasN x (a, s) = cnt x l + hasN x new := by
  induction l with
  | nil => simp [lookup] at h
  | cons c l ih =>
    simp only [lookup] at h
    simp only [setChunk]
    split at h
    · rename_i hc; cases h; cases c; simp at hc; subst hc; simp; omega
    · rename_i hc; simp [hc]; have := ih h; omega


theorem mem_remove {a c} {l : List Chunk} (h : c ∈ remove a l) : c ∈ l := by
  induction l with
  | nil => simp [remove] at h
  | cons d l ih =>
    simp only [remove] at h
    split at h
    · exact List.mem_cons_of_mem _ h
    · rcases List.mem_cons.1 h with rfl | h
      · simp
      · exact List.mem_cons_of_mem _ (ih h)

theorem remove_sublist (a) (l : List Chunk) : (remove a l).Sublist l := by
  induction l with
  | nil => simp [remove]
  | cons d l ih =>
    simp only [remove]
    split
    · exact List.sublist_cons_self _ _
    · exact ih.cons_cons _

theorem mem_setChunk {a c new} {l : List Chunk} (h : c ∈ setChunk a new l) : c ∈ l ∨ c = new := by
  induction l with
  | nil => simp [setChunk] at h
  | cons d l ih =>
    simp only [setChunk] at h
    split at h
    · rcases List.mem_cons.1 h with rfl | h
      · exact Or.inr rfl
      · exact Or.inl (List.mem_cons_of_mem _ h)
    · rcases List.mem_cons.1 h with rfl | h
      · simp
      · rcases ih h with h | h
        · exact Or.inl (List.mem_cons_of_mem _ h)
        · exact Or.inr h

/-- strictly address ordered and not adjacent -/
def Below (c d : Chunk) : Prop := c.1 + 8 + c.2 < d.1

theorem sorted_setChunk {a s new} {l : List Chunk} (hs : l.Pairwise Below) (h : lookup a l = some s)
    (h1 : a ≤ new.1) (h2 : new.1 + 8 + new.2 ≤ a + 8 + s) : (setChunk a new l).Pairwise Below := by
  induction l with
  | nil => simp [setChunk]
  | cons d l ih =>
    simp only [lookup] at h
    simp only [setChunk]
    rw [List.pairwise_cons] at hs
    split at h
    · rename_i hd; cases h
      simp only [hd, ↓reduceIte]
      rw [List.pairwise_cons]
      refine ⟨fun y hy => ?_, hs.2⟩
      have := hs.1 y hy
      unfold Below at *; omega
    · rename_i hd; simp only [hd, ↓reduceIte]
      rw [List.pairwise_cons]
      refine ⟨fun y hy => ?_, ih hs.2 h⟩
      rcases mem_setChunk hy with hy | rfl
      · exact hs.1 y hy
      · have := hs.1 _ (lookup_mem h)
        unfold Below at *; simp at this; omega

theorem lookup_of_mem_sorted {c : Chunk} {l : List Chunk} (hs : l.Pairwise Below) (hm : c ∈ l) :
    lookup c.1 l = some c.2 := by
  induction l with
  | nil => cases hm
  | cons d l ih =>
    rw [List.pairwise_cons] at hs
    simp only [lookup]
    rcases List.mem_cons.1 hm with rfl | h
    · simp
    · have := hs.1 c h
      have hne : ¬ d.1 = c.1 := by unfold Below at this; omega
      simp only [hne, ↓reduceIte]
      exact ih hs.2 h

/-- what the step-1 loop of malloc returns -/
theorem scan_inl {len a} {l : List Chunk} {s sfp} (h : scan len l s sfp = .inl a) :
    (a, len) ∈ l := by
  induction l generalizing s sfp with
  | nil => simp [scan] at h
  | cons c l ih =>
    simp only [scan] at h
    split at h
    · exact List.mem_cons_of_mem _ (ih h)
    · split at h
      · rename_i h2; cases h; cases c; simp at h2; subst h2; simp
      · split at h
        · exact List.mem_cons_of_mem _ (ih h)
        · exact List.mem_cons_of_mem _ (ih h)

theorem scan_inr {len s' sfp'} {L l : List Chunk} {s sfp} (h : scan len l s sfp = .inr (s', sfp'))
    (hsub : ∀ c ∈ l, c ∈ L) (h0 : s = 0 ∨ ((sfp, s) ∈ L ∧ len < s)) :
    s' = 0 ∨ ((sfp', s') ∈ L ∧ len < s') := by
  induction l generalizing s sfp with
  | nil => simp [scan] at h; rcases h with ⟨rfl, rfl⟩; exact h0
  | cons c l ih =>
    simp only [scan] at h
    have hsub' : ∀ c ∈ l, c ∈ L := fun c hc => hsub c (List.mem_cons_of_mem _ hc)
    split at h
    · exact ih h hsub' h0
    · split at h
      · cases h
      · split at h
        · refine ih h hsub' (Or.inr ⟨hsub c (by simp), ?_⟩)
          omega
        · exact ih h hsub' h0


theorem le_roundLen (W len : Nat) : len ≤ roundLen W len := by
  unfold roundLen; split <;> omega

theorem roundLen_dvd (W len : Nat) (hW : 0 < W) : W ∣ roundLen W len := by
  unfold roundLen
  split
  · have h1 := Nat.div_add_mod len W
    have h2 := Nat.mod_lt len hW
    refine ⟨len / W + 1, ?_⟩
    rw [Nat.mul_add, Nat.mul_one]; omega
  · rename_i h; simp at h; exact Nat.dvd_of_mod_eq_zero h

structure CfgOK (cfg : Cfg) : Prop where
  pos : 0 < cfg.W
  w8 : cfg.W % 8 = 0

theorem reqLen_props (cfg : Cfg) (ok : CfgOK cfg) (n : Nat) :
    n ≤ minLen (roundLen cfg.W n) ∧ 8 ≤ minLen (roundLen cfg.W n) ∧ minLen (roundLen cfg.W n) % 8 = 0 := by
  have h1 := le_roundLen cfg.W n
  have h2 := roundLen_dvd cfg.W n ok.pos
  have h3 : 8 ∣ roundLen cfg.W n := Nat.dvd_trans (Nat.dvd_of_mod_eq_zero ok.w8) h2
  unfold minLen
  split <;> omega

structure HInv (cfg : Cfg) (h : Heap) : Prop where
  tile : ∀ x, cnt x h.flp + cnt x h.live = if x < h.brk then 1 else 0
  sorted : h.flp.Pairwise Below
  notTop : ∀ f ∈ h.flp, f.1 + 8 + f.2 ≠ h.brk
  wfF : ∀ c ∈ h.flp, 8 ≤ c.2 ∧ c.2 % 8 = 0 ∧ c.1 % 8 = 0
  wfL : ∀ c ∈ h.live, 8 ≤ c.2 ∧ c.2 % 8 = 0 ∧ c.1 % 8 = 0
  brk8 : h.brk % 8 = 0
  lim : cfg.lim ≠ 0 → h.brk ≤ cfg.lim

theorem HInv.fin_le_brk {cfg h} (hi : HInv cfg h) {c : Chunk} (hc : c ∈ h.flp ∨ c ∈ h.live) :
    c.1 + 8 + c.2 ≤ h.brk := by
  have ht := hi.tile (c.1 + 8 + c.2 - 1)
  have hx : hasN (c.1 + 8 + c.2 - 1) c = 1 := by unfold hasN; split <;> omega
  have : 1 ≤ cnt (c.1 + 8 + c.2 - 1) h.flp + cnt (c.1 + 8 + c.2 - 1) h.live := by
    rcases hc with hc | hc
    · have := cnt_pos_of_mem hc hx; omega
    · have := cnt_pos_of_mem hc hx; omega
  split at ht <;> omega

theorem hasN_split (x a s k : Nat) (hk : k ≤ s) :
    hasN x (a, s) = hasN x (a, s - k - 8) + hasN x (a + (s - k), k) ∨ s - k < 8 := by
  by_cases h : s - k < 8
  · exact Or.inr h
  · left; unfold hasN; simp only; split <;> split <;> split <;> omega

theorem malloc_inv (cfg : Cfg) (ok : CfgOK cfg) (h : Heap) (n : Nat) (hi : HInv cfg h) :
    HInv cfg (malloc cfg h n).h := by
  obtain ⟨hn, hn8, hnm⟩ := reqLen_props cfg ok n
  unfold malloc
  generalize minLen (roundLen cfg.W n) = len at *
  simp only
  split
  · -- exact fit
    rename_i a hsc
    have hm := scan_inl hsc
    have hl := lookup_of_mem_sorted hi.sorted hm
    simp only at hl
    have hw := hi.wfF _ hm
    refine ⟨fun x => ?_, hi.sorted.sublist (remove_sublist _ _), fun f hf => hi.notTop f (mem_remove hf),
      fun c hc => hi.wfF c (mem_remove hc), fun c hc => ?_, hi.brk8, hi.lim⟩
    · have := hi.tile x; have := cnt_remove (x := x) hl; simp only [cnt_cons]; omega
    · rcases List.mem_cons.1 hc with rfl | hc
      · exact hw
      · exact hi.wfL c hc
  · rename_i s sfp1 hsc
    have hb := scan_inr (L := h.flp) hsc (fun c hc => hc) (Or.inl rfl)
    split
    · rename_i hs0
      have ⟨hm, hlt⟩ := hb.resolve_left hs0
      have hl := lookup_of_mem_sorted hi.sorted hm
      simp only at hl
      have hw := hi.wfF _ hm
      split
      · -- whole chunk
        refine ⟨fun x => ?_, hi.sorted.sublist (remove_sublist _ _), fun f hf => hi.notTop f (mem_remove hf),
          fun c hc => hi.wfF c (mem_remove hc), fun c hc => ?_, hi.brk8, hi.lim⟩
        · have := hi.tile x; have := cnt_remove (x := x) hl; simp only [cnt_cons]; omega
        · rcases List.mem_cons.1 hc with rfl | hc
          · exact hw
          · exact hi.wfL c hc
      · -- split
        rename_i hsp
        have hfin := hi.fin_le_brk (Or.inl hm)
        simp only at hfin hw
        refine ⟨fun x => ?_, sorted_setChunk hi.sorted hl (by simp) (by simp; omega), fun f hf => ?_,
          fun c hc => ?_, fun c hc => ?_, hi.brk8, hi.lim⟩
        · have := hi.tile x; have := cnt_setChunk (x := x) (new := (sfp1, s - len - 8)) hl
          have := hasN_split x sfp1 s len (by omega)
          simp only [cnt_cons]; omega
        · rcases mem_setChunk hf with hf | rfl
          · exact hi.notTop f hf
          · simp only; omega
        · rcases mem_setChunk hc with hc | rfl
          · exact hi.wfF c hc
          · simp only; omega
        · rcases List.mem_cons.1 hc with rfl | hc
          · simp only; omega
          · exact hi.wfL c hc
    · -- extend the break
      split
      · exact hi
      · rename_i hlim
        refine ⟨fun x => ?_, hi.sorted, fun f hf => ?_, hi.wfF, fun c hc => ?_, ?_, fun hl => ?_⟩
        · have := hi.tile x; simp only [cnt_cons, hasN]; split at this <;> split <;> split <;> omega
        · have := hi.fin_le_brk (Or.inl hf); simp only; omega
        · rcases List.mem_cons.1 hc with rfl | hc
          · have := hi.brk8; simp only; omega
          · exact hi.wfL c hc
        · have := hi.brk8; simp only; omega
        · have := hi.lim hl; simp only at *
          have hlim' : availOf cfg.lim h.brk ≥ len ∧ availOf cfg.lim h.brk ≥ len + 8 := by
            by_cases hq : availOf cfg.lim h.brk ≥ len ∧ availOf cfg.lim h.brk ≥ len + 8
            · exact hq
            · exact absurd ⟨hl, hq⟩ hlim
          unfold availOf at hlim'
          split at hlim' <;> omega


theorem cnt_insUp (x : Nat) (N : Chunk) (l : List Chunk) : cnt x (insUp N l) = cnt x l + hasN x N := by
  cases l with
  | nil => simp [insUp]
  | cons fp1 rest =>
    simp only [insUp]
    split
    · rename_i h; simp only [cnt_cons, hasN_merge x N fp1 h]; omega
    · simp only [cnt_cons]; omega

theorem cnt_mergeDown (x : Nat) (fp2 : Chunk) (l : List Chunk) :
    cnt x (mergeDown fp2 l) = hasN x fp2 + cnt x l := by
  cases l with
  | nil => simp [mergeDown]
  | cons new tl =>
    simp only [mergeDown]
    split
    · rename_i h; simp only [cnt_cons, hasN_merge x fp2 new h]; omega
    · simp only [cnt_cons]

theorem cnt_freeWalk (x : Nat) (N : Chunk) (fp2 : Chunk) (rest : List Chunk) :
    cnt x (freeWalk N fp2 rest) = hasN x fp2 + cnt x rest + hasN x N := by
  induction rest generalizing fp2 with
  | nil => simp [freeWalk, cnt_mergeDown]
  | cons fp1 r ih =>
    simp only [freeWalk]
    split
    · simp only [cnt_cons, ih]; omega
    · simp only [cnt_mergeDown, cnt_insUp, cnt_cons]; omega

theorem lowerBrk_spec (brk : Nat) (l : List Chunk) :
    (lowerBrk brk l = (l, brk) ∧ ∀ f, l.getLast? = some f → f.1 + 8 + f.2 ≠ brk) ∨
    ∃ l' f, l = l' ++ [f] ∧ f.1 + 8 + f.2 = brk ∧ lowerBrk brk l = (l', f.1) := by
  induction l with
  | nil => left; simp [lowerBrk]
  | cons f r ih =>
    cases r with
    | nil =>
      simp only [lowerBrk]
      split
      · right; exact ⟨[], f, by simp, by assumption, rfl⟩
      · left; simp; assumption
    | cons g r =>
      simp only [lowerBrk]
      rcases ih with ⟨h1, h2⟩ | ⟨l', f', h1, h2, h3⟩
      · left; rw [h1]; simp; simpa using h2
      · right; refine ⟨f :: l', f', by simp [h1], h2, by rw [h3]⟩

/-- a chunk made of (merged) chunks of `S`: its address and its end are the
address / end of members of `S`, and its size is well-formed -/
def Made (S : List Chunk) (y : Chunk) : Prop :=
  (∃ g ∈ S, y.1 = g.1) ∧ (∃ g ∈ S, y.1 + 8 + y.2 = g.1 + 8 + g.2) ∧ 8 ≤ y.2 ∧ y.2 % 8 = 0

theorem Made.base {S : List Chunk} {c : Chunk} (hc : c ∈ S) (h8 : 8 ≤ c.2) (hm : c.2 % 8 = 0) : Made S c :=
  ⟨⟨c, hc, rfl⟩, ⟨c, hc, rfl⟩, h8, hm⟩

theorem Made.merge {S : List Chunk} {a b : Chunk} (ha : Made S a) (hb : Made S b) (h : a.1 + 8 + a.2 = b.1) :
    Made S (a.1, a.2 + (b.2 + 8)) := by
  obtain ⟨a1, _, a3, a4⟩ := ha
  obtain ⟨_, ⟨g, hg, hg'⟩, b3, b4⟩ := hb
  refine ⟨a1, ⟨g, hg, ?_⟩, ?_, ?_⟩ <;> simp only <;> omega

theorem insUp_made {S : List Chunk} {N : Chunk} {l : List Chunk} (hN : Made S N)
    (hl : ∀ g ∈ l, Made S g) : ∀ y ∈ insUp N l, Made S y := by
  cases l with
  | nil => simp [insUp]; exact hN
  | cons fp1 rest =>
    intro y hy
    simp only [insUp] at hy
    split at hy
    · rename_i h
      rcases List.mem_cons.1 hy with rfl | hy
      · exact hN.merge (hl fp1 (by simp)) h
      · exact hl y (by simp [hy])
    · rcases List.mem_cons.1 hy with rfl | hy
      · exact hN
      · exact hl y hy

theorem mergeDown_made {S : List Chunk} {fp2 : Chunk} {l : List Chunk} (h2 : Made S fp2)
    (hl : ∀ g ∈ l, Made S g) : ∀ y ∈ mergeDown fp2 l, Made S y := by
  cases l with
  | nil => simp [mergeDown]; exact h2
  | cons new tl =>
    intro y hy
    simp only [mergeDown] at hy
    split at hy
    · rename_i h
      rcases List.mem_cons.1 hy with rfl | hy
      · exact h2.merge (hl new (by simp)) h
      · exact hl y (by simp [hy])
    · rcases List.mem_cons.1 hy with rfl | hy
      · exact h2
      · exact hl y hy

theorem freeWalk_made {S : List Chunk} {N fp2 : Chunk} {rest : List Chunk} (hN : Made S N)
    (h2 : Made S fp2) (hl : ∀ g ∈ rest, Made S g) : ∀ y ∈ freeWalk N fp2 rest, Made S y := by
  induction rest generalizing fp2 with
  | nil =>
    simp only [freeWalk]
    exact mergeDown_made h2 (by simpa using hN)
  | cons fp1 r ih =>
    simp only [freeWalk]
    split
    · intro y hy
      rcases List.mem_cons.1 hy with rfl | hy
      · exact h2
      · exact ih (hl fp1 (by simp)) (fun g hg => hl g (by simp [hg])) y hy
    · exact mergeDown_made h2 (insUp_made hN hl)


theorem insUp_sorted {N fp1 : Chunk} {r : List Chunk} (hs : (fp1 :: r).Pairwise Below)
    (h : N.1 + 8 + N.2 ≤ fp1.1) : (insUp N (fp1 :: r)).Pairwise Below := by
  rw [List.pairwise_cons] at hs
  simp only [insUp]
  split
  · rw [List.pairwise_cons]
    refine ⟨fun y hy => ?_, hs.2⟩
    have := hs.1 y hy; unfold Below at *; simp only; omega
  · rw [List.pairwise_cons, List.pairwise_cons]
    refine ⟨fun y hy => ?_, hs⟩
    rcases List.mem_cons.1 hy with rfl | hy
    · unfold Below; omega
    · have := hs.1 y hy; unfold Below at *; omega

/-- head and tail of `insUp` -/
theorem insUp_shape (N fp1 : Chunk) (r : List Chunk) :
    ∃ c tl, insUp N (fp1 :: r) = c :: tl ∧ c.1 = N.1 ∧ (∀ y ∈ tl, y ∈ fp1 :: r) := by
  simp only [insUp]
  split
  · exact ⟨_, _, rfl, rfl, fun y hy => List.mem_cons_of_mem _ hy⟩
  · exact ⟨_, _, rfl, rfl, fun y hy => hy⟩

theorem mergeDown_sorted {fp2 c : Chunk} {tl : List Chunk} (hs : (c :: tl).Pairwise Below)
    (h1 : fp2.1 + 8 + fp2.2 ≤ c.1) (h2 : ∀ y ∈ tl, Below fp2 y) : (mergeDown fp2 (c :: tl)).Pairwise Below := by
  simp only [mergeDown]
  rw [List.pairwise_cons] at hs
  split
  · rw [List.pairwise_cons]
    refine ⟨fun y hy => ?_, hs.2⟩
    have := hs.1 y hy; unfold Below at *; simp only; omega
  · rw [List.pairwise_cons, List.pairwise_cons]
    refine ⟨fun y hy => ?_, hs⟩
    rcases List.mem_cons.1 hy with rfl | hy
    · unfold Below; omega
    · exact h2 y hy

theorem freeWalk_sorted {N fp2 : Chunk} {rest : List Chunk} (hs : (fp2 :: rest).Pairwise Below)
    (h2 : fp2.1 < N.1) (hd : ∀ f ∈ fp2 :: rest, f.1 + 8 + f.2 ≤ N.1 ∨ N.1 + 8 + N.2 ≤ f.1)
    (hN : 8 ≤ N.2 ∧ N.2 % 8 = 0) (hw : ∀ f ∈ fp2 :: rest, 8 ≤ f.2 ∧ f.2 % 8 = 0) :
    (freeWalk N fp2 rest).Pairwise Below := by
  induction rest generalizing fp2 with
  | nil =>
    simp only [freeWalk]
    refine mergeDown_sorted (by simp) ?_ (by simp)
    have := hd fp2 (by simp); omega
  | cons fp1 r ih =>
    simp only [freeWalk]
    have hs' := hs
    rw [List.pairwise_cons] at hs
    split
    · rename_i hlt
      rw [List.pairwise_cons]
      refine ⟨fun y hy => ?_, ih hs.2 hlt (fun f hf => hd f (List.mem_cons_of_mem _ hf))
        (fun f hf => hw f (List.mem_cons_of_mem _ hf))⟩
      have hm := freeWalk_made (S := N :: fp1 :: r) (N := N) (fp2 := fp1) (rest := r)
        (Made.base (by simp) hN.1 hN.2) (Made.base (by simp) (hw fp1 (by simp)).1 (hw fp1 (by simp)).2)
        (fun g hg => Made.base (by simp [hg]) (hw g (by simp [hg])).1 (hw g (by simp [hg])).2) y hy
      obtain ⟨⟨g, hg, hga⟩, _⟩ := hm
      unfold Below
      rcases List.mem_cons.1 hg with rfl | hg
      · have := hs.1 fp1 (by simp); unfold Below at this; omega
      · have := hs.1 g hg; unfold Below at this; omega
    · rename_i hge
      have hf1 := hd fp1 (by simp)
      have hw1 := (hw fp1 (by simp)).1
      have h3 : N.1 + 8 + N.2 ≤ fp1.1 := by omega
      obtain ⟨c, tl, he, hc1, htl⟩ := insUp_shape N fp1 r
      have hsU := insUp_sorted hs.2 h3
      rw [he] at hsU ⊢
      refine mergeDown_sorted hsU ?_ (fun y hy => hs.1 y (htl y hy))
      have := hd fp2 (by simp); omega


theorem hasN_le_cnt {x c l} (hm : c ∈ l) : hasN x c ≤ cnt x l := by
  induction l with
  | nil => cases hm
  | cons d l ih =>
    rcases List.mem_cons.1 hm with rfl | h
    · simp
    · have := ih h; simp; omega

/-- under the tiling, a free and a live chunk do not overlap -/
theorem HInv.disj_free_live {cfg h} (hi : HInv cfg h) {f c : Chunk} (hf : f ∈ h.flp) (hc : c ∈ h.live) :
    f.1 + 8 + f.2 ≤ c.1 ∨ c.1 + 8 + c.2 ≤ f.1 := by
  apply disj_of_hasN
  intro x
  have := hi.tile x
  have := hasN_le_cnt (x := x) hf
  have := hasN_le_cnt (x := x) hc
  split at * <;> omega

theorem free_inv (cfg : Cfg) (h : Heap) (p : Nat) (r : Res) (hi : HInv cfg h) (hr : free h p = some r) :
    HInv cfg r.h := by
  unfold free at hr
  split at hr
  · cases hr
  rename_i hp8
  simp only at hr
  split at hr
  · cases hr
  rename_i sz hl
  have hN := lookup_mem hl
  obtain ⟨hN8, hNm, hNa⟩ := hi.wfL _ hN
  simp only at hN8 hNm hNa
  have hNfin := hi.fin_le_brk (Or.inr hN)
  simp only at hNfin
  have hdis : ∀ f ∈ h.flp, f.1 + 8 + f.2 ≤ p - 8 ∨ p - 8 + 8 + sz ≤ f.1 := fun f hf => hi.disj_free_live hf hN
  have hwfL' : ∀ c ∈ remove (p - 8) h.live, 8 ≤ c.2 ∧ c.2 % 8 = 0 ∧ c.1 % 8 = 0 :=
    fun c hc => hi.wfL c (mem_remove hc)
  have htile : ∀ x, cnt x h.flp + (cnt x (remove (p - 8) h.live) + hasN x (p - 8, sz)) = if x < h.brk then 1 else 0 := by
    intro x; have := hi.tile x; have := cnt_remove (x := x) hl; omega
  -- every chunk of the new free list is made of N and old free chunks
  have hS : ∀ g ∈ (p - 8, sz) :: h.flp, 8 ≤ g.2 ∧ g.2 % 8 = 0 ∧ g.1 % 8 = 0 ∧ g.1 + 8 + g.2 ≤ h.brk := by
    intro g hg
    rcases List.mem_cons.1 hg with rfl | hg
    · exact ⟨hN8, hNm, hNa, hNfin⟩
    · have := hi.wfF g hg; exact ⟨this.1, this.2.1, this.2.2, hi.fin_le_brk (Or.inl hg)⟩
  have hMadeWf : ∀ y, Made ((p - 8, sz) :: h.flp) y → 8 ≤ y.2 ∧ y.2 % 8 = 0 ∧ y.1 % 8 = 0 ∧ y.1 + 8 + y.2 ≤ h.brk := by
    intro y ⟨⟨g, hg, hga⟩, ⟨g', hg', hgf⟩, h8, hm⟩
    have := hS g hg; have := hS g' hg'
    refine ⟨h8, hm, ?_, ?_⟩ <;> omega
  split at hr
  · -- empty free list
    rename_i hflp
    split at hr
    · rename_i htop
      cases hr
      refine ⟨fun x => ?_, by simp, by simp, by simp, hwfL', by simp only; omega, fun hl => ?_⟩
      · have := htile x; simp only [hflp, cnt_nil, hasN] at *; split at this <;> split at this <;> split <;> omega
      · have := hi.lim hl; simp only; omega
    · rename_i htop
      cases hr
      refine ⟨fun x => ?_, by simp, ?_, ?_, hwfL', hi.brk8, hi.lim⟩
      · have := htile x; simp only [hflp, cnt_nil, cnt_cons] at *; omega
      · intro f hf; simp only [List.mem_singleton] at hf; subst hf; simp only; omega
      · intro c hc; simp only [List.mem_singleton] at hc; subst hc; exact ⟨hN8, hNm, hNa⟩
  · rename_i fp1 rest hflp
    rw [hflp] at hdis hS htile hMadeWf
    have hsorted := hi.sorted
    rw [hflp] at hsorted
    split at hr
    · -- walk, then possibly lower the break
      rename_i hlt
      cases hr
      simp only
      have hsl := freeWalk_sorted (N := (p - 8, sz)) hsorted hlt hdis ⟨hN8, hNm⟩
        (fun f hf => ⟨(hS f (List.mem_cons_of_mem _ hf)).1, (hS f (List.mem_cons_of_mem _ hf)).2.1⟩)
      have hmade := freeWalk_made (S := (p - 8, sz) :: fp1 :: rest) (N := (p - 8, sz)) (fp2 := fp1) (rest := rest)
        (Made.base (by simp) hN8 hNm)
        (Made.base (by simp) (hS fp1 (by simp)).1 (hS fp1 (by simp)).2.1)
        (fun g hg => Made.base (by simp [hg]) (hS g (by simp [hg])).1 (hS g (by simp [hg])).2.1)
      have hcw := fun x => cnt_freeWalk x (p - 8, sz) fp1 rest
      generalize freeWalk (p - 8, sz) fp1 rest = l at *
      rcases lowerBrk_spec h.brk l with ⟨he, hlast⟩ | ⟨l', f, he1, he2, he3⟩
      · rw [he]; simp only
        refine ⟨fun x => ?_, hsl, fun y hy hyb => ?_, fun c hc => ?_, hwfL', hi.brk8, hi.lim⟩
        · have := htile x; have := hcw x; simp only [cnt_cons] at *; omega
        · -- a chunk ending at the break would be the last one
          simp only at hyb
          obtain ⟨l1, l2, rfl⟩ := List.append_of_mem hy
          have hl2 : l2 = [] := by
            cases l2 with
            | nil => rfl
            | cons z l2 =>
              exfalso
              rw [List.pairwise_append] at hsl
              have hb := (List.pairwise_cons.1 hsl.2.1).1 z (by simp)
              have := hMadeWf z (hmade z (by simp))
              unfold Below at hb; omega
          subst hl2
          exact hlast y (by simp) hyb
        · have := hMadeWf c (hmade c hc); exact ⟨this.1, this.2.1, this.2.2.1⟩
      · rw [he3]; simp only
        subst he1
        rw [List.pairwise_append] at hsl
        have hf := hMadeWf f (hmade f (by simp))
        refine ⟨fun x => ?_, hsl.1, fun y hy => ?_, fun c hc => ?_, hwfL', hf.2.2.1, fun hl => ?_⟩
        · have h1 := htile x; have h2 := hcw x; simp only [cnt_cons, cnt_append, cnt_nil] at h1 h2 ⊢
          have hx : hasN x f = if f.1 ≤ x ∧ x < h.brk then 1 else 0 := by unfold hasN; rw [he2]
          split at hx <;> split at h1 <;> split <;> omega
        · have := hsl.2.2 y hy f (by simp); unfold Below at this; simp only; omega
        · have := hMadeWf c (hmade c (by simp [hc])); exact ⟨this.1, this.2.1, this.2.2.1⟩
        · have := hi.lim hl; simp only; omega
    · -- new head of the free list
      rename_i hge
      cases hr
      simp only
      have h1 := hdis fp1 (by simp)
      have h1w := hS fp1 (by simp)
      have hmade := insUp_made (S := (p - 8, sz) :: fp1 :: rest) (N := (p - 8, sz)) (l := fp1 :: rest)
        (Made.base (by simp) hN8 hNm)
        (fun g hg => Made.base (by simp [List.mem_cons.1 hg]) (hS g (List.mem_cons_of_mem _ hg)).1 (hS g (List.mem_cons_of_mem _ hg)).2.1)
      refine ⟨fun x => ?_, insUp_sorted hsorted (by simp only; omega), fun y hy hyb => ?_, fun c hc => ?_,
        hwfL', hi.brk8, hi.lim⟩
      · have := htile x; have := cnt_insUp x (p - 8, sz) (fp1 :: rest); simp only [cnt_cons] at *; omega
      · obtain ⟨_, ⟨g, hg, hgf⟩, _⟩ := hmade y hy
        simp only at hyb
        rcases List.mem_cons.1 hg with rfl | hg
        · simp only at hgf; omega
        · have := hi.notTop g (by rw [hflp]; exact hg); omega
      · have := hMadeWf c (hmade c hc); exact ⟨this.1, this.2.1, this.2.2.1⟩


theorem growScan_inl {fp2 incr : Nat} {l : List Chunk} {s : Nat} {c : Chunk}
    (h : growScan fp2 incr l s = .inl c) : c ∈ l ∧ c.1 = fp2 ∧ c.2 + 8 ≥ incr := by
  induction l generalizing s with
  | nil => simp [growScan] at h
  | cons d l ih =>
    simp only [growScan] at h
    split at h
    · rename_i hc; cases h; exact ⟨by simp, hc.1, hc.2⟩
    · have := ih h; exact ⟨List.mem_cons_of_mem _ this.1, this.2⟩

theorem hasN_split2 (x a s k : Nat) (hk : k + 8 ≤ s) :
    hasN x (a, s) = hasN x (a, k) + hasN x (a + 8 + k, s - k - 8) := by
  unfold hasN; simp only; split <;> split <;> split <;> omega

theorem realloc_inv (cfg : Cfg) (ok : CfgOK cfg) (h : Heap) (ptr : Option Nat) (n : Nat) (r : Res)
    (hi : HInv cfg h) (hr : realloc cfg h ptr n = some r) : HInv cfg r.h := by
  obtain ⟨hn, hn8, hnm⟩ := reqLen_props cfg ok n
  unfold realloc reallocCore at hr
  generalize minLen (roundLen cfg.W n) = len at *
  simp only at hr
  split at hr
  · cases hr; exact malloc_inv cfg ok h len hi
  rename_i p
  split at hr
  · cases hr
  rename_i hp8
  split at hr
  · cases hr
  rename_i sz hl
  have hN := lookup_mem hl
  obtain ⟨hN8, hNm, hNa⟩ := hi.wfL _ hN
  simp only at hN8 hNm hNa
  have hNfin := hi.fin_le_brk (Or.inr hN)
  simp only at hNfin
  have hwfset : ∀ new : Chunk, (8 ≤ new.2 ∧ new.2 % 8 = 0 ∧ new.1 % 8 = 0) →
      ∀ c ∈ setChunk (p - 8) new h.live, 8 ≤ c.2 ∧ c.2 % 8 = 0 ∧ c.1 % 8 = 0 := by
    intro new hnew c hc
    rcases mem_setChunk hc with hc | rfl
    · exact hi.wfL c hc
    · exact hnew
  split at hr
  · -- not growing
    rename_i hle
    split at hr
    · cases hr; exact hi
    · rename_i hsplit
      have h1 : HInv cfg { h with live := (p + len, sz - len - 8) :: setChunk (p - 8) (p - 8, len) h.live } := by
        refine ⟨fun x => ?_, hi.sorted, hi.notTop, hi.wfF, fun c hc => ?_, hi.brk8, hi.lim⟩
        · have := hi.tile x
          have := cnt_setChunk (x := x) (new := (p - 8, len)) hl
          have := hasN_split2 x (p - 8) sz len (by omega)
          have hpe : p - 8 + 8 + len = p + len := by omega
          rw [hpe] at this
          simp only [cnt_cons]; omega
        · rcases List.mem_cons.1 hc with rfl | hc
          · simp only; omega
          · exact hwfset _ ⟨hn8, hnm, hNa⟩ c hc
      split at hr
      · cases hr
      · rename_i r1 hf
        cases hr
        exact free_inv cfg _ _ r1 h1 hf
  · -- growing
    rename_i hgt
    split at hr
    · -- the chunk right above is free and large enough
      rename_i fp3 hg
      obtain ⟨hm3, ha3, hs3⟩ := growScan_inl hg
      have hl3 := lookup_of_mem_sorted hi.sorted hm3
      have hw3 := hi.wfF _ hm3
      have hfin3 := hi.fin_le_brk (Or.inl hm3)
      split at hr
      · rename_i hbig
        cases hr
        refine ⟨fun x => ?_, sorted_setChunk hi.sorted hl3 (by simp only; omega) (by simp only; omega),
          fun f hf => ?_, fun c hc => ?_, hwfset _ ⟨hn8, hnm, hNa⟩, hi.brk8, hi.lim⟩
        · have := hi.tile x
          have := cnt_setChunk (x := x) (new := (p - 8, len)) hl
          have := cnt_setChunk (x := x) (new := (p + len, fp3.2 - (len - sz))) hl3
          have e1 : hasN x (p - 8, sz) + hasN x (fp3.1, fp3.2) = hasN x (p - 8, len) + hasN x (p + len, fp3.2 - (len - sz)) := by
            unfold hasN; simp only; split <;> split <;> split <;> split <;> omega
          simp only at *; omega
        · rcases mem_setChunk hf with hf | rfl
          · exact hi.notTop f hf
          · have := hi.notTop fp3 hm3; simp only; omega
        · rcases mem_setChunk hc with hc | rfl
          · exact hi.wfF c hc
          · simp only; omega
      · rename_i hsmall
        cases hr
        refine ⟨fun x => ?_, hi.sorted.sublist (remove_sublist _ _), fun f hf => hi.notTop f (mem_remove hf),
          fun c hc => hi.wfF c (mem_remove hc), hwfset _ ⟨by simp only; omega, by simp only; omega, hNa⟩, hi.brk8, hi.lim⟩
        have := hi.tile x
        have := cnt_setChunk (x := x) (new := (p - 8, sz + (fp3.2 + 8))) hl
        have := cnt_remove (x := x) hl3
        have e1 := hasN_merge x (p - 8, sz) fp3 (by simp only; omega)
        simp only at *
        have e2 : hasN x (fp3.1, fp3.2) = hasN x fp3 := rfl
        omega
    · rename_i s hg
      split at hr
      · -- topmost chunk: extend in place
        rename_i htop
        split at hr
        · cases hr; exact hi
        · rename_i hlim
          cases hr
          refine ⟨fun x => ?_, hi.sorted, fun f hf => ?_, hi.wfF, hwfset _ ⟨hn8, hnm, hNa⟩, by simp only; omega, fun hl0 => ?_⟩
          · have h1 := hi.tile x
            have := cnt_setChunk (x := x) (new := (p - 8, len)) hl
            have e1 : hasN x (p - 8, len) = hasN x (p - 8, sz) + (if h.brk ≤ x ∧ x < p + len then 1 else 0) := by
              unfold hasN; simp only; split <;> split <;> split <;> omega
            simp only at *
            split at e1 <;> split at h1 <;> split <;> omega
          · have := hi.fin_le_brk (Or.inl hf); simp only; omega
          · simp only
            by_cases hq : p + len > cfg.lim
            · exact absurd ⟨hl0, hq⟩ hlim
            · omega
      · -- move
        rename_i hnot
        have him := malloc_inv cfg ok h len hi
        split at hr
        · cases hr; exact him
        · split at hr
          · cases hr
          · rename_i r2 hf2
            cases hr
            exact free_inv cfg _ _ r2 him hf2


theorem HInv.init (cfg : Cfg) : HInv cfg Heap.init :=
  ⟨fun x => by simp [Heap.init], by simp [Heap.init], by simp [Heap.init], by simp [Heap.init],
    by simp [Heap.init], by simp [Heap.init], fun _ => by simp [Heap.init]⟩

theorem step_inv (cfg : Cfg) (ok : CfgOK cfg) (h : Heap) (op : Op) (r : Res) (hi : HInv cfg h)
    (hs : step cfg h op = some r) : HInv cfg r.h := by
  cases op with
  | malloc n => simp only [step] at hs; cases hs; exact malloc_inv cfg ok h n hi
  | free p =>
    cases p with
    | none => simp only [step] at hs; cases hs; exact hi
    | some p => exact free_inv cfg h p r hi hs
  | realloc p n => exact realloc_inv cfg ok h p n r hi hs

theorem run_inv (cfg : Cfg) (ok : CfgOK cfg) (ops : List Op) (h h' : Heap) (hi : HInv cfg h)
    (hr : run cfg h ops = some h') : HInv cfg h' := by
  induction ops generalizing h with
  | nil => simp only [run] at hr; cases hr; exact hi
  | cons op ops ih =>
    simp only [run] at hr
    split at hr
    · cases hr
    · rename_i r hs
      exact ih r.h (step_inv cfg ok h op r hi hs) hr

theorem exists_of_cnt_pos {x : Nat} {l : List Chunk} (h : 1 ≤ cnt x l) : ∃ c ∈ l, hasN x c = 1 := by
  induction l with
  | nil => simp at h
  | cons d l ih =>
    by_cases hd : hasN x d = 1
    · exact ⟨d, by simp, hd⟩
    · have := hasN_le_one x d
      simp only [cnt_cons] at h
      obtain ⟨c, hc, hx⟩ := ih (by omega)
      exact ⟨c, List.mem_cons_of_mem _ hc, hx⟩

/-- the two chunks do not share a byte -/
def Disj (c d : Chunk) : Prop := c.1 + 8 + c.2 ≤ d.1 ∨ d.1 + 8 + d.2 ≤ c.1

theorem pairwise_disj_of_cnt {l : List Chunk} (h : ∀ x, cnt x l ≤ 1) : l.Pairwise Disj := by
  induction l with
  | nil => simp
  | cons c t ih =>
    rw [List.pairwise_cons]
    refine ⟨fun d hd => ?_, ih fun x => ?_⟩
    · apply disj_of_hasN
      intro x
      have := h x; have := hasN_le_cnt (x := x) hd
      simp only [cnt_cons] at *; omega
    · have := h x; simp only [cnt_cons] at this; omega

theorem HInv.no_free_of_no_live {cfg h} (hi : HInv cfg h) (hl : h.live = []) : h.flp = [] ∧ h.brk = 0 := by
  have hflp : h.flp = [] := by
    cases hf : h.flp with
    | nil => rfl
    | cons f rest =>
      exfalso
      have hfm : f ∈ h.flp := by rw [hf]; simp
      have h1 := hi.fin_le_brk (Or.inl hfm)
      have h2 := hi.notTop f hfm
      -- the byte right behind `f` is below the break, so some chunk holds it
      have ht := hi.tile (f.1 + 8 + f.2)
      rw [hl] at ht
      simp only [cnt_nil, Nat.add_zero] at ht
      rw [if_pos (by omega)] at ht
      obtain ⟨g, hg, hx⟩ := exists_of_cnt_pos (by omega : 1 ≤ cnt (f.1 + 8 + f.2) h.flp)
      have hgx : g.1 ≤ f.1 + 8 + f.2 ∧ f.1 + 8 + f.2 < g.1 + 8 + g.2 := by
        unfold hasN at hx; split at hx
        · assumption
        · cases hx
      -- `g` is a free chunk that starts at or before the end of `f` and ends behind it
      have hs := hi.sorted
      obtain ⟨l1, l2, hsplit⟩ := List.append_of_mem hfm
      rw [hsplit, List.pairwise_append, List.pairwise_cons] at hs
      rw [hsplit] at hg
      rcases List.mem_append.1 hg with hg | hg
      · have := hs.2.2 g hg f (by simp); unfold Below at this; omega
      · rcases List.mem_cons.1 hg with rfl | hg
        · omega
        · have := hs.2.1.1 g hg; unfold Below at this; omega
  refine ⟨hflp, ?_⟩
  have := hi.tile 0
  rw [hl, hflp] at this
  simp at this
  omega


/-- the bytes `[lo, hi)` an event stores to -/
def Ev.lo : Ev → Nat
  | .w a _ => a
  | .cp d _ _ => d
def Ev.hi : Ev → Nat
  | .w a n => a + n
  | .cp d _ n => d + n

/-- the event stores nothing into `[lo, hi)` -/
def Ev.Avoids (e : Ev) (lo hi : Nat) : Prop := e.hi ≤ lo ∨ hi ≤ e.lo

/-- the event stores only into `[lo, hi)` -/
def Ev.Inside (e : Ev) (lo hi : Nat) : Prop := lo ≤ e.lo ∧ e.hi ≤ hi

theorem Ev.Inside.avoids {e : Ev} {lo hi lo' hi' : Nat} (h : e.Inside lo hi) (hd : hi ≤ lo' ∨ hi' ≤ lo) :
    e.Avoids lo' hi' := by
  unfold Ev.Inside at h; unfold Ev.Avoids; omega

theorem predOf_mem {a b : Nat} {prev : Option Nat} {l : List Chunk} (h : predOf a prev l = some b) :
    prev = some b ∨ ∃ c ∈ l, c.1 = b := by
  induction l generalizing prev with
  | nil => simp [predOf] at h
  | cons c l ih =>
    simp only [predOf] at h
    split at h
    · exact Or.inl h
    · rcases ih h with h | ⟨d, hd, hb⟩
      · right; cases h; exact ⟨c, by simp, rfl⟩
      · right; exact ⟨d, List.mem_cons_of_mem _ hd, hb⟩

/-- `pred->nx = …` goes into a free chunk -/
theorem nxWrite_inside {a : Nat} {l : List Chunk} (hw : ∀ c ∈ l, 8 ≤ c.2) :
    ∀ e ∈ nxWrite (predOf a none l), ∃ f ∈ l, e.Inside f.1 (f.1 + 8 + f.2) := by
  intro e he
  cases hp : predOf a none l with
  | none => rw [hp] at he; simp [nxWrite] at he
  | some b =>
    rw [hp] at he; simp only [nxWrite, List.mem_singleton] at he; subst he
    rcases predOf_mem hp with h | ⟨c, hc, hb⟩
    · cases h
    · have := hw c hc
      exact ⟨c, hc, by simp only [Ev.Inside, Ev.lo, Ev.hi]; omega⟩

/-- every store of malloc goes into a free chunk or behind the break -/
theorem malloc_evs_where (cfg : Cfg) (h : Heap) (n : Nat) (hi : HInv cfg h) :
    ∀ e ∈ (malloc cfg h n).evs, (∃ f ∈ h.flp, e.Inside f.1 (f.1 + 8 + f.2)) ∨ h.brk ≤ e.lo := by
  have hw8 : ∀ c ∈ h.flp, 8 ≤ c.2 := fun c hc => (hi.wfF c hc).1
  unfold malloc
  generalize minLen (roundLen cfg.W n) = len
  simp only
  split
  · intro e he; exact Or.inl (nxWrite_inside hw8 e he)
  · rename_i s sfp1 hsc
    have hb := scan_inr (L := h.flp) hsc (fun c hc => hc) (Or.inl rfl)
    split
    · rename_i hs0
      have ⟨hm, hlt⟩ := hb.resolve_left hs0
      split
      · intro e he; exact Or.inl (nxWrite_inside hw8 e he)
      · rename_i hsp
        intro e he
        simp only [List.mem_cons, List.mem_nil_iff, or_false] at he
        left; refine ⟨(sfp1, s), hm, ?_⟩
        rcases he with rfl | rfl <;> simp only [Ev.Inside, Ev.lo, Ev.hi] <;> omega
    · split
      · intro e he; simp at he
      · intro e he
        simp only [List.mem_singleton] at he; subst he
        right; simp [Ev.lo]

theorem insUpEvs_inside (N : Chunk) (l : List Chunk) (h8 : 8 ≤ N.2) :
    ∀ e ∈ insUpEvs N l, e.Inside N.1 (N.1 + 8 + N.2) := by
  intro e he
  cases l with
  | nil => simp [insUpEvs] at he
  | cons fp1 r =>
    simp only [insUpEvs] at he
    split at he
    · simp only [List.mem_cons, List.mem_nil_iff, or_false] at he
      rcases he with rfl | rfl | rfl <;> simp only [Ev.Inside, Ev.lo, Ev.hi] <;> omega
    · simp only [List.mem_cons, List.mem_nil_iff, or_false] at he
      subst he; simp only [Ev.Inside, Ev.lo, Ev.hi]; omega

theorem mergeDownEvs_inside (fp2 : Chunk) (a : Nat) (h8 : 8 ≤ fp2.2) :
    ∀ e ∈ mergeDownEvs fp2 a, e.Inside fp2.1 (fp2.1 + 8 + fp2.2) := by
  intro e he
  simp only [mergeDownEvs] at he
  split at he
  · simp only [List.mem_cons, List.mem_nil_iff, or_false] at he
    rcases he with rfl | rfl | rfl <;> simp only [Ev.Inside, Ev.lo, Ev.hi] <;> omega
  · simp only [List.mem_cons, List.mem_nil_iff, or_false] at he
    subst he; simp only [Ev.Inside, Ev.lo, Ev.hi]; omega

theorem freeWalkEvs_inside (N fp2 : Chunk) (rest : List Chunk) (hN : 8 ≤ N.2)
    (hw : ∀ c ∈ fp2 :: rest, 8 ≤ c.2) :
    ∀ e ∈ freeWalkEvs N fp2 rest, ∃ f ∈ N :: fp2 :: rest, e.Inside f.1 (f.1 + 8 + f.2) := by
  induction rest generalizing fp2 with
  | nil =>
    intro e he
    simp only [freeWalkEvs] at he
    exact ⟨fp2, by simp, mergeDownEvs_inside fp2 N.1 (hw fp2 (by simp)) e he⟩
  | cons fp1 r ih =>
    intro e he
    simp only [freeWalkEvs] at he
    split at he
    · obtain ⟨f, hf, hin⟩ := ih fp1 (fun c hc => hw c (List.mem_cons_of_mem _ hc)) e he
      refine ⟨f, ?_, hin⟩
      rcases List.mem_cons.1 hf with rfl | hf
      · simp
      · simp [List.mem_cons.1 hf]
    · rcases List.mem_append.1 he with he | he
      · exact ⟨N, by simp, insUpEvs_inside N _ hN e he⟩
      · exact ⟨fp2, by simp, mergeDownEvs_inside fp2 N.1 (hw fp2 (by simp)) e he⟩

theorem lowerBrkEvs_shape (brk : Nat) (l : List Chunk) :
    ∀ e ∈ lowerBrkEvs brk l, ∃ f ∈ l, e = .w (f.1 + 8) 8 := by
  induction l with
  | nil => simp [lowerBrkEvs]
  | cons f r ih =>
    cases r with
    | nil => simp [lowerBrkEvs]
    | cons g r =>
      cases r with
      | nil =>
        intro e he
        simp only [lowerBrkEvs] at he
        split at he
        · simp only [List.mem_singleton] at he; exact ⟨f, by simp, he⟩
        · simp at he
      | cons k r =>
        intro e he
        simp only [lowerBrkEvs] at he
        obtain ⟨f', hf', h'⟩ := ih e he
        exact ⟨f', List.mem_cons_of_mem _ hf', h'⟩

/-- every store of free goes into the chunk being released or into a free chunk -/
theorem free_evs_where (cfg : Cfg) (h : Heap) (p : Nat) (r : Res) (hi : HInv cfg h)
    (hr : free h p = some r) :
    ∃ sz, lookup (p - 8) h.live = some sz ∧
      ∀ e ∈ r.evs, ∃ f ∈ (p - 8, sz) :: h.flp, e.Inside f.1 (f.1 + 8 + f.2) := by
  unfold free at hr
  split at hr
  · cases hr
  simp only at hr
  split at hr
  · cases hr
  rename_i sz hl
  refine ⟨sz, hl, ?_⟩
  have hN := lookup_mem hl
  obtain ⟨hN8, hNm, hNa⟩ := hi.wfL _ hN
  simp only at hN8
  have he0 : (Ev.w (p - 8 + 8) 8).Inside (p - 8) (p - 8 + 8 + sz) := by
    simp only [Ev.Inside, Ev.lo, Ev.hi]; omega
  split at hr
  · split at hr <;> (cases hr; intro e he; simp only [List.mem_singleton] at he; subst he; exact ⟨(p - 8, sz), by simp, he0⟩)
  · rename_i fp1 rest hflp
    have hw8 : ∀ c ∈ fp1 :: rest, 8 ≤ c.2 := fun c hc => (hi.wfF c (by rw [hflp]; exact hc)).1
    rw [hflp]
    split at hr
    · cases hr
      intro e he
      simp only [List.mem_cons, List.mem_append] at he
      rcases he with rfl | he | he
      · exact ⟨(p - 8, sz), by simp, he0⟩
      · exact freeWalkEvs_inside (p - 8, sz) fp1 rest hN8 hw8 e he
      · obtain ⟨f, hf, rfl⟩ := lowerBrkEvs_shape _ _ e he
        have hmade := freeWalk_made (S := (p - 8, sz) :: fp1 :: rest) (N := (p - 8, sz)) (fp2 := fp1) (rest := rest)
          (Made.base (by simp) hN8 hNm)
          (Made.base (by simp) (hw8 fp1 (by simp)) (hi.wfF fp1 (by rw [hflp]; simp)).2.1)
          (fun g hg => Made.base (by simp [hg]) (hw8 g (by simp [hg])) (hi.wfF g (by rw [hflp]; simp [hg])).2.1) f hf
        obtain ⟨⟨g, hg, hga⟩, _⟩ := hmade
        have hg8 : 8 ≤ g.2 := by
          rcases List.mem_cons.1 hg with rfl | hg
          · exact hN8
          · exact hw8 g hg
        exact ⟨g, hg, by simp only [Ev.Inside, Ev.lo, Ev.hi]; omega⟩
    · cases hr
      intro e he
      simp only [List.mem_cons] at he
      rcases he with rfl | he
      · exact ⟨(p - 8, sz), by simp, he0⟩
      · exact ⟨(p - 8, sz), by simp, insUpEvs_inside (p - 8, sz) _ hN8 e he⟩


theorem mem_remove_of_ne {a : Nat} {c : Chunk} {l : List Chunk} (hc : c ∈ l) (hne : c.1 ≠ a) : c ∈ remove a l := by
  induction l with
  | nil => cases hc
  | cons d l ih =>
    simp only [remove]
    rcases List.mem_cons.1 hc with rfl | hc
    · simp [hne]
    · split
      · exact hc
      · exact List.mem_cons_of_mem _ (ih hc)

theorem mem_setChunk_of_ne {a : Nat} {c new : Chunk} {l : List Chunk} (hc : c ∈ l) (hne : c.1 ≠ a) :
    c ∈ setChunk a new l := by
  induction l with
  | nil => cases hc
  | cons d l ih =>
    simp only [setChunk]
    rcases List.mem_cons.1 hc with rfl | hc
    · simp [hne]
    · split
      · exact List.mem_cons_of_mem _ hc
      · exact List.mem_cons_of_mem _ (ih hc)

/-- two live chunks with different addresses do not overlap -/
theorem HInv.disj_live_live {cfg h} (hi : HInv cfg h) {c : Chunk} {a sz : Nat} (hc : c ∈ h.live)
    (hl : lookup a h.live = some sz) (hne : c.1 ≠ a) : Disj c (a, sz) := by
  apply disj_of_hasN
  intro x
  have := hi.tile x
  have := cnt_remove (x := x) hl
  have := hasN_le_cnt (x := x) (mem_remove_of_ne hc hne)
  split at * <;> omega

theorem malloc_ret_none {cfg h n} (hr : (malloc cfg h n).ret = none) :
    (malloc cfg h n).h = h ∧ (malloc cfg h n).evs = [] := by
  generalize hm : malloc cfg h n = r at hr ⊢
  unfold malloc at hm
  simp only at hm
  split at hm
  · subst hm; cases hr
  · split at hm
    · split at hm <;> (subst hm; cases hr)
    · split at hm
      · subst hm; simp
      · subst hm; cases hr

theorem malloc_ret_some {cfg h n q} (hr : (malloc cfg h n).ret = some q) :
    ∃ s, (malloc cfg h n).h.live = (q - 8, s) :: h.live ∧ 8 ≤ q ∧ minLen (roundLen cfg.W n) ≤ s := by
  generalize hm : malloc cfg h n = r at hr ⊢
  unfold malloc at hm
  simp only at hm
  split at hm
  · subst hm; simp only [Option.some.injEq] at hr; subst hr; exact ⟨_, by simp, by omega, Nat.le_refl _⟩
  · rename_i s sfp1 hsc
    have hb := scan_inr (L := h.flp) hsc (fun c hc => hc) (Or.inl rfl)
    split at hm
    · rename_i hs0
      have ⟨hmm, hlt⟩ := hb.resolve_left hs0
      split at hm
      · subst hm; simp only [Option.some.injEq] at hr; subst hr; exact ⟨s, by simp, by omega, by omega⟩
      · subst hm; simp only [Option.some.injEq] at hr; subst hr; exact ⟨_, by simp, by omega, Nat.le_refl _⟩
    · split at hm
      · subst hm; cases hr
      · subst hm; simp only [Option.some.injEq] at hr; subst hr; exact ⟨_, by simp, by omega, Nat.le_refl _⟩

theorem malloc_evs_avoid (cfg : Cfg) (h : Heap) (n : Nat) (hi : HInv cfg h) :
    ∀ e ∈ (malloc cfg h n).evs, ∀ c ∈ h.live, e.Avoids c.1 (c.1 + 8 + c.2) := by
  intro e he c hc
  rcases malloc_evs_where cfg h n hi e he with ⟨f, hf, hin⟩ | hb
  · exact hin.avoids (by have := hi.disj_free_live hf hc; omega)
  · have := hi.fin_le_brk (Or.inr hc); unfold Ev.Avoids; omega

theorem free_evs_avoid (cfg : Cfg) (h : Heap) (p : Nat) (r : Res) (hi : HInv cfg h)
    (hr : free h p = some r) :
    ∀ e ∈ r.evs, ∀ c ∈ h.live, c.1 ≠ p - 8 → e.Avoids c.1 (c.1 + 8 + c.2) := by
  obtain ⟨sz, hl, hw⟩ := free_evs_where cfg h p r hi hr
  intro e he c hc hne
  obtain ⟨f, hf, hin⟩ := hw e he
  rcases List.mem_cons.1 hf with rfl | hf
  · have := hi.disj_live_live hc hl hne
    unfold Disj at this; simp only at this hin
    exact hin.avoids (by omega)
  · exact hin.avoids (by have := hi.disj_free_live hf hc; omega)


/-- where realloc stores, by outcome -/
theorem realloc_where (cfg : Cfg) (ok : CfgOK cfg) (h : Heap) (p n sz : Nat) (r : Res) (hi : HInv cfg h)
    (hl : lookup (p - 8) h.live = some sz)
    (hr : realloc cfg h (some p) n = some r) :
    let len := minLen (roundLen cfg.W n)
    (r.ret = some p ∧ ∀ e ∈ r.evs, e.Inside (p - 8) p ∨ e.Inside (p + min sz len) (p + sz) ∨
        ∃ f ∈ h.flp, e.Inside f.1 (f.1 + 8 + f.2)) ∨
    (r.ret = none ∧ r.h = h ∧ r.evs = []) ∨
    (∃ q r2, (malloc cfg h len).ret = some q ∧ free (malloc cfg h len).h p = some r2 ∧ r.h = r2.h ∧
        r.ret = some q ∧ r.evs = (malloc cfg h len).evs ++ .cp q p sz :: r2.evs ∧ sz < len) := by
  obtain ⟨hn, hn8, hnm⟩ := reqLen_props cfg ok n
  intro len
  unfold realloc reallocCore at hr
  simp only at hr
  have hlen : minLen (roundLen cfg.W n) = len := rfl
  rw [hlen] at hr hn hn8 hnm
  clear_value len
  split at hr
  · cases hr
  rename_i hp8
  rw [hl] at hr
  simp only at hr
  have hN := lookup_mem hl
  obtain ⟨hN8, hNm, hNa⟩ := hi.wfL _ hN
  simp only at hN8 hNm hNa
  split at hr
  · rename_i hle
    have hmin : min sz len = len := by omega
    split at hr
    · cases hr; left; exact ⟨rfl, by simp⟩
    · rename_i hsplit
      split at hr
      · cases hr
      · rename_i r1 hf
        cases hr
        left
        refine ⟨rfl, fun e he => ?_⟩
        simp only [List.mem_cons] at he
        rcases he with rfl | rfl | he
        · right; left; simp only [Ev.Inside, Ev.lo, Ev.hi]; omega
        · left; simp only [Ev.Inside, Ev.lo, Ev.hi]; omega
        · -- the stores of free(tail): inside the tail or inside a free chunk
          have h1 : HInv cfg { h with live := (p + len, sz - len - 8) :: setChunk (p - 8) (p - 8, len) h.live } := by
            refine ⟨fun x => ?_, hi.sorted, hi.notTop, hi.wfF, fun c hc => ?_, hi.brk8, hi.lim⟩
            · have := hi.tile x
              have := cnt_setChunk (x := x) (new := (p - 8, len)) hl
              have := hasN_split2 x (p - 8) sz len (by omega)
              have hpe : p - 8 + 8 + len = p + len := by omega
              rw [hpe] at this
              simp only [cnt_cons]; omega
            · rcases List.mem_cons.1 hc with rfl | hc
              · simp only; omega
              · rcases mem_setChunk hc with hc | rfl
                · exact hi.wfL c hc
                · exact ⟨hn8, hnm, hNa⟩
          obtain ⟨sz', hl', hw⟩ := free_evs_where cfg _ _ r1 h1 hf
          have hpe : p + len + 8 - 8 = p + len := by omega
          simp only [lookup, hpe, ↓reduceIte, Option.some.injEq] at hl'
          subst hl'
          obtain ⟨f, hf', hin⟩ := hw e he
          rw [hpe] at hf'
          rcases List.mem_cons.1 hf' with rfl | hf'
          · right; left; simp only [Ev.Inside] at hin ⊢; omega
          · right; right; exact ⟨f, hf', hin⟩
  · rename_i hgt
    have hmin : min sz len = sz := by omega
    split at hr
    · rename_i fp3 hg
      obtain ⟨hm3, ha3, hs3⟩ := growScan_inl hg
      have hw3 := hi.wfF _ hm3
      have hw8 : ∀ c ∈ h.flp, 8 ≤ c.2 := fun c hc => (hi.wfF c hc).1
      split at hr
      · rename_i hbig
        cases hr
        left
        refine ⟨rfl, fun e he => ?_⟩
        simp only [List.mem_cons] at he
        rcases he with rfl | rfl | rfl | he
        · right; right; exact ⟨fp3, hm3, by simp only [Ev.Inside, Ev.lo, Ev.hi]; omega⟩
        · right; right; exact ⟨fp3, hm3, by simp only [Ev.Inside, Ev.lo, Ev.hi]; omega⟩
        · left; simp only [Ev.Inside, Ev.lo, Ev.hi]; omega
        · right; right; exact nxWrite_inside hw8 e he
      · cases hr
        left
        refine ⟨rfl, fun e he => ?_⟩
        simp only [List.mem_cons] at he
        rcases he with rfl | he
        · left; simp only [Ev.Inside, Ev.lo, Ev.hi]; omega
        · right; right; exact nxWrite_inside hw8 e he
    · split at hr
      · split at hr
        · cases hr; right; left; exact ⟨rfl, rfl, rfl⟩
        · cases hr; left
          refine ⟨rfl, fun e he => ?_⟩
          simp only [List.mem_singleton] at he; subst he
          left; simp only [Ev.Inside, Ev.lo, Ev.hi]; omega
      · split at hr
        · rename_i hnone
          cases hr
          have := malloc_ret_none hnone
          right; left; exact ⟨rfl, this.1, this.2⟩
        · rename_i q hq
          split at hr
          · cases hr
          · rename_i r2 hf2
            cases hr
            right; right
            exact ⟨q, r2, hq, hf2, rfl, rfl, rfl, by omega⟩


/-! ### memory semantics of the events (specification vocabulary) -/

-- (`Mem`: since round 3b in Model.lean)

/-- `m'` is a possible memory after the event: a store changes nothing outside
its range (the values stored by the allocator are left unspecified), `memcpy`
copies. -/
def Ev.Step (m m' : Mem) : Ev → Prop
  | .w a n => ∀ x, ¬ (a ≤ x ∧ x < a + n) → m' x = m x
  | .cp d s n => (∀ i, i < n → m' (d + i) = m (s + i)) ∧ ∀ x, ¬ (d ≤ x ∧ x < d + n) → m' x = m x

/-- `m'` is a possible memory after the events, in order -/
def Exec : Mem → List Ev → Mem → Prop
  | m, [], m' => m' = m
  | m, e :: es, m' => ∃ m1, e.Step m m1 ∧ Exec m1 es m'

theorem Ev.Step.frame {m m' : Mem} {e : Ev} {lo hi : Nat} (hs : e.Step m m') (ha : e.Avoids lo hi) :
    ∀ x, lo ≤ x → x < hi → m' x = m x := by
  intro x h1 h2
  cases e with
  | w a n => exact hs x (by simp only [Ev.Avoids, Ev.lo, Ev.hi] at ha; omega)
  | cp d s n => exact hs.2 x (by simp only [Ev.Avoids, Ev.lo, Ev.hi] at ha; omega)

theorem Exec.frame {es : List Ev} {m m' : Mem} {lo hi : Nat} (hx : Exec m es m')
    (ha : ∀ e ∈ es, e.Avoids lo hi) : ∀ x, lo ≤ x → x < hi → m' x = m x := by
  induction es generalizing m with
  | nil => intro x _ _; simp only [Exec] at hx; rw [hx]
  | cons e es ih =>
    obtain ⟨m1, h1, h2⟩ := hx
    intro x hlo hhi
    rw [ih h2 (fun e he => ha e (List.mem_cons_of_mem _ he)) x hlo hhi]
    exact h1.frame (ha e (by simp)) x hlo hhi

theorem Exec.append {a b : List Ev} {m m' : Mem} (hx : Exec m (a ++ b) m') :
    ∃ m1, Exec m a m1 ∧ Exec m1 b m' := by
  induction a generalizing m with
  | nil => exact ⟨m, rfl, hx⟩
  | cons e a ih =>
    obtain ⟨m0, h0, h1⟩ := hx
    obtain ⟨m1, h2, h3⟩ := ih h1
    exact ⟨m1, ⟨m0, h0, h2⟩, h3⟩

theorem le_reqLen (W x : Nat) : x ≤ minLen (roundLen W x) := by
  have := le_roundLen W x
  unfold minLen; split <;> omega

/-- the pointer a request operates on -/
def Op.target : Op → Option Nat
  | .malloc _ => none
  | .free p => p
  | .realloc p _ => p

/-- stores of one request avoid every live chunk (header and payload) other
than the one the request operates on -/
theorem step_evs_avoid (cfg : Cfg) (ok : CfgOK cfg) (h : Heap) (op : Op) (r : Res) (hi : HInv cfg h)
    (hs : step cfg h op = some r) :
    ∀ e ∈ r.evs, ∀ c ∈ h.live, op.target ≠ some (c.1 + 8) → e.Avoids c.1 (c.1 + 8 + c.2) := by
  intro e he c hc hne
  cases op with
  | malloc n => simp only [step] at hs; cases hs; exact malloc_evs_avoid cfg h n hi e he c hc
  | free p =>
    cases p with
    | none => simp only [step] at hs; cases hs; simp at he
    | some p =>
      simp only [step] at hs
      have hp : c.1 ≠ p - 8 := by
        intro hcp
        have h8 : 8 ≤ p := by
          unfold free at hs; split at hs
          · cases hs
          · omega
        apply hne; simp only [Op.target]; congr 1; omega
      exact free_evs_avoid cfg h p r hi hs e he c hc hp
  | realloc p n =>
    simp only [step] at hs
    cases p with
    | none =>
      simp only [realloc, reallocCore] at hs; cases hs
      exact malloc_evs_avoid cfg h _ hi e he c hc
    | some p =>
      have h8 : 8 ≤ p := by
        unfold realloc reallocCore at hs; simp only at hs; split at hs
        · cases hs
        · omega
      have hp : c.1 ≠ p - 8 := by
        intro hcp; apply hne; simp only [Op.target]; congr 1; omega
      have hl : ∃ sz, lookup (p - 8) h.live = some sz := by
        unfold realloc reallocCore at hs; simp only at hs; split at hs
        · cases hs
        · split at hs
          · cases hs
          · rename_i sz hl; exact ⟨sz, hl⟩
      obtain ⟨sz, hl⟩ := hl
      have hN := lookup_mem hl
      have hdis := hi.disj_live_live hc hl hp
      unfold Disj at hdis; simp only at hdis
      rcases realloc_where cfg ok h p n sz r hi hl hs with ⟨_, hw⟩ | ⟨_, _, hev⟩ | ⟨q, r2, hq, hf2, _, _, hev, hlt⟩
      · rcases hw e he with hin | hin | ⟨f, hf, hin⟩
        · exact hin.avoids (by omega)
        · exact hin.avoids (by omega)
        · exact hin.avoids (by have := hi.disj_free_live hf hc; omega)
      · rw [hev] at he; simp at he
      · rw [hev] at he
        have him := malloc_inv cfg ok h (minLen (roundLen cfg.W n)) hi
        obtain ⟨s, hlive, hq8, hs⟩ := malloc_ret_some hq
        have hc1 : c ∈ (malloc cfg h (minLen (roundLen cfg.W n))).h.live := by rw [hlive]; exact List.mem_cons_of_mem _ hc
        rcases List.mem_append.1 he with he | he
        · exact malloc_evs_avoid cfg h _ hi e he c hc
        · rcases List.mem_cons.1 he with rfl | he
          · -- memcpy into the fresh chunk, which does not overlap `c`
            have hd : Disj (q - 8, s) c := by
              apply disj_of_hasN; intro x
              have := him.tile x; rw [hlive] at this
              have := hasN_le_cnt (x := x) hc
              simp only [cnt_cons] at *; split at * <;> omega
            have hmm := le_reqLen cfg.W (minLen (roundLen cfg.W n))
            unfold Disj at hd; simp only at hd
            simp only [Ev.Avoids, Ev.lo, Ev.hi]; omega
          · exact free_evs_avoid cfg _ p r2 him hf2 e he c hc1 hp


theorem realloc_prefix' (cfg : Cfg) (ok : CfgOK cfg) (h : Heap) (p n sz q : Nat) (r : Res) (hi : HInv cfg h)
    (hl : lookup (p - 8) h.live = some sz) (hr : realloc cfg h (some p) n = some r)
    (hq : r.ret = some q) (m m' : Mem) (hx : Exec m r.evs m') :
    ∀ i, i < min sz n → m' (q + i) = m (p + i) := by
  have h8 : 8 ≤ p := by
    unfold realloc reallocCore at hr; simp only at hr; split at hr
    · cases hr
    · omega
  have hN := lookup_mem hl
  obtain ⟨hN8, _, _⟩ := hi.wfL _ hN
  simp only at hN8
  have hnl := le_reqLen cfg.W n
  rcases realloc_where cfg ok h p n sz r hi hl hr with ⟨hret, hw⟩ | ⟨hret, _, _⟩ | ⟨q', r2, hq', hf2, _, hret, hev, hlt⟩
  · rw [hret] at hq; cases hq
    intro i hi'
    refine Exec.frame hx (lo := p) (hi := p + min sz (minLen (roundLen cfg.W n))) (fun e he => ?_) (p + i) (by omega) (by omega)
    rcases hw e he with hin | hin | ⟨f, hf, hin⟩
    · exact hin.avoids (by omega)
    · exact hin.avoids (by omega)
    · have := hi.disj_free_live hf hN; simp only at this
      exact hin.avoids (by omega)
  · rw [hret] at hq; cases hq
  · rw [hret] at hq; cases hq
    rw [hev] at hx
    obtain ⟨m1, hA, hB⟩ := Exec.append hx
    obtain ⟨m2, hcp, hB⟩ := hB
    have him := malloc_inv cfg ok h (minLen (roundLen cfg.W n)) hi
    obtain ⟨s, hlive, hq8, hs⟩ := malloc_ret_some hq'
    have hmm := le_reqLen cfg.W (minLen (roundLen cfg.W n))
    -- the fresh chunk does not overlap the old one
    have hd : Disj (q - 8, s) (p - 8, sz) := by
      apply disj_of_hasN; intro x
      have := him.tile x; rw [hlive] at this
      have := hasN_le_cnt (x := x) hN
      simp only [cnt_cons] at *; split at * <;> omega
    unfold Disj at hd; simp only at hd
    intro i hi'
    -- malloc does not touch the old block
    have h1 : m1 (p + i) = m (p + i) :=
      Exec.frame hA (lo := p - 8) (hi := p - 8 + 8 + sz)
        (fun e he => malloc_evs_avoid cfg h _ hi e he _ hN) (p + i) (by omega) (by omega)
    -- memcpy
    have h2 : m2 (q + i) = m1 (p + i) := hcp.1 i (by omega)
    -- free(old) does not touch the fresh chunk
    have hnew : ((q - 8, s) : Chunk) ∈ (malloc cfg h (minLen (roundLen cfg.W n))).h.live := by rw [hlive]; simp
    have h3 : m' (q + i) = m2 (q + i) :=
      Exec.frame hB (lo := q - 8) (hi := q - 8 + 8 + s)
        (fun e he => free_evs_avoid cfg _ p r2 him hf2 e he _ hnew (by simp only; omega)) (q + i) (by omega) (by omega)
    rw [h3, h2, h1]


theorem free_live {h : Heap} {p : Nat} {r : Res} (hr : free h p = some r) :
    r.h.live = remove (p - 8) h.live ∧ 8 ≤ p ∧ ∃ sz, lookup (p - 8) h.live = some sz := by
  unfold free at hr
  split at hr
  · cases hr
  simp only at hr
  split at hr
  · cases hr
  rename_i sz hl
  refine ⟨?_, by omega, sz, hl⟩
  split at hr
  · split at hr <;> (cases hr; rfl)
  · split at hr <;> (cases hr; rfl)

theorem lookup_setChunk_self {a s s' : Nat} {l : List Chunk} (h : lookup a l = some s) :
    lookup a (setChunk a (a, s') l) = some s' := by
  induction l with
  | nil => simp [lookup] at h
  | cons c l ih =>
    simp only [lookup] at h
    simp only [setChunk]
    split at h
    · rename_i hc; simp [hc, lookup]
    · rename_i hc; simp only [hc, ↓reduceIte, lookup]; exact ih h

/-- a valid request never faults -/
theorem free_total {h : Heap} {p sz : Nat} (h8 : 8 ≤ p) (hl : lookup (p - 8) h.live = some sz) :
    ∃ r, free h p = some r := by
  unfold free
  rw [if_neg (by omega)]
  simp only [hl]
  split
  · split <;> exact ⟨_, rfl⟩
  · split <;> exact ⟨_, rfl⟩

theorem realloc_total {cfg : Cfg} {h : Heap} {p sz n : Nat} (h8 : 8 ≤ p) (hl : lookup (p - 8) h.live = some sz) :
    ∃ r, realloc cfg h (some p) n = some r := by
  unfold realloc reallocCore
  simp only
  rw [if_neg (by omega)]
  simp only [hl]
  generalize minLen (roundLen cfg.W n) = len
  split
  · split
    · exact ⟨_, rfl⟩
    · have hp : p + len + 8 - 8 = p + len := by omega
      have hf := free_total (h := ⟨h.brk, h.flp, (p + len, sz - len - 8) :: setChunk (p - 8) (p - 8, len) h.live⟩)
        (p := p + len + 8) (sz := sz - len - 8) (by omega) (by simp [lookup, hp])
      obtain ⟨r, hr⟩ := hf
      rw [hr]; exact ⟨_, rfl⟩
  · split
    · split <;> exact ⟨_, rfl⟩
    · split
      · split <;> exact ⟨_, rfl⟩
      · split
        · exact ⟨_, rfl⟩
        · rename_i q hq
          obtain ⟨s, hlive, _, _⟩ := malloc_ret_some hq
          have : ∃ sz', lookup (p - 8) (malloc cfg h len).h.live = some sz' := by
            rw [hlive]; simp only [lookup]; split
            · exact ⟨_, rfl⟩
            · exact ⟨_, hl⟩
          obtain ⟨sz', hl'⟩ := this
          obtain ⟨r2, hr2⟩ := free_total h8 hl'
          rw [hr2]; exact ⟨_, rfl⟩

/-- the block returned by realloc is live afterwards and at least as large as requested -/
theorem realloc_result (cfg : Cfg) (ok : CfgOK cfg) (h : Heap) (p n sz q : Nat) (r : Res) (hi : HInv cfg h)
    (hl : lookup (p - 8) h.live = some sz) (hr : realloc cfg h (some p) n = some r) (hq : r.ret = some q) :
    ∃ s, lookup (q - 8) r.h.live = some s ∧ n ≤ s ∧ 8 ≤ q := by
  have hnl := le_reqLen cfg.W n
  have hN := lookup_mem hl
  unfold realloc reallocCore at hr
  simp only at hr
  generalize minLen (roundLen cfg.W n) = len at *
  split at hr
  · cases hr
  rename_i hp8
  rw [hl] at hr
  simp only at hr
  split at hr
  · rename_i hle
    split at hr
    · cases hr; cases hq; exact ⟨sz, hl, by omega, by omega⟩
    · split at hr
      · cases hr
      · rename_i r1 hf
        cases hr; cases hq
        obtain ⟨hlive, _, _⟩ := free_live hf
        have hp : p + len + 8 - 8 = p + len := by omega
        simp only at hlive ⊢
        rw [hlive, hp]
        simp only [remove, ↓reduceIte]
        exact ⟨len, lookup_setChunk_self hl, by omega, by omega⟩
  · rename_i hgt
    split at hr
    · rename_i fp3 hg
      obtain ⟨hm3, ha3, hs3⟩ := growScan_inl hg
      split at hr
      · cases hr; cases hq; exact ⟨len, lookup_setChunk_self hl, by omega, by omega⟩
      · cases hr; cases hq; exact ⟨_, lookup_setChunk_self hl, by omega, by omega⟩
    · split at hr
      · split at hr
        · cases hr; cases hq
        · cases hr; cases hq; exact ⟨len, lookup_setChunk_self hl, by omega, by omega⟩
      · split at hr
        · cases hr; cases hq
        · rename_i q' hq'
          split at hr
          · cases hr
          · rename_i r2 hf2
            cases hr; cases hq
            obtain ⟨s, hlive, hq8, hs⟩ := malloc_ret_some hq'
            obtain ⟨hlive2, _, _⟩ := free_live hf2
            have him := malloc_inv cfg ok h len hi
            have hd : Disj (q - 8, s) (p - 8, sz) := by
              apply disj_of_hasN; intro x
              have := him.tile x; rw [hlive] at this
              have := hasN_le_cnt (x := x) hN
              simp only [cnt_cons] at *; split at * <;> omega
            unfold Disj at hd; simp only at hd
            have hmm := le_reqLen cfg.W len
            simp only
            rw [hlive2, hlive]
            simp only [remove]
            rw [if_neg (by omega)]
            simp only [lookup, ↓reduceIte]
            exact ⟨s, rfl, by omega, hq8⟩

/-- every other live chunk is still live, with the same size, after the request -/
theorem step_keeps_others (cfg : Cfg) (_ok : CfgOK cfg) (h : Heap) (op : Op) (r : Res) (hi : HInv cfg h)
    (hs : step cfg h op = some r) :
    ∀ c ∈ h.live, op.target ≠ some (c.1 + 8) → c ∈ r.h.live := by
  intro c hc hne
  cases op with
  | malloc n =>
    simp only [step] at hs; cases hs
    cases hq : (malloc cfg h n).ret with
    | none => rw [(malloc_ret_none hq).1]; exact hc
    | some q => obtain ⟨s, hlive, _, _⟩ := malloc_ret_some hq; rw [hlive]; exact List.mem_cons_of_mem _ hc
  | free p =>
    cases p with
    | none => simp only [step] at hs; cases hs; exact hc
    | some p =>
      simp only [step] at hs
      obtain ⟨hlive, h8, _⟩ := free_live hs
      rw [hlive]
      exact mem_remove_of_ne hc (by intro hcp; apply hne; simp only [Op.target]; congr 1; omega)
  | realloc p n =>
    simp only [step] at hs
    cases p with
    | none =>
      simp only [realloc, reallocCore] at hs; cases hs
      cases hq : (malloc cfg h (minLen (roundLen cfg.W n))).ret with
      | none => rw [(malloc_ret_none hq).1]; exact hc
      | some q => obtain ⟨s, hlive, _, _⟩ := malloc_ret_some hq; rw [hlive]; exact List.mem_cons_of_mem _ hc
    | some p =>
      unfold realloc reallocCore at hs
      simp only at hs
      generalize minLen (roundLen cfg.W n) = len at *
      split at hs
      · cases hs
      rename_i hp8
      have hp : c.1 ≠ p - 8 := by intro hcp; apply hne; simp only [Op.target]; congr 1; omega
      split at hs
      · cases hs
      rename_i sz hl
      have hdis := hi.disj_live_live hc hl hp
      unfold Disj at hdis; simp only at hdis
      split at hs
      · split at hs
        · cases hs; exact hc
        · split at hs
          · cases hs
          · rename_i r1 hf
            cases hs
            obtain ⟨hlive, _, _⟩ := free_live hf
            have hpe : p + len + 8 - 8 = p + len := by omega
            simp only at hlive ⊢
            rw [hlive, hpe]
            simp only [remove, ↓reduceIte]
            exact mem_setChunk_of_ne hc hp
      · split at hs
        · split at hs <;> (cases hs; exact mem_setChunk_of_ne hc hp)
        · split at hs
          · split at hs
            · cases hs; exact hc
            · cases hs; exact mem_setChunk_of_ne hc hp
          · split at hs
            · rename_i hq; cases hs; rw [(malloc_ret_none hq).1]; exact hc
            · rename_i q hq
              split at hs
              · cases hs
              · rename_i r2 hf2
                cases hs
                obtain ⟨s, hlive, _, _⟩ := malloc_ret_some hq
                obtain ⟨hlive2, _, _⟩ := free_live hf2
                simp only
                rw [hlive2, hlive]
                exact mem_remove_of_ne (List.mem_cons_of_mem _ hc) hp


/-! ### pools -/

/-- the cells of a zone of `n` elements of `e` bytes: offsets `0, e, …, (n-1)e` -/
def cells (e n : Nat) : List Nat := (List.range n).map (· * e)

theorem engageLoop_eq (e n : Nat) (he : 0 < e) : ∀ fuel k fl, k ≤ n → n - k < fuel →
    engageLoop e (n * e) fuel (k * e) fl = ((List.range' k (n - k)).map (· * e)).reverse ++ fl := by
  intro fuel
  induction fuel with
  | zero => intro k fl _ h; omega
  | succ fuel ih =>
    intro k fl hk hf
    simp only [engageLoop]
    by_cases hlt : k < n
    · have h1 : k * e < n * e := Nat.mul_lt_mul_of_pos_right hlt he
      rw [if_pos h1]
      have h2 : k * e + e = (k + 1) * e := by rw [Nat.add_mul, Nat.one_mul]
      rw [h2, ih (k + 1) (k * e :: fl) (by omega) (by omega)]
      have h3 : n - k = (n - (k + 1)) + 1 := by omega
      rw [h3, List.range'_succ]
      simp
    · have hkn : k = n := by omega
      subst hkn
      simp

theorem engage_eq (e n : Nat) (he : 0 < e) :
    (Pool.init.engage (n * e) e).free = (cells e n).reverse := by
  have := engageLoop_eq e n he (n * e + 1) 0 [] (by omega) (by
    have : n ≤ n * e := Nat.le_mul_of_pos_right n he
    omega)
  simp only [Nat.zero_mul, Nat.sub_zero, List.append_nil] at this
  simp only [Pool.engage, Pool.init, cells, this, List.range_eq_range']

theorem mem_cells {e n c : Nat} : c ∈ cells e n ↔ ∃ i, i < n ∧ c = i * e := by
  simp only [cells, List.mem_map, List.mem_range]
  constructor
  · rintro ⟨i, hi, rfl⟩; exact ⟨i, hi, rfl⟩
  · rintro ⟨i, hi, rfl⟩; exact ⟨i, hi, rfl⟩

theorem cells_nodup (e n : Nat) (he : 0 < e) : (cells e n).Nodup := by
  unfold cells
  rw [List.Nodup, List.pairwise_map]
  exact (List.nodup_range (n := n)).imp (fun {a b} hab h => hab (Nat.eq_of_mul_eq_mul_right he h))

theorem cells_length (e n : Nat) : (cells e n).length = n := by simp [cells]

/-- pool invariant: free list and handed-out cells together are exactly the cells of the zone -/
def PInv (e n : Nat) (s : PState) : Prop := (s.pool.free ++ s.live).Perm (cells e n)

theorem PInv.init (e n : Nat) (he : 0 < e) : PInv e n ⟨Pool.init.engage (n * e) e, []⟩ := by
  unfold PInv
  simp only [List.append_nil, engage_eq e n he]
  exact List.reverse_perm _

theorem pstep_inv {e n : Nat} {s s' : PState} {op : POp} {ret : Option Nat} (hi : PInv e n s)
    (hs : pstep s op = some (s', ret)) : PInv e n s' := by
  unfold PInv at *
  cases op with
  | alloc =>
    simp only [pstep, Pool.alloc] at hs
    split at hs
    · rename_i heq
      split at heq
      · cases heq; cases hs; exact hi
      · cases heq
    · rename_i c p heq
      split at heq
      · cases heq
      · rename_i c' rest hfree
        cases heq; cases hs
        simp only
        rw [hfree] at hi
        exact (List.perm_middle).trans hi
  | free c =>
    simp only [pstep] at hs
    split at hs
    · rename_i hc
      cases hs
      simp only [Pool.release]
      have hc' : c ∈ s.live := by simpa using hc
      have h1 : (c :: s.live.erase c).Perm s.live := (List.perm_cons_erase hc').symm
      have h2 : (c :: s.pool.free ++ s.live.erase c).Perm (s.pool.free ++ c :: s.live.erase c) := by
        simpa using (List.perm_middle (l₁ := s.pool.free) (a := c) (l₂ := s.live.erase c)).symm
      exact h2.trans ((List.Perm.append_left _ h1).trans hi)
    · cases hs

theorem prun_inv {e n : Nat} {ops : List POp} {s s' : PState} (hi : PInv e n s)
    (hr : prun s ops = some s') : PInv e n s' := by
  induction ops generalizing s with
  | nil => simp only [prun] at hr; cases hr; exact hi
  | cons op ops ih =>
    simp only [prun] at hr
    split at hr
    · cases hr
    · rename_i s1 ret hs
      exact ih (pstep_inv hi hs) hr


theorem PInv.facts {e n : Nat} {s : PState} (he : 0 < e) (hi : PInv e n s) :
    s.live.Nodup ∧ s.pool.free.Nodup ∧ (∀ c, c ∈ s.live → c ∉ s.pool.free) ∧
    (∀ c, c ∈ s.live ∨ c ∈ s.pool.free → ∃ i, i < n ∧ c = i * e) ∧
    s.pool.free.length + s.live.length = n := by
  unfold PInv at hi
  have hnd : (s.pool.free ++ s.live).Nodup := hi.nodup_iff.2 (cells_nodup e n he)
  rw [List.nodup_append] at hnd
  refine ⟨hnd.2.1, hnd.1, fun c hc hf => hnd.2.2 c hf c hc rfl, fun c hc => ?_, ?_⟩
  · apply mem_cells.1
    apply hi.mem_iff.1
    rcases hc with hc | hc <;> simp [hc]
  · have := hi.length_eq
    simpa [cells_length] using this

/-- two different cells are different byte ranges -/
theorem cells_disjoint {e i j : Nat} (h : i * e ≠ j * e) : i * e + e ≤ j * e ∨ j * e + e ≤ i * e := by
  rcases Nat.lt_trichotomy i j with hlt | heq | hgt
  · left
    have : (i + 1) * e ≤ j * e := Nat.mul_le_mul_right e hlt
    rw [Nat.add_mul, Nat.one_mul] at this; exact this
  · subst heq; exact absurd rfl h
  · right
    have : (j + 1) * e ≤ i * e := Nat.mul_le_mul_right e hgt
    rw [Nat.add_mul, Nat.one_mul] at this; exact this

theorem cell_in_zone {e n i : Nat} (hi : i < n) : i * e + e ≤ n * e := by
  have : (i + 1) * e ≤ n * e := Nat.mul_le_mul_right e hi
  rw [Nat.add_mul, Nat.one_mul] at this; exact this

/-! igris::pool -/

def IInv (e n : Nat) (s : IState) : Prop :=
  PInv e n ⟨s.pool.head, s.live⟩ ∧ s.pool.count = (s.pool.head.free.length : Int) ∧
  s.pool.size = n * e ∧ s.pool.elemsz = e

theorem IInv.init (e n : Nat) (he : 0 < e) : IInv e n ⟨IPool.init (n * e) e, []⟩ := by
  refine ⟨PInv.init e n he, ?_, rfl, rfl⟩
  simp only [IPool.init]
  rw [engage_eq e n he, List.length_reverse, cells_length, Nat.mul_div_cancel n he]

theorem istep_inv {e n : Nat} (_he : 0 < e) {s s' : IState} {op : IOp} {ret : Option Nat} (hi : IInv e n s)
    (hs : istep s op = some (s', ret)) : IInv e n s' := by
  obtain ⟨hp, hc, hsz, hel⟩ := hi
  cases op with
  | get =>
    simp only [istep, IPool.get, Pool.alloc] at hs
    cases hf : s.pool.head.free with
    | nil =>
      rw [hf] at hs; simp only at hs; cases hs
      refine ⟨?_, ?_, hsz, hel⟩
      · simpa [PInv, hf] using hp
      · simpa [hf] using hc
    | cons c rest =>
      rw [hf] at hs; simp only at hs; cases hs
      refine ⟨?_, ?_, hsz, hel⟩
      · unfold PInv at *; simp only at *; rw [hf] at hp; exact (List.perm_middle).trans hp
      · simp only; rw [hc, hf]; simp
  | put c =>
    cases c with
    | none => simp only [istep, IPool.put] at hs; cases hs; exact ⟨hp, hc, hsz, hel⟩
    | some c =>
      simp only [istep] at hs
      split at hs
      · rename_i hcl
        have hc' : c ∈ s.live := by simpa using hcl
        simp only [IPool.put, Pool.release] at hs
        by_cases hcs : c < s.pool.size
        · rw [if_pos hcs] at hs; simp only at hs; cases hs
          refine ⟨?_, ?_, hsz, hel⟩
          · unfold PInv at *; simp only at *
            have h1 : (c :: s.live.erase c).Perm s.live := (List.perm_cons_erase hc').symm
            have h2 : (c :: s.pool.head.free ++ s.live.erase c).Perm (s.pool.head.free ++ c :: s.live.erase c) := by
              simpa using (List.perm_middle (l₁ := s.pool.head.free) (a := c) (l₂ := s.live.erase c)).symm
            exact h2.trans ((List.Perm.append_left _ h1).trans hp)
          · simp only; rw [hc]; simp
        · rw [if_neg hcs] at hs; cases hs
      · cases hs

theorem irun_inv {e n : Nat} (he : 0 < e) {ops : List IOp} {s s' : IState} (hi : IInv e n s)
    (hr : irun s ops = some s') : IInv e n s' := by
  induction ops generalizing s with
  | nil => simp only [irun] at hr; cases hr; exact hi
  | cons op ops ih =>
    simp only [irun] at hr
    split at hr
    · cases hr
    · rename_i s1 ret hs
      exact ih (istep_inv he hi hs) hr

/-! static_object_pool -/

def SInv (e n : Nat) (s : SOP) : Prop := PInv e n ⟨s.head, s.objs⟩ ∧ s.fault = false

theorem sstep_inv {e n : Nat} (he : 0 < e) {s s' : SOP} {op : SOp} {ret : Option Nat} (hi : SInv e n s)
    (hs : sstep s op = some (s', ret)) : SInv e n s' := by
  obtain ⟨hp, hf⟩ := hi
  cases op with
  | create =>
    simp only [sstep, SOP.create, Pool.alloc] at hs
    cases hfr : s.head.free with
    | nil =>
      rw [hfr] at hs; simp only [Option.some.injEq, Prod.mk.injEq] at hs
      obtain ⟨rfl, rfl⟩ := hs
      exact ⟨by simpa [PInv, hfr] using hp, hf⟩
    | cons c rest =>
      rw [hfr] at hs; simp only [Option.some.injEq, Prod.mk.injEq] at hs
      obtain ⟨rfl, rfl⟩ := hs
      have hfacts := PInv.facts he hp
      refine ⟨?_, ?_⟩
      · unfold PInv at *; simp only at *; rw [hfr] at hp; exact (List.perm_middle).trans hp
      · simp only [hf, Bool.false_or]
        have : c ∉ s.objs := fun hc => hfacts.2.2.1 c hc (by simp [hfr])
        simpa using this
  | destroy c =>
    simp only [sstep] at hs
    split at hs
    · rename_i hcl
      have hc' : c ∈ s.objs := by simpa using hcl
      simp only [Option.some.injEq, Prod.mk.injEq] at hs
      obtain ⟨rfl, rfl⟩ := hs
      refine ⟨?_, ?_⟩
      · unfold PInv at *; simp only [SOP.destroy, Pool.release] at *
        have h1 : (c :: s.objs.erase c).Perm s.objs := (List.perm_cons_erase hc').symm
        have h2 : (c :: s.head.free ++ s.objs.erase c).Perm (s.head.free ++ c :: s.objs.erase c) := by
          simpa using (List.perm_middle (l₁ := s.head.free) (a := c) (l₂ := s.objs.erase c)).symm
        exact h2.trans ((List.Perm.append_left _ h1).trans hp)
      · simp only [SOP.destroy, hf, Bool.false_or]; simpa using hc'
    · cases hs

theorem srun_inv {e n : Nat} (he : 0 < e) {ops : List SOp} {s s' : SOP} (hi : SInv e n s)
    (hr : srun s ops = some s') : SInv e n s' := by
  induction ops generalizing s with
  | nil => simp only [srun] at hr; cases hr; exact hi
  | cons op ops ih =>
    simp only [srun] at hr
    split at hr
    · cases hr
    · rename_i s1 ret hs
      exact ih (sstep_inv he hi hs) hr

theorem storageSize_pos (a b : Nat) : 8 ≤ storageSize a b := by
  unfold storageSize
  simp only
  have h1 : 8 ≤ max b 8 := Nat.le_max_right _ _
  have h2 : 8 ≤ max a 8 := Nat.le_max_right _ _
  generalize max a 8 = x at *
  generalize max b 8 = y at *
  have : 1 ≤ (x + y - 1) / y := by
    rw [Nat.le_div_iff_mul_le (by omega)]; omega
  calc 8 ≤ 1 * y := by omega
    _ ≤ (x + y - 1) / y * y := Nat.mul_le_mul_right y this


theorem malloc_ret_none_lim {cfg h n} (hr : (malloc cfg h n).ret = none) : cfg.lim ≠ 0 := by
  generalize hm : malloc cfg h n = r at hr ⊢
  unfold malloc at hm
  simp only at hm
  split at hm
  · subst hm; cases hr
  · split at hm
    · split at hm <;> (subst hm; cases hr)
    · split at hm
      · rename_i hl; exact hl.1
      · subst hm; cases hr

theorem storageSize_ge (a b : Nat) : max a 8 ≤ storageSize a b := by
  unfold storageSize
  simp only
  have h1 : 8 ≤ max b 8 := Nat.le_max_right _ _
  generalize max a 8 = x at *
  generalize max b 8 = y at *
  have h2 := Nat.div_add_mod (x + y - 1) y
  have h3 := Nat.mod_lt (x + y - 1) (by omega : y > 0)
  rw [Nat.mul_comm]
  omega

theorem prun_allocs {e n : Nat} (he : 0 < e) : ∀ (k : Nat) (s s' : PState), PInv e n s →
    prun s (List.replicate k .alloc) = some s' → s'.live.length = min (s.live.length + k) n := by
  intro k
  induction k with
  | zero =>
    intro s s' hi hr
    simp only [List.replicate, prun] at hr; cases hr
    have := (PInv.facts he hi).2.2.2.2
    omega
  | succ k ih =>
    intro s s' hi hr
    simp only [List.replicate, prun] at hr
    split at hr
    · cases hr
    · rename_i s1 ret hs
      have hi1 := pstep_inv hi hs
      have := ih s1 s' hi1 hr
      have hf := (PInv.facts he hi).2.2.2.2
      have hf1 := (PInv.facts he hi1).2.2.2.2
      simp only [pstep, Pool.alloc] at hs
      cases hfr : s.pool.free with
      | nil =>
        rw [hfr] at hs; simp only [Option.some.injEq, Prod.mk.injEq] at hs
        obtain ⟨rfl, _⟩ := hs
        simp only [hfr, List.length_nil] at hf
        simp only at this; omega
      | cons c rest =>
        rw [hfr] at hs; simp only [Option.some.injEq, Prod.mk.injEq] at hs
        obtain ⟨rfl, _⟩ := hs
        simp only [List.length_cons] at this hf1 ⊢
        omega


/-! ### reachable heap states -/

def Reach (cfg : Cfg) (h : Heap) : Prop := ∃ ops, run cfg Heap.init ops = some h

theorem Reach.inv {cfg : Cfg} {h : Heap} (ok : CfgOK cfg) (hr : Reach cfg h) : HInv cfg h := by
  obtain ⟨ops, hr⟩ := hr
  exact run_inv cfg ok ops _ _ (HInv.init cfg) hr

theorem Reach.step {cfg : Cfg} {h : Heap} {op : Op} {r : Res} (hr : Reach cfg h)
    (hs : step cfg h op = some r) : Reach cfg r.h := by
  obtain ⟨ops, hr⟩ := hr
  refine ⟨ops ++ [op], ?_⟩
  have : ∀ (ops : List Op) (h0 : Heap), run cfg h0 ops = some h → run cfg h0 (ops ++ [op]) = some r.h := by
    intro ops
    induction ops with
    | nil => intro h0 h1; simp only [run] at h1; cases h1; simp [run, hs]
    | cons o os ih =>
      intro h0 h1
      simp only [run, List.cons_append] at h1 ⊢
      split at h1
      · cases h1
      · rename_i r1 hs1; exact ih _ h1
  exact this ops _ hr



/-! ### slist at pointer level: representation predicate -/

/-- following `next` from `cur` visits exactly the addresses of `l` and then the head -/
def Chain (m : Links) (head : Nat) : Nat → List Nat → Prop
  | cur, [] => cur = head
  | cur, c :: r => cur = c ∧ Chain m head (m c) r

/-- the `next` fields represent the list `l` hanging off `head` -/
def Rep (m : Links) (head : Nat) (l : List Nat) : Prop :=
  Chain m head (m head) l ∧ l.Nodup ∧ head ∉ l

theorem chain_upd {m : Links} {head a v cur : Nat} {l : List Nat} (ha : a ∉ l) :
    Chain (upd m a v) head cur l ↔ Chain m head cur l := by
  induction l generalizing cur with
  | nil => simp [Chain]
  | cons c r ih =>
    simp only [List.mem_cons, not_or] at ha
    simp only [Chain]
    have hc : upd m a v c = m c := by simp only [upd]; rw [if_neg (fun h => ha.1 h.symm)]
    rw [hc, ih ha.2]

theorem rep_init (m : Links) (head : Nat) : Rep (slistInit m head) head [] := by
  simp [Rep, Chain, slistInit, upd]

theorem rep_add {m : Links} {head link : Nat} {l : List Nat} (hr : Rep m head l) (hl : link ∉ l)
    (hh : link ≠ head) : Rep (slistAdd m link head) head (link :: l) := by
  obtain ⟨hc, hnd, hhd⟩ := hr
  refine ⟨?_, List.nodup_cons.2 ⟨hl, hnd⟩, by simp only [List.mem_cons, not_or]; exact ⟨fun h => hh h.symm, hhd⟩⟩
  have h1 : slistAdd m link head head = link := by simp [slistAdd, upd]
  have h2 : slistAdd m link head link = m head := by simp [slistAdd, upd, hh]
  simp only [Chain, h1, h2, true_and]
  unfold slistAdd
  rw [chain_upd hhd, chain_upd hl]
  exact hc

theorem rep_pop_cons {m : Links} {head c : Nat} {r : List Nat} (hr : Rep m head (c :: r)) :
    slistPopFirst m head = (some c, upd m head (m c)) ∧ Rep (upd m head (m c)) head r := by
  obtain ⟨hc, hnd, hhd⟩ := hr
  simp only [Chain] at hc
  simp only [List.mem_cons, not_or] at hhd
  have hne : m head ≠ head := by rw [hc.1]; exact fun h => hhd.1 h.symm
  refine ⟨by simp only [slistPopFirst]; rw [if_neg hne, hc.1], ?_, (List.nodup_cons.1 hnd).2, hhd.2⟩
  have h1 : upd m head (m c) head = m c := by simp [upd]
  rw [h1, chain_upd hhd.2]
  exact hc.2

theorem rep_pop_nil {m : Links} {head : Nat} (hr : Rep m head []) :
    slistPopFirst m head = (none, m) ∧ slistEmpty m head = true := by
  obtain ⟨hc, _, _⟩ := hr
  simp only [Chain] at hc
  simp [slistPopFirst, slistEmpty, hc]

theorem rep_empty_iff {m : Links} {head : Nat} {l : List Nat} (hr : Rep m head l) :
    slistEmpty m head = true ↔ l = [] := by
  cases l with
  | nil => simp [(rep_pop_nil hr).2]
  | cons c r =>
    obtain ⟨hc, _, hhd⟩ := hr
    simp only [Chain] at hc
    simp only [List.mem_cons, not_or] at hhd
    simp only [slistEmpty, beq_iff_eq, hc.1]
    constructor
    · intro h; exact absurd h.symm hhd.1
    · intro h; cases h

theorem sizeLoop_chain {m : Links} {head : Nat} {l : List Nat} : ∀ {fuel cur i : Nat},
    Chain m head cur l → head ∉ l → l.length < fuel → slistSizeLoop m head fuel cur i = i + l.length := by
  induction l with
  | nil =>
    intro fuel cur i hc _ hf
    simp only [Chain] at hc
    cases fuel with
    | zero => simp at hf
    | succ f => simp [slistSizeLoop, hc]
  | cons c r ih =>
    intro fuel cur i hc hh hf
    simp only [Chain] at hc
    simp only [List.mem_cons, not_or] at hh
    cases fuel with
    | zero => simp at hf
    | succ f =>
      simp only [slistSizeLoop, hc.1]
      rw [if_neg (fun h => hh.1 h.symm)]
      rw [ih hc.2 hh.2 (by simp only [List.length_cons] at hf; omega)]
      simp only [List.length_cons]; omega

theorem inLoop_chain {m : Links} {head x : Nat} {l : List Nat} : ∀ {fuel cur : Nat},
    Chain m head cur l → head ∉ l → l.length < fuel → slistInLoop m head x fuel cur = l.contains x := by
  induction l with
  | nil =>
    intro fuel cur hc _ hf
    simp only [Chain] at hc
    cases fuel with
    | zero => simp at hf
    | succ f => simp [slistInLoop, hc]
  | cons c r ih =>
    intro fuel cur hc hh hf
    simp only [Chain] at hc
    simp only [List.mem_cons, not_or] at hh
    cases fuel with
    | zero => simp at hf
    | succ f =>
      simp only [slistInLoop, hc.1]
      rw [if_neg (fun h => hh.1 h.symm)]
      by_cases hx : c = x
      · simp [hx]
      · rw [if_neg hx, ih hc.2 hh.2 (by simp only [List.length_cons] at hf; omega)]
        simp only [List.contains_cons]
        have : (x == c) = false := by simp; exact fun h => hx h.symm
        rw [this, Bool.false_or]

theorem engageLoopP_rep (e stop head : Nat) : ∀ (fuel it : Nat) (m : Links) (fl : List Nat),
    Rep m head fl → (∀ c ∈ fl, c < it) → stop ≤ head → 0 < e →
    Rep (engageLoopP e stop head fuel it m) head (engageLoop e stop fuel it fl) := by
  intro fuel
  induction fuel with
  | zero => intro it m fl hr _ _ _; exact hr
  | succ f ih =>
    intro it m fl hr hlt hhead he
    simp only [engageLoopP, engageLoop]
    split
    · rename_i hit
      refine ih (it + e) _ _ (rep_add hr (fun h => Nat.lt_irrefl _ (hlt it h)) (by omega)) ?_ hhead he
      intro c hc
      rcases List.mem_cons.1 hc with rfl | hc
      · omega
      · have := hlt c hc; omega
    · exact hr

end Igris.C10
