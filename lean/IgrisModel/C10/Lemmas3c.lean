/-
C10 round 3b: when does realloc reach its final `malloc` call (helper of `reallocA_null_iff`)
-/
import IgrisModel.C10.Lemmas3b
namespace Igris.C10

/-- when no free chunk can hold the request, realloc reaches the `malloc(len)` call exactly for a
growing request on a block that is not topmost and has no sufficient free chunk directly above -/
theorem reachesMove_iff (cfg : Cfg) (h : Heap) (p len sz : Nat) (hl : lookup (p - 8) h.live = some sz)
    (hall : ∀ f ∈ h.flp, f.2 < len) :
    reachesMove cfg h p len = true ↔
      sz < len ∧ (¬ ∃ f ∈ h.flp, f.1 = p + sz ∧ len - sz ≤ f.2 + 8) ∧ h.brk ≠ p + sz := by
  unfold reachesMove
  rw [hl]
  simp only
  split
  · rename_i hle
    constructor
    · intro hc; cases hc
    · rintro ⟨h1, _⟩; omega
  · rename_i hgt
    split
    · rename_i fp3 hg
      obtain ⟨hm3, ha3, hs3⟩ := growScan_inl hg
      constructor
      · intro hc; cases hc
      · rintro ⟨_, hno, _⟩; exact absurd ⟨fp3, hm3, ha3, by omega⟩ hno
    · rename_i s hg
      obtain ⟨hno, _, hmax, hwit⟩ := growScan_inr hg
      have hnot2 : ¬ ∃ f ∈ h.flp, f.1 = p + sz ∧ len - sz ≤ f.2 + 8 := by
        rintro ⟨f, hf, h1, h2⟩; exact hno f hf ⟨h1, by omega⟩
      have hlens : len > s := by
        rcases hwit with hw | ⟨c, hc, hw⟩
        · omega
        · have := hall c hc; omega
      constructor
      · intro hc
        refine ⟨by omega, hnot2, ?_⟩
        intro hb
        simp [hb, hlens] at hc
      · rintro ⟨_, _, hb⟩
        simp [hb]

end Igris.C10
