/-
C10 round 3b: helper lemmas for the NULL characterisations of malloc / realloc and for the
digest the driver prints (core Lean only).
-/
import IgrisModel.C10.Lemmas
import IgrisModel.C10.LemmasAddr
namespace Igris.C10

/-- malloc's step-1 scan ends without a candidate exactly when no free chunk can hold the request -/
theorem scan_none_iff {len : Nat} : ∀ (l : List Chunk) (s sfp : Nat),
    (∃ x, scan len l s sfp = .inr (0, x)) ↔ (s = 0 ∧ ∀ c ∈ l, c.2 < len) := by
  intro l
  induction l with
  | nil =>
    intro s sfp
    simp only [scan, Sum.inr.injEq, Prod.mk.injEq, List.not_mem_nil, false_imp_iff, implies_true, and_true]
    constructor
    · rintro ⟨x, h, _⟩; exact h
    · intro h; exact ⟨sfp, h, rfl⟩
  | cons c l ih =>
    intro s sfp
    simp only [scan, List.mem_cons, forall_eq_or_imp]
    split
    · rename_i h1
      rw [ih]
      constructor
      · rintro ⟨a, b⟩; exact ⟨a, h1, b⟩
      · rintro ⟨a, _, b⟩; exact ⟨a, b⟩
    · rename_i h1
      split
      · rename_i h2
        constructor
        · rintro ⟨x, hx⟩; cases hx
        · rintro ⟨_, hc, _⟩; omega
      · rename_i h2
        split
        · rename_i h3
          rw [ih]
          constructor
          · rintro ⟨a, _⟩; omega
          · rintro ⟨_, hc, _⟩; omega
        · rename_i h3
          rw [ih]
          constructor
          · rintro ⟨a, _⟩; omega
          · rintro ⟨_, hc, _⟩; omega


/-- rounding a rounded request again changes nothing (above the minimum chunk size; `realloc(p, 0)`
gives 8, which malloc would round to `W` again) -/
theorem reqLen_idem (cfg : Cfg) (ok : CfgOK cfg) (n : Nat) (h8 : 8 < minLen (roundLen cfg.W n)) :
    minLen (roundLen cfg.W (minLen (roundLen cfg.W n))) = minLen (roundLen cfg.W n) := by
  have h2 := roundLen_dvd cfg.W n ok.pos
  have hR : minLen (roundLen cfg.W n) = roundLen cfg.W n := by
    unfold minLen at h8 ⊢; split <;> simp_all
  rw [hR]
  have hm : roundLen cfg.W n % cfg.W = 0 := Nat.mod_eq_zero_of_dvd h2
  have : roundLen cfg.W (roundLen cfg.W n) = roundLen cfg.W n := by
    generalize roundLen cfg.W n = R at *
    unfold roundLen; simp [hm]
  rw [this, hR]


/-- the digest depends only on the bytes it reads -/
theorem digestFrom_congr (m1 m2 : Mem) (a b : Nat) : ∀ (k i acc : Nat),
    (∀ j, i ≤ j → j < i + k → m1 (a + j) = m2 (b + j)) →
    digestFrom m1 a k i acc = digestFrom m2 b k i acc := by
  intro k
  induction k with
  | zero => intro i acc _; rfl
  | succ k ih =>
    intro i acc hj
    simp only [digestFrom]
    rw [hj i (Nat.le_refl _) (by omega)]
    exact ih (i + 1) _ (fun j h1 h2 => hj j (by omega) (by omega))


/-- malloc falls through to step 3 exactly when no free chunk can hold the request -/

theorem reachesStep3_iff (cfg : Cfg) (h : Heap) (n : Nat) :
    reachesStep3 cfg h n = true ↔ ∀ f ∈ h.flp, f.2 < minLen (roundLen cfg.W n) := by
  have key := scan_none_iff (len := minLen (roundLen cfg.W n)) h.flp 0 0
  unfold reachesStep3
  split
  · rename_i a hsc
    have : ¬ ∃ x, scan (minLen (roundLen cfg.W n)) h.flp 0 0 = .inr (0, x) := by
      rintro ⟨x, hx⟩; rw [hsc] at hx; cases hx
    rw [key] at this
    constructor
    · intro hc; cases hc
    · intro hall; exact absurd ⟨rfl, hall⟩ this
  · rename_i s sfp hsc
    constructor
    · intro hs
      have hs0 : s = 0 := by simpa using hs
      subst hs0
      exact (key.1 ⟨sfp, hsc⟩).2
    · intro hall
      obtain ⟨x, hx⟩ := key.2 ⟨rfl, hall⟩
      rw [hsc] at hx
      simp only [Sum.inr.injEq, Prod.mk.injEq] at hx
      simp [hx.1]


end Igris.C10
