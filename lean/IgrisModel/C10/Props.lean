import IgrisModel.C10.Lemmas
namespace Igris.C10
end Igris.C10
