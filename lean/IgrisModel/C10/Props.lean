/-
  C10 — PROPERTY THEOREMS (helper lemmas live in Lemmas.lean).

  Property: "For every sequence of allocate, free and reallocate requests,
  each block returned by the fixed-block pools and by the bare-metal heap
  (malloc/free/realloc) lies inside the arena, is aligned for its use, and
  overlaps no other live block; its contents stay untouched until it is freed,
  and realloc preserves the common prefix.  A pool hands out exactly its
  capacity before answering null, freed blocks become allocatable again, and
  its free count always equals capacity minus live blocks.  Freeing every
  block returns the heap to its initial break, so memory is not lost."

  Vocabulary (defined in Lemmas.lean, all elementary):
    cells e n        the offsets 0, e, …, (n-1)e of a zone of n cells of e bytes
    Disj c d         the chunks (header + payload) c and d share no byte
    Ev.Avoids lo hi  the store does not touch [lo, hi);   Ev.Inside lo hi: it stays in [lo, hi)
    Exec m evs m'    m' is a memory that can result from m by the stores evs
                     (allocator stores leave values unspecified, memcpy copies)
    CfgOK cfg        0 < __WORDSIZE and 8 ∣ __WORDSIZE
  All heap offsets are relative to the heap start; a chunk (a, sz) occupies
  [a, a + 8 + sz) and its payload starts at a + 8.
-/
import IgrisModel.C10.Lemmas
import IgrisModel.C10.LemmasZones
import IgrisModel.C10.LemmasIter
import IgrisModel.C10.LemmasPtr
import IgrisModel.C10.LemmasAddr
import IgrisModel.C10.Lemmas3b
import IgrisModel.C10.Lemmas3c
namespace Igris.C10

/-! ## Fixed-block pools (pool_head / igris::pool / static_object_pool)

`e` = element size, `n` = capacity, the zone has exactly `n * e` bytes.
Histories are arbitrary lists of `alloc` / `free c`; a history is rejected
(`none`) only when it frees a cell that is not currently allocated. -/

/-- a pool freshly engaged over a zone of `n` cells of `e` bytes -/
def freshPool (e n : Nat) : PState := ⟨Pool.init.engage (n * e) e, []⟩

/-- `pool_engage` threads exactly the `n` cells of the zone onto the free list -/
theorem pool_engage_all_cells (e n : Nat) (he : 0 < e) :
    (freshPool e n).pool.free = (cells e n).reverse ∧ (freshPool e n).pool.avail = n := by
  have := engage_eq e n he
  exact ⟨this, by simp [freshPool, Pool.avail, this, cells_length]⟩

/-- every history: the cells handed out are pairwise distinct, multiples of the
element size (elemsz-aligned), inside the zone, and do not overlap as byte ranges -/
theorem pool_blocks_distinct_aligned_in_zone (e n : Nat) (he : 0 < e) (ops : List POp) (s : PState)
    (hr : prun (freshPool e n) ops = some s) :
    s.live.Nodup ∧ (∀ c ∈ s.live, c % e = 0 ∧ c + e ≤ n * e) ∧
    (∀ c ∈ s.live, ∀ d ∈ s.live, c ≠ d → c + e ≤ d ∨ d + e ≤ c) := by
  have hf := PInv.facts he (prun_inv (PInv.init e n he) hr)
  refine ⟨hf.1, fun c hc => ?_, fun c hc d hd hne => ?_⟩
  · obtain ⟨i, hi, rfl⟩ := hf.2.2.2.1 c (Or.inl hc)
    exact ⟨Nat.mul_mod_left i e, cell_in_zone hi⟩
  · obtain ⟨i, _, rfl⟩ := hf.2.2.2.1 c (Or.inl hc)
    obtain ⟨j, _, rfl⟩ := hf.2.2.2.1 d (Or.inl hd)
    exact cells_disjoint hne

/-- a successful `pool_alloc` returns a cell that was not handed out before -/
theorem pool_alloc_fresh (e n : Nat) (he : 0 < e) (ops : List POp) (s s' : PState) (c : Nat)
    (hr : prun (freshPool e n) ops = some s) (ha : pstep s .alloc = some (s', some c)) :
    c ∉ s.live ∧ s'.live = c :: s.live := by
  have hi := prun_inv (PInv.init e n he) hr
  have hf' := PInv.facts he (pstep_inv hi ha)
  simp only [pstep, Pool.alloc] at ha
  cases hfr : s.pool.free with
  | nil => rw [hfr] at ha; simp at ha
  | cons c' rest =>
    rw [hfr] at ha; simp only [Option.some.injEq, Prod.mk.injEq] at ha
    obtain ⟨rfl, hc⟩ := ha
    cases hc
    exact ⟨by have := hf'.1; simp only [List.nodup_cons] at this; exact this.1, rfl⟩

/-- `pool_alloc` answers null exactly when all `n` cells are handed out … -/
theorem pool_null_iff_exhausted (e n : Nat) (he : 0 < e) (ops : List POp) (s : PState)
    (hr : prun (freshPool e n) ops = some s) : s.pool.alloc.1 = none ↔ s.live.length = n := by
  have hf := (PInv.facts he (prun_inv (PInv.init e n he) hr)).2.2.2.2
  simp only [Pool.alloc]
  cases hfr : s.pool.free with
  | nil => simp [hfr] at hf ⊢; exact hf
  | cons c rest => simp [hfr] at hf ⊢; omega

/-- … in particular `k` allocations on a fresh pool give `min k n` cells:
exactly the capacity is handed out before null -/
theorem pool_exactly_capacity (e n k : Nat) (he : 0 < e) (s : PState)
    (hr : prun (freshPool e n) (List.replicate k .alloc) = some s) : s.live.length = min k n := by
  have := prun_allocs he k (freshPool e n) s (PInv.init e n he) hr
  simpa [freshPool] using this

/-- `pool_avail` = capacity − live cells, after every history -/
theorem pool_avail_eq (e n : Nat) (he : 0 < e) (ops : List POp) (s : PState)
    (hr : prun (freshPool e n) ops = some s) : s.pool.avail = n - s.live.length ∧ s.live.length ≤ n := by
  have hf := (PInv.facts he (prun_inv (PInv.init e n he) hr)).2.2.2.2
  simp only [Pool.avail]; omega

/-- a freed cell is allocatable again: the very next `pool_alloc` returns it -/
theorem pool_freed_cell_allocatable (s s1 : PState) (c : Nat) (r : Option Nat)
    (hf : pstep s (.free c) = some (s1, r)) : ∃ s2, pstep s1 .alloc = some (s2, some c) := by
  simp only [pstep] at hf
  split at hf
  · cases hf; exact ⟨⟨⟨s.pool.free⟩, c :: s.live.erase c⟩, by simp [pstep, Pool.alloc, Pool.release]⟩
  · cases hf

/-- the only store of `pool_free` is the link in the first 8 bytes of the freed
cell: with `e ≥ 8` it stays inside that cell, so no other cell's contents change;
`pool_alloc` stores nothing into the zone -/
theorem pool_free_store_inside_cell (p : Pool) (c e : Nat) (he : 8 ≤ e) :
    ∀ ev ∈ (p.release c).2, ev.Inside c (c + e) := by
  intro ev hev
  simp only [Pool.release, List.mem_singleton] at hev
  subst hev; simp only [Ev.Inside, Ev.lo, Ev.hi]; omega

/-! ### slist.h on `next` pointers implements the list operations

`Rep m head l`: following the `next` fields `m` from `head` visits exactly the
addresses `l` (pairwise distinct, none is the head) and returns to `head`. -/

/-- `pool_init` + `pool_engage` on pointers build the list of the model
(`head` = any address outside the zone) -/
theorem slist_engage_refines (e n head : Nat) (he : 0 < e) (hh : n * e ≤ head) (m : Links) :
    Rep (engageLoopP e (n * e) head (n * e + 1) 0 (slistInit m head)) head
      (Pool.init.engage (n * e) e).free :=
  engageLoopP_rep e (n * e) head (n * e + 1) 0 _ [] (rep_init m head) (by simp) hh he

/-- `pool_alloc` on pointers returns the same cell as the list model and
leaves a representation of its free list -/
theorem slist_alloc_refines (m : Links) (head : Nat) (p : Pool) (hr : Rep m head p.free) :
    (poolAllocP m head).1 = p.alloc.1 ∧ Rep (poolAllocP m head).2 head p.alloc.2.free := by
  unfold poolAllocP Pool.alloc
  cases hf : p.free with
  | nil =>
    rw [hf] at hr
    simp only [(rep_pop_nil hr).2, ↓reduceIte]
    exact ⟨trivial, by rw [hf]; exact hr⟩
  | cons c r =>
    rw [hf] at hr
    have hne : slistEmpty m head = false := by
      cases h : slistEmpty m head with
      | false => rfl
      | true => exact absurd ((rep_empty_iff hr).1 h) (by simp)
    simp only [hne, Bool.false_eq_true, ↓reduceIte]
    obtain ⟨h1, h2⟩ := rep_pop_cons hr
    rw [h1]; exact ⟨rfl, h2⟩

/-- `pool_free` on pointers conses the cell, provided it is not already on the
list (no double free) and is not the head -/
theorem slist_free_refines (m : Links) (head c : Nat) (p : Pool) (hr : Rep m head p.free)
    (hc : c ∉ p.free) (hne : c ≠ head) : Rep (slistAdd m c head) head (p.release c).1.free :=
  rep_add hr hc hne

/-- `slist_size` / `slist_in` walk exactly the list (they terminate within
`length + 1` steps) -/
theorem slist_size_in_refine (m : Links) (head x fuel : Nat) (p : Pool) (hr : Rep m head p.free)
    (hf : p.free.length < fuel) :
    slistSize m head fuel = p.avail ∧ slistIn m head x fuel = p.inFreelist x := by
  obtain ⟨hc, _, hh⟩ := hr
  refine ⟨?_, ?_⟩
  · simp only [slistSize, Pool.avail]; rw [sizeLoop_chain hc hh hf]; omega
  · simp only [slistIn, Pool.inFreelist]; exact inLoop_chain hc hh hf

/-! ### igris::pool (after `fix: igris::pool::get() …`) -/

/-- `room()` = `avail()` = capacity − live after every history of get/put,
including `get()` on an empty pool and `put(NULL)` -/
theorem ipool_room_eq_avail (e n : Nat) (he : 0 < e) (hn : n < 2 ^ 31) (ops : List IOp) (s : IState)
    (hr : irun ⟨IPool.init (n * e) e, []⟩ ops = some s) :
    s.pool.room = s.pool.avail ∧ s.pool.avail = n - s.live.length ∧ s.live.length ≤ n := by
  obtain ⟨hp, hc, _, _⟩ := irun_inv he (IInv.init e n he) hr
  have hf := (PInv.facts he hp).2.2.2.2
  simp only at hf
  refine ⟨?_, by simp only [IPool.avail, Pool.avail]; omega, by omega⟩
  simp only [IPool.room, IPool.avail, Pool.avail, hc]
  omega

/-- FULL STATEMENT violated by the routine as it was (`getOrig`): one `get()`
on an exhausted pool and `room()` is `SIZE_MAX`. -/
theorem ipool_getOrig_room_witness :
    ((IPool.init 8 8).getOrig.2.getOrig.2).room = 2 ^ 64 - 1 ∧
    ((IPool.init 8 8).get.2.get.2).room = 0 := by decide

/-- the cells handed out by `get()` have the pool properties, and `put` of a
live cell never trips the range asserts -/
theorem ipool_blocks (e n : Nat) (he : 0 < e) (ops : List IOp) (s : IState)
    (hr : irun ⟨IPool.init (n * e) e, []⟩ ops = some s) :
    s.live.Nodup ∧ (∀ c ∈ s.live, c % e = 0 ∧ c + e ≤ n * e ∧ s.pool.put (some c) ≠ none) := by
  obtain ⟨hp, _, hsz, _⟩ := irun_inv he (IInv.init e n he) hr
  have hf := PInv.facts he hp
  refine ⟨hf.1, fun c hc => ?_⟩
  obtain ⟨i, hi, rfl⟩ := hf.2.2.2.1 c (Or.inl hc)
  have := cell_in_zone (e := e) hi
  refine ⟨Nat.mul_mod_left i e, this, ?_⟩
  simp only [IPool.put, hsz]
  rw [if_pos (by omega)]; simp

/-- `cell_is_allocated(i)` is true exactly for the indices of live cells -/
theorem ipool_cell_is_allocated_iff (e n : Nat) (he : 0 < e) (ops : List IOp) (s : IState) (i : Int)
    (hr : irun ⟨IPool.init (n * e) e, []⟩ ops = some s) :
    s.pool.cellIsAllocated i = true ↔ 0 ≤ i ∧ i < n ∧ i.toNat * e ∈ s.live := by
  obtain ⟨hp, _, hsz, hel⟩ := irun_inv he (IInv.init e n he) hr
  have hf := PInv.facts he hp
  have hcells : s.pool.cells = n := by simp [IPool.cells, hsz, hel, Nat.mul_div_cancel n he]
  simp only [IPool.cellIsAllocated, hcells, hel]
  split
  · rename_i h; constructor
    · intro h'; cases h'
    · intro ⟨h1, h2, _⟩; omega
  · rename_i h
    have hi0 : 0 ≤ i := by omega
    have hin : i.toNat < n := by omega
    have hmem : i.toNat * e ∈ s.pool.head.free ++ s.live := hp.mem_iff.2 (mem_cells.2 ⟨_, hin, rfl⟩)
    simp only [Pool.inFreelist, Bool.not_eq_true', List.contains_eq_mem, decide_eq_false_iff_not]
    constructor
    · intro hnf
      refine ⟨hi0, by omega, ?_⟩
      rcases List.mem_append.1 hmem with h' | h'
      · exact absurd h' hnf
      · exact h'
    · intro ⟨_, _, hl⟩; exact hf.2.2.1 _ hl

/-! ### static_object_pool<T, Capacity> -/

/-- every history of create/destroy: no object is ever constructed over a live
object, live objects are distinct, cell-aligned (a multiple of
`sizeof(storage_type) ≥ sizeof(T)`), inside the storage; `avail()` = Capacity − live -/
theorem sop_lifetimes (szT alT cap : Nat) (ops : List SOp) (s : SOP)
    (hr : srun (SOP.init szT alT cap) ops = some s) :
    s.fault = false ∧ s.objs.Nodup ∧ s.avail = cap - s.objs.length ∧ s.objs.length ≤ cap ∧
    szT ≤ storageSize szT alT ∧
    ∀ c ∈ s.objs, c % storageSize szT alT = 0 ∧ c + storageSize szT alT ≤ cap * storageSize szT alT := by
  have he : 0 < storageSize szT alT := by have := storageSize_pos szT alT; omega
  have hi0 : SInv (storageSize szT alT) cap (SOP.init szT alT cap) := ⟨PInv.init _ cap he, rfl⟩
  obtain ⟨hp, hflt⟩ := srun_inv he hi0 hr
  have hf := PInv.facts he hp
  simp only at hf
  refine ⟨hflt, hf.1, by simp only [SOP.avail, Pool.avail]; omega, by omega, ?_, fun c hc => ?_⟩
  · have := storageSize_ge szT alT; have := Nat.le_max_left szT 8; omega
  · obtain ⟨i, hi, rfl⟩ := hf.2.2.2.1 c (Or.inl hc)
    exact ⟨Nat.mul_mod_left i _, cell_in_zone hi⟩

/-! ## The bare-metal heap (malloc / free / realloc)

A state is *reachable* when some history of requests leads to it from the
initial heap; a history is rejected only when it passes a pointer that is not
the payload of a live block to free/realloc (`heap_valid_requests_never_fault`). -/

/-- the heap invariant, in readable form -/
structure HeapOK (cfg : Cfg) (h : Heap) : Prop where
  /-- no two chunks (free or live, headers included) share a byte -/
  disjoint : (h.flp ++ h.live).Pairwise Disj
  /-- every byte of `[start, brk)` belongs to a chunk: the chunks tile it -/
  covered : ∀ x, x < h.brk → ∃ c ∈ h.flp ++ h.live, c.1 ≤ x ∧ x < c.1 + 8 + c.2
  /-- no chunk reaches beyond the break … -/
  inside : ∀ c ∈ h.flp ++ h.live, c.1 + 8 + c.2 ≤ h.brk
  /-- … and the break never passes the heap end, when one is configured -/
  limit : cfg.lim ≠ 0 → h.brk ≤ cfg.lim
  /-- the free list is strictly address-ordered and no two free chunks are adjacent -/
  ordered : h.flp.Pairwise fun c d => c.1 + 8 + c.2 < d.1
  /-- no free chunk ends at the break -/
  notTop : ∀ f ∈ h.flp, f.1 + 8 + f.2 ≠ h.brk
  /-- payloads are 8-aligned; sizes are multiples of 8, at least 8 (room for the link) -/
  aligned : ∀ c ∈ h.flp ++ h.live, (c.1 + 8) % 8 = 0 ∧ c.2 % 8 = 0 ∧ 8 ≤ c.2

/-- `heap_inv`: after every history of malloc/free/realloc with any request
sizes, the chunks tile `[start, brk)` without overlap, the free list is ordered
and fully coalesced, and all payloads are aligned. -/
theorem heap_inv (cfg : Cfg) (ok : CfgOK cfg) (ops : List Op) (h : Heap)
    (hr : run cfg Heap.init ops = some h) : HeapOK cfg h := by
  have hi := run_inv cfg ok ops _ _ (HInv.init cfg) hr
  refine ⟨?_, fun x hx => ?_, fun c hc => ?_, hi.lim, hi.sorted, hi.notTop, fun c hc => ?_⟩
  · apply pairwise_disj_of_cnt
    intro x; have := hi.tile x; rw [cnt_append]; split at this <;> omega
  · have := hi.tile x; rw [if_pos hx] at this
    obtain ⟨c, hc, hcx⟩ := exists_of_cnt_pos (x := x) (l := h.flp ++ h.live) (by rw [cnt_append]; omega)
    refine ⟨c, hc, ?_⟩
    unfold hasN at hcx; split at hcx
    · assumption
    · cases hcx
  · exact hi.fin_le_brk (List.mem_append.1 hc)
  · rcases List.mem_append.1 hc with hc | hc
    · have := hi.wfF c hc; omega
    · have := hi.wfL c hc; omega

/-- the block returned by malloc: live afterwards with a usable size ≥ the
request, 8-aligned, inside `[start, brk)` (and below the heap end), disjoint
from every block that was live before -/
theorem malloc_returns_valid_block (cfg : Cfg) (ok : CfgOK cfg) (h : Heap) (n p : Nat) (hr : Reach cfg h)
    (hp : (malloc cfg h n).ret = some p) :
    ∃ s, (malloc cfg h n).h.live = (p - 8, s) :: h.live ∧ 8 ≤ p ∧ n ≤ s ∧ p % 8 = 0 ∧
      p + s ≤ (malloc cfg h n).h.brk ∧ (cfg.lim ≠ 0 → p + s ≤ cfg.lim) ∧
      ∀ c ∈ h.live, Disj c (p - 8, s) := by
  have hi := hr.inv ok
  have hi' := malloc_inv cfg ok h n hi
  obtain ⟨s, hlive, hp8, hs⟩ := malloc_ret_some hp
  have hmem : ((p - 8, s) : Chunk) ∈ (malloc cfg h n).h.live := by rw [hlive]; simp
  have hw := hi'.wfL _ hmem
  have hfin := hi'.fin_le_brk (Or.inr hmem)
  simp only at hw hfin
  have := le_reqLen cfg.W n
  refine ⟨s, hlive, hp8, by omega, by omega, by omega, fun hl => by have := hi'.lim hl; omega, fun c hc => ?_⟩
  apply disj_of_hasN; intro x
  have ht := hi'.tile x; rw [hlive] at ht
  have := hasN_le_cnt (x := x) hc
  simp only [cnt_cons] at ht; split at ht <;> omega

/-- malloc fails only when a heap end is configured, and then changes nothing -/
theorem malloc_fail_changes_nothing (cfg : Cfg) (h : Heap) (n : Nat) (hp : (malloc cfg h n).ret = none) :
    cfg.lim ≠ 0 ∧ (malloc cfg h n).h = h ∧ (malloc cfg h n).evs = [] :=
  ⟨malloc_ret_none_lim hp, malloc_ret_none hp⟩

/-- the block returned by realloc: live afterwards, usable size ≥ the request,
8-aligned, inside `[start, brk)` -/
theorem realloc_returns_valid_block (cfg : Cfg) (ok : CfgOK cfg) (h : Heap) (p n sz q : Nat) (r : Res)
    (hr : Reach cfg h) (hl : lookup (p - 8) h.live = some sz)
    (hs : realloc cfg h (some p) n = some r) (hq : r.ret = some q) :
    ∃ s, lookup (q - 8) r.h.live = some s ∧ n ≤ s ∧ q % 8 = 0 ∧ q + s ≤ r.h.brk ∧
      (cfg.lim ≠ 0 → q + s ≤ cfg.lim) := by
  have hi := hr.inv ok
  have hi' := realloc_inv cfg ok h (some p) n r hi hs
  obtain ⟨s, hl', hn, hq8⟩ := realloc_result cfg ok h p n sz q r hi hl hs hq
  have hmem := lookup_mem hl'
  have hw := hi'.wfL _ hmem
  have hfin := hi'.fin_le_brk (Or.inr hmem)
  simp only at hw hfin
  exact ⟨s, hl', hn, by omega, by omega, fun hl0 => by have := hi'.lim hl0; omega⟩

/-- a failing realloc leaves the heap, and with it the old block, untouched -/
theorem realloc_fail_changes_nothing (cfg : Cfg) (ok : CfgOK cfg) (h : Heap) (p n sz : Nat) (r : Res)
    (hr : Reach cfg h) (hl : lookup (p - 8) h.live = some sz)
    (hs : realloc cfg h (some p) n = some r) (hq : r.ret = none) : r.h = h ∧ r.evs = [] := by
  rcases realloc_where cfg ok h p n sz r (hr.inv ok) hl hs with ⟨hret, _⟩ | ⟨_, h1, h2⟩ | ⟨q, _, _, _, _, hret, _⟩
  · rw [hret] at hq; cases hq
  · exact ⟨h1, h2⟩
  · rw [hret] at hq; cases hq

/-- `heap_no_clobber`: no store of a request touches the header or the payload
of a live block other than the one the request operates on … -/
theorem heap_no_clobber (cfg : Cfg) (ok : CfgOK cfg) (h : Heap) (op : Op) (r : Res) (hr : Reach cfg h)
    (hs : step cfg h op = some r) :
    ∀ e ∈ r.evs, ∀ c ∈ h.live, op.target ≠ some (c.1 + 8) → e.Avoids c.1 (c.1 + 8 + c.2) :=
  step_evs_avoid cfg ok h op r (hr.inv ok) hs

/-- … so its contents (and its size header) are the same in every memory that
can result from the request, and the block is still live with the same size:
contents stay untouched until the block itself is freed or reallocated. -/
theorem heap_contents_untouched (cfg : Cfg) (ok : CfgOK cfg) (h : Heap) (op : Op) (r : Res) (hr : Reach cfg h)
    (hs : step cfg h op = some r) (c : Chunk) (hc : c ∈ h.live) (hne : op.target ≠ some (c.1 + 8))
    (m m' : Mem) (hx : Exec m r.evs m') :
    c ∈ r.h.live ∧ ∀ x, c.1 ≤ x → x < c.1 + 8 + c.2 → m' x = m x :=
  ⟨step_keeps_others cfg ok h op r (hr.inv ok) hs c hc hne,
    Exec.frame hx fun e he => step_evs_avoid cfg ok h op r (hr.inv ok) hs e he c hc hne⟩

/-- … and over a whole history: as long as no request frees or reallocates the
block, it stays live with the same size and every byte of it (header and
payload) keeps its value, whatever the other requests are. -/
theorem heap_contents_untouched_until_freed (cfg : Cfg) (ok : CfgOK cfg) (ops : List Op) (h h' : Heap)
    (evs : List Ev) (hr : Reach cfg h) (hs : runE cfg h ops = some (h', evs)) (c : Chunk) (hc : c ∈ h.live)
    (hne : ∀ op ∈ ops, op.target ≠ some (c.1 + 8)) (m m' : Mem) (hx : Exec m evs m') :
    c ∈ h'.live ∧ ∀ x, c.1 ≤ x → x < c.1 + 8 + c.2 → m' x = m x := by
  induction ops generalizing h m evs with
  | nil => simp only [runE, Option.some.injEq, Prod.mk.injEq] at hs; obtain ⟨rfl, rfl⟩ := hs
           simp only [Exec] at hx; subst hx; exact ⟨hc, fun _ _ _ => rfl⟩
  | cons op ops ih =>
    simp only [runE] at hs
    split at hs
    · cases hs
    · rename_i r hst
      split at hs
      · cases hs
      · rename_i x hx2
        simp only [Option.some.injEq, Prod.mk.injEq] at hs
        obtain ⟨rfl, rfl⟩ := hs
        obtain ⟨m1, ha, hb⟩ := Exec.append hx
        have h1 := heap_contents_untouched cfg ok h op r hr hst c hc (hne op (by simp)) m m1 ha
        have h2 := ih r.h x.2 (hr.step hst) (by rw [hx2]) h1.1 (fun o ho => hne o (by simp [ho])) m1 hb
        exact ⟨h2.1, fun y hy1 hy2 => by rw [h2.2 y hy1 hy2, h1.2 y hy1 hy2]⟩

/-- realloc preserves the common prefix: in every resulting memory the first
`min(old size, request)` bytes of the returned block equal the old payload -/
theorem realloc_preserves_prefix (cfg : Cfg) (ok : CfgOK cfg) (h : Heap) (p n sz q : Nat) (r : Res)
    (hr : Reach cfg h) (hl : lookup (p - 8) h.live = some sz)
    (hs : realloc cfg h (some p) n = some r) (hq : r.ret = some q) (m m' : Mem) (hx : Exec m r.evs m') :
    ∀ i, i < min sz n → m' (q + i) = m (p + i) :=
  realloc_prefix' cfg ok h p n sz q r (hr.inv ok) hl hs hq m m' hx

/-- `heap_returns_to_start`: when no block is live the break is back at the
heap start and the free list is empty — no memory is lost -/
theorem heap_returns_to_start (cfg : Cfg) (ok : CfgOK cfg) (ops : List Op) (h : Heap)
    (hr : run cfg Heap.init ops = some h) (hl : h.live = []) : h.brk = 0 ∧ h.flp = [] := by
  have := (run_inv cfg ok ops _ _ (HInv.init cfg) hr).no_free_of_no_live hl
  exact ⟨this.2, this.1⟩

/-- free / realloc of a live block never fault in the model: histories are
rejected only for pointers that are not live -/
theorem heap_valid_requests_never_fault (cfg : Cfg) (h : Heap) (p sz n : Nat) (h8 : 8 ≤ p)
    (hl : lookup (p - 8) h.live = some sz) :
    (∃ r, free h p = some r) ∧ (∃ r, realloc cfg h (some p) n = some r) :=
  ⟨free_total h8 hl, realloc_total h8 hl⟩

/-- HISTORICAL (before `fix: realloc() enforces malloc()'s minimum chunk size`):
`malloc(64); malloc(64); realloc(p, 0)` left a live chunk with `sz = 0`, and
`free(p)` then stored its `nx` link into `[8, 16)` — the `sz` header of the
free chunk at offset 8.  The repaired routine keeps 8 bytes. -/
theorem reallocOrig_zero_chunk_witness :
    let cfg : Cfg := ⟨64, 0⟩
    let h2 := (malloc cfg (malloc cfg Heap.init 64).h 64).h
    (∃ r, reallocOrig cfg h2 (some 8) 0 = some r ∧ (0, 0) ∈ r.h.live ∧ (8, 56) ∈ r.h.flp ∧
        ∃ r', free r.h 8 = some r' ∧ Ev.w 8 8 ∈ r'.evs) ∧
    (∃ r, realloc cfg h2 (some 8) 0 = some r ∧ (0, 8) ∈ r.h.live) := by
  decide

/-! non-vacuity of the hypotheses used above -/

example : CfgOK ⟨64, 0⟩ := ⟨by decide, by decide⟩
example : Reach ⟨64, 0⟩ ⟨216, [(72, 64)], [(144, 64), (0, 64)]⟩ :=
  ⟨[.malloc 1, .malloc 64, .malloc 9, .free (some 80)], by decide⟩
example : ∃ h, run ⟨64, 100⟩ Heap.init [.malloc 1, .malloc 64] = some h ∧ h.live.length = 1 :=
  ⟨_, rfl, by decide⟩
example : ∃ s, prun (freshPool 16 3) [.alloc, .alloc, .free 32, .alloc, .alloc, .alloc] = some s ∧
    s.live.length = 3 := ⟨_, rfl, by decide⟩
example : ∃ s, irun ⟨IPool.init 48 16, []⟩ [.get, .get, .get, .get, .put none, .put (some 16)] = some s ∧
    s.pool.room = 1 := ⟨_, rfl, by decide⟩
example : ∃ s, srun (SOP.init 12 4 3) [.create, .create, .destroy 32, .create] = some s ∧ s.objs.length = 2 :=
  ⟨_, rfl, by decide⟩

/-! ## One pool fed from several zones (`pool_engage` onto an existing list)

`pool_init` and `pool_engage` are separate calls: a pool may be given further
zones at any point of its life (`static_object_pool::freelist()` exists for
that).  A history is any list of `engage base size elemsz` / `alloc` / `free c`;
it is rejected (`none`) only when the zone is refused (`engageRefused`: `elemsz <
sizeof(struct slist_head) = 8` or `size % elemsz ≠ 0`), for a zone overlapping
an earlier one, or for `free` of a cell that is not allocated.  Zones may have different sizes AND different element sizes.
`capacity zones` = the sum of `size / elemsz` over the zones engaged so far;
`InZone z c` = `c = z.base + i * z.elemsz` for some `i < size / elemsz`. -/

/-- `pool_engage` onto ANY free list: the cells of the new zone come in front,
the list that was there stays behind them — nothing is dropped — and `avail`
grows by exactly the number of cells of the zone -/
theorem mpool_engage_keeps_old_list (p : Pool) (z : Zone) (hw : z.WF) :
    (p.engageAt z.base z.size z.elemsz).free = (zcells z).reverse ++ p.free ∧
    (p.engageAt z.base z.size z.elemsz).avail = p.avail + z.ncells := by
  have := engageAt_eq p z hw
  exact ⟨this, by simp only [Pool.avail, this, List.length_append, List.length_reverse, zcells_length]; omega⟩

/-- every multi-zone history: the cells handed out are pairwise distinct, each is a
cell of one of the engaged zones (inside that zone, on a cell boundary of it), and
any two of them are disjoint byte ranges (each with the element size of its zone) -/
theorem mpool_blocks_distinct_aligned_in_zone (ops : List MOp) (s : MState)
    (hr : mrun MState.init ops = some s) :
    s.live.Nodup ∧
    (∀ c ∈ s.live, ∃ z ∈ s.zones, InZone z c ∧ z.base ≤ c ∧ c + z.elemsz ≤ z.base + z.size ∧
      (c - z.base) % z.elemsz = 0) ∧
    (∀ c ∈ s.live, ∀ d ∈ s.live, c ≠ d → ∀ z ∈ s.zones, ∀ w ∈ s.zones, InZone z c → InZone w d →
      c + z.elemsz ≤ d ∨ d + w.elemsz ≤ c) := by
  have hi := mrun_inv MInv.init hr
  have hf := hi.facts
  refine ⟨hf.1, fun c hc => ?_, fun c _ d _ hne z hz w hw hzc hwd => ?_⟩
  · obtain ⟨z, hz, hin⟩ := hf.2.2.2.1 c (Or.inl hc)
    exact ⟨z, hz, hin, hin.range (hi.wf z hz)⟩
  · rcases zones_eq_or_disjoint hi.disj hz hw with rfl | hd
    · exact cells_of_one_zone hzc hwd hne
    · exact cells_of_disjoint_zones (hi.wf z hz) (hi.wf w hw) hd hzc hwd

/-- a successful `pool_alloc` returns a cell that was not handed out before -/
theorem mpool_alloc_fresh (ops : List MOp) (s s' : MState) (c : Nat)
    (hr : mrun MState.init ops = some s) (ha : mstep s .alloc = some (s', some c)) :
    c ∉ s.live ∧ s'.live = c :: s.live := by
  have hi := mrun_inv MInv.init hr
  have hf' := (mstep_inv hi ha).facts
  simp only [mstep, Pool.alloc] at ha
  cases hfr : s.pool.free with
  | nil => rw [hfr] at ha; simp at ha
  | cons c' rest =>
    rw [hfr] at ha; simp only [Option.some.injEq, Prod.mk.injEq] at ha
    obtain ⟨rfl, hc⟩ := ha
    cases hc
    exact ⟨by have := hf'.1; simp only [List.nodup_cons] at this; exact this.1, rfl⟩

/-- `pool_alloc` answers null exactly when as many cells are handed out as ALL
zones engaged so far contain -/
theorem mpool_null_iff_exhausted (ops : List MOp) (s : MState) (hr : mrun MState.init ops = some s) :
    s.pool.alloc.1 = none ↔ s.live.length = capacity s.zones := by
  have hf := (mrun_inv MInv.init hr).facts.2.2.2.2
  simp only [Pool.alloc]
  cases hfr : s.pool.free with
  | nil => simp [hfr] at hf ⊢; exact hf
  | cons c rest => simp [hfr] at hf ⊢; omega

/-- … so after any history, `k` further allocations give `min (live + k) capacity`
cells: exactly the capacity (the sum over the zones) is handed out before null -/
theorem mpool_exactly_capacity (ops : List MOp) (s s' : MState) (k : Nat)
    (hr : mrun MState.init ops = some s) (hk : mrun s (List.replicate k .alloc) = some s') :
    s'.live.length = min (s.live.length + k) (capacity s.zones) :=
  (mrun_allocs k s s' (mrun_inv MInv.init hr) hk).1

/-- `pool_avail` = capacity − live cells after every multi-zone history -/
theorem mpool_avail_eq (ops : List MOp) (s : MState) (hr : mrun MState.init ops = some s) :
    s.pool.avail = capacity s.zones - s.live.length ∧ s.live.length ≤ capacity s.zones := by
  have hf := (mrun_inv MInv.init hr).facts.2.2.2.2
  simp only [Pool.avail]; omega

/-- a freed cell is allocatable again, also when further zones are engaged in
between: it stays on the free list until it is handed out -/
theorem mpool_freed_cell_allocatable (s s1 : MState) (c : Nat) (r : Option Nat)
    (hf : mstep s (.free c) = some (s1, r)) :
    (∃ s2, mstep s1 .alloc = some (s2, some c)) ∧
    ∀ b sz e s2 r2, mstep s1 (.engage b sz e) = some (s2, r2) → c ∈ s2.pool.free := by
  simp only [mstep] at hf
  split at hf
  · cases hf
    refine ⟨⟨⟨⟨s.pool.free⟩, c :: s.live.erase c, s.zones⟩, by simp [mstep, Pool.alloc, Pool.release]⟩, ?_⟩
    intro b sz e s2 r2 he
    simp only [mstep] at he
    split at he
    · cases he
    · rename_i hc
      split at he
      · simp only [Option.some.injEq, Prod.mk.injEq] at he
        obtain ⟨rfl, _⟩ := he
        have hwz : (⟨b, sz, e⟩ : Zone).WF := not_refused_wf hc
        have := engageAt_eq (s.pool.release c).1 ⟨b, sz, e⟩ hwz
        simp only at this ⊢
        rw [this]; simp [Pool.release]
      · cases he
  · cases hf

/-- the stores of `pool_engage` (one link per cell) stay inside the zone being
engaged: cells handed out from other zones keep their contents -/
theorem mpool_engage_stores_inside_zone (b n e fuel : Nat) (he : 8 ≤ e) :
    ∀ ev ∈ engageEvs e (b + n * e) fuel b, ev.Inside b (b + n * e) := by
  have := engageEvs_inside e b n he fuel 0 (Nat.zero_le _)
  simpa using this

/-- no store of a pool request (the links written by `pool_engage` into a new
zone, the link written by `pool_free`) touches a cell that is handed out before
and after the request (element sizes ≥ 8 = size of the link: the precondition of `pool_engage`) … -/
theorem mpool_no_clobber (ops : List MOp) (s s' : MState) (op : MOp) (r : Option Nat)
    (hr : mrun MState.init ops = some s) (hs : mstep s op = some (s', r)) :
    ∀ ev ∈ mstepEvs s op, ∀ c ∈ s.live, c ∈ s'.live → ∀ z ∈ s'.zones, InZone z c →
      ev.Avoids c (c + z.elemsz) :=
  mstep_evs_avoid (mrun_inv MInv.init hr) hs

/-- … so over a whole multi-zone history the contents of a handed-out cell stay
untouched until it is freed: as long as no request frees it, it stays handed
out and every byte keeps its value in every memory that can result -/
theorem mpool_contents_untouched_until_freed (ops0 ops : List MOp) (s s' : MState) (evs : List Ev)
    (hr : mrun MState.init ops0 = some s) (hs : mrunE s ops = some (s', evs))
    (c : Nat) (hc : c ∈ s.live)
    (hne : ∀ op ∈ ops, op ≠ .free c) (z : Zone) (hz : z ∈ s.zones) (hzc : InZone z c)
    (m m' : Mem) (hx : Exec m evs m') :
    c ∈ s'.live ∧ ∀ x, c ≤ x → x < c + z.elemsz → m' x = m x :=
  mrunE_frame (mrun_inv MInv.init hr) hs hc hne hz hzc hx

/-- the `next`-pointer routines implement every multi-zone history: the same
pointers are returned and the links always represent the model's list (`head` =
address of `pool->free_blocks`, outside every zone) -/
theorem mpool_ptr_refines (s s' : MState) (op : MOp) (r : Option Nat) (m : Links) (head : Nat)
    (ops : List MOp) (hr0 : mrun MState.init ops = some s) (hr : Rep m head s.pool.free)
    (hs : mstep s op = some (s', r))
    (hh : ∀ z ∈ s'.zones, head < z.base ∨ z.base + z.size ≤ head) :
    (mstepP m head op).2 = r ∧ Rep (mstepP m head op).1 head s'.pool.free :=
  mstepP_rep (mrun_inv MInv.init hr0) hr hs hh

theorem mpool_ptr_run_refines (ops : List MOp) (s : MState) (m : Links) (head : Nat)
    (hs : mrun MState.init ops = some s)
    (hh : ∀ z ∈ s.zones, head < z.base ∨ z.base + z.size ≤ head) :
    Rep (mrunP head (slistInit m head) ops) head s.pool.free :=
  mrunP_rep MInv.init (by simpa [MState.init, Pool.init] using rep_init m head) hs hh

/-! ### what the pools need from the element size

The list-level theorems above hold for the list model with any `elemsz > 0`.  The
CODE keeps the list in the cells: `pool_engage` / `pool_free` store an 8-byte link
at the start of every free cell.  That is sound exactly when a cell can hold the
link; after `fix: igris::pool::init() asserts that a cell can hold the free-list link`
the class refuses smaller element sizes (`engageRefused`), for the C function
`pool_engage` it is the documented precondition, and the multi-zone histories
(`mstep`) reject them. -/

/-- with `elemsz ≥ 8` every link store of `pool_engage` is the first 8 bytes of a
cell of the zone and stays inside that cell: no two link fields overlap, none
leaves the zone — the `next`-field memory `Links` (one slot per cell) is sound -/
theorem pool_links_inside_cells (e b n fuel : Nat) (he : 8 ≤ e) :
    ∀ ev ∈ engageEvs e (b + n * e) fuel b,
      ∃ k, k < n ∧ ev = .w (b + k * e) 8 ∧ ev.Inside (b + k * e) (b + k * e + e) ∧ ev.Inside b (b + n * e) := by
  intro ev hev
  have h := engageEvs_cells e b n (by omega) fuel 0 (Nat.zero_le _)
  simp only [Nat.zero_mul, Nat.add_zero] at h
  obtain ⟨k, _, hk, rfl⟩ := h ev hev
  have h1 : (k + 1) * e ≤ n * e := Nat.mul_le_mul_right e hk
  rw [Nat.add_mul, Nat.one_mul] at h1
  refine ⟨k, hk, rfl, ?_, ?_⟩ <;> simp only [Ev.Inside, Ev.lo, Ev.hi] <;> omega

/-- FULL STATEMENT ("for all pool element sizes") is violated for element sizes
below the size of the link.  Witness: `elemsz = 4`, a zone of 16 bytes — the link
stores are 8 bytes at 0, 4, 8, 12: neighbouring links overlap and the last one
leaves the zone (real code: ASan heap-buffer-overflow, `pool_avail` segfaults).
The repaired `igris::pool::init` refuses the request (assert), the histories reject it. -/
theorem pool_elemsz_below_link_witness :
    engageEvs 4 16 17 0 = [.w 0 8, .w 4 8, .w 8 8, .w 12 8] ∧ ¬ (Ev.w 12 8).Inside 0 16 ∧
    engageRefused 16 4 = true ∧ mstep MState.init (.engage 0 16 4) = none :=
  ⟨by decide, by simp [Ev.Inside, Ev.lo, Ev.hi], by decide, by decide⟩

/-- "aligned for its use": when the zone is 8-aligned and the element size a
multiple of 8, every cell is 8-aligned (the link store and any `T` with
`alignof(T) ≤ 8` are aligned) -/
theorem pool_cells_pointer_aligned (z : Zone) (c : Nat) (hb : z.base % 8 = 0) (he : z.elemsz % 8 = 0)
    (hc : InZone z c) : c % 8 = 0 := by
  obtain ⟨i, _, rfl⟩ := hc
  obtain ⟨q, hq⟩ := Nat.dvd_of_mod_eq_zero he
  rw [hq, Nat.mul_left_comm]
  generalize i * q = t
  omega

/-- FULL STATEMENT (aligned for EVERY element size) fails: `elemsz = 12` passes the
asserts, cell 12 of an 8-aligned zone is not pointer-aligned (the link store is
a misaligned access: tolerated on x86-64, a fault on Cortex-M0).  The
correspondence stream exercises such sizes with UBSan's alignment check off. -/
theorem pool_elemsz_unaligned_witness :
    InZone ⟨0, 24, 12⟩ 12 ∧ 12 % 8 ≠ 0 ∧ engageRefused 24 12 = false :=
  ⟨⟨1, by decide, by decide⟩, by decide, by decide⟩

/-! ### static_object_pool: object lifetimes, with zones added through `freelist()` -/

/-- every history of create / destroy / engage-through-`freelist()`: per cell the
constructor ran exactly once more than the destructor when an object lives there
and exactly as often otherwise (constructed once, destroyed once, never
constructed over a live object); objects are distinct cells of the storage or of
an engaged zone, large enough for `T`; `avail()` = total cells − live objects -/
theorem sopx_lifetimes (szT alT cap : Nat) (ops : List SXOp) (p : SOPx)
    (hr : sxrun (storageSize szT alT) (SOPx.init szT alT cap) ops = some p) :
    p.sop.fault = false ∧ p.sop.objs.Nodup ∧
    (∀ c, p.ctor.count c = p.dtor.count c + (if c ∈ p.sop.objs then 1 else 0)) ∧
    p.sop.avail = capacity p.zones - p.sop.objs.length ∧ p.sop.objs.length ≤ capacity p.zones ∧
    szT ≤ storageSize szT alT ∧
    ∀ c ∈ p.sop.objs, ∃ z ∈ p.zones, z.elemsz = storageSize szT alT ∧ z.base ≤ c ∧
      c + storageSize szT alT ≤ z.base + z.size ∧ (c - z.base) % storageSize szT alT = 0 := by
  have hi := sxrun_inv (SXInv.init szT alT cap) hr
  have hf := hi.m.facts
  simp only at hf
  refine ⟨hi.fault, hf.1, hi.ledger, by simp only [SOP.avail, Pool.avail]; omega, by omega, ?_, fun c hc => ?_⟩
  · have := storageSize_ge szT alT; have := Nat.le_max_left szT 8; omega
  · obtain ⟨z, hz, hin⟩ := hf.2.2.2.1 c (Or.inl hc)
    have := hin.range (hi.m.wf z hz)
    rw [hi.esz z hz] at this
    exact ⟨z, hz, hi.esz z hz, this⟩

/-- slot reuse: after `destroy(obj)` the next `create()` constructs in the cell
`obj` occupied -/
theorem sopx_slot_reuse (st : Nat) (p p1 : SOPx) (c : Nat) (r : Option Nat)
    (hd : sxstep st p (.destroy c) = some (p1, r)) :
    ∃ p2, sxstep st p1 .create = some (p2, some c) ∧ p2.ctor = c :: p1.ctor := by
  simp only [sxstep] at hd
  split at hd
  · simp only [Option.some.injEq, Prod.mk.injEq] at hd
    obtain ⟨rfl, _⟩ := hd
    simp [sxstep, SOP.create, SOP.destroy, Pool.alloc, Pool.release]
  · cases hd

/-! ### igris::pool: the iterator over allocated cells -/

/-- `unlinked_iterator::next()` from `num`: the smallest allocated cell index
above `num`, or −1 (= `end()`) when there is none; the do/while terminates -/
theorem ipool_iterator_next (e n : Nat) (he : 0 < e) (ops : List IOp) (s : IState)
    (hr : irun ⟨IPool.init (n * e) e, []⟩ ops = some s) (num : Int) (hnum : -1 ≤ num) :
    (s.pool.iterNext num = -1 ∧ ∀ j : Int, num < j → j < n → j.toNat * e ∉ s.live) ∨
    (∃ j : Int, s.pool.iterNext num = j ∧ num < j ∧ j < n ∧ j.toNat * e ∈ s.live ∧
      ∀ k : Int, num < k → k < j → k.toNat * e ∉ s.live) :=
  ipool_iterNext_spec e n he ops s hr num hnum

/-- `for (it = begin(); it != end(); ++it)` visits exactly the allocated cells,
each once, in ascending order — as many as there are live cells -/
theorem ipool_iteration_visits_live_cells (e n : Nat) (he : 0 < e) (ops : List IOp) (s : IState)
    (hr : irun ⟨IPool.init (n * e) e, []⟩ ops = some s) :
    s.pool.iterAll = ((List.range n).filter (fun i : Nat => decide (i * e ∈ s.live))).map (fun i : Nat => (i : Int)) ∧
    s.pool.iterAll.length = s.live.length ∧
    (∀ i ∈ s.pool.iterAll, 0 ≤ i ∧ i < n ∧ i.toNat * e ∈ s.live) ∧
    (∀ c ∈ s.live, ∃ i ∈ s.pool.iterAll, c = i.toNat * e) :=
  ⟨ipool_iterAll_eq e n he ops s hr, ipool_iterAll_length e n he ops s hr,
    fun i hi => ipool_iter_cell_in_zone e n he ops s hr i hi,
    fun c hc => ipool_iter_visits_all e n he ops s hr c hc⟩

/-- igris::pool: a cell given back with `put` is returned by the next `get` -/
theorem ipool_put_then_get (s s1 : IState) (c : Nat) (r : Option Nat)
    (hp : istep s (.put (some c)) = some (s1, r)) : ∃ s2, istep s1 .get = some (s2, some c) :=
  ipool_put_then_get_returns_it s s1 c r hp

/-- a default-constructed `igris::pool` (no zone) is an empty pool of capacity 0
for every query, after every history of `get` / `put(NULL)`: `size()`, `room()`,
`avail()` are 0, `get()` answers null, no cell is allocated, the iteration is empty -/
theorem ipool_default_constructed (ops : List IOp) (s : IState)
    (hr : irun ⟨IPool.default, []⟩ ops = some s) (i : Int) :
    s.pool.cells = 0 ∧ s.pool.room = 0 ∧ s.pool.avail = 0 ∧ s.pool.get.1 = none ∧
    s.pool.cellIsAllocated i = false ∧ s.pool.iterAll = [] ∧ s.live = [] := by
  have hk : ∀ ops s, irun ⟨IPool.default, []⟩ ops = some s → s = ⟨IPool.default, []⟩ := by
    intro ops
    induction ops with
    | nil => intro s h; simp only [irun] at h; cases h; rfl
    | cons op ops ih =>
      intro s h
      cases op with
      | get => exact ih s (by simpa [irun, istep, IPool.get, Pool.alloc, IPool.default, Pool.init] using h)
      | put c =>
        cases c with
        | none => exact ih s (by simpa [irun, istep, IPool.put] using h)
        | some c => simp [irun, istep] at h
  rw [hk ops s hr]
  refine ⟨rfl, rfl, rfl, rfl, ?_, rfl, rfl⟩
  simp only [IPool.cellIsAllocated, IPool.cells, IPool.default, Nat.zero_div]
  rw [if_pos (by omega)]

/-- FULL STATEMENT violated by `size()` as it was (`cellsOrig`): on a
default-constructed pool it divides by `_elemsz = 0` (trap) -/
theorem ipool_sizeOrig_default_witness :
    IPool.default.cellsOrig = none ∧ IPool.default.cells = 0 ∧ (IPool.init 48 16).cellsOrig = some 3 := by decide

/-! ## "Inside the arena" is relative to the configured heap end

FULL STATEMENT: every block lies inside the arena.  The allocator learns the end
of its arena only through `__malloc_heap_end`, and the shipped default is 0 = "no
limit" (`fix 0084f04` made the limit opt-in to keep the old behaviour).  So the
clause holds as `_partial` (heap end configured) and fails as `_witness` (default). -/

/-- with a heap end configured, every chunk (free or live, header included) of
every history ends at or below it -/
theorem heap_blocks_inside_arena_partial (cfg : Cfg) (ok : CfgOK cfg) (hl : cfg.lim ≠ 0) (ops : List Op) (h : Heap)
    (hr : run cfg Heap.init ops = some h) : ∀ c ∈ h.flp ++ h.live, c.1 + 8 + c.2 ≤ cfg.lim := by
  have hok := heap_inv cfg ok ops h hr
  intro c hc
  exact Nat.le_trans (hok.inside c hc) (hok.limit hl)

/-- with the default `__malloc_heap_end = 0` there is no arena bound the allocator
respects: for every bound `B` one request moves the break past it (malloc never fails) -/
theorem heap_blocks_inside_arena_witness (W B : Nat) :
    (malloc ⟨W, 0⟩ Heap.init B).ret = some 8 ∧ B < (malloc ⟨W, 0⟩ Heap.init B).h.brk := by
  have := le_reqLen W B
  simp only [malloc, Heap.init, scan, availOf]
  refine ⟨by simp, ?_⟩
  simp
  omega

/-! ## Requests close to `SIZE_MAX` (64-bit `size_t`)

`malloc64` / `realloc64` = the routines with the overflow test of
`fix: malloc()/realloc() fail when rounding the request up to __WORDSIZE wraps around`;
for every request they either refuse (NULL, nothing changed) or behave as the
unbounded routines above, so all heap theorems hold for ALL request sizes. -/

/-- for EVERY request size: a block returned by malloc has a usable size ≥ the
request (and all the other properties of `malloc_returns_valid_block`); a request
whose rounding does not fit a `size_t` is refused and nothing changes -/
theorem malloc64_all_sizes (cfg : Cfg) (ok : CfgOK cfg) (h : Heap) (n : Nat) (hr : Reach cfg h) :
    (∀ p, (malloc64 cfg h n).ret = some p →
      ∃ s, (malloc64 cfg h n).h.live = (p - 8, s) :: h.live ∧ n ≤ s ∧ p % 8 = 0 ∧
        p + s ≤ (malloc64 cfg h n).h.brk ∧ ∀ c ∈ h.live, Disj c (p - 8, s)) ∧
    ((malloc64 cfg h n).ret = none → (malloc64 cfg h n).h = h ∧ (malloc64 cfg h n).evs = []) ∧
    (n ≤ SIZE_MAX → roundLen cfg.W n > SIZE_MAX → (malloc64 cfg h n).ret = none) ∧
    Reach cfg (malloc64 cfg h n).h := by
  unfold malloc64
  split
  · rename_i hc
    exact ⟨fun p hp => (by cases hp), fun _ => ⟨rfl, rfl⟩, fun _ _ => rfl, hr⟩
  · rename_i hc
    refine ⟨fun p hp => ?_, fun hn => (malloc_fail_changes_nothing cfg h n hn).2, fun hle hbig => ?_,
      hr.step (op := .malloc n) rfl⟩
    · obtain ⟨s, h1, _, h3, h4, h5, _, h7⟩ := malloc_returns_valid_block cfg ok h n p hr hp
      exact ⟨s, h1, h3, h4, h5, h7⟩
    · exfalso; apply hc
      unfold roundLen at hbig
      split at hbig
      · rename_i hm
        have : 0 < n := by
          rcases Nat.eq_zero_or_pos n with h0 | h0
          · subst h0; simp at hm
          · exact h0
        exact ⟨hm, by omega⟩
      · omega

/-- the same for realloc: either the unbounded routine, or NULL with the heap
(and the old block) unchanged -/
theorem realloc64_all_sizes (cfg : Cfg) (ok : CfgOK cfg) (h : Heap) (p n sz : Nat) (r : Res)
    (hr : Reach cfg h) (hl : lookup (p - 8) h.live = some sz) (hs : realloc64 cfg h (some p) n = some r) :
    (∀ q, r.ret = some q → ∃ s, lookup (q - 8) r.h.live = some s ∧ n ≤ s ∧ q % 8 = 0 ∧ q + s ≤ r.h.brk) ∧
    (r.ret = none → r.h = h ∧ r.evs = []) := by
  unfold realloc64 at hs
  split at hs
  · cases hs
    exact ⟨fun q hq => (by cases hq), fun _ => ⟨rfl, rfl⟩⟩
  · refine ⟨fun q hq => ?_, fun hn => realloc_fail_changes_nothing cfg ok h p n sz r hr hl hs hn⟩
    obtain ⟨s, h1, h2, h3, h4, _⟩ := realloc_returns_valid_block cfg ok h p n sz q r hr hl hs hq
    exact ⟨s, h1, h2, h3, h4⟩

/-- FULL STATEMENT violated by the routines as they were (`mallocOrig64`,
`reallocOrig64`): `malloc(SIZE_MAX − 9)` returned a block of 64 usable bytes;
`realloc(p, SIZE_MAX − 9)` of a 256-byte block "succeeded" by shrinking it to 64
bytes and freeing the rest.  The repaired routines answer NULL and change nothing. -/
theorem size_wrap_witness :
    let cfg : Cfg := ⟨64, 0⟩
    let big := 2 ^ 64 - 10
    (mallocOrig64 cfg Heap.init big).ret = some 8 ∧ (mallocOrig64 cfg Heap.init big).h.live = [(0, 8)] ∧
    (malloc64 cfg Heap.init big).ret = none ∧
    (let h1 := (malloc cfg Heap.init 256).h
     (∃ r, reallocOrig64 cfg h1 (some 8) big = some r ∧ r.ret = some 8 ∧ (0, 8) ∈ r.h.live) ∧
     (∃ r, realloc64 cfg h1 (some 8) big = some r ∧ r.ret = none ∧ r.h = h1)) := by
  decide

/-! ## The heap at the level of the `nx` pointers (ModelPtr.lean)

`PHeap` = `__brkval`, `__flp` and the two words `sz` / `nx` of every header in
memory; `mallocP` / `freeP` / `reallocP` are the literal pointer stores of the C
code, their loops walking `fp1 = fp1->nx` with fuel.  `FRep ph h`: same break,
following `__flp` / `nx` visits exactly the nodes of the list `h.flp` in order with
the recorded `sz` words and ends in NULL, and the `sz` word of every live header
is the recorded size. -/

/-- every pointer store of malloc keeps the linked structure equal to the
address-ordered list of the model, and the same pointer is returned (for any
fuel above the length of the list: the loop never runs out) -/
theorem heap_ptr_malloc_refines (cfg : Cfg) (ok : CfgOK cfg) (ph : PHeap) (h : Heap) (n fuel : Nat)
    (hr : Reach cfg h) (hp : FRep ph h) (hf : h.flp.length < fuel) :
    (mallocP cfg ph n fuel).ret = (malloc cfg h n).ret ∧ FRep (mallocP cfg ph n fuel).h (malloc cfg h n).h :=
  mallocP_refines cfg ph h n fuel (hr.inv ok) hp hf

/-- the same for free of a live block: the ordered walk, both merges and the
lowering of the break, as pointer stores, produce the list of the model -/
theorem heap_ptr_free_refines (cfg : Cfg) (ok : CfgOK cfg) (ph : PHeap) (h : Heap) (p sz fuel : Nat) (r : Res)
    (hr : Reach cfg h) (hp : FRep ph h) (hf : h.flp.length < fuel) (h8 : 8 ≤ p)
    (hl : lookup (p - 8) h.live = some sz) (hfree : free h p = some r) : FRep (freeP ph p fuel).h r.h :=
  freeP_refines cfg ph h p sz fuel r (hr.inv ok) hp hf h8 hl hfree

/-- the same for realloc on all its paths (NULL, shrink-split + free of the tail,
growth into the neighbour with / without split, in-place growth at the top, move) -/
theorem heap_ptr_realloc_refines (cfg : Cfg) (ok : CfgOK cfg) (ph : PHeap) (h : Heap) (ptr : Option Nat)
    (n fuel : Nat) (r : Res) (hr : Reach cfg h) (hp : FRep ph h) (hf : h.flp.length < fuel)
    (hre : realloc cfg h ptr n = some r) :
    (reallocP cfg ph ptr n fuel).ret = r.ret ∧ FRep (reallocP cfg ph ptr n fuel).h r.h :=
  reallocP_refines cfg ok ph h ptr n fuel r (hr.inv ok) hp hf hre

/-- whole histories: running the pointer-level routines from the initial heap
(fuel `brk + 1` per call) always represents the state of the list model -/
theorem heap_ptr_run_refines (cfg : Cfg) (ok : CfgOK cfg) (ops : List Op) (h : Heap)
    (hrun : run cfg Heap.init ops = some h) : FRep (runP cfg PHeap.init ops) h :=
  runP_refines cfg ok ops h hrun

/-- hence the heap theorems carry over to the pointer-level heap: after every
history the free list READ FROM MEMORY (`__flp`, `nx`, `sz` words) is strictly
address ordered and fully coalesced, never reaches the break, its chunks and the
live chunks (sizes read from their `sz` words) tile `[start, brk)` without overlap,
and with no live block the pointer-level break is 0 and `__flp` is NULL -/
theorem heap_ptr_inv (cfg : Cfg) (ok : CfgOK cfg) (ops : List Op) (h : Heap)
    (hrun : run cfg Heap.init ops = some h) :
    let ph := runP cfg PHeap.init ops
    let fl := walkFl ph (ph.brk + 1)
    let lv := h.live.map (fun c => (c.1, ph.szf c.1))
    fl.Pairwise (fun c d => c.1 + 8 + c.2 < d.1) ∧ (∀ f ∈ fl, f.1 + 8 + f.2 ≠ ph.brk) ∧
    (fl ++ lv).Pairwise Disj ∧
    (∀ x, x < ph.brk → ∃ c ∈ fl ++ lv, c.1 ≤ x ∧ x < c.1 + 8 + c.2) ∧
    (∀ c ∈ fl ++ lv, c.1 + 8 + c.2 ≤ ph.brk) ∧ (cfg.lim ≠ 0 → ph.brk ≤ cfg.lim) ∧
    (h.live = [] → ph.brk = 0 ∧ ph.flp = none) := by
  intro ph fl lv
  have hrep := runP_refines cfg ok ops h hrun
  have hfl : fl = h.flp := runP_walkFl cfg ok ops h hrun
  have hlv : lv = h.live := by
    show h.live.map (fun c => (c.1, ph.szf c.1)) = h.live
    have : ∀ c ∈ h.live, (fun c : Chunk => (c.1, ph.szf c.1)) c = c := fun c hc => by
      have h2 : ph.szf c.1 = c.2 := hrep.2.2 c hc
      show (c.1, ph.szf c.1) = c
      rw [h2]
    rw [List.map_congr_left this, List.map_id']
  have hb : ph.brk = h.brk := hrep.1
  have hok := heap_inv cfg ok ops h hrun
  rw [hfl, hlv, hb]
  refine ⟨hok.ordered, hok.notTop, hok.disjoint, hok.covered, hok.inside, hok.limit, fun hl => ?_⟩
  have := heap_returns_to_start cfg ok ops h hrun hl
  refine ⟨this.1, ?_⟩
  have hc := hrep.2.1
  rw [this.2] at hc
  exact hc

example : ∃ h, run ⟨64, 0⟩ Heap.init [.malloc 1, .malloc 64, .malloc 9, .free (some 80)] = some h ∧
    walkFl (runP ⟨64, 0⟩ PHeap.init [.malloc 1, .malloc 64, .malloc 9, .free (some 80)]) 217 = [(72, 64)] :=
  ⟨_, rfl, by decide⟩

/-! non-vacuity of the multi-zone hypotheses -/

example : (⟨16, 64, 16⟩ : Zone).WF := ⟨by decide, by decide⟩
example : ∃ s, mrun MState.init [.engage 16 64 16, .alloc, .alloc, .free 64, .engage 104 48 8, .alloc, .alloc] = some s ∧
    s.live = [136, 144, 48] ∧ s.pool.avail = 7 ∧ capacity s.zones = 10 := ⟨_, rfl, by decide⟩
example : ∃ s, mrun MState.init [.engage 16 64 16, .alloc, .alloc, .free 64, .engage 104 48 8, .alloc, .alloc,
      .free 144, .free 136] = some s ∧ (∀ z ∈ s.zones, 0 < z.base ∨ z.base + z.size ≤ 0) ∧
    s.pool.free = [136, 144, 128, 120, 112, 104, 64, 32, 16] ∧
    (mrunP 0 (slistInit (fun _ => 0) 0) [.engage 16 64 16, .alloc, .alloc, .free 64, .engage 104 48 8, .alloc, .alloc,
      .free 144, .free 136]) 136 = 144 := ⟨_, rfl, by decide, by decide, by decide⟩
example : ∃ x, mrunE ⟨⟨[32, 16]⟩, [64, 48], [⟨16, 64, 16⟩]⟩ [.engage 104 48 8, .free 64, .alloc] = some x ∧
    48 ∈ x.1.live ∧ x.2.length = 7 ∧ (∀ z ∈ x.1.zones, 8 ≤ z.elemsz) := ⟨_, rfl, by decide, by decide, by decide⟩
example : ∃ p, sxrun 16 (SOPx.init 12 4 2) [.create, .create, .engage 64 2, .create, .destroy 16, .create] = some p ∧
    p.sop.objs = [16, 80, 0] ∧ p.ctor = [16, 80, 0, 16] ∧ p.dtor = [16] := ⟨_, rfl, by decide⟩


/-! ## Extension round 3

### 64-bit ADDRESSES (pointer wrap-around)

All heap theorems above speak about offsets from `__malloc_heap_start` in `Nat`.  The
code computes with 64-bit pointers.  `base` = the address of the heap start; `mallocA` /
`reallocA` (what the driver runs) = the routines with the pointer comparisons of the C
code evaluated modulo 2⁶⁴, after `fix: malloc() refuses a request that would move the
break across the top of the address space`; `mallocOrigA` = step 3 as it was. -/

/-- realloc's `cp = (char *)ptr + len; if (cp < cp1) return 0;` on 64-bit pointers
(`cp1 = ptr − 8`) fires EXACTLY when `ptr + len` does not fit 64 bits — for every payload
pointer (≥ 8) and every rounded request (below `2⁶⁴ − 8`) -/
theorem heap_addr_wrap_test_exact (ptr len : BitVec 64) (hp : 8 ≤ ptr.toNat) (hl : len.toNat < 2 ^ 64 - 8) :
    (ptr + len < ptr - 8#64) ↔ 2 ^ 64 ≤ ptr.toNat + len.toNat := by
  have h1 := ptr.isLt
  have h2 := len.isLt
  simp only [BitVec.lt_def, BitVec.toNat_add, BitVec.toNat_sub, BitVec.toNat_ofNat]
  have : (2 : Nat) ^ 64 = 18446744073709551616 := by decide
  rw [this] at *
  omega

/-- the model's test is that comparison -/
theorem heap_addr_wrap_test_model (base p len : Nat) (hb : base + p < 2 ^ 64) (h8 : 8 ≤ p) (hl : len < 2 ^ 64) :
    reallocWrapTest base p len =
      decide (BitVec.ofNat 64 (base + p) + BitVec.ofNat 64 len < BitVec.ofNat 64 (base + p) - 8#64) := by
  simp only [reallocWrapTest, BitVec.lt_def, BitVec.toNat_add, BitVec.toNat_sub, BitVec.toNat_ofNat]
  have : (2 : Nat) ^ 64 = 18446744073709551616 := by decide
  rw [this] at *
  congr 1
  apply propext
  constructor <;> intro h <;> omega

/-- EXACT precondition under which the offset model is the code (malloc): the repaired
routine refuses precisely the requests that reach step 3 without a heap end and whose new
chunk would cross the top of the address space; every other request is served exactly as
by the unbounded model (so every theorem above transfers), a refused one changes nothing -/
theorem heap_addr_malloc_transfer (base : Nat) (cfg : Cfg) (h : Heap) (n : Nat) (hb : base + h.brk ≤ SIZE_MAX) :
    (mallocRefusesA base cfg h n = true ↔
      cfg.lim = 0 ∧ reachesStep3 cfg h n = true ∧ SIZE_MAX < base + h.brk + (minLen (roundLen cfg.W n) + 8)) ∧
    (mallocRefusesA base cfg h n = false → mallocA base cfg h n = malloc64 cfg h n) ∧
    (mallocRefusesA base cfg h n = true → mallocA base cfg h n = ⟨h, none, []⟩) := by
  refine ⟨?_, fun hf => ?_, fun ht => ?_⟩
  · simp only [mallocRefusesA, Bool.and_eq_true, beq_iff_eq, brkWraps_iff base h _ hb]
    constructor
    · rintro ⟨⟨a, b⟩, c⟩; exact ⟨a, b, c⟩
    · rintro ⟨a, b, c⟩; exact ⟨⟨a, b⟩, c⟩
  · unfold mallocA malloc64; simp [hf]
  · unfold mallocA; simp [ht]

/-- EXACT precondition (iff) under which the offset model IS the code: the C code compares
64-bit POINTERS (`fp1 < fpnew` in free, `cp <= __brkval` and `cp > __malloc_heap_end` at the
heap end, `cp < cp1` in realloc), the model compares offsets.  The address of offset `x` is
`(base + x) mod 2⁶⁴`.  Address order coincides with offset order on everything up to the
break IF AND ONLY IF `base + brk < 2⁶⁴` — which `heap_addr_history` proves for every state
the repaired code can reach (and `heap_addr_wrap_witness` refutes for the code as it was). -/
theorem heap_addr_order_iff (base brk : Nat) (hbrk : 0 < brk) :
    (∀ x y, x ≤ brk → y ≤ brk → (x < y ↔ (base + x) % 2 ^ 64 < (base + y) % 2 ^ 64)) ↔
      base % 2 ^ 64 + brk < 2 ^ 64 := by
  have h64 : (2 : Nat) ^ 64 = 18446744073709551616 := by decide
  rw [h64]
  constructor
  · intro hall
    by_cases hbig : 18446744073709551616 ≤ brk
    · have := (hall 0 18446744073709551616 (by omega) hbig).1 (by omega)
      omega
    · have := (hall 0 brk (by omega) (Nat.le_refl _)).1 hbrk
      omega
  · intro hno x y hx hy
    omega

/-- FULL STATEMENT ("overlaps no other live block", all request sizes) violated by the
routine as it was.  Arena at address 2⁴⁶, no heap end: `malloc(64)`; `malloc(2⁶⁴ − 64)`
moves the break from offset 72 BACK to offset 16 and returns a "block" of 2⁶⁴ − 64 bytes;
the next `malloc(8)` is carved out at offset 16 — inside the payload of the first block,
which is still live.  The repaired routine answers NULL and changes nothing. -/
theorem heap_addr_wrap_witness :
    let cfg : Cfg := ⟨64, 0⟩
    let base := 2 ^ 46
    let h1 := (malloc cfg Heap.init 64).h
    let r2 := mallocOrigA base cfg h1 (2 ^ 64 - 64)
    r2.ret = some 80 ∧ r2.h.brk = 16 ∧
    (malloc cfg r2.h 8).ret = some 24 ∧ (0, 64) ∈ (malloc cfg r2.h 8).h.live ∧
    (16, 64) ∈ (malloc cfg r2.h 8).h.live ∧ ¬ Disj (0, 64) (16, 64) ∧
    mallocA base cfg h1 (2 ^ 64 - 64) = ⟨h1, none, []⟩ := by
  refine ⟨by decide, by decide, by decide, by decide, by decide, ?_, by decide⟩
  simp [Disj]

/-- WHOLE HISTORIES on 64-bit addresses: for every arena address `base` (with the
configured heap end, if any, below `2⁶⁴`), every history of malloc / free / realloc with
`size_t` request sizes leads to a state the unbounded model reaches too (so `heap_inv`,
`heap_no_clobber`, … hold for it), and no address of any chunk — header, payload, the
break itself — wraps: the offsets ARE the addresses.  (`W` a power of two ≥ 16: the wrap
test of realloc needs `len < 2⁶⁴ − 8`.) -/
theorem heap_addr_history (base : Nat) (cfg : Cfg) (ok : CfgOK cfg) (hWd : cfg.W ∣ 2 ^ 64) (hW16 : 16 ≤ cfg.W)
    (hbase : base ≤ SIZE_MAX) (hlim : cfg.lim ≠ 0 → base + cfg.lim ≤ SIZE_MAX)
    (ops : List Op) (h : Heap) (hsz : ∀ op ∈ ops, op.sizeOK) (hr : runA base cfg Heap.init ops = some h) :
    Reach cfg h ∧ base + h.brk ≤ SIZE_MAX ∧ ∀ c ∈ h.flp ++ h.live, base + (c.1 + 8 + c.2) ≤ SIZE_MAX := by
  have hi0 : AInv base cfg Heap.init := ⟨HInv.init cfg, by simpa [Heap.init] using hbase⟩
  obtain ⟨hi, hreach⟩ := runA_inv base cfg ok hWd hW16 ops Heap.init h hsz hi0 ⟨[], rfl⟩ hlim hr
  refine ⟨hreach, hi.top, fun c hc => ?_⟩
  have := hi.inv.fin_le_brk (List.mem_append.1 hc)
  have := hi.top
  omega

example : ∃ h, runA (2 ^ 46) ⟨64, 0⟩ Heap.init [.malloc 64, .malloc (2 ^ 64 - 64), .realloc (some 8) (2 ^ 64 - 64),
    .malloc 8] = some h ∧ h.brk = 144 := ⟨_, rfl, by decide⟩
example : (64 : Nat) ∣ 2 ^ 64 := ⟨2 ^ 58, by decide⟩

/-! ### Alignment: 8 bytes is what holds; `alignof(max_align_t) = 16` (LP64 host) does not -/

/-- FULL STATEMENT ("aligned for its use" = suitably aligned for any object, i.e. for
`max_align_t`) fails on a host where `alignof(max_align_t) = 16`: the very first block of a
fresh heap has its payload at offset 8 of the (64-aligned) arena.  What holds is 8-byte
alignment (`malloc_returns_valid_block`, `heap_inv.aligned`): the alignment of `max_align_t` on
the 32-bit targets of the port.  Finding `C10-heap-align-max-align-t`. -/
theorem heap_max_align_witness :
    (malloc ⟨64, 0⟩ Heap.init 1).ret = some 8 ∧ 8 % 16 ≠ 0 ∧ 8 % 8 = 0 ∧
    (malloc ⟨64, 0⟩ (malloc ⟨64, 0⟩ Heap.init 1).h 1).ret = some 80 ∧ 80 % 16 = 0 := by decide


/-! ### Pools: element size (iff), zones outside `pool_engage`'s precondition -/

/-- EXACT characterisation of the admissible element sizes: the link stores of `pool_engage`
into a zone of `n ≥ 1` cells of `e` bytes all stay inside the zone IF AND ONLY IF `e ≥ 8`
(= `sizeof(struct slist_head)`).  For every element size 1..7 — "smaller than a pointer" — the
link of the last cell leaves the zone (`pool_elemsz_below_link_witness` is the instance `e = 4`). -/
theorem pool_links_inside_zone_iff (e b n : Nat) (he : 0 < e) (hn : 0 < n) :
    (∀ ev ∈ engageEvs e (b + n * e) (n * e + 1) b, ev.Inside b (b + n * e)) ↔ 8 ≤ e := by
  constructor
  · intro hall
    have hle : n ≤ n * e := Nat.le_mul_of_pos_right n he
    have hmem := engageEvs_mem e b n he (n * e + 1) 0 (n - 1) (by omega) (by omega) (by omega)
    rw [Nat.zero_mul, Nat.add_zero] at hmem
    have := hall _ hmem
    simp only [Ev.Inside, Ev.lo, Ev.hi] at this
    have h1 : (n - 1 + 1) * e = (n - 1) * e + e := by rw [Nat.add_mul, Nat.one_mul]
    have h2 : n - 1 + 1 = n := by omega
    rw [h2] at h1
    omega
  · intro h8 ev hev
    have := engageEvs_inside e b n h8 (n * e + 1) 0 (Nat.zero_le _)
    simp only [Nat.zero_mul, Nat.add_zero] at this
    exact this ev hev

/-- FULL STATEMENT ("inside the arena") fails for a zone that is not whole cells when the
`assert(size % elemsz == 0)` of `pool_engage` is compiled out (`NDEBUG`): the loop
`while (it < stop)` carves `size / elemsz + 1` cells, and the one handed out first starts
inside the zone and ends behind it.  (With assertions the request aborts: `engageRefused`.) -/
theorem pool_ragged_zone_last_cell_outside (size e : Nat) (he : 0 < e) (hr : size % e ≠ 0) :
    (Pool.init.engage size e).free = (cells e (size / e + 1)).reverse ∧
    (Pool.init.engage size e).alloc.1 = some (size / e * e) ∧
    size / e * e < size ∧ size < size / e * e + e := by
  have hdm := Nat.div_add_mod size e
  have hlt := Nat.mod_lt size he
  have hsz : size / e * e + size % e = size := by rw [Nat.mul_comm]; exact hdm
  have hq : size / e ≤ size / e * e := Nat.le_mul_of_pos_right _ he
  have he2 : 2 ≤ e := by
    rcases (by omega : e = 1 ∨ 2 ≤ e) with h | h
    · subst h; simp [Nat.mod_one] at hr
    · exact h
  have hq2 : size / e * 2 ≤ size / e * e := Nat.mul_le_mul_left _ he2
  have hfree : (Pool.init.engage size e).free = (cells e (size / e + 1)).reverse := by
    have h := engageLoop_ragged e (size / e) (size % e) (by omega) hlt (size + 1) 0 []
    rw [Nat.zero_mul, hsz] at h
    have h2 := engageLoop_eq e (size / e + 1) he (size + 1) 0 [] (by omega) (by omega)
    simp only [Nat.zero_mul, Nat.sub_zero, List.append_nil] at h2
    simp only [Pool.engage, Pool.init, h, h2, cells, List.range_eq_range']
  refine ⟨hfree, ?_, by omega, by omega⟩
  simp only [Pool.alloc, hfree, cells, List.range_succ, List.map_append, List.map_cons, List.map_nil,
    List.reverse_append, List.reverse_cons, List.reverse_nil, List.nil_append, List.cons_append]

/-- the same on numbers: a 20-byte zone with 8-byte cells -/
theorem pool_ragged_zone_witness :
    (Pool.init.engage 20 8).free = [16, 8, 0] ∧ ¬ (16 + 8 ≤ 20) ∧ engageRefused 20 8 = true := by decide

/-- INADMISSIBLE: `pool_engage` of a zone that overlaps cells the pool already owns (here: the
same 16-byte zone twice).  Nothing in the code notices.  List level: every cell is on the
free list twice — `avail` reports 4 for 2 cells and the 3rd `pool_alloc` hands out the cell of
the 1st again.  Pointer level (what the code really does): the second `slist_add` of a node
that is already linked closes a cycle `8 → 0 → 8 → …` that no longer contains the head:
`pool_avail` never terminates (it runs out of any fuel).  The histories reject the request. -/
theorem pool_overlapping_zone_witness :
    (engageTwice 16 8).free = [8, 0, 8, 0] ∧ (engageTwice 16 8).avail = 4 ∧
    (engageTwice 16 8).alloc.2.alloc.2.alloc.1 = (engageTwice 16 8).alloc.1 ∧
    mstep ⟨Pool.init.engage 16 8, [], [⟨0, 16, 8⟩]⟩ (.engage 0 16 8) = none ∧
    (let m := engageAtP (engageAtP (slistInit (fun _ => 0) 100) 100 0 16 8) 100 0 16 8
     m 8 = 0 ∧ m 0 = 8 ∧ slistSize m 100 50 = 50) := by decide

/-! ### The twins on the same clauses: igris::pool and static_object_pool hand out exactly
their capacity before null (so far stated for `pool_head` only) -/

/-- igris::pool: `get()` answers null exactly when all `n` cells are handed out -/
theorem ipool_null_iff_exhausted (e n : Nat) (he : 0 < e) (ops : List IOp) (s : IState)
    (hr : irun ⟨IPool.init (n * e) e, []⟩ ops = some s) : s.pool.get.1 = none ↔ s.live.length = n := by
  obtain ⟨hp, _, _, _⟩ := irun_inv he (IInv.init e n he) hr
  have hf := (PInv.facts he hp).2.2.2.2
  simp only at hf
  simp only [IPool.get, Pool.alloc]
  cases hfr : s.pool.head.free with
  | nil => simp [hfr] at hf ⊢; exact hf
  | cons c rest => simp [hfr] at hf ⊢; omega

/-- igris::pool: `k` calls of `get()` on a fresh pool give `min k n` cells -/
theorem ipool_exactly_capacity (e n k : Nat) (he : 0 < e) (s : IState)
    (hr : irun ⟨IPool.init (n * e) e, []⟩ (List.replicate k .get) = some s) : s.live.length = min k n := by
  have h1 := irun_gets k _ s hr
  have := prun_allocs he k _ _ (IInv.init e n he).1 h1
  simpa using this

/-- static_object_pool: `create()` answers null exactly when `Capacity` objects are alive -/
theorem sop_null_iff_exhausted (szT alT cap : Nat) (ops : List SOp) (s : SOP)
    (hr : srun (SOP.init szT alT cap) ops = some s) : s.create.1 = none ↔ s.objs.length = cap := by
  have he : 0 < storageSize szT alT := by have := storageSize_pos szT alT; omega
  have hi0 : SInv (storageSize szT alT) cap (SOP.init szT alT cap) := ⟨PInv.init _ cap he, rfl⟩
  obtain ⟨hp, _⟩ := srun_inv he hi0 hr
  have hf := (PInv.facts he hp).2.2.2.2
  simp only at hf
  simp only [SOP.create, Pool.alloc]
  cases hfr : s.head.free with
  | nil => simp [hfr] at hf ⊢; exact hf
  | cons c rest => simp [hfr] at hf ⊢; omega

/-- static_object_pool: `k` calls of `create()` on a fresh pool construct `min k Capacity` objects -/
theorem sop_exactly_capacity (szT alT cap k : Nat) (s : SOP)
    (hr : srun (SOP.init szT alT cap) (List.replicate k .create) = some s) : s.objs.length = min k cap := by
  have he : 0 < storageSize szT alT := by have := storageSize_pos szT alT; omega
  have h1 := srun_creates k _ s hr
  have := prun_allocs he k _ _ (PInv.init _ cap he) h1
  simpa [SOP.init] using this

/-! ### Refinement to a SET-OF-BLOCKS specification

The specification knows nothing about lists, links or LIFO order: there is a fixed set of
blocks; `alloc` may hand out ANY block that is not handed out and answers null only when all
are; `free c` of a handed-out block makes exactly that block available again. -/

/-- one `alloc` of the specification: result `r`, live set `live → live'` -/
def SpecAlloc (blocks live : List Nat) (r : Option Nat) (live' : List Nat) : Prop :=
  match r with
  | none => (∀ c ∈ blocks, c ∈ live) ∧ live' = live
  | some c => c ∈ blocks ∧ c ∉ live ∧ live' = c :: live

/-- one `free c` of the specification -/
def SpecFree (live : List Nat) (c : Nat) (live' : List Nat) : Prop := c ∈ live ∧ live' = live.erase c

/-- `pool_head` refines the set-of-blocks specification (blocks = the cells `0, e, …, (n−1)e`) -/
theorem pool_refines_block_set (e n : Nat) (he : 0 < e) (ops : List POp) (s : PState)
    (hr : prun (freshPool e n) ops = some s) :
    (∀ s' r, pstep s .alloc = some (s', r) → SpecAlloc (cells e n) s.live r s'.live) ∧
    (∀ s' r c, pstep s (.free c) = some (s', r) → SpecFree s.live c s'.live) := by
  have hi := prun_inv (PInv.init e n he) hr
  have hsp := perm_alloc_spec (show (s.pool.free ++ s.live).Perm (cells e n) from hi) (cells_nodup e n he)
  constructor
  · intro s' r ha
    simp only [pstep, Pool.alloc] at ha
    cases hfr : s.pool.free with
    | nil =>
      rw [hfr] at ha; simp only [Option.some.injEq, Prod.mk.injEq] at ha
      obtain ⟨rfl, rfl⟩ := ha
      exact ⟨hsp.1 hfr, rfl⟩
    | cons c rest =>
      rw [hfr] at ha; simp only [Option.some.injEq, Prod.mk.injEq] at ha
      obtain ⟨rfl, rfl⟩ := ha
      have := hsp.2 c rest hfr
      exact ⟨this.1, this.2, rfl⟩
  · intro s' r c hf
    simp only [pstep] at hf
    split at hf
    · rename_i hc
      simp only [Option.some.injEq, Prod.mk.injEq] at hf
      obtain ⟨rfl, _⟩ := hf
      exact ⟨by simpa using hc, rfl⟩
    · cases hf

/-- igris::pool refines the same specification (`get` = alloc, `put` = free) -/
theorem ipool_refines_block_set (e n : Nat) (he : 0 < e) (ops : List IOp) (s : IState)
    (hr : irun ⟨IPool.init (n * e) e, []⟩ ops = some s) :
    (∀ s' r, istep s .get = some (s', r) → SpecAlloc (cells e n) s.live r s'.live) ∧
    (∀ s' r c, istep s (.put (some c)) = some (s', r) → SpecFree s.live c s'.live) := by
  obtain ⟨hp, _, _, _⟩ := irun_inv he (IInv.init e n he) hr
  have hsp := perm_alloc_spec (show (s.pool.head.free ++ s.live).Perm (cells e n) from hp) (cells_nodup e n he)
  constructor
  · intro s' r ha
    simp only [istep, IPool.get, Pool.alloc] at ha
    cases hfr : s.pool.head.free with
    | nil =>
      rw [hfr] at ha; simp only [Option.some.injEq, Prod.mk.injEq] at ha
      obtain ⟨rfl, rfl⟩ := ha
      exact ⟨hsp.1 hfr, rfl⟩
    | cons c rest =>
      rw [hfr] at ha; simp only [Option.some.injEq, Prod.mk.injEq] at ha
      obtain ⟨rfl, rfl⟩ := ha
      have := hsp.2 c rest hfr
      exact ⟨this.1, this.2, rfl⟩
  · intro s' r c hf
    simp only [istep] at hf
    split at hf
    · rename_i hc
      split at hf
      · simp only [Option.some.injEq, Prod.mk.injEq] at hf
        obtain ⟨rfl, _⟩ := hf
        exact ⟨by simpa using hc, rfl⟩
      · cases hf
    · cases hf

/-- static_object_pool refines the same specification (`create` = alloc, `destroy` = free;
blocks = the `Capacity` cells of `sizeof(storage_type)` bytes) -/
theorem sop_refines_block_set (szT alT cap : Nat) (ops : List SOp) (s : SOP)
    (hr : srun (SOP.init szT alT cap) ops = some s) :
    (∀ s' r, sstep s .create = some (s', r) → SpecAlloc (cells (storageSize szT alT) cap) s.objs r s'.objs) ∧
    (∀ s' r c, sstep s (.destroy c) = some (s', r) → SpecFree s.objs c s'.objs) := by
  have he : 0 < storageSize szT alT := by have := storageSize_pos szT alT; omega
  have hi0 : SInv (storageSize szT alT) cap (SOP.init szT alT cap) := ⟨PInv.init _ cap he, rfl⟩
  obtain ⟨hp, _⟩ := srun_inv he hi0 hr
  have hsp := perm_alloc_spec (show (s.head.free ++ s.objs).Perm (cells (storageSize szT alT) cap) from hp)
    (cells_nodup _ cap he)
  constructor
  · intro s' r ha
    simp only [sstep, SOP.create, Pool.alloc, Option.some.injEq, Prod.mk.injEq] at ha
    cases hfr : s.head.free with
    | nil =>
      rw [hfr] at ha
      obtain ⟨rfl, rfl⟩ := ha
      exact ⟨hsp.1 hfr, rfl⟩
    | cons c rest =>
      rw [hfr] at ha
      obtain ⟨rfl, rfl⟩ := ha
      have := hsp.2 c rest hfr
      exact ⟨this.1, this.2, rfl⟩
  · intro s' r c hf
    simp only [sstep] at hf
    split at hf
    · rename_i hc
      simp only [Option.some.injEq, Prod.mk.injEq] at hf
      obtain ⟨rfl, _⟩ := hf
      exact ⟨by simpa using hc, rfl⟩
    · cases hf

/-- one pool fed from several zones refines it too (blocks = all cells of all zones engaged so
far; `pool_engage` of a further zone only ADDS blocks, the live set is untouched) -/
theorem mpool_refines_block_set (ops : List MOp) (s : MState) (hr : mrun MState.init ops = some s) :
    (∀ s' r, mstep s .alloc = some (s', r) → SpecAlloc (allCells s.zones) s.live r s'.live) ∧
    (∀ s' r c, mstep s (.free c) = some (s', r) → SpecFree s.live c s'.live) ∧
    (∀ s' r b sz e, mstep s (.engage b sz e) = some (s', r) →
      s'.live = s.live ∧ ∀ c, c ∈ allCells s'.zones ↔ (c ∈ zcells ⟨b, sz, e⟩ ∨ c ∈ allCells s.zones)) := by
  have hi := mrun_inv MInv.init hr
  have hsp := perm_alloc_spec hi.perm (allCells_nodup hi.disj hi.wf)
  refine ⟨?_, ?_, ?_⟩
  · intro s' r ha
    simp only [mstep, Pool.alloc] at ha
    cases hfr : s.pool.free with
    | nil =>
      rw [hfr] at ha; simp only [Option.some.injEq, Prod.mk.injEq] at ha
      obtain ⟨rfl, rfl⟩ := ha
      exact ⟨hsp.1 hfr, rfl⟩
    | cons c rest =>
      rw [hfr] at ha; simp only [Option.some.injEq, Prod.mk.injEq] at ha
      obtain ⟨rfl, rfl⟩ := ha
      have := hsp.2 c rest hfr
      exact ⟨this.1, this.2, rfl⟩
  · intro s' r c hf
    simp only [mstep] at hf
    split at hf
    · rename_i hc
      simp only [Option.some.injEq, Prod.mk.injEq] at hf
      obtain ⟨rfl, _⟩ := hf
      exact ⟨by simpa using hc, rfl⟩
    · cases hf
  · intro s' r b sz e hf
    simp only [mstep] at hf
    split at hf
    · cases hf
    · split at hf
      · simp only [Option.some.injEq, Prod.mk.injEq] at hf
        obtain ⟨rfl, _⟩ := hf
        exact ⟨rfl, fun c => by simp [allCells]⟩
      · cases hf

example : ∃ s, irun ⟨IPool.init 48 16, []⟩ (List.replicate 5 .get) = some s ∧ s.live.length = 3 := ⟨_, rfl, by decide⟩
example : ∃ s, srun (SOP.init 12 4 3) (List.replicate 5 .create) = some s ∧ s.objs.length = 3 := ⟨_, rfl, by decide⟩
example : SpecAlloc [0, 8, 16] [8] (some 0) [0, 8] := ⟨by decide, by decide, rfl⟩
example : SpecAlloc [0, 8] [8, 0] none [8, 0] := ⟨by decide, rfl⟩


/-! ### Heap: back to the initial state, maximal allocation, corner requests, bytes -/

/-- "memory is not lost", as a statement about the whole state: after ANY history (any
sizes, any interleaving, blocks freed in ANY order) that leaves no block live, the heap is
literally the initial heap again … -/
theorem heap_back_to_initial_state (cfg : Cfg) (ok : CfgOK cfg) (ops : List Op) (h : Heap)
    (hr : run cfg Heap.init ops = some h) (hl : h.live = []) : h = Heap.init := by
  obtain ⟨hb, hf⟩ := heap_returns_to_start cfg ok ops h hr hl
  cases h; simp only [Heap.init] at *; subst hb hf hl; rfl

/-- … so a maximal allocation succeeds again: on such a heap `malloc(n)` succeeds (at the
heap start) EXACTLY when the rounded request plus its header fits the configured arena
(always, without a heap end): no fragmentation survives the release of all blocks -/
theorem heap_max_alloc_after_release (cfg : Cfg) (ok : CfgOK cfg) (ops : List Op) (h : Heap)
    (hr : run cfg Heap.init ops = some h) (hl : h.live = []) (n : Nat) :
    ((malloc cfg h n).ret = some 8 ↔ (cfg.lim = 0 ∨ minLen (roundLen cfg.W n) + 8 ≤ cfg.lim)) ∧
    ((malloc cfg h n).ret = none ↔ ¬ (cfg.lim = 0 ∨ minLen (roundLen cfg.W n) + 8 ≤ cfg.lim)) := by
  rw [heap_back_to_initial_state cfg ok ops h hr hl]
  simp only [malloc, Heap.init, scan, availOf]
  generalize minLen (roundLen cfg.W n) = len
  by_cases hl0 : cfg.lim = 0
  · simp [hl0]
  · by_cases hfit : len + 8 ≤ cfg.lim
    · have h1 : ¬ cfg.lim ≤ 0 := by omega
      simp only [h1, if_false, Nat.sub_zero, ne_eq, hl0, not_false_eq_true, true_and, ge_iff_le, hfit,
        and_true, false_or]
      have : len ≤ cfg.lim := by omega
      simp [this]
    · have h1 : ¬ cfg.lim ≤ 0 := by omega
      simp only [h1, if_false, Nat.sub_zero, ne_eq, hl0, not_false_eq_true, true_and, ge_iff_le, hfit,
        and_false, false_or]
      simp

/-- the corner requests of the C standard: `free(NULL)` does nothing; `realloc(NULL, n)` is
`malloc` of the rounded size (a valid block of at least `n` bytes when it succeeds); a model
history rejects a double free -/
theorem heap_corner_requests (cfg : Cfg) (ok : CfgOK cfg) (h : Heap) (n : Nat) (hr : Reach cfg h) :
    step cfg h (.free none) = some ⟨h, none, []⟩ ∧
    realloc cfg h none n = some (malloc cfg h (minLen (roundLen cfg.W n))) ∧
    (∀ r q, realloc cfg h none n = some r → r.ret = some q →
      ∃ s, r.h.live = (q - 8, s) :: h.live ∧ n ≤ s ∧ q % 8 = 0 ∧ ∀ c ∈ h.live, Disj c (q - 8, s)) ∧
    (∀ p r, free h p = some r → free r.h p = none) := by
  refine ⟨rfl, rfl, fun r q hre hq => ?_, fun p r hf => ?_⟩
  · simp only [realloc, reallocCore, Option.some.injEq] at hre
    subst hre
    obtain ⟨s, h1, _, h3, h4, _, _, h7⟩ := malloc_returns_valid_block cfg ok h _ q hr hq
    exact ⟨s, h1, by have := le_reqLen cfg.W n; omega, h4, h7⟩
  · have hlive := free_live_eq hf
    have hi := hr.inv ok
    -- the chunk is gone from `live`: addresses of live chunks are pairwise distinct
    unfold free
    split
    · rfl
    · simp only
      have hnone : lookup (p - 8) r.h.live = none := by
        rw [hlive]
        unfold free at hf
        split at hf
        · cases hf
        · simp only at hf
          split at hf
          · cases hf
          · rename_i sz hl
            exact lookup_remove_none hi hl
      rw [hnone]

/-- INADMISSIBLE: a double free.  At the pointer level (what the code does) `free(p)` of a
chunk that already is the only free-list entry links it to itself (`fpnew->nx = fp1` with
`fp1 == fpnew`): the free list becomes cyclic and the next walk (malloc step 1) never ends. -/
theorem heap_double_free_witness :
    let cfg : Cfg := ⟨64, 0⟩
    let ph2 := (mallocP cfg (mallocP cfg PHeap.init 64 1).h 64 73).h
    let ph3 := (freeP ph2 8 145).h
    let ph4 := (freeP ph3 8 145).h
    walkFl ph3 50 = [(0, 64)] ∧ ph4.nxf 0 = some 0 ∧ (walkFl ph4 50).length = 50 := by decide

/-- realloc preserves the common prefix ON A CONCRETE BYTE MEMORY: run the stores of the
request (`execJ`: `memcpy` copies byte by byte, header stores write arbitrary bytes `junk`) —
the first `min(old size, request)` bytes of the returned block are the old payload bytes,
on all paths (in place: untouched; moved: copied before the old chunk is released) -/
theorem realloc_bytes_preserved (cfg : Cfg) (ok : CfgOK cfg) (h : Heap) (p n sz q : Nat) (r : Res)
    (hr : Reach cfg h) (hl : lookup (p - 8) h.live = some sz)
    (hs : realloc cfg h (some p) n = some r) (hq : r.ret = some q) (junk : Nat → Nat) (m : Mem) :
    ∀ i, i < min sz n → execJ junk m r.evs (q + i) = m (p + i) :=
  realloc_preserves_prefix cfg ok h p n sz q r hr hl hs hq m _ (exec_execJ junk r.evs m)

/-- … and the bytes of every OTHER live block (header and payload) are the same bytes after
any request, on the concrete memory -/
theorem heap_bytes_untouched (cfg : Cfg) (ok : CfgOK cfg) (h : Heap) (op : Op) (r : Res) (hr : Reach cfg h)
    (hs : step cfg h op = some r) (c : Chunk) (hc : c ∈ h.live) (hne : op.target ≠ some (c.1 + 8))
    (junk : Nat → Nat) (m : Mem) :
    ∀ x, c.1 ≤ x → x < c.1 + 8 + c.2 → execJ junk m r.evs x = m x :=
  (heap_contents_untouched cfg ok h op r hr hs c hc hne m _ (exec_execJ junk r.evs m)).2

example : execJ (fun _ => 0) (fun x => x + 1) [.w 0 8, .cp 80 8 3] 81 = 10 := by decide


/-! ### realloc: when does the block stay in place? (every neighbour configuration) -/

/-- EXACT characterisation of in-place reallocation, in terms of the heap layout only: the
block at `p` (usable size `sz`) keeps its address IF AND ONLY IF the rounded request `len`
(1) does not exceed `sz` (no-op or shrink-split, whatever the neighbours are), or (2) the
chunk directly ABOVE it is free and offers the missing bytes (`len − sz ≤ its sz + 8`), or
(3) the block is the topmost chunk, no free chunk anywhere could hold the request, and the
configured heap end (if any) is not passed.  In every other configuration — free chunk only
BELOW, guard above, free chunk above too small, a large enough hole elsewhere, heap end
reached — realloc answers NULL or MOVES the block (malloc + memcpy + free; `realloc_preserves_prefix`,
`realloc_bytes_preserved`). -/
theorem realloc_in_place_iff (cfg : Cfg) (ok : CfgOK cfg) (h : Heap) (p n sz : Nat) (r : Res)
    (hr : Reach cfg h) (hl : lookup (p - 8) h.live = some sz) (hs : realloc cfg h (some p) n = some r) :
    r.ret = some p ↔
      minLen (roundLen cfg.W n) ≤ sz ∨
      (∃ f ∈ h.flp, f.1 = p + sz ∧ minLen (roundLen cfg.W n) - sz ≤ f.2 + 8) ∨
      (h.brk = p + sz ∧ (∀ f ∈ h.flp, f.2 < minLen (roundLen cfg.W n)) ∧
        (cfg.lim = 0 ∨ p + minLen (roundLen cfg.W n) ≤ cfg.lim)) := by
  obtain ⟨_, hlen8, _⟩ := reqLen_props cfg ok n
  have hi := hr.inv ok
  have hlive := lookup_mem hl
  unfold realloc reallocCore at hs
  simp only at hs
  generalize minLen (roundLen cfg.W n) = len at *
  split at hs
  · cases hs
  · rename_i hp8
    rw [hl] at hs
    simp only at hs
    split at hs
    · rename_i hle
      have hret : r.ret = some p := by
        split at hs
        · simp only [Option.some.injEq] at hs; subst hs; rfl
        · split at hs
          · cases hs
          · simp only [Option.some.injEq] at hs; subst hs; rfl
      exact ⟨fun _ => Or.inl hle, fun _ => hret⟩
    · rename_i hgt
      split at hs
      · rename_i fp3 hg
        obtain ⟨hm3, ha3, hs3⟩ := growScan_inl hg
        have hret : r.ret = some p := by
          split at hs <;> (simp only [Option.some.injEq] at hs; subst hs; rfl)
        exact ⟨fun _ => Or.inr (Or.inl ⟨fp3, hm3, ha3, by omega⟩), fun _ => hret⟩
      · rename_i s hg
        obtain ⟨hno, _, hmax, hwit⟩ := growScan_inr hg
        have hnot2 : ¬ ∃ f ∈ h.flp, f.1 = p + sz ∧ len - sz ≤ f.2 + 8 := by
          rintro ⟨f, hf, h1, h2⟩; exact hno f hf ⟨h1, by omega⟩
        split at hs
        · rename_i htop
          split at hs
          · rename_i hlim
            simp only [Option.some.injEq] at hs; subst hs
            constructor
            · intro hc; cases hc
            · rintro (h1 | h1 | ⟨_, _, h3⟩)
              · omega
              · exact absurd h1 hnot2
              · omega
          · rename_i hlim
            simp only [Option.some.injEq] at hs; subst hs
            refine ⟨fun _ => Or.inr (Or.inr ⟨htop.1, fun f hf => ?_, ?_⟩), fun _ => rfl⟩
            · have := hmax f hf; omega
            · by_cases h0 : cfg.lim = 0
              · exact Or.inl h0
              · right
                have : ¬ p + len > cfg.lim := fun hc => hlim ⟨h0, hc⟩
                omega
        · rename_i hnt
          have hnot3 : ¬ (h.brk = p + sz ∧ (∀ f ∈ h.flp, f.2 < len) ∧ (cfg.lim = 0 ∨ p + len ≤ cfg.lim)) := by
            rintro ⟨h1, h2, _⟩
            apply hnt
            refine ⟨h1, ?_⟩
            rcases hwit with hw | ⟨c, hc, hw⟩
            · omega
            · have := h2 c hc; omega
          have hne : r.ret ≠ some p := by
            split at hs
            · simp only [Option.some.injEq] at hs; subst hs; simp
            · rename_i memp hm
              split at hs
              · cases hs
              · simp only [Option.some.injEq] at hs; subst hs
                simp only [ne_eq, Option.some.injEq]
                intro heq
                obtain ⟨s2, _, h8, _, _, _, _, hdisj⟩ := malloc_returns_valid_block cfg ok h len memp hr hm
                have := hdisj _ hlive
                unfold Disj at this
                simp only at this
                subst heq
                omega
          constructor
          · intro hc; exact absurd hc hne
          · rintro (h1 | h1 | h1)
            · omega
            · exact absurd h1 hnot2
            · exact absurd h1 hnot3

example : ∃ r, realloc ⟨64, 0⟩ ⟨216, [(72, 64)], [(144, 64), (0, 64)]⟩ (some 8) 100 = some r ∧ r.ret = some 8 :=
  ⟨_, rfl, by decide⟩
example : ∃ r, realloc ⟨64, 0⟩ ⟨216, [(0, 64)], [(144, 64), (72, 64)]⟩ (some 80) 100 = some r ∧ r.ret = some 224 :=
  ⟨_, rfl, by decide⟩


/-- freeing EVERYTHING in ANY order: from every reachable heap, releasing the live blocks in
an arbitrary order (any permutation of the live payload pointers) is a valid history — no
request is rejected — and ends in the initial heap: break at the start, empty free list.
All coalescing (up, down, both, lowering of the break) happens on the way, whatever the order. -/
theorem heap_free_all_any_order (cfg : Cfg) (ok : CfgOK cfg) (h : Heap) (hr : Reach cfg h) (l : List Nat)
    (hp : l.Perm (h.live.map (fun c => c.1 + 8))) :
    run cfg h (l.map (fun p => Op.free (some p))) = some Heap.init := by
  induction l generalizing h with
  | nil =>
    have hl : h.live = [] := by
      have := hp.length_eq; simp only [List.length_nil, List.length_map] at this
      exact List.eq_nil_of_length_eq_zero this.symm
    obtain ⟨ops, hops⟩ := hr
    simp only [List.map_nil, run]
    rw [heap_back_to_initial_state cfg ok ops h hops hl]
  | cons p l ih =>
    have hmem : p ∈ h.live.map (fun c => c.1 + 8) := hp.mem_iff.1 (by simp)
    have h8 : 8 ≤ p := by
      obtain ⟨c, _, hc⟩ := List.mem_map.1 hmem
      omega
    have hmem' : (p - 8) + 8 ∈ h.live.map (fun c => c.1 + 8) := by
      have : p - 8 + 8 = p := by omega
      rw [this]; exact hmem
    obtain ⟨sz, hl⟩ := lookup_of_mem_addr hmem'
    obtain ⟨r, hf⟩ := free_total h8 hl
    have hlive := free_live_eq hf
    have hstep : step cfg h (.free (some p)) = some r := hf
    simp only [List.map_cons, run, hstep]
    apply ih r.h (hr.step hstep)
    rw [hlive, map_remove]
    have : p - 8 + 8 = p := by omega
    rw [this]
    have := hp.erase p
    simpa using this

example : run ⟨64, 0⟩ ⟨216, [(72, 64)], [(144, 64), (0, 64)]⟩ [.free (some 8), .free (some 152)] = some Heap.init := by decide


/-- `realloc(p, 0)` (after `fix: realloc() enforces malloc()'s minimum chunk size`): never
NULL, never moves, and the block stays live with at least the minimum chunk of 8 bytes — it
is NOT a `free` -/
theorem realloc_zero_keeps_block (cfg : Cfg) (ok : CfgOK cfg) (h : Heap) (p sz : Nat) (hr : Reach cfg h)
    (h8 : 8 ≤ p) (hl : lookup (p - 8) h.live = some sz) :
    ∃ r, realloc cfg h (some p) 0 = some r ∧ r.ret = some p ∧
      ∃ s, lookup (p - 8) r.h.live = some s ∧ 8 ≤ s := by
  obtain ⟨r, hs⟩ := realloc_total (cfg := cfg) (n := 0) h8 hl
  have hsz := ((hr.inv ok).wfL _ (lookup_mem hl)).1
  simp only at hsz
  have hlen : minLen (roundLen cfg.W 0) = 8 := by simp [roundLen, minLen]
  have hret : r.ret = some p := (realloc_in_place_iff cfg ok h p 0 sz r hr hl hs).2 (Or.inl (by rw [hlen]; exact hsz))
  obtain ⟨s, h1, _, _, _, _⟩ := realloc_returns_valid_block cfg ok h p 0 sz p r hr hl hs hret
  have hw := ((realloc_inv cfg ok h (some p) 0 r (hr.inv ok) hs).wfL _ (lookup_mem h1)).1
  exact ⟨r, hs, hret, s, h1, hw⟩

/-- a request from a critical context (interrupt handler) aborts before it touches the heap —
except `free(NULL)`, which returns first; at level 0 it is the ordinary request.  The cells an
iteration of igris::pool dereferences (`operator*` = `cell(_num)`) are the live cells. -/
theorem heap_critical_context_aborts (lvl base : Nat) (cfg : Cfg) (h : Heap) (op : Op) :
    (op ≠ .free none → 0 < lvl → stepCtx lvl base cfg h op = none) ∧
    (stepCtx 0 base cfg h op = some (stepA base cfg h op)) ∧
    (stepCtx lvl base cfg h (.free none) = some (some ⟨h, none, []⟩)) := by
  refine ⟨fun hne hl => ?_, ?_, rfl⟩
  · cases op with
    | malloc n => simp [stepCtx, hl]
    | free p => cases p with
      | none => exact absurd rfl hne
      | some p => simp [stepCtx, hl]
    | realloc p n => simp [stepCtx, hl]
  · cases op with
    | malloc n => simp [stepCtx]
    | free p => cases p <;> simp [stepCtx, stepA]
    | realloc p n => simp [stepCtx]

theorem ipool_iterator_deref (e n : Nat) (he : 0 < e) (ops : List IOp) (s : IState)
    (hr : irun ⟨IPool.init (n * e) e, []⟩ ops = some s) :
    ∀ i ∈ s.pool.iterAll, s.pool.cell i.toNat ∈ s.live ∧ s.pool.cell i.toNat + e ≤ n * e := by
  intro i hi
  obtain ⟨_, _, _, hel⟩ := irun_inv he (IInv.init e n he) hr
  obtain ⟨h0, hn, hmem⟩ := (ipool_iteration_visits_live_cells e n he ops s hr).2.2.1 i hi
  have hcell : s.pool.cell i.toNat = i.toNat * e := by simp [IPool.cell, hel, Nat.mul_comm]
  rw [hcell]
  refine ⟨hmem, ?_⟩
  have hlt : i.toNat < n := by omega
  exact cell_in_zone hlt


/-! ## Round 3b -/

/-- EXACT characterisation of malloc's NULL answers, for EVERY heap state and request: NULL ⇔ a heap
end is configured ∧ no chunk of the free list can hold the (rounded) request ∧ the break cannot be
moved by the chunk (`rounded + 8` bytes) without passing the heap end.  (Totality: `malloc` is a
total function of the model; `malloc_fail_changes_nothing` says what NULL leaves behind.) -/
theorem malloc_null_iff (cfg : Cfg) (h : Heap) (n : Nat) :
    (malloc cfg h n).ret = none ↔
      cfg.lim ≠ 0 ∧ (∀ f ∈ h.flp, f.2 < minLen (roundLen cfg.W n)) ∧
        cfg.lim < h.brk + minLen (roundLen cfg.W n) + 8 := by
  have key := scan_none_iff (len := minLen (roundLen cfg.W n)) h.flp 0 0
  unfold malloc
  simp only
  generalize minLen (roundLen cfg.W n) = len at *
  split
  · rename_i a hsc
    have : ¬ ∃ x, scan len h.flp 0 0 = .inr (0, x) := by rintro ⟨x, hx⟩; rw [hsc] at hx; cases hx
    rw [key] at this
    constructor
    · intro hc; cases hc
    · rintro ⟨_, hall, _⟩; exact absurd ⟨rfl, hall⟩ this
  · rename_i s sfp1 hsc
    split
    · rename_i hs0
      have : ¬ ∃ x, scan len h.flp 0 0 = .inr (0, x) := by
        rintro ⟨x, hx⟩; rw [hsc] at hx; simp only [Sum.inr.injEq, Prod.mk.injEq] at hx; omega
      rw [key] at this
      split
      · constructor
        · intro hc; cases hc
        · rintro ⟨_, hall, _⟩; exact absurd ⟨rfl, hall⟩ this
      · constructor
        · intro hc; cases hc
        · rintro ⟨_, hall, _⟩; exact absurd ⟨rfl, hall⟩ this
    · rename_i hs0
      have hs0' : s = 0 := by omega
      subst hs0'
      have hall := (key.1 ⟨sfp1, hsc⟩).2
      have hav : availOf cfg.lim h.brk = (if cfg.lim ≤ h.brk then 0 else cfg.lim - h.brk) := rfl
      generalize availOf cfg.lim h.brk = av at *
      by_cases hc : cfg.lim ≠ 0 ∧ ¬ (av ≥ len ∧ av ≥ len + 8)
      · rw [if_pos hc]
        constructor
        · intro _
          refine ⟨hc.1, hall, ?_⟩
          have := hc.2
          split at hav <;> omega
        · intro _; rfl
      · rw [if_neg hc]
        constructor
        · intro h1; cases h1
        · rintro ⟨h1, _, h3⟩
          exfalso; apply hc
          refine ⟨h1, ?_⟩
          split at hav <;> omega


example : (malloc ⟨64, 136⟩ ⟨72, [], [(0, 64)]⟩ 64).ret = none ∧ (malloc ⟨64, 136⟩ ⟨72, [], [(0, 64)]⟩ 63).ret = none ∧
    (malloc ⟨64, 144⟩ ⟨72, [], [(0, 64)]⟩ 64).ret = some 80 := by decide

/-- EXACT characterisation of realloc's NULL answers (round 3: only "in place" was an iff), for
every reachable heap and every live block: NULL ⇔ the request is larger than the block ∧ a heap
end is configured ∧ no free chunk can hold the request ∧ the chunk directly above is not a free
chunk large enough for in-place growth ∧ the break cannot be moved far enough — by `len − sz` for
the topmost chunk (in-place extension), by `len + 8` otherwise (the move path's `malloc`).
Together with `realloc_in_place_iff`: every call is exactly one of in place / NULL / moved, and
each region is described without the model's helper functions.  Totality:
`heap_valid_requests_never_fault`. -/
theorem realloc_null_iff (cfg : Cfg) (ok : CfgOK cfg) (h : Heap) (p n sz : Nat) (r : Res)
    (hr : Reach cfg h) (hl : lookup (p - 8) h.live = some sz) (hs : realloc cfg h (some p) n = some r) :
    r.ret = none ↔
      sz < minLen (roundLen cfg.W n) ∧ cfg.lim ≠ 0 ∧
      (∀ f ∈ h.flp, f.2 < minLen (roundLen cfg.W n)) ∧
      (¬ ∃ f ∈ h.flp, f.1 = p + sz ∧ minLen (roundLen cfg.W n) - sz ≤ f.2 + 8) ∧
      (if h.brk = p + sz then cfg.lim < p + minLen (roundLen cfg.W n)
       else cfg.lim < h.brk + minLen (roundLen cfg.W n) + 8) := by
  have hsz8 : 8 ≤ sz := ((hr.inv ok).wfL _ (lookup_mem hl)).1
  have hmn := malloc_null_iff cfg h (minLen (roundLen cfg.W n))
  have hid := reqLen_idem cfg ok n
  unfold realloc reallocCore at hs
  simp only at hs
  generalize minLen (roundLen cfg.W n) = len at *
  split at hs
  · cases hs
  · rw [hl] at hs
    simp only at hs
    split at hs
    · rename_i hle
      have hret : r.ret = some p := by
        split at hs
        · simp only [Option.some.injEq] at hs; subst hs; rfl
        · split at hs
          · cases hs
          · simp only [Option.some.injEq] at hs; subst hs; rfl
      constructor
      · intro hc; rw [hret] at hc; cases hc
      · rintro ⟨h1, _⟩; omega
    · rename_i hgt
      have hid' := hid (by omega)
      rw [hid'] at hmn
      split at hs
      · rename_i fp3 hg
        obtain ⟨hm3, ha3, hs3⟩ := growScan_inl hg
        have hret : r.ret = some p := by
          split at hs <;> (simp only [Option.some.injEq] at hs; subst hs; rfl)
        constructor
        · intro hc; rw [hret] at hc; cases hc
        · rintro ⟨_, _, _, hno, _⟩; exact absurd ⟨fp3, hm3, ha3, by omega⟩ hno
      · rename_i s hg
        obtain ⟨hno, _, hmax, hwit⟩ := growScan_inr hg
        have hnot2 : ¬ ∃ f ∈ h.flp, f.1 = p + sz ∧ len - sz ≤ f.2 + 8 := by
          rintro ⟨f, hf, h1, h2⟩; exact hno f hf ⟨h1, by omega⟩
        have hlens : (∀ f ∈ h.flp, f.2 < len) → len > s := by
          intro hall
          rcases hwit with hw | ⟨c, hc, hw⟩
          · omega
          · have := hall c hc; omega
        split at hs
        · rename_i htop
          have hall : ∀ f ∈ h.flp, f.2 < len := fun f hf => by have := hmax f hf; omega
          split at hs
          · rename_i hlim
            simp only [Option.some.injEq] at hs; subst hs
            refine ⟨fun _ => ⟨by omega, hlim.1, hall, hnot2, ?_⟩, fun _ => rfl⟩
            rw [if_pos htop.1]; omega
          · rename_i hlim
            simp only [Option.some.injEq] at hs; subst hs
            constructor
            · intro hc; cases hc
            · rintro ⟨_, h0, _, _, hif⟩
              rw [if_pos htop.1] at hif
              exact absurd ⟨h0, by omega⟩ hlim
        · rename_i hnt
          split at hs
          · rename_i hmnone
            simp only [Option.some.injEq] at hs; subst hs
            obtain ⟨h0, hall, hlt⟩ := hmn.1 hmnone
            have hne : h.brk ≠ p + sz := fun hc => hnt ⟨hc, hlens hall⟩
            refine ⟨fun _ => ⟨by omega, h0, hall, hnot2, ?_⟩, fun _ => rfl⟩
            rw [if_neg hne]; exact hlt
          · rename_i memp hm
            have hret : r.ret ≠ none := by
              split at hs
              · cases hs
              · simp only [Option.some.injEq] at hs; subst hs; simp
            constructor
            · intro hc; exact absurd hc hret
            · rintro ⟨_, h0, hall, _, hif⟩
              have hne : h.brk ≠ p + sz := fun hc => hnt ⟨hc, hlens hall⟩
              rw [if_neg hne] at hif
              have := hmn.2 ⟨h0, hall, hif⟩
              rw [hm] at this; cases this


example : ∃ r, realloc ⟨64, 200⟩ ⟨144, [], [(72, 64), (0, 64)]⟩ (some 80) 100 = some r ∧ r.ret = none := ⟨_, rfl, rfl⟩
example : ∃ r, realloc ⟨64, 200⟩ ⟨144, [], [(72, 64), (0, 64)]⟩ (some 8) 100 = some r ∧ r.ret = none := ⟨_, rfl, rfl⟩

/-- EXACT characterisation of the NULL answers of malloc WITH 64-bit sizes and addresses (what the
driver runs, `mallocA`): NULL ⇔ the rounding of the request wraps, or no free chunk can hold the
rounded request and the break cannot move: without a heap end because the new chunk would cross
the top of the address space (`len > SIZE_MAX − 8 ∨ len + 8 > SIZE_MAX − (base + brk)`), with a
heap end because `lim < brk + len + 8`. -/
theorem mallocA_null_iff (base : Nat) (cfg : Cfg) (h : Heap) (n : Nat) :
    (mallocA base cfg h n).ret = none ↔
      (n % cfg.W ≠ 0 ∧ n > SIZE_MAX - (cfg.W - n % cfg.W)) ∨
      ((∀ f ∈ h.flp, f.2 < minLen (roundLen cfg.W n)) ∧
        (if cfg.lim = 0 then
          minLen (roundLen cfg.W n) > SIZE_MAX - 8 ∨ minLen (roundLen cfg.W n) + 8 > SIZE_MAX - (base + h.brk)
         else cfg.lim < h.brk + minLen (roundLen cfg.W n) + 8)) := by
  have h3 := reachesStep3_iff cfg h n
  have hm := malloc_null_iff cfg h n
  unfold mallocA
  split
  · rename_i hw; exact ⟨fun _ => Or.inl hw, fun _ => rfl⟩
  · rename_i hw
    split
    · rename_i href
      refine ⟨fun _ => Or.inr ?_, fun _ => rfl⟩
      unfold mallocRefusesA at href
      simp only [Bool.and_eq_true, beq_iff_eq] at href
      obtain ⟨⟨hl0, hst⟩, hbw⟩ := href
      refine ⟨h3.1 hst, ?_⟩
      rw [if_pos hl0]
      unfold brkWraps at hbw
      simpa using hbw
    · rename_i href
      rw [hm]
      constructor
      · rintro ⟨hl0, hall, hlt⟩
        right
        refine ⟨hall, ?_⟩
        rw [if_neg hl0]; exact hlt
      · rintro (hc | ⟨hall, hif⟩)
        · exact absurd hc hw
        · by_cases hl0 : cfg.lim = 0
          · rw [if_pos hl0] at hif
            exfalso; apply href
            unfold mallocRefusesA brkWraps
            simp only [Bool.and_eq_true, beq_iff_eq, Bool.or_eq_true, decide_eq_true_eq]
            exact ⟨⟨hl0, h3.2 hall⟩, hif⟩
          · rw [if_neg hl0] at hif
            exact ⟨hl0, hall, hif⟩

example : (mallocA (2 ^ 46) ⟨64, 0⟩ ⟨72, [], [(0, 64)]⟩ (2 ^ 64 - 64)).ret = none := by decide


/-- EXACT characterisation of the NULL answers of realloc WITH 64-bit sizes and addresses
(`reallocA`, what the driver runs), for every reachable heap, every live block, any `base`:
NULL ⇔ the rounding of the request wraps, or `ptr + len` wraps (`cp < cp1`), or the request
exceeds the block ∧ no free chunk can hold it ∧ the chunk directly above is not a sufficient
free chunk ∧ the break cannot move: without a heap end only for a block that is NOT the topmost
chunk, when the chunk `malloc` would append crosses the top of the address space; with a heap
end when `lim < p + len` (topmost) resp. `lim < brk + len + 8`. -/
theorem reallocA_null_iff (base : Nat) (cfg : Cfg) (ok : CfgOK cfg) (h : Heap) (p n sz : Nat) (r : Res)
    (hr : Reach cfg h) (hl : lookup (p - 8) h.live = some sz) (hs : reallocA base cfg h (some p) n = some r) :
    r.ret = none ↔
      (n % cfg.W ≠ 0 ∧ n > SIZE_MAX - (cfg.W - n % cfg.W)) ∨
      (base + p + minLen (roundLen cfg.W n)) % 2 ^ 64 < base + p - 8 ∨
      (sz < minLen (roundLen cfg.W n) ∧ (∀ f ∈ h.flp, f.2 < minLen (roundLen cfg.W n)) ∧
        (¬ ∃ f ∈ h.flp, f.1 = p + sz ∧ minLen (roundLen cfg.W n) - sz ≤ f.2 + 8) ∧
        (if cfg.lim = 0 then
          h.brk ≠ p + sz ∧ (minLen (roundLen cfg.W n) > SIZE_MAX - 8 ∨
            minLen (roundLen cfg.W n) + 8 > SIZE_MAX - (base + h.brk))
         else if h.brk = p + sz then cfg.lim < p + minLen (roundLen cfg.W n)
         else cfg.lim < h.brk + minLen (roundLen cfg.W n) + 8)) := by
  have hsz8 : 8 ≤ sz := ((hr.inv ok).wfL _ (lookup_mem hl)).1
  obtain ⟨_, hlen8, _⟩ := reqLen_props cfg ok n
  have hid := reqLen_idem cfg ok n
  have h3 := reachesStep3_iff cfg h (minLen (roundLen cfg.W n))
  unfold reallocA at hs
  split at hs
  · rename_i hw
    simp only [Option.some.injEq] at hs; subst hs
    exact ⟨fun _ => Or.inl hw, fun _ => rfl⟩
  · rename_i hw
    simp only at hs
    split at hs
    · rename_i hwt
      simp only [Option.some.injEq] at hs; subst hs
      refine ⟨fun _ => Or.inr (Or.inl ?_), fun _ => rfl⟩
      unfold reallocWrapTest at hwt
      simpa using hwt
    · rename_i hwt
      have hwt' : ¬ (base + p + minLen (roundLen cfg.W n)) % 2 ^ 64 < base + p - 8 := by
        unfold reallocWrapTest at hwt; simpa using hwt
      split at hs
      · rename_i href
        simp only [Option.some.injEq] at hs; subst hs
        refine ⟨fun _ => Or.inr (Or.inr ?_), fun _ => rfl⟩
        simp only [Bool.and_eq_true] at href
        obtain ⟨hmv, hrf⟩ := href
        unfold mallocRefusesA at hrf
        simp only [Bool.and_eq_true, beq_iff_eq] at hrf
        obtain ⟨⟨hl0, hst⟩, hbw⟩ := hrf
        have hall := h3.1 hst
        by_cases hbig : 8 < minLen (roundLen cfg.W n)
        · rw [hid hbig] at hall hbw
          obtain ⟨h1, h2, h3'⟩ := (reachesMove_iff cfg h p _ sz hl hall).1 hmv
          refine ⟨h1, hall, h2, ?_⟩
          rw [if_pos hl0]
          refine ⟨h3', ?_⟩
          unfold brkWraps at hbw; simpa using hbw
        · -- len = 8 ≤ sz: the request is no growth, `reachesMove` is false
          exfalso
          have hle : minLen (roundLen cfg.W n) ≤ sz := by omega
          unfold reachesMove at hmv
          rw [hl] at hmv
          simp [hle] at hmv
      · rename_i href
        have hrn := realloc_null_iff cfg ok h p n sz r hr hl hs
        rw [hrn]
        constructor
        · rintro ⟨h1, hl0, hall, hno, hif⟩
          right; right
          refine ⟨h1, hall, hno, ?_⟩
          rw [if_neg hl0]; exact hif
        · rintro (hc | hc | ⟨h1, hall, hno, hif⟩)
          · exact absurd hc hw
          · exact absurd hc hwt'
          · by_cases hl0 : cfg.lim = 0
            · rw [if_pos hl0] at hif
              exfalso; apply href
              have hbig : 8 < minLen (roundLen cfg.W n) := by omega
              simp only [Bool.and_eq_true]
              refine ⟨(reachesMove_iff cfg h p _ sz hl hall).2 ⟨h1, hno, hif.1⟩, ?_⟩
              unfold mallocRefusesA brkWraps
              simp only [Bool.and_eq_true, beq_iff_eq, Bool.or_eq_true, decide_eq_true_eq]
              rw [hid hbig]
              refine ⟨⟨hl0, ?_⟩, hif.2⟩
              apply h3.2
              rw [hid hbig]; exact hall
            · rw [if_neg hl0] at hif
              exact ⟨h1, hl0, hall, hno, hif⟩


example : ∃ r, reallocA (2 ^ 46) ⟨64, 0⟩ ⟨144, [], [(72, 64), (0, 64)]⟩ (some 8) (2 ^ 64 - 2 ^ 46 - 64) = some r ∧ r.ret = none :=
  ⟨_, rfl, by decide⟩

/-- WHAT THE DRIVER PRINTS after a successful `realloc` of a block that the harness had filled
with the pattern `seed` over its `oldn ≤ sz` requested bytes: the digest of the first
`min(oldn, n)` bytes of the RETURNED block, computed by executing the model's stores (`execJ`:
the `memcpy` of the move path, the header writes with arbitrary bytes) on the old block's
bytes, IS the digest of the pattern itself — for every junk, every memory content outside the
block, all six paths.  The harness prints the digest of the real bytes: a difference is a lost
prefix, shown with the model's own bytes. -/
theorem realloc_digest_is_pattern (cfg : Cfg) (ok : CfgOK cfg) (h : Heap) (p n sz q : Nat) (r : Res)
    (hr : Reach cfg h) (hl : lookup (p - 8) h.live = some sz)
    (hs : realloc cfg h (some p) n = some r) (hq : r.ret = some q) (junk : Nat → Nat)
    (oldn seed other : Nat) (hold : oldn ≤ sz) :
    prefixDigest (execJ junk (patMem p oldn seed other) r.evs) q (min oldn n) =
      prefixDigest (fun i => pat seed i) 0 (min oldn n) := by
  unfold prefixDigest
  apply digestFrom_congr
  intro j _ hj
  have := realloc_bytes_preserved cfg ok h p n sz q r hr hl hs hq junk (patMem p oldn seed other) j (by omega)
  rw [this]
  unfold patMem
  have h1 : p ≤ p + j ∧ p + j < p + oldn := by omega
  rw [if_pos h1]
  simp

example : prefixDigest (fun i => pat 1 i) 0 3 = ((pat 1 0 * 31 + pat 1 1) * 31 + pat 1 2) % 2 ^ 32 := by decide

/-- `heap_addr_history` is EXACT in `W`: for `__WORDSIZE = 8` (a power of two and a multiple
of 8, but below 16 — not a configuration the port ships: `<bits/wordsize.h>` gives 32 or 64)
the statement fails.  `malloc(8); realloc(p, 2⁶⁴ − 8)`: the request needs no rounding, realloc's
wrap test computes `cp = ptr + len = ptr − 8 = cp1` (mod 2⁶⁴), `cp < cp1` is false, the chunk
is the topmost one, and the break is set to `cp`: in the offset model `brk = 2⁶⁴`, i.e. the
break ADDRESS wraps (in the code it lands on the chunk's own header).  With `16 ≤ W` a rounded
request is at most `2⁶⁴ − 16` and the test is exact (`heap_addr_wrap_test_exact`). -/
theorem heap_addr_history_w8_witness :
    (8 : Nat) ∣ 2 ^ 64 ∧ (∀ op ∈ [Op.malloc 8, Op.realloc (some 8) (2 ^ 64 - 8)], op.sizeOK) ∧
    ∃ h, runA (2 ^ 46) ⟨8, 0⟩ Heap.init [.malloc 8, .realloc (some 8) (2 ^ 64 - 8)] = some h ∧
      ¬ (2 ^ 46 + h.brk ≤ SIZE_MAX) ∧ reallocWrapTest (2 ^ 46) 8 (2 ^ 64 - 8) = false := by
  refine ⟨⟨2 ^ 61, by decide⟩, ?_, _, rfl, by decide, by decide⟩
  intro op hop
  simp only [List.mem_cons, List.not_mem_nil, or_false] at hop
  rcases hop with rfl | rfl <;> simp [Op.sizeOK, SIZE_MAX]


/-! ### static_object_pool: a `T` constructor that throws (round 3b) -/

/-- `create(args…)` whose constructor throws leaves the pool EXACTLY as it was — same free list
(the cell is pushed back where it was popped), same objects, no fault — for every state; the
exception reaches the caller iff a cell was free (otherwise `nullptr` before any constructor
runs).  Hence every theorem about create/destroy histories (`sop_lifetimes`, `sopx_lifetimes`,
`sop_null_iff_exhausted`, …: `avail = Capacity − live`) holds unchanged for histories with throwing
constructors interleaved at arbitrary points. -/
theorem sop_create_throw_keeps_pool (p : SOP) :
    p.createThrow.2 = p ∧ (p.createThrow.1 = true ↔ p.head.free ≠ []) := by
  obtain ⟨⟨fr⟩, objs, flt⟩ := p
  cases fr with
  | nil => simp [SOP.createThrow, Pool.alloc]
  | cons c rest => simp [SOP.createThrow, Pool.alloc, Pool.release]

/-- FULL STATEMENT ("free count = capacity − live") violated by the routine as it was (before
`fix: static_object_pool::create returns the cell when the constructor throws`): one throwing
constructor on a fresh pool of 2 cells: no object lives, `avail() = 1 ≠ 2 − 0`; the cell is
never handed out again (after two more creates the pool answers null with ONE object short of
its capacity). -/
theorem sop_create_throw_orig_witness :
    let p0 := SOP.init 8 8 2
    let p1 := p0.createThrowOrig.2
    p0.createThrowOrig.1 = true ∧ p1.objs = [] ∧ p1.avail = 1 ∧
    ((p1.create.2).create.2).create.1 = none ∧ ((p1.create.2).create.2).objs.length = 1 ∧
    (p0.createThrow.2).avail = 2 := by decide

example : (SOP.init 8 8 2).createThrow.1 = true := by decide

end Igris.C10
