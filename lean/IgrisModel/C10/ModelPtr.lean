/-
  C10 — the heap allocator (compat/mem/lin_malloc.cpp, lin_realloc.cpp) at the
  level of the `nx` POINTERS.

  `Model.lean` keeps the free list `__flp` as a Lean list.  Here the free list
  is what it is in C: a global `__flp` and the two words of
  `struct __freelist { size_t sz; struct __freelist *nx; }` in memory.

    szf a   the `sz` word of the header at address `a` (byte offset from
            `__malloc_heap_start`)
    nxf a   the `nx` word of that header (it lives at `a + 8`), `none` = NULL
    flp     `__flp`, `none` = NULL
    brk     `__brkval - __malloc_heap_start` (0 also stands for the initial NULL,
            as in Model.lean)

  Addresses are offsets, 0 is a valid chunk address, hence `Option` for
  pointers.  `mallocP` / `freeP` / `reallocP` are transcriptions, statement by
  statement and in the order of the C code, of `malloc` / `free` / `realloc`.
  Every `for (...; fp1; fp2 = fp1, fp1 = fp1->nx)` loop is a structurally
  recursive function with explicit fuel that carries exactly the loop variables
  of the C code.  Running out of fuel returns a default; `LemmasPtr.lean` shows
  that this never happens when `fuel` exceeds the length of the free list.

  Not modelled: the payload bytes.  `szf` / `nxf` are only meaningful at header
  addresses; `memcpy(memp, ptr, fp1->sz)` in realloc writes payload bytes of the
  chunk just obtained from malloc only (Lemmas.lean: `realloc_where`), so it is
  the identity on the header words of every chunk that is on the free list or
  live, and is transcribed as a no-op.
-/
import IgrisModel.C10.Model
namespace Igris.C10

structure PHeap where
  /-- `__brkval - __malloc_heap_start` -/
  brk : Nat
  /-- `__flp` -/
  flp : Option Nat
  /-- `((struct __freelist *)a)->sz` -/
  szf : Nat → Nat
  /-- `((struct __freelist *)a)->nx` -/
  nxf : Nat → Option Nat

def PHeap.init : PHeap := ⟨0, none, fun _ => 0, fun _ => none⟩

/-- pointwise update of the `sz` words -/
def updS (m : Nat → Nat) (a v : Nat) : Nat → Nat := fun x => if x = a then v else m x

/-- pointwise update of the `nx` words -/
def updN (m : Nat → Option Nat) (a : Nat) (v : Option Nat) : Nat → Option Nat :=
  fun x => if x = a then v else m x

/-- `((struct __freelist *)a)->sz = v` -/
@[reducible] def PHeap.setSz (ph : PHeap) (a v : Nat) : PHeap := { ph with szf := updS ph.szf a v }

/-- `((struct __freelist *)a)->nx = v` -/
@[reducible] def PHeap.setNx (ph : PHeap) (a : Nat) (v : Option Nat) : PHeap := { ph with nxf := updN ph.nxf a v }

/-- `if (prev) prev->nx = v; else __flp = v;` -/
def PHeap.setLink (ph : PHeap) (prev : Option Nat) (v : Option Nat) : PHeap :=
  match prev with
  | some b => ph.setNx b v
  | none => { ph with flp := v }

structure PRes where
  h : PHeap
  /-- the pointer returned (payload offset), `none` = NULL / `void` -/
  ret : Option Nat

/-! ### malloc -/

/-- `for (s = 0, fp1 = __flp, fp2 = 0; fp1; fp2 = fp1, fp1 = fp1->nx)` of malloc.
Arguments: fuel, `fp1`, `fp2`, `s`, `sfp1`, `sfp2`.
`.inl (fp1, fp2)`: left by the `return` of the exact fit; `.inr (s, sfp1, sfp2)`: fell off the end. -/
def mallocLoopP (ph : PHeap) (len : Nat) :
    Nat → Option Nat → Option Nat → Nat → Nat → Option Nat → Sum (Nat × Option Nat) (Nat × Nat × Option Nat)
  | 0, _, _, s, sfp1, sfp2 => .inr (s, sfp1, sfp2)
  | _ + 1, none, _, s, sfp1, sfp2 => .inr (s, sfp1, sfp2)
  | fuel + 1, some fp1, fp2, s, sfp1, sfp2 =>
    if ph.szf fp1 < len then mallocLoopP ph len fuel (ph.nxf fp1) (some fp1) s sfp1 sfp2
    else if ph.szf fp1 = len then .inl (fp1, fp2)
    else if s = 0 ∨ ph.szf fp1 < s then
      mallocLoopP ph len fuel (ph.nxf fp1) (some fp1) (ph.szf fp1) fp1 fp2
    else mallocLoopP ph len fuel (ph.nxf fp1) (some fp1) s sfp1 sfp2

def mallocP (cfg : Cfg) (ph : PHeap) (len0 fuel : Nat) : PRes :=
  let len := minLen (roundLen cfg.W len0)
  match mallocLoopP ph len fuel ph.flp none 0 0 none with
  | .inl (fp1, fp2) =>
    -- if (fp2) fp2->nx = fp1->nx; else __flp = fp1->nx; return &(fp1->nx);
    ⟨ph.setLink fp2 (ph.nxf fp1), some (fp1 + 8)⟩
  | .inr (s, sfp1, sfp2) =>
    if s ≠ 0 then
      if s - len < 16 then
        -- if (sfp2) sfp2->nx = sfp1->nx; else __flp = sfp1->nx; return &(sfp1->nx);
        ⟨ph.setLink sfp2 (ph.nxf sfp1), some (sfp1 + 8)⟩
      else
        -- cp = sfp1; s -= len; cp += s; sfp2 = cp; sfp2->sz = len; sfp1->sz = s - 8; return &(sfp2->nx);
        let s' := s - len
        let sfp2' := sfp1 + s'
        let ph1 := ph.setSz sfp2' len
        let ph2 := ph1.setSz sfp1 (s' - 8)
        ⟨ph2, some (sfp2' + 8)⟩
    else
      let avail := availOf cfg.lim ph.brk
      if cfg.lim ≠ 0 ∧ ¬ (avail ≥ len ∧ avail ≥ len + 8) then ⟨ph, none⟩
      else
        -- fp1 = __brkval; __brkval += len + 8; fp1->sz = len; return &(fp1->nx);
        let fp1 := ph.brk
        let ph1 : PHeap := { ph with brk := ph.brk + (len + 8) }
        ⟨ph1.setSz fp1 len, some (fp1 + 8)⟩

/-! ### free -/

/-- `fpnew->nx = fp1; if (&fpnew->nx + fpnew->sz == fp1) { fpnew->sz += fp1->sz + 8; fpnew->nx = fp1->nx; }` -/
def insUpP (ph : PHeap) (fpnew fp1 : Nat) : PHeap :=
  let ph1 := ph.setNx fpnew (some fp1)
  if fpnew + 8 + ph1.szf fpnew = fp1 then
    let ph2 := ph1.setSz fpnew (ph1.szf fpnew + (ph1.szf fp1 + 8))
    ph2.setNx fpnew (ph2.nxf fp1)
  else ph1

/-- `fp2->nx = fpnew; if (&fp2->nx + fp2->sz == fpnew) { fp2->sz += fpnew->sz + 8; fp2->nx = fpnew->nx; }` -/
def mergeDownP (ph : PHeap) (fp2 fpnew : Nat) : PHeap :=
  let ph1 := ph.setNx fp2 (some fpnew)
  if fp2 + 8 + ph1.szf fp2 = fpnew then
    let ph2 := ph1.setSz fp2 (ph1.szf fp2 + (ph1.szf fpnew + 8))
    ph2.setNx fp2 (ph2.nxf fpnew)
  else ph1

/-- first loop of free:
`for (fp1 = __flp, fp2 = 0; fp1; fp2 = fp1, fp1 = fp1->nx) { if (fp1 < fpnew) continue; …; if (fp2 == 0) { __flp = fpnew; return; } break; }`
Arguments: fuel, `fp1`, `fp2`.  Result: the memory, `fp2`, and whether the function returned from inside the loop. -/
def freeLoopP (ph : PHeap) (fpnew : Nat) : Nat → Option Nat → Option Nat → PHeap × Option Nat × Bool
  | 0, _, fp2 => (ph, fp2, false)
  | _ + 1, none, fp2 => (ph, fp2, false)
  | fuel + 1, some fp1, fp2 =>
    if fp1 < fpnew then freeLoopP ph fpnew fuel (ph.nxf fp1) (some fp1)
    else
      let ph1 := insUpP ph fpnew fp1
      match fp2 with
      | none => ({ ph1 with flp := some fpnew }, none, true)
      | some b => (ph1, some b, false)

/-- `for (fp1 = __flp, fp2 = 0; fp1->nx != 0; fp2 = fp1, fp1 = fp1->nx);`
Arguments: fuel, `fp1`, `fp2`; result `(fp1, fp2)`. -/
def lastLoopP (ph : PHeap) : Nat → Nat → Option Nat → Nat × Option Nat
  | 0, fp1, fp2 => (fp1, fp2)
  | fuel + 1, fp1, fp2 =>
    match ph.nxf fp1 with
    | none => (fp1, fp2)
    | some n => lastLoopP ph fuel n (some fp1)

/-- `free(p)`, `p ≠ NULL`.  `fpnew->sz` is read from memory. -/
def freeP (ph : PHeap) (p fuel : Nat) : PRes :=
  let fpnew := p - 8
  -- fpnew->nx = 0;
  let ph0 := ph.setNx fpnew none
  match ph0.flp with
  | none =>
    if p + ph0.szf fpnew = ph0.brk then ⟨{ ph0 with brk := fpnew }, none⟩
    else ⟨{ ph0 with flp := some fpnew }, none⟩
  | some _ =>
    match freeLoopP ph0 fpnew fuel ph0.flp none with
    | (ph1, _, true) => ⟨ph1, none⟩
    | (ph1, none, false) => ⟨ph1, none⟩        -- `fp2->nx` with `fp2 == NULL`: cannot happen
    | (ph1, some fp2, false) =>
      let ph2 := mergeDownP ph1 fp2 fpnew
      match ph2.flp with
      | none => ⟨ph2, none⟩                      -- `fp1->nx` with `fp1 == NULL`: cannot happen
      | some f =>
        let x := lastLoopP ph2 fuel f none
        -- cp2 = &fp1->nx; if (cp2 + fp1->sz == __brkval) { …; __brkval = cp2 - 8; }
        if x.1 + 8 + ph2.szf x.1 = ph2.brk then
          ⟨{ ph2.setLink x.2 none with brk := x.1 }, none⟩
        else ⟨ph2, none⟩

/-! ### realloc -/

/-- `for (s = 0, ofp3 = 0, fp3 = __flp; fp3; ofp3 = fp3, fp3 = fp3->nx)` of realloc.
Arguments: fuel, `fp3`, `ofp3`, `s`.  `.inl (fp3, ofp3)`: "found something that fits";
`.inr s`: fell off the end. -/
def growLoopP (ph : PHeap) (fp2 incr : Nat) : Nat → Option Nat → Option Nat → Nat → Sum (Nat × Option Nat) Nat
  | 0, _, _, s => .inr s
  | _ + 1, none, _, s => .inr s
  | fuel + 1, some fp3, ofp3, s =>
    if fp3 = fp2 ∧ ph.szf fp3 + 8 ≥ incr then .inl (fp3, ofp3)
    else growLoopP ph fp2 incr fuel (ph.nxf fp3) (some fp3) (if ph.szf fp3 > s then ph.szf fp3 else s)

def reallocP (cfg : Cfg) (ph : PHeap) (ptr : Option Nat) (len0 fuel : Nat) : PRes :=
  let len := minLen (roundLen cfg.W len0)
  match ptr with
  | none => mallocP cfg ph len fuel
  | some p =>
    let fp1 := p - 8
    -- cp = ptr + len; if (cp < cp1) return 0;
    if p + len < fp1 then ⟨ph, none⟩ else
    if len ≤ ph.szf fp1 then
      if ph.szf fp1 ≤ 16 ∨ len > ph.szf fp1 - 16 then ⟨ph, some p⟩
      else
        -- fp2 = cp; fp2->sz = fp1->sz - len - 8; fp1->sz = len; free(&(fp2->nx)); return ptr;
        let fp2 := p + len
        let ph1 := ph.setSz fp2 (ph.szf fp1 - len - 8)
        let ph2 := ph1.setSz fp1 len
        ⟨(freeP ph2 (fp2 + 8) fuel).h, some p⟩
    else
      let incr := len - ph.szf fp1
      let fp2 := p + ph.szf fp1
      match growLoopP ph fp2 incr fuel ph.flp none 0 with
      | .inl (fp3, ofp3) =>
        if ph.szf fp3 + 8 - incr > 16 then
          -- cp = ptr + len; fp2 = cp; fp2->nx = fp3->nx; fp2->sz = fp3->sz - incr; fp1->sz = len;
          let fp2 := p + len
          let ph1 := ph.setNx fp2 (ph.nxf fp3)
          let ph2 := ph1.setSz fp2 (ph1.szf fp3 - incr)
          let ph3 := ph2.setSz fp1 len
          -- if (ofp3) ofp3->nx = fp2; else __flp = fp2;
          ⟨ph3.setLink ofp3 (some fp2), some p⟩
        else
          -- fp1->sz += fp3->sz + 8; fp2 = fp3->nx;
          let ph1 := ph.setSz fp1 (ph.szf fp1 + (ph.szf fp3 + 8))
          let fp2 := ph1.nxf fp3
          ⟨ph1.setLink ofp3 fp2, some p⟩
      | .inr s =>
        if ph.brk = p + ph.szf fp1 ∧ len > s then
          if cfg.lim ≠ 0 ∧ p + len > cfg.lim then ⟨ph, none⟩
          else
            -- __brkval = cp; fp1->sz = len;
            let ph1 : PHeap := { ph with brk := p + len }
            ⟨ph1.setSz fp1 len, some p⟩
        else
          -- if ((memp = malloc(len)) == 0) return 0; memcpy(memp, ptr, fp1->sz); free(ptr); return memp;
          let r := mallocP cfg ph len fuel
          match r.ret with
          | none => ⟨r.h, none⟩
          | some memp => ⟨(freeP r.h p fuel).h, some memp⟩

/-! ### reading the free list, histories -/

def walkLoop (ph : PHeap) : Nat → Option Nat → List (Nat × Nat)
  | 0, _ => []
  | _ + 1, none => []
  | fuel + 1, some a => (a, ph.szf a) :: walkLoop ph fuel (ph.nxf a)

/-- the free list `(address, sz)` read by following `__flp` and the `nx` words -/
def walkFl (ph : PHeap) (fuel : Nat) : List (Nat × Nat) := walkLoop ph fuel ph.flp

/-- one request on the pointer heap; the fuel is `brk + 1` (more than the
free list can have nodes: every node occupies at least 16 bytes below the break) -/
def stepP (cfg : Cfg) (ph : PHeap) : Op → PRes
  | .malloc n => mallocP cfg ph n (ph.brk + 1)
  | .free none => ⟨ph, none⟩
  | .free (some p) => freeP ph p (ph.brk + 1)
  | .realloc p n => reallocP cfg ph p n (ph.brk + 1)

def runP (cfg : Cfg) : PHeap → List Op → PHeap
  | ph, [] => ph
  | ph, op :: ops => runP cfg (stepP cfg ph op).h ops

end Igris.C10
