import IgrisModel.C10.Model
import IgrisModel.C10.ModelPtr
open Igris.Proto Igris.C10

inductive St where
  | idle
  | pool (p : Pool) (m : Links) (head : Nat)   -- list model and the `next`-pointer model side by side
  | ipool (p : IPool)
  | sop (st : Nat) (p : SOPx) (zt : List (Nat × Nat × Nat))  -- sizeof(storage_type), pool, zone table
  | mpool (m : Links) (s : MState) (zt : List (Nat × Nat × Nat))  -- several zones: (base, cells, elemsz)
  | tri (st : Nat) (p : Pool) (ip : IPool) (sp : SOPx) (slots : List (Nat × Option Nat × Option Nat × Option Nat))  -- the three twins on one history
  | heap (cfg : Cfg) (h : Heap) (ph : PHeap) (slots : List (Nat × Nat)) (fills : List (Nat × Nat × Nat)) (ctr : Nat)   -- slot ↦ payload offset; list model and `nx`-pointer model side by side

def optS : Option Nat → String
  | none => "null"
  | some n => toString n

def parsePtr? (s : String) : Option (Option Nat) :=
  if s = "null" then some none else s.toNat?.map some

def slotGet (slots : List (Nat × Nat)) (k : Nat) : Option Nat :=
  (slots.find? (·.1 = k)).map (·.2)

def slotSet (slots : List (Nat × Nat)) (k : Nat) (v : Option Nat) : List (Nat × Nat) :=
  let rest := slots.filter (·.1 ≠ k)
  match v with
  | none => rest
  | some p => (k, p) :: rest

def insertSorted (x : Nat × Nat) : List (Nat × Nat) → List (Nat × Nat)
  | [] => [x]
  | y :: r => if x.1 ≤ y.1 then x :: y :: r else y :: insertSorted x r

/-- `pool_avail` computed by walking the `next` pointers; must agree with the list model -/
def availBoth (p : Pool) (m : Links) (head : Nat) : String :=
  let a := slistSize m head (p.free.length + 2)
  if a = p.avail then toString a else s!"{a} MISMATCH {p.avail}"

/-- base address the driver gives to the next zone (zones are laid out one
behind the other with a gap; address 0..7 is the list head of `mpool` cases) -/
def nextBase (zt : List (Nat × Nat × Nat)) : Nat :=
  zt.foldl (fun acc (b, n, e) => max acc (b + n * e + 24)) 16

/-- a cell address as `zone:offset` (what the harness prints) -/
def cellStr (zt : List (Nat × Nat × Nat)) (a : Nat) : String :=
  let rec go (k : Nat) : List (Nat × Nat × Nat) → String
    | [] => s!"?{a}"
    | (b, n, e) :: r => if b ≤ a ∧ a < b + n * e then s!"{k}:{a - b}" else go (k + 1) r
  go 0 zt

def optCell (zt : List (Nat × Nat × Nat)) : Option Nat → String
  | none => "null"
  | some a => cellStr zt a

/-- address of cell `off` of zone `k` -/
def cellAddr? (zt : List (Nat × Nat × Nat)) (k off : Nat) : Option Nat :=
  match zt[k]? with
  | some (b, n, e) => if off < n * e then some (b + off) else none
  | none => none

/-- the harness' bookkeeping of fill patterns: slot ↦ (seed, requested size) -/
def fillSet (fills : List (Nat × Nat × Nat)) (k seed n : Nat) : List (Nat × Nat × Nat) :=
  (k, seed, n) :: fills.filter (·.1 ≠ k)

def heapLine (ret : String) (h : Heap) (slots : List (Nat × Nat)) : String :=
  let fl := String.join (h.flp.map fun c => s!"({c.1},{c.2})")
  let sorted := slots.foldl (fun acc x => insertSorted x acc) []
  let lv := String.join (sorted.map fun (k, p) =>
    s!"{k}:{p}:{match lookup (p - 8) h.live with | some s => toString s | none => "?"} ")
  s!"ret={ret} brk={h.brk} fl={fl} live={lv.trimAscii}"

/-- the `nx`-pointer model must agree with the list model: same break, the free list read through
`__flp` / `nx` / `sz` words equals the list, every live header word equals the recorded size, same
returned pointer -/
def ptrAgree (h : Heap) (ph : PHeap) (ret retP : Option Nat) : String :=
  if ph.brk = h.brk ∧ walkFl ph (ph.brk + 1) = h.flp ∧ h.live.all (fun c => ph.szf c.1 == c.2) ∧ ret = retP
  then "" else " MISMATCH-PTR"

/-- the address the driver assumes for `__malloc_heap_start`.  The harness checks that the real arena
lies in `[2³², 2⁴⁷)` and generates only requests whose verdict is the same for every base in that range. -/
def BASE : Nat := 2 ^ 46

/-- the history the harness runs from a constructor with `init_priority(101)` (before `main`, before the
dynamic initialisers of the library): malloc(10), realloc(p, 100), malloc(0), free, free, free -/
def earlyLine : String :=
  let cfg : Cfg := ⟨64, 0⟩
  let r1 := mallocA BASE cfg Heap.init 10
  match reallocA BASE cfg r1.h r1.ret 100 with
  | none => "fault"
  | some r2 =>
    let r3 := mallocA BASE cfg r2.h 0
    let brk3 := r3.h.brk
    match r3.ret, r2.ret, r1.ret with
    | some c, some b, some a =>
      match free r3.h b with
      | none => "fault"
      | some r4 =>
        match free r4.h c with
        | none => "fault"
        | some r5 => s!"early a={a} b={b} c={c} brk={brk3} end={r5.h.brk} fl={r5.h.flp.length}"
    | _, _, _ => "fault"

/-- (sizeof T, alignof T, Capacity) of the harness' static_object_pool instantiations, by index -/
def sopKinds : List (Nat × Nat × Nat) :=
  [(1, 1, 1), (1, 1, 5), (4, 4, 2), (8, 8, 7), (12, 4, 3), (12, 4, 33), (24, 8, 1), (24, 8, 6), (40, 8, 9),
   (32, 32, 4), (48, 16, 5), (64, 8, 33), (2, 2, 16), (16, 16, 8), (96, 32, 3), (7, 1, 10)]

def nn : Option Nat → String
  | none => "null"
  | some _ => "cell"

def triLine (r1 r2 r3 : String) (p : Pool) (ip : IPool) (sp : SOPx) : String :=
  s!"{r1} {p.avail} | {r2} {ip.room} {ip.avail} | {r3} {sp.sop.avail} {sp.sop.objs.length} {sp.ctor.length} {sp.dtor.length}{if sp.sop.fault then " FAULT" else ""}"

def stepLine (st : St) (line : String) : St × String :=
  let bad := (st, "bad-op")
  let st' := st
  match words line with
  | ["consts"] => (st, "W=64 szt=8 fl=16 sl=8")
  -- widths and alignments the model embeds: `int _count` (room(): n < 2³¹), pointers / `size_t` 64 bits (SIZE_MAX),
  -- header = sizeof(size_t), minimum chunk = sizeof(struct __freelist) - sizeof(size_t), payload alignment 8,
  -- alignof(max_align_t) of the host (16: NOT provided, finding C10-heap-align-max-align-t)
  | ["consts2"] => (st, s!"int=4 ptr=8 sizemax={SIZE_MAX} hdr=8 minchunk={minLen 0} align=8 maxalign=16 nx_off=8")
  | ["early"] => (st, earlyLine)
  | ["reset", "pool", e, n] =>
    match e.toNat?, n.toNat? with
    | some e, some n =>
      let p := Pool.init.engage (n * e) e
      let head := n * e + 8
      let m := engageLoopP e (n * e) head (n * e + 1) 0 (slistInit (fun _ => 0) head)
      (.pool p m head, s!"ok {availBoth p m head}")
    | _, _ => bad
  | ["reset", "ipool", e, n] =>
    match e.toNat?, n.toNat? with
    | some e, some n =>
      let p := IPool.init (n * e) e
      (.ipool p, s!"{p.cells} {p.room} {p.avail}")
    | _, _ => bad
  | ["reset", "ipool0"] =>
    -- `igris::pool p;` (default constructed, no zone)
    (.ipool IPool.default, s!"{IPool.default.room} {IPool.default.avail}")
  | ["reset", "sop", s, a, n] =>
    match s.toNat?, a.toNat?, n.toNat? with
    | some s, some a, some n =>
      let p := SOPx.init s a n
      let st := storageSize s a
      (.sop st p [(0, n, st)], s!"{st} {p.sop.avail}")
    | _, _, _ => bad
  | ["reset", "poolx", e, size] =>
    -- igris::pool(zone, size, elsize): asserts `elsize >= sizeof(struct slist_head)` (init) and `size % elemsz == 0` (pool_engage)
    match e.toNat?, size.toNat? with
    | some e, some size =>
      (.idle, if engageRefused size e then "assert" else s!"engaged {(Pool.init.engage size e).avail}")
    | _, _ => bad
  | ["reset", "tri", idx] =>
    match idx.toNat? with
    | some idx =>
      match sopKinds[idx]? with
      | some (sz, al, cap) =>
        let e := storageSize sz al
        let p := Pool.init.engage (cap * e) e
        let ip := IPool.init (cap * e) e
        let sp := SOPx.init sz al cap
        (.tri e p ip sp [], s!"{e} {cap} | {p.avail} | {ip.cells} {ip.room} {ip.avail} | {sp.sop.avail}")
      | none => bad
    | none => bad
  | ["reset", "crit", which] =>
    -- a request at critical-context level 1 on a heap with one live block at payload offset 8
    let cfg : Cfg := ⟨64, 0⟩
    let h1 := (mallocA BASE cfg Heap.init 8).h
    let op : Op := if which = "m" then .malloc 8 else if which = "f" then .free (some 8) else .realloc (some 8) 100
    (.idle, match stepCtx 1 BASE cfg h1 op with
      | none => "abort"
      | some _ => "returned")
  | ["reset", "mpool"] =>
    (.mpool (slistInit (fun _ => 0) 0) MState.init [], s!"ok {availBoth Pool.init (slistInit (fun _ => 0) 0) 0}")
  | "reset" :: "heap" :: l :: _ =>
    -- an optional 4th word selects the debug / release build of the C code: same model
    match l.toNat? with
    | some l => (.heap ⟨64, l⟩ Heap.init PHeap.init [] [] 1, "ok")
    | none => bad
  | ws =>
    match st, ws with
    | .pool p m head, ["a"] =>
      let (r, p') := p.alloc
      let (r2, m') := poolAllocP m head
      (.pool p' m' head, s!"{optS r}{if r2 != r then " MISMATCH" else ""} {availBoth p' m' head}")
    | .pool p m head, ["f", c] =>
      match c.toNat? with
      | some c =>
        let p' := (p.release c).1
        let m' := slistAdd m c head
        (.pool p' m' head, s!"{availBoth p' m' head}")
      | none => bad
    | .pool p m head, ["in", c] =>
      match c.toNat? with
      | some c =>
        let a := p.inFreelist c
        let b := slistIn m head c (p.free.length + 2)
        (st, (if a then "1" else "0") ++ (if a != b then " MISMATCH" else ""))
      | none => bad
    | .ipool p, ["g"] =>
      let (r, p') := p.get
      (.ipool p', s!"{optS r} {p'.room} {p'.avail}")
    | .ipool p, ["p", c] =>
      match parsePtr? c with
      | some c =>
        match p.put c with
        | some (p', _) => (.ipool p', s!"{p'.room} {p'.avail}")
        | none => (st, "abort")
      | none => bad
    | .ipool p, ["ca", i] =>
      match i.toInt? with
      | some i => (st, if p.cellIsAllocated i then "1" else "0")
      | none => bad
    | .ipool p, ["sz"] => (st, s!"{p.cells} {p.elemsz}")
    | .ipool _, ["ri", e, n] =>
      -- `init(zone, size, elsize)` again on the same object: every member is assigned, `pool_init` empties the list
      match e.toNat?, n.toNat? with
      | some e, some n =>
        let p := IPool.init (n * e) e
        (.ipool p, s!"{p.cells} {p.room} {p.avail}")
      | _, _ => bad
    | .ipool p, ["it"] =>
      (st, "it:" ++ String.join (p.iterAll.map fun i => s!" {i}"))
    | .sop st p zt, ["c"] =>
      match sxstep st p .create with
      | some (p', r) =>
        let rs := match r with
          | none => "null"
          | some a => if a < (match zt with | (_, n, e) :: _ => n * e | [] => 0) then toString a else cellStr zt a
        (.sop st p' zt, s!"{rs} {p'.sop.avail} {p'.sop.objs.length} {p'.ctor.length} {p'.dtor.length}{if p'.sop.fault then " FAULT" else ""}")
      | none => (st', "fault")
    | .sop st p zt, "d" :: cs =>
      let a? : Option Nat := match cs with
        | [c] => c.toNat?
        | [k, off] => match k.toNat?, off.toNat? with
          | some k, some off => cellAddr? zt k off
          | _, _ => none
        | _ => none
      match a? with
      | some c =>
        match sxstep st p (.destroy c) with
        | some (p', _) =>
          (.sop st p' zt, s!"{p'.sop.avail} {p'.sop.objs.length} {p'.ctor.length} {p'.dtor.length}{if p'.sop.fault then " FAULT" else ""}")
        | none => (st', "fault")
      | none => bad
    | .sop st p zt, ["ct"] =>
      -- `create(args…)` whose constructor throws: the cell goes back to the pool, no object, no ledger entry
      let (threw, sop') := p.sop.createThrow
      let p' : SOPx := { p with sop := sop' }
      (.sop st p' zt, s!"{if threw then "throw" else "null"} {p'.sop.avail} {p'.sop.objs.length} {p'.ctor.length} {p'.dtor.length}{if p'.sop.fault then " FAULT" else ""}")
    | .sop st p zt, ["x", n] =>
      match n.toNat? with
      | some n =>
        let b := nextBase zt
        match sxstep st p (.engage b n) with
        | some (p', _) => (.sop st p' (zt ++ [(b, n, st)]), s!"{p'.sop.avail}")
        | none => (st', "fault")
      | none => bad
    | .tri e p ip sp slots, ["a", k] =>
      match k.toNat? with
      | some k =>
        let (r1, p') := p.alloc
        let (r2, ip') := ip.get
        match sxstep e sp .create with
        | some (sp', r3) =>
          let slots' := (k, r1, r2, r3) :: slots.filter (·.1 ≠ k)
          (.tri e p' ip' sp' slots', triLine (nn r1) (nn r2) (nn r3) p' ip' sp')
        | none => (st', "fault")
      | none => bad
    | .tri e p ip sp slots, ["f", k] =>
      match k.toNat? with
      | some k =>
        let (c1, c2, c3) := match slots.find? (·.1 = k) with
          | some (_, a, b, c) => (a, b, c)
          | none => (none, none, none)
        let slots' := slots.filter (·.1 ≠ k)
        let p' := match c1 with
          | some c => (p.release c).1
          | none => p
        match ip.put c2 with
        | none => (st', "abort")
        | some (ip', _) =>
          match c3 with
          | none => (.tri e p' ip' sp slots', triLine "-" "-" "-" p' ip' sp)
          | some c =>
            match sxstep e sp (.destroy c) with
            | some (sp', _) => (.tri e p' ip' sp' slots', triLine "-" "-" "-" p' ip' sp')
            | none => (st', "fault")
      | none => bad
    | .mpool m s zt, ["z", n, e] =>
      match n.toNat?, e.toNat? with
      | some n, some e =>
        let b := nextBase zt
        match mstep s (.engage b (n * e) e) with
        | some (s', _) =>
          let m' := (mstepP m 0 (.engage b (n * e) e)).1
          (.mpool m' s' (zt ++ [(b, n, e)]), availBoth s'.pool m' 0)
        | none => (st', "fault")
      | _, _ => bad
    | .mpool m s zt, ["a"] =>
      match mstep s .alloc with
      | some (s', r) =>
        let (m', r2) := mstepP m 0 .alloc
        (.mpool m' s' zt, s!"{optCell zt r}{if r2 != r then " MISMATCH" else ""} {availBoth s'.pool m' 0}")
      | none => (st', "fault")
    | .mpool m s zt, ["f", k, off] =>
      match k.toNat?, off.toNat? with
      | some k, some off =>
        match cellAddr? zt k off with
        | some c =>
          match mstep s (.free c) with
          | some (s', _) =>
            let m' := (mstepP m 0 (.free c)).1
            (.mpool m' s' zt, availBoth s'.pool m' 0)
          | none => (st', "fault")
        | none => (st', "fault")
      | _, _ => bad
    | .mpool m s zt, ["in", k, off] =>
      match k.toNat?, off.toNat? with
      | some k, some off =>
        match cellAddr? zt k off with
        | some c =>
          let a := s.pool.inFreelist c
          let b := slistIn m 0 c (s.pool.free.length + 2)
          (st', (if a then "1" else "0") ++ (if a != b then " MISMATCH" else ""))
        | none => (st', "fault")
      | _, _ => bad
    | .heap cfg h ph slots fills ctr, ["m", k, n] =>
      match k.toNat?, n.toNat? with
      | some k, some n =>
        let r := mallocA BASE cfg h n
        -- a request whose rounding wraps, or that would move the break across the top of the address
        -- space, is refused before any pointer is touched
        let rp := if (n % cfg.W ≠ 0 ∧ n > SIZE_MAX - (cfg.W - n % cfg.W)) ∨ mallocRefusesA BASE cfg h n then (⟨ph, none⟩ : PRes)
          else mallocP cfg ph n (ph.brk + 1)
        let slots' := slotSet slots k r.ret
        -- the harness fills the new block with the next pattern
        let (fills', ctr') := match r.ret with
          | some _ => (fillSet fills k ctr n, ctr + 1)
          | none => (fills, ctr)
        (.heap cfg r.h rp.h slots' fills' ctr', heapLine (optS r.ret) r.h slots' ++ ptrAgree r.h rp.h r.ret rp.ret)
      | _, _ => bad
    | .heap cfg h ph slots fills ctr, ["f", k] =>
      match k.toNat? with
      | some k =>
        match slotGet slots k with
        | none => (st, heapLine "-" h slots)          -- free(NULL)
        | some p =>
          match free h p with
          | none => (st, "fault")
          | some r =>
            let rp := freeP ph p (ph.brk + 1)
            let slots' := slotSet slots k none
            (.heap cfg r.h rp.h slots' (fills.filter (·.1 ≠ k)) ctr, heapLine "-" r.h slots' ++ ptrAgree r.h rp.h none none)
      | none => bad
    | .heap cfg h ph slots fills ctr, ["r", k, n] =>
      match k.toNat?, n.toNat? with
      | some k, some n =>
        match reallocA BASE cfg h (slotGet slots k) n with
        | none => (st, "fault")
        | some r =>
          let len := minLen (roundLen cfg.W n)
          let refused : Bool := match slotGet slots k with
            | none => mallocRefusesA BASE cfg h len
            | some p => reallocWrapTest BASE p len || (reachesMove cfg h p len && mallocRefusesA BASE cfg h len)
          let rp := if (n % cfg.W ≠ 0 ∧ n > SIZE_MAX - (cfg.W - n % cfg.W)) ∨ refused then (⟨ph, none⟩ : PRes)
            else reallocP cfg ph (slotGet slots k) n (ph.brk + 1)
          -- a NULL result leaves the old block alive
          let slots' := match r.ret with
            | none => slots
            | some q => slotSet slots k (some q)
          -- CONTENTS: the model's stores (`memcpy` of the move path, header writes) executed on the old block's
          -- bytes; digest of the first min(old, new) bytes of the returned block (the harness prints the digest
          -- of the real bytes at that point, before it refills the block)
          let pre : String := match r.ret, slotGet slots k, fills.find? (·.1 = k) with
            | some q, some p, some (_, seed, oldn) =>
              let m' := execJ (fun _ => 0xAA) (patMem p oldn seed 0x55) r.evs
              s!" pre={prefixDigest m' q (min oldn n)}"
            | _, _, _ => ""
          let (fills', ctr') := match r.ret with
            | some _ => (fillSet fills k ctr n, ctr + 1)
            | none => (fills, ctr)
          (.heap cfg r.h rp.h slots' fills' ctr', heapLine (optS r.ret) r.h slots' ++ pre ++ ptrAgree r.h rp.h r.ret rp.ret)
      | _, _ => bad
    | _, _ => bad

def main : IO Unit := run St.idle stepLine
