import IgrisModel.C10.Model
open Igris.Proto Igris.C10

inductive St where
  | idle
  | pool (p : Pool) (m : Links) (head : Nat)   -- list model and the `next`-pointer model side by side
  | ipool (p : IPool)
  | sop (p : SOP)
  | heap (cfg : Cfg) (h : Heap) (slots : List (Nat × Nat))   -- slot ↦ payload offset

def optS : Option Nat → String
  | none => "null"
  | some n => toString n

def parsePtr? (s : String) : Option (Option Nat) :=
  if s = "null" then some none else s.toNat?.map some

def slotGet (slots : List (Nat × Nat)) (k : Nat) : Option Nat :=
  (slots.find? (·.1 = k)).map (·.2)

def slotSet (slots : List (Nat × Nat)) (k : Nat) (v : Option Nat) : List (Nat × Nat) :=
  let rest := slots.filter (·.1 ≠ k)
  match v with
  | none => rest
  | some p => (k, p) :: rest

def insertSorted (x : Nat × Nat) : List (Nat × Nat) → List (Nat × Nat)
  | [] => [x]
  | y :: r => if x.1 ≤ y.1 then x :: y :: r else y :: insertSorted x r

/-- `pool_avail` computed by walking the `next` pointers; must agree with the list model -/
def availBoth (p : Pool) (m : Links) (head : Nat) : String :=
  let a := slistSize m head (p.free.length + 2)
  if a = p.avail then toString a else s!"{a} MISMATCH {p.avail}"

def heapLine (ret : String) (h : Heap) (slots : List (Nat × Nat)) : String :=
  let fl := String.join (h.flp.map fun c => s!"({c.1},{c.2})")
  let sorted := slots.foldl (fun acc x => insertSorted x acc) []
  let lv := String.join (sorted.map fun (k, p) =>
    s!"{k}:{p}:{match lookup (p - 8) h.live with | some s => toString s | none => "?"} ")
  s!"ret={ret} brk={h.brk} fl={fl} live={lv.trimAscii}"

def stepLine (st : St) (line : String) : St × String :=
  let bad := (st, "bad-op")
  match words line with
  | ["consts"] => (st, "W=64 szt=8 fl=16 sl=8")
  | ["reset", "pool", e, n] =>
    match e.toNat?, n.toNat? with
    | some e, some n =>
      let p := Pool.init.engage (n * e) e
      let head := n * e + 8
      let m := engageLoopP e (n * e) head (n * e + 1) 0 (slistInit (fun _ => 0) head)
      (.pool p m head, s!"ok {availBoth p m head}")
    | _, _ => bad
  | ["reset", "ipool", e, n] =>
    match e.toNat?, n.toNat? with
    | some e, some n =>
      let p := IPool.init (n * e) e
      (.ipool p, s!"{p.cells} {p.room} {p.avail}")
    | _, _ => bad
  | ["reset", "sop", s, a, n] =>
    match s.toNat?, a.toNat?, n.toNat? with
    | some s, some a, some n =>
      let p := SOP.init s a n
      (.sop p, s!"{storageSize s a} {p.avail}")
    | _, _, _ => bad
  | "reset" :: "heap" :: l :: _ =>
    -- an optional 4th word selects the debug / release build of the C code: same model
    match l.toNat? with
    | some l => (.heap ⟨64, l⟩ Heap.init [], "ok")
    | none => bad
  | ws =>
    match st, ws with
    | .pool p m head, ["a"] =>
      let (r, p') := p.alloc
      let (r2, m') := poolAllocP m head
      (.pool p' m' head, s!"{optS r}{if r2 != r then " MISMATCH" else ""} {availBoth p' m' head}")
    | .pool p m head, ["f", c] =>
      match c.toNat? with
      | some c =>
        let p' := (p.release c).1
        let m' := slistAdd m c head
        (.pool p' m' head, s!"{availBoth p' m' head}")
      | none => bad
    | .pool p m head, ["in", c] =>
      match c.toNat? with
      | some c =>
        let a := p.inFreelist c
        let b := slistIn m head c (p.free.length + 2)
        (st, (if a then "1" else "0") ++ (if a != b then " MISMATCH" else ""))
      | none => bad
    | .ipool p, ["g"] =>
      let (r, p') := p.get
      (.ipool p', s!"{optS r} {p'.room} {p'.avail}")
    | .ipool p, ["p", c] =>
      match parsePtr? c with
      | some c =>
        match p.put c with
        | some (p', _) => (.ipool p', s!"{p'.room} {p'.avail}")
        | none => (st, "abort")
      | none => bad
    | .ipool p, ["ca", i] =>
      match i.toInt? with
      | some i => (st, if p.cellIsAllocated i then "1" else "0")
      | none => bad
    | .ipool p, ["it"] =>
      (st, "it:" ++ String.join (p.iterAll.map fun i => s!" {i}"))
    | .sop p, ["c"] =>
      let (r, p') := p.create
      (.sop p', s!"{optS r} {p'.avail} {p'.objs.length}{if p'.fault then " FAULT" else ""}")
    | .sop p, ["d", c] =>
      match c.toNat? with
      | some c =>
        let p' := p.destroy c
        (.sop p', s!"{p'.avail} {p'.objs.length}{if p'.fault then " FAULT" else ""}")
      | none => bad
    | .heap cfg h slots, ["m", k, n] =>
      match k.toNat?, n.toNat? with
      | some k, some n =>
        let r := malloc cfg h n
        let slots' := slotSet slots k r.ret
        (.heap cfg r.h slots', heapLine (optS r.ret) r.h slots')
      | _, _ => bad
    | .heap cfg h slots, ["f", k] =>
      match k.toNat? with
      | some k =>
        match slotGet slots k with
        | none => (st, heapLine "-" h slots)          -- free(NULL)
        | some p =>
          match free h p with
          | none => (st, "fault")
          | some r =>
            let slots' := slotSet slots k none
            (.heap cfg r.h slots', heapLine "-" r.h slots')
      | none => bad
    | .heap cfg h slots, ["r", k, n] =>
      match k.toNat?, n.toNat? with
      | some k, some n =>
        match realloc cfg h (slotGet slots k) n with
        | none => (st, "fault")
        | some r =>
          -- a NULL result leaves the old block alive
          let slots' := match r.ret with
            | none => slots
            | some q => slotSet slots k (some q)
          (.heap cfg r.h slots', heapLine (optS r.ret) r.h slots')
      | _, _ => bad
    | _, _ => bad

def main : IO Unit := run St.idle stepLine
