/-
  C01 — hlist HISTORIES: operation language, reference semantics on families of
  NULL-terminated chains, the family invariant, step refinement, enabledness.

  The abstract state: lists `(head, contents)` with distinct heads and pairwise
  disjoint contents, and the set `idle` of nodes whose `pprev` is NULL
  (`hlist_node_init`'ed and not linked since).  A node that is neither linked nor
  idle (never initialised, removed with `hlist_del` — which leaves `pprev` stale —,
  or orphaned by `hlist_head_init` of its list) has no constraint on its fields;
  the only calls admitted for it are `hlist_node_init` and `hlist_add_next`.
-/
import IgrisModel.C01.Ext3
namespace Igris.C01

inductive HOp
  | headInit (l : Nat)               -- hlist_head_init
  | nodeInit (n : Nat)               -- hlist_node_init
  | addNext (n : Nat) (loc : Loc)    -- hlist_add_next(n, &head->first) / (n, &p->next)
  | del (n : Nat)                    -- hlist_del

def hexec (h : HHeap) : HOp → HHeap
  | .headInit l => hlistHeadInit h l
  | .nodeInit n => hlistNodeInit h n
  | .addNext n loc => hlistAddNext h n loc
  | .del n => hlistDel h n

def hrun (h : HHeap) (ops : List HOp) : HHeap := ops.foldl hexec h

structure HFam where
  lists : List (Nat × List Nat)
  idle : List Nat

/-- the node is an element of some list of the family -/
def HLinked (L : List (Nat × List Nat)) (n : Nat) : Prop := ∃ p ∈ L, n ∈ p.2

/-- FAMILY INVARIANT: every list is a chain from `head->first` to NULL in which every
`pprev` is the location that points at its node; heads are distinct, contents pairwise
disjoint; every idle node has `pprev == NULL` and is in no list -/
structure HFamOK (h : HHeap) (F : HFam) : Prop where
  list : ∀ p ∈ F.lists, HList h p.1 p.2
  heads : F.lists.Pairwise (fun p q => p.1 ≠ q.1)
  disj : F.lists.Pairwise (fun p q => Disj p.2 q.2)
  idle : ∀ n ∈ F.idle, h.pprev n = none ∧ ¬ HLinked F.lists n

theorem HLinked.perm {L L' : List (Nat × List Nat)} {n : Nat} (p : L.Perm L') : HLinked L n ↔ HLinked L' n :=
  ⟨fun ⟨q, hq, hn⟩ => ⟨q, p.mem_iff.mp hq, hn⟩, fun ⟨q, hq, hn⟩ => ⟨q, p.mem_iff.mpr hq, hn⟩⟩

theorem HFamOK.perm {h : HHeap} {F : HFam} {L' : List (Nat × List Nat)} (ok : HFamOK h F) (p : F.lists.Perm L') :
    HFamOK h ⟨L', F.idle⟩ :=
  ⟨fun q hq => ok.list q (p.mem_iff.mpr hq),
   (p.pairwise_iff (fun hrs => Ne.symm hrs)).mp ok.heads,
   (p.pairwise_iff (fun hrs => Disj.symm hrs)).mp ok.disj,
   fun n hn => ⟨(ok.idle n hn).1, fun hl => (ok.idle n hn).2 ((HLinked.perm p).mpr hl)⟩⟩

theorem HList.frame {h h' : HHeap} {l : Nat} {xs : List Nat} (r : HList h l xs)
    (e0 : h'.read (.headFirst l) = h.read (.headFirst l))
    (e1 : ∀ x ∈ xs, h'.read (.nodeNext x) = h.read (.nodeNext x))
    (e2 : ∀ x ∈ xs, h'.pprev x = h.pprev x) : HList h' l xs :=
  ⟨r.nodup, (HChain_congr h h' xs _ none e0 e1 e2).mpr r.chain⟩

/-- the location a chain starts in holds its first node (NULL when it is empty) -/
theorem HChain_read (h : HHeap) (loc : Loc) (xs : List Nat) (hc : HChain h loc xs none) :
    h.read loc = xs.head? := by
  cases xs with
  | nil => simpa [HChain] using hc
  | cons x xs => simp only [HChain] at hc; simp [hc.1]

theorem HFamOK.replaceHead {h h' : HHeap} {l : Nat} {xs xs' : List Nat} {B : List (Nat × List Nat)}
    {I I' : List Nat} (ok : HFamOK h ⟨(l, xs) :: B, I⟩) (r' : HList h' l xs')
    (hB : ∀ q ∈ B, HList h' q.1 q.2) (d' : ∀ q ∈ B, Disj xs' q.2)
    (hI : ∀ m ∈ I', h'.pprev m = none ∧ m ∉ xs' ∧ ∀ q ∈ B, m ∉ q.2) : HFamOK h' ⟨(l, xs') :: B, I'⟩ := by
  refine ⟨?_, ?_, ?_, ?_⟩
  · intro q hq
    rcases List.mem_cons.mp hq with rfl | hq
    · exact r'
    · exact hB q hq
  · exact List.pairwise_cons.mpr ⟨(List.pairwise_cons.mp ok.heads).1, (List.pairwise_cons.mp ok.heads).2⟩
  · exact List.pairwise_cons.mpr ⟨d', (List.pairwise_cons.mp ok.disj).2⟩
  · intro m hm
    obtain ⟨h1, h2, h3⟩ := hI m hm
    refine ⟨h1, ?_⟩
    rintro ⟨q, hq, hmq⟩
    rcases List.mem_cons.mp hq with rfl | hq
    · exact h2 hmq
    · exact h3 q hq hmq

/-! ### reference semantics -/

/-- REFERENCE SEMANTICS of the hlist operations -/
inductive HStep : HFam → HOp → HFam → Prop
  -- `hlist_head_init` of a new head: a new empty list; of an existing head: the list is emptied
  -- (its old elements are in no list afterwards and their `pprev` is stale)
  | headInitNew {F l} : (∀ p ∈ F.lists, p.1 ≠ l) → HStep F (.headInit l) ⟨(l, []) :: F.lists, F.idle⟩
  | headInit {F l xs B} : F.lists.Perm ((l, xs) :: B) → HStep F (.headInit l) ⟨(l, []) :: B, F.idle⟩
  -- `hlist_node_init` of a node that is not linked: it becomes idle
  | nodeInit {F n} : ¬ HLinked F.lists n → HStep F (.nodeInit n) ⟨F.lists, n :: F.idle⟩
  -- `hlist_add_next(n, &head->first)`: push front; `(n, &p->next)`: insert right after `p`
  | addFirst {F n l xs B} : F.lists.Perm ((l, xs) :: B) → ¬ HLinked F.lists n →
      HStep F (.addNext n (.headFirst l)) ⟨(l, n :: xs) :: B, F.idle.filter (fun m => decide (m ≠ n))⟩
  | addAfter {F n l p pre post B} : F.lists.Perm ((l, pre ++ p :: post) :: B) → ¬ HLinked F.lists n →
      HStep F (.addNext n (.nodeNext p)) ⟨(l, pre ++ p :: n :: post) :: B, F.idle.filter (fun m => decide (m ≠ n))⟩
  -- `hlist_del` of an element: it leaves its list (and is NOT idle: `pprev` is not reset);
  -- of an idle node: nothing happens
  | del {F n l pre post B} : F.lists.Perm ((l, pre ++ n :: post) :: B) → HStep F (.del n) ⟨(l, pre ++ post) :: B, F.idle⟩
  | delIdle {F n} : n ∈ F.idle → HStep F (.del n) F

inductive HRun : HFam → List HOp → HFam → Prop
  | nil (F) : HRun F [] F
  | cons {F G H op ops} : HStep F op G → HRun G ops H → HRun F (op :: ops) H

/-- what an insertion at location `L` (a location of a list whose nodes are `members`)
leaves untouched: every other list, and the `pprev` of every node outside `members` -/
theorem hadd_others {h : HHeap} {n : Nat} {L : Loc} {B : List (Nat × List Nat)} {members : List Nat}
    (hB : ∀ q ∈ B, HList h q.1 q.2) (hL : L ≠ .nodeNext n) (hnB : ∀ q ∈ B, n ∉ q.2)
    (h1 : ∀ q ∈ B, L ≠ .headFirst q.1) (h2 : ∀ q ∈ B, ∀ y ∈ q.2, L ≠ .nodeNext y)
    (h3 : ∀ y, h.read L = some y → y ∈ members) (dB : ∀ q ∈ B, Disj members q.2) :
    (∀ q ∈ B, HList (hlistAddNext h n L) q.1 q.2) ∧
    (∀ m, m ≠ n → m ∉ members → (hlistAddNext h n L).pprev m = h.pprev m) := by
  refine ⟨fun q hq => hlist_frame_add L (hB q hq) hL (hnB q hq) (h1 q hq) (h2 q hq)
    (fun y hy e => dB q hq y (h3 y e) hy), ?_⟩
  intro m hm hmem
  exact (hlistAddNext_frame h n L hL).2.2.2.1 m hm (fun e => hmem (h3 m e))

theorem HFamOK.parts {h : HHeap} {l : Nat} {xs : List Nat} {B : List (Nat × List Nat)} {I : List Nat}
    (ok : HFamOK h ⟨(l, xs) :: B, I⟩) :
    HList h l xs ∧ (∀ q ∈ B, HList h q.1 q.2) ∧ (∀ q ∈ B, l ≠ q.1) ∧ (∀ q ∈ B, Disj xs q.2) :=
  ⟨ok.list (l, xs) (by simp), fun q hq => ok.list q (by simp [hq]),
   (List.pairwise_cons.mp ok.heads).1, (List.pairwise_cons.mp ok.disj).1⟩

theorem not_linked_cons {l : Nat} {xs : List Nat} {B : List (Nat × List Nat)} {n : Nat}
    (hn : ¬ HLinked ((l, xs) :: B) n) : n ∉ xs ∧ ∀ q ∈ B, n ∉ q.2 :=
  ⟨fun hm => hn ⟨(l, xs), by simp, hm⟩, fun q hq hm => hn ⟨q, by simp [hq], hm⟩⟩

/-- STEP REFINEMENT for hlists -/
theorem hstep_refines {h : HHeap} {F F' : HFam} {op : HOp} (ok : HFamOK h F) (st : HStep F op F') :
    HFamOK (hexec h op) F' := by
  cases st with
  | @headInitNew l hnew =>
    have hfr : ∀ q ∈ F.lists, HList (hlistHeadInit h l) q.1 q.2 := by
      intro q hq
      refine (ok.list q hq).frame ?_ ?_ ?_
      · have : Loc.headFirst q.1 ≠ Loc.headFirst l := by intro e; injection e with e; exact hnew q hq e
        simp [hlistHeadInit, this]
      · intro x _; simp [hlistHeadInit]
      · intro x _; simp [hlistHeadInit]
    refine ⟨?_, List.pairwise_cons.mpr ⟨fun q hq => (hnew q hq).symm, ok.heads⟩,
      List.pairwise_cons.mpr ⟨fun q _ y hy => by simp at hy, ok.disj⟩, ?_⟩
    · intro q hq
      rcases List.mem_cons.mp hq with rfl | hq
      · exact ⟨by simp, by simp [hexec, HChain, hlistHeadInit]⟩
      · exact hfr q hq
    · intro m hm
      refine ⟨by simpa [hexec, hlistHeadInit] using (ok.idle m hm).1, ?_⟩
      rintro ⟨q, hq, hmq⟩
      rcases List.mem_cons.mp hq with rfl | hq
      · simp at hmq
      · exact (ok.idle m hm).2 ⟨q, hq, hmq⟩
  | @headInit l xs B p =>
    have ok' := ok.perm p
    obtain ⟨_, hB, hh, _⟩ := ok'.parts
    refine ok'.replaceHead (xs' := []) ⟨by simp, by simp [hexec, HChain, hlistHeadInit]⟩ ?_
      (fun q _ y hy => by simp at hy) ?_
    · intro q hq
      refine (hB q hq).frame ?_ ?_ ?_
      · have : Loc.headFirst q.1 ≠ Loc.headFirst l := by intro e; injection e with e; exact hh q hq e.symm
        simp [hexec, hlistHeadInit, this]
      · intro x _; simp [hexec, hlistHeadInit]
      · intro x _; simp [hexec, hlistHeadInit]
    · intro m hm
      have := ok'.idle m hm
      refine ⟨by simpa [hexec, hlistHeadInit] using this.1, by simp, (not_linked_cons this.2).2⟩
  | @nodeInit n hn =>
    refine ⟨?_, ok.heads, ok.disj, ?_⟩
    · intro q hq
      refine (ok.list q hq).frame (by simp [hexec, hlistNodeInit]) (fun x _ => by simp [hexec, hlistNodeInit]) ?_
      intro x hx
      have : x ≠ n := fun e => hn ⟨q, hq, e ▸ hx⟩
      simp [hexec, hlistNodeInit, this]
    · intro m hm
      rcases List.mem_cons.mp hm with rfl | hm
      · exact ⟨by simp [hexec, hlistNodeInit], hn⟩
      · refine ⟨?_, (ok.idle m hm).2⟩
        by_cases e : m = n
        · simp [hexec, hlistNodeInit, e]
        · simpa [hexec, hlistNodeInit, e] using (ok.idle m hm).1
  | @addFirst n l xs B p hn =>
    have ok' := ok.perm p
    obtain ⟨r, hB, hh, dd⟩ := ok'.parts
    obtain ⟨hnx, hnB⟩ := not_linked_cons (fun hl => hn ((HLinked.perm p).mpr hl))
    have hrd := HChain_read h _ xs r.chain
    have h3 : ∀ y, h.read (.headFirst l) = some y → y ∈ xs := by
      intro y e; rw [hrd] at e; exact List.mem_of_mem_head? e
    obtain ⟨o1, o2⟩ := hadd_others (n := n) (L := .headFirst l) (members := xs) hB (by simp) hnB
      (fun q hq e => by injection e with e; exact hh q hq e) (fun q _ y _ => by simp) h3 dd
    refine ok'.replaceHead (hlist_add_front r hnx) o1 ?_ ?_
    · intro q hq y hy
      rcases List.mem_cons.mp hy with rfl | hy
      · exact hnB q hq
      · exact dd q hq y hy
    · intro m hm
      simp only [List.mem_filter, decide_eq_true_eq] at hm
      have := ok'.idle m hm.1
      obtain ⟨m1, m2⟩ := not_linked_cons this.2
      refine ⟨?_, by simp [hm.2, m1], m2⟩
      simp only [hexec]; rw [o2 m hm.2 m1]; exact this.1
  | @addAfter n l p' pre post B p hn =>
    have ok' := ok.perm p
    obtain ⟨r, hB, hh, dd⟩ := ok'.parts
    obtain ⟨hnx, hnB⟩ := not_linked_cons (fun hl => hn ((HLinked.perm p).mpr hl))
    obtain ⟨_, _, c3⟩ := (HChain_append_cons h pre (.headFirst l) p' post none).mp r.chain
    have hrd := HChain_read h _ post c3
    have h3 : ∀ y, h.read (.nodeNext p') = some y → y ∈ pre ++ p' :: post := by
      intro y e; rw [hrd] at e; simp [List.mem_of_mem_head? e]
    have hpn : p' ≠ n := fun e => hnx (by simp [e])
    obtain ⟨o1, o2⟩ := hadd_others (n := n) (L := .nodeNext p') (members := pre ++ p' :: post) hB
      (by intro e; injection e with e; exact hpn e) hnB (fun q _ => by simp)
      (fun q hq y hy e => by injection e with e; subst e; exact dd q hq p' (by simp) hy) h3 dd
    refine ok'.replaceHead (hlist_add_after r hnx) o1 ?_ ?_
    · intro q hq y hy
      by_cases e : y = n
      · subst e; exact hnB q hq
      · apply dd q hq y
        simp only [List.mem_append, List.mem_cons] at hy ⊢
        rcases hy with h1 | h1 | h1 | h1
        · exact Or.inl h1
        · exact Or.inr (Or.inl h1)
        · exact absurd h1 e
        · exact Or.inr (Or.inr h1)
    · intro m hm
      simp only [List.mem_filter, decide_eq_true_eq] at hm
      have := ok'.idle m hm.1
      obtain ⟨m1, m2⟩ := not_linked_cons this.2
      refine ⟨?_, ?_, m2⟩
      · simp only [hexec]; rw [o2 m hm.2 m1]; exact this.1
      · simp only [List.mem_append, List.mem_cons, not_or] at m1 ⊢
        exact ⟨m1.1, m1.2.1, hm.2, m1.2.2⟩
  | @del n l pre post B p =>
    have ok' := ok.perm p
    obtain ⟨r, hB, hh, dd⟩ := ok'.parts
    obtain ⟨c1, c2, c3⟩ := (HChain_append_cons h pre (.headFirst l) n post none).mp r.chain
    have hrd := HChain_read h _ post c3
    refine ok'.replaceHead (hlist_del_member r) ?_ ?_ ?_
    · intro q hq
      exact hlist_frame_del r (hB q hq) (hh q hq) (fun y hy hm => dd q hq y hm hy)
    · intro q hq y hy
      apply dd q hq y
      simp only [List.mem_append, List.mem_cons] at hy ⊢
      rcases hy with h1 | h1
      · exact Or.inl h1
      · exact Or.inr (Or.inr h1)
    · intro m hm
      have := ok'.idle m hm
      obtain ⟨m1, m2⟩ := not_linked_cons this.2
      refine ⟨?_, ?_, m2⟩
      · simp only [hexec]
        rw [(hlistDel_frame h n _ c2).2.2.1 m ?_]; exact this.1
        rw [hrd]; intro e; exact m1 (by simp [List.mem_of_mem_head? e])
      · simp only [List.mem_append, List.mem_cons, not_or] at m1 ⊢
        exact ⟨m1.1, m1.2.2⟩
  | @delIdle n hn =>
    simp only [hexec, hlist_del_unlinked h n (ok.idle n hn).1]; exact ok

theorem hrun_refines {h : HHeap} {F F' : HFam} {ops : List HOp} (ok : HFamOK h F) (r : HRun F ops F') :
    HFamOK (hrun h ops) F' := by
  induction r generalizing h with
  | nil => exact ok
  | cons st _ ih => exact ih (hstep_refines ok st)

/-! ### enabledness -/

/-- ADMITTED CALLS, stated on the family alone:
* `hlist_head_init(l)`: always;
* `hlist_node_init(n)`: `n` is not linked;
* `hlist_add_next(n, loc)`: `n` is not linked; `loc` is `&head->first` of a head of the family
  or `&p->next` of a linked node `p`;
* `hlist_del(n)`: `n` is linked, or idle (`pprev == NULL`). -/
def HAdmitted (F : HFam) : HOp → Prop
  | .headInit _ => True
  | .nodeInit n => ¬ HLinked F.lists n
  | .addNext n (.headFirst l) => ¬ HLinked F.lists n ∧ ∃ p ∈ F.lists, p.1 = l
  | .addNext n (.nodeNext p) => ¬ HLinked F.lists n ∧ HLinked F.lists p
  | .del n => HLinked F.lists n ∨ n ∈ F.idle

instance (L : List (Nat × List Nat)) (n : Nat) : Decidable (HLinked L n) := by unfold HLinked; infer_instance
instance (F : HFam) (op : HOp) : Decidable (HAdmitted F op) := by
  cases op with
  | addNext n loc => cases loc <;> unfold HAdmitted <;> infer_instance
  | _ => unfold HAdmitted <;> infer_instance

theorem hadmitted_iff (F : HFam) (op : HOp) : HAdmitted F op ↔ ∃ F', HStep F op F' := by
  constructor
  · intro ad
    cases op with
    | headInit l =>
      by_cases e : ∃ p ∈ F.lists, p.1 = l
      · obtain ⟨⟨l', xs⟩, hp, rfl⟩ := e
        exact ⟨_, .headInit (List.perm_cons_erase hp)⟩
      · exact ⟨_, .headInitNew (fun p hp e' => e ⟨p, hp, e'⟩)⟩
    | nodeInit n => exact ⟨_, .nodeInit ad⟩
    | addNext n loc =>
      cases loc with
      | headFirst l =>
        obtain ⟨hn, ⟨l', xs⟩, hp, rfl⟩ := ad
        exact ⟨_, .addFirst (List.perm_cons_erase hp) hn⟩
      | nodeNext p =>
        obtain ⟨hn, ⟨l, xs⟩, hq, hp⟩ := ad
        obtain ⟨pre, post, rfl⟩ := List.append_of_mem hp
        exact ⟨_, .addAfter (List.perm_cons_erase hq) hn⟩
    | del n =>
      rcases ad with ⟨⟨l, xs⟩, hq, hp⟩ | hi
      · obtain ⟨pre, post, rfl⟩ := List.append_of_mem hp
        exact ⟨_, .del (List.perm_cons_erase hq)⟩
      · exact ⟨_, .delIdle hi⟩
  · rintro ⟨F', st⟩
    cases st with
    | headInitNew _ => trivial
    | headInit _ => trivial
    | nodeInit hn => exact hn
    | @addFirst n l xs B p hn => exact ⟨hn, (l, xs), p.mem_iff.mpr (by simp), rfl⟩
    | @addAfter n l p' pre post B p hn => exact ⟨hn, (l, pre ++ p' :: post), p.mem_iff.mpr (by simp), by simp⟩
    | @del n l pre post B p => exact Or.inl ⟨(l, pre ++ n :: post), p.mem_iff.mpr (by simp), by simp⟩
    | delIdle hi => exact Or.inr hi

end Igris.C01
