/-
  C01 — extension round 3b: the repaired `dlist_is_correct` accepts exactly the well-formed rings
  (`isCorrectWalk_iff`), the closed-form ring `ringHeap n` is a ring.
-/
import IgrisModel.C01.Ext5
namespace Igris.C01

theorem iterN_succ' (f : Nat → Nat) : ∀ (n a : Nat), iterN f (n + 1) a = f (iterN f n a) := by
  intro n
  induction n with
  | zero => intro a; rfl
  | succ n ih => intro a; simp only [iterN] at ih ⊢; exact ih (f a)

/-- when every node of the orbit `a, f a, …` up to index `k` is pointed back at by its successor and the
orbit does not come back to `a` before index `k + 1`, its first `k + 1` nodes are pairwise different -/
theorem orbit_inj (nx pv : Nat → Nat) (a k : Nat)
    (hb : ∀ j, j ≤ k → pv (nx (iterN nx j a)) = iterN nx j a)
    (hne : ∀ j, j < k → iterN nx (j + 1) a ≠ a) :
    ∀ i j, i < j → j ≤ k → iterN nx i a ≠ iterN nx j a := by
  intro i
  induction i with
  | zero =>
    intro j hij hjk
    cases j with
    | zero => omega
    | succ j => exact fun e => hne j (by omega) e.symm
  | succ i ih =>
    intro j hij hjk e
    cases j with
    | zero => omega
    | succ j =>
      rw [iterN_succ', iterN_succ'] at e
      have e2 := congrArg pv e
      rw [hb i (by omega), hb j (by omega)] at e2
      exact ih j (by omega) (by omega) e2

/-- a closed `next` path from `a` back to `a` that meets `a` only at its ends and on which every node is
pointed back at by its successor is a ring: the nodes are pairwise different -/
theorem isRing_of_seg_back {h : Heap} {a : Nat} {ys : List Nat} (hs : Seg h.next a ys a) (hnot : a ∉ ys)
    (hb : ∀ y ∈ a :: ys, h.prev (h.next y) = y) : IsRing h a ys := by
  have el : ∀ k (hk : k < ys.length), iterN h.next (k + 1) a = ys[k] := iterN_seg h.next ys a a hs
  have hb' : ∀ j, j ≤ ys.length → h.prev (h.next (iterN h.next j a)) = iterN h.next j a := by
    intro j hj
    cases j with
    | zero => exact hb a (by simp)
    | succ j => rw [el j (by omega)]; exact hb _ (List.mem_cons_of_mem _ (List.getElem_mem _))
  have hne : ∀ j, j < ys.length → iterN h.next (j + 1) a ≠ a := by
    intro j hj e
    rw [el j hj] at e
    exact hnot (e ▸ List.getElem_mem _)
  have inj := orbit_inj h.next h.prev a ys.length hb' hne
  refine ⟨List.nodup_cons.mpr ⟨hnot, ?_⟩, hs, hb⟩
  rw [List.Nodup, List.pairwise_iff_getElem]
  intro i j hi hj hij
  rw [← el i hi, ← el j hj]
  exact inj (i + 1) (j + 1) (by omega) (by omega)

theorem isCorrectWalk_true (h : Heap) (head : Nat) : ∀ (count it : Nat), isCorrectWalk h head count it = true →
    ∃ ys, ys.length < count ∧ Seg h.next it ys head ∧ head ∉ ys ∧ ∀ y ∈ it :: ys, h.prev (h.next y) = y := by
  intro count
  induction count with
  | zero => intro it hw; simp [isCorrectWalk] at hw
  | succ c ih =>
    intro it hw
    unfold isCorrectWalk at hw
    by_cases hb : h.prev (h.next it) = it
    · by_cases hn : h.next it = head
      · exact ⟨[], by simp, by simpa [Seg] using hn, by simp, by simpa using hb⟩
      · simp [hb, hn] at hw
        obtain ⟨ys, hl, hs, hnot, hbk⟩ := ih _ hw
        refine ⟨h.next it :: ys, by simp; omega, ⟨rfl, hs⟩, ?_, ?_⟩
        · simp only [List.mem_cons, not_or]
          exact ⟨fun e => hn e.symm, hnot⟩
        · intro y hy
          simp only [List.mem_cons] at hy
          rcases hy with rfl | hy
          · exact hb
          · exact hbk y (by simpa using hy)
    · simp [hb] at hw

theorem isCorrectWalk_of_seg (h : Heap) (head : Nat) : ∀ (ys : List Nat) (count it : Nat), ys.length < count →
    Seg h.next it ys head → head ∉ ys → (∀ y ∈ it :: ys, h.prev (h.next y) = y) →
    isCorrectWalk h head count it = true := by
  intro ys
  induction ys with
  | nil =>
    intro count it hl hs _ hb
    cases count with
    | zero => simp at hl
    | succ c =>
      simp only [Seg] at hs
      have := hb it (by simp)
      unfold isCorrectWalk
      simp [hs]
      rw [← hs]; exact this
  | cons x xs ih =>
    intro count it hl hs hnot hb
    cases count with
    | zero => simp at hl
    | succ c =>
      simp only [Seg] at hs
      have b0 := hb it (by simp)
      have hx : x ≠ head := fun e => hnot (by simp [e])
      unfold isCorrectWalk
      rw [hs.1] at b0
      simp only [hs.1, b0, bne_self_eq_false, Bool.false_eq_true, if_false, beq_iff_eq, hx]
      exact ih c x (by simp at hl; omega) hs.2 (fun hm => hnot (by simp [hm]))
        (fun y hy => hb y (List.mem_cons_of_mem _ hy))

/-- THE REPAIRED WALK ACCEPTS EXACTLY THE WELL-FORMED RINGS of fewer than `count` elements besides the head -/
theorem isCorrectWalk_iff (h : Heap) (hd count : Nat) :
    isCorrectWalk h hd count hd = true ↔ ∃ xs, xs.length < count ∧ IsRing h hd xs := by
  constructor
  · intro hw
    obtain ⟨ys, hl, hs, hnot, hb⟩ := isCorrectWalk_true h hd count hd hw
    exact ⟨ys, hl, isRing_of_seg_back hs hnot hb⟩
  · rintro ⟨xs, hl, r⟩
    exact isCorrectWalk_of_seg h hd xs count hd hl r.fwd (List.nodup_cons.mp r.nodup).1 r.back

/-- a closed path of length `l.length + 1` -/
theorem iterN_seg_end (nx : Nat → Nat) (l : List Nat) (a : Nat) (hs : Seg nx a l a) :
    iterN nx (l.length + 1) a = a := by
  cases l with
  | nil => simpa [iterN, Seg] using hs
  | cons x xs =>
    have hlast := Seg_last nx a (x :: xs) a hs
    have : Seg nx a ((x :: xs) ++ [a]) (nx a) := by
      rw [Seg_append]; exact ⟨hs, rfl⟩
    have e := iterN_seg nx ((x :: xs) ++ [a]) a (nx a) this (x :: xs).length (by simp)
    simpa using e

/-- the elements of a ring are determined by the heap: two rings through `hd` have the same length -/
theorem IsRing.length_unique {h : Heap} {hd : Nat} {xs ys : List Nat} (r : IsRing h hd xs) (s : IsRing h hd ys) :
    xs.length = ys.length := by
  have key : ∀ {xs ys : List Nat}, IsRing h hd xs → IsRing h hd ys → ¬ xs.length < ys.length := by
    intro xs ys r s hlt
    have e := iterN_seg_end h.next xs hd r.fwd
    have e2 := iterN_seg h.next ys hd hd s.fwd xs.length hlt
    rw [e] at e2
    exact (List.nodup_cons.mp s.nodup).1 (e2 ▸ List.getElem_mem hlt)
  have a := key r s
  have b := key s r
  omega

/-! ### the closed-form ring of the driver is a ring -/

theorem ringHeap_seg (n : Nat) : ∀ (m a : Nat), a + m < n →
    Seg (ringHeap n).next a (List.range' (a + 1) m) (if a + m + 1 < n then a + m + 1 else 0) := by
  intro m
  induction m with
  | zero =>
    intro a ha
    have : a < n := by omega
    simp [Seg, ringHeap, this]
  | succ m ih =>
    intro a ha
    have h1 : a < n := by omega
    have h2 : a + 1 < n := by omega
    have := ih (a + 1) (by omega)
    simp only [List.range'_succ, Seg]
    refine ⟨by simp [ringHeap, h1, h2], ?_⟩
    have e : a + 1 + m + 1 = a + (m + 1) + 1 := by omega
    rw [e] at this
    exact this

/-- `ringHeap n` (what `reset R n` builds: head 0, elements 1 … n-1 in this order) IS a well-formed ring -/
theorem ringHeap_isRing (n : Nat) (hn : 0 < n) : IsRing (ringHeap n) 0 (List.range' 1 (n - 1)) := by
  have hs := ringHeap_seg n (n - 1) 0 (by omega)
  have e : (if 0 + (n - 1) + 1 < n then 0 + (n - 1) + 1 else 0) = 0 := by
    have : ¬ (0 + (n - 1) + 1 < n) := by omega
    rw [if_neg this]
  rw [e] at hs
  apply isRing_of_seg_back (by simpa using hs)
  · simp only [List.mem_range'_1]; omega
  · intro y hy
    have hy' : y < n := by
      simp only [List.mem_cons, List.mem_range'_1] at hy
      omega
    by_cases h1 : y + 1 < n
    · have h3 : ¬ (y + 1 = 0) := by omega
      simp [ringHeap, hy', h1, h3]
    · have h4 : y = n - 1 := by omega
      simp [ringHeap, hy', h1, hn]
      omega

/-! ### `unlink()` is idempotent on every heap -/

theorem nodeUnlink_next_self (h : Heap) (a : Nat) : (nodeUnlink h a).next a = a := by
  unfold nodeUnlink
  by_cases e : h.next a = a <;> simp [e, Heap.setNext, Heap.setPrev]

theorem nodeUnlink_idem (h : Heap) (a : Nat) : nodeUnlink (nodeUnlink h a) a = nodeUnlink h a := by
  have e := nodeUnlink_next_self h a
  generalize nodeUnlink h a = g at e
  unfold nodeUnlink
  simp [e]

/-! ### every well-formed family of non-empty rings is realised by a heap (built with `dlist_init` + `dlist_add_prev`) -/

theorem realise_ring_tail {a : Nat} {B : Rings} : ∀ (xs ys : List Nat) (h : Heap),
    RingsOK h ((a :: ys) :: B) → (a :: (ys ++ xs)).Nodup → (∀ x ∈ xs, ∀ s ∈ B, x ∉ s) →
    ∃ h', RingsOK h' ((a :: (ys ++ xs)) :: B) := by
  intro xs
  induction xs with
  | nil => intro ys h ok _ _; exact ⟨h, by simpa using ok⟩
  | cons x xs ih =>
    intro ys h ok nd hB
    have nd' : ((a :: ys) ++ x :: xs).Nodup := nd
    have hf : Free ((a :: ys) :: B) x := by
      intro s hs
      simp only [List.mem_cons] at hs
      rcases hs with rfl | hs
      · intro hx
        exact (List.nodup_append.mp nd').2.2 x hx x (by simp) rfl
      · exact hB x (by simp) s hs
    have ok' := step_refines_c ok (AStep.caddPrevFree (.refl _) hf)
    obtain ⟨h', ok''⟩ := ih (ys ++ [x]) _ ok' (by simpa [List.append_assoc] using nd)
      (fun x' hx' => hB x' (by simp [hx']))
    exact ⟨h', by simpa [List.append_assoc] using ok''⟩

theorem wf_realised : ∀ (A : Rings), RingsWF A → (∀ r ∈ A, r ≠ []) → ∃ h, RingsOK h A := by
  intro A
  induction A with
  | nil => intro _ _; exact ⟨⟨id, id⟩, ⟨by simp, List.Pairwise.nil⟩⟩
  | cons r B ih =>
    intro wf ne
    obtain ⟨hd, hB⟩ := List.pairwise_cons.mp wf.disj
    obtain ⟨h, ok⟩ := ih ⟨fun s hs => wf.nodup s (List.mem_cons_of_mem _ hs), hB⟩
      (fun s hs => ne s (List.mem_cons_of_mem _ hs))
    cases r with
    | nil => exact absurd rfl (ne [] (by simp))
    | cons a xs =>
      have hfa : Free B a := fun s hs => hd s hs a (by simp)
      have ok1 : RingsOK (dlistInit h a) ([a] :: B) := ok.initFree hfa
      have nd := wf.nodup (a :: xs) (by simp)
      obtain ⟨h', ok'⟩ := realise_ring_tail xs [] _ ok1 (by simpa using nd)
        (fun x hx s hs => hd s hs x (by simp [hx]))
      exact ⟨h', by simpa using ok'⟩

end Igris.C01
