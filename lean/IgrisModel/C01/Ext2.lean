/-
  C01 extension, part 2 — loops that delete the current element, the frame property over
  histories, C++ size()/is_correct(), slist queries and frames.
-/
import IgrisModel.C01.Ext
import IgrisModel.C01.More
namespace Igris.C01

/-! ## `_safe` loops: the body may delete the current element -/

/-- on a node that is in a ring the body is "delete it (re-initialising) iff `del`" -/
def DelBody (del : Nat → Bool) (body : Heap → Nat → Heap) : Prop :=
  ∀ (h : Heap) (a : Nat) (xs : List Nat), IsRing h a xs → body h a = if del a then dlistDelInit h a else h

theorem RingsOK.delInit' {h : Heap} {a : Nat} {l : List Nat} {B : Rings}
    (ok : RingsOK h ((a :: l) :: B)) : RingsOK (dlistDelInit h a) ([a] :: (if l = [] then B else l :: B)) := by
  cases l with
  | nil => simpa using ok.delInit_single
  | cons x xs => simpa using ok.delInit

theorem seg_next_headD {nx : Nat → Nat} {y : Nat} {ys : List Nat} {hd : Nat} (hs : Seg nx y ys hd) :
    nx y = ys.headD hd := by
  cases ys with
  | nil => simpa [Seg] using hs
  | cons z zs => simp only [Seg] at hs; simpa using hs.1

theorem forEachSafe_del (del : Nat → Bool) (body : Heap → Nat → Heap) (hb : DelBody del body) (hd : Nat) :
    ∀ (ys ks : List Nat) (B : Rings) (h : Heap) (fuel : Nat),
      RingsOK h ((hd :: (ks ++ ys)) :: B) → ys.length < fuel →
      (forEachSafe body hd fuel h (ys.headD hd) (h.next (ys.headD hd))).2 = ys ∧
      RingsOK (forEachSafe body hd fuel h (ys.headD hd) (h.next (ys.headD hd))).1
        ((hd :: (ks ++ ys.filter (fun x => !del x))) :: ((ys.filter del).map fun x => [x]) ++ B) := by
  intro ys
  induction ys with
  | nil =>
    intro ks B h fuel ok hf
    match fuel, hf with
    | f + 1, _ => simpa [forEachSafe] using ok
  | cons y ys ih =>
    intro ks B h fuel ok hf
    obtain ⟨⟨a', xs', e, r⟩, _, _⟩ := ok.head
    injection e with e1 e2; subst e1; subst e2
    have hnd := r.nodup
    have hyhd : y ≠ hd := by
      intro e; subst e
      exact (List.nodup_cons.mp hnd).1 (by simp)
    have hseg := (Seg_append h.next hd ks y ys hd).mp r.fwd
    have hny : h.next y = ys.headD hd := seg_next_headD hseg.2
    -- the ring read from y
    have ry : IsRing h y (ys ++ hd :: ks) := IsRing.rotN (hd :: ks) r (by simp)
    match fuel, hf with
    | f + 1, hf =>
      have hf' : ys.length < f := by simpa using hf
      simp only [List.headD_cons, forEachSafe, hyhd, if_false]
      rw [hb h y _ ry, hny]
      cases hdel : del y with
      | false =>
        simp only [Bool.false_eq_true, if_false]
        have ok' : RingsOK h ((hd :: ((ks ++ [y]) ++ ys)) :: B) := by simpa using ok
        obtain ⟨i1, i2⟩ := ih (ks ++ [y]) B h f ok' hf'
        refine ⟨by rw [i1], ?_⟩
        simpa [List.filter_cons, hdel] using i2
      | true =>
        simp only [if_true]
        have okr : RingsOK h ((y :: (ys ++ hd :: ks)) :: B) := by
          have : RingsOK h (((hd :: ks) ++ y :: ys) :: B) := by simpa using ok
          exact this.rotN
        have okd := okr.delInit'
        have hne : (ys ++ hd :: ks) ≠ [] := by simp
        simp only [hne, if_false] at okd
        have ok2 : RingsOK (dlistDelInit h y) ((hd :: (ks ++ ys)) :: [y] :: B) :=
          (swap12 okd).rotN
        obtain ⟨i1, i2⟩ := ih ks ([y] :: B) (dlistDelInit h y) f ok2 hf'
        refine ⟨by rw [i1], ?_⟩
        have : ((hd :: (ks ++ ys.filter (fun x => !del x))) :: ((ys.filter del).map fun x => [x]) ++ [y] :: B).Perm
            ((hd :: (ks ++ (y :: ys).filter (fun x => !del x))) :: (((y :: ys).filter del).map fun x => [x]) ++ B) := by
          simp only [List.filter_cons, hdel, Bool.not_true, Bool.false_eq_true, if_false, if_true, List.map_cons,
            List.cons_append]
          exact List.Perm.cons _ List.perm_middle
        exact i2.perm this

/-! ## a ring determines the link fields of its members -/

theorem Seg_next_unique {nx nx' : Nat → Nat} : ∀ {l : List Nat} {a b : Nat}, Seg nx a l b → Seg nx' a l b →
    ∀ y ∈ a :: l, nx' y = nx y
  | [], a, b, s1, s2, y, hy => by
    simp only [Seg] at s1 s2; simp at hy; subst hy; rw [s1, s2]
  | x :: xs, a, b, s1, s2, y, hy => by
    simp only [Seg] at s1 s2
    rcases List.mem_cons.mp hy with rfl | hy
    · rw [s1.1, s2.1]
    · exact Seg_next_unique s1.2 s2.2 y hy

theorem ring_determines_fields {h h' : Heap} {a : Nat} {xs : List Nat} (r : IsRing h a xs) (r' : IsRing h' a xs) :
    ∀ y ∈ a :: xs, h'.next y = h.next y ∧ h'.prev y = h.prev y := by
  intro y hy
  refine ⟨Seg_next_unique r.fwd r'.fwd y hy, ?_⟩
  have := Seg_next_unique r.flip.fwd r'.flip.fwd y (by simpa using hy)
  exact this

/-- `r` and `r'` present the same cyclic sequence: same members, and in every heap one is a
ring iff the other is -/
def RingL (h : Heap) (r : List Nat) : Prop := ∃ a xs, r = a :: xs ∧ IsRing h a xs
def SameRing (r r' : List Nat) : Prop := (∀ y, y ∈ r ↔ y ∈ r') ∧ ∀ h : Heap, RingL h r ↔ RingL h r'

theorem SameRing.refl (r : List Nat) : SameRing r r := ⟨fun _ => Iff.rfl, fun _ => Iff.rfl⟩
theorem SameRing.trans {a b c : List Nat} (x : SameRing a b) (y : SameRing b c) : SameRing a c :=
  ⟨fun z => (x.1 z).trans (y.1 z), fun h => (x.2 h).trans (y.2 h)⟩

theorem sameRing_rot (l1 l2 : List Nat) (b : Nat) : SameRing (l1 ++ b :: l2) (b :: (l2 ++ l1)) := by
  refine ⟨?_, ?_⟩
  · intro y; simp only [List.mem_append, List.mem_cons]; constructor <;> intro hh <;> rcases hh with h1 | h1 | h1 <;> simp [h1]
  · intro h
    constructor
    · rintro ⟨a, xs, e, r⟩
      exact ⟨b, l2 ++ l1, rfl, IsRing.rotN l1 r e.symm⟩
    · rintro ⟨a, xs, e, r⟩
      injection e with e1 e2; subst e1; subst e2
      cases l1 with
      | nil => exact ⟨b, l2, by simp, by simpa using r⟩
      | cons c cs =>
        refine ⟨c, cs ++ b :: l2, by simp, ?_⟩
        have := IsRing.rotN (b :: l2) (b := c) (l2 := cs) r (by simp)
        simpa using this

theorem Same.ring_survives {A A' : Rings} (s : Same A A') : ∀ r ∈ A, ∃ r' ∈ A', SameRing r r' := by
  induction s with
  | refl => intro r hr; exact ⟨r, hr, SameRing.refl r⟩
  | perm p => intro r hr; exact ⟨r, p.mem_iff.mp hr, SameRing.refl r⟩
  | @rot l1 l2 b B =>
    intro r hr
    rcases List.mem_cons.mp hr with rfl | hr
    · exact ⟨_, List.mem_cons_self, sameRing_rot l1 l2 b⟩
    · exact ⟨r, List.mem_cons_of_mem _ hr, SameRing.refl r⟩
  | trans _ _ ih1 ih2 =>
    intro r hr
    obtain ⟨r1, h1, s1⟩ := ih1 r hr
    obtain ⟨r2, h2, s2⟩ := ih2 r1 h1
    exact ⟨r2, h2, s1.trans s2⟩

/-- the nodes an operation is applied to -/
def Op.args : Op → List Nat
  | .cinit a => [a] | .caddNext l hd => [l, hd] | .caddPrev l hd => [l, hd] | .cdel a => [a] | .cdelInit a => [a]
  | .cmove l hd => [l, hd] | .cmoveTail l hd => [l, hd] | .cinsertInstead i j => [i, j] | .xctor a => [a]
  | .xunlink a => [a] | .xmoveNext a n => [a, n] | .xmovePrev a n => [a, n] | .xpopFront l => [l] | .xpopBack l => [l]
  | .xsplice l o => [l, o] | .xclear l => [l] | .cmoveSorted _ _ a hd => [a, hd]

/-- SPEC-LEVEL FRAME: a ring none of whose members is an argument of the operation is still a
ring of the family afterwards (the same cyclic sequence) -/
theorem AStep.untouched {A A' : Rings} {op : Op} (st : AStep A op A') :
    ∀ r ∈ A, (∀ a ∈ op.args, a ∉ r) → ∃ r' ∈ A', SameRing r r' := by
  induction st with
  | cinitFree _ => intro r hr _; exact ⟨r, List.mem_cons_of_mem _ hr, SameRing.refl r⟩
  | xctorFree _ => intro r hr _; exact ⟨r, List.mem_cons_of_mem _ hr, SameRing.refl r⟩
  | xmoveNext _ ih => intro r hr ha; exact ih r hr (by simpa [Op.args] using ha)
  | xmovePrev _ ih => intro r hr ha; exact ih r hr (by simpa [Op.args] using ha)
  | xclear s _ =>
    intro r hr ha
    obtain ⟨r1, h1, sr⟩ := s.ring_survives r hr
    have ha' : ∀ a ∈ Op.args (.xclear _), a ∉ r1 := fun a haa hm => ha a haa ((sr.1 a).mpr hm)
    simp only [Op.args, List.mem_cons, List.mem_nil_iff, or_false, forall_eq] at ha'
    rcases List.mem_cons.mp h1 with rfl | h1
    · exact absurd List.mem_cons_self ha'
    · exact ⟨r1, by simp [h1], sr⟩
  | cmoveSorted s _ =>
    intro r hr ha
    obtain ⟨r1, h1, sr⟩ := s.ring_survives r hr
    have ha' : ∀ a ∈ Op.args (.cmoveSorted _ _ _ _), a ∉ r1 := fun a haa hm => ha a haa ((sr.1 a).mpr hm)
    simp only [Op.args, List.mem_cons, List.mem_nil_iff, or_false, forall_eq_or_imp, forall_eq] at ha'
    simp only [List.mem_cons] at h1
    rcases h1 with rfl | rfl | h1
    · exact absurd (by simp) ha'.1
    · exact absurd (by simp) ha'.2
    · exact ⟨r1, by simp [h1], sr⟩
  | _ s =>
    intro r hr ha
    obtain ⟨r1, h1, sr⟩ := s.ring_survives r hr
    have ha' : ∀ a ∈ Op.args _, a ∉ r1 := fun a haa hm => ha a haa ((sr.1 a).mpr hm)
    simp only [Op.args, List.mem_cons, List.mem_nil_iff, or_false, forall_eq_or_imp, forall_eq] at ha'
    simp only [List.mem_cons] at h1
    first
      | (rcases h1 with rfl | rfl | h1
         · first | (refine absurd ?_ ha'.1; simp; done) | (refine absurd ?_ ha'.2; simp; done)
         · first | (refine absurd ?_ ha'.2; simp; done) | (refine absurd ?_ ha'.1; simp; done)
         · exact ⟨r1, by simp [h1], sr⟩)
      | (rcases h1 with rfl | h1
         · first | (refine absurd ?_ ha'.1; simp; done) | (refine absurd ?_ ha'.2; simp; done) | (refine absurd ?_ ha'; simp; done)
         · exact ⟨r1, by simp [h1], sr⟩)

end Igris.C01
