/-
  C01 — lemmas of the second extension round: the entry-level `_safe` loop is the node-level
  `_safe` loop on the member nodes; the `int` size counters.
-/
import IgrisModel.C01.Enabled
import IgrisModel.C01.HHist
namespace Igris.C01

/-! ## `dlist_for_each_entry_safe` = `dlist_for_each_safe` on the member nodes -/

theorem mcastIn_entryOf (off : Addr) (p : Nat) : mcastIn (entryOf off p) off = BitVec.ofNat 64 p := by
  unfold entryOf; rw [mcastIn_mcastOut]

theorem forEachSafe_step (body : Heap → Nat → Heap) (hd f : Nat) (h : Heap) (pos n : Nat) (e : pos ≠ hd) :
    forEachSafe body hd (f + 1) h pos n =
      ((forEachSafe body hd f (body h pos) n ((body h pos).next n)).1,
       pos :: (forEachSafe body hd f (body h pos) n ((body h pos).next n)).2) := by
  simp [forEachSafe, e]

/-- the node the loop will look at next is the head or is visited -/
theorem safe_n_small (bodyN : Heap → Nat → Heap) (hd : Nat) (hhd : hd < 2 ^ 64) (f : Nat) (h : Heap) (pos n : Nat)
    (e : pos ≠ hd) (hv : ∀ p ∈ (forEachSafe bodyN hd (f + 2) h pos n).2, p < 2 ^ 64) : n < 2 ^ 64 := by
  by_cases e2 : n = hd
  · rw [e2]; exact hhd
  · apply hv n; simp [forEachSafe, e, e2]

/-- simulation: as long as the nodes the loop visits are machine addresses, the entry-level loop
(container_of on `pos` and `n`, `&pos->member != head` as exit test) does exactly what the node-level
loop does, for ANY body -/
theorem forEachEntrySafe_sim (bodyE : Heap → Addr → Heap) (bodyN : Heap → Nat → Heap) (off : Addr) (hd : Nat)
    (hhd : hd < 2 ^ 64) (hb : ∀ h p, p < 2 ^ 64 → bodyE h (entryOf off p) = bodyN h p) :
    ∀ (fuel : Nat) (h : Heap) (pos n : Nat),
      (∀ p ∈ (forEachSafe bodyN hd fuel h pos n).2, p < 2 ^ 64) →
      forEachEntrySafe bodyE (BitVec.ofNat 64 hd) off fuel h (entryOf off pos) (entryOf off n) =
        ((forEachSafe bodyN hd fuel h pos n).1, (forEachSafe bodyN hd fuel h pos n).2.map (entryOf off)) := by
  intro fuel
  induction fuel with
  | zero => intro h pos n _; simp [forEachEntrySafe, forEachSafe]
  | succ f ih =>
    intro h pos n hv
    by_cases e : pos = hd
    · subst e; simp [forEachEntrySafe, forEachSafe, mcastIn_entryOf]
    · have hps : pos < 2 ^ 64 := hv pos (by simp [forEachSafe, e])
      have hne : mcastIn (entryOf off pos) off ≠ BitVec.ofNat 64 hd := by
        rw [mcastIn_entryOf]; intro e'; exact e ((ofNat_inj_small hps hhd).mp e')
      cases f with
      | zero => simp [forEachEntrySafe, forEachSafe, hne, e, hb h pos hps]
      | succ f' =>
        have hns : n < 2 ^ 64 := safe_n_small bodyN hd hhd f' h pos n e hv
        have hv' : ∀ p ∈ (forEachSafe bodyN hd (f' + 1) (bodyN h pos) n ((bodyN h pos).next n)).2, p < 2 ^ 64 := by
          intro p hp; apply hv p; rw [forEachSafe_step bodyN hd (f' + 1) h pos n e]; simp [hp]
        have := ih (bodyN h pos) n ((bodyN h pos).next n) hv'
        simp only [forEachEntrySafe, forEachSafe, hne, e, if_false, hb h pos hps] at this ⊢
        rw [nextEntry_entryOf _ off hns, this]
        simp

theorem dlistForEachEntrySafe_sim (bodyE : Heap → Addr → Heap) (bodyN : Heap → Nat → Heap) (off : Addr) (hd : Nat)
    (hhd : hd < 2 ^ 64) (hb : ∀ h p, p < 2 ^ 64 → bodyE h (entryOf off p) = bodyN h p) (h : Heap) (fuel : Nat)
    (hv : ∀ p ∈ (dlistForEachSafe bodyN h fuel hd).2, p < 2 ^ 64) :
    dlistForEachEntrySafe bodyE h fuel (BitVec.ofNat 64 hd) off =
      ((dlistForEachSafe bodyN h fuel hd).1, (dlistForEachSafe bodyN h fuel hd).2.map (entryOf off)) := by
  unfold dlistForEachEntrySafe dlistForEachSafe at *
  have h1 : dlistFirstEntry h (BitVec.ofNat 64 hd) off = entryOf off (h.next hd) := by
    simp [dlistFirstEntry, Heap.nextA, entryOf, ofNat_toNat_small hhd]
  cases fuel with
  | zero => simp [forEachEntrySafe, forEachSafe]
  | succ f =>
    have hs : h.next hd < 2 ^ 64 := by
      by_cases e : h.next hd = hd
      · rw [e]; exact hhd
      · apply hv; simp [forEachSafe, e]
    simp only [h1, nextEntry_entryOf h off hs]
    exact forEachEntrySafe_sim bodyE bodyN off hd hhd hb (f + 1) h _ _ hv

/-! ## `hlist_for_each_entry` through a member at any offset -/

/-- a node whose address is a machine address, is not NULL, and whose object does not sit at address 0 -/
def HAddrOK (off : Addr) (y : Nat) : Prop := 0 < y ∧ y < 2 ^ 64 ∧ y ≠ off.toNat

theorem mcastOutOrNull_node (off : Addr) {y : Nat} (hy : HAddrOK off y) :
    mcastOutOrNull (ptrOf (some y)) off = entryOf off y ∧ entryOf off y ≠ 0 := by
  obtain ⟨h0, h1, h2⟩ := hy
  have hne : BitVec.ofNat 64 y ≠ 0 := by
    intro e; have := congrArg BitVec.toNat e; rw [ofNat_toNat_small h1] at this; simp at this; omega
  have hp : ptrOf (some y) = BitVec.ofNat 64 y := rfl
  refine ⟨by unfold mcastOutOrNull; rw [hp, if_neg hne]; rfl, ?_⟩
  intro e
  have : mcastIn (entryOf off y) off = mcastIn 0 off := by rw [e]
  rw [mcastIn_entryOf] at this
  have := congrArg BitVec.toNat this
  rw [ofNat_toNat_small h1] at this
  simp [mcastIn] at this; exact h2 this

theorem hwalkEntry_chain (h : HHeap) (off : Addr) : ∀ (xs : List Nat) (loc : Loc) (fuel : Nat), HChain h loc xs none →
    (∀ y ∈ xs, HAddrOK off y) → xs.length < fuel →
    hwalkEntry h off fuel (mcastOutOrNull (ptrOf (h.read loc)) off) = xs.map (entryOf off)
  | [], loc, fuel, hc, _, hf => by
    simp only [HChain] at hc
    match fuel, hf with
    | f + 1, _ => simp [hc, hwalkEntry, ptrOf, mcastOutOrNull]
  | x :: xs, loc, fuel, hc, ha, hf => by
    simp only [HChain] at hc
    match fuel, hf with
    | f + 1, hf =>
      obtain ⟨e1, e2⟩ := mcastOutOrNull_node off (ha x (by simp))
      rw [hc.1, e1]
      simp only [hwalkEntry, e2, if_false, List.map_cons, mcastIn_entryOf,
        ofNat_toNat_small (ha x (by simp)).2.1, HHeap.next_eq_read]
      rw [hwalkEntry_chain h off xs (.nodeNext x) f hc.2.2 (fun y hy => ha y (by simp [hy])) (by simp at hf; omega)]

/-! ## the `int` size counters -/

theorem countInt_eq (l : List Nat) : countInt l = BitVec.ofNat 32 l.length := by
  have key : ∀ (l : List Nat) (i : BitVec 32), l.foldl (fun i _ => i + 1) i = i + BitVec.ofNat 32 l.length := by
    intro l; induction l with
    | nil => intro i; simp
    | cons x xs ih =>
      intro i; simp only [List.foldl_cons, ih, List.length_cons]
      apply BitVec.eq_of_toNat_eq; simp [BitVec.toNat_add, BitVec.toNat_ofNat]; omega
  unfold countInt; rw [key]; simp

theorem countInt_small (l : List Nat) (hl : l.length ≤ 2147483647) : (countInt l).toInt = l.length := by
  rw [countInt_eq, BitVec.toInt_eq_toNat_cond]
  simp only [BitVec.toNat_ofNat]
  have : l.length % 2 ^ 32 = l.length := Nat.mod_eq_of_lt (by omega)
  rw [this]; split <;> omega

theorem countInt_overflow (l : List Nat) (hl : l.length = 2147483648) : (countInt l).toInt = -2147483648 := by
  rw [countInt_eq, BitVec.toInt_eq_toNat_cond]
  simp only [BitVec.toNat_ofNat, hl]; decide

end Igris.C01
