/-
  C01 — reference semantics of the list operations on families of rings, and the
  API-level operation type with its execution on the heap model.
-/
import IgrisModel.C01.Lemmas
namespace Igris.C01

/-- API operations (C dlist and C++ dlist_node / dlist_base) -/
inductive Op
  | cinit (a : Nat)                 -- dlist_init
  | caddNext (lnk head : Nat)       -- dlist_add_next / dlist_add
  | caddPrev (lnk head : Nat)       -- dlist_add_prev / dlist_add_tail
  | cdel (a : Nat)                  -- dlist_del
  | cdelInit (a : Nat)              -- dlist_del_init
  | cmove (l head : Nat)            -- dlist_move
  | cmoveTail (l head : Nat)        -- dlist_move_tail
  | cinsertInstead (iter instead : Nat)
  | xctor (a : Nat)                 -- dlist_node() / dlist_base()
  | xunlink (a : Nat)               -- dlist_node::unlink, ~dlist_node, dlist::pop
  | xmoveNext (a node : Nat)        -- move_next_than / move_front
  | xmovePrev (a node : Nat)        -- move_prev_than / move_back
  | xpopFront (l : Nat)
  | xpopBack (l : Nat)
  | xsplice (l oth : Nat)           -- unlink_and_move_all_nodes_from_other
  | xclear (l : Nat)                -- clear() / ~dlist_base()
  | cmoveSorted (cmp : Nat → Nat → Bool) (fuel added head : Nat)  -- dlist_move_sorted (any comparator; fuel = loop bound)

def exec (h : Heap) : Op → Heap
  | .cinit a => dlistInit h a
  | .caddNext lnk head => dlistAddNext h lnk head
  | .caddPrev lnk head => dlistAddPrev h lnk head
  | .cdel a => dlistDel h a
  | .cdelInit a => dlistDelInit h a
  | .cmove l head => dlistMove h l head
  | .cmoveTail l head => dlistMoveTail h l head
  | .cinsertInstead iter instead => dlistInsertInstead h iter instead
  | .xctor a => nodeCtor h a
  | .xunlink a => nodeUnlink h a
  | .xmoveNext a node => nodeMoveNextThan h a node
  | .xmovePrev a node => nodeMovePrevThan h a node
  | .xpopFront l => listPopFront h l
  | .xpopBack l => listPopBack h l
  | .xsplice l oth => listSplice h l oth
  | .xclear l => listClear h l 1000000
  | .cmoveSorted cmp fuel added head => dlistMoveSorted h cmp fuel added head

def run (h : Heap) (ops : List Op) : Heap := ops.foldl exec h

/-- two presentations of the same family of cyclic sequences: the order of the
rings does not matter, and a ring may be read from any of its members -/
inductive Same : Rings → Rings → Prop
  | refl (A) : Same A A
  | perm {A A'} : A.Perm A' → Same A A'
  | rot {l1 l2 b B} : Same ((l1 ++ b :: l2) :: B) ((b :: (l2 ++ l1)) :: B)
  | trans {A B C} : Same A B → Same B C → Same A C

/-- REFERENCE SEMANTICS: what each operation does to the family of cyclic
sequences.  The precondition of an operation is the shape its rule asks for
(Linux-style contract: `*_add*` and the first argument of `insert_instead` want
an entry that is alone or in no ring; every other entry argument is in a ring). -/
inductive AStep : Rings → Op → Rings → Prop
  -- initialisation / construction of a node that is in no ring
  | cinitFree {A a} : Free A a → AStep A (.cinit a) ([a] :: A)
  | xctorFree {A a} : Free A a → AStep A (.xctor a) ([a] :: A)
  -- `dlist_init` of a node that is in a ring (alone, or a list head / an element): it is alone
  -- afterwards; the ring it was in is ABANDONED (its other members are in no ring any more:
  -- their links are stale).  `dlist_node()` constructed again at the address of an unlinked node.
  | cinitRing {A a xs B} : Same A ((a :: xs) :: B) → AStep A (.cinit a) ([a] :: B)
  | xctorLone {A a B} : Same A ([a] :: B) → AStep A (.xctor a) ([a] :: B)
  -- insertion after / before `head` of a node that is alone or in no ring
  | caddNext {A lnk head ys B} : Same A ([lnk] :: (head :: ys) :: B) →
      AStep A (.caddNext lnk head) ((head :: lnk :: ys) :: B)
  | caddNextFree {A lnk head ys B} : Same A ((head :: ys) :: B) → Free ((head :: ys) :: B) lnk →
      AStep A (.caddNext lnk head) ((head :: lnk :: ys) :: B)
  | caddPrev {A lnk head ys B} : Same A ([lnk] :: (head :: ys) :: B) →
      AStep A (.caddPrev lnk head) ((head :: (ys ++ [lnk])) :: B)
  | caddPrevFree {A lnk head ys B} : Same A ((head :: ys) :: B) → Free ((head :: ys) :: B) lnk →
      AStep A (.caddPrev lnk head) ((head :: (ys ++ [lnk])) :: B)
  -- removal
  | cdel {A a x xs B} : Same A ((a :: x :: xs) :: B) → AStep A (.cdel a) ((x :: xs) :: B)
  | cdelSingle {A a B} : Same A ([a] :: B) → AStep A (.cdel a) B
  | cdelInit {A a x xs B} : Same A ((a :: x :: xs) :: B) → AStep A (.cdelInit a) ([a] :: (x :: xs) :: B)
  | cdelInitSingle {A a B} : Same A ([a] :: B) → AStep A (.cdelInit a) ([a] :: B)
  | xunlink {A a x xs B} : Same A ((a :: x :: xs) :: B) → AStep A (.xunlink a) ([a] :: (x :: xs) :: B)
  | xunlinkSingle {A a B} : Same A ([a] :: B) → AStep A (.xunlink a) ([a] :: B)
  -- moves: next to itself, inside one ring, between rings
  | cmoveSelf {A a x xs B} : Same A ((a :: x :: xs) :: B) → AStep A (.cmove a a) ([a] :: (x :: xs) :: B)
  | cmoveSelfSingle {A a B} : Same A ([a] :: B) → AStep A (.cmove a a) ([a] :: B)
  | cmoveSame {A l pre head post B} : Same A ((l :: (pre ++ head :: post)) :: B) →
      AStep A (.cmove l head) ((head :: l :: (post ++ pre)) :: B)
  | cmoveOther {A l x xs head ys B} : Same A ((l :: x :: xs) :: (head :: ys) :: B) →
      AStep A (.cmove l head) ((x :: xs) :: (head :: l :: ys) :: B)
  | cmoveOtherSingle {A l head ys B} : Same A ([l] :: (head :: ys) :: B) →
      AStep A (.cmove l head) ((head :: l :: ys) :: B)
  | cmoveTailSelf {A a x xs B} : Same A ((a :: x :: xs) :: B) → AStep A (.cmoveTail a a) ([a] :: (x :: xs) :: B)
  | cmoveTailSelfSingle {A a B} : Same A ([a] :: B) → AStep A (.cmoveTail a a) ([a] :: B)
  | cmoveTailSame {A l pre head post B} : Same A ((l :: (pre ++ head :: post)) :: B) →
      AStep A (.cmoveTail l head) ((head :: (post ++ pre ++ [l])) :: B)
  | cmoveTailOther {A l x xs head ys B} : Same A ((l :: x :: xs) :: (head :: ys) :: B) →
      AStep A (.cmoveTail l head) ((x :: xs) :: (head :: (ys ++ [l])) :: B)
  | cmoveTailOtherSingle {A l head ys B} : Same A ([l] :: (head :: ys) :: B) →
      AStep A (.cmoveTail l head) ((head :: (ys ++ [l])) :: B)
  -- the C++ node moves have the reference semantics of the C moves
  | xmoveNext {A a node A'} : AStep A (.cmove a node) A' → AStep A (.xmoveNext a node) A'
  | xmovePrev {A a node A'} : AStep A (.cmoveTail a node) A' → AStep A (.xmovePrev a node) A'
  -- pop_front / pop_back of a list head (no-op on an empty list)
  | xpopFront {A l x xs B} : Same A ((l :: x :: xs) :: B) → AStep A (.xpopFront l) ([x] :: (l :: xs) :: B)
  | xpopFrontEmpty {A l B} : Same A ([l] :: B) → AStep A (.xpopFront l) ([l] :: B)
  | xpopBack {A l xs z B} : Same A ((l :: (xs ++ [z])) :: B) → AStep A (.xpopBack l) ([z] :: (l :: xs) :: B)
  | xpopBackEmpty {A l B} : Same A ([l] :: B) → AStep A (.xpopBack l) ([l] :: B)
  -- splice: the destination head leaves its ring (its old nodes stay linked among
  -- themselves), takes over every node of the source, the source becomes empty
  | xsplice {A l x xs oth y ys B} : Same A ((l :: x :: xs) :: (oth :: y :: ys) :: B) →
      AStep A (.xsplice l oth) ([oth] :: (l :: y :: ys) :: (x :: xs) :: B)
  | xspliceIntoEmpty {A l oth y ys B} : Same A ([l] :: (oth :: y :: ys) :: B) →
      AStep A (.xsplice l oth) ([oth] :: (l :: y :: ys) :: B)
  | xspliceFromEmpty {A l x xs oth B} : Same A ((l :: x :: xs) :: [oth] :: B) →
      AStep A (.xsplice l oth) ([l] :: (x :: xs) :: [oth] :: B)
  | xspliceBothEmpty {A l oth B} : Same A ([l] :: [oth] :: B) →
      AStep A (.xsplice l oth) ([l] :: [oth] :: B)
  -- splice of a list into itself (`l.unlink_and_move_all_nodes_from_other(l)`): the head leaves its ring
  | xspliceSelf {A l x xs B} : Same A ((l :: x :: xs) :: B) → AStep A (.xsplice l l) ([l] :: (x :: xs) :: B)
  | xspliceSelfEmpty {A l B} : Same A ([l] :: B) → AStep A (.xsplice l l) ([l] :: B)
  -- clear / destructor of a list: every element ends up alone (fewer than 10^6 elements)
  | xclear {A l xs B} : Same A ((l :: xs) :: B) → xs.length < 1000000 →
      AStep A (.xclear l) ([l] :: (xs.map fun x => [x]) ++ B)
  -- replace `instead` by the lone node `iter`
  | cinsertInstead {A iter instead ys B} : Same A ([iter] :: (instead :: ys) :: B) →
      AStep A (.cinsertInstead iter instead) ([instead] :: (iter :: ys) :: B)
  -- `dlist_move_sorted(added, head, member, cmp)` of a lone entry, ANY comparator: in front of the
  -- first entry for which the comparator answers true, at the tail when there is none
  | cmoveSorted {A cmp fuel added head xs B} : Same A ([added] :: (head :: xs) :: B) → xs.length + 1 < fuel →
      AStep A (.cmoveSorted cmp fuel added head)
        ((head :: (xs.takeWhile (fun y => !cmp added y) ++ added :: xs.dropWhile (fun y => !cmp added y))) :: B)
  | cmoveSortedFree {A cmp fuel added head xs B} : Same A ((head :: xs) :: B) → Free ((head :: xs) :: B) added →
      xs.length + 1 < fuel →
      AStep A (.cmoveSorted cmp fuel added head)
        ((head :: (xs.takeWhile (fun y => !cmp added y) ++ added :: xs.dropWhile (fun y => !cmp added y))) :: B)
  -- `dlist_insert_instead(iter, instead)` with an `iter` that is in no ring (its fields are never read)
  | cinsertInsteadFree {A iter instead ys B} : Same A ((instead :: ys) :: B) → Free ((instead :: ys) :: B) iter →
      AStep A (.cinsertInstead iter instead) ([instead] :: (iter :: ys) :: B)

end Igris.C01
