/-
  C01 — lemmas for the operations that had only a correspondence tie before:
  `igris::slist::move_front`, `dlist_move_sorted`, and the hlist
  (`hlist_add_next`, `hlist_del`).
-/
import IgrisModel.C01.Refine
import IgrisModel.C01.Slist
namespace Igris.C01

/-! ### slist::move_front -/

theorem SHeap.set_next (h : SHeap) (a v y : Nat) : (h.set a v).next y = if y = a then v else h.next y := rfl
theorem SHeap.set_next_eq (h : SHeap) (a v : Nat) : (h.set a v).next = upd h.next a v := rfl

/-- the unlink walk started at `p`, where `p :: rest` is a suffix of `head :: xs`
that does not contain `n`: nothing is written -/
theorem slistUnlinkFrom_absent (h : SHeap) (head n : Nat) :
    ∀ (rest : List Nat) (p fuel : Nat), Seg h.next p rest head → n ∉ rest → rest.length < fuel →
      slistUnlinkFrom h head n fuel p = h := by
  intro rest
  induction rest with
  | nil =>
    intro p fuel hs _ hf
    simp only [Seg] at hs
    match fuel, hf with
    | f + 1, _ => simp [slistUnlinkFrom, hs]
  | cons x xs ih =>
    intro p fuel hs hn hf
    simp only [Seg] at hs
    match fuel, hf with
    | f + 1, hf =>
      have hxn : x ≠ n := fun e => hn (by simp [e])
      by_cases hxh : x = head
      · simp [slistUnlinkFrom, hs.1, hxh]
      · simp only [slistUnlinkFrom, hs.1, hxh, hxn, if_false]
        exact ih x f hs.2 (fun hm => hn (by simp [hm])) (by simp at hf; omega)

/-- the unlink walk started at `p` in front of `pre ++ n :: post`: the
predecessor of `n` is redirected to `n`'s successor -/
theorem slistUnlinkFrom_present (h : SHeap) (head n : Nat) :
    ∀ (pre : List Nat) (p fuel : Nat) (post : List Nat),
      Seg h.next p (pre ++ n :: post) head → (p :: (pre ++ n :: post)).Nodup →
      head ∉ pre ++ n :: post → pre.length < fuel →
      slistUnlinkFrom h head n fuel p = h.set ((p :: pre).getLast (by simp)) (h.next n) := by
  intro pre
  induction pre with
  | nil =>
    intro p fuel post hs _ hh hf
    simp only [List.nil_append, Seg] at hs
    have hnh : n ≠ head := fun e => hh (by simp [e])
    match fuel, hf with
    | f + 1, _ => simp [slistUnlinkFrom, hs.1, hnh]
  | cons x xs ih =>
    intro p fuel post hs hnd hh hf
    simp only [List.cons_append, Seg] at hs
    match fuel, hf with
    | f + 1, hf =>
      have hxh : x ≠ head := fun e => hh (by simp [e])
      have hnd' : (x :: (xs ++ n :: post)).Nodup := (List.nodup_cons.mp hnd).2
      have hxn : x ≠ n := by
        intro e; subst e
        have := (List.nodup_cons.mp hnd').1
        exact this (by simp)
      simp only [slistUnlinkFrom, hs.1, hxh, hxn, if_false]
      rw [ih x f post hs.2 hnd' (fun hm => hh (by simp at hm ⊢; right; exact hm)) (by simp at hf; omega)]
      simp

/-- `move_front(n)` of a node that is not in the list: it becomes the first element -/
theorem slistMoveFront_absent (h : SHeap) (head n : Nat) (xs : List Nat) (r : SRing h head xs)
    (hn : n ∉ head :: xs) (fuel : Nat) (hf : xs.length < fuel) :
    SRing (slistMoveFront h fuel n head) head (n :: xs) := by
  unfold slistMoveFront
  rw [slistUnlinkFrom_absent h head n xs head fuel r.fwd (fun hm => hn (by simp [hm])) hf]
  exact (slistAdd_ring h n head xs r hn).1

/-- `move_front(n)` of a node that is already in the list (anywhere): it is
unlinked from its place and becomes the first element; the order of the others is kept -/
theorem slistMoveFront_present (h : SHeap) (head n : Nat) (pre post : List Nat)
    (r : SRing h head (pre ++ n :: post)) (fuel : Nat) (hf : pre.length < fuel) :
    SRing (slistMoveFront h fuel n head) head (n :: (pre ++ post)) := by
  unfold slistMoveFront
  have hh : head ∉ pre ++ n :: post := (List.nodup_cons.mp r.nodup).1
  rw [slistUnlinkFrom_present h head n pre head fuel post r.fwd r.nodup hh hf]
  -- the list without n
  have hnd := r.nodup
  have hsplit := (Seg_append h.next head pre n post head).mp r.fwd
  have hnd2 : (head :: (pre ++ post)).Nodup := by
    have : (head :: (pre ++ n :: post)).Perm (n :: head :: (pre ++ post)) := by
      refine (List.Perm.cons head List.perm_middle).trans (List.Perm.swap _ _ _)
    exact (List.nodup_cons.mp (this.nodup_iff.mp hnd)).2
  have hnn : n ∉ head :: (pre ++ post) := by
    have : (head :: (pre ++ n :: post)).Perm (n :: head :: (pre ++ post)) := by
      refine (List.Perm.cons head List.perm_middle).trans (List.Perm.swap _ _ _)
    exact (List.nodup_cons.mp (this.nodup_iff.mp hnd)).1
  have hlast_ne : ∀ y ∈ post, y ≠ (head :: pre).getLast (by simp) := by
    intro y hy e
    have hm : (head :: pre).getLast (by simp) ∈ head :: pre := List.getLast_mem _
    rw [← e] at hm
    have hd : (head :: (pre ++ n :: post)).Nodup := hnd
    rw [show head :: (pre ++ n :: post) = (head :: pre) ++ (n :: post) by simp] at hd
    exact (List.nodup_append.mp hd).2.2 y hm y (by simp [hy]) rfl
  have hn_ne : n ≠ (head :: pre).getLast (by simp) := by
    intro e
    have hm : (head :: pre).getLast (by simp) ∈ head :: pre := List.getLast_mem _
    rw [← e] at hm
    have hd : (head :: (pre ++ n :: post)).Nodup := hnd
    rw [show head :: (pre ++ n :: post) = (head :: pre) ++ (n :: post) by simp] at hd
    exact (List.nodup_append.mp hd).2.2 n hm n (by simp) rfl
  have r' : SRing (h.set ((head :: pre).getLast (by simp)) (h.next n)) head (pre ++ post) := by
    refine ⟨hnd2, ?_⟩
    have hpre : (head :: pre).Nodup := by
      have hd : (head :: (pre ++ n :: post)).Nodup := hnd
      rw [show head :: (pre ++ n :: post) = (head :: pre) ++ (n :: post) by simp] at hd
      exact (List.nodup_append.mp hd).1
    have s1 := Seg_set_last h.next head pre n (h.next n) hsplit.1 hpre
    cases post with
    | nil =>
      simp only [Seg] at hsplit
      rw [SHeap.set_next_eq]; simpa [hsplit.2] using s1
    | cons y ys =>
      have hs2 := hsplit.2
      simp only [Seg] at hs2
      rw [Seg_append]
      refine ⟨by rw [SHeap.set_next_eq]; simpa [hs2.1] using s1, ?_⟩
      refine (Seg_congr h.next _ y ys head ?_).mpr hs2.2
      intro z hz
      have : z ≠ (head :: pre).getLast (by simp) := hlast_ne z hz
      simp [SHeap.set, this]
  exact (slistAdd_ring _ n head (pre ++ post) r' hnn).1

/-! ### dlist_move_sorted (`sortedPos_spec`, `find_split`, `moveSorted_ok` are in Refine.lean: the operation is part of `AStep`) -/

/-- hence a list kept sorted by a key stays sorted: with the comparator
`key added < key pos` the new entry lands after every entry with a key `≤` its own
(ties are FIFO) and in front of every entry with a larger key -/
theorem moveSorted_sorted (key : Nat → Int) (added : Nat) (xs : List Nat)
    (hs : xs.Pairwise (fun a b => key a ≤ key b)) :
    (xs.takeWhile (fun y => !decide (key added < key y)) ++
      added :: xs.dropWhile (fun y => !decide (key added < key y))).Pairwise (fun a b => key a ≤ key b) := by
  induction xs with
  | nil => simp
  | cons a as ih =>
    have ha := List.pairwise_cons.mp hs
    by_cases hc : key added < key a
    · simp only [List.takeWhile, List.dropWhile, hc, decide_true, Bool.not_true, List.nil_append]
      refine List.pairwise_cons.mpr ⟨?_, hs⟩
      intro b hb
      rcases List.mem_cons.mp hb with rfl | hb
      · omega
      · have := ha.1 b hb; omega
    · simp only [List.takeWhile, List.dropWhile, hc, decide_false, Bool.not_false, List.cons_append]
      refine List.pairwise_cons.mpr ⟨?_, ih ha.2⟩
      intro b hb
      simp only [List.mem_append, List.mem_cons] at hb
      rcases hb with hb | rfl | hb
      · exact ha.1 b ((List.takeWhile_sublist _).subset hb)
      · omega
      · exact ha.1 b ((List.dropWhile_sublist _).subset hb)


/-! ### hlist (igris/datastruct/hlist.h) -/

@[simp] theorem HHeap.read_write (h : HHeap) (loc loc' : Loc) (v : Option Nat) :
    (h.write loc v).read loc' = if loc' = loc then v else h.read loc' := by
  cases loc <;> cases loc' <;> simp [HHeap.write, HHeap.read]
@[simp] theorem HHeap.pprev_write (h : HHeap) (loc : Loc) (v : Option Nat) : (h.write loc v).pprev = h.pprev := by
  cases loc <;> rfl
@[simp] theorem HHeap.read_setPprev (h : HHeap) (n : Nat) (v : Option Loc) (loc : Loc) :
    (h.setPprev n v).read loc = h.read loc := by cases loc <;> rfl
@[simp] theorem HHeap.pprev_setPprev (h : HHeap) (n : Nat) (v : Option Loc) (y : Nat) :
    (h.setPprev n v).pprev y = if y = n then v else h.pprev y := rfl
theorem HHeap.next_eq_read (h : HHeap) (n : Nat) : h.next n = h.read (.nodeNext n) := rfl

/-- from location `loc` the chain runs through the nodes `xs` and ends in `e`
(`none` = NULL); every node's `pprev` is the location that points at it -/
def HChain (h : HHeap) : Loc → List Nat → Option Nat → Prop
  | loc, [], e => h.read loc = e
  | loc, x :: xs, e => h.read loc = some x ∧ h.pprev x = some loc ∧ HChain h (.nodeNext x) xs e

/-- the location in which a chain through `xs` that starts at `loc` ends -/
def lastLoc : Loc → List Nat → Loc
  | loc, [] => loc
  | _, x :: xs => lastLoc (.nodeNext x) xs

theorem lastLoc_append (loc : Loc) (pre : List Nat) (x : Nat) : lastLoc loc (pre ++ [x]) = .nodeNext x := by
  induction pre generalizing loc with
  | nil => rfl
  | cons a as ih => simp [lastLoc, ih]

theorem lastLoc_mem (loc : Loc) (xs : List Nat) : lastLoc loc xs = loc ∨ ∃ x ∈ xs, lastLoc loc xs = .nodeNext x := by
  induction xs generalizing loc with
  | nil => left; rfl
  | cons a as ih =>
    right
    rcases ih (.nodeNext a) with h1 | ⟨x, hx, h1⟩
    · exact ⟨a, by simp, by simpa [lastLoc] using h1⟩
    · exact ⟨x, by simp [hx], by simpa [lastLoc] using h1⟩

/-- a chain is determined by what is stored in its start location, in the `next`
fields of its nodes and in their `pprev` fields -/
theorem HChain_congr (h h' : HHeap) : ∀ (xs : List Nat) (loc : Loc) (e : Option Nat),
    h'.read loc = h.read loc → (∀ x ∈ xs, h'.read (.nodeNext x) = h.read (.nodeNext x)) →
    (∀ x ∈ xs, h'.pprev x = h.pprev x) → (HChain h' loc xs e ↔ HChain h loc xs e)
  | [], loc, e, h0, _, _ => by simp [HChain, h0]
  | x :: xs, loc, e, h0, h1, h2 => by
    simp only [HChain, h0, h2 x (by simp)]
    rw [HChain_congr h h' xs (.nodeNext x) e (h1 x (by simp)) (fun y hy => h1 y (by simp [hy]))
      (fun y hy => h2 y (by simp [hy]))]

/-- cut a chain at a node -/
theorem HChain_append_cons (h : HHeap) : ∀ (pre : List Nat) (loc : Loc) (y : Nat) (ys : List Nat) (e : Option Nat),
    HChain h loc (pre ++ y :: ys) e ↔
      HChain h loc pre (some y) ∧ h.pprev y = some (lastLoc loc pre) ∧ HChain h (.nodeNext y) ys e
  | [], loc, y, ys, e => by simp [HChain, lastLoc]
  | x :: pre, loc, y, ys, e => by
    simp only [List.cons_append, HChain, lastLoc, HChain_append_cons h pre (.nodeNext x) y ys e, and_assoc]

/-- the chain's end value is what its last location holds -/
theorem HChain_read_last (h : HHeap) : ∀ (pre : List Nat) (loc : Loc) (e : Option Nat),
    HChain h loc pre e → h.read (lastLoc loc pre) = e
  | [], _, _, hc => hc
  | x :: pre, _, e, hc => HChain_read_last h pre (.nodeNext x) e hc.2.2

/-- storing into the last location of a chain changes where it ends, nothing else -/
theorem HChain_set_end (h : HHeap) : ∀ (pre : List Nat) (loc : Loc) (e e' : Option Nat),
    HChain h loc pre e → pre.Nodup → (∀ x ∈ pre, loc ≠ .nodeNext x) →
    HChain (h.write (lastLoc loc pre) e') loc pre e'
  | [], loc, e, e', _, _, _ => by simp [HChain, lastLoc]
  | x :: pre, loc, e, e', hc, hnd, h0 => by
    simp only [HChain] at hc
    have hx : x ∉ pre := (List.nodup_cons.mp hnd).1
    have hne : loc ≠ lastLoc (.nodeNext x) pre := by
      rcases lastLoc_mem (.nodeNext x) pre with e1 | ⟨z, hz, e1⟩
      · rw [e1]; exact h0 x (by simp)
      · rw [e1]; exact h0 z (by simp [hz])
    simp only [HChain, lastLoc, HHeap.read_write, hne, if_false, HHeap.pprev_write]
    refine ⟨hc.1, hc.2.1, HChain_set_end h pre (.nodeNext x) e e' hc.2.2 (List.nodup_cons.mp hnd).2 ?_⟩
    intro z hz e2; injection e2 with e2; exact hx (e2 ▸ hz)

/-- an hlist with head `l` and contents `xs` -/
structure HList (h : HHeap) (l : Nat) (xs : List Nat) : Prop where
  nodup : xs.Nodup
  chain : HChain h (.headFirst l) xs none

theorem hwalk_chain (h : HHeap) : ∀ (xs : List Nat) (loc : Loc) (fuel : Nat), HChain h loc xs none →
    xs.length < fuel → hwalk h fuel (h.read loc) = xs
  | [], loc, fuel, hc, hf => by
    simp only [HChain] at hc
    match fuel, hf with
    | f + 1, _ => simp [hc, hwalk]
  | x :: xs, loc, fuel, hc, hf => by
    simp only [HChain] at hc
    match fuel, hf with
    | f + 1, hf =>
      rw [hc.1]; simp only [hwalk, HHeap.next_eq_read]
      rw [hwalk_chain h xs (.nodeNext x) f hc.2.2 (by simp at hf; omega)]

/-- `hlist_for_each` visits exactly the contents, in order -/
theorem hlistToList_list {h : HHeap} {l : Nat} {xs : List Nat} (r : HList h l xs) (fuel : Nat)
    (hf : xs.length < fuel) : hlistToList h fuel l = xs :=
  hwalk_chain h xs (.headFirst l) fuel r.chain hf

/-- what `hlist_add_next(n, L)` leaves untouched -/
theorem hlistAddNext_frame (h : HHeap) (n : Nat) (L : Loc) (hL : L ≠ .nodeNext n) :
    (∀ loc, loc ≠ L → loc ≠ .nodeNext n → (hlistAddNext h n L).read loc = h.read loc) ∧
    (hlistAddNext h n L).read L = some n ∧
    (hlistAddNext h n L).read (.nodeNext n) = h.read L ∧
    (∀ z, z ≠ n → h.read L ≠ some z → (hlistAddNext h n L).pprev z = h.pprev z) ∧
    (∀ y, h.read L = some y → y ≠ n → (hlistAddNext h n L).pprev y = some (.nodeNext n)) ∧
    (h.read L ≠ some n → (hlistAddNext h n L).pprev n = some L) := by
  have hL' : Loc.nodeNext n ≠ L := fun e => hL e.symm
  unfold hlistAddNext
  simp only [HHeap.read_setPprev, HHeap.next_eq_read, HHeap.read_write, if_true]
  cases hr : h.read L with
  | none =>
    simp only [HHeap.read_write, HHeap.read_setPprev, HHeap.pprev_write, HHeap.pprev_setPprev, if_true]
    refine ⟨?_, trivial, by simp [hL'], ?_, by simp, by simp⟩
    · intro loc h1 h2; simp [h1, h2]
    · intro z hz _; simp [hz]
  | some y =>
    simp only [HHeap.read_write, HHeap.read_setPprev, HHeap.pprev_write, HHeap.pprev_setPprev, if_true]
    refine ⟨?_, trivial, by simp [hL'], ?_, ?_, ?_⟩
    · intro loc h1 h2; simp [h1, h2]
    · intro z hz hzy
      have : z ≠ y := fun e => hzy (by rw [e])
      simp [hz, this]
    · intro y' e _; injection e with e; subst e; simp
    · intro hyn
      have : n ≠ y := fun e => hyn (by rw [e])
      simp [this]

/-- GENERAL INSERTION: `hlist_add_next(n, loc)` where `loc` is the location in
which the chain through `pre` ends (the head's `first` field, or the `next`
field of the last node of `pre`) -/
theorem hlistAddNext_chain (h : HHeap) (n : Nat) (loc0 : Loc) (pre post : List Nat)
    (hc : HChain h loc0 (pre ++ post) none) (hnd : (pre ++ post).Nodup) (hn : n ∉ pre ++ post)
    (h0 : loc0 ≠ .nodeNext n) (h0' : ∀ x ∈ pre ++ post, loc0 ≠ .nodeNext x) :
    HChain (hlistAddNext h n (lastLoc loc0 pre)) loc0 (pre ++ n :: post) none := by
  have hnpre : n ∉ pre := fun hm => hn (by simp [hm])
  have hnpost : n ∉ post := fun hm => hn (by simp [hm])
  have hndpre : pre.Nodup := (List.nodup_append.mp hnd).1
  have hL : lastLoc loc0 pre ≠ .nodeNext n := by
    rcases lastLoc_mem loc0 pre with e | ⟨x, hx, e⟩
    · rw [e]; exact h0
    · rw [e]; intro e2; injection e2 with e2; exact hnpre (e2 ▸ hx)
  have hLpost : ∀ y ∈ post, lastLoc loc0 pre ≠ .nodeNext y := by
    intro y hy
    rcases lastLoc_mem loc0 pre with e | ⟨x, hx, e⟩
    · rw [e]; exact h0' y (by simp [hy])
    · rw [e]; intro e2; injection e2 with e2; subst e2
      exact (List.nodup_append.mp hnd).2.2 x hx x hy rfl
  obtain ⟨f1, f2, f3, f4, f5, f6⟩ := hlistAddNext_frame h n (lastLoc loc0 pre) hL
  -- the prefix: unchanged except for its end
  have prefix_ok : ∀ e, HChain h loc0 pre e → h.read (lastLoc loc0 pre) = e → (∀ z ∈ pre, e ≠ some z) →
      HChain (hlistAddNext h n (lastLoc loc0 pre)) loc0 pre (some n) := by
    intro e hce hre hez
    have s1 := HChain_set_end h pre loc0 e (some n) hce hndpre (fun x hx => h0' x (by simp [hx]))
    -- compare the real result with `h.write L (some n)` on what the prefix reads
    refine (HChain_congr _ _ pre loc0 (some n) ?_ ?_ ?_).mpr s1
    · by_cases e1 : loc0 = lastLoc loc0 pre
      · rw [← e1] at f2 ⊢; simp [f2]
      · rw [f1 loc0 e1 h0]; simp [e1]
    · intro x hx
      have hxn : Loc.nodeNext x ≠ .nodeNext n := by
        intro e2; injection e2 with e2; exact hnpre (e2 ▸ hx)
      by_cases e1 : Loc.nodeNext x = lastLoc loc0 pre
      · rw [e1, f2]; simp
      · rw [f1 _ e1 hxn]; simp [e1]
    · intro x hx
      have hxn : x ≠ n := fun e2 => hnpre (e2 ▸ hx)
      rw [f4 x hxn (by rw [hre]; exact hez x hx)]; simp
  cases post with
  | nil =>
    simp only [List.append_nil] at hc hnd hn h0'
    have hre := HChain_read_last h pre loc0 none hc
    rw [HChain_append_cons]
    refine ⟨prefix_ok none hc hre (by simp), f6 (by simp [hre]), ?_⟩
    simp only [HChain]; rw [f3, hre]
  | cons y ys =>
    obtain ⟨c1, c2, c3⟩ := (HChain_append_cons h pre loc0 y ys none).mp hc
    have hre := HChain_read_last h pre loc0 (some y) c1
    have hyn : y ≠ n := fun e => hnpost (by simp [e])
    have hypre : ∀ z ∈ pre, (some y : Option Nat) ≠ some z := by
      intro z hz e; injection e with e; subst e
      exact (List.nodup_append.mp hnd).2.2 y hz y (by simp) rfl
    have hndpost : (y :: ys).Nodup := (List.nodup_append.mp hnd).2.1
    rw [HChain_append_cons]
    refine ⟨prefix_ok (some y) c1 hre hypre, f6 (by rw [hre]; simp [hyn]), ?_⟩
    simp only [HChain]
    refine ⟨by rw [f3, hre], f5 y hre hyn, ?_⟩
    refine (HChain_congr h _ ys (.nodeNext y) none ?_ ?_ ?_).mpr c3
    · exact f1 _ (fun e => hLpost y (by simp) e.symm) (by intro e; injection e with e; exact hyn e)
    · intro z hz
      refine f1 _ (fun e => hLpost z (by simp [hz]) e.symm) ?_
      intro e; injection e with e; exact hnpost (by simp [← e, hz])
    · intro z hz
      refine f4 z (fun e => hnpost (by simp [← e, hz])) ?_
      rw [hre]; intro e; injection e with e
      exact (List.nodup_cons.mp hndpost).1 (e ▸ hz)

/-- what `hlist_del(n)` leaves untouched, for a node whose `pprev` is `pp` -/
theorem hlistDel_frame (h : HHeap) (n : Nat) (pp : Loc) (hp : h.pprev n = some pp) :
    (∀ loc, loc ≠ pp → (hlistDel h n).read loc = h.read loc) ∧
    (hlistDel h n).read pp = h.read (.nodeNext n) ∧
    (∀ z, h.read (.nodeNext n) ≠ some z → (hlistDel h n).pprev z = h.pprev z) ∧
    (∀ y, h.read (.nodeNext n) = some y → (hlistDel h n).pprev y = some pp) := by
  unfold hlistDel
  simp only [hp, HHeap.next_eq_read]
  cases hr : h.read (.nodeNext n) with
  | none =>
    simp only [HHeap.read_write, HHeap.pprev_write, if_true]
    exact ⟨fun loc h1 => by simp [h1], hr, by simp, by simp⟩
  | some y =>
    simp only [HHeap.read_write, HHeap.read_setPprev, HHeap.pprev_write, HHeap.pprev_setPprev, if_true]
    refine ⟨fun loc h1 => by simp [h1], hr, ?_, ?_⟩
    · intro z hz
      have : z ≠ y := fun e => hz (by rw [e])
      simp [this]
    · intro y' e; injection e with e; subst e; simp

/-- GENERAL REMOVAL: `hlist_del(n)` of a chain member -/
theorem hlistDel_chain (h : HHeap) (n : Nat) (loc0 : Loc) (pre post : List Nat)
    (hc : HChain h loc0 (pre ++ n :: post) none) (hnd : (pre ++ n :: post).Nodup)
    (h0' : ∀ x ∈ pre ++ n :: post, loc0 ≠ .nodeNext x) :
    HChain (hlistDel h n) loc0 (pre ++ post) none := by
  obtain ⟨c1, c2, c3⟩ := (HChain_append_cons h pre loc0 n post none).mp hc
  obtain ⟨f1, f2, f3, f4⟩ := hlistDel_frame h n (lastLoc loc0 pre) c2
  have hndpre : pre.Nodup := (List.nodup_append.mp hnd).1
  have hndpost : (n :: post).Nodup := (List.nodup_append.mp hnd).2.1
  have hdisj : ∀ a ∈ pre, ∀ b ∈ n :: post, a ≠ b := (List.nodup_append.mp hnd).2.2
  have hnpre : n ∉ pre := fun hm => hdisj n hm n (by simp) rfl
  have hLpost : ∀ y ∈ n :: post, lastLoc loc0 pre ≠ .nodeNext y := by
    intro y hy
    rcases lastLoc_mem loc0 pre with e | ⟨x, hx, e⟩
    · rw [e]; exact h0' y (by simp at hy ⊢; right; exact hy)
    · rw [e]; intro e2; injection e2 with e2; subst e2; exact hdisj x hx x hy rfl
  have hnext : h.read (.nodeNext n) = post.head? := by
    cases post with
    | nil => simpa [HChain] using c3
    | cons y ys => simp only [HChain] at c3; simpa using c3.1
  -- the prefix, now ending in n's successor
  have prefix_ok : HChain (hlistDel h n) loc0 pre (post.head?) := by
    have s1 := HChain_set_end h pre loc0 (some n) (post.head?) c1 hndpre (fun x hx => h0' x (by simp [hx]))
    refine (HChain_congr _ _ pre loc0 _ ?_ ?_ ?_).mpr s1
    · by_cases e1 : loc0 = lastLoc loc0 pre
      · rw [← e1] at f2 ⊢; simp [f2, hnext]
      · rw [f1 loc0 e1]; simp [e1]
    · intro x hx
      by_cases e1 : Loc.nodeNext x = lastLoc loc0 pre
      · rw [e1, f2]; simp [hnext]
      · rw [f1 _ e1]; simp [e1]
    · intro x hx
      rw [f3 x]; · simp
      rw [hnext]
      cases post with
      | nil => simp
      | cons y ys => simp only [List.head?_cons]; intro e; injection e with e; subst e
                     exact hdisj y hx y (by simp) rfl
  cases post with
  | nil => simpa using prefix_ok
  | cons y ys =>
    simp only [HChain] at c3
    rw [HChain_append_cons]
    refine ⟨by simpa using prefix_ok, f4 y (by simpa using hnext), ?_⟩
    have hyys : y ∉ ys := (List.nodup_cons.mp (List.nodup_cons.mp hndpost).2).1
    refine (HChain_congr h _ ys (.nodeNext y) none ?_ ?_ ?_).mpr c3.2.2
    · exact f1 _ (fun e => hLpost y (by simp) e.symm)
    · intro z hz; exact f1 _ (fun e => hLpost z (by simp [hz]) e.symm)
    · intro z hz
      refine f3 z ?_
      rw [hnext]; simp only [List.head?_cons]; intro e; injection e with e
      exact hyys (e ▸ hz)

/-! #### the API-level statements -/

/-- `hlist_add_next(n, &head->first)`: push front -/
theorem hlist_add_front {h : HHeap} {l n : Nat} {xs : List Nat} (r : HList h l xs) (hn : n ∉ xs) :
    HList (hlistAddNext h n (.headFirst l)) l (n :: xs) := by
  refine ⟨List.nodup_cons.mpr ⟨hn, r.nodup⟩, ?_⟩
  have := hlistAddNext_chain h n (.headFirst l) [] xs (by simpa using r.chain) (by simpa using r.nodup)
    (by simpa using hn) (by simp) (by simp)
  simpa [lastLoc] using this

/-- `hlist_add_next(n, &p->next)`: insert right after the member `p` -/
theorem hlist_add_after {h : HHeap} {l n p : Nat} {pre post : List Nat} (r : HList h l (pre ++ p :: post))
    (hn : n ∉ pre ++ p :: post) : HList (hlistAddNext h n (.nodeNext p)) l (pre ++ p :: n :: post) := by
  have hnd : (pre ++ p :: n :: post).Nodup := by
    have : (pre ++ p :: n :: post).Perm (n :: (pre ++ p :: post)) := by
      have := (List.perm_middle (a := n) (l₁ := pre ++ [p]) (l₂ := post))
      simpa using this
    exact this.nodup_iff.mpr (List.nodup_cons.mpr ⟨hn, r.nodup⟩)
  refine ⟨hnd, ?_⟩
  have := hlistAddNext_chain h n (.headFirst l) (pre ++ [p]) post (by simpa using r.chain)
    (by simpa using r.nodup) (by simpa using hn) (by simp) (by simp)
  simpa [lastLoc_append] using this

/-- `hlist_del(n)` of a member: it leaves the list, the others keep their order -/
theorem hlist_del_member {h : HHeap} {l n : Nat} {pre post : List Nat} (r : HList h l (pre ++ n :: post)) :
    HList (hlistDel h n) l (pre ++ post) := by
  refine ⟨?_, hlistDel_chain h n (.headFirst l) pre post r.chain r.nodup (by simp)⟩
  have := r.nodup
  rw [List.nodup_append] at this ⊢
  refine ⟨this.1, (List.nodup_cons.mp this.2.1).2, fun a ha b hb => this.2.2 a ha b (by simp [hb])⟩

/-- `hlist_del` of a node initialised with `hlist_node_init` and not linked since: no effect -/
theorem hlist_del_unlinked (h : HHeap) (n : Nat) (hp : h.pprev n = none) : hlistDel h n = h := by
  simp [hlistDel, hp]

/-- other lists are not disturbed by an insertion into / a removal from this one -/
theorem hlist_frame_add {h : HHeap} {l2 n : Nat} {ys : List Nat} (L : Loc) (r2 : HList h l2 ys)
    (hL : L ≠ .nodeNext n) (hn : n ∉ ys) (h1 : L ≠ .headFirst l2) (h2 : ∀ y ∈ ys, L ≠ .nodeNext y)
    (h3 : ∀ y ∈ ys, h.read L ≠ some y) : HList (hlistAddNext h n L) l2 ys := by
  obtain ⟨f1, _, _, f4, _, _⟩ := hlistAddNext_frame h n L hL
  refine ⟨r2.nodup, (HChain_congr h _ ys (.headFirst l2) none ?_ ?_ ?_).mpr r2.chain⟩
  · exact f1 _ (fun e => h1 e.symm) (by simp)
  · intro y hy; exact f1 _ (fun e => h2 y hy e.symm) (by intro e; injection e with e; exact hn (e ▸ hy))
  · intro y hy; exact f4 y (fun e => hn (e ▸ hy)) (h3 y hy)

theorem hlist_frame_del {h : HHeap} {l l2 n : Nat} {pre post ys : List Nat} (r : HList h l (pre ++ n :: post))
    (r2 : HList h l2 ys) (hl : l ≠ l2) (hd : ∀ y ∈ ys, y ∉ pre ++ n :: post) : HList (hlistDel h n) l2 ys := by
  obtain ⟨c1, c2, c3⟩ := (HChain_append_cons h pre (.headFirst l) n post none).mp r.chain
  obtain ⟨f1, _, f3, _⟩ := hlistDel_frame h n _ c2
  have hpp : ∀ loc, (loc = .headFirst l2 ∨ ∃ y ∈ ys, loc = .nodeNext y) → loc ≠ lastLoc (.headFirst l) pre := by
    intro loc hloc e
    rcases lastLoc_mem (.headFirst l) pre with e1 | ⟨x, hx, e1⟩
    · rw [e1] at e
      rcases hloc with rfl | ⟨y, _, rfl⟩
      · injection e with e; exact hl e.symm
      · cases e
    · rw [e1] at e
      rcases hloc with rfl | ⟨y, hy, rfl⟩
      · cases e
      · injection e with e; subst e; exact hd y hy (by simp [hx])
  have hnext : ∀ z ∈ ys, h.read (.nodeNext n) ≠ some z := by
    intro z hz e
    cases post with
    | nil => simp [HChain] at c3; rw [c3] at e; cases e
    | cons y0 ys0 =>
      simp only [HChain] at c3; rw [c3.1] at e; injection e with e; subst e
      exact hd y0 hz (by simp)
  refine ⟨r2.nodup, (HChain_congr h _ ys (.headFirst l2) none ?_ ?_ ?_).mpr r2.chain⟩
  · exact f1 _ (hpp _ (Or.inl rfl))
  · intro y hy; exact f1 _ (hpp _ (Or.inr ⟨y, hy, rfl⟩))
  · intro y hy; exact f3 y (hnext y hy)

end Igris.C01
