/-
  C01 — lemmas for the operations that had only a correspondence tie before:
  `igris::slist::move_front`, `dlist_move_sorted`, and the hlist
  (`hlist_add_next`, `hlist_del`).
-/
import IgrisModel.C01.Refine
import IgrisModel.C01.Slist
namespace Igris.C01

/-! ### slist::move_front -/

theorem SHeap.set_next (h : SHeap) (a v y : Nat) : (h.set a v).next y = if y = a then v else h.next y := rfl
theorem SHeap.set_next_eq (h : SHeap) (a v : Nat) : (h.set a v).next = upd h.next a v := rfl

/-- the unlink walk started at `p`, where `p :: rest` is a suffix of `head :: xs`
that does not contain `n`: nothing is written -/
theorem slistUnlinkFrom_absent (h : SHeap) (head n : Nat) :
    ∀ (rest : List Nat) (p fuel : Nat), Seg h.next p rest head → n ∉ rest → rest.length < fuel →
      slistUnlinkFrom h head n fuel p = h := by
  intro rest
  induction rest with
  | nil =>
    intro p fuel hs _ hf
    simp only [Seg] at hs
    match fuel, hf with
    | f + 1, _ => simp [slistUnlinkFrom, hs]
  | cons x xs ih =>
    intro p fuel hs hn hf
    simp only [Seg] at hs
    match fuel, hf with
    | f + 1, hf =>
      have hxn : x ≠ n := fun e => hn (by simp [e])
      by_cases hxh : x = head
      · simp [slistUnlinkFrom, hs.1, hxh]
      · simp only [slistUnlinkFrom, hs.1, hxh, hxn, if_false]
        exact ih x f hs.2 (fun hm => hn (by simp [hm])) (by simp at hf; omega)

/-- the unlink walk started at `p` in front of `pre ++ n :: post`: the
predecessor of `n` is redirected to `n`'s successor -/
theorem slistUnlinkFrom_present (h : SHeap) (head n : Nat) :
    ∀ (pre : List Nat) (p fuel : Nat) (post : List Nat),
      Seg h.next p (pre ++ n :: post) head → (p :: (pre ++ n :: post)).Nodup →
      head ∉ pre ++ n :: post → pre.length < fuel →
      slistUnlinkFrom h head n fuel p = h.set ((p :: pre).getLast (by simp)) (h.next n) := by
  intro pre
  induction pre with
  | nil =>
    intro p fuel post hs _ hh hf
    simp only [List.nil_append, Seg] at hs
    have hnh : n ≠ head := fun e => hh (by simp [e])
    match fuel, hf with
    | f + 1, _ => simp [slistUnlinkFrom, hs.1, hnh]
  | cons x xs ih =>
    intro p fuel post hs hnd hh hf
    simp only [List.cons_append, Seg] at hs
    match fuel, hf with
    | f + 1, hf =>
      have hxh : x ≠ head := fun e => hh (by simp [e])
      have hnd' : (x :: (xs ++ n :: post)).Nodup := (List.nodup_cons.mp hnd).2
      have hxn : x ≠ n := by
        intro e; subst e
        have := (List.nodup_cons.mp hnd').1
        exact this (by simp)
      simp only [slistUnlinkFrom, hs.1, hxh, hxn, if_false]
      rw [ih x f post hs.2 hnd' (fun hm => hh (by simp at hm ⊢; right; exact hm)) (by simp at hf; omega)]
      simp

/-- `move_front(n)` of a node that is not in the list: it becomes the first element -/
theorem slistMoveFront_absent (h : SHeap) (head n : Nat) (xs : List Nat) (r : SRing h head xs)
    (hn : n ∉ head :: xs) (fuel : Nat) (hf : xs.length < fuel) :
    SRing (slistMoveFront h fuel n head) head (n :: xs) := by
  unfold slistMoveFront
  rw [slistUnlinkFrom_absent h head n xs head fuel r.fwd (fun hm => hn (by simp [hm])) hf]
  exact (slistAdd_ring h n head xs r hn).1

/-- `move_front(n)` of a node that is already in the list (anywhere): it is
unlinked from its place and becomes the first element; the order of the others is kept -/
theorem slistMoveFront_present (h : SHeap) (head n : Nat) (pre post : List Nat)
    (r : SRing h head (pre ++ n :: post)) (fuel : Nat) (hf : pre.length < fuel) :
    SRing (slistMoveFront h fuel n head) head (n :: (pre ++ post)) := by
  unfold slistMoveFront
  have hh : head ∉ pre ++ n :: post := (List.nodup_cons.mp r.nodup).1
  rw [slistUnlinkFrom_present h head n pre head fuel post r.fwd r.nodup hh hf]
  -- the list without n
  have hnd := r.nodup
  have hsplit := (Seg_append h.next head pre n post head).mp r.fwd
  have hnd2 : (head :: (pre ++ post)).Nodup := by
    have : (head :: (pre ++ n :: post)).Perm (n :: head :: (pre ++ post)) := by
      refine (List.Perm.cons head List.perm_middle).trans (List.Perm.swap _ _ _)
    exact (List.nodup_cons.mp (this.nodup_iff.mp hnd)).2
  have hnn : n ∉ head :: (pre ++ post) := by
    have : (head :: (pre ++ n :: post)).Perm (n :: head :: (pre ++ post)) := by
      refine (List.Perm.cons head List.perm_middle).trans (List.Perm.swap _ _ _)
    exact (List.nodup_cons.mp (this.nodup_iff.mp hnd)).1
  have hlast_ne : ∀ y ∈ post, y ≠ (head :: pre).getLast (by simp) := by
    intro y hy e
    have hm : (head :: pre).getLast (by simp) ∈ head :: pre := List.getLast_mem _
    rw [← e] at hm
    have hd : (head :: (pre ++ n :: post)).Nodup := hnd
    rw [show head :: (pre ++ n :: post) = (head :: pre) ++ (n :: post) by simp] at hd
    exact (List.nodup_append.mp hd).2.2 y hm y (by simp [hy]) rfl
  have hn_ne : n ≠ (head :: pre).getLast (by simp) := by
    intro e
    have hm : (head :: pre).getLast (by simp) ∈ head :: pre := List.getLast_mem _
    rw [← e] at hm
    have hd : (head :: (pre ++ n :: post)).Nodup := hnd
    rw [show head :: (pre ++ n :: post) = (head :: pre) ++ (n :: post) by simp] at hd
    exact (List.nodup_append.mp hd).2.2 n hm n (by simp) rfl
  have r' : SRing (h.set ((head :: pre).getLast (by simp)) (h.next n)) head (pre ++ post) := by
    refine ⟨hnd2, ?_⟩
    have hpre : (head :: pre).Nodup := by
      have hd : (head :: (pre ++ n :: post)).Nodup := hnd
      rw [show head :: (pre ++ n :: post) = (head :: pre) ++ (n :: post) by simp] at hd
      exact (List.nodup_append.mp hd).1
    have s1 := Seg_set_last h.next head pre n (h.next n) hsplit.1 hpre
    cases post with
    | nil =>
      simp only [Seg] at hsplit
      rw [SHeap.set_next_eq]; simpa [hsplit.2] using s1
    | cons y ys =>
      have hs2 := hsplit.2
      simp only [Seg] at hs2
      rw [Seg_append]
      refine ⟨by rw [SHeap.set_next_eq]; simpa [hs2.1] using s1, ?_⟩
      refine (Seg_congr h.next _ y ys head ?_).mpr hs2.2
      intro z hz
      have : z ≠ (head :: pre).getLast (by simp) := hlast_ne z hz
      simp [SHeap.set, this]
  exact (slistAdd_ring _ n head (pre ++ post) r' hnn).1

/-! ### dlist_move_sorted -/

/-- the position found by the `dlist_for_each_entry … break` loop: the first
entry for which the comparator answers true, the head when there is none -/
theorem sortedPos_spec (h : Heap) (cmp : Nat → Nat → Bool) (added head : Nat) :
    ∀ (rest : List Nat) (p fuel : Nat), Seg h.next p rest head → head ∉ p :: rest → rest.length + 1 < fuel →
      sortedPos h cmp added head fuel p = ((p :: rest).find? (cmp added)).getD head := by
  intro rest
  induction rest with
  | nil =>
    intro p fuel hs hh hf
    simp only [Seg] at hs
    have hph : p ≠ head := fun e => hh (by simp [e])
    match fuel, hf with
    | f + 2, _ =>
      by_cases hc : cmp added p = true
      · simp [sortedPos, hph, hc]
      · simp [sortedPos, hph, hc, hs]
  | cons x xs ih =>
    intro p fuel hs hh hf
    simp only [Seg] at hs
    have hph : p ≠ head := fun e => hh (by simp [e])
    match fuel, hf with
    | f + 1, hf =>
      by_cases hc : cmp added p = true
      · simp [sortedPos, hph, hc]
      · have := ih x f hs.2 (fun hm => hh (by simp at hm ⊢; right; exact hm)) (by simp at hf ⊢; omega)
        simp only [sortedPos, hph, hc, if_false, hs.1, this]
        simp [List.find?, hc]

theorem find_split (q : Nat → Bool) (xs : List Nat) :
    (xs.find? q = none ∧ xs.takeWhile (fun y => !q y) = xs ∧ xs.dropWhile (fun y => !q y) = []) ∨
    (∃ x post, xs.find? q = some x ∧ q x = true ∧ xs.dropWhile (fun y => !q y) = x :: post ∧
       xs = xs.takeWhile (fun y => !q y) ++ x :: post) := by
  induction xs with
  | nil => left; simp
  | cons a as ih =>
    by_cases ha : q a = true
    · right; exact ⟨a, as, by simp [List.find?, ha], ha, by simp [List.dropWhile, ha], by simp [List.takeWhile, ha]⟩
    · rcases ih with ⟨h1, h2, h3⟩ | ⟨x, post, h1, h2, h3, h4⟩
      · left; simp [List.find?, ha, h1, List.takeWhile, List.dropWhile, h2, h3]
      · right
        refine ⟨x, post, by simp [List.find?, ha, h1], h2, by simp [List.dropWhile, ha, h3], ?_⟩
        simp only [List.takeWhile, ha, Bool.not_false, List.cons_append]
        rw [← h4]

/-- `dlist_move_sorted(added, head, member, comparator)` with a lone `added`:
the entry is inserted in front of the first entry for which the comparator holds
(at the end when there is none); every other entry keeps its place. -/
theorem moveSorted_ok {h : Heap} {cmp : Nat → Nat → Bool} {added head : Nat} {xs : List Nat} {B : Rings}
    (ok : RingsOK h ([added] :: (head :: xs) :: B)) (fuel : Nat) (hf : xs.length + 1 < fuel) :
    RingsOK (dlistMoveSorted h cmp fuel added head)
      ((head :: (xs.takeWhile (fun y => !cmp added y) ++ added :: xs.dropWhile (fun y => !cmp added y))) :: B) := by
  obtain ⟨_, _, ok1⟩ := ok.head
  obtain ⟨⟨a', xs', e, r⟩, _, _⟩ := ok1.head
  injection e with e1 e2; subst e1; subst e2
  have hh : head ∉ xs := (List.nodup_cons.mp r.nodup).1
  unfold dlistMoveSorted
  cases xs with
  | nil =>
    have hn : h.next head = head := r.fwd
    have : sortedPos h cmp added head fuel (h.next head) = head := by
      match fuel, hf with
      | f + 1, _ => simp [sortedPos, hn]
    rw [this]
    simpa using ok.addPrev
  | cons x0 xs0 =>
    have hfw := r.fwd; simp only [Seg] at hfw
    rw [hfw.1, sortedPos_spec h cmp added head xs0 x0 fuel hfw.2 hh (by simp at hf; omega)]
    rcases find_split (cmp added) (x0 :: xs0) with ⟨h1, h2, h3⟩ | ⟨x, post, h1, _, h3, h4⟩
    · rw [h1, h2, h3]
      simpa using ok.addPrev
    · rw [h1, h3]
      generalize (x0 :: xs0).takeWhile (fun y => !cmp added y) = pre at h4 ⊢
      rw [h4] at ok
      -- read the ring from x, insert before x, read it from head again
      have ok2 : RingsOK h ((x :: (post ++ head :: pre)) :: [added] :: B) := by
        have := swap12 ok
        have := RingsOK.rotN (l1 := head :: pre) (b := x) (l2 := post) (by simpa using this)
        simpa using this
      have ok3 := (swap12 ok2).addPrev
      have := RingsOK.rotN (l1 := x :: post) (b := head) (l2 := pre ++ [added]) (by simpa using ok3)
      simpa using this

/-- hence a list kept sorted by a key stays sorted: with the comparator
`key added < key pos` the new entry lands after every entry with a key `≤` its own
(ties are FIFO) and in front of every entry with a larger key -/
theorem moveSorted_sorted (key : Nat → Int) (added : Nat) (xs : List Nat)
    (hs : xs.Pairwise (fun a b => key a ≤ key b)) :
    (xs.takeWhile (fun y => !decide (key added < key y)) ++
      added :: xs.dropWhile (fun y => !decide (key added < key y))).Pairwise (fun a b => key a ≤ key b) := by
  induction xs with
  | nil => simp
  | cons a as ih =>
    have ha := List.pairwise_cons.mp hs
    by_cases hc : key added < key a
    · simp only [List.takeWhile, List.dropWhile, hc, decide_true, Bool.not_true, List.nil_append]
      refine List.pairwise_cons.mpr ⟨?_, hs⟩
      intro b hb
      rcases List.mem_cons.mp hb with rfl | hb
      · omega
      · have := ha.1 b hb; omega
    · simp only [List.takeWhile, List.dropWhile, hc, decide_false, Bool.not_false, List.cons_append]
      refine List.pairwise_cons.mpr ⟨?_, ih ha.2⟩
      intro b hb
      simp only [List.mem_append, List.mem_cons] at hb
      rcases hb with hb | rfl | hb
      · exact ha.1 b ((List.takeWhile_sublist _).subset hb)
      · omega
      · exact ha.1 b ((List.dropWhile_sublist _).subset hb)

end Igris.C01
