import IgrisModel.C01.Lemmas
namespace Igris.C01

/-- a singly linked ring: head, then `xs`, then back to head -/
structure SRing (h : SHeap) (head : Nat) (xs : List Nat) : Prop where
  nodup : (head :: xs).Nodup
  fwd : Seg h.next head xs head

theorem swalk_eq_walk (h : SHeap) (head fuel p : Nat) :
    swalk h head fuel p = walkNext ⟨h.next, h.next⟩ head fuel p := by
  induction fuel generalizing p with
  | zero => rfl
  | succ f ih => simp only [swalk, walkNext, ih]

/-- traversal of a well-formed slist yields its contents in order -/
theorem slistToList_ring (h : SHeap) (head : Nat) (xs : List Nat) (r : SRing h head xs) (fuel : Nat)
    (hf : xs.length + 1 < fuel) : slistToList h fuel head = xs := by
  unfold slistToList
  rw [swalk_eq_walk]
  cases xs with
  | nil =>
    have := r.fwd; simp only [Seg] at this
    match fuel, hf with
    | f + 1, _ => simp [walkNext, this]
  | cons x xs =>
    have hfw := r.fwd; simp only [Seg] at hfw
    rw [hfw.1]
    apply walkNext_seg ⟨h.next, h.next⟩ head xs x fuel hfw.2
    · intro hm; exact (List.nodup_cons.mp r.nodup).1 hm
    · simp at hf ⊢; omega

theorem slistAdd_next (h : SHeap) (link head y : Nat) :
    (slistAdd h link head).next y = if y = head then link else if y = link then h.next head else h.next y := by
  simp [slistAdd, SHeap.set]

/-- `slist_add` / `add_first` of a node that is not in the list: it becomes the first element -/
theorem slistAdd_ring (h : SHeap) (link head : Nat) (xs : List Nat) (r : SRing h head xs)
    (hl : link ∉ head :: xs) :
    SRing (slistAdd h link head) head (link :: xs) ∧
    (∀ y, y ∉ [link, head] → (slistAdd h link head).next y = h.next y) := by
  have hlh : link ≠ head := fun e => hl (by simp [e])
  refine ⟨⟨?_, ?_⟩, ?_⟩
  · have := r.nodup
    simp only [List.nodup_cons, List.mem_cons, not_or] at this hl ⊢
    exact ⟨⟨fun e => hl.1 e.symm, this.1⟩, hl.2, this.2⟩
  · simp only [Seg]
    refine ⟨by simp [slistAdd_next], ?_⟩
    apply Seg_shift_start h.next _ head link xs head r.fwd
    · simp [slistAdd_next, hlh]
    · intro y hy
      have h1 : y ≠ head := fun e => (List.nodup_cons.mp r.nodup).1 (e ▸ hy)
      have h2 : y ≠ link := fun e => hl (by simp [← e, hy])
      simp [slistAdd_next, h1, h2]
  · intro y hy
    simp only [List.mem_cons, List.not_mem_nil, or_false, not_or] at hy
    simp [slistAdd_next, hy.1, hy.2]

/-- `slist_pop_first`: unlinks and returns the first element; NULL on an empty list -/
theorem slistPopFirst_ring (h : SHeap) (head x : Nat) (xs : List Nat) (r : SRing h head (x :: xs)) :
    (slistPopFirst h head).2 = some x ∧ SRing (slistPopFirst h head).1 head xs := by
  have hfw := r.fwd; simp only [Seg] at hfw
  have hxh : x ≠ head := by
    have := r.nodup; simp only [List.nodup_cons, List.mem_cons, not_or] at this
    exact fun e => this.1.1 e.symm
  have hnd : (head :: xs).Nodup := by
    have := r.nodup; simp only [List.nodup_cons, List.mem_cons, not_or] at this ⊢
    exact ⟨this.1.2, this.2.2⟩
  simp only [slistPopFirst, hfw.1, hxh, if_false]
  refine ⟨trivial, hnd, ?_⟩
  -- head now points at x's successor; the rest of the chain is untouched
  apply Seg_shift_start h.next _ x head xs head hfw.2
  · simp [SHeap.set]
  · intro y hy
    have : y ≠ head := fun e => (List.nodup_cons.mp hnd).1 (e ▸ hy)
    simp [SHeap.set, this]

theorem slistPopFirst_empty (h : SHeap) (head : Nat) (r : SRing h head []) :
    slistPopFirst h head = (h, none) := by
  have := r.fwd; simp only [Seg] at this
  simp [slistPopFirst, this]

end Igris.C01
